(** * Proofs.GenEpOne — in a valid position that carries en-passant state the side to move is
    attacked by at most one enemy man.

    [pos_valid] contains [ep_ok]: with the double-pushed pawn put back on its origin square the
    side to move is not in check.  Hence every checker owes its check to the double push: it is
    the pushed pawn itself, or a slider whose line to the king passes through the vacated origin
    square.  There is at most one slider of the second kind (the nearest man beyond the origin
    square on the ray from the king), and the two kinds exclude each other (the king would be
    a pawn capture away from the pawn and on a queen line through the square two ranks behind
    the pawn: offset (±1, 3)). *)
From Coq Require Import Lia ZifyBool ZifyN ZifyNat List.
From Chess Require Import Base.Bits Spec.Geometry Spec.Rules Model.Board.
From Chess Require Import Proofs.BitsFacts Proofs.TablesLib Proofs.TablesMeaning Proofs.AbsBoard
                          Proofs.CanonAttack Proofs.CanonCheckers Proofs.CanonPinned
                          Proofs.NullMove Proofs.CanonNullMove Proofs.CanonScratch.
Import ListNotations.
Open Scope N_scope.

(** ** 1. Small list facts about [upd] *)
Lemma epo_upd_length {A} (l:list A) : forall i x, length (upd l i x) = length l.
Proof.
  induction l as [|h tl IH]; intros i x; [reflexivity|].
  destruct i as [|i]; cbn [upd length]; [reflexivity|]. rewrite IH. reflexivity.
Qed.
Lemma epo_nth_upd_eq {A} (l:list A) : forall i x d, (i < length l)%nat -> nth i (upd l i x) d = x.
Proof.
  induction l as [|h tl IH]; intros i x d Hi; cbn [length] in Hi; [lia|].
  destruct i as [|i]; cbn [upd nth]; [reflexivity|]. apply IH. lia.
Qed.
Lemma epo_nth_upd_ne {A} (l:list A) : forall i j x d, i <> j -> nth j (upd l i x) d = nth j l d.
Proof.
  induction l as [|h tl IH]; intros i j x d Hij; [reflexivity|].
  destruct i as [|i], j as [|j]; cbn [upd nth]; try reflexivity; try congruence.
  apply IH. congruence.
Qed.

(** ** 2. Spec-level reading of one ray: on the ray and nothing in between *)
Lemma ray_char q s t d : s < 64 -> t < 64 -> In d king_dirs ->
  (In t (ray q s d 7) <->
   on_dir s t d = true /\ forall i, N.testbit (between s t) i = true -> occ q i = false).
Proof.
  intros Hs Ht Hd.
  assert (Hocc : forall x, x < 64 -> occ q x = N.testbit (bb_of (occ q)) x)
    by (intros x Hx; symmetry; apply bb_of_testbit_lt, Hx).
  rewrite (ray_walk q _ Hocc d 7 s t Hs), (walk_between d s t _ Hd Hs Ht), andb_true_iff, N.eqb_eq.
  rewrite land_eq0_bits.
  split; intros [H1 H2]; (split; [exact H1|]); intros i Hi.
  - rewrite (Hocc i (between_lt64 s t i Hs Ht Hi)). apply H2, Hi.
  - rewrite <- (Hocc i (between_lt64 s t i Hs Ht Hi)). apply H2, Hi.
Qed.

Lemma has_at q s pt c : has q s pt c = true -> at_ q s = Some (pt,c).
Proof.
  unfold has. destruct (at_ q s) as [[pt' c']|]; [|discriminate].
  intro H. apply andb_prop in H. destruct H as [H1 H2].
  destruct pt, pt'; try discriminate H1; destruct c, c'; try discriminate H2; reflexivity.
Qed.

Lemma occ_false_at q s : occ q s = false -> at_ q s = None.
Proof. unfold occ. destruct (at_ q s); [discriminate|reflexivity]. Qed.

Lemma own_occ q c s : own q c s = true -> occ q s = true.
Proof. unfold own, colour_at, occ. destruct (at_ q s) as [[pt c']|]; [reflexivity|discriminate]. Qed.

Lemma attackers_nil q c t x : attacked_by q c t = false -> x < 64 ->
  own q c x && attacks q x t = false.
Proof.
  unfold attacked_by. intros H Hx. destruct (attackers q c t) as [|a l] eqn:E; [|discriminate H].
  destruct (own q c x && attacks q x t) eqn:E2; [|reflexivity].
  assert (Hin : In x (attackers q c t)).
  { unfold attackers. apply filter_In. split; [apply in_all_sq, Hx|exact E2]. }
  rewrite E in Hin. destruct Hin.
Qed.

(** ** 3. The put-back position: what a checker must look like *)
Section PutBack.
Variables (p p0 : pos) (o : color) (ps g k : N).
Hypothesis Hk : k < 64.
Hypothesis Hsame : forall s, s <> ps -> s <> g -> at_ p0 s = at_ p s.
Hypothesis Hp_g : at_ p g = None.
Hypothesis Hp0_ps : at_ p0 ps = None.
Hypothesis Hnc : forall x, x < 64 -> own p0 o x && attacks p0 x k = false.

(** the line from [x] to [k] passes through [g], and apart from that it is empty *)
Definition through (x:N) : Prop :=
  N.testbit (between x k) g = true /\ forall i, N.testbit (between x k) i = true -> occ p i = false.

Lemma slides_transfer x ds : x < 64 -> (forall d, In d ds -> In d king_dirs) ->
  In k (slides p x ds) -> In k (slides p0 x ds) \/ through x.
Proof.
  intros Hx Hds H. apply slides_in in H. destruct H as [d [Hd H]].
  apply (ray_char p x k d Hx Hk (Hds d Hd)) in H. destruct H as [H1 H2].
  destruct (N.testbit (between x k) g) eqn:Eg.
  - right. split; [exact Eg|exact H2].
  - left. apply slides_in. exists d. split; [exact Hd|].
    apply (ray_char p0 x k d Hx Hk (Hds d Hd)). split; [exact H1|]. intros i Hi.
    destruct (N.eq_dec i ps) as [->|Hne]; [unfold occ; rewrite Hp0_ps; reflexivity|].
    assert (Hig : i <> g) by (intros ->; congruence).
    unfold occ. rewrite (Hsame i Hne Hig). apply H2 in Hi. unfold occ in Hi. exact Hi.
Qed.

Lemma king_dirs_self d : In d king_dirs -> In d king_dirs.
Proof. exact (fun H => H). Qed.

Theorem checker_kind x : x < 64 -> own p o x = true -> attacks p x k = true ->
  x = ps \/ through x.
Proof.
  intros Hx Hown Hatt.
  destruct (N.eq_dec x ps) as [E|Hne]; [left; exact E|right].
  assert (Hxg : x <> g).
  { intros ->. unfold own, colour_at in Hown. rewrite Hp_g in Hown. discriminate Hown. }
  pose proof (Hsame x Hne Hxg) as Hat.
  assert (Hown0 : own p0 o x = true) by (unfold own, colour_at in *; rewrite Hat; exact Hown).
  pose proof (Hnc x Hx) as Hn. rewrite Hown0 in Hn. cbn [andb] in Hn.
  unfold attacks in *. rewrite mem_in in Hatt.
  assert (Hn' : ~ In k (attack_set p0 x)).
  { intro Hin. apply mem_in in Hin. rewrite Hin in Hn. discriminate Hn. }
  unfold attack_set in *. rewrite Hat in Hn'.
  destruct (at_ p x) as [[[] c]|].
  - contradiction.
  - contradiction.
  - destruct (slides_transfer x bishop_dirs Hx bishop_in_king Hatt) as [H|H]; [contradiction|exact H].
  - destruct (slides_transfer x rook_dirs Hx rook_in_king Hatt) as [H|H]; [contradiction|exact H].
  - destruct (slides_transfer x king_dirs Hx king_dirs_self Hatt) as [H|H]; [contradiction|exact H].
  - contradiction.
  - destruct Hatt.
Qed.
End PutBack.

(** ** 4. Geometry *)
(** two occupied squares that both see [k] through [g] along otherwise empty segments coincide *)
Lemma slider_unique q k g x y : k < 64 -> x < 64 -> y < 64 ->
  through q g k x -> through q g k y -> occ q x = true -> occ q y = true -> x = y.
Proof.
  intros Hk Hx Hy [Hgx Hex] [Hgy Hey] Hox Hoy.
  pose proof (between_lt64 x k g Hx Hk Hgx) as Hg.
  destruct (between_ray k x g Hk Hx Hgx) as [d [Hd [H1 H2]]].
  destruct (between_ray k y g Hk Hy Hgy) as [d' [Hd' [H1' H2']]].
  assert (d = d') by (apply (ray_unique k g d d' Hk Hd Hd' H1 H1')). subst d'.
  destruct (ray_trans d k g x Hd Hk H1 H2) as [_ Hbx].
  destruct (ray_trans d k g y Hd Hk H1 H2') as [_ Hby].
  destruct (ray_order g d x y Hg Hd H2 H2') as [E|[E|E]]; [exact E| |]; exfalso.
  - assert (Hin : N.testbit (between y k) x = true)
      by (rewrite Hby, !N.lor_spec, E; apply orb_true_r).
    rewrite (Hey x Hin) in Hox. discriminate Hox.
  - assert (Hin : N.testbit (between x k) y = true)
      by (rewrite Hbx, !N.lor_spec, E; apply orb_true_r).
    rewrite (Hex y Hin) in Hoy. discriminate Hoy.
Qed.

(** a king that is a pawn capture away from the pushed pawn is on no queen line through the
    pawn's origin square *)
Definition ep_geom_ct (c:color) (t:N) : bool :=
  match step t (0, - fwdc c)%Z, step t (0, fwdc c)%Z with
  | Some ps, Some g =>
      forallb (fun k => if mem k (steps ps (pawn_caps (opp c)))
                        then forallb (fun y => negb (N.testbit (between y k) g)) all_sq
                        else true) all_sq
  | _, _ => true
  end.

Lemma ep_geom_sweep : forallb (fun c => forallb (ep_geom_ct c) all_sq) both_colours = true.
Proof. vm_cast_no_check (eq_refl true). Qed.

Lemma ep_geom c t ps g k y : t < 64 -> k < 64 -> y < 64 ->
  step t (0, - fwdc c)%Z = Some ps -> step t (0, fwdc c)%Z = Some g ->
  In k (steps ps (pawn_caps (opp c))) -> N.testbit (between y k) g = false.
Proof.
  intros Ht Hk Hy Hps Hg Hin. pose proof ep_geom_sweep as H. rewrite forallb_forall in H.
  assert (Hc : In c both_colours) by (destruct c; cbn; auto).
  specialize (H c Hc). pose proof (sweep64 _ H t Ht) as H'. unfold ep_geom_ct in H'.
  rewrite Hps, Hg in H'. pose proof (sweep64 _ H' k Hk) as H''. cbv beta in H''.
  apply mem_in in Hin. rewrite Hin in H''. pose proof (sweep64 _ H'' y Hy) as H3. cbv beta in H3.
  destruct (N.testbit (between y k) g); [discriminate H3|reflexivity].
Qed.

(** ** 5. Unpacking [pos_valid] *)
Lemma pos_valid_ep p : pos_valid p = true -> length (placement p) = 64%nat /\ ep_ok p = true.
Proof.
  unfold pos_valid. intro H. apply andb_prop in H. destruct H as [H Hep]. split; [|exact Hep].
  repeat (apply andb_prop in H; destruct H as [H _]). apply Nat.eqb_eq, H.
Qed.

Definition put_back (p:pos) (ps g:N) : pos :=
  {| placement := updN (updN (placement p) ps None) g (Some (Pawn, opp (turn p)));
     turn := opp (turn p); wk := wk p; wq := wq p; bk := bk p; bq := bq p; ep := None |}.

Lemma ep_ok_facts p t : ep p = Some t -> ep_ok p = true ->
  exists ps g, t < 64 /\ step t (0, - fwdc (turn p))%Z = Some ps /\ step t (0, fwdc (turn p))%Z = Some g /\
    has p ps Pawn (opp (turn p)) = true /\ occ p t = false /\ occ p g = false /\
    in_check (put_back p ps g) (turn p) = false.
Proof.
  unfold ep_ok. intros -> H. cbv zeta in H.
  apply andb_prop in H. destruct H as [H0 H]. apply andb_prop in H0. destruct H0 as [Ht _].
  apply N.ltb_lt in Ht.
  destruct (step t (0, - fwdc (turn p))%Z) as [ps|]; [|discriminate H].
  destruct (step t (0, fwdc (turn p))%Z) as [g|]; [|discriminate H].
  apply andb_prop in H. destruct H as [H Hnc].
  apply andb_prop in H. destruct H as [H _].
  apply andb_prop in H. destruct H as [H Hog].
  apply andb_prop in H. destruct H as [Hhas Hot].
  exists ps, g. unfold put_back.
  repeat split; try assumption; try reflexivity.
  - destruct (occ p t); [discriminate Hot|reflexivity].
  - destruct (occ p g); [discriminate Hog|reflexivity].
  - match goal with |- ?x = false => destruct x; [discriminate Hnc|reflexivity] end.
Qed.

(** the put-back placement, square by square *)
Lemma put_back_at p ps g s : length (placement p) = 64%nat -> g < 64 ->
  at_ (put_back p ps g) s =
  if s =? g then Some (Pawn, opp (turn p)) else if s =? ps then None else at_ p s.
Proof.
  intros Hlen Hg. unfold at_, put_back. cbn [placement]. unfold updN.
  destruct (N.eqb_spec s g) as [->|Hsg].
  - apply epo_nth_upd_eq. rewrite epo_upd_length, Hlen. lia.
  - rewrite epo_nth_upd_ne by lia. destruct (N.eqb_spec s ps) as [->|Hsp].
    + destruct (Nat.lt_ge_cases (N.to_nat ps) (length (placement p))) as [Hlt|Hge].
      * apply epo_nth_upd_eq, Hlt.
      * apply nth_overflow. rewrite epo_upd_length. exact Hge.
    + apply epo_nth_upd_ne. lia.
Qed.

(** ** 6. The specification-level statement *)
Theorem ep_one_checker_spec p t : pos_valid p = true -> ep p = Some t ->
  forall x y, In x (checkers_of p) -> In y (checkers_of p) -> x = y.
Proof.
  intros Hv Hep x y.
  destruct (pos_valid_ep p Hv) as [Hlen Hok].
  destruct (ep_ok_facts p t Hep Hok) as [ps [g [Ht [Hps [Hg [Hhas [Hot [Hog Hnc]]]]]]]].
  set (c := turn p) in *. set (o := opp c) in *.
  pose proof (proj1 (step_spec t ps _ Ht) Hps) as [Hps64 _].
  pose proof (proj1 (step_spec t g _ Ht) Hg) as [Hg64 _].
  pose proof (has_at _ _ _ _ Hhas) as Hat_ps.
  pose proof (occ_false_at _ _ Hog) as Hat_g.
  assert (Hpsg : ps <> g) by (intros ->; congruence).
  unfold checkers_of. fold c. destruct (king_sq p c) as [k|] eqn:Hks; [|intros []].
  fold o.
  assert (Hk : k < 64).
  { unfold king_sq in Hks. apply find_some in Hks. apply in_all_sq, Hks. }
  set (p0 := put_back p ps g) in *.
  pose proof (put_back_at p ps g) as Hpb. fold p0 in Hpb.
  assert (Hsame : forall s, s <> ps -> s <> g -> at_ p0 s = at_ p s).
  { intros s H1 H2. rewrite (Hpb s Hlen Hg64).
    destruct (N.eqb_spec s g); [contradiction|]. destruct (N.eqb_spec s ps); [contradiction|reflexivity]. }
  assert (Hp0_ps : at_ p0 ps = None).
  { rewrite (Hpb ps Hlen Hg64). destruct (N.eqb_spec ps g); [contradiction|].
    rewrite N.eqb_refl. reflexivity. }
  assert (Hp0_g : at_ p0 g = Some (Pawn, o)).
  { rewrite (Hpb g Hlen Hg64), N.eqb_refl. reflexivity. }
  assert (Hks0 : king_sq p0 c = Some k).
  { rewrite <- Hks. unfold king_sq. apply find_ext_in. intros s _. unfold has.
    destruct (N.eq_dec s g) as [->|Hsg]; [rewrite Hp0_g, Hat_g; reflexivity|].
    destruct (N.eq_dec s ps) as [->|Hsp]; [rewrite Hp0_ps, Hat_ps; reflexivity|].
    rewrite (Hsame s Hsp Hsg). reflexivity. }
  unfold in_check in Hnc. rewrite Hks0 in Hnc. fold o in Hnc.
  pose proof (fun z => attackers_nil p0 o k z Hnc) as Hnil.
  pose proof (checker_kind p p0 o ps g k Hk Hsame Hat_g Hp0_ps Hnil) as Hkind.
  unfold attackers. rewrite !filter_In, !in_all_sq.
  intros [Hx Hax] [Hy Hay].
  apply andb_prop in Hax. destruct Hax as [Hox Hax].
  apply andb_prop in Hay. destruct Hay as [Hoy Hay].
  assert (Hpawn : forall z, attacks p ps k = true -> through p g k z -> z < 64 -> False).
  { intros z Ha [Hz _] Hz64. unfold attacks, attack_set in Ha. rewrite Hat_ps in Ha.
    apply mem_in in Ha. unfold o in Ha.
    rewrite (ep_geom c t ps g k z Ht Hk Hz64 Hps Hg Ha) in Hz. discriminate Hz. }
  destruct (Hkind x Hx Hox Hax) as [Ex|Tx]; destruct (Hkind y Hy Hoy Hay) as [Ey|Ty].
  - congruence.
  - exfalso. subst x. exact (Hpawn y Hax Ty Hy).
  - exfalso. subst y. exact (Hpawn x Hay Tx Hx).
  - exact (slider_unique p k g x y Hk Hx Hy Tx Ty (own_occ _ _ _ Hox) (own_occ _ _ _ Hoy)).
Qed.

(** ** 7. On the board *)
Lemma NoDup_all_eq_length {A} (l:list A) : NoDup l -> (forall x y, In x l -> In y l -> x = y) ->
  (length l <= 1)%nat.
Proof.
  intros Hnd Hall. destruct l as [|a [|a' l]]; cbn [length]; try lia. exfalso.
  inversion Hnd as [|? ? Hnin _]. subst. apply Hnin.
  rewrite (Hall a a' (or_introl eq_refl) (or_intror (or_introl eq_refl))). left. reflexivity.
Qed.

Theorem ep_one_checker : forall b,
  b = from_scratch (abs_board b) -> pos_valid (abs_board b) = true -> epsq b <> None ->
  popcnt (checkers b) <= 1.
Proof.
  intros b Hb Hv He.
  remember (abs_board b) as p eqn:Hp. subst b.
  assert (Hrt : abs_board (from_scratch p) = p) by (symmetry; exact Hp).
  assert (Hep : exists t, ep p = Some t).
  { rewrite <- Hrt. unfold abs_board. cbn [ep].
    destruct (epsq (from_scratch p)) as [e|]; [eexists; reflexivity|contradiction]. }
  destruct Hep as [t Hep].
  destruct (scratch_facts p Hv Hrt) as [HCan [HC _]].
  assert (Hlt : checkers (from_scratch p) < 2^64).
  { rewrite <- (canonical_update _ HCan). exact (checkers_lt64 _ HC). }
  rewrite popcnt_length.
  assert (Hlen : (length (squares_of (checkers (from_scratch p))) <= 1)%nat).
  { apply NoDup_all_eq_length; [apply squares_of_NoDup|].
    intros x y Hx Hy.
    pose proof (squares_of_lt64 _ Hlt x Hx) as Hx64. pose proof (squares_of_lt64 _ Hlt y Hy) as Hy64.
    apply squares_of_spec in Hx. apply squares_of_spec in Hy.
    apply (from_scratch_checkers p Hv Hrt x Hx64) in Hx.
    apply (from_scratch_checkers p Hv Hrt y Hy64) in Hy.
    exact (ep_one_checker_spec p t Hv Hep x y Hx Hy). }
  lia.
Qed.

(** ** 8. Example: the hypotheses are satisfiable, with a checker present.
    White K h3, P e5; black K a8, B c8, P d5 (just played d7-d5, uncovering the bishop):
    white to move, en-passant target d6. *)
Definition eppos : pos :=
  {| placement := updN (updN (updN (updN (updN (repeat None 64) 23 (Some (King,White)))
                       36 (Some (Pawn,White))) 56 (Some (King,Black))) 58 (Some (Bishop,Black)))
                       35 (Some (Pawn,Black));
     turn := White; wk := false; wq := false; bk := false; bq := false; ep := Some 43 |}.
Example ep_one_checker_ex :
  from_scratch eppos = from_scratch (abs_board (from_scratch eppos)) /\
  pos_valid (abs_board (from_scratch eppos)) = true /\
  epsq (from_scratch eppos) <> None /\
  checkers (from_scratch eppos) = bit 58 /\ popcnt (checkers (from_scratch eppos)) = 1.
Proof. vm_compute. repeat split; try reflexivity. discriminate. Qed.

Check ep_one_checker : forall b,
  b = from_scratch (abs_board b) -> pos_valid (abs_board b) = true -> epsq b <> None ->
  popcnt (checkers b) <= 1.
Print Assumptions ep_one_checker.
Print Assumptions ep_one_checker_spec.
