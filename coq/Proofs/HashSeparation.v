(** * Proofs.HashSeparation — property C09: two positions that differ in a single component
    (one piece on one square, the side to move, one side's castling rights, the en-passant
    file) have different Zobrist hashes.

    Part 1: the xor algebra of [get_hash] for ALL board records (no validity needed).
    Part 2: separation theorems on board records.
    Part 3: the same for boards built from scratch out of a [builder].
    Part 4: examples. *)
From Coq Require Import NArith List Bool Lia ZifyBool ZifyN ZifyNat.
From Chess Require Import Base.Bits Spec.Rules Gen.Zobrist Model.Board Proofs.ZobristKeys.
Import ListNotations.
Open Scope N_scope.

Arguments N.add : simpl never.
Arguments N.sub : simpl never.
Arguments N.mul : simpl never.
Arguments N.shiftl : simpl never.
Arguments N.shiftr : simpl never.
Arguments N.land : simpl never.
Arguments N.lor : simpl never.
Arguments N.lxor : simpl never.
Arguments N.testbit : simpl never.
Arguments N.eqb : simpl never.
Arguments N.ltb : simpl never.
Arguments N.leb : simpl never.
Arguments zob_piece : simpl never.
Arguments zob_castles : simpl never.
Arguments zob_ep : simpl never.
Arguments zob_color : simpl never.
Arguments to_square : simpl never.
Arguments bit : simpl never.
Arguments sq_file : simpl never.

(** ** xor algebra *)
Ltac xor_ring :=
  let k := fresh "k" in
  apply N.bits_inj; intro k; rewrite ?N.lxor_spec, ?N.bits_0;
  repeat match goal with |- context [N.testbit ?x k] => destruct (N.testbit x k) end;
  reflexivity.

Lemma lxor_cancel_l a d : N.lxor a d = a -> d = 0.
Proof.
  intro H. assert (E : d = N.lxor a (N.lxor a d)) by xor_ring.
  rewrite E, H. apply N.lxor_nilpotent.
Qed.

Lemma lxor_diff_neq a d : d <> 0 -> N.lxor a d <> a.
Proof. intros Hd H. apply Hd. exact (lxor_cancel_l a d H). Qed.

Lemma lxor_inj_l a x y : N.lxor a x = N.lxor a y -> x = y.
Proof.
  intro H. assert (E : x = N.lxor a (N.lxor a x)) by xor_ring.
  rewrite E, H. xor_ring.
Qed.

(** ** small facts about squares *)
Lemma to_square_bit_sweep : forallb (fun s => to_square (bit s) =? s) all_sq = true.
Proof. vm_cast_no_check (eq_refl true). Qed.

Lemma to_square_bit s : s < 64 -> to_square (bit s) = s.
Proof.
  intro H. pose proof to_square_bit_sweep as Hs. rewrite forallb_forall in Hs.
  apply N.eqb_eq. apply Hs. apply In_all_sq. exact H.
Qed.

Lemma sq_file_lt e : sq_file e < 8.
Proof.
  unfold sq_file. change 7 with (N.ones 3). rewrite N.land_ones.
  apply N.mod_lt. discriminate.
Qed.

Lemma land3_lt r : N.land r 3 < 4.
Proof.
  change 3 with (N.ones 2). rewrite N.land_ones. apply N.mod_lt. discriminate.
Qed.

Lemma land3_small r : r < 4 -> N.land r 3 = r.
Proof.
  intro H. change 3 with (N.ones 2). rewrite N.land_ones. apply N.mod_small. exact H.
Qed.

Lemma opp_opp c : opp (opp c) = c.
Proof. destruct c; reflexivity. Qed.

(** ** Part 1: [get_hash] as a function of the record *)
Definition ep_term (e:option N) (c:color) : N :=
  match e with Some x => zob_ep (sq_file x) (opp c) | None => 0 end.
Definition side_term (c:color) : N := match c with Black => zob_color | White => 0 end.

(** normal form: the castle keys are indexed by colour, not by side to move *)
Lemma get_hash_norm b :
  get_hash b =
  N.lxor (N.lxor (N.lxor (N.lxor (hash b) (ep_term (epsq b) (stm b)))
     (zob_castles (crW b) White)) (zob_castles (crB b) Black)) (side_term (stm b)).
Proof.
  unfold get_hash, ep_term, side_term, castle_rights.
  destruct (stm b); cbn [opp]; [reflexivity|].
  destruct (epsq b); xor_ring.
Qed.

(** the difference terms *)
Definition stm_diff (b:board) : N :=
  N.lxor zob_color
    (match epsq b with
     | Some e => N.lxor (zob_ep (sq_file e) White) (zob_ep (sq_file e) Black)
     | None => 0 end).

Theorem get_hash_piece_bb b p bb c :
  get_hash (xor_piece b p bb c) = N.lxor (get_hash b) (zob_piece p (to_square bb) c).
Proof.
  rewrite !get_hash_norm. cbn [xor_piece hash epsq stm crW crB]. xor_ring.
Qed.

Theorem get_hash_piece b p s c :
  s < 64 -> get_hash (xor_piece b p (bit s) c) = N.lxor (get_hash b) (zob_piece p s c).
Proof. intro H. rewrite get_hash_piece_bb, (to_square_bit s H). reflexivity. Qed.

Theorem get_hash_stm b :
  get_hash (set_stm b (opp (stm b))) = N.lxor (get_hash b) (stm_diff b).
Proof.
  rewrite !get_hash_norm. unfold stm_diff, ep_term, side_term.
  cbn [set_stm hash epsq stm crW crB].
  destruct (stm b); cbn [opp]; destruct (epsq b); xor_ring.
Qed.

Theorem get_hash_cr b c r' :
  get_hash (set_castle_rights b c r') =
  N.lxor (N.lxor (get_hash b) (zob_castles (castle_rights b c) c)) (zob_castles r' c).
Proof.
  rewrite !get_hash_norm. unfold castle_rights.
  destruct c; cbn [set_castle_rights hash epsq stm crW crB]; xor_ring.
Qed.

Theorem get_hash_ep b e :
  get_hash (set_epsq b e) =
  N.lxor (N.lxor (get_hash b) (ep_term (epsq b) (stm b))) (ep_term e (stm b)).
Proof.
  rewrite !get_hash_norm. cbn [set_epsq hash epsq stm crW crB]. xor_ring.
Qed.

(** the cached fields do not enter the hash *)
Lemma get_hash_set_caches b pn ch : get_hash (set_caches b pn ch) = get_hash b.
Proof. reflexivity. Qed.

Lemma get_hash_update_pin_info b : get_hash (update_pin_info b) = get_hash b.
Proof.
  unfold update_pin_info. destruct (slider_scan _ _ _ _ _) as [pn ch].
  apply get_hash_set_caches.
Qed.

(** ** Part 2: separation on board records *)

(** one square: empty vs. occupied *)
Theorem sep_piece_added b p s c :
  s < 64 -> get_hash (xor_piece b p (bit s) c) <> get_hash b.
Proof.
  intro Hs. rewrite (get_hash_piece b p s c Hs). apply lxor_diff_neq.
  apply zob_piece_nonzero. exact Hs.
Qed.

(** one square: two different men *)
Theorem sep_piece_changed b0 p c p' c' s :
  s < 64 -> (p,c) <> (p',c') ->
  get_hash (xor_piece b0 p (bit s) c) <> get_hash (xor_piece b0 p' (bit s) c').
Proof.
  intros Hs Hne H. rewrite !get_hash_piece in H by exact Hs.
  apply lxor_inj_l in H.
  destruct (zob_piece_inj _ _ _ _ _ _ Hs Hs H) as [Hp [_ Hc]]. apply Hne. congruence.
Qed.

(** the same man on two different squares (bonus: distinctness across squares) *)
Theorem sep_piece_moved b0 p c s s' :
  s < 64 -> s' < 64 -> s <> s' ->
  get_hash (xor_piece b0 p (bit s) c) <> get_hash (xor_piece b0 p (bit s') c).
Proof.
  intros Hs Hs' Hne H. rewrite !get_hash_piece in H by assumption.
  apply lxor_inj_l in H.
  destruct (zob_piece_inj _ _ _ _ _ _ Hs Hs' H) as [_ [Hss _]]. contradiction.
Qed.

Lemma stm_diff_nonzero b : stm_diff b <> 0.
Proof.
  unfold stm_diff. destruct (epsq b) as [e|].
  - exact (zob_side_ep_nocancel (sq_file e) White (sq_file_lt e)).
  - rewrite N.lxor_0_r. exact zob_color_nonzero.
Qed.

(** side to move (any en-passant state) *)
Theorem sep_side b : get_hash (set_stm b (opp (stm b))) <> get_hash b.
Proof. rewrite get_hash_stm. apply lxor_diff_neq. apply stm_diff_nonzero. Qed.

Theorem sep_side_noep b :
  epsq b = None -> get_hash (set_stm b (opp (stm b))) <> get_hash b.
Proof. intros _. apply sep_side. Qed.

Theorem sep_side_ep b e :
  e < 64 -> epsq b = Some e -> get_hash (set_stm b (opp (stm b))) <> get_hash b.
Proof. intros _ _. apply sep_side. Qed.

(** without an en-passant square the hash changes by exactly the side key *)
Theorem get_hash_stm_noep b :
  epsq b = None -> get_hash (set_stm b (opp (stm b))) = N.lxor (get_hash b) zob_color.
Proof. intro H. rewrite get_hash_stm. unfold stm_diff. rewrite H, N.lxor_0_r. reflexivity. Qed.

(** castling rights of one colour *)
Theorem sep_castle b c r r' :
  r < 4 -> r' < 4 -> castle_rights b c = r -> r <> r' ->
  get_hash (set_castle_rights b c r') <> get_hash b.
Proof.
  intros Hr Hr' Hcr Hne. rewrite get_hash_cr, Hcr, N.lxor_assoc.
  apply lxor_diff_neq. apply zob_castles_xor_nonzero; assumption.
Qed.

(** two boards that differ only in one colour's rights *)
Theorem sep_castle2 b c r r' :
  r < 4 -> r' < 4 -> r <> r' ->
  get_hash (set_castle_rights b c r) <> get_hash (set_castle_rights b c r').
Proof.
  intros Hr Hr' Hne H. rewrite !get_hash_cr in H. apply lxor_inj_l in H.
  apply Hne. exact (zob_castles_inj r r' c Hr Hr' H).
Qed.

(** en-passant file *)
Theorem sep_ep b e e' :
  e < 64 -> e' < 64 -> sq_file e <> sq_file e' ->
  get_hash (set_epsq b (Some e)) <> get_hash (set_epsq b (Some e')).
Proof.
  intros _ _ Hne H. rewrite !get_hash_ep in H. apply lxor_inj_l in H.
  cbn [ep_term] in H. apply Hne.
  exact (zob_ep_inj _ _ _ (sq_file_lt e) (sq_file_lt e') H).
Qed.

Theorem sep_ep_none b e :
  e < 64 -> get_hash (set_epsq b (Some e)) <> get_hash (set_epsq b None).
Proof.
  intros _ H. rewrite !get_hash_ep in H. apply lxor_inj_l in H.
  cbn [ep_term] in H. exact (zob_ep_nonzero _ _ (sq_file_lt e) H).
Qed.

(** ** Part 3: boards built from scratch *)
Definition okey (s:N) (o:option (ptype*color)) : N :=
  match o with Some (p,c) => zob_piece p s c | None => 0 end.
Definition xsum (f:N->N) (l:list N) : N := fold_right (fun s acc => N.lxor (f s) acc) 0 l.
Lemma xsum_cons f x xs : xsum f (x :: xs) = N.lxor (f x) (xsum f xs).
Proof. reflexivity. Qed.
Definition pcs_at (pcs:list (option (ptype*color))) (s:N) := nth (N.to_nat s) pcs None.
(** xor over the 64 squares of the keys of the men placed *)
Definition pieces_hash (pcs:list (option (ptype*color))) : N :=
  xsum (fun s => okey s (pcs_at pcs s)) all_sq.

Definition place_step (pcs:list (option (ptype*color))) (b:board) (s:N) : board :=
  match nth (N.to_nat s) pcs None with Some (p,c) => xor_piece b p (bit s) c | None => b end.

Lemma place_all_unfold pcs : place_all pcs = fold_left (place_step pcs) all_sq board_new.
Proof. reflexivity. Qed.

Lemma place_fold_hash pcs l : (forall s, In s l -> s < 64) -> forall b,
  hash (fold_left (place_step pcs) l b) = N.lxor (hash b) (xsum (fun s => okey s (pcs_at pcs s)) l).
Proof.
  induction l as [|x xs IH]; intros Hl b.
  - cbn [fold_left xsum fold_right]. rewrite N.lxor_0_r. reflexivity.
  - cbn [fold_left]. rewrite xsum_cons. rewrite IH by (intros s Hs; apply Hl; right; exact Hs).
    assert (Hx : x < 64) by (apply Hl; left; reflexivity).
    unfold place_step, pcs_at. destruct (nth (N.to_nat x) pcs None) as [[p c]|].
    + cbn [xor_piece hash okey]. rewrite (to_square_bit x Hx). xor_ring.
    + cbn [okey]. xor_ring.
Qed.

Lemma place_fold_meta pcs l : forall b,
  let b' := fold_left (place_step pcs) l b in
  stm b' = stm b /\ crW b' = crW b /\ crB b' = crB b /\ epsq b' = epsq b.
Proof.
  induction l as [|x xs IH]; intro b.
  - cbn [fold_left]. repeat split.
  - cbn [fold_left]. cbv zeta in IH |- *.
    destruct (IH (place_step pcs b x)) as [H1 [H2 [H3 H4]]].
    rewrite H1, H2, H3, H4. unfold place_step.
    destruct (nth (N.to_nat x) pcs None) as [[p c]|]; repeat split.
Qed.

(** fold lemma: the stored hash of [place_all] *)
Theorem hash_place_all pcs : hash (place_all pcs) = pieces_hash pcs.
Proof.
  rewrite place_all_unfold, place_fold_hash.
  - cbn [board_new hash]. apply N.lxor_0_l.
  - intros s Hs. apply In_all_sq. exact Hs.
Qed.

Lemma place_all_meta pcs :
  stm (place_all pcs) = White /\ crW (place_all pcs) = 0 /\ crB (place_all pcs) = 0 /\
  epsq (place_all pcs) = None.
Proof. rewrite place_all_unfold. exact (place_fold_meta pcs all_sq board_new). Qed.

(** the hash-relevant fields of [from_builder_raw] *)
Lemma set_ep_fields b e :
  hash (set_ep b e) = hash b /\ stm (set_ep b e) = stm b /\ crW (set_ep b e) = crW b /\
  crB (set_ep b e) = crB b /\ (epsq (set_ep b e) = epsq b \/ epsq (set_ep b e) = Some e).
Proof.
  unfold set_ep. destruct (negb _); cbn [set_epsq hash stm crW crB epsq]; repeat split; auto.
Qed.

Lemma update_pin_info_fields b :
  hash (update_pin_info b) = hash b /\ stm (update_pin_info b) = stm b /\
  crW (update_pin_info b) = crW b /\ crB (update_pin_info b) = crB b /\
  epsq (update_pin_info b) = epsq b.
Proof.
  unfold update_pin_info. destruct (slider_scan _ _ _ _ _) as [pn ch]. repeat split.
Qed.

(** [from_builder_raw] as a function of the placed board *)
Definition fbr_of (P:board) (bb:builder) : board :=
  let b := set_stm P (bstm bb) in
  let b := match builder_get_en_passant bb with
           | Some e => set_stm (set_ep (set_stm b (opp (stm b))) e) (opp (stm (set_stm b (opp (stm b)))))
           | None => b end in
  let b := add_castle_rights b White (bcrW bb) in
  let b := add_castle_rights b Black (bcrB bb) in
  update_pin_info b.

Lemma from_builder_raw_fbr_of bb : from_builder_raw bb = fbr_of (place_all (bpieces bb)) bb.
Proof. reflexivity. Qed.

Lemma ep_stage_fields (b:board) (eo:option N) :
  let b' := match eo with
            | Some e => set_stm (set_ep (set_stm b (opp (stm b))) e) (opp (stm (set_stm b (opp (stm b)))))
            | None => b end in
  hash b' = hash b /\ stm b' = stm b /\ crW b' = crW b /\ crB b' = crB b /\
  (epsq b' = epsq b \/ exists e, eo = Some e /\ epsq b' = Some e).
Proof.
  destruct eo as [e|]; cbv zeta.
  - destruct (set_ep_fields (set_stm b (opp (stm b))) e) as [E1 [E2 [E3 [E4 E5]]]].
    cbn [set_stm hash stm crW crB epsq] in *.
    rewrite E1, E3, E4, opp_opp. repeat split; auto.
    destruct E5 as [E5|E5]; [left; exact E5 | right; exists e; split; [reflexivity|exact E5]].
  - repeat split; auto.
Qed.

Lemma add_castle_rights_fields b c a :
  let b' := add_castle_rights b c a in
  hash b' = hash b /\ stm b' = stm b /\ epsq b' = epsq b /\
  crW b' = match c with White => N.land (N.lor (crW b) a) 3 | Black => crW b end /\
  crB b' = match c with White => crB b | Black => N.land (N.lor (crB b) a) 3 end.
Proof.
  cbv zeta. unfold add_castle_rights, cr_add.
  destruct c; cbn [set_castle_rights castle_rights hash stm crW crB epsq]; repeat split.
Qed.

Lemma fbr_of_fields P bb :
  hash (fbr_of P bb) = hash P /\
  stm (fbr_of P bb) = bstm bb /\
  crW (fbr_of P bb) = N.land (N.lor (crW P) (bcrW bb)) 3 /\
  crB (fbr_of P bb) = N.land (N.lor (crB P) (bcrB bb)) 3 /\
  (epsq (fbr_of P bb) = epsq P \/
   exists e, builder_get_en_passant bb = Some e /\ epsq (fbr_of P bb) = Some e).
Proof.
  unfold fbr_of. cbv zeta.
  generalize (builder_get_en_passant bb) as eo. intro eo.
  pose proof (ep_stage_fields (set_stm P (bstm bb)) eo) as H3. cbv zeta in H3.
  revert H3.
  generalize (match eo with
     | Some e => set_stm (set_ep (set_stm (set_stm P (bstm bb)) (opp (stm (set_stm P (bstm bb))))) e)
                   (opp (stm (set_stm (set_stm P (bstm bb)) (opp (stm (set_stm P (bstm bb)))))))
     | None => set_stm P (bstm bb) end) as B3.
  intros B3 [E1 [E2 [E3 [E4 E5]]]].
  cbn [set_stm hash stm crW crB epsq] in E1, E2, E3, E4, E5.
  pose proof (add_castle_rights_fields B3 White (bcrW bb)) as H4. cbv zeta in H4. revert H4.
  generalize (add_castle_rights B3 White (bcrW bb)) as B4.
  intros B4 [F1 [F2 [F3 [F4 F5]]]].
  pose proof (add_castle_rights_fields B4 Black (bcrB bb)) as H5. cbv zeta in H5. revert H5.
  generalize (add_castle_rights B4 Black (bcrB bb)) as B5.
  intros B5 [G1 [G2 [G3 [G4 G5]]]].
  destruct (update_pin_info_fields B5) as [U1 [U2 [U3 [U4 U5]]]].
  rewrite U1, U2, U3, U4, U5, G1, G2, G3, G4, G5, F1, F2, F3, F4, F5, E1, E2, E3, E4.
  repeat split. exact E5.
Qed.

Theorem fbr_fields bb :
  hash (from_builder_raw bb) = pieces_hash (bpieces bb) /\
  stm (from_builder_raw bb) = bstm bb /\
  crW (from_builder_raw bb) = N.land (bcrW bb) 3 /\
  crB (from_builder_raw bb) = N.land (bcrB bb) 3 /\
  (epsq (from_builder_raw bb) = None \/
   exists f, bep bb = Some f /\
             epsq (from_builder_raw bb) = Some (mk_sq (fourth_rk (opp (bstm bb))) f)).
Proof.
  rewrite from_builder_raw_fbr_of.
  destruct (place_all_meta (bpieces bb)) as [Hs [HW [HB He]]].
  pose proof (hash_place_all (bpieces bb)) as Hh.
  revert Hs HW HB He Hh. generalize (place_all (bpieces bb)) as P. intros P Hs HW HB He Hh.
  destruct (fbr_of_fields P bb) as [A1 [A2 [A3 [A4 A5]]]].
  rewrite A1, A2, A3, A4, HW, HB, Hh, !N.lor_0_l. repeat split.
  destruct A5 as [A5|[e [Hb A5]]].
  - left. rewrite A5. exact He.
  - right. unfold builder_get_en_passant in Hb. destruct (bep bb) as [f|]; [|discriminate Hb].
    exists f. split; [reflexivity|]. rewrite A5. symmetry. exact Hb.
Qed.

(** the en-passant file recorded in the board (if [set_ep] stored the square) *)
Definition recorded_ep_file (bb:builder) : option N :=
  match epsq (from_builder_raw bb) with Some e => Some (sq_file e) | None => None end.

(** closed form of the hash of a from-scratch board *)
Theorem get_hash_from_builder bb :
  get_hash (from_builder_raw bb) =
  N.lxor (N.lxor (N.lxor (N.lxor (pieces_hash (bpieces bb))
     (match recorded_ep_file bb with Some f => zob_ep f (opp (bstm bb)) | None => 0 end))
     (zob_castles (N.land (bcrW bb) 3) White)) (zob_castles (N.land (bcrB bb) 3) Black))
     (side_term (bstm bb)).
Proof.
  rewrite get_hash_norm. destruct (fbr_fields bb) as [H1 [H2 [H3 [H4 _]]]].
  rewrite H1, H2, H3, H4. unfold recorded_ep_file, ep_term.
  destruct (epsq (from_builder_raw bb)); reflexivity.
Qed.

(** xor-sums over a duplicate-free list of squares *)
Lemma xsum_ext f g l : (forall s, In s l -> f s = g s) -> xsum f l = xsum g l.
Proof.
  induction l as [|x xs IH]; intro H; [reflexivity|].
  rewrite !xsum_cons.
  rewrite IH by (intros s Hs; apply H; right; exact Hs).
  rewrite (H x) by (left; reflexivity). reflexivity.
Qed.

Lemma xsum_diff_one f g l s :
  NoDup l -> In s l -> (forall t, In t l -> t <> s -> f t = g t) ->
  N.lxor (xsum f l) (xsum g l) = N.lxor (f s) (g s).
Proof.
  induction l as [|x xs IH]; intros Hnd Hin Hag; [destruct Hin|].
  rewrite !xsum_cons.
  inversion Hnd as [|x' xs' Hx Hnd']; subst x' xs'.
  destruct (N.eq_dec x s) as [E|E].
  - subst x. rewrite (xsum_ext f g xs).
    + xor_ring.
    + intros t Ht. apply Hag; [right; exact Ht|]. intro Et. subst t. contradiction.
  - destruct Hin as [Hin|Hin]; [contradiction|].
    rewrite (Hag x) by (first [left; reflexivity | exact E]).
    rewrite <- (IH Hnd' Hin) by (intros t Ht Hts; apply Hag; [right; exact Ht|exact Hts]).
    xor_ring.
Qed.

Lemma NoDup_all_sq : NoDup all_sq.
Proof. apply nodupb_NoDup. vm_cast_no_check (eq_refl true). Qed.

Lemma okey_inj s o o' : s < 64 -> okey s o = okey s o' -> o = o'.
Proof.
  intros Hs H. destruct o as [[p c]|], o' as [[p' c']|]; cbn [okey] in H.
  - destruct (zob_piece_inj _ _ _ _ _ _ Hs Hs H) as [Hp [_ Hc]]. congruence.
  - exfalso. exact (zob_piece_nonzero p s c Hs H).
  - exfalso. symmetry in H. exact (zob_piece_nonzero p' s c' Hs H).
  - reflexivity.
Qed.

(** two placements that differ on exactly one of the 64 squares *)
Theorem pieces_hash_diff_one pcs pcs' s :
  s < 64 -> (forall t, t < 64 -> t <> s -> pcs_at pcs t = pcs_at pcs' t) ->
  N.lxor (pieces_hash pcs) (pieces_hash pcs') = N.lxor (okey s (pcs_at pcs s)) (okey s (pcs_at pcs' s)).
Proof.
  intros Hs Hag. unfold pieces_hash.
  apply (xsum_diff_one (fun s => okey s (pcs_at pcs s)) (fun s => okey s (pcs_at pcs' s)) all_sq s).
  - exact NoDup_all_sq.
  - apply In_all_sq. exact Hs.
  - intros t Ht Hts. cbv beta. rewrite (Hag t); [reflexivity| apply In_all_sq; exact Ht | exact Hts].
Qed.

Theorem pieces_hash_sep pcs pcs' s :
  s < 64 -> pcs_at pcs s <> pcs_at pcs' s ->
  (forall t, t < 64 -> t <> s -> pcs_at pcs t = pcs_at pcs' t) ->
  pieces_hash pcs <> pieces_hash pcs'.
Proof.
  intros Hs Hne Hag H. pose proof (pieces_hash_diff_one pcs pcs' s Hs Hag) as D.
  rewrite H, N.lxor_nilpotent in D. symmetry in D. apply N.lxor_eq in D.
  apply Hne. exact (okey_inj s _ _ Hs D).
Qed.

Lemma pieces_hash_ext pcs pcs' :
  (forall t, t < 64 -> pcs_at pcs t = pcs_at pcs' t) -> pieces_hash pcs = pieces_hash pcs'.
Proof.
  intro H. unfold pieces_hash. apply xsum_ext. intros s Hs. cbv beta.
  rewrite (H s); [reflexivity|apply In_all_sq; exact Hs].
Qed.

(** *** the "single component" relations on builders.  Everything a from-scratch board's hash
    depends on: the 64 squares, the side, both rights (taken mod 4 by [cr_add]), and the
    en-passant file actually recorded by [set_ep]. *)
Definition same_squares (bb bb':builder) : Prop :=
  forall t, t < 64 -> pcs_at (bpieces bb) t = pcs_at (bpieces bb') t.
Definition same_rights (bb bb':builder) : Prop :=
  N.land (bcrW bb) 3 = N.land (bcrW bb') 3 /\ N.land (bcrB bb) 3 = N.land (bcrB bb') 3.

Definition differ_one_square (bb bb':builder) : Prop :=
  (exists s, s < 64 /\ pcs_at (bpieces bb) s <> pcs_at (bpieces bb') s /\
             forall t, t < 64 -> t <> s -> pcs_at (bpieces bb) t = pcs_at (bpieces bb') t) /\
  bstm bb = bstm bb' /\ same_rights bb bb' /\ recorded_ep_file bb = recorded_ep_file bb'.
Definition differ_side (bb bb':builder) : Prop :=
  same_squares bb bb' /\ bstm bb <> bstm bb' /\ same_rights bb bb' /\
  recorded_ep_file bb = recorded_ep_file bb'.
Definition differ_rights (bb bb':builder) : Prop :=
  same_squares bb bb' /\ bstm bb = bstm bb' /\
  ((N.land (bcrW bb) 3 <> N.land (bcrW bb') 3 /\ N.land (bcrB bb) 3 = N.land (bcrB bb') 3) \/
   (N.land (bcrW bb) 3 = N.land (bcrW bb') 3 /\ N.land (bcrB bb) 3 <> N.land (bcrB bb') 3)) /\
  recorded_ep_file bb = recorded_ep_file bb'.
Definition differ_ep (bb bb':builder) : Prop :=
  same_squares bb bb' /\ bstm bb = bstm bb' /\ same_rights bb bb' /\
  recorded_ep_file bb <> recorded_ep_file bb'.

Lemma recorded_ep_file_lt bb f : recorded_ep_file bb = Some f -> f < 8.
Proof.
  unfold recorded_ep_file. destruct (epsq (from_builder_raw bb)) as [e|]; intro H; [|discriminate H].
  injection H as <-. apply sq_file_lt.
Qed.

Theorem builders_sep_square bb bb' :
  differ_one_square bb bb' -> get_hash (from_builder_raw bb) <> get_hash (from_builder_raw bb').
Proof.
  intros [[s [Hs [Hne Hag]]] [Hstm [[HW HB] Hep]]] H.
  rewrite !get_hash_from_builder in H. rewrite <- Hstm, <- HW, <- HB, <- Hep in H.
  apply (pieces_hash_sep _ _ s Hs Hne Hag).
  match type of H with N.lxor (N.lxor (N.lxor (N.lxor ?a ?x) ?y) ?z) ?w = N.lxor (N.lxor (N.lxor (N.lxor ?a' _) _) _) _ =>
    assert (E : N.lxor (N.lxor (N.lxor (N.lxor x y) z) w) a = N.lxor (N.lxor (N.lxor (N.lxor x y) z) w) a')
  end.
  { etransitivity; [|etransitivity; [exact H|]]; xor_ring. }
  exact (lxor_inj_l _ _ _ E).
Qed.

Theorem builders_sep_side bb bb' :
  differ_side bb bb' -> get_hash (from_builder_raw bb) <> get_hash (from_builder_raw bb').
Proof.
  intros [Hsq [Hstm [[HW HB] Hep]]] H.
  rewrite !get_hash_from_builder in H.
  rewrite <- (pieces_hash_ext _ _ Hsq), <- HW, <- HB, <- Hep in H.
  assert (Hopp : bstm bb' = opp (bstm bb)).
  { destruct (bstm bb), (bstm bb'); first [reflexivity | exfalso; apply Hstm; reflexivity]. }
  rewrite Hopp in H. clear Hopp Hstm HW HB Hsq.
  destruct (recorded_ep_file bb) as [f|] eqn:Ef.
  - apply (zob_side_ep_nocancel f (bstm bb) (recorded_ep_file_lt bb f Ef)).
    rewrite opp_opp in H. destruct (bstm bb); cbn [opp side_term] in H |- *.
    + match type of H with ?l = ?r => assert (E : N.lxor l r = 0) by (rewrite H; apply N.lxor_nilpotent) end.
      rewrite <- E. xor_ring.
    + match type of H with ?l = ?r => assert (E : N.lxor l r = 0) by (rewrite H; apply N.lxor_nilpotent) end.
      rewrite <- E. xor_ring.
  - apply zob_color_nonzero.
    destruct (bstm bb); cbn [opp side_term] in H.
    + match type of H with ?l = ?r => assert (E : N.lxor l r = 0) by (rewrite H; apply N.lxor_nilpotent) end.
      rewrite <- E. xor_ring.
    + match type of H with ?l = ?r => assert (E : N.lxor l r = 0) by (rewrite H; apply N.lxor_nilpotent) end.
      rewrite <- E. xor_ring.
Qed.

Theorem builders_sep_rights bb bb' :
  differ_rights bb bb' -> get_hash (from_builder_raw bb) <> get_hash (from_builder_raw bb').
Proof.
  intros [Hsq [Hstm [Hcr Hep]]] H.
  rewrite !get_hash_from_builder in H.
  rewrite <- (pieces_hash_ext _ _ Hsq), <- Hstm, <- Hep in H.
  destruct Hcr as [[HW HB]|[HW HB]].
  - rewrite <- HB in H. apply HW.
    apply (zob_castles_inj _ _ White (land3_lt _) (land3_lt _)).
    match type of H with ?l = ?r => assert (E : N.lxor l r = 0) by (rewrite H; apply N.lxor_nilpotent) end.
    apply N.lxor_eq. rewrite <- E. xor_ring.
  - rewrite <- HW in H. apply HB.
    apply (zob_castles_inj _ _ Black (land3_lt _) (land3_lt _)).
    match type of H with ?l = ?r => assert (E : N.lxor l r = 0) by (rewrite H; apply N.lxor_nilpotent) end.
    apply N.lxor_eq. rewrite <- E. xor_ring.
Qed.

Theorem builders_sep_ep bb bb' :
  differ_ep bb bb' -> get_hash (from_builder_raw bb) <> get_hash (from_builder_raw bb').
Proof.
  intros [Hsq [Hstm [[HW HB] Hep]]] H.
  rewrite !get_hash_from_builder in H.
  rewrite <- (pieces_hash_ext _ _ Hsq), <- Hstm, <- HW, <- HB in H.
  match type of H with ?l = ?r => assert (E : N.lxor l r = 0) by (rewrite H; apply N.lxor_nilpotent) end.
  clear H.
  destruct (recorded_ep_file bb) as [f|] eqn:Ef; destruct (recorded_ep_file bb') as [f'|] eqn:Ef'.
  - apply Hep. f_equal.
    apply (zob_ep_inj f f' (opp (bstm bb)) (recorded_ep_file_lt _ _ Ef) (recorded_ep_file_lt _ _ Ef')).
    apply N.lxor_eq. rewrite <- E. xor_ring.
  - apply (zob_ep_nonzero f (opp (bstm bb)) (recorded_ep_file_lt _ _ Ef)).
    rewrite <- E. xor_ring.
  - apply (zob_ep_nonzero f' (opp (bstm bb)) (recorded_ep_file_lt _ _ Ef')).
    rewrite <- E. xor_ring.
  - apply Hep. reflexivity.
Qed.

(** the full from-scratch statement *)
Definition C09_builders_full : Prop :=
  forall bb bb',
    differ_one_square bb bb' \/ differ_side bb bb' \/ differ_rights bb bb' \/ differ_ep bb bb' ->
    get_hash (from_builder_raw bb) <> get_hash (from_builder_raw bb').

Theorem C09_builders : C09_builders_full.
Proof.
  intros bb bb' [H|[H|[H|H]]].
  - exact (builders_sep_square bb bb' H).
  - exact (builders_sep_side bb bb' H).
  - exact (builders_sep_rights bb bb' H).
  - exact (builders_sep_ep bb bb' H).
Qed.

(** when the builder's rights are proper 2-bit values, "mod 4" is the identity *)
Lemma same_rights_small bb bb' :
  bcrW bb < 4 -> bcrW bb' < 4 -> bcrB bb < 4 -> bcrB bb' < 4 ->
  (same_rights bb bb' <-> bcrW bb = bcrW bb' /\ bcrB bb = bcrB bb').
Proof.
  intros H1 H2 H3 H4. unfold same_rights. rewrite !land3_small by assumption. tauto.
Qed.

(** the file recorded is the builder's file, when [set_ep] stores the square *)
Lemma sq_file_mk_sq_land r f : sq_file (mk_sq r f) = N.land f 7.
Proof.
  unfold sq_file, mk_sq.
  apply N.bits_inj; intro k. rewrite !N.land_spec, N.lxor_spec, N.land_spec.
  destruct (N.ltb_spec k 3) as [Hk|Hk].
  - rewrite N.shiftl_spec_low by exact Hk. cbn [xorb].
    destruct (N.testbit f k), (N.testbit 7 k); reflexivity.
  - assert (E7 : N.testbit 7 k = false).
    { change 7 with (N.ones 3). apply N.ones_spec_high. exact Hk. }
    rewrite E7, !andb_false_r. reflexivity.
Qed.

Lemma sq_file_mk_sq r f : f < 8 -> sq_file (mk_sq r f) = f.
Proof.
  intro Hf. rewrite sq_file_mk_sq_land. change 7 with (N.ones 3).
  rewrite N.land_ones. apply N.mod_small. exact Hf.
Qed.

Theorem recorded_ep_file_spec bb :
  recorded_ep_file bb = None \/
  exists f, bep bb = Some f /\ recorded_ep_file bb = Some (N.land f 7).
Proof.
  unfold recorded_ep_file.
  destruct (fbr_fields bb) as [_ [_ [_ [_ [H|[f [Hf H]]]]]]]; rewrite H.
  - left. reflexivity.
  - right. exists f. split; [exact Hf|]. f_equal. apply sq_file_mk_sq_land.
Qed.

(** ** Part 4: the hypotheses are satisfiable — concrete boards *)
Definition start_builder : builder := builder_of_pos startpos.
Definition start_board : board := from_builder_raw start_builder.

Example ex_start_board_sane : is_sane start_board = true.
Proof. vm_compute. reflexivity. Qed.

(** a knight dropped on e3 (square 20) of the initial position *)
Example ex_piece_added :
  get_hash (xor_piece start_board Knight (bit 20) White) <> get_hash start_board.
Proof. apply sep_piece_added. reflexivity. Qed.
Example ex_piece_added_values :
  (get_hash (xor_piece start_board Knight (bit 20) White) =? get_hash start_board) = false.
Proof. vm_compute. reflexivity. Qed.

Example ex_piece_changed :
  get_hash (xor_piece start_board Knight (bit 20) White) <> get_hash (xor_piece start_board Bishop (bit 20) Black).
Proof. apply sep_piece_changed; [reflexivity|discriminate]. Qed.

Example ex_side : epsq start_board = None /\
  get_hash (set_stm start_board (opp (stm start_board))) <> get_hash start_board.
Proof. split; [vm_compute; reflexivity | apply sep_side]. Qed.

Example ex_castle : castle_rights start_board White = 3 /\
  get_hash (set_castle_rights start_board White 1) <> get_hash start_board.
Proof.
  split; [vm_compute; reflexivity|].
  apply (sep_castle start_board White 3 1); [reflexivity|reflexivity|vm_compute; reflexivity|discriminate].
Qed.

(** Black to move, a white pawn has just arrived on e4 (square 28) next to a black pawn on d4
    (square 27), so [set_ep] records the square e4 *)
Definition ep_builder : builder :=
  {| bpieces := back White ++ [Some (Pawn,White);Some (Pawn,White);Some (Pawn,White);Some (Pawn,White);
                               None;Some (Pawn,White);Some (Pawn,White);Some (Pawn,White)]
                ++ repeat None 8
                ++ [None;None;None;Some (Pawn,Black);Some (Pawn,White);None;None;None]
                ++ repeat None 16
                ++ [Some (Pawn,Black);Some (Pawn,Black);Some (Pawn,Black);None;
                    Some (Pawn,Black);Some (Pawn,Black);Some (Pawn,Black);Some (Pawn,Black)]
                ++ back Black;
     bstm := Black; bcrW := 3; bcrB := 3; bep := Some 4 |}.
Definition ep_board : board := from_builder_raw ep_builder.

Example ex_ep_board : is_sane ep_board = true /\ epsq ep_board = Some 28 /\ recorded_ep_file ep_builder = Some 4.
Proof. vm_compute. repeat split. Qed.

Example ex_side_ep : get_hash (set_stm ep_board (opp (stm ep_board))) <> get_hash ep_board.
Proof. apply (sep_side_ep ep_board 28); [reflexivity | vm_compute; reflexivity]. Qed.

Example ex_ep : get_hash (set_epsq ep_board (Some 28)) <> get_hash (set_epsq ep_board (Some 26)) /\
                get_hash (set_epsq ep_board (Some 28)) <> get_hash (set_epsq ep_board None).
Proof.
  split.
  - apply sep_ep; [reflexivity|reflexivity|vm_compute; discriminate].
  - apply sep_ep_none. reflexivity.
Qed.

(** builders: the initial position vs. the initial position with Black to move / fewer rights /
    one man missing; the e4 position with and without its en-passant file *)
Definition with_stm (bb:builder) c :=
  {| bpieces := bpieces bb; bstm := c; bcrW := bcrW bb; bcrB := bcrB bb; bep := bep bb |}.
Definition with_crW (bb:builder) r :=
  {| bpieces := bpieces bb; bstm := bstm bb; bcrW := r; bcrB := bcrB bb; bep := bep bb |}.
Definition with_ep (bb:builder) e :=
  {| bpieces := bpieces bb; bstm := bstm bb; bcrW := bcrW bb; bcrB := bcrB bb; bep := e |}.
Definition with_pieces (bb:builder) l :=
  {| bpieces := l; bstm := bstm bb; bcrW := bcrW bb; bcrB := bcrB bb; bep := bep bb |}.

Example ex_builders_side : differ_side start_builder (with_stm start_builder Black).
Proof.
  split; [intros t _; reflexivity|]. split; [discriminate|]. split; [split; reflexivity|].
  vm_compute. reflexivity.
Qed.

Example ex_builders_rights : differ_rights start_builder (with_crW start_builder 2).
Proof.
  split; [intros t _; reflexivity|]. split; [reflexivity|]. split.
  - left. split; [vm_compute; discriminate | reflexivity].
  - vm_compute. reflexivity.
Qed.

Example ex_builders_ep : differ_ep ep_builder (with_ep ep_builder None).
Proof.
  split; [intros t _; reflexivity|]. split; [reflexivity|]. split; [split; reflexivity|].
  vm_compute. discriminate.
Qed.

(** the initial position without the b1 knight (square 1) *)
Example ex_builders_square :
  differ_one_square start_builder
    (with_pieces start_builder (Some (Rook,White) :: None :: skipn 2 (bpieces start_builder))).
Proof.
  split.
  - exists 1. split; [reflexivity|]. split; [vm_compute; discriminate|].
    intros t Ht Hne. unfold pcs_at.
    assert (Hn : (N.to_nat t < 64)%nat) by lia.
    assert (Hn1 : N.to_nat t <> 1%nat) by lia.
    revert Hn Hn1. generalize (N.to_nat t) as n. intros n Hn Hn1.
    do 64 (destruct n as [|n]; [first [reflexivity | exfalso; apply Hn1; reflexivity]|]).
    exfalso. lia.
  - split; [reflexivity|]. split; [split; reflexivity|]. vm_compute. reflexivity.
Qed.

Example ex_builders_hashes_differ :
  get_hash (from_builder_raw start_builder) <> get_hash (from_builder_raw (with_stm start_builder Black)).
Proof. apply C09_builders. right; left. exact ex_builders_side. Qed.
