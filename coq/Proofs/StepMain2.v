(** * Proofs.StepMain2 — the G5 theorems (caches, canonical boards) with hypotheses spelled out,
    as pinned in [Properties/C02b.v] and [Properties/C08.v]. *)
From Chess Require Import Base.Bits Spec.Geometry Spec.Rules Model.Board.
From Chess Require Import Proofs.AbsBoard Proofs.NullMove Proofs.StepLink Proofs.StepHash
  Proofs.StepClosed Proofs.StepCache Proofs.StepCanon.
Open Scope N_scope.

Lemma main_caches b m :
  Consistent b -> pos_valid (abs_board b) = true -> In m (legal_moves (abs_board b)) ->
  (forall e, epsq b = Some e -> e < 64 /\ sq_rank e = fourth_rk (opp (stm b))) ->
  forall b', make_move_new b (src m) (dst m) (promo m) = Some b' ->
  pinned b' = pinned (update_pin_info b') /\ checkers b' = checkers (update_pin_info b').
Proof. intros HC HV HL HE b' E. exact (step_caches b m b' (mkStepHyp b m HC HV HL HE) E). Qed.

Lemma main_reachlib_board p0 b : pos_valid p0 = true -> ReachLib p0 b ->
  b = from_scratch (abs_board b) /\ pos_valid (abs_board b) = true /\
  get_hash b = Hspec (abs_board b).
Proof.
  intros HV R. destruct (reachlib_from_scratch p0 b HV R) as [H1 H2].
  split; [exact H1|]. split; [exact H2|].
  exact (reach_hash_closed p0 b HV (proj1 (reachlib_canonical p0 b HV R))).
Qed.

(** path independence, whole boards: two boards reached by library moves and null moves that
    show the same position are equal field by field *)
Lemma main_reachlib_path_independent p1 p2 b1 b2 :
  pos_valid p1 = true -> pos_valid p2 = true -> ReachLib p1 b1 -> ReachLib p2 b2 ->
  abs_board b1 = abs_board b2 -> b1 = b2 /\ get_hash b1 = get_hash b2.
Proof.
  intros V1 V2 R1 R2 E.
  destruct (reachlib_from_scratch p1 b1 V1 R1) as [H1 _].
  destruct (reachlib_from_scratch p2 b2 V2 R2) as [H2 _].
  assert (Hb : b1 = b2) by (rewrite H1, H2, E; reflexivity).
  split; [exact Hb|]. rewrite Hb. reflexivity.
Qed.

Lemma main_null_iff p0 b : pos_valid p0 = true -> ReachLib p0 b ->
  (null_move b = None <-> in_check (abs_board b) (stm b) = true).
Proof.
  intros HV R. destruct (reachlib_canonical p0 b HV R) as [RB HCan].
  pose proof (inv_valid b (reach_inv_closed p0 b HV RB)) as HVb.
  split.
  - intro Hn. destruct (in_check (abs_board b) (stm b)) eqn:Ec; [reflexivity|].
    exfalso. pose proof (canonical_consistent b HCan) as HC.
    destruct (CanonNullMove.pos_valid_facts _ HVb) as [K1 [K2 Hnc]].
    assert (K : forall c, popcnt (N.land (pK b) (color_combined b c)) = 1).
    { intro c. rewrite <- (CanonNullMove.kings_abs b c HC). destruct c; assumption. }
    change (turn (abs_board b)) with (stm b) in Hnc.
    pose proof (CanonNullMove.not_in_check_kings_apart b HC (K _) (K _) Hnc) as Hka.
    apply (CanonNullMove.null_move_refused_iff_check b HCan (K _) Hka) in Hn. congruence.
  - intro Hc. destruct (null_move b) as [b'|] eqn:En; [|reflexivity].
    rewrite (null_accept_not_in_check b b' HCan HVb En) in Hc. discriminate Hc.
Qed.
