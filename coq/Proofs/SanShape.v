(** * Proofs.SanShape — the documented SAN text shape, and the finite check that the scanner
    reads such a text back into its fields (definitions and the lifting lemma; the sweeps
    themselves are in SanSweepA.v / SanSweepB.v). *)
From Coq Require Import Lia ZifyBool ZifyN ZifyNat.
From Chess Require Import Model.San Spec.Text Proofs.SanFilter Proofs.SanScan.
Open Scope N_scope.

Definition optc (base:N) (o:option N) : str := match o with Some v => [base+v] | None => [] end.
(** piece letter, optional source file, optional source rank, optional 'x', destination,
    optional promotion letter; then the check mark and the en-passant suffix — the same
    concatenation as [Spec.Text.san_spellings] builds *)
Definition san_text (t:ptype) (sf sr:option N) (cap:bool) (f r:N) (pr:option ptype) (mk:str) (e:bool) : str :=
  (san_letter t ++ optc 97 sf ++ optc 49 sr ++ (if cap then [120] else []) ++ [97+f;49+r]
   ++ (match pr with Some pt => san_letter pt | None => [] end)) ++ mk ++ (if e then EP_SUFFIX else []).

Definition optN_eqb (a b:option N) : bool :=
  match a,b with Some x,Some y => x =? y | None,None => true | _,_ => false end.
Definition fields_eqb (a b:san_fields) : bool :=
  let '(m1,f1,r1,t1,d1,p1,e1) := a in let '(m2,f2,r2,t2,d2,p2,e2) := b in
  ptype_eqb m1 m2 && promo_eqb p1 p2 && Bool.eqb t1 t2 && Bool.eqb e1 e2 && (d1 =? d2)
  && optN_eqb f1 f2 && optN_eqb r1 r2.
Definition r8 : list N := [0;1;2;3;4;5;6;7].
Definition o8 : list (option N) := None :: map Some r8.
Definition promos : list (option ptype) := [None; Some Knight; Some Bishop; Some Rook; Some Queen].
Definition marks : list str := [[];[43];[35]].
Definition check t sf sr cap f r pr mk e :=
  match scan (san_text t sf sr cap f r pr mk e) with
  | Some x => fields_eqb x (t,sf,sr,cap,mk_sq r f,pr,e) && negb (is_castle_text (san_text t sf sr cap f r pr mk e))
  | None => false end.
Definition sweep (ts:list ptype) :=
  forallb (fun t => forallb (fun sf => forallb (fun sr => forallb (fun cap => forallb (fun f => forallb (fun r =>
  forallb (fun pr => forallb (fun mk => forallb (fun e => check t sf sr cap f r pr mk e)
  [false;true]) marks) promos) r8) r8) [false;true]) o8) o8) ts.

Lemma optN_eqb_eq a b : optN_eqb a b = true -> a = b.
Proof. destruct a, b; cbn; try discriminate; try reflexivity. intro H. apply N.eqb_eq in H. subst; reflexivity. Qed.
Lemma fields_eqb_eq a b : fields_eqb a b = true -> a = b.
Proof.
  destruct a as [[[[[[m1 f1] r1] t1] d1] p1] e1], b as [[[[[[m2 f2] r2] t2] d2] p2] e2]. cbn [fields_eqb].
  intro H. repeat (apply andb_prop in H as [H ?]).
  apply ptype_eqb_eq in H. repeat match goal with
  | X : promo_eqb _ _ = true |- _ => apply promo_eqb_eq in X
  | X : Bool.eqb _ _ = true |- _ => apply Bool.eqb_prop in X
  | X : (_ =? _) = true |- _ => apply N.eqb_eq in X
  | X : optN_eqb _ _ = true |- _ => apply optN_eqb_eq in X end.
  subst. reflexivity.
Qed.

(** the domains, as propositions *)
Definition opt_lt8 (o:option N) : Prop := match o with Some v => v < 8 | None => True end.
Definition promo_ok (pr:option ptype) : Prop := pr <> Some Pawn /\ pr <> Some King.

Lemma in_r8 v : v < 8 -> In v r8.
Proof.
  intro H. assert (E : v = 0 \/ v = 1 \/ v = 2 \/ v = 3 \/ v = 4 \/ v = 5 \/ v = 6 \/ v = 7) by lia.
  unfold r8. cbn [In]. intuition.
Qed.
Lemma in_o8 o : opt_lt8 o -> In o o8.
Proof. destruct o as [v|]; cbn [opt_lt8]; intro H; [right; apply in_map, in_r8, H|left; reflexivity]. Qed.
Lemma in_promos pr : promo_ok pr -> In pr promos.
Proof. intros [H1 H2]. unfold promos. destruct pr as [[]|]; cbn [In]; try tauto; congruence. Qed.
Lemma in_bools (x:bool) : In x [false;true].
Proof. destruct x; cbn; tauto. Qed.

Lemma sweep_lift ts : sweep ts = true ->
  forall t sf sr cap f r pr mk e,
    In t ts -> opt_lt8 sf -> opt_lt8 sr -> f < 8 -> r < 8 -> promo_ok pr -> In mk marks ->
    scan (san_text t sf sr cap f r pr mk e) = Some (t, sf, sr, cap, mk_sq r f, pr, e)
    /\ is_castle_text (san_text t sf sr cap f r pr mk e) = false.
Proof.
  intros Hs t sf sr cap f r pr mk e Ht Hsf Hsr Hf Hr Hpr Hmk. unfold sweep in Hs.
  rewrite forallb_forall in Hs. specialize (Hs t Ht).
  rewrite forallb_forall in Hs. specialize (Hs sf (in_o8 _ Hsf)).
  rewrite forallb_forall in Hs. specialize (Hs sr (in_o8 _ Hsr)).
  rewrite forallb_forall in Hs. specialize (Hs cap (in_bools _)).
  rewrite forallb_forall in Hs. specialize (Hs f (in_r8 _ Hf)).
  rewrite forallb_forall in Hs. specialize (Hs r (in_r8 _ Hr)).
  rewrite forallb_forall in Hs. specialize (Hs pr (in_promos _ Hpr)).
  rewrite forallb_forall in Hs. specialize (Hs mk Hmk).
  rewrite forallb_forall in Hs. specialize (Hs e (in_bools _)).
  unfold check in Hs. destruct (scan _) as [x|]; [|discriminate].
  apply andb_prop in Hs as [H1 H2]. apply fields_eqb_eq in H1. subst x.
  split; [reflexivity|]. destruct (is_castle_text _); [discriminate|reflexivity].
Qed.
