(** * Proofs.GameExamples — concrete games: the hypotheses of the theorems of
    [Proofs.GameProtocol] are satisfiable, and the operations behave as stated on them. *)
From Coq Require Import NArith List Bool.
From Chess Require Import Spec.Draw Model.Game Proofs.GameBase Proofs.GameThreefold Proofs.GameScan
  Proofs.GameProtocol Proofs.GameClaims.
Import ListNotations.
Open Scope N_scope.

Definition sb : board := Eval vm_compute in from_scratch startpos.
Definition mvn (s d:N) : cmove := {| msrc := s; mdst := d; mpromo := None |}.
Definition the_game (b:board) (ops:list op) : game :=
  match run (new_with_board b) ops with Some g => g | None => new_with_board b end.

(** ** 1. Threefold repetition: Ng1-f3 Ng8-f6 Nf3-g1 Nf6-g8, twice *)
Definition shuffle : list op := [OpMove (mvn 6 21); OpMove (mvn 62 45); OpMove (mvn 21 6); OpMove (mvn 45 62)].
Definition g4 : game := Eval vm_compute in the_game sb shuffle.
Definition g8 : game := Eval vm_compute in the_game sb (shuffle ++ shuffle).

Example g4_run : run (new_with_board sb) shuffle = Some g4.
Proof. vm_compute. reflexivity. Qed.
Example g8_run : run (new_with_board sb) (shuffle ++ shuffle) = Some g8.
Proof. vm_compute. reflexivity. Qed.
Example g8_reachable : Reachable sb g8.
Proof. apply (Reachable_run sb (new_with_board sb) (shuffle ++ shuffle) g8); [apply R_new|exact g8_run]. Qed.
Example g8_log : actions g8 = map op_action (shuffle ++ shuffle).
Proof. vm_compute. reflexivity. Qed.
Example g8_position : current_position g8 = Some sb.
Proof. vm_compute. reflexivity. Qed.
Example g8_open : has_result g8 = Some false.
Proof. vm_compute. reflexivity. Qed.
(** eight reversible half-moves; nine keys; the start position for the third time *)
Example g8_scan : clock_g g8 = 8 /\ length (keys_g g8) = 9%nat /\ repetitions g8 sb = 3%nat.
Proof. vm_compute. repeat split. Qed.
Example g8_claim : can_declare_draw g8 = Some true.
Proof. vm_compute. reflexivity. Qed.
(** after the first round trip the position has occurred only twice *)
Example g4_scan : clock_g g4 = 4 /\ repetitions g4 sb = 2%nat.
Proof. vm_compute. repeat split. Qed.
Example g4_no_claim : can_declare_draw g4 = Some false /\ g_declare_draw g4 = Some (false, g4).
Proof. vm_compute. repeat split. Qed.
Example g8_declared :
  g_declare_draw g8 = Some (true, push_action g8 DeclareDraw) /\
  result (push_action g8 DeclareDraw) = Some (Some DrawDeclared).
Proof. vm_compute. repeat split. Qed.

(** ** 2. An illegal move is refused; a resignation ends the game; everything after it is refused *)
Example illegal_refused : g_make_move (new_with_board sb) (mvn 12 36) = Some (false, new_with_board sb).
Proof. vm_compute. reflexivity. Qed.

Definition g_res : game := Eval vm_compute in the_game sb [OpMove (mvn 12 28); OpResign Black].
Example g_res_run : run (new_with_board sb) [OpMove (mvn 12 28); OpResign Black] = Some g_res.
Proof. vm_compute. reflexivity. Qed.
Example g_res_log : actions g_res = [MakeMove (mvn 12 28); Resign Black].
Proof. reflexivity. Qed.
Example g_res_result : result g_res = Some (Some BlackResigns) /\ side_to_move g_res = Black.
Proof. vm_compute. repeat split. Qed.
Example g_res_refuses :
  apply_op g_res (OpMove (mvn 52 36)) = Some (false, g_res) /\
  apply_op g_res (OpOffer White) = Some (false, g_res) /\
  apply_op g_res (OpResign White) = Some (false, g_res) /\
  apply_op g_res OpAccept = Some (false, g_res) /\
  apply_op g_res OpDeclare = Some (false, g_res).
Proof. vm_compute. repeat split. Qed.
Example g_res_final :
  run g_res [OpMove (mvn 52 36); OpOffer White; OpAccept; OpResign White; OpDeclare] = Some g_res.
Proof. apply finished_forever. vm_compute. reflexivity. Qed.

(** ** 3. Accepting a draw *)
(** White offers, then moves; Black accepts *)
Definition g_acc : game := Eval vm_compute in the_game sb [OpOffer White; OpMove (mvn 12 28); OpAccept].
Example g_acc_run :
  run (new_with_board sb) [OpOffer White; OpMove (mvn 12 28); OpAccept] = Some g_acc
  /\ actions g_acc = [OfferDraw White; MakeMove (mvn 12 28); AcceptDraw]
  /\ result g_acc = Some (Some DrawAccepted).
Proof. vm_compute. repeat split. Qed.
(** an offer in the name of the side that did not move is not found by the second test *)
Definition g_off : game := Eval vm_compute in the_game sb [OpOffer Black; OpMove (mvn 12 28)].
Example g_off_refused : g_accept_draw g_off = Some (false, g_off) /\ has_result g_off = Some false.
Proof. vm_compute. repeat split. Qed.
(** no offer at all *)
Example no_offer_refused : g_accept_draw (new_with_board sb) = Some (false, new_with_board sb).
Proof. vm_compute. reflexivity. Qed.
(** an offer as the latest action is accepted whatever its colour *)
Definition g_fo : game := Eval vm_compute in the_game sb [OpOffer Black].
Example fresh_offer_accepted :
  g_offer_draw (new_with_board sb) Black = Some (true, g_fo) /\
  g_accept_draw g_fo = Some (true, push_action g_fo AcceptDraw).
Proof. vm_compute. repeat split. Qed.

(** ** 4. A board invariant closed under legal moves: the hypotheses [Inv], [inv_step] of
    the invariant theorems are jointly satisfiable on a game with an accepted move.
    White (Kh1, Rd7, Be5, pawns a6 g2 h2) is in check from Rd1 and has the single legal move
    Rd7xd1, after which Black (Ka8, pawn a7) is stalemated. *)
Definition place (l:list (N*(ptype*color))) : list (option (ptype*color)) :=
  fold_left (fun pl sc => updN pl (fst sc) (Some (snd sc))) l (repeat None 64).
Definition endpos : pos :=
  {| placement := place [(56,(King,Black)); (48,(Pawn,Black)); (51,(Rook,White)); (40,(Pawn,White));
                         (36,(Bishop,White)); (14,(Pawn,White)); (15,(Pawn,White)); (3,(Rook,Black));
                         (7,(King,White))];
     turn := White; wk := false; wq := false; bk := false; bq := false; ep := None |}.
Example endpos_valid : pos_valid endpos = true.
Proof. vm_compute. reflexivity. Qed.
Definition eb0 : board := Eval vm_compute in from_scratch endpos.
Definition eb1 : board := Eval vm_compute in
  match mm eb0 (mvn 51 3) with Some b => b | None => eb0 end.
Definition EInv (b:board) : Prop := b = eb0 \/ b = eb1.

Lemma eb0_moves : moves_of eb0 = [mvn 51 3]. Proof. vm_compute. reflexivity. Qed.
Lemma eb1_moves : moves_of eb1 = []. Proof. vm_compute. reflexivity. Qed.
Lemma eb0_mm : mm eb0 (mvn 51 3) = Some eb1. Proof. vm_compute. reflexivity. Qed.

Example EInv_step : forall b m, EInv b -> legal b m = true -> exists b', mm b m = Some b' /\ EInv b'.
Proof.
  intros b m [->| ->] Hl; unfold legal, legal_in in Hl.
  - rewrite eb0_moves in Hl. cbn [existsb] in Hl. rewrite orb_false_r in Hl.
    apply cmove_eqb_eq in Hl. subst m. exists eb1. split; [exact eb0_mm|right; reflexivity].
  - rewrite eb1_moves in Hl. discriminate.
Qed.
Example EInv_start : EInv eb0. Proof. left. reflexivity. Qed.

Definition g_end : game := Eval vm_compute in the_game eb0 [OpMove (mvn 7 6); OpMove (mvn 51 3)].
Example g_end_reachable : Reachable eb0 g_end.
Proof.
  apply (Reachable_run eb0 (new_with_board eb0) [OpMove (mvn 7 6); OpMove (mvn 51 3)] g_end); [apply R_new|].
  vm_compute. reflexivity.
Qed.
(** the illegal Kh1-g1 was refused, Rd7xd1 accepted; the game is over by stalemate *)
Example g_end_facts :
  actions g_end = [MakeMove (mvn 51 3)] /\ current_position g_end = Some eb1 /\
  result g_end = Some (Some RStalemate) /\ side_to_move g_end = Black.
Proof. vm_compute. repeat split. Qed.

(** the invariant theorems instantiated *)
Example g_end_no_panic :
  (exists b, current_position g_end = Some b /\ EInv b) /\
  (exists r, result g_end = Some r) /\
  (exists d, can_declare_draw g_end = Some d) /\
  (forall o, exists f g', apply_op g_end o = Some (f,g')).
Proof. exact (no_panic EInv EInv_step eb0 g_end EInv_start g_end_reachable). Qed.

(** ** 5. Checkmate is named with the right colour: fool's mate *)
Definition g_mate : game := Eval vm_compute in
  the_game sb [OpMove (mvn 13 21); OpMove (mvn 52 36); OpMove (mvn 14 30); OpMove (mvn 59 31)].
Example g_mate_result :
  length (actions g_mate) = 4%nat /\ side_to_move g_mate = White /\
  result g_mate = Some (Some BlackCheckmates).
Proof. vm_compute. repeat split. Qed.

(** ** 6. A change of castling rights clears the key list but not the counter:
    Nf3 Nf6 Rg1 Rg8 (both sides lose the king-side right), then Rh1 Rh8 Ng1 Ng8 and two
    more knight round trips.  The placement of the start position recurs after 8 plies but
    with other rights; the claim becomes available after ply 14. *)
Definition rook_line : list op :=
  map (fun sd => OpMove (mvn (fst sd) (snd sd)))
    [(6,21); (62,45); (7,6); (63,62); (6,7); (62,63); (21,6); (45,62);
     (6,21); (62,45); (21,6); (45,62); (6,21); (62,45); (21,6); (45,62)].
Definition probe (n:nat) : option bool * N * nat * bool :=
  let g := the_game sb (firstn n rook_line) in
  (can_declare_draw g, clock_g g, length (keys_g g),
   can_claim (abs_board sb) (log_moves (actions g))).
Example rights_change_clears_keys_only :
  probe 2 = (Some false, 2, 3%nat, false) /\
  probe 3 = (Some false, 3, 1%nat, false) /\      (* Rg1: keys restart, counter goes on *)
  probe 4 = (Some false, 4, 1%nat, false) /\      (* Rg8: likewise *)
  probe 8 = (Some false, 8, 5%nat, false) /\      (* start placement, other rights *)
  probe 13 = (Some false, 13, 10%nat, false) /\
  probe 14 = (Some true, 14, 11%nat, true) /\
  probe 16 = (Some true, 16, 13%nat, true).
Proof. vm_compute. repeat split. Qed.

(** the instances of the unproved statements of [Proofs.GameClaims] on the games above *)
Example g8_spec_claim :
  can_claim (abs_board sb) (log_moves (actions g8)) = true /\
  can_claim (abs_board sb) (log_moves (actions g4)) = false.
Proof. vm_compute. repeat split. Qed.
