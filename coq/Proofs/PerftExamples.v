(** * Proofs.PerftExamples — concrete instances of the theorems of [Proofs/PerftSpec.v]: the
    hypotheses are satisfiable ([startpos], a stalemate position), the well-known perft numbers
    of the start position come out of the model by evaluation and agree with the oracle. *)
From Coq Require Import NArith Arith List Bool Permutation.
From Chess Require Import Base.Bits Base.Text Spec.Geometry Spec.Rules Model.Board Model.MoveGen
  Model.Fen Model.Perft.
From Chess Require Import Proofs.NullMove Proofs.StatusModel Proofs.CorAReach Proofs.PerftSpec.
Import ListNotations.
Open Scope N_scope.

(** the hypotheses of [perft_spec] / [perft_canonical] hold of the start position *)
Example ex_startpos_valid : pos_valid startpos = true.
Proof. vm_cast_no_check (eq_refl true). Qed.

Example ex_start_good : Canonical (from_scratch startpos) /\
  pos_valid (abs_board (from_scratch startpos)) = true.
Proof. exact (good_scratch startpos ex_startpos_valid). Qed.

(** perft 1..4 of the start position, by evaluating the model *)
Example ex_perft_start_1 : movegen_perft (from_scratch startpos) 1 = Some 20.
Proof. vm_cast_no_check (eq_refl (Some 20)). Qed.

Example ex_perft_start_2 : movegen_perft (from_scratch startpos) 2 = Some 400.
Proof. vm_cast_no_check (eq_refl (Some 400)). Qed.

Example ex_perft_start_3 : movegen_perft (from_scratch startpos) 3 = Some 8902.
Proof. vm_cast_no_check (eq_refl (Some 8902)). Qed.

Example ex_perft_start_4 : movegen_perft (from_scratch startpos) 4 = Some 197281.
Proof. vm_cast_no_check (eq_refl (Some 197281)). Qed.

(** ... hence, by [perft_spec], the oracle's numbers — without evaluating the oracle *)
Lemma oracle_from_model d p n : pos_valid p = true ->
  movegen_perft (from_scratch p) (S d) = Some n -> perft (S d) p = n.
Proof.
  intros HV H. rewrite (perft_spec d p HV) in H. injection H as H. exact H.
Qed.

Example ex_oracle_start_4 : perft 4 startpos = 197281.
Proof. exact (oracle_from_model 3 startpos 197281 ex_startpos_valid ex_perft_start_4). Qed.

(** ... and the oracle evaluated directly agrees (depth 2) *)
Example ex_oracle_start_2 : perft 2 startpos = 400.
Proof. vm_cast_no_check (eq_refl 400). Qed.

(** depth 0 on the start position: the [depth - 1] underflow *)
Example ex_perft_start_0 : movegen_perft (from_scratch startpos) 0 = None.
Proof. vm_cast_no_check (eq_refl (@None N)). Qed.

(** a valid position without legal moves (stalemate, [StatusModel.stalemate_fen]): depth 0 is
    defined there, and every depth gives 0 *)
Definition stalepos : pos :=
  {| placement := repeat None 41 ++ [Some (King,White)] ++ repeat None 8 ++ [Some (Queen,White)]
                  ++ repeat None 5 ++ [Some (King,Black)] ++ repeat None 7;
     turn := Black; wk := false; wq := false; bk := false; bq := false; ep := None |}.

Example ex_stalepos_is_fen :
  board_from_str stalemate_fen = Ok (from_scratch stalepos).
Proof. vm_compute. reflexivity. Qed.

Example ex_stalepos : pos_valid stalepos = true /\ legal_moves stalepos = [] /\
  movegen_perft (from_scratch stalepos) 0 = Some 0 /\
  movegen_perft (from_scratch stalepos) 1 = Some 0 /\
  movegen_perft (from_scratch stalepos) 5 = Some 0.
Proof. vm_compute. repeat split. Qed.

(** [enumerate_moves]: the bound holds of the start position, 20 slots are filled *)
Example ex_enumerate_start : (length (legal_moves startpos) <= 256)%nat /\
  exists l, board_enumerate_moves (from_scratch startpos) = Some (l, 20) /\ length l = 20%nat.
Proof.
  split; [apply Nat.leb_le; vm_cast_no_check (eq_refl true)|].
  exists (moves_of (from_scratch startpos)). split; vm_compute; reflexivity.
Qed.

(** the hypotheses of [perft_child]: 1.e4 is a legal move of the start position; the board the
    library's perft recurses into is the from-scratch board of the position after it *)
Example ex_child_start :
  In {| src := 12; dst := 28; promo := None |} (legal_moves startpos) /\
  make_move_new (from_scratch startpos) 12 28 None =
    Some (from_scratch (apply startpos {| src := 12; dst := 28; promo := None |})).
Proof.
  assert (H : In {| src := 12; dst := 28; promo := None |} (legal_moves startpos)).
  { vm_compute. repeat (first [left; reflexivity | right]). }
  split; [exact H|]. exact (proj1 (perft_child startpos _ ex_startpos_valid H)).
Qed.
