(** * Properties.X01 — public API outside the twenty properties, move-generation / construction
    part ([Model/Perft.v]): [MoveGen::movegen_perft_test], the deprecated
    [Board::enumerate_moves], [Board::from_fen], [Game::from_str], [Game::new_from_fen] and the
    [BoardBuilder] setters.

    1. For every valid position and every depth >= 1 the library's perft is defined (no panic
       of [make_move_new], no [depth - 1] underflow) and equals the number of legal lines of
       the FIDE-rules oracle ([Spec.Rules.perft]); depth 0 is defined only where there is no
       legal move (it then answers 0, not the oracle's 1).
    2. [Board::enumerate_moves] fills the array with a duplicate-free permutation of the legal
       moves and returns their number, provided there are at most 256 of them — the chess fact
       that no valid position has more (the known maximum is 218) is NOT proved here and stays
       an explicit hypothesis; it panics exactly when the generator yields more than 256.
    3. [Game::from_str] never panics, succeeds exactly when [Board::from_str] does, and returns
       [Game::new_with_board] of the parsed board.  A parsed board that shows a valid position
       is the from-scratch board of that position, so all C10b/C11b history theorems apply to
       such games (four instantiated here).  The validity hypothesis cannot be dropped:
       [Board::from_str] accepts a pawn on the first rank ([X01_accepted_not_valid]).
    4. Each [BoardBuilder] setter changes exactly the cell / field it names; [setup] keeps the
       last entry given for a square.
    5. The oracle's perft equals the published node counts on the six standard test positions
       (obtained through 1., never by evaluating the oracle).
    Proofs: [Proofs/PerftSpec.v], [Proofs/PerftExamples.v], [Proofs/PerftGame.v],
    [Proofs/PerftBuilder.v], [Proofs/PerftPublished.v]. *)
From Coq Require Import NArith List Bool Permutation String.
From Chess Require Import Base.Bits Base.Text Spec.Geometry Spec.Rules Model.Board Model.MoveGen
  Model.Fen Model.Game Model.Perft.
From Chess Require Import Proofs.NullMove Proofs.CorAReach Proofs.GameProtocol.
From Chess Require Import Proofs.ParseTotal.
From Chess Require Import Proofs.PerftSpec Proofs.PerftExamples Proofs.PerftGame Proofs.PerftBuilder
  Proofs.PerftPublished.
Import ListNotations.
Open Scope N_scope.

(** ** 1. [MoveGen::movegen_perft_test] *)
Theorem X01_perft_spec : forall d p, pos_valid p = true ->
  movegen_perft (from_scratch p) (S d) = Some (perft (S d) p).
Proof. exact perft_spec. Qed.
Check X01_perft_spec : forall d p, pos_valid p = true ->
  movegen_perft (from_scratch p) (S d) = Some (perft (S d) p).
Print Assumptions X01_perft_spec.

Theorem X01_perft_canonical : forall d b, Canonical b -> pos_valid (abs_board b) = true ->
  movegen_perft b (S d) = Some (perft (S d) (abs_board b)).
Proof. exact perft_canonical. Qed.
Check X01_perft_canonical : forall d b, Canonical b -> pos_valid (abs_board b) = true ->
  movegen_perft b (S d) = Some (perft (S d) (abs_board b)).
Print Assumptions X01_perft_canonical.

(** the boards the recursion visits are the from-scratch boards of the successor positions,
    which are valid again *)
Theorem X01_perft_child : forall p m, pos_valid p = true -> In m (legal_moves p) ->
  make_move_new (from_scratch p) (src m) (dst m) (promo m) = Some (from_scratch (apply p m))
  /\ pos_valid (apply p m) = true.
Proof. exact perft_child. Qed.
Check X01_perft_child : forall p m, pos_valid p = true -> In m (legal_moves p) ->
  make_move_new (from_scratch p) (src m) (dst m) (promo m) = Some (from_scratch (apply p m))
  /\ pos_valid (apply p m) = true.
Print Assumptions X01_perft_child.

(** depth 0: defined only where there is no legal move (the Rust code computes [depth - 1] on a
    [usize] otherwise) *)
Theorem X01_perft_zero : forall p, pos_valid p = true ->
  movegen_perft (from_scratch p) 0 = match legal_moves p with [] => Some 0 | _ :: _ => None end.
Proof. exact perft_zero. Qed.
Check X01_perft_zero : forall p, pos_valid p = true ->
  movegen_perft (from_scratch p) 0 = match legal_moves p with [] => Some 0 | _ :: _ => None end.
Print Assumptions X01_perft_zero.

(** ... so it never is the oracle's [perft 0 = 1] *)
Theorem X01_perft_zero_never_oracle : forall p, pos_valid p = true ->
  movegen_perft (from_scratch p) 0 <> Some (perft 0 p).
Proof. exact perft_zero_never_oracle. Qed.
Check X01_perft_zero_never_oracle : forall p, pos_valid p = true ->
  movegen_perft (from_scratch p) 0 <> Some (perft 0 p).
Print Assumptions X01_perft_zero_never_oracle.

Theorem X01_perft_depth1 : forall p, pos_valid p = true ->
  movegen_perft (from_scratch p) 1 = Some (N.of_nat (length (legal_moves p))).
Proof. exact perft_depth1. Qed.
Check X01_perft_depth1 : forall p, pos_valid p = true ->
  movegen_perft (from_scratch p) 1 = Some (N.of_nat (length (legal_moves p))).
Print Assumptions X01_perft_depth1.

(** the general fact behind the inductive step: a fold whose steps commute is invariant under
    permutation of the list *)
Theorem X01_fold_left_permutation : forall (A S:Type) (f:S -> A -> S),
  (forall s x y, f (f s x) y = f (f s y) x) ->
  forall l l', Permutation l l' -> forall s, fold_left f l s = fold_left f l' s.
Proof. exact (fun A S => @fold_left_permutation A S). Qed.
Check X01_fold_left_permutation : forall (A S:Type) (f:S -> A -> S),
  (forall s x y, f (f s x) y = f (f s y) x) ->
  forall l l', Permutation l l' -> forall s, fold_left f l s = fold_left f l' s.
Print Assumptions X01_fold_left_permutation.

(** the hypotheses are satisfiable, and the well-known numbers of the start position *)
Theorem X01_startpos_valid : pos_valid startpos = true.
Proof. exact ex_startpos_valid. Qed.
Check X01_startpos_valid : pos_valid startpos = true.
Print Assumptions X01_startpos_valid.

Theorem X01_perft_start_1 : movegen_perft (from_scratch startpos) 1 = Some 20.
Proof. exact ex_perft_start_1. Qed.
Check X01_perft_start_1 : movegen_perft (from_scratch startpos) 1 = Some 20.
Print Assumptions X01_perft_start_1.

Theorem X01_perft_start_2 : movegen_perft (from_scratch startpos) 2 = Some 400.
Proof. exact ex_perft_start_2. Qed.
Check X01_perft_start_2 : movegen_perft (from_scratch startpos) 2 = Some 400.
Print Assumptions X01_perft_start_2.

Theorem X01_perft_start_3 : movegen_perft (from_scratch startpos) 3 = Some 8902.
Proof. exact ex_perft_start_3. Qed.
Check X01_perft_start_3 : movegen_perft (from_scratch startpos) 3 = Some 8902.
Print Assumptions X01_perft_start_3.

Theorem X01_perft_start_4 : movegen_perft (from_scratch startpos) 4 = Some 197281.
Proof. exact ex_perft_start_4. Qed.
Check X01_perft_start_4 : movegen_perft (from_scratch startpos) 4 = Some 197281.
Print Assumptions X01_perft_start_4.

(** hence the oracle's own count, obtained through [X01_perft_spec] *)
Theorem X01_oracle_start_4 : perft 4 startpos = 197281.
Proof. exact ex_oracle_start_4. Qed.
Check X01_oracle_start_4 : perft 4 startpos = 197281.
Print Assumptions X01_oracle_start_4.

Theorem X01_perft_start_0 : movegen_perft (from_scratch startpos) 0 = None.
Proof. exact ex_perft_start_0. Qed.
Check X01_perft_start_0 : movegen_perft (from_scratch startpos) 0 = None.
Print Assumptions X01_perft_start_0.

(** a stalemate position: valid, no legal move, every depth (0 included) answers 0 *)
Theorem X01_perft_stalemate : pos_valid stalepos = true /\ legal_moves stalepos = [] /\
  movegen_perft (from_scratch stalepos) 0 = Some 0 /\
  movegen_perft (from_scratch stalepos) 1 = Some 0 /\
  movegen_perft (from_scratch stalepos) 5 = Some 0.
Proof. exact ex_stalepos. Qed.
Check X01_perft_stalemate : pos_valid stalepos = true /\ legal_moves stalepos = [] /\
  movegen_perft (from_scratch stalepos) 0 = Some 0 /\
  movegen_perft (from_scratch stalepos) 1 = Some 0 /\
  movegen_perft (from_scratch stalepos) 5 = Some 0.
Print Assumptions X01_perft_stalemate.

(** ** 2. the deprecated [Board::enumerate_moves] *)
(** (the bound 256 on the number of legal moves is a hypothesis, not a theorem, here) *)
Theorem X01_enumerate_moves : forall p, pos_valid p = true -> (length (legal_moves p) <= 256)%nat ->
  exists l, board_enumerate_moves (from_scratch p) = Some (l, N.of_nat (length (legal_moves p))) /\
            Permutation l (map of_spec_move (legal_moves p)) /\ NoDup l.
Proof. exact enumerate_moves_spec. Qed.
Check X01_enumerate_moves : forall p, pos_valid p = true -> (length (legal_moves p) <= 256)%nat ->
  exists l, board_enumerate_moves (from_scratch p) = Some (l, N.of_nat (length (legal_moves p))) /\
            Permutation l (map of_spec_move (legal_moves p)) /\ NoDup l.
Print Assumptions X01_enumerate_moves.

Theorem X01_enumerate_moves_none_iff : forall b,
  board_enumerate_moves b = None <-> (256 < length (moves_of b))%nat.
Proof. exact enumerate_moves_none_iff. Qed.
Check X01_enumerate_moves_none_iff : forall b,
  board_enumerate_moves b = None <-> (256 < length (moves_of b))%nat.
Print Assumptions X01_enumerate_moves_none_iff.

Theorem X01_enumerate_moves_some : forall b l n, board_enumerate_moves b = Some (l, n) ->
  l = moves_of b /\ n = N.of_nat (length l) /\ (length l <= 256)%nat.
Proof. exact enumerate_moves_some. Qed.
Check X01_enumerate_moves_some : forall b l n, board_enumerate_moves b = Some (l, n) ->
  l = moves_of b /\ n = N.of_nat (length l) /\ (length l <= 256)%nat.
Print Assumptions X01_enumerate_moves_some.

Theorem X01_enumerate_moves_start : (length (legal_moves startpos) <= 256)%nat /\
  exists l, board_enumerate_moves (from_scratch startpos) = Some (l, 20) /\ length l = 20%nat.
Proof. exact ex_enumerate_start. Qed.
Check X01_enumerate_moves_start : (length (legal_moves startpos) <= 256)%nat /\
  exists l, board_enumerate_moves (from_scratch startpos) = Some (l, 20) /\ length l = 20%nat.
Print Assumptions X01_enumerate_moves_start.

(** ** 3. [Game::from_str], [Board::from_fen], [Game::new_from_fen] *)
Theorem X01_game_from_str : forall s g, game_from_str s = Ok g ->
  exists b, board_from_str s = Ok b /\ g = new_with_board b.
Proof. exact game_from_str_ok. Qed.
Check X01_game_from_str : forall s g, game_from_str s = Ok g ->
  exists b, board_from_str s = Ok b /\ g = new_with_board b.
Print Assumptions X01_game_from_str.

Theorem X01_game_from_str_iff : forall s g, game_from_str s = Ok g <->
  exists b, board_from_str s = Ok b /\ g = new_with_board b.
Proof. exact game_from_str_ok_iff. Qed.
Check X01_game_from_str_iff : forall s g, game_from_str s = Ok g <->
  exists b, board_from_str s = Ok b /\ g = new_with_board b.
Print Assumptions X01_game_from_str_iff.

Theorem X01_game_from_str_no_panic : forall s, game_from_str s <> Panic.
Proof. exact game_from_str_no_panic. Qed.
Check X01_game_from_str_no_panic : forall s, game_from_str s <> Panic.
Print Assumptions X01_game_from_str_no_panic.

Theorem X01_board_from_fen_no_panic : forall s, board_from_fen s <> Panic.
Proof. exact board_from_fen_no_panic. Qed.
Check X01_board_from_fen_no_panic : forall s, board_from_fen s <> Panic.
Print Assumptions X01_board_from_fen_no_panic.

Theorem X01_game_new_from_fen_no_panic : forall s, game_new_from_fen s <> Panic.
Proof. exact game_new_from_fen_no_panic. Qed.
Check X01_game_new_from_fen_no_panic : forall s, game_new_from_fen s <> Panic.
Print Assumptions X01_game_new_from_fen_no_panic.

Theorem X01_game_from_str_err_iff : forall s, game_from_str s = Err <-> board_from_str s = Err.
Proof. exact game_from_str_err_iff. Qed.
Check X01_game_from_str_err_iff : forall s, game_from_str s = Err <-> board_from_str s = Err.
Print Assumptions X01_game_from_str_err_iff.

(** the deprecated forms are the [.ok()] of the others: always a value, [None] for the error *)
Theorem X01_board_from_fen_spec : forall s,
  board_from_fen s = match board_from_str s with Ok b => Ok (Some b) | _ => Ok None end.
Proof. exact board_from_fen_spec. Qed.
Check X01_board_from_fen_spec : forall s,
  board_from_fen s = match board_from_str s with Ok b => Ok (Some b) | _ => Ok None end.
Print Assumptions X01_board_from_fen_spec.

Theorem X01_game_new_from_fen_spec : forall s,
  game_new_from_fen s =
  match board_from_str s with Ok b => Ok (Some (new_with_board b)) | _ => Ok None end.
Proof. exact game_new_from_fen_spec. Qed.
Check X01_game_new_from_fen_spec : forall s,
  game_new_from_fen s =
  match board_from_str s with Ok b => Ok (Some (new_with_board b)) | _ => Ok None end.
Print Assumptions X01_game_new_from_fen_spec.

Theorem X01_game_from_str_fields : forall s g, game_from_str s = Ok g ->
  board_from_str s = Ok (start_pos g) /\ actions g = [] /\ current_position g = Some (start_pos g).
Proof. exact game_from_str_fields. Qed.
Check X01_game_from_str_fields : forall s g, game_from_str s = Ok g ->
  board_from_str s = Ok (start_pos g) /\ actions g = [] /\ current_position g = Some (start_pos g).
Print Assumptions X01_game_from_str_fields.

(** an accepted board (any builder, any text) that shows a valid position is the from-scratch
    board of that position: the start hypothesis of the C10b / C11b theorems *)
Theorem X01_accepted_valid_good : forall bb b, try_from_builder bb = Some b ->
  pos_valid (abs_board b) = true -> GoodBoard b.
Proof. exact accepted_valid_good. Qed.
Check X01_accepted_valid_good : forall bb b, try_from_builder bb = Some b ->
  pos_valid (abs_board b) = true -> Canonical b /\ pos_valid (abs_board b) = true.
Print Assumptions X01_accepted_valid_good.

Theorem X01_parsed_valid_good : forall s b, board_from_str s = Ok b ->
  pos_valid (abs_board b) = true -> GoodBoard b.
Proof. exact parsed_valid_good. Qed.
Check X01_parsed_valid_good : forall s b, board_from_str s = Ok b ->
  pos_valid (abs_board b) = true -> Canonical b /\ pos_valid (abs_board b) = true.
Print Assumptions X01_parsed_valid_good.

Theorem X01_parsed_valid_from_scratch : forall s b, board_from_str s = Ok b ->
  pos_valid (abs_board b) = true -> b = from_scratch (abs_board b).
Proof. exact parsed_valid_from_scratch. Qed.
Check X01_parsed_valid_from_scratch : forall s b, board_from_str s = Ok b ->
  pos_valid (abs_board b) = true -> b = from_scratch (abs_board b).
Print Assumptions X01_parsed_valid_from_scratch.

Theorem X01_game_from_str_start_good : forall s g0, game_from_str s = Ok g0 ->
  pos_valid (abs_board (start_pos g0)) = true -> GoodBoard (start_pos g0).
Proof. exact game_from_str_start_good. Qed.
Check X01_game_from_str_start_good : forall s g0, game_from_str s = Ok g0 ->
  pos_valid (abs_board (start_pos g0)) = true -> GoodBoard (start_pos g0).
Print Assumptions X01_game_from_str_start_good.

(** the returned game is the root of [Reachable] *)
Theorem X01_game_from_str_reachable : forall s g0, game_from_str s = Ok g0 ->
  g0 = new_with_board (start_pos g0) /\ Reachable (start_pos g0) g0.
Proof. exact game_from_str_reachable. Qed.
Check X01_game_from_str_reachable : forall s g0, game_from_str s = Ok g0 ->
  g0 = new_with_board (start_pos g0) /\ Reachable (start_pos g0) g0.
Print Assumptions X01_game_from_str_reachable.

(** [C10b_no_panic], [C10b_runs_never_panic], [C10b_position_reachgen], [C10b_status_fide],
    [C10b_make_move_fide] at [p0 := abs_board (start_pos g0)], [b0 := start_pos g0] *)
Theorem X01_game_from_str_game_no_panic : forall s g0, game_from_str s = Ok g0 ->
  pos_valid (abs_board (start_pos g0)) = true -> forall g, Reachable (start_pos g0) g ->
  (exists b, current_position g = Some b /\ GoodBoard b) /\
  (exists r, result g = Some r) /\
  (exists d, can_declare_draw g = Some d) /\
  (forall o, exists f g', apply_op g o = Some (f,g')).
Proof. exact game_from_str_game_no_panic. Qed.
Check X01_game_from_str_game_no_panic : forall s g0, game_from_str s = Ok g0 ->
  pos_valid (abs_board (start_pos g0)) = true -> forall g, Reachable (start_pos g0) g ->
  (exists b, current_position g = Some b /\ GoodBoard b) /\
  (exists r, result g = Some r) /\
  (exists d, can_declare_draw g = Some d) /\
  (forall o, exists f g', apply_op g o = Some (f,g')).
Print Assumptions X01_game_from_str_game_no_panic.

Theorem X01_game_from_str_runs_never_panic : forall s g0, game_from_str s = Ok g0 ->
  pos_valid (abs_board (start_pos g0)) = true -> forall g ops, Reachable (start_pos g0) g ->
  exists g', run g ops = Some g' /\ Reachable (start_pos g0) g'.
Proof. exact game_from_str_runs_never_panic. Qed.
Check X01_game_from_str_runs_never_panic : forall s g0, game_from_str s = Ok g0 ->
  pos_valid (abs_board (start_pos g0)) = true -> forall g ops, Reachable (start_pos g0) g ->
  exists g', run g ops = Some g' /\ Reachable (start_pos g0) g'.
Print Assumptions X01_game_from_str_runs_never_panic.

Theorem X01_game_from_str_position_reachgen : forall s g0, game_from_str s = Ok g0 ->
  pos_valid (abs_board (start_pos g0)) = true -> forall g, Reachable (start_pos g0) g ->
  exists b, current_position g = Some b /\ ReachGen (abs_board (start_pos g0)) b.
Proof. exact game_from_str_position_reachgen. Qed.
Check X01_game_from_str_position_reachgen : forall s g0, game_from_str s = Ok g0 ->
  pos_valid (abs_board (start_pos g0)) = true -> forall g, Reachable (start_pos g0) g ->
  exists b, current_position g = Some b /\ ReachGen (abs_board (start_pos g0)) b.
Print Assumptions X01_game_from_str_position_reachgen.

Theorem X01_game_from_str_status_fide : forall s g0, game_from_str s = Ok g0 ->
  pos_valid (abs_board (start_pos g0)) = true -> forall g, Reachable (start_pos g0) g ->
  exists b, current_position g = Some b /\ pos_valid (abs_board b) = true /\
            board_status b = status (abs_board b).
Proof. exact game_from_str_status_fide. Qed.
Check X01_game_from_str_status_fide : forall s g0, game_from_str s = Ok g0 ->
  pos_valid (abs_board (start_pos g0)) = true -> forall g, Reachable (start_pos g0) g ->
  exists b, current_position g = Some b /\ pos_valid (abs_board b) = true /\
            board_status b = status (abs_board b).
Print Assumptions X01_game_from_str_status_fide.

Theorem X01_game_from_str_make_move_fide : forall s g0, game_from_str s = Ok g0 ->
  pos_valid (abs_board (start_pos g0)) = true -> forall g m, Reachable (start_pos g0) g ->
  exists b, current_position g = Some b /\ ReachGen (abs_board (start_pos g0)) b /\
    (forall g', g_make_move g m = Some (true, g') <->
       has_result g = Some false /\ In (to_spec_move m) (legal_moves (abs_board b)) /\
       g' = push_action g (MakeMove m)) /\
    (~ (has_result g = Some false /\ In (to_spec_move m) (legal_moves (abs_board b))) ->
       g_make_move g m = Some (false, g)) /\
    (In (to_spec_move m) (legal_moves (abs_board b)) -> exists b', mm b m = Some b' /\
       current_position (push_action g (MakeMove m)) = Some b' /\ stm b' = opp (stm b) /\
       abs_board b' = apply (abs_board b) (to_spec_move m) /\
       b' = from_scratch (apply (abs_board b) (to_spec_move m))).
Proof. exact game_from_str_make_move_fide. Qed.
Check X01_game_from_str_make_move_fide : forall s g0, game_from_str s = Ok g0 ->
  pos_valid (abs_board (start_pos g0)) = true -> forall g m, Reachable (start_pos g0) g ->
  exists b, current_position g = Some b /\ ReachGen (abs_board (start_pos g0)) b /\
    (forall g', g_make_move g m = Some (true, g') <->
       has_result g = Some false /\ In (to_spec_move m) (legal_moves (abs_board b)) /\
       g' = push_action g (MakeMove m)) /\
    (~ (has_result g = Some false /\ In (to_spec_move m) (legal_moves (abs_board b))) ->
       g_make_move g m = Some (false, g)) /\
    (In (to_spec_move m) (legal_moves (abs_board b)) -> exists b', mm b m = Some b' /\
       current_position (push_action g (MakeMove m)) = Some b' /\ stm b' = opp (stm b) /\
       abs_board b' = apply (abs_board b) (to_spec_move m) /\
       b' = from_scratch (apply (abs_board b) (to_spec_move m))).
Print Assumptions X01_game_from_str_make_move_fide.

(** the hypotheses are satisfiable (the start text) ... *)
Theorem X01_game_from_start :
  game_from_str Model.Extra.start_fen = Ok (new_with_board (from_scratch startpos)) /\
  pos_valid (abs_board (start_pos (new_with_board (from_scratch startpos)))) = true.
Proof. exact ex_game_from_start. Qed.
Check X01_game_from_start :
  game_from_str Model.Extra.start_fen = Ok (new_with_board (from_scratch startpos)) /\
  pos_valid (abs_board (start_pos (new_with_board (from_scratch startpos)))) = true.
Print Assumptions X01_game_from_start.

(** ... and [pos_valid] is not implied by acceptance: a white pawn on a1 is accepted *)
Theorem X01_accepted_not_valid :
  exists b, board_from_str pawn_on_a1_fen = Ok b /\
            game_from_str pawn_on_a1_fen = Ok (new_with_board b) /\
            at_ (abs_board b) 0 = Some (Pawn, White) /\
            pos_valid (abs_board b) = false.
Proof. exact ex_accepted_not_valid. Qed.
Check X01_accepted_not_valid :
  exists b, board_from_str pawn_on_a1_fen = Ok b /\
            game_from_str pawn_on_a1_fen = Ok (new_with_board b) /\
            at_ (abs_board b) 0 = Some (Pawn, White) /\
            pos_valid (abs_board b) = false.
Print Assumptions X01_accepted_not_valid.

(** ** 4. [BoardBuilder] setters *)
Theorem X01_bb_piece_index : forall bb s p c, length (bpieces bb) = 64%nat -> s < 64 ->
  forall k, bb_index (bb_piece bb s p c) k = if k =? s then Some (p, c) else bb_index bb k.
Proof. exact bb_piece_index. Qed.
Check X01_bb_piece_index : forall bb s p c, length (bpieces bb) = 64%nat -> s < 64 ->
  forall k, bb_index (bb_piece bb s p c) k = if k =? s then Some (p, c) else bb_index bb k.
Print Assumptions X01_bb_piece_index.

Theorem X01_bb_clear_square_index : forall bb s, length (bpieces bb) = 64%nat -> s < 64 ->
  forall k, bb_index (bb_clear_square bb s) k = if k =? s then None else bb_index bb k.
Proof. exact bb_clear_square_index. Qed.
Check X01_bb_clear_square_index : forall bb s, length (bpieces bb) = 64%nat -> s < 64 ->
  forall k, bb_index (bb_clear_square bb s) k = if k =? s then None else bb_index bb k.
Print Assumptions X01_bb_clear_square_index.

Theorem X01_bb_piece_fields : forall bb s p c,
  length (bpieces (bb_piece bb s p c)) = length (bpieces bb) /\
  bstm (bb_piece bb s p c) = bstm bb /\ bcrW (bb_piece bb s p c) = bcrW bb /\
  bcrB (bb_piece bb s p c) = bcrB bb /\ bep (bb_piece bb s p c) = bep bb.
Proof. exact bb_piece_fields. Qed.
Check X01_bb_piece_fields : forall bb s p c,
  length (bpieces (bb_piece bb s p c)) = length (bpieces bb) /\
  bstm (bb_piece bb s p c) = bstm bb /\ bcrW (bb_piece bb s p c) = bcrW bb /\
  bcrB (bb_piece bb s p c) = bcrB bb /\ bep (bb_piece bb s p c) = bep bb.
Print Assumptions X01_bb_piece_fields.

Theorem X01_bb_clear_square_fields : forall bb s,
  length (bpieces (bb_clear_square bb s)) = length (bpieces bb) /\
  bstm (bb_clear_square bb s) = bstm bb /\ bcrW (bb_clear_square bb s) = bcrW bb /\
  bcrB (bb_clear_square bb s) = bcrB bb /\ bep (bb_clear_square bb s) = bep bb.
Proof. exact bb_clear_square_fields. Qed.
Check X01_bb_clear_square_fields : forall bb s,
  length (bpieces (bb_clear_square bb s)) = length (bpieces bb) /\
  bstm (bb_clear_square bb s) = bstm bb /\ bcrW (bb_clear_square bb s) = bcrW bb /\
  bcrB (bb_clear_square bb s) = bcrB bb /\ bep (bb_clear_square bb s) = bep bb.
Print Assumptions X01_bb_clear_square_fields.

Theorem X01_bb_clear_after_piece : forall bb s p c k, length (bpieces bb) = 64%nat -> s < 64 ->
  bb_index (bb_clear_square (bb_piece bb s p c) s) k = bb_index (bb_clear_square bb s) k.
Proof. exact bb_clear_after_piece. Qed.
Check X01_bb_clear_after_piece : forall bb s p c k, length (bpieces bb) = 64%nat -> s < 64 ->
  bb_index (bb_clear_square (bb_piece bb s p c) s) k = bb_index (bb_clear_square bb s) k.
Print Assumptions X01_bb_clear_after_piece.

Theorem X01_bb_piece_twice : forall bb s p c p' c' k, length (bpieces bb) = 64%nat -> s < 64 ->
  bb_index (bb_piece (bb_piece bb s p c) s p' c') k = bb_index (bb_piece bb s p' c') k.
Proof. exact bb_piece_twice. Qed.
Check X01_bb_piece_twice : forall bb s p c p' c' k, length (bpieces bb) = 64%nat -> s < 64 ->
  bb_index (bb_piece (bb_piece bb s p c) s p' c') k = bb_index (bb_piece bb s p' c') k.
Print Assumptions X01_bb_piece_twice.

Theorem X01_bb_side_to_move_fields : forall bb c,
  bstm (bb_side_to_move bb c) = c /\ bpieces (bb_side_to_move bb c) = bpieces bb /\
  bcrW (bb_side_to_move bb c) = bcrW bb /\ bcrB (bb_side_to_move bb c) = bcrB bb /\
  bep (bb_side_to_move bb c) = bep bb /\
  (forall k, bb_index (bb_side_to_move bb c) k = bb_index bb k).
Proof. exact bb_side_to_move_fields. Qed.
Check X01_bb_side_to_move_fields : forall bb c,
  bstm (bb_side_to_move bb c) = c /\ bpieces (bb_side_to_move bb c) = bpieces bb /\
  bcrW (bb_side_to_move bb c) = bcrW bb /\ bcrB (bb_side_to_move bb c) = bcrB bb /\
  bep (bb_side_to_move bb c) = bep bb /\
  (forall k, bb_index (bb_side_to_move bb c) k = bb_index bb k).
Print Assumptions X01_bb_side_to_move_fields.

Theorem X01_bb_en_passant_fields : forall bb f,
  bep (bb_en_passant bb f) = f /\ bpieces (bb_en_passant bb f) = bpieces bb /\
  bstm (bb_en_passant bb f) = bstm bb /\ bcrW (bb_en_passant bb f) = bcrW bb /\
  bcrB (bb_en_passant bb f) = bcrB bb /\
  (forall k, bb_index (bb_en_passant bb f) k = bb_index bb k).
Proof. exact bb_en_passant_fields. Qed.
Check X01_bb_en_passant_fields : forall bb f,
  bep (bb_en_passant bb f) = f /\ bpieces (bb_en_passant bb f) = bpieces bb /\
  bstm (bb_en_passant bb f) = bstm bb /\ bcrW (bb_en_passant bb f) = bcrW bb /\
  bcrB (bb_en_passant bb f) = bcrB bb /\
  (forall k, bb_index (bb_en_passant bb f) k = bb_index bb k).
Print Assumptions X01_bb_en_passant_fields.

Theorem X01_bb_castle_rights_fields : forall bb c r,
  bpieces (bb_castle_rights bb c r) = bpieces bb /\ bstm (bb_castle_rights bb c r) = bstm bb /\
  bep (bb_castle_rights bb c r) = bep bb /\
  (forall k, bb_index (bb_castle_rights bb c r) k = bb_index bb k).
Proof. exact bb_castle_rights_fields. Qed.
Check X01_bb_castle_rights_fields : forall bb c r,
  bpieces (bb_castle_rights bb c r) = bpieces bb /\ bstm (bb_castle_rights bb c r) = bstm bb /\
  bep (bb_castle_rights bb c r) = bep bb /\
  (forall k, bb_index (bb_castle_rights bb c r) k = bb_index bb k).
Print Assumptions X01_bb_castle_rights_fields.

Theorem X01_bb_get_set_castle_rights : forall bb c r c',
  bb_get_castle_rights (bb_castle_rights bb c r) c' =
  if color_eqb c c' then r else bb_get_castle_rights bb c'.
Proof. exact bb_get_set_castle_rights. Qed.
Check X01_bb_get_set_castle_rights : forall bb c r c',
  bb_get_castle_rights (bb_castle_rights bb c r) c' =
  if color_eqb c c' then r else bb_get_castle_rights bb c'.
Print Assumptions X01_bb_get_set_castle_rights.

Theorem X01_bb_get_castle_rights_other : forall bb c,
  (forall s p k, bb_get_castle_rights (bb_piece bb s p k) c = bb_get_castle_rights bb c) /\
  (forall s, bb_get_castle_rights (bb_clear_square bb s) c = bb_get_castle_rights bb c) /\
  (forall k, bb_get_castle_rights (bb_side_to_move bb k) c = bb_get_castle_rights bb c) /\
  (forall f, bb_get_castle_rights (bb_en_passant bb f) c = bb_get_castle_rights bb c).
Proof. exact bb_get_castle_rights_other. Qed.
Check X01_bb_get_castle_rights_other : forall bb c,
  (forall s p k, bb_get_castle_rights (bb_piece bb s p k) c = bb_get_castle_rights bb c) /\
  (forall s, bb_get_castle_rights (bb_clear_square bb s) c = bb_get_castle_rights bb c) /\
  (forall k, bb_get_castle_rights (bb_side_to_move bb k) c = bb_get_castle_rights bb c) /\
  (forall f, bb_get_castle_rights (bb_en_passant bb f) c = bb_get_castle_rights bb c).
Print Assumptions X01_bb_get_castle_rights_other.

(** [setup]: 64 cells; each square holds the LAST entry given for it, pinned: *)
Theorem X01_last_at_def : forall pcs k, last_at pcs k =
  match find (fun x => fst (fst x) =? k) (rev pcs) with
  | Some (_, p, c) => Some (p, c)
  | None => None
  end.
Proof. exact (fun pcs k => eq_refl). Qed.
Check X01_last_at_def : forall pcs k, last_at pcs k =
  match find (fun x => fst (fst x) =? k) (rev pcs) with
  | Some (_, p, c) => Some (p, c)
  | None => None
  end.
Print Assumptions X01_last_at_def.

Theorem X01_last_at_some : forall pcs k p c, last_at pcs k = Some (p, c) <->
  exists l1 l2, pcs = l1 ++ (k, p, c) :: l2 /\ Forall (fun x => fst (fst x) <> k) l2.
Proof. exact last_at_some. Qed.
Check X01_last_at_some : forall pcs k p c, last_at pcs k = Some (p, c) <->
  exists l1 l2, pcs = l1 ++ (k, p, c) :: l2 /\ Forall (fun x => fst (fst x) <> k) l2.
Print Assumptions X01_last_at_some.

Theorem X01_last_at_none : forall pcs k,
  last_at pcs k = None <-> Forall (fun x => fst (fst x) <> k) pcs.
Proof. exact last_at_none. Qed.
Check X01_last_at_none : forall pcs k,
  last_at pcs k = None <-> Forall (fun x => fst (fst x) <> k) pcs.
Print Assumptions X01_last_at_none.

Theorem X01_bb_setup_length : forall pcs stm w b e,
  length (bpieces (bb_setup pcs stm w b e)) = 64%nat.
Proof. exact bb_setup_length. Qed.
Check X01_bb_setup_length : forall pcs stm w b e,
  length (bpieces (bb_setup pcs stm w b e)) = 64%nat.
Print Assumptions X01_bb_setup_length.

Theorem X01_bb_setup_index : forall pcs stm w b e k, k < 64 ->
  bb_index (bb_setup pcs stm w b e) k = last_at pcs k.
Proof. exact bb_setup_index. Qed.
Check X01_bb_setup_index : forall pcs stm w b e k, k < 64 ->
  bb_index (bb_setup pcs stm w b e) k = last_at pcs k.
Print Assumptions X01_bb_setup_index.

Theorem X01_bb_setup_index_all : forall pcs stm w b e k, Forall (fun x => fst (fst x) < 64) pcs ->
  bb_index (bb_setup pcs stm w b e) k = last_at pcs k.
Proof. exact bb_setup_index_all. Qed.
Check X01_bb_setup_index_all : forall pcs stm w b e k, Forall (fun x => fst (fst x) < 64) pcs ->
  bb_index (bb_setup pcs stm w b e) k = last_at pcs k.
Print Assumptions X01_bb_setup_index_all.

Theorem X01_bb_setup_fields : forall pcs stm w b e,
  bstm (bb_setup pcs stm w b e) = stm /\ bcrW (bb_setup pcs stm w b e) = w /\
  bcrB (bb_setup pcs stm w b e) = b /\ bep (bb_setup pcs stm w b e) = e /\
  (forall c, bb_get_castle_rights (bb_setup pcs stm w b e) c = match c with White => w | Black => b end).
Proof. exact bb_setup_fields. Qed.
Check X01_bb_setup_fields : forall pcs stm w b e,
  bstm (bb_setup pcs stm w b e) = stm /\ bcrW (bb_setup pcs stm w b e) = w /\
  bcrB (bb_setup pcs stm w b e) = b /\ bep (bb_setup pcs stm w b e) = e /\
  (forall c, bb_get_castle_rights (bb_setup pcs stm w b e) c = match c with White => w | Black => b end).
Print Assumptions X01_bb_setup_fields.

Theorem X01_bb_setup_nil : forall stm w b e,
  bpieces (bb_setup [] stm w b e) = repeat None 64 /\
  (forall k, bb_index (bb_setup [] stm w b e) k = None).
Proof. exact bb_setup_nil. Qed.
Check X01_bb_setup_nil : forall stm w b e,
  bpieces (bb_setup [] stm w b e) = repeat None 64 /\
  (forall k, bb_index (bb_setup [] stm w b e) k = None).
Print Assumptions X01_bb_setup_nil.

Theorem X01_bb_setup_as_pieces : forall pcs stm w b e,
  bb_setup pcs stm w b e =
  fold_left (fun bb x => match x with (s, p, c) => bb_piece bb s p c end) pcs (bb_setup [] stm w b e).
Proof. exact bb_setup_as_pieces. Qed.
Check X01_bb_setup_as_pieces : forall pcs stm w b e,
  bb_setup pcs stm w b e =
  fold_left (fun bb x => match x with (s, p, c) => bb_piece bb s p c end) pcs (bb_setup [] stm w b e).
Print Assumptions X01_bb_setup_as_pieces.

Theorem X01_bb_examples :
  (let bb := bb_piece (bb_setup [] White 3 3 None) 4 King White in
   bb_index bb 4 = Some (King, White) /\ bb_index bb 5 = None /\
   bb_index (bb_clear_square bb 4) 4 = None /\
   bb_get_castle_rights (bb_castle_rights bb Black 1) Black = 1 /\
   bb_get_castle_rights (bb_castle_rights bb Black 1) White = 3) /\
  (let pcs := [(4, King, White); (60, King, Black); (4, Queen, White)] in
   Forall (fun x => fst (fst x) < 64) pcs /\
   bb_index (bb_setup pcs Black 0 0 (Some 3)) 4 = Some (Queen, White) /\
   last_at pcs 4 = Some (Queen, White) /\ last_at pcs 60 = Some (King, Black) /\ last_at pcs 5 = None).
Proof. exact (conj ex_piece_then_index ex_setup_last_wins). Qed.
Check X01_bb_examples :
  (let bb := bb_piece (bb_setup [] White 3 3 None) 4 King White in
   bb_index bb 4 = Some (King, White) /\ bb_index bb 5 = None /\
   bb_index (bb_clear_square bb 4) 4 = None /\
   bb_get_castle_rights (bb_castle_rights bb Black 1) Black = 1 /\
   bb_get_castle_rights (bb_castle_rights bb Black 1) White = 3) /\
  (let pcs := [(4, King, White); (60, King, Black); (4, Queen, White)] in
   Forall (fun x => fst (fst x) < 64) pcs /\
   bb_index (bb_setup pcs Black 0 0 (Some 3)) 4 = Some (Queen, White) /\
   last_at pcs 4 = Some (Queen, White) /\ last_at pcs 60 = Some (King, Black) /\ last_at pcs 5 = None).
Print Assumptions X01_bb_examples.

(** ** 5. The oracle against the published perft numbers (chessprogramming.org "Perft Results")
    Each test position is the board [Board::from_str] returns for its FEN; it shows a valid
    position and is canonical.  [X01_pub_*]: the model's perft, evaluated.  [X01_oracle_*]: the
    FIDE-rules oracle [Spec.Rules.perft] on the position the board shows, obtained through
    [X01_perft_canonical] — the oracle is never evaluated.  Proofs: [Proofs/PerftPublished.v]. *)

Theorem X01_pub_start_parses : board_from_str Model.Extra.start_fen = Ok (from_scratch startpos).
Proof. exact start_parses. Qed.
Check X01_pub_start_parses : board_from_str Model.Extra.start_fen = Ok (from_scratch startpos).
Print Assumptions X01_pub_start_parses.

Theorem X01_pub_start_1 : movegen_perft (from_scratch startpos) 1 = Some 20.
Proof. exact ex_perft_start_1. Qed.
Check X01_pub_start_1 : movegen_perft (from_scratch startpos) 1 = Some 20.
Print Assumptions X01_pub_start_1.

Theorem X01_oracle_start_1 : perft 1 startpos = 20.
Proof. exact oracle_start_1. Qed.
Check X01_oracle_start_1 : perft 1 startpos = 20.
Print Assumptions X01_oracle_start_1.

Theorem X01_pub_start_2 : movegen_perft (from_scratch startpos) 2 = Some 400.
Proof. exact ex_perft_start_2. Qed.
Check X01_pub_start_2 : movegen_perft (from_scratch startpos) 2 = Some 400.
Print Assumptions X01_pub_start_2.

Theorem X01_oracle_start_2 : perft 2 startpos = 400.
Proof. exact oracle_start_2. Qed.
Check X01_oracle_start_2 : perft 2 startpos = 400.
Print Assumptions X01_oracle_start_2.

Theorem X01_pub_start_3 : movegen_perft (from_scratch startpos) 3 = Some 8902.
Proof. exact ex_perft_start_3. Qed.
Check X01_pub_start_3 : movegen_perft (from_scratch startpos) 3 = Some 8902.
Print Assumptions X01_pub_start_3.

Theorem X01_oracle_start_3 : perft 3 startpos = 8902.
Proof. exact oracle_start_3. Qed.
Check X01_oracle_start_3 : perft 3 startpos = 8902.
Print Assumptions X01_oracle_start_3.

Theorem X01_pub_start_4 : movegen_perft (from_scratch startpos) 4 = Some 197281.
Proof. exact ex_perft_start_4. Qed.
Check X01_pub_start_4 : movegen_perft (from_scratch startpos) 4 = Some 197281.
Print Assumptions X01_pub_start_4.

(** Kiwipete: [r3k2r/p1ppqpb1/bn2pnp1/3PN3/1p2P3/2N2Q1p/PPPBBPPP/R3K2R w KQkq - 0 1] *)
Theorem X01_pub_kiwi_fen : kiwi_fen = s_of "r3k2r/p1ppqpb1/bn2pnp1/3PN3/1p2P3/2N2Q1p/PPPBBPPP/R3K2R w KQkq - 0 1"%string.
Proof. exact eq_refl. Qed.
Check X01_pub_kiwi_fen : kiwi_fen = s_of "r3k2r/p1ppqpb1/bn2pnp1/3PN3/1p2P3/2N2Q1p/PPPBBPPP/R3K2R w KQkq - 0 1"%string.
Print Assumptions X01_pub_kiwi_fen.

Theorem X01_pub_kiwi_parses : board_from_str kiwi_fen = Ok kiwi_board.
Proof. exact kiwi_parses. Qed.
Check X01_pub_kiwi_parses : board_from_str kiwi_fen = Ok kiwi_board.
Print Assumptions X01_pub_kiwi_parses.

Theorem X01_pub_kiwi_valid : pos_valid (abs_board kiwi_board) = true.
Proof. exact kiwi_valid. Qed.
Check X01_pub_kiwi_valid : pos_valid (abs_board kiwi_board) = true.
Print Assumptions X01_pub_kiwi_valid.

Theorem X01_pub_kiwi_canonical : Canonical kiwi_board.
Proof. exact kiwi_canonical. Qed.
Check X01_pub_kiwi_canonical : Canonical kiwi_board.
Print Assumptions X01_pub_kiwi_canonical.

Theorem X01_pub_kiwi_1 : movegen_perft kiwi_board 1 = Some 48.
Proof. exact pub_kiwi_1. Qed.
Check X01_pub_kiwi_1 : movegen_perft kiwi_board 1 = Some 48.
Print Assumptions X01_pub_kiwi_1.

Theorem X01_oracle_kiwi_1 : perft 1 (abs_board kiwi_board) = 48.
Proof. exact oracle_kiwi_1. Qed.
Check X01_oracle_kiwi_1 : perft 1 (abs_board kiwi_board) = 48.
Print Assumptions X01_oracle_kiwi_1.

Theorem X01_pub_kiwi_2 : movegen_perft kiwi_board 2 = Some 2039.
Proof. exact pub_kiwi_2. Qed.
Check X01_pub_kiwi_2 : movegen_perft kiwi_board 2 = Some 2039.
Print Assumptions X01_pub_kiwi_2.

Theorem X01_oracle_kiwi_2 : perft 2 (abs_board kiwi_board) = 2039.
Proof. exact oracle_kiwi_2. Qed.
Check X01_oracle_kiwi_2 : perft 2 (abs_board kiwi_board) = 2039.
Print Assumptions X01_oracle_kiwi_2.

Theorem X01_pub_kiwi_3 : movegen_perft kiwi_board 3 = Some 97862.
Proof. exact pub_kiwi_3. Qed.
Check X01_pub_kiwi_3 : movegen_perft kiwi_board 3 = Some 97862.
Print Assumptions X01_pub_kiwi_3.

Theorem X01_oracle_kiwi_3 : perft 3 (abs_board kiwi_board) = 97862.
Proof. exact oracle_kiwi_3. Qed.
Check X01_oracle_kiwi_3 : perft 3 (abs_board kiwi_board) = 97862.
Print Assumptions X01_oracle_kiwi_3.

(** position 3: [8/2p5/3p4/KP5r/1R3p1k/8/4P1P1/8 w - - 0 1] *)
Theorem X01_pub_pos3_fen : pos3_fen = s_of "8/2p5/3p4/KP5r/1R3p1k/8/4P1P1/8 w - - 0 1"%string.
Proof. exact eq_refl. Qed.
Check X01_pub_pos3_fen : pos3_fen = s_of "8/2p5/3p4/KP5r/1R3p1k/8/4P1P1/8 w - - 0 1"%string.
Print Assumptions X01_pub_pos3_fen.

Theorem X01_pub_pos3_parses : board_from_str pos3_fen = Ok pos3_board.
Proof. exact pos3_parses. Qed.
Check X01_pub_pos3_parses : board_from_str pos3_fen = Ok pos3_board.
Print Assumptions X01_pub_pos3_parses.

Theorem X01_pub_pos3_valid : pos_valid (abs_board pos3_board) = true.
Proof. exact pos3_valid. Qed.
Check X01_pub_pos3_valid : pos_valid (abs_board pos3_board) = true.
Print Assumptions X01_pub_pos3_valid.

Theorem X01_pub_pos3_canonical : Canonical pos3_board.
Proof. exact pos3_canonical. Qed.
Check X01_pub_pos3_canonical : Canonical pos3_board.
Print Assumptions X01_pub_pos3_canonical.

Theorem X01_pub_pos3_1 : movegen_perft pos3_board 1 = Some 14.
Proof. exact pub_pos3_1. Qed.
Check X01_pub_pos3_1 : movegen_perft pos3_board 1 = Some 14.
Print Assumptions X01_pub_pos3_1.

Theorem X01_oracle_pos3_1 : perft 1 (abs_board pos3_board) = 14.
Proof. exact oracle_pos3_1. Qed.
Check X01_oracle_pos3_1 : perft 1 (abs_board pos3_board) = 14.
Print Assumptions X01_oracle_pos3_1.

Theorem X01_pub_pos3_2 : movegen_perft pos3_board 2 = Some 191.
Proof. exact pub_pos3_2. Qed.
Check X01_pub_pos3_2 : movegen_perft pos3_board 2 = Some 191.
Print Assumptions X01_pub_pos3_2.

Theorem X01_oracle_pos3_2 : perft 2 (abs_board pos3_board) = 191.
Proof. exact oracle_pos3_2. Qed.
Check X01_oracle_pos3_2 : perft 2 (abs_board pos3_board) = 191.
Print Assumptions X01_oracle_pos3_2.

Theorem X01_pub_pos3_3 : movegen_perft pos3_board 3 = Some 2812.
Proof. exact pub_pos3_3. Qed.
Check X01_pub_pos3_3 : movegen_perft pos3_board 3 = Some 2812.
Print Assumptions X01_pub_pos3_3.

Theorem X01_oracle_pos3_3 : perft 3 (abs_board pos3_board) = 2812.
Proof. exact oracle_pos3_3. Qed.
Check X01_oracle_pos3_3 : perft 3 (abs_board pos3_board) = 2812.
Print Assumptions X01_oracle_pos3_3.

Theorem X01_pub_pos3_4 : movegen_perft pos3_board 4 = Some 43238.
Proof. exact pub_pos3_4. Qed.
Check X01_pub_pos3_4 : movegen_perft pos3_board 4 = Some 43238.
Print Assumptions X01_pub_pos3_4.

Theorem X01_oracle_pos3_4 : perft 4 (abs_board pos3_board) = 43238.
Proof. exact oracle_pos3_4. Qed.
Check X01_oracle_pos3_4 : perft 4 (abs_board pos3_board) = 43238.
Print Assumptions X01_oracle_pos3_4.

(** position 4: [r3k2r/Pppp1ppp/1b3nbN/nP6/BBP1P3/q4N2/Pp1P2PP/R2Q1RK1 w kq - 0 1] *)
Theorem X01_pub_pos4_fen : pos4_fen = s_of "r3k2r/Pppp1ppp/1b3nbN/nP6/BBP1P3/q4N2/Pp1P2PP/R2Q1RK1 w kq - 0 1"%string.
Proof. exact eq_refl. Qed.
Check X01_pub_pos4_fen : pos4_fen = s_of "r3k2r/Pppp1ppp/1b3nbN/nP6/BBP1P3/q4N2/Pp1P2PP/R2Q1RK1 w kq - 0 1"%string.
Print Assumptions X01_pub_pos4_fen.

Theorem X01_pub_pos4_parses : board_from_str pos4_fen = Ok pos4_board.
Proof. exact pos4_parses. Qed.
Check X01_pub_pos4_parses : board_from_str pos4_fen = Ok pos4_board.
Print Assumptions X01_pub_pos4_parses.

Theorem X01_pub_pos4_valid : pos_valid (abs_board pos4_board) = true.
Proof. exact pos4_valid. Qed.
Check X01_pub_pos4_valid : pos_valid (abs_board pos4_board) = true.
Print Assumptions X01_pub_pos4_valid.

Theorem X01_pub_pos4_canonical : Canonical pos4_board.
Proof. exact pos4_canonical. Qed.
Check X01_pub_pos4_canonical : Canonical pos4_board.
Print Assumptions X01_pub_pos4_canonical.

Theorem X01_pub_pos4_1 : movegen_perft pos4_board 1 = Some 6.
Proof. exact pub_pos4_1. Qed.
Check X01_pub_pos4_1 : movegen_perft pos4_board 1 = Some 6.
Print Assumptions X01_pub_pos4_1.

Theorem X01_oracle_pos4_1 : perft 1 (abs_board pos4_board) = 6.
Proof. exact oracle_pos4_1. Qed.
Check X01_oracle_pos4_1 : perft 1 (abs_board pos4_board) = 6.
Print Assumptions X01_oracle_pos4_1.

Theorem X01_pub_pos4_2 : movegen_perft pos4_board 2 = Some 264.
Proof. exact pub_pos4_2. Qed.
Check X01_pub_pos4_2 : movegen_perft pos4_board 2 = Some 264.
Print Assumptions X01_pub_pos4_2.

Theorem X01_oracle_pos4_2 : perft 2 (abs_board pos4_board) = 264.
Proof. exact oracle_pos4_2. Qed.
Check X01_oracle_pos4_2 : perft 2 (abs_board pos4_board) = 264.
Print Assumptions X01_oracle_pos4_2.

Theorem X01_pub_pos4_3 : movegen_perft pos4_board 3 = Some 9467.
Proof. exact pub_pos4_3. Qed.
Check X01_pub_pos4_3 : movegen_perft pos4_board 3 = Some 9467.
Print Assumptions X01_pub_pos4_3.

Theorem X01_oracle_pos4_3 : perft 3 (abs_board pos4_board) = 9467.
Proof. exact oracle_pos4_3. Qed.
Check X01_oracle_pos4_3 : perft 3 (abs_board pos4_board) = 9467.
Print Assumptions X01_oracle_pos4_3.

(** position 5: [rnbq1k1r/pp1Pbppp/2p5/8/2B5/8/PPP1NnPP/RNBQK2R w KQ - 1 8] *)
Theorem X01_pub_pos5_fen : pos5_fen = s_of "rnbq1k1r/pp1Pbppp/2p5/8/2B5/8/PPP1NnPP/RNBQK2R w KQ - 1 8"%string.
Proof. exact eq_refl. Qed.
Check X01_pub_pos5_fen : pos5_fen = s_of "rnbq1k1r/pp1Pbppp/2p5/8/2B5/8/PPP1NnPP/RNBQK2R w KQ - 1 8"%string.
Print Assumptions X01_pub_pos5_fen.

Theorem X01_pub_pos5_parses : board_from_str pos5_fen = Ok pos5_board.
Proof. exact pos5_parses. Qed.
Check X01_pub_pos5_parses : board_from_str pos5_fen = Ok pos5_board.
Print Assumptions X01_pub_pos5_parses.

Theorem X01_pub_pos5_valid : pos_valid (abs_board pos5_board) = true.
Proof. exact pos5_valid. Qed.
Check X01_pub_pos5_valid : pos_valid (abs_board pos5_board) = true.
Print Assumptions X01_pub_pos5_valid.

Theorem X01_pub_pos5_canonical : Canonical pos5_board.
Proof. exact pos5_canonical. Qed.
Check X01_pub_pos5_canonical : Canonical pos5_board.
Print Assumptions X01_pub_pos5_canonical.

Theorem X01_pub_pos5_1 : movegen_perft pos5_board 1 = Some 44.
Proof. exact pub_pos5_1. Qed.
Check X01_pub_pos5_1 : movegen_perft pos5_board 1 = Some 44.
Print Assumptions X01_pub_pos5_1.

Theorem X01_oracle_pos5_1 : perft 1 (abs_board pos5_board) = 44.
Proof. exact oracle_pos5_1. Qed.
Check X01_oracle_pos5_1 : perft 1 (abs_board pos5_board) = 44.
Print Assumptions X01_oracle_pos5_1.

Theorem X01_pub_pos5_2 : movegen_perft pos5_board 2 = Some 1486.
Proof. exact pub_pos5_2. Qed.
Check X01_pub_pos5_2 : movegen_perft pos5_board 2 = Some 1486.
Print Assumptions X01_pub_pos5_2.

Theorem X01_oracle_pos5_2 : perft 2 (abs_board pos5_board) = 1486.
Proof. exact oracle_pos5_2. Qed.
Check X01_oracle_pos5_2 : perft 2 (abs_board pos5_board) = 1486.
Print Assumptions X01_oracle_pos5_2.

Theorem X01_pub_pos5_3 : movegen_perft pos5_board 3 = Some 62379.
Proof. exact pub_pos5_3. Qed.
Check X01_pub_pos5_3 : movegen_perft pos5_board 3 = Some 62379.
Print Assumptions X01_pub_pos5_3.

Theorem X01_oracle_pos5_3 : perft 3 (abs_board pos5_board) = 62379.
Proof. exact oracle_pos5_3. Qed.
Check X01_oracle_pos5_3 : perft 3 (abs_board pos5_board) = 62379.
Print Assumptions X01_oracle_pos5_3.

(** position 6: [r4rk1/1pp1qppp/p1np1n2/2b1p1B1/2B1P1b1/P1NP1N2/1PP1QPPP/R4RK1 w - - 0 10] *)
Theorem X01_pub_pos6_fen : pos6_fen = s_of "r4rk1/1pp1qppp/p1np1n2/2b1p1B1/2B1P1b1/P1NP1N2/1PP1QPPP/R4RK1 w - - 0 10"%string.
Proof. exact eq_refl. Qed.
Check X01_pub_pos6_fen : pos6_fen = s_of "r4rk1/1pp1qppp/p1np1n2/2b1p1B1/2B1P1b1/P1NP1N2/1PP1QPPP/R4RK1 w - - 0 10"%string.
Print Assumptions X01_pub_pos6_fen.

Theorem X01_pub_pos6_parses : board_from_str pos6_fen = Ok pos6_board.
Proof. exact pos6_parses. Qed.
Check X01_pub_pos6_parses : board_from_str pos6_fen = Ok pos6_board.
Print Assumptions X01_pub_pos6_parses.

Theorem X01_pub_pos6_valid : pos_valid (abs_board pos6_board) = true.
Proof. exact pos6_valid. Qed.
Check X01_pub_pos6_valid : pos_valid (abs_board pos6_board) = true.
Print Assumptions X01_pub_pos6_valid.

Theorem X01_pub_pos6_canonical : Canonical pos6_board.
Proof. exact pos6_canonical. Qed.
Check X01_pub_pos6_canonical : Canonical pos6_board.
Print Assumptions X01_pub_pos6_canonical.

Theorem X01_pub_pos6_1 : movegen_perft pos6_board 1 = Some 46.
Proof. exact pub_pos6_1. Qed.
Check X01_pub_pos6_1 : movegen_perft pos6_board 1 = Some 46.
Print Assumptions X01_pub_pos6_1.

Theorem X01_oracle_pos6_1 : perft 1 (abs_board pos6_board) = 46.
Proof. exact oracle_pos6_1. Qed.
Check X01_oracle_pos6_1 : perft 1 (abs_board pos6_board) = 46.
Print Assumptions X01_oracle_pos6_1.

Theorem X01_pub_pos6_2 : movegen_perft pos6_board 2 = Some 2079.
Proof. exact pub_pos6_2. Qed.
Check X01_pub_pos6_2 : movegen_perft pos6_board 2 = Some 2079.
Print Assumptions X01_pub_pos6_2.

Theorem X01_oracle_pos6_2 : perft 2 (abs_board pos6_board) = 2079.
Proof. exact oracle_pos6_2. Qed.
Check X01_oracle_pos6_2 : perft 2 (abs_board pos6_board) = 2079.
Print Assumptions X01_oracle_pos6_2.

Theorem X01_pub_pos6_3 : movegen_perft pos6_board 3 = Some 89890.
Proof. exact pub_pos6_3. Qed.
Check X01_pub_pos6_3 : movegen_perft pos6_board 3 = Some 89890.
Print Assumptions X01_pub_pos6_3.

Theorem X01_oracle_pos6_3 : perft 3 (abs_board pos6_board) = 89890.
Proof. exact oracle_pos6_3. Qed.
Check X01_oracle_pos6_3 : perft 3 (abs_board pos6_board) = 89890.
Print Assumptions X01_oracle_pos6_3.
