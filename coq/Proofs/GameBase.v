(** * Proofs.GameBase — basic facts about [Model.Game]: move application flips the side to
    move, the log semantics ([play] over appended logs), the parity formula of
    [side_to_move], reflection lemmas for the boolean equalities of the model. *)
From Coq Require Import NArith List Lia Bool Arith ZifyBool ZifyN ZifyNat.
From Chess Require Import Model.Game.
Import ListNotations.
Open Scope N_scope.

#[local] Arguments N.add : simpl never.
#[local] Arguments N.sub : simpl never.
#[local] Arguments N.mul : simpl never.
#[local] Arguments N.modulo : simpl never.
#[local] Arguments N.eqb : simpl never.
#[local] Arguments N.leb : simpl never.
#[local] Arguments N.land : simpl never.
#[local] Arguments N.lxor : simpl never.

(** ** 1. [make_move_new] flips the side to move *)
Lemma stm_set_stm x c : stm (set_stm x c) = c. Proof. reflexivity. Qed.
Lemma stm_set_caches x a b : stm (set_caches x a b) = stm x. Proof. reflexivity. Qed.
Lemma stm_set_epsq x e : stm (set_epsq x e) = stm x. Proof. reflexivity. Qed.
Lemma stm_xor_piece x p bb c : stm (xor_piece x p bb c) = stm x. Proof. reflexivity. Qed.
Lemma stm_remove_castle_rights x c r : stm (remove_castle_rights x c r) = stm x. Proof. reflexivity. Qed.
Lemma stm_set_checkers x c : stm (set_checkers x c) = stm x. Proof. reflexivity. Qed.
Lemma stm_set_ep x s : stm (set_ep x s) = stm x.
Proof. unfold set_ep. destruct (negb _); reflexivity. Qed.

Lemma make_move_gen_flips rs re b s d promo b' :
  make_move_gen rs re b s d promo = Some b' -> stm b' = opp (stm b).
Proof.
  unfold make_move_gen. cbv zeta.
  destruct (piece_on b s) as [moved|]; [|discriminate].
  match goal with |- (let (pn,ch) := ?X in _) = _ -> _ => destruct X as [pn ch] end.
  intro H. injection H as <-. rewrite stm_set_stm. f_equal.
  destruct moved; [destruct promo as [[]|]| | | | |];
  repeat first [ rewrite stm_set_checkers | rewrite stm_xor_piece | rewrite stm_remove_castle_rights
    | rewrite stm_set_ep | rewrite stm_set_caches | rewrite stm_set_epsq
    | match goal with |- context[match ?x with _ => _ end] => destruct x end ]; reflexivity.
Qed.

Lemma mm_flips_turn b m b' : mm b m = Some b' -> stm b' = opp (stm b).
Proof. unfold mm, make_move_new. apply make_move_gen_flips. Qed.

Lemma opp_opp c : opp (opp c) = c. Proof. destruct c; reflexivity. Qed.

(** ** 2. Log semantics *)
Lemma play_app b l l' :
  play b (l ++ l') = match play b l with Some b' => play b' l' | None => None end.
Proof.
  revert b. induction l as [|a l IH]; intro b; [reflexivity|].
  destruct a as [m| | | |]; cbn [app play]; try apply IH.
  destruct (mm b m) as [b1|]; [apply IH|reflexivity].
Qed.

Lemma play_snoc_move b l m :
  play b (l ++ [MakeMove m]) = match play b l with Some b' => mm b' m | None => None end.
Proof.
  rewrite play_app. destruct (play b l) as [b'|]; [|reflexivity].
  cbn [play]. destruct (mm b' m); reflexivity.
Qed.

Lemma play_snoc_other b l a : is_move a = false -> play b (l ++ [a]) = play b l.
Proof.
  intro Ha. rewrite play_app. destruct (play b l) as [b'|]; [|reflexivity].
  destruct a; try discriminate; reflexivity.
Qed.

(** number of [MakeMove] actions of a log *)
Definition nmoves (l:list action) : nat := length (filter is_move l).
Lemma nmoves_app l l' : nmoves (l ++ l') = (nmoves l + nmoves l')%nat.
Proof. unfold nmoves. rewrite filter_app, app_length. reflexivity. Qed.

(** the colour after [n] half-moves when [c] started *)
Definition turn_after (n:nat) (c:color) : color :=
  if (N.of_nat n + (match c with White => 0 | Black => 1 end)) mod 2 =? 0 then White else Black.
Lemma turn_after_0 c : turn_after 0 c = c.
Proof. destruct c; reflexivity. Qed.
Lemma turn_after_S n c : turn_after (S n) c = turn_after n (opp c).
Proof.
  unfold turn_after. rewrite Nat2N.inj_succ.
  destruct c; cbn [opp].
  - replace (N.succ (N.of_nat n) + 0) with (N.of_nat n + 1) by lia. reflexivity.
  - replace (N.succ (N.of_nat n) + 1) with (N.of_nat n + 0 + 1 * 2) by lia.
    rewrite N.mod_add by discriminate. reflexivity.
Qed.
Lemma turn_after_opp n c : turn_after (S n) c = opp (turn_after n c).
Proof.
  revert c. induction n as [|n IH]; intro c.
  - rewrite turn_after_S, !turn_after_0. reflexivity.
  - rewrite turn_after_S, IH, <- turn_after_S. reflexivity.
Qed.

Lemma side_to_move_eq g : side_to_move g = turn_after (nmoves (actions g)) (stm (start_pos g)).
Proof. reflexivity. Qed.

Lemma play_turn b l b' : play b l = Some b' -> stm b' = turn_after (nmoves l) (stm b).
Proof.
  revert b. induction l as [|a l IH]; intros b H.
  - cbn in H. injection H as <-. symmetry. apply turn_after_0.
  - destruct a as [m| | | |]; cbn [play] in H; try (apply IH in H; exact H).
    destruct (mm b m) as [b1|] eqn:E; [|discriminate].
    apply IH in H. rewrite H. apply mm_flips_turn in E. rewrite E.
    change (nmoves (MakeMove m :: l)) with (S (nmoves l)). symmetry. apply turn_after_S.
Qed.

(** [side_to_move] (a parity computation on the log) is the side to move of the current board *)
Lemma side_to_move_correct g b : current_position g = Some b -> side_to_move g = stm b.
Proof. intro H. rewrite side_to_move_eq. symmetry. apply play_turn. exact H. Qed.

(** ** 3. Reflection of the boolean equalities *)
Lemma color_eqb_eq a b : color_eqb a b = true <-> a = b.
Proof. destruct a, b; cbn; split; congruence. Qed.
Lemma ptype_eqb_eq a b : ptype_eqb a b = true <-> a = b.
Proof. destruct a, b; cbn; split; congruence. Qed.
Lemma promo_eqb_eq a b : promo_eqb a b = true <-> a = b.
Proof.
  destruct a as [x|], b as [y|]; cbn; try (split; congruence).
  rewrite ptype_eqb_eq. split; congruence.
Qed.
Lemma cmove_eqb_eq a b : cmove_eqb a b = true <-> a = b.
Proof.
  destruct a as [s d p], b as [s' d' p']. unfold cmove_eqb. cbn [msrc mdst mpromo].
  rewrite !andb_true_iff, !N.eqb_eq, promo_eqb_eq. split.
  - intros [[-> ->] ->]. reflexivity.
  - intro H. injection H as -> -> ->. auto.
Qed.
Lemma action_eqb_eq a b : action_eqb a b = true <-> a = b.
Proof.
  destruct a as [x|c| | |c], b as [y|d| | |d]; cbn [action_eqb]; try (split; congruence).
  - rewrite cmove_eqb_eq. split; congruence.
  - rewrite color_eqb_eq. split; congruence.
  - rewrite color_eqb_eq. split; congruence.
Qed.

Lemma moves_eqb_eq (l l':list cmove) :
  Nat.eqb (length l) (length l') && forallb (fun xy => cmove_eqb (fst xy) (snd xy)) (combine l l') = true
  <-> l = l'.
Proof.
  revert l'. induction l as [|x l IH]; intros [|y l']; cbn [length combine forallb Nat.eqb fst snd];
    try (split; [discriminate|congruence]).
  - split; reflexivity.
  - change (Nat.eqb (S (length l)) (S (length l'))) with (Nat.eqb (length l) (length l')).
    split.
    + intro H. apply andb_true_iff in H. destruct H as [H1 H2].
      apply andb_true_iff in H2. destruct H2 as [H2 H3].
      apply cmove_eqb_eq in H2. subst y. f_equal. apply IH. rewrite H1, H3. reflexivity.
    + intro H. injection H as -> ->.
      assert (E : l' = l') by reflexivity. apply IH in E. apply andb_true_iff in E.
      destruct E as [E1 E2]. rewrite E1, E2.
      replace (cmove_eqb y y) with true by (symmetry; apply cmove_eqb_eq; reflexivity).
      reflexivity.
Qed.

(** [key_eqb] (the derived [==] on [(u64, Vec<ChessMove>)]) is equality *)
Lemma key_eqb_eq a b : key_eqb a b = true <-> a = b.
Proof.
  destruct a as [h l], b as [h' l']. unfold key_eqb. cbn [fst snd].
  rewrite <- andb_assoc, andb_true_iff, N.eqb_eq, moves_eqb_eq. split.
  - intros [-> ->]. reflexivity.
  - intro H. injection H as -> ->. auto.
Qed.
Lemma key_eqb_refl a : key_eqb a a = true.
Proof. apply key_eqb_eq. reflexivity. Qed.
Lemma key_eqb_sym a b : key_eqb a b = key_eqb b a.
Proof.
  destruct (key_eqb a b) eqn:E, (key_eqb b a) eqn:F; try reflexivity.
  - apply key_eqb_eq in E. subst. rewrite key_eqb_refl in F. discriminate.
  - apply key_eqb_eq in F. subst. rewrite key_eqb_refl in E. discriminate.
Qed.
Lemma key_eqb_trans a b c : key_eqb a b = true -> key_eqb b c = true -> key_eqb a c = true.
Proof. rewrite !key_eqb_eq. congruence. Qed.

(** ** 4. The latest actions of a log *)
Lemma last_action_push g a : last_action (push_action g a) = Some a.
Proof. unfold last_action, push_action. cbn [actions]. rewrite rev_unit. reflexivity. Qed.
Lemma last_action_snoc b l a : last_action {| start_pos := b; actions := l ++ [a] |} = Some a.
Proof. unfold last_action. cbn [actions]. rewrite rev_unit. reflexivity. Qed.
Lemma last_action_nil g : last_action g = None <-> actions g = [].
Proof.
  unfold last_action. destruct (actions g) as [|a l] using rev_ind.
  - split; reflexivity.
  - rewrite rev_unit. split; [discriminate|]. intro H. destruct l; discriminate.
Qed.
Lemma last_action_some g a : last_action g = Some a <-> exists l, actions g = l ++ [a].
Proof.
  unfold last_action. destruct (actions g) as [|x l _] using rev_ind.
  - split; [discriminate|]. intros [l H]. destruct l; discriminate.
  - rewrite rev_unit. split.
    + intro H. injection H as ->. eauto.
    + intros [l' H]. apply app_inj_tail in H. destruct H as [_ ->]. reflexivity.
Qed.
Lemma nth_from_end_0 l a : nth_from_end (l ++ [a]) 0 = Some a.
Proof. unfold nth_from_end. rewrite rev_unit. reflexivity. Qed.
Lemma nth_from_end_1 l a a' : nth_from_end (l ++ [a; a']) 1 = Some a.
Proof.
  unfold nth_from_end. change (l ++ [a; a']) with (l ++ [a] ++ [a']).
  rewrite app_assoc, !rev_unit. reflexivity.
Qed.
Lemma nth_from_end_0_last g : nth_from_end (actions g) 0 = last_action g.
Proof. unfold nth_from_end, last_action. destruct (rev (actions g)); reflexivity. Qed.
Lemma nth_from_end_1_some l a :
  nth_from_end l 1 = Some a <-> exists l' a', l = l' ++ [a; a'].
Proof.
  split.
  - unfold nth_from_end. destruct l as [|x l _] using rev_ind; [discriminate|].
    rewrite rev_unit. cbn [nth_error].
    destruct l as [|y l _] using rev_ind; [discriminate|].
    rewrite rev_unit. cbn [nth_error]. intro H. injection H as ->.
    exists l, x. rewrite <- app_assoc. reflexivity.
  - intros (l' & a' & ->). apply nth_from_end_1.
Qed.
