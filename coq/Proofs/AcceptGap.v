(** * Proofs.AcceptGap — the exact gap between the library's validation
    ([Board::is_sane] through [TryFrom<&BoardBuilder>]) and the specification's [pos_valid].

    [pos_valid p = weak_valid p && extra p] for EVERY [p] ([pos_valid_split], a boolean
    identity), where
    - [weak_valid] keeps the clauses the library enforces: 64 cells, one king each, at most
      sixteen men each, the side not to move not in check, backed castling rights, and the
      part of [ep_ok] the library sees (target on the sixth rank of the side to move, the
      pushed pawn behind it, a pawn of the side to move beside that pawn);
    - [extra] is the conjunction of the six clauses the library does NOT enforce: at most
      eight white pawns, at most eight black pawns, no pawn on ranks 1 and 8, the en-passant
      target empty, the square the pushed pawn came from empty, and "with the pawn put back,
      the side to move now was not in check".
    Every accepted board satisfies [weak_valid] ([accepted_weak_valid]), so on accepted boards
    [pos_valid] IS [extra] ([valid_iff_accepted_and_extra]); conversely every [weak_valid]
    position is accepted and read back ([weak_valid_accepted]); each clause of [extra] has an
    accepted witness violating it alone (section 7), and section 8 records what the model's
    move generator and [make_move_new] do on those witnesses. *)
From Coq Require Import NArith ZArith List Bool Lia ZifyBool ZifyN ZifyNat String Permutation Btauto.
From Chess Require Import Base.Bits Base.Text Spec.Geometry Spec.Rules Spec.Draw
  Model.Board Model.MoveGen Model.Fen.
From Chess Require Import Proofs.BitsFacts Proofs.TablesLib Proofs.TablesMeaning Proofs.AbsBoard
  Proofs.CanonAttack Proofs.CanonCheckers Proofs.NullMove Proofs.CanonNullMove Proofs.CanonScratch
  Proofs.RoundTripAbs Proofs.RoundTripSane Proofs.AcceptSound Proofs.CorB07 Proofs.ParseTotal.
Import ListNotations.
Open Scope N_scope.

(** ** 1. The two halves of [pos_valid] *)
Definition no_backrank_pawns (p:pos) : bool :=
  forallb (fun s => negb (has p s Pawn White || has p s Pawn Black))
          [0;1;2;3;4;5;6;7;56;57;58;59;60;61;62;63].
Definition ep_target_empty (p:pos) : bool :=
  match ep p with Some t => negb (occ p t) | None => true end.
Definition ep_origin_empty (p:pos) : bool :=
  match ep p with
  | Some t => match step t (0, fwdc (turn p))%Z with Some origin => negb (occ p origin) | None => true end
  | None => true end.
Definition ep_no_prior_check (p:pos) : bool :=
  match ep p with
  | Some t =>
    let c := turn p in let o := opp c in
    match step t (0, - fwdc c)%Z, step t (0, fwdc c)%Z with
    | Some pawn_sq, Some origin =>
      negb (in_check
              {| placement := updN (updN (placement p) pawn_sq None) origin (Some (Pawn,o));
                 turn := o; wk := wk p; wq := wq p; bk := bk p; bq := bq p; ep := None |} c)
    | _, _ => true end
  | None => true end.

(** the clauses of [pos_valid] that [is_sane] does not enforce *)
Definition extra (p:pos) : bool :=
  (pawns p White <=? 8) && (pawns p Black <=? 8) && no_backrank_pawns p
  && ep_target_empty p && ep_origin_empty p && ep_no_prior_check p.

(** the same, clause by clause (for the witnesses) *)
Definition gap_profile (p:pos) : list bool :=
  [pawns p White <=? 8; pawns p Black <=? 8; no_backrank_pawns p;
   ep_target_empty p; ep_origin_empty p; ep_no_prior_check p].
Lemma extra_profile p : extra p = forallb (fun x => x) (gap_profile p).
Proof. unfold extra, gap_profile. cbn [forallb]. rewrite andb_true_r, !andb_assoc. reflexivity. Qed.

(** the part of [ep_ok] the library enforces *)
Definition weak_ep_ok (p:pos) : bool :=
  match ep p with
  | None => true
  | Some t =>
    let c := turn p in let o := opp c in
    (t <? 64) && (rank_of t =? sixth_rank c) &&
    match step t (0, - fwdc c)%Z, step t (0, fwdc c)%Z with
    | Some pawn_sq, Some origin =>
      has p pawn_sq Pawn o
      && existsb (fun d => match step pawn_sq d with
                           | Some x => has p x Pawn c | None => false end) [(1,0);(-1,0)]%Z
    | _, _ => false end
  end.
(** [pos_valid] without the clauses of [extra] *)
Definition weak_valid (p:pos) : bool :=
  (length (placement p) =? 64)%nat
  && (kings p White =? 1) && (kings p Black =? 1)
  && (men p White <=? 16) && (men p Black <=? 16)
  && negb (in_check p (opp (turn p)))
  && implb (wk p) (has p 4 King White && has p 7 Rook White)
  && implb (wq p) (has p 4 King White && has p 0 Rook White)
  && implb (bk p) (has p 60 King Black && has p 63 Rook Black)
  && implb (bq p) (has p 60 King Black && has p 56 Rook Black)
  && weak_ep_ok p.

Lemma ep_ok_split p :
  ep_ok p = weak_ep_ok p && ep_target_empty p && ep_origin_empty p && ep_no_prior_check p.
Proof.
  unfold ep_ok, weak_ep_ok, ep_target_empty, ep_origin_empty, ep_no_prior_check.
  destruct (ep p) as [t|]; [|reflexivity]. cbv zeta.
  destruct (step t (0, - fwdc (turn p))%Z) as [ps|];
    destruct (step t (0, fwdc (turn p))%Z) as [og|];
    try (rewrite ?andb_false_r; reflexivity).
  btauto.
Qed.

(** the boolean identity: validity = the enforced half and the unenforced half *)
Theorem pos_valid_split p : pos_valid p = weak_valid p && extra p.
Proof.
  unfold pos_valid, weak_valid, extra, no_backrank_pawns. rewrite ep_ok_split.
  apply Bool.eq_true_iff_eq. rewrite !andb_true_iff.
  split; intro H; repeat match goal with Hx : _ /\ _ |- _ => destruct Hx end;
    repeat split; assumption.
Qed.

Corollary pos_valid_iff_split p : pos_valid p = true <-> weak_valid p = true /\ extra p = true.
Proof. rewrite pos_valid_split. apply andb_true_iff. Qed.

(** [weak_valid], unpacked (same shape as [RoundTripAbs.pos_valid_unpack]) *)
Lemma weak_valid_unpack p : weak_valid p = true ->
  length (placement p) = 64%nat /\ kings p White = 1 /\ kings p Black = 1 /\
  men p White <= 16 /\ men p Black <= 16 /\
  in_check p (opp (turn p)) = false /\
  (wk p = true -> has p 4 King White = true /\ has p 7 Rook White = true) /\
  (wq p = true -> has p 4 King White = true /\ has p 0 Rook White = true) /\
  (bk p = true -> has p 60 King Black = true /\ has p 63 Rook Black = true) /\
  (bq p = true -> has p 60 King Black = true /\ has p 56 Rook Black = true) /\
  weak_ep_ok p = true.
Proof.
  unfold weak_valid. rewrite !andb_true_iff.
  intros [[[[[[[[[[H1 H2] H3] H4] H5] H9] H10] H11] H12] H13] H14].
  split; [apply Nat.eqb_eq, H1|].
  split; [apply N.eqb_eq, H2|]. split; [apply N.eqb_eq, H3|].
  split; [apply N.leb_le, H4|]. split; [apply N.leb_le, H5|].
  split; [destruct (in_check p (opp (turn p))); [discriminate H9|reflexivity]|].
  split; [intro E; rewrite E in H10; cbn [implb] in H10; apply andb_true_iff, H10|].
  split; [intro E; rewrite E in H11; cbn [implb] in H11; apply andb_true_iff, H11|].
  split; [intro E; rewrite E in H12; cbn [implb] in H12; apply andb_true_iff, H12|].
  split; [intro E; rewrite E in H13; cbn [implb] in H13; apply andb_true_iff, H13|].
  exact H14.
Qed.

(** what [weak_ep_ok] says about a recorded target (the conclusion of [ep_ok_facts]) *)
Lemma weak_ep_facts p t : weak_ep_ok p = true -> ep p = Some t ->
  t < 64 /\ rank_of t = sixth_rank (turn p) /\
  exists ps, step t (0, - fwdc (turn p))%Z = Some ps /\ has p ps Pawn (opp (turn p)) = true /\
    exists d x, In d [(1,0);(-1,0)]%Z /\ step ps d = Some x /\ has p x Pawn (turn p) = true.
Proof.
  unfold weak_ep_ok. intros H E. rewrite E in H. cbv zeta in H.
  apply andb_true_iff in H. destruct H as [H Hm].
  apply andb_true_iff in H. destruct H as [Ht Hr].
  apply N.ltb_lt in Ht. apply N.eqb_eq in Hr.
  split; [exact Ht|]. split; [exact Hr|].
  destruct (step t (0, - fwdc (turn p))%Z) as [ps|]; [|discriminate Hm].
  destruct (step t (0, fwdc (turn p))%Z) as [og|]; [|discriminate Hm].
  apply andb_true_iff in Hm. destruct Hm as [Hp Hex].
  exists ps. split; [reflexivity|]. split; [exact Hp|].
  apply existsb_exists in Hex. destruct Hex as [d [Hd Hx]].
  destruct (step ps d) as [x|] eqn:Es; [|discriminate Hx].
  exists d, x. split; [exact Hd|]. split; [exact Es|exact Hx].
Qed.

(** ** 2. Square geometry, by complete sweeps *)
(** from the pushed pawn's square [e] (on the double-push rank of the side that is not to
    move) the FIDE target [uforward c e] is on the board, on the sixth rank of [c], one step
    back from it is [e], and one step forward exists *)
Definition gap_geom_ok (w:bool) (e:N) : bool :=
  let c := col w in
  implb (sq_rank e =? fourth_rk (opp c))
    (let t := uforward c e in
     (t <? 64) && (rank_of t =? sixth_rank c)
     && opt_eqb (step t (0, - fwdc c)%Z) (Some e)
     && match step t (0, fwdc c)%Z with Some _ => true | None => false end).
Lemma gap_geom_sweep : forallb (fun w => forallb (gap_geom_ok w) all_sq) both_colors = true.
Proof. vm_cast_no_check (eq_refl true). Qed.
Lemma gap_geom c e : e < 64 -> sq_rank e = fourth_rk (opp c) ->
  uforward c e < 64 /\ rank_of (uforward c e) = sixth_rank c /\
  step (uforward c e) (0, - fwdc c)%Z = Some e /\
  exists og, step (uforward c e) (0, fwdc c)%Z = Some og.
Proof.
  intros He Hr.
  pose proof (sweepc_64 _ gap_geom_sweep (is_white c) e He) as H. unfold gap_geom_ok in H.
  replace (col (is_white c)) with c in H by (destruct c; reflexivity). cbv zeta in H.
  rewrite Hr, N.eqb_refl in H. cbn [implb] in H.
  rewrite !andb_true_iff in H. destruct H as [[[H1 H2] H3] H4].
  apply N.ltb_lt in H1. apply N.eqb_eq in H2. apply opt_eqb_eq in H3.
  split; [exact H1|]. split; [exact H2|]. split; [exact H3|].
  destruct (step (uforward c e) (0, fwdc c)%Z) as [og|]; [exists og; reflexivity|discriminate H4].
Qed.

(** a square in the word [set_ep] tests is a horizontal neighbour *)
Definition gap_adj_ok (e x:N) : bool :=
  implb (N.testbit (N.land (get_adjacent_files (sq_file e)) (get_rank (sq_rank e))) x)
        (existsb (fun d => opt_eqb (step e d) (Some x)) [(1,0);(-1,0)]%Z).
Lemma gap_adj_sweep : forallb (fun e => forallb (fun x => gap_adj_ok e x) all_sq) all_sq = true.
Proof. vm_cast_no_check (eq_refl true). Qed.
Lemma gap_adj e x : e < 64 -> x < 64 ->
  N.testbit (N.land (get_adjacent_files (sq_file e)) (get_rank (sq_rank e))) x = true ->
  exists d, In d [(1,0);(-1,0)]%Z /\ step e d = Some x.
Proof.
  intros He Hx Hb. pose proof (sweep64_2 _ gap_adj_sweep e x He Hx) as H. unfold gap_adj_ok in H.
  rewrite Hb in H. cbn [implb] in H. apply existsb_exists in H. destruct H as [d [Hd H]].
  exists d. split; [exact Hd|apply opt_eqb_eq, H].
Qed.

(** ** 3. When [set_ep] stored the square, a pawn of the side to move stands beside it *)
Lemma nz_testbit n : n <> 0 -> exists x, N.testbit n x = true.
Proof. intro H. exists (N.log2 n). apply N.bit_log2, H. Qed.

Lemma set_ep_stored_inv X e0 e : epsq X = None -> epsq (set_ep X e0) = Some e ->
  e = e0 /\ exists x,
    N.testbit (N.land (get_adjacent_files (sq_file e0)) (get_rank (sq_rank e0))) x = true /\
    N.testbit (pP X) x = true /\ N.testbit (color_combined X (opp (stm X))) x = true.
Proof.
  intros H0. unfold set_ep.
  destruct (N.eqb_spec (N.land (N.land (N.land (get_adjacent_files (sq_file e0)) (get_rank (sq_rank e0))) (pP X))
                               (color_combined X (opp (stm X)))) 0) as [Hz|Hnz]; cbn [negb].
  - rewrite H0. discriminate.
  - cbn [set_epsq epsq]. intro H. injection H as <-. split; [reflexivity|].
    destruct (nz_testbit _ Hnz) as [x Hx]. exists x.
    rewrite !N.land_spec in Hx. rewrite N.land_spec.
    apply andb_true_iff in Hx. destruct Hx as [Hx H3].
    apply andb_true_iff in Hx. destruct Hx as [Hx H2].
    rewrite Hx, H2, H3. repeat split.
Qed.

Lemma raw_from_epsq_inv P bb e : epsq P = None -> epsq (raw_from P bb) = Some e ->
  exists x,
    N.testbit (N.land (get_adjacent_files (sq_file e)) (get_rank (sq_rank e))) x = true /\
    N.testbit (pP P) x = true /\ N.testbit (color_combined P (bstm bb)) x = true.
Proof.
  intros H0. unfold raw_from.
  destruct (builder_get_en_passant bb) as [e0|];
    cbn [add_castle_rights set_castle_rights epsq set_stm].
  - intro H. apply set_ep_stored_inv in H; [|exact H0].
    destruct H as [-> [x [H1 [H2 H3]]]]. exists x. split; [exact H1|].
    cbn [set_stm pP stm] in H2, H3. rewrite opp_opp in H3. split; [exact H2|].
    destruct (bstm bb); exact H3.
  - rewrite H0. discriminate.
Qed.

Lemma same_occ_color a b c : same_occ a b -> color_combined a c = color_combined b c.
Proof.
  unfold same_occ. intros [_ [_ [_ [_ [_ [_ [EW [EB _]]]]]]]]. destruct c; [exact EW|exact EB].
Qed.
Lemma same_occ_pawns a b : same_occ a b -> pP a = pP b.
Proof. unfold same_occ. intros [EP _]. exact EP. Qed.

Lemma fbr_ep_adjacent bb b e : b = from_builder_raw bb -> epsq b = Some e ->
  exists x,
    N.testbit (N.land (get_adjacent_files (sq_file e)) (get_rank (sq_rank e))) x = true /\
    N.testbit (pP b) x = true /\ N.testbit (color_combined b (bstm bb)) x = true.
Proof.
  intros -> H.
  pose proof (from_builder_raw_occ bb) as Ho.
  rewrite from_builder_raw_split in H.
  destruct (update_pin_info_same_core (raw_of_builder bb)) as [_ [_ [_ [_ [_ He]]]]].
  rewrite He, raw_of_builder_from in H.
  apply raw_from_epsq_inv in H;
    [|exact (proj2 (proj2 (proj2 (proj2 (proj2 (place_all_other _))))))].
  destruct H as [x [H1 [H2 H3]]]. exists x. split; [exact H1|].
  rewrite (same_occ_pawns _ _ Ho), (same_occ_color _ _ (bstm bb) Ho).
  split; [exact H2|exact H3].
Qed.

(** ** 4. Every accepted board shows a [weak_valid] position *)
Lemma turn_abs b : turn (abs_board b) = stm b.
Proof. reflexivity. Qed.
Lemma ep_abs b :
  ep (abs_board b) = match epsq b with Some e => Some (uforward (stm b) e) | None => None end.
Proof. reflexivity. Qed.
Lemma len_abs b : length (placement (abs_board b)) = 64%nat.
Proof. unfold abs_board. cbn [placement]. rewrite map_length. reflexivity. Qed.

Section AcceptedWeak.
Variables (bb:builder) (b:board).
Hypothesis Hacc : try_from_builder bb = Some b.

Lemma acc_weak_ep : weak_ep_ok (abs_board b) = true.
Proof.
  pose proof (accepted_consistent bb b Hacc) as HC.
  destruct (accept_sound_bits bb b Hacc) as (Hb & _ & Hstm & _ & _ & _ & _ & _ & _ & _ & Hep & _).
  unfold weak_ep_ok. rewrite ep_abs.
  destruct (epsq b) as [e|] eqn:Ee; [|reflexivity]. cbv zeta. rewrite !turn_abs.
  destruct (Hep e eq_refl) as [Hbit [Hrk _]].
  rewrite N.land_spec in Hbit. apply andb_true_iff in Hbit. destruct Hbit as [HP Hcol].
  assert (He : e < 64) by exact (testbit_lt64 _ e (cs_pieces_lt b HC Pawn) HP).
  destruct (gap_geom (stm b) e He Hrk) as [Ht [Hr6 [Hback [og Hfwd]]]].
  rewrite (proj2 (N.ltb_lt _ _) Ht), Hr6, N.eqb_refl, Hback, Hfwd. cbn [andb].
  apply andb_true_iff. split.
  - rewrite (has_abs b e Pawn (opp (stm b)) HC He). cbn [pieces]. rewrite HP, Hcol. reflexivity.
  - destruct (fbr_ep_adjacent bb b e Hb Ee) as [x [Hadj [HPx Hcx]]].
    assert (Hx : x < 64) by exact (testbit_lt64 _ x (cs_pieces_lt b HC Pawn) HPx).
    destruct (gap_adj e x He Hx Hadj) as [d [Hd Hs]].
    apply existsb_exists. exists d. split; [exact Hd|]. rewrite Hs.
    rewrite (has_abs b x Pawn (stm b) HC Hx). cbn [pieces]. rewrite HPx, Hstm, Hcx. reflexivity.
Qed.

Theorem acc_weak_valid : weak_valid (abs_board b) = true.
Proof.
  destruct (accept_sound_full bb b Hacc) as (KW & KB & Hnc & C1 & C2 & C3 & C4 & _ & MW & MB).
  unfold weak_valid. rewrite !andb_true_iff.
  split; [split; [split; [split; [split; [split; [split; [split; [split; [split|]|]|]|]|]|]|]|]|].
  - rewrite len_abs. reflexivity.
  - rewrite KW. reflexivity.
  - rewrite KB. reflexivity.
  - apply N.leb_le, MW.
  - apply N.leb_le, MB.
  - rewrite turn_abs, Hnc. reflexivity.
  - exact C1.
  - exact C2.
  - exact C3.
  - exact C4.
  - exact acc_weak_ep.
Qed.
End AcceptedWeak.

Theorem accepted_weak_valid : forall bb b, try_from_builder bb = Some b ->
  weak_valid (abs_board b) = true.
Proof. exact acc_weak_valid. Qed.

(** on accepted boards validity IS the unenforced half *)
Theorem accepted_valid_eq_extra : forall bb b, try_from_builder bb = Some b ->
  pos_valid (abs_board b) = extra (abs_board b).
Proof. intros bb b H. rewrite pos_valid_split, (acc_weak_valid bb b H). reflexivity. Qed.

Theorem valid_iff_accepted_and_extra : forall bb b, try_from_builder bb = Some b ->
  (pos_valid (abs_board b) = true <-> extra (abs_board b) = true).
Proof. intros bb b H. rewrite (accepted_valid_eq_extra bb b H). tauto. Qed.

(** the same for a board parsed from any text *)
Theorem parsed_valid_iff_extra : forall s b, board_from_str s = Ok b ->
  (pos_valid (abs_board b) = true <-> extra (abs_board b) = true).
Proof.
  intros s b H. apply board_from_str_ok_iff in H as [bb [_ H]].
  exact (valid_iff_accepted_and_extra bb b H).
Qed.

(** ** 5. Every [weak_valid] position is accepted and read back
    (the proofs of [RoundTripAbs] / [RoundTripSane] with [weak_valid] for [pos_valid]: they
    never used the clauses of [extra]) *)
Lemma raw_from_epsq_weak P p : Consistent P -> epsq P = None ->
  (forall s, s < 64 -> at_ (abs_board P) s = at_ p s) -> weak_ep_ok p = true ->
  epsq (raw_from P (builder_of_pos p))
  = match ep p with Some t => Some (mk_sq (fourth_rk (opp (turn p))) (file_of t)) | None => None end.
Proof.
  intros HC HPe Hat Hep.
  pose proof (builder_ep_of_pos p) as Hb.
  destruct (ep p) as [t|] eqn:E.
  - destruct (weak_ep_facts p t Hep E) as (Ht & Hr & ps & Hps & Hpawn & d & x & Hd & Hx & Hown).
    destruct (ep_geom (turn p) t ps Ht Hr Hps) as [Hpe [_ Hlt]].
    rewrite <- Hpe in Hb |- *.
    destruct (ep_adj ps d x Hlt Hd Hx) as [Hxlt Hadj].
    pose proof (has_abs P x Pawn (turn p) HC Hxlt) as Hh.
    rewrite (has_of_at _ p x Pawn (turn p) (Hat x Hxlt)), Hown in Hh. symmetry in Hh.
    apply andb_true_iff in Hh. destruct Hh as [Hh1 Hh2].
    exact (raw_from_epsq P _ ps x Hb Hadj Hh1 Hh2).
  - destruct (raw_from_fields P (builder_of_pos p)) as (_ & _ & _ & _ & _ & H).
    rewrite (H Hb). exact HPe.
Qed.

Lemma epsq_from_scratch_weak p : weak_ep_ok p = true ->
  epsq (from_scratch p)
  = match ep p with Some t => Some (mk_sq (fourth_rk (opp (turn p))) (file_of t)) | None => None end.
Proof.
  intro Hep. rewrite epsq_from_scratch_raw. unfold raw. rewrite raw_of_builder_from.
  apply raw_from_epsq_weak.
  - apply place_all_consistent.
  - exact (proj2 (proj2 (proj2 (proj2 (proj2 (place_all_other _)))))).
  - intros s Hs. exact (at_place_all _ s Hs).
  - exact Hep.
Qed.

(** the round trip needs only the length and the enforced part of [ep_ok] *)
Theorem abs_from_scratch_weak p : length (placement p) = 64%nat -> weak_ep_ok p = true ->
  abs_board (from_scratch p) = p.
Proof.
  intros Hlen Hep.
  destruct (from_scratch_fields p) as [Hstm [HcW HcB]].
  apply abs_board_eq.
  - rewrite (placement_occ _ _ (from_scratch_occ p)). apply placement_place_all, Hlen.
  - exact Hstm.
  - exact HcW.
  - exact HcB.
  - rewrite (epsq_from_scratch_weak p Hep), Hstm.
    destruct (ep p) as [t|] eqn:E; [|reflexivity].
    destruct (weak_ep_facts p t Hep E) as (Ht & Hr & ps & Hps & _).
    destruct (ep_geom (turn p) t ps Ht Hr Hps) as [Hpe [Hf _]].
    rewrite <- Hpe, Hf. reflexivity.
Qed.

Section SaneWeak.
Variable b : board.
Variable p : pos.
Hypothesis HC : Consistent b.
Hypothesis Habs : abs_board b = p.
Hypothesis Hv : weak_valid p = true.
Hypothesis Hepsq : epsq b
  = match ep p with Some t => Some (mk_sq (fourth_rk (opp (turn p))) (file_of t)) | None => None end.
Hypothesis HcrW : crW b = cr_add 0 (nkq (wk p) (wq p)).
Hypothesis HcrB : crB b = cr_add 0 (nkq (bk p) (bq p)).

Lemma w_stm : stm b = turn p.
Proof. rewrite <- Habs. reflexivity. Qed.

Lemma w_has s t c : s < 64 -> has p s t c = true ->
  N.testbit (pieces b t) s = true /\ N.testbit (color_combined b c) s = true.
Proof.
  intros Hs H. rewrite <- Habs, (has_abs b s t c HC Hs) in H. apply andb_true_iff, H.
Qed.

Lemma w_kings c : popcnt (N.land (pK b) (color_combined b c)) = 1.
Proof.
  destruct (weak_valid_unpack p Hv) as (_ & KW & KB & _).
  rewrite <- (kings_abs b c HC), Habs. destruct c; assumption.
Qed.

Lemma w_men c : popcnt (color_combined b c) <= 16.
Proof.
  destruct (weak_valid_unpack p Hv) as (_ & _ & _ & MW & MB & _).
  rewrite <- (men_abs b c HC), Habs. destruct c; assumption.
Qed.

Lemma w_kings_apart : kings_apart b.
Proof.
  destruct (weak_valid_unpack p Hv) as (_ & _ & _ & _ & _ & Hnc & _).
  apply not_in_check_kings_apart; try exact HC; try apply w_kings.
  rewrite Habs, w_stm. exact Hnc.
Qed.

Lemma w_not_adjacent c :
  N.testbit (king_moves (king_square b c)) (king_square b (opp c)) = false.
Proof.
  assert (H : N.testbit (king_moves (king_square b (stm b))) (king_square b (opp (stm b))) = false).
  { pose proof w_kings_apart as Hka. unfold kings_apart in Hka.
    destruct (one_king_bit b (opp (stm b)) HC (w_kings _)) as [_ Hbit].
    rewrite Hbit in Hka.
    pose proof (land0_bits _ _ Hka (king_square b (opp (stm b)))) as Hb.
    rewrite TablesLib.testbit_bit, N.eqb_refl, andb_true_r in Hb. exact Hb. }
  destruct (one_king_bit b (stm b) HC (w_kings _)) as [Hl1 _].
  destruct (one_king_bit b (opp (stm b)) HC (w_kings _)) as [Hl2 _].
  pose proof (CorB07.king_moves_sym _ _ Hl1 Hl2) as Hsym. rewrite H in Hsym.
  destruct (stm b), c; cbn [opp] in *; congruence.
Qed.

Lemma w_ep e : epsq b = Some e ->
  N.testbit (pP b) e = true /\ N.testbit (color_combined b (opp (stm b))) e = true.
Proof.
  intro He. rewrite Hepsq in He.
  destruct (weak_valid_unpack p Hv) as (_ & _ & _ & _ & _ & _ & _ & _ & _ & _ & Hep).
  destruct (ep p) as [t|] eqn:E; [|discriminate He].
  destruct (weak_ep_facts p t Hep E) as (Ht & Hr & ps & Hps & Hpawn & _).
  destruct (ep_geom (turn p) t ps Ht Hr Hps) as [Hpe [_ Hlt]].
  rewrite <- Hpe in He. injection He as <-.
  rewrite w_stm. exact (w_has ps Pawn (opp (turn p)) Hlt Hpawn).
Qed.

Lemma w_flipped_checkers : checkers (update_pin_info (set_stm b (opp (stm b)))) = 0.
Proof.
  destruct (weak_valid_unpack p Hv) as (_ & _ & _ & _ & _ & Hnc & _).
  set (b' := set_stm b (opp (stm b))).
  assert (Ho : same_occ b b') by (unfold same_occ; repeat split).
  pose proof (consistent_occ b b' Ho HC) as HC'.
  assert (Hk' : popcnt (N.land (pK b') (color_combined b' (stm b'))) = 1)
    by exact (w_kings (opp (stm b))).
  assert (Hka' : kings_apart b').
  { unfold kings_apart.
    change (N.land (king_moves (king_square b (opp (stm b))))
                   (N.land (pK b) (color_combined b (opp (opp (stm b))))) = 0).
    rewrite opp_opp.
    destruct (one_king_bit b (stm b) HC (w_kings _)) as [_ Hbit]. rewrite Hbit.
    apply land_bit_zero.
    pose proof (w_not_adjacent (opp (stm b))) as H. rewrite opp_opp in H. exact H. }
  pose proof (checkers_in_check b' HC' Hk' Hka') as Hiff.
  destruct (N.eq_dec (checkers (update_pin_info b')) 0) as [Hz|Hnz]; [exact Hz|exfalso].
  apply Hiff in Hnz.
  change (stm b') with (opp (stm b)) in Hnz.
  rewrite (rt_in_check_ext (abs_board b') p) in Hnz.
  - rewrite w_stm, Hnc in Hnz. discriminate Hnz.
  - rewrite <- Habs. symmetry. apply placement_occ, Ho.
Qed.

Lemma w_castle_gen c k q :
  castle_rights b c = cr_add 0 (nkq k q) ->
  (k = true -> has p (mk_sq (my_backrank c) 4) King c = true /\
               has p (mk_sq (my_backrank c) 7) Rook c = true) ->
  (q = true -> has p (mk_sq (my_backrank c) 4) King c = true /\
               has p (mk_sq (my_backrank c) 0) Rook c = true) ->
  N.land (N.land (unmoved_rooks (castle_rights b c) c) (pR b)) (color_combined b c)
    = unmoved_rooks (castle_rights b c) c /\
  (castle_rights b c <> 0 -> N.land (pK b) (color_combined b c) = bit (mk_sq (my_backrank c) 4)).
Proof.
  intros Hcr Hk Hq. rewrite Hcr. split.
  - apply land_sub. intros s Hs.
    destruct (unmoved_rooks_bits k q c s Hs) as [[Eq ->]|[Ek ->]].
    + exact (w_has _ Rook c (mk_sq_lt64' _ _) (proj2 (Hq Eq))).
    + exact (w_has _ Rook c (mk_sq_lt64' _ _) (proj2 (Hk Ek))).
  - intro Hnz.
    assert (Hking : has p (mk_sq (my_backrank c) 4) King c = true).
    { destruct (cr_add_nz k q Hnz) as [Ek|Eq]; [exact (proj1 (Hk Ek))|exact (proj1 (Hq Eq))]. }
    destruct (w_has _ King c (mk_sq_lt64' _ _) Hking) as [H1 H2]. cbn [pieces] in H1.
    destruct (one_king_bit b c HC (w_kings c)) as [_ Hbit].
    assert (Hb : N.testbit (N.land (pK b) (color_combined b c)) (mk_sq (my_backrank c) 4) = true)
      by (rewrite N.land_spec, H1, H2; reflexivity).
    rewrite Hbit, TablesLib.testbit_bit in Hb. apply N.eqb_eq in Hb.
    rewrite Hbit, Hb. reflexivity.
Qed.

Lemma w_castle c :
  N.land (N.land (unmoved_rooks (castle_rights b c) c) (pR b)) (color_combined b c)
    = unmoved_rooks (castle_rights b c) c /\
  (castle_rights b c <> 0 -> N.land (pK b) (color_combined b c) = bit (mk_sq (my_backrank c) 4)).
Proof.
  destruct (weak_valid_unpack p Hv) as (_ & _ & _ & _ & _ & _ & HWK & HWQ & HBK & HBQ & _).
  destruct c.
  - apply (w_castle_gen White (wk p) (wq p)); [exact HcrW|exact HWK|exact HWQ].
  - apply (w_castle_gen Black (bk p) (bq p)); [exact HcrB|exact HBK|exact HBQ].
Qed.

Lemma w_king_ring : N.land (king_moves (king_square b White)) (pK b) = 0.
Proof.
  apply bits_land0. intro k.
  destruct (N.testbit (pK b) k) eqn:HK; [|apply andb_false_r]. rewrite andb_true_r.
  assert (Hcomb : N.testbit (comb b) k = true).
  { rewrite (cs_comb_pieces b HC), !N.lor_spec, HK. apply orb_true_r. }
  rewrite (cs_comb_colors b HC), N.lor_spec in Hcomb. apply orb_true_iff in Hcomb.
  destruct (one_king_bit b White HC (w_kings White)) as [HlW HbW].
  destruct (one_king_bit b Black HC (w_kings Black)) as [HlB HbB].
  cbn [color_combined] in HbW, HbB.
  destruct Hcomb as [Hw|Hb].
  - assert (Hx : N.testbit (N.land (pK b) (cW b)) k = true) by (rewrite N.land_spec, HK, Hw; reflexivity).
    rewrite HbW, TablesLib.testbit_bit in Hx. apply N.eqb_eq in Hx. subst k.
    apply king_moves_irrefl, HlW.
  - assert (Hx : N.testbit (N.land (pK b) (cB b)) k = true) by (rewrite N.land_spec, HK, Hb; reflexivity).
    rewrite HbB, TablesLib.testbit_bit in Hx. apply N.eqb_eq in Hx. subst k.
    exact (w_not_adjacent White).
Qed.

Theorem sane_abstract_weak : is_sane b = true.
Proof.
  apply is_sane_intro.
  - exact (cs_pieces_disj b HC).
  - exact (cs_colors_disj b HC).
  - exact (cs_comb_pieces b HC).
  - exact (w_men White).
  - exact (w_men Black).
  - exact (w_kings White).
  - exact (w_kings Black).
  - exact w_ep.
  - exact w_flipped_checkers.
  - exact w_castle.
  - exact w_king_ring.
Qed.
End SaneWeak.

Theorem sane_from_scratch_weak p : weak_valid p = true -> is_sane (from_scratch p) = true.
Proof.
  intro Hv. destruct (from_scratch_fields p) as [_ [HcW HcB]].
  destruct (weak_valid_unpack p Hv) as (Hlen & _ & _ & _ & _ & _ & _ & _ & _ & _ & Hep).
  apply (sane_abstract_weak (from_scratch p) p).
  - apply from_scratch_consistent.
  - apply abs_from_scratch_weak; assumption.
  - exact Hv.
  - apply epsq_from_scratch_weak, Hep.
  - exact HcW.
  - exact HcB.
Qed.

(** completeness at full strength: every position with the enforced half is accepted, and
    the accepted board abstracts back to it *)
Theorem weak_valid_accepted p : weak_valid p = true ->
  try_from_builder (builder_of_pos p) = Some (from_scratch p) /\ abs_board (from_scratch p) = p.
Proof.
  intro Hv.
  destruct (weak_valid_unpack p Hv) as (Hlen & _ & _ & _ & _ & _ & _ & _ & _ & _ & Hep).
  split; [|exact (abs_from_scratch_weak p Hlen Hep)].
  pose proof (sane_from_scratch_weak p Hv) as H. unfold from_scratch in *.
  unfold try_from_builder. cbv zeta. rewrite H. reflexivity.
Qed.

(** ** 6. The converse characterisation *)
(** acceptance-with-read-back is exactly [weak_valid] *)
Theorem accepted_iff_weak_valid : forall p,
  (exists b, try_from_builder (builder_of_pos p) = Some b /\ abs_board b = p) <-> weak_valid p = true.
Proof.
  intro p. split.
  - intros [b [Hacc Habs]]. rewrite <- Habs. exact (acc_weak_valid _ b Hacc).
  - intro Hv. exists (from_scratch p). exact (weak_valid_accepted p Hv).
Qed.

(** without an en-passant target the read-back is automatic *)
Lemma abs_from_scratch_noep p : length (placement p) = 64%nat -> ep p = None ->
  abs_board (from_scratch p) = p.
Proof.
  intros Hlen He. apply abs_from_scratch_weak; [exact Hlen|].
  unfold weak_ep_ok. rewrite He. reflexivity.
Qed.

Theorem accepted_iff_weak_valid_noep : forall p, length (placement p) = 64%nat -> ep p = None ->
  ((exists b, try_from_builder (builder_of_pos p) = Some b) <-> weak_valid p = true).
Proof.
  intros p Hlen He. split.
  - intros [b Hacc]. pose proof (acc_weak_valid _ b Hacc) as Hw.
    apply try_from_builder_spec in Hacc. destruct Hacc as [-> _].
    change (from_builder_raw (builder_of_pos p)) with (from_scratch p) in Hw.
    rewrite (abs_from_scratch_noep p Hlen He) in Hw. exact Hw.
  - intro Hv. exists (from_scratch p). exact (proj1 (weak_valid_accepted p Hv)).
Qed.

(** acceptance of [builder_of_pos p] alone says that the position READ BACK is [weak_valid] *)
Theorem accepted_readback_weak_valid : forall p b,
  try_from_builder (builder_of_pos p) = Some b ->
  b = from_scratch p /\ weak_valid (abs_board (from_scratch p)) = true.
Proof.
  intros p b Hacc. pose proof (acc_weak_valid _ b Hacc) as Hw.
  apply try_from_builder_spec in Hacc. destruct Hacc as [-> _].
  split; [reflexivity|exact Hw].
Qed.

(** The statement with bare acceptance on the left is FALSE when [p] carries a target the
    library silently drops: after 1.e4 with the FIDE target e3 recorded, no black pawn stands
    beside e4, [set_ep] stores nothing, the board is accepted — but [p] itself is not
    [weak_valid] (nor [pos_valid]: [ep_ok] demands the capturing pawn). *)
Definition e4_with_target : pos :=
  {| placement := updN (updN (placement startpos) 12 None) 28 (Some (Pawn,White));
     turn := Black; wk := true; wq := true; bk := true; bq := true; ep := Some 20 |}.
Example e4_with_target_facts :
  length (placement e4_with_target) = 64%nat /\
  try_from_builder (builder_of_pos e4_with_target) = Some (from_scratch e4_with_target) /\
  weak_valid e4_with_target = false /\ pos_valid e4_with_target = false /\
  ep (abs_board (from_scratch e4_with_target)) = None /\
  pos_valid (abs_board (from_scratch e4_with_target)) = true.
Proof. split; [|split; [|split; [|split; [|split]]]]; vm_compute; reflexivity. Qed.

Definition accepted_iff_as_asked : Prop :=
  forall p, length (placement p) = 64%nat ->
    ((exists b, try_from_builder (builder_of_pos p) = Some b) <-> weak_valid p = true).
Theorem accepted_iff_as_asked_refuted : ~ accepted_iff_as_asked.
Proof.
  intro H. destruct e4_with_target_facts as (Hlen & Hacc & Hw & _).
  destruct (H e4_with_target Hlen) as [H1 _].
  rewrite H1 in Hw; [discriminate Hw|]. eexists. exact Hacc.
Qed.
