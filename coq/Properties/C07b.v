(** * C07b — acceptance by [TryFrom<&BoardBuilder>] / [Board::from_str], read in the terms of
    the rules (through [abs_board]): exactly one king per side, the side not to move not in
    check, every held castling right backed by king and rook on their home squares, an
    en-passant target standing behind an enemy pawn on its double-push rank, at most sixteen
    men per side — for EVERY builder state and every text; and completeness: every valid
    position is accepted.  These are the statements [C07_accept_sound_full] and
    [C07_accept_complete_full] that [Proofs/AcceptSound.v] left open.
    Lemmas: [Proofs/CorB07.v] (uses AbsBoard, CanonCheckers, CanonNullMove, RoundTripSane,
    RoundTripMain). *)
From Coq Require Import NArith ZArith.
From Chess Require Import Base.Bits Base.Text Spec.Geometry Spec.Rules Model.Board Model.Fen.
From Chess Require Import Proofs.AbsBoard Proofs.AcceptSound Proofs.CorB07.
Open Scope N_scope.

Theorem C07_accept_sound_full_proved : C07_accept_sound_full.
Proof. exact accept_sound_full. Qed.
Check C07_accept_sound_full_proved : C07_accept_sound_full.
Print Assumptions C07_accept_sound_full_proved.

(** the same, spelled out *)
Theorem C07b_accept_sound : forall (bb:builder) (b:board), try_from_builder bb = Some b ->
  kings (abs_board b) White = 1 /\ kings (abs_board b) Black = 1 /\
  in_check (abs_board b) (opp (stm b)) = false /\
  implb (wk (abs_board b)) (has (abs_board b) 4 King White && has (abs_board b) 7 Rook White) = true /\
  implb (wq (abs_board b)) (has (abs_board b) 4 King White && has (abs_board b) 0 Rook White) = true /\
  implb (bk (abs_board b)) (has (abs_board b) 60 King Black && has (abs_board b) 63 Rook Black) = true /\
  implb (bq (abs_board b)) (has (abs_board b) 60 King Black && has (abs_board b) 56 Rook Black) = true /\
  (forall t, ep (abs_board b) = Some t ->
     rank_of t = sixth_rank (stm b) /\
     exists pawn_sq, step t (0, - fwdc (stm b))%Z = Some pawn_sq /\
                     has (abs_board b) pawn_sq Pawn (opp (stm b)) = true) /\
  men (abs_board b) White <= 16 /\ men (abs_board b) Black <= 16.
Proof. exact accept_sound_full. Qed.
Check C07b_accept_sound : forall (bb:builder) (b:board), try_from_builder bb = Some b ->
  kings (abs_board b) White = 1 /\ kings (abs_board b) Black = 1 /\
  in_check (abs_board b) (opp (stm b)) = false /\
  implb (wk (abs_board b)) (has (abs_board b) 4 King White && has (abs_board b) 7 Rook White) = true /\
  implb (wq (abs_board b)) (has (abs_board b) 4 King White && has (abs_board b) 0 Rook White) = true /\
  implb (bk (abs_board b)) (has (abs_board b) 60 King Black && has (abs_board b) 63 Rook Black) = true /\
  implb (bq (abs_board b)) (has (abs_board b) 60 King Black && has (abs_board b) 56 Rook Black) = true /\
  (forall t, ep (abs_board b) = Some t ->
     rank_of t = sixth_rank (stm b) /\
     exists pawn_sq, step t (0, - fwdc (stm b))%Z = Some pawn_sq /\
                     has (abs_board b) pawn_sq Pawn (opp (stm b)) = true) /\
  men (abs_board b) White <= 16 /\ men (abs_board b) Black <= 16.
Print Assumptions C07b_accept_sound.

(** the same for a board parsed from any text *)
Theorem C07b_parsed_sound : forall (s:str) (b:board), board_from_str s = Ok b -> sound_reading b.
Proof. exact parsed_sound. Qed.
Check C07b_parsed_sound : forall (s:str) (b:board), board_from_str s = Ok b ->
  kings (abs_board b) White = 1 /\ kings (abs_board b) Black = 1 /\
  in_check (abs_board b) (opp (stm b)) = false /\
  implb (wk (abs_board b)) (has (abs_board b) 4 King White && has (abs_board b) 7 Rook White) = true /\
  implb (wq (abs_board b)) (has (abs_board b) 4 King White && has (abs_board b) 0 Rook White) = true /\
  implb (bk (abs_board b)) (has (abs_board b) 60 King Black && has (abs_board b) 63 Rook Black) = true /\
  implb (bq (abs_board b)) (has (abs_board b) 60 King Black && has (abs_board b) 56 Rook Black) = true /\
  (forall t, ep (abs_board b) = Some t ->
     rank_of t = sixth_rank (stm b) /\
     exists pawn_sq, step t (0, - fwdc (stm b))%Z = Some pawn_sq /\
                     has (abs_board b) pawn_sq Pawn (opp (stm b)) = true) /\
  men (abs_board b) White <= 16 /\ men (abs_board b) Black <= 16.
Print Assumptions C07b_parsed_sound.

(** the words of an accepted board are consistent (one piece type and one colour per occupied
    square, nothing elsewhere), so the reading through [abs_board] loses nothing *)
Theorem C07b_accepted_consistent : forall (bb:builder) (b:board),
  try_from_builder bb = Some b -> Consistent b.
Proof. exact accepted_consistent. Qed.
Check C07b_accepted_consistent : forall (bb:builder) (b:board),
  try_from_builder bb = Some b -> Consistent b.
Print Assumptions C07b_accepted_consistent.

(** completeness: every valid position is accepted, and the accepted board shows it *)
Theorem C07_accept_complete_full_proved : C07_accept_complete_full.
Proof. exact accept_complete_full. Qed.
Check C07_accept_complete_full_proved : C07_accept_complete_full.
Print Assumptions C07_accept_complete_full_proved.

Theorem C07_accept_complete : forall p : pos, pos_valid p = true ->
  exists b, try_from_builder (builder_of_pos p) = Some b /\ abs_board b = p.
Proof. exact accept_complete_full. Qed.
Check C07_accept_complete : forall p : pos, pos_valid p = true ->
  exists b, try_from_builder (builder_of_pos p) = Some b /\ abs_board b = p.
Print Assumptions C07_accept_complete.
