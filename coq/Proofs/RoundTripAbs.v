(** * Proofs.RoundTripAbs — first half of the round trip: for a valid position [p] the
    from-scratch board abstracts back to [p], field by field.
    The only delicate field is the en-passant square: [Board::set_ep] stores the square only
    if a pawn of the side to move stands beside the pushed pawn — which is what
    [Rules.ep_ok] demands of a valid position. *)
From Coq Require Import Lia ZifyBool ZifyN ZifyNat.
From Chess Require Import Base.Bits Spec.Geometry Spec.Rules Model.Board.
From Chess Require Import Proofs.BitsFacts Proofs.TablesLib Proofs.TablesMeaning Proofs.AbsBoard
                          Proofs.NullMove Proofs.CanonScratch.
Open Scope N_scope.

(** ** 1. [pos_valid], unpacked *)
Lemma pos_valid_unpack p : pos_valid p = true ->
  length (placement p) = 64%nat /\ kings p White = 1 /\ kings p Black = 1 /\
  men p White <= 16 /\ men p Black <= 16 /\
  in_check p (opp (turn p)) = false /\
  (wk p = true -> has p 4 King White = true /\ has p 7 Rook White = true) /\
  (wq p = true -> has p 4 King White = true /\ has p 0 Rook White = true) /\
  (bk p = true -> has p 60 King Black = true /\ has p 63 Rook Black = true) /\
  (bq p = true -> has p 60 King Black = true /\ has p 56 Rook Black = true) /\
  ep_ok p = true.
Proof.
  unfold pos_valid. rewrite !andb_true_iff.
  intros [[[[[[[[[[[[[H1 H2] H3] H4] H5] H6] H7] H8] H9] H10] H11] H12] H13] H14].
  split; [apply Nat.eqb_eq, H1|].
  split; [apply N.eqb_eq, H2|]. split; [apply N.eqb_eq, H3|].
  split; [apply N.leb_le, H4|]. split; [apply N.leb_le, H5|].
  split; [destruct (in_check p (opp (turn p))); [discriminate H9|reflexivity]|].
  split; [intro E; rewrite E in H10; cbn [implb] in H10; apply andb_true_iff, H10|].
  split; [intro E; rewrite E in H11; cbn [implb] in H11; apply andb_true_iff, H11|].
  split; [intro E; rewrite E in H12; cbn [implb] in H12; apply andb_true_iff, H12|].
  split; [intro E; rewrite E in H13; cbn [implb] in H13; apply andb_true_iff, H13|].
  exact H14.
Qed.

(** what [ep_ok] says about a recorded target square *)
Lemma ep_ok_facts p t : ep_ok p = true -> ep p = Some t ->
  t < 64 /\ rank_of t = sixth_rank (turn p) /\
  exists ps, step t (0, - fwdc (turn p))%Z = Some ps /\ has p ps Pawn (opp (turn p)) = true /\
    exists d x, In d [(1,0);(-1,0)]%Z /\ step ps d = Some x /\ has p x Pawn (turn p) = true.
Proof.
  unfold ep_ok. intros H E. rewrite E in H. cbv zeta in H.
  apply andb_true_iff in H. destruct H as [H Hm].
  apply andb_true_iff in H. destruct H as [Ht Hr].
  apply N.ltb_lt in Ht. apply N.eqb_eq in Hr.
  split; [exact Ht|]. split; [exact Hr|].
  destruct (step t (0, - fwdc (turn p))%Z) as [ps|]; [|discriminate Hm].
  destruct (step t (0, fwdc (turn p))%Z) as [og|]; [|discriminate Hm].
  rewrite !andb_true_iff in Hm. destruct Hm as [[[[Hp _] _] Hex] _].
  exists ps. split; [reflexivity|]. split; [exact Hp|].
  apply existsb_exists in Hex. destruct Hex as [d [Hd Hx]].
  destruct (step ps d) as [x|] eqn:Es; [|discriminate Hx].
  exists d, x. split; [exact Hd|]. split; [exact Es|exact Hx].
Qed.

(** ** 2. Square geometry of the en-passant convention, by complete sweeps *)
Definition col (w:bool) : color := if w then White else Black.
Definition ep_geom_ok (w:bool) (t:N) : bool :=
  let c := col w in
  if rank_of t =? sixth_rank c then
    match step t (0, - fwdc c)%Z with
    | Some ps => (ps =? mk_sq (fourth_rk (opp c)) (file_of t)) && (uforward c ps =? t) && (ps <? 64)
    | None => false end
  else true.
Lemma ep_geom_sweep : forallb (fun w => forallb (ep_geom_ok w) all_sq) both_colors = true.
Proof. vm_cast_no_check (eq_refl true). Qed.

(** the pushed pawn stands on [mk_sq (fourth rank of the pusher) (file of the target)], and the
    library's [uforward] from there is the target *)
Lemma ep_geom c t ps : t < 64 -> rank_of t = sixth_rank c -> step t (0, - fwdc c)%Z = Some ps ->
  ps = mk_sq (fourth_rk (opp c)) (file_of t) /\ uforward c ps = t /\ ps < 64.
Proof.
  intros Ht Hr Hs.
  pose proof (sweepc_64 _ ep_geom_sweep (is_white c) t Ht) as H. unfold ep_geom_ok in H.
  replace (col (is_white c)) with c in H by (destruct c; reflexivity). cbv zeta in H.
  rewrite Hr, N.eqb_refl, Hs in H.
  rewrite !andb_true_iff in H. destruct H as [[H1 H2] H3].
  apply N.eqb_eq in H1. apply N.eqb_eq in H2. apply N.ltb_lt in H3. auto.
Qed.

Definition ep_adj_ok (e:N) : bool :=
  forallb (fun d => match step e d with
                    | Some x => (x <? 64) && N.testbit (N.land (get_adjacent_files (sq_file e))
                                                               (get_rank (sq_rank e))) x
                    | None => true end) [(1,0);(-1,0)]%Z.
Lemma ep_adj_sweep : forallb ep_adj_ok all_sq = true.
Proof. vm_cast_no_check (eq_refl true). Qed.

(** a horizontal neighbour lies in the word [set_ep] tests *)
Lemma ep_adj e d x : e < 64 -> In d [(1,0);(-1,0)]%Z -> step e d = Some x ->
  x < 64 /\ N.testbit (N.land (get_adjacent_files (sq_file e)) (get_rank (sq_rank e))) x = true.
Proof.
  intros He Hd Hs. pose proof (sweep64 _ ep_adj_sweep e He) as H. unfold ep_adj_ok in H.
  rewrite forallb_forall in H. specialize (H d Hd). rewrite Hs in H.
  apply andb_true_iff in H. destruct H as [H1 H2]. apply N.ltb_lt in H1. auto.
Qed.

(** ** 3. When [set_ep] stores the square *)
Lemma set_ep_stores b e x :
  N.testbit (N.land (get_adjacent_files (sq_file e)) (get_rank (sq_rank e))) x = true ->
  N.testbit (pP b) x = true -> N.testbit (color_combined b (opp (stm b))) x = true ->
  set_ep b e = set_epsq b (Some e).
Proof.
  intros H1 H2 H3. unfold set_ep.
  destruct (N.eqb_spec (N.land (N.land (N.land (get_adjacent_files (sq_file e)) (get_rank (sq_rank e))) (pP b))
                               (color_combined b (opp (stm b)))) 0) as [Hz|Hnz]; [exfalso|reflexivity].
  assert (Hb : N.testbit (N.land (N.land (N.land (get_adjacent_files (sq_file e)) (get_rank (sq_rank e))) (pP b))
                               (color_combined b (opp (stm b)))) x = true).
  { rewrite N.land_spec, N.land_spec, H1, H2, H3. reflexivity. }
  rewrite Hz, N.bits_0 in Hb. discriminate Hb.
Qed.

Lemma raw_from_epsq P bb e x : builder_get_en_passant bb = Some e ->
  N.testbit (N.land (get_adjacent_files (sq_file e)) (get_rank (sq_rank e))) x = true ->
  N.testbit (pP P) x = true -> N.testbit (color_combined P (bstm bb)) x = true ->
  epsq (raw_from P bb) = Some e.
Proof.
  intros He H1 H2 H3. unfold raw_from. rewrite He.
  cbn [add_castle_rights set_castle_rights epsq].
  rewrite (set_ep_stores _ e x H1).
  - reflexivity.
  - exact H2.
  - cbn [set_stm stm]. rewrite opp_opp.
    destruct (bstm bb); cbn [color_combined set_stm cW cB] in *; exact H3.
Qed.

Lemma builder_ep_of_pos p :
  builder_get_en_passant (builder_of_pos p)
  = match ep p with Some t => Some (mk_sq (fourth_rk (opp (turn p))) (file_of t)) | None => None end.
Proof.
  unfold builder_get_en_passant, builder_of_pos. cbn [bep bstm]. destruct (ep p); reflexivity.
Qed.

Lemma epsq_from_scratch_raw p : epsq (from_scratch p) = epsq (raw p).
Proof.
  rewrite from_scratch_raw.
  destruct (update_pin_info_same_core (raw p)) as [_ [_ [_ [_ [_ H]]]]]. exact H.
Qed.

(** the stored square, over an arbitrary placed board [P] (so that no proof unfolds [place_all]) *)
Lemma has_of_at p q s t c : at_ p s = at_ q s -> has p s t c = has q s t c.
Proof. unfold has. intros ->. reflexivity. Qed.

Lemma raw_from_epsq_valid P p : Consistent P -> epsq P = None ->
  (forall s, s < 64 -> at_ (abs_board P) s = at_ p s) -> ep_ok p = true ->
  epsq (raw_from P (builder_of_pos p))
  = match ep p with Some t => Some (mk_sq (fourth_rk (opp (turn p))) (file_of t)) | None => None end.
Proof.
  intros HC HPe Hat Hep.
  pose proof (builder_ep_of_pos p) as Hb.
  destruct (ep p) as [t|] eqn:E.
  - destruct (ep_ok_facts p t Hep E) as (Ht & Hr & ps & Hps & Hpawn & d & x & Hd & Hx & Hown).
    destruct (ep_geom (turn p) t ps Ht Hr Hps) as [Hpe [_ Hlt]].
    rewrite <- Hpe in Hb |- *.
    destruct (ep_adj ps d x Hlt Hd Hx) as [Hxlt Hadj].
    pose proof (has_abs P x Pawn (turn p) HC Hxlt) as Hh.
    rewrite (has_of_at _ p x Pawn (turn p) (Hat x Hxlt)), Hown in Hh. symmetry in Hh.
    apply andb_true_iff in Hh. destruct Hh as [Hh1 Hh2].
    exact (raw_from_epsq P _ ps x Hb Hadj Hh1 Hh2).
  - destruct (raw_from_fields P (builder_of_pos p)) as (_ & _ & _ & _ & _ & H).
    rewrite (H Hb). exact HPe.
Qed.

(** the stored en-passant square of the from-scratch board of a valid position *)
Theorem epsq_from_scratch p : pos_valid p = true ->
  epsq (from_scratch p)
  = match ep p with Some t => Some (mk_sq (fourth_rk (opp (turn p))) (file_of t)) | None => None end.
Proof.
  intro Hv. destruct (pos_valid_unpack p Hv) as (_ & _ & _ & _ & _ & _ & _ & _ & _ & _ & Hep).
  rewrite epsq_from_scratch_raw. unfold raw. rewrite raw_of_builder_from.
  apply raw_from_epsq_valid.
  - apply place_all_consistent.
  - exact (proj2 (proj2 (proj2 (proj2 (proj2 (place_all_other _)))))).
  - intros s Hs. exact (at_place_all _ s Hs).
  - exact Hep.
Qed.

(** ** 4. The castling-right numbers *)
Lemma cr_bits (k q:bool) :
  cr_has_kingside (cr_add 0 ((if k then 1 else 0) + (if q then 2 else 0))) = k /\
  cr_has_queenside (cr_add 0 ((if k then 1 else 0) + (if q then 2 else 0))) = q.
Proof. destruct k, q; split; reflexivity. Qed.

Lemma from_scratch_fields p :
  stm (from_scratch p) = turn p /\
  crW (from_scratch p) = cr_add 0 ((if wk p then 1 else 0) + (if wq p then 2 else 0)) /\
  crB (from_scratch p) = cr_add 0 ((if bk p then 1 else 0) + (if bq p then 2 else 0)).
Proof.
  rewrite from_scratch_raw.
  destruct (update_pin_info_same_core (raw p)) as [_ [H1 [H2 [H3 _]]]].
  destruct (raw_of_builder_fields (builder_of_pos p)) as [_ [G1 [G2 [G3 _]]]].
  fold (raw p) in G1, G2, G3.
  destruct (place_all_other (bpieces (builder_of_pos p))) as (_ & Q2 & Q3 & _).
  rewrite H1, H2, H3, G1, G2, G3, Q2, Q3. repeat split.
Qed.

(** ** 5. The abstraction of the from-scratch board *)
Lemma pos_eq p q :
  placement p = placement q -> turn p = turn q -> wk p = wk q -> wq p = wq q -> bk p = bk q ->
  bq p = bq q -> ep p = ep q -> p = q.
Proof.
  destruct p as [a1 a2 a3 a4 a5 a6 a7], q as [b1 b2 b3 b4 b5 b6 b7].
  cbn [placement turn wk wq bk bq ep]. intros. subst. reflexivity.
Qed.

(** over an arbitrary board: the seven fields decide the abstraction *)
Lemma abs_board_eq b p :
  placement (abs_board b) = placement p -> stm b = turn p ->
  crW b = cr_add 0 ((if wk p then 1 else 0) + (if wq p then 2 else 0)) ->
  crB b = cr_add 0 ((if bk p then 1 else 0) + (if bq p then 2 else 0)) ->
  match epsq b with Some e => Some (uforward (stm b) e) | None => None end = ep p ->
  abs_board b = p.
Proof.
  intros Hpl Hstm HcW HcB Hep. apply pos_eq.
  - exact Hpl.
  - exact Hstm.
  - unfold abs_board. cbn [wk]. rewrite HcW. apply cr_bits.
  - unfold abs_board. cbn [wq]. rewrite HcW. apply cr_bits.
  - unfold abs_board. cbn [bk]. rewrite HcB. apply cr_bits.
  - unfold abs_board. cbn [bq]. rewrite HcB. apply cr_bits.
  - exact Hep.
Qed.

Theorem abs_from_scratch p : pos_valid p = true -> abs_board (from_scratch p) = p.
Proof.
  intro Hv. destruct (pos_valid_unpack p Hv) as (Hlen & _ & _ & _ & _ & _ & _ & _ & _ & _ & Hep).
  destruct (from_scratch_fields p) as [Hstm [HcW HcB]].
  apply abs_board_eq.
  - rewrite (placement_occ _ _ (from_scratch_occ p)). apply placement_place_all, Hlen.
  - exact Hstm.
  - exact HcW.
  - exact HcB.
  - rewrite (epsq_from_scratch p Hv), Hstm.
    destruct (ep p) as [t|] eqn:E; [|reflexivity].
    destruct (ep_ok_facts p t Hep E) as (Ht & Hr & ps & Hps & _).
    destruct (ep_geom (turn p) t ps Ht Hr Hps) as [Hpe [Hf _]].
    rewrite <- Hpe, Hf. reflexivity.
Qed.

Corollary from_scratch_valid_canonical p : pos_valid p = true -> Canonical (from_scratch p).
Proof. intro Hv. apply from_scratch_canonical, abs_from_scratch, Hv. Qed.

(** ** 6. Example: a valid position with an en-passant target (after 1.e4 a6 2.e5 d5):
    the square is stored, and the board abstracts back *)
Definition ep_pcs : list (option (ptype*color)) :=
  updN (updN (updN (updN (updN (updN (placement startpos) 12 None) 36 (Some (Pawn,White)))
       48 None) 40 (Some (Pawn,Black))) 51 None) 35 (Some (Pawn,Black)).
Definition eppos : pos :=
  {| placement := ep_pcs; turn := White; wk := true; wq := true; bk := true; bq := true;
     ep := Some 43 |}.
Example abs_from_scratch_ex :
  pos_valid eppos = true /\ epsq (from_scratch eppos) = Some 35 /\
  abs_board (from_scratch eppos) = eppos.
Proof.
  assert (Hv : pos_valid eppos = true) by (vm_compute; reflexivity).
  split; [exact Hv|]. split; [vm_compute; reflexivity|exact (abs_from_scratch eppos Hv)].
Qed.
