(** * Proofs.FenAccepted — the FEN round trip for EVERY board the library accepts.

    [Properties/C06b.v] proves [board_from_str (board_display b) = Ok b] for the from-scratch
    boards of VALID positions ([pos_valid]).  [Proofs/AcceptGap.v] shows that the library's
    validation ([TryFrom<&BoardBuilder>], [is_sane]) accepts strictly more: exactly the
    [weak_valid] positions (nine pawns, pawns on the back ranks, an occupied en-passant target
    or origin square, a check before the double push are all accepted).  Here:

    1. every accepted board is CANONICAL — it is the from-scratch board of the position it
       shows, caches, hash field and en-passant square included ([accepted_canonical]); the
       accepted boards are exactly the canonical boards of [weak_valid] positions
       ([accepted_iff_canonical_weak_valid]);
    2. acceptance is idempotent: the builder read off an accepted board is accepted again with
       the same board ([accepted_idempotent]) — although it need not be the builder that was
       submitted ([builder_not_recovered]: a dead en-passant file is dropped);
    3. hence the text of every accepted board parses back to that very board
       ([accepted_roundtrip], [parsed_roundtrip]); the text is a well-formed six-field FEN, it
       is the independent standard writer's text for the position shown, and the standard
       writer's text parses back to the board; the en-passant field is "-" or the square behind
       the pushed pawn, on rank 6 / 3.
    Nothing is refuted: the ten witnesses of [Proofs/AcceptGapWitness.v] were evaluated first
    ([witnesses_roundtrip], [witnesses_canonical]) and the general proofs followed. *)
From Coq Require Import NArith ZArith List Bool Lia ZifyBool ZifyN ZifyNat String.
From Chess Require Import Base.Bits Base.Text Spec.Geometry Spec.Rules Spec.Text
  Model.Board Model.MoveGen Model.Fen Model.Extra.
From Chess Require Import Proofs.BitsFacts Proofs.TablesLib Proofs.AbsBoard Proofs.NullMove
  Proofs.CanonScratch Proofs.HashSeparation Proofs.StepLink Proofs.StepHash Proofs.StepCanon
  Proofs.AcceptSound Proofs.CorB07 Proofs.ParseTotal
  Proofs.FenStd Proofs.FenBoard Proofs.FenCanon Proofs.AcceptGap Proofs.AcceptGapWitness.
From Chess Require Proofs.RoundTripAbs Proofs.FiniteFnsEq.
Import ListNotations.
Open Scope N_scope.

(** ** 0. The statements, evaluated on the witnesses first *)
Definition rt_check (s:str) : bool :=
  match board_from_str s with
  | Ok b => match board_from_str (board_display b) with Ok b' => board_eqb b b' | _ => false end
  | _ => false end.
Definition canon_check (s:str) : bool :=
  match board_from_str s with
  | Ok b => board_eqb b (from_scratch (abs_board b))
  | _ => false end.
Definition gap_fens : list str :=
  [fen_white_pawns; fen_black_pawns; fen_backrank; fen_backrank_black8; fen_backrank_white8;
   fen_backrank_black1; fen_ep_target; fen_ep_target_own; fen_ep_origin; fen_ep_prior_check].
Definition ordinary_fens : list str :=
  [start_fen;
   s_of "r3k2r/p1ppqpb1/bn2pnp1/3PN3/1p2P3/2N2Q1p/PPPBBPPP/R3K2R w KQkq - 0 1"%string;
   s_of "rnbqkbnr/ppp1pppp/8/8/3pP3/8/PPPP1PPP/RNBQKBNR b KQkq e3 0 1"%string;
   s_of "rnbqkbnr/pppppppp/8/8/4P3/8/PPPP1PPP/RNBQKBNR b KQkq e3 0 1"%string;
   s_of "8/2p5/3p4/KP5r/1R3p1k/8/4P1P1/8 w - - 0 1"%string].
Example witnesses_roundtrip : forallb rt_check (gap_fens ++ ordinary_fens) = true.
Proof. vm_compute. reflexivity. Qed.
Example witnesses_canonical : forallb canon_check (gap_fens ++ ordinary_fens) = true.
Proof. vm_compute. reflexivity. Qed.

(** ** 1. Canonicity needs only the enforced half of validity
    ([StepCanon.inv_canonical] with [weak_ep_ok] for [pos_valid]) *)
Theorem weak_inv_canonical b :
  Consistent b -> HashOK b -> crW b < 4 -> crB b < 4 -> ep_wf b ->
  weak_ep_ok (abs_board b) = true ->
  pinned b = pinned (update_pin_info b) -> checkers b = checkers (update_pin_info b) ->
  b = from_scratch (abs_board b).
Proof.
  intros HC Hh HW HB Hwf Hep Hpn Hch.
  pose proof (len_abs b) as Hlen.
  set (q := abs_board b) in *.
  assert (Hself : b = update_pin_info b).
  { apply board_eq_core; [apply same_core_sym, update_pin_info_same_core|exact Hpn|exact Hch]. }
  rewrite Hself at 1. rewrite from_scratch_raw.
  apply update_pin_info_core.
  apply (same_core_trans _ (from_scratch q)); [|rewrite from_scratch_raw; apply update_pin_info_same_core].
  pose proof (abs_from_scratch_weak q Hlen Hep) as Hrt.
  destruct (RoundTripAbs.from_scratch_fields q) as [Fs [FW FB]].
  unfold same_core. split; [|split; [|split; [|split; [|split]]]].
  - apply consistent_same_occ; [exact HC|apply from_scratch_consistent|].
    intros k Hk. rewrite (from_scratch_at q k Hk). reflexivity.
  - rewrite Fs. reflexivity.
  - rewrite FW. unfold q, abs_board. cbn [wk wq]. unfold cr_has_kingside, cr_has_queenside.
    fold (cr_of (N.testbit (crW b) 0) (N.testbit (crW b) 1)). rewrite <- (cr_of_bits _ HW).
    unfold cr_add. rewrite N.lor_0_l. symmetry. apply land3_small, HW.
  - rewrite FB. unfold q, abs_board. cbn [bk bq]. unfold cr_has_kingside, cr_has_queenside.
    fold (cr_of (N.testbit (crB b) 0) (N.testbit (crB b) 1)). rewrite <- (cr_of_bits _ HB).
    unfold cr_add. rewrite N.lor_0_l. symmetry. apply land3_small, HB.
  - pose proof (hashok_from_scratch q) as Hq. unfold HashOK in Hq, Hh. rewrite Hq, Hrt. exact Hh.
  - rewrite (epsq_from_scratch_weak q Hep). unfold q at 1, abs_board. cbn [ep].
    destruct (epsq b) as [e|] eqn:Ee; [|reflexivity].
    destruct (Hwf e Ee) as [He Hr]. change (turn q) with (stm b).
    rewrite sq_file_uforward, <- Hr. f_equal. symmetry. apply FiniteFnsEq.mk_sq_rank_file, He.
Qed.

Local Opaque from_builder_raw from_scratch abs_board update_pin_info.

Lemma land3_lt4' a : N.land a 3 < 4.
Proof. change 3 with (N.ones 2). rewrite N.land_ones. apply N.mod_lt. discriminate. Qed.

(** ** 2. Every accepted board is canonical *)
Theorem accepted_canonical bb b : try_from_builder bb = Some b -> b = from_scratch (abs_board b).
Proof.
  intro Hacc.
  pose proof (accepted_consistent bb b Hacc) as HC.
  pose proof (accepted_weak_valid bb b Hacc) as Hv.
  destruct (weak_valid_unpack _ Hv) as (_ & _ & _ & _ & _ & _ & _ & _ & _ & _ & Hep).
  destruct (accept_sound_bits bb b Hacc) as (Hb & _ & _ & _ & _ & _ & _ & _ & _ & _ & Hepb & _).
  destruct (fbr_fields bb) as (_ & _ & HW & HB & _).
  assert (Hself : update_pin_info b = b).
  { rewrite Hb, from_builder_raw_split. apply update_pin_info_idem. }
  apply weak_inv_canonical.
  - exact HC.
  - rewrite Hb. apply hashok_from_builder_raw.
  - rewrite Hb, HW. apply land3_lt4'.
  - rewrite Hb, HB. apply land3_lt4'.
  - intros e He. destruct (Hepb e He) as [Hbit [Hrk _]]. split; [|exact Hrk].
    rewrite N.land_spec in Hbit. apply andb_prop in Hbit as [HP _].
    exact (testbit_lt64 _ e (cs_pieces_lt b HC Pawn) HP).
  - exact Hep.
  - rewrite Hself. reflexivity.
  - rewrite Hself. reflexivity.
Qed.

(** the accepted boards are exactly the canonical boards of [weak_valid] positions *)
Theorem accepted_iff_canonical_weak_valid b :
  (exists bb, try_from_builder bb = Some b) <->
  b = from_scratch (abs_board b) /\ weak_valid (abs_board b) = true.
Proof.
  split.
  - intros [bb Hacc]. split; [exact (accepted_canonical bb b Hacc)|exact (accepted_weak_valid bb b Hacc)].
  - intros [Hcan Hv]. exists (builder_of_pos (abs_board b)).
    rewrite Hcan at 2. exact (proj1 (weak_valid_accepted _ Hv)).
Qed.

Lemma accepted_sane bb b : try_from_builder bb = Some b -> is_sane b = true.
Proof. intro H. exact (proj1 (proj2 (accept_sound_bits bb b H))). Qed.

Lemma accepted_cr_ok bb b : try_from_builder bb = Some b -> cr_ok b.
Proof. intro H. apply canonical_cr_ok. exact (accepted_canonical bb b H). Qed.

Lemma accepted_ep_rank_ok bb b : try_from_builder bb = Some b -> ep_rank_ok b.
Proof. intro H. apply canonical_ep_rank_ok. exact (accepted_canonical bb b H). Qed.

(** ** 3. Acceptance is idempotent *)
Theorem accepted_idempotent bb b : try_from_builder bb = Some b ->
  try_from_builder (builder_of_board b) = Some b.
Proof.
  intro H. apply canonical_sane_try; [exact (accepted_canonical bb b H)|exact (accepted_sane bb b H)].
Qed.

(** ... and the builder read off the board is the builder of the position shown *)
Theorem accepted_builder_of_pos bb b : try_from_builder bb = Some b ->
  builder_of_board b = builder_of_pos (abs_board b).
Proof. intro H. apply builder_of_board_abs. exact (accepted_cr_ok bb b H). Qed.

(** ** 4. The round trips *)
Theorem accepted_roundtrip bb b : try_from_builder bb = Some b ->
  board_from_str (board_display b) = Ok b.
Proof.
  intro H. apply board_roundtrip_canonical; [exact (accepted_canonical bb b H)|exact (accepted_sane bb b H)].
Qed.

Theorem parsed_roundtrip s b : board_from_str s = Ok b -> board_from_str (board_display b) = Ok b.
Proof.
  intro H. apply (proj1 (board_from_str_ok_iff s b)) in H. destruct H as [bb [_ Hacc]].
  exact (accepted_roundtrip bb b Hacc).
Qed.

Theorem parsed_canonical s b : board_from_str s = Ok b -> b = from_scratch (abs_board b).
Proof.
  intro H. apply (proj1 (board_from_str_ok_iff s b)) in H. destruct H as [bb [_ Hacc]].
  exact (accepted_canonical bb b Hacc).
Qed.

(** parsing is a retraction onto its image: display after parse is a normal form of the text *)
Theorem parsed_display_fixpoint s b : board_from_str s = Ok b ->
  board_from_str (board_display b) = board_from_str s.
Proof. intro H. rewrite H. exact (parsed_roundtrip s b H). Qed.

(** ** 5. The text of an accepted board *)
Theorem accepted_display_wellformed bb b : try_from_builder bb = Some b ->
  fen_wellformed (board_display b) = true.
Proof. intro H. apply board_display_wellformed. exact (accepted_cr_ok bb b H). Qed.

(** it is the independent standard writer's text for the position shown, and that text parses
    back to the board *)
Theorem accepted_display_is_std bb b : try_from_builder bb = Some b ->
  board_display b = std_fen (abs_board b) (ep (abs_board b)).
Proof. intro H. apply board_display_std_canonical. exact (accepted_canonical bb b H). Qed.

Theorem accepted_from_std bb b : try_from_builder bb = Some b ->
  board_from_str (std_fen (abs_board b) (ep (abs_board b))) = Ok b.
Proof.
  intro H. apply board_from_std_canonical; [exact (accepted_canonical bb b H)|exact (accepted_sane bb b H)].
Qed.

(** the en-passant field: "-" exactly without an en-passant square; otherwise the square
    behind the pushed pawn, on rank 6 (White to move) or 3 (Black to move); in terms of the
    position shown it is the name of the recorded target *)
Theorem accepted_ep_field bb b : try_from_builder bb = Some b ->
  (nth 3 (split_sp (board_display b)) [] = [45] <-> epsq b = None) /\
  (forall e, epsq b = Some e ->
     nth 3 (split_sp (board_display b)) [] = sq_name (uforward (stm b) e)
     /\ rank_of (uforward (stm b) e) = sixth_rank (stm b)) /\
  nth 3 (split_sp (board_display b)) []
  = match ep (abs_board b) with None => [45] | Some t => sq_name t end.
Proof.
  intro H. pose proof (accepted_ep_rank_ok bb b H) as Hr.
  split; [exact (board_display_ep_dash b)|].
  split; [intros e He; exact (board_display_ep_square b e He Hr)|].
  rewrite ep_abs. destruct (epsq b) as [e|] eqn:Ee.
  - exact (proj1 (board_display_ep_square b e Ee Hr)).
  - exact (proj2 (board_display_ep_dash b) Ee).
Qed.

(** ** 6. Examples: every implication on a non-valid accepted board *)
(** nine white pawns *)
Definition nine_pawns_pos : pos :=
  {| placement := updN (updN (updN (updN (updN (updN (updN (updN (updN (updN (updN
        (repeat None 64) 4 (Some (King,White))) 60 (Some (King,Black)))
        8 (Some (Pawn,White))) 9 (Some (Pawn,White))) 10 (Some (Pawn,White))) 11 (Some (Pawn,White)))
        12 (Some (Pawn,White))) 13 (Some (Pawn,White))) 14 (Some (Pawn,White))) 15 (Some (Pawn,White)))
        16 (Some (Pawn,White));
     turn := White; wk := false; wq := false; bk := false; bq := false; ep := None |}.
Definition nine_pawns_builder : builder := builder_of_pos nine_pawns_pos.
Definition nine_pawns_board : board := from_scratch nine_pawns_pos.

Example nine_pawns_accepted :
  try_from_builder nine_pawns_builder = Some nine_pawns_board /\
  board_from_str fen_white_pawns = Ok nine_pawns_board /\
  pos_valid (abs_board nine_pawns_board) = false /\
  weak_valid (abs_board nine_pawns_board) = true.
Proof. split; [|split; [|split]]; vm_compute; reflexivity. Qed.

Example nine_pawns_canonical : nine_pawns_board = from_scratch (abs_board nine_pawns_board).
Proof. exact (accepted_canonical _ _ (proj1 nine_pawns_accepted)). Qed.
Example nine_pawns_idempotent :
  try_from_builder (builder_of_board nine_pawns_board) = Some nine_pawns_board.
Proof. exact (accepted_idempotent _ _ (proj1 nine_pawns_accepted)). Qed.
Example nine_pawns_roundtrip : board_from_str (board_display nine_pawns_board) = Ok nine_pawns_board.
Proof. exact (accepted_roundtrip _ _ (proj1 nine_pawns_accepted)). Qed.
Example nine_pawns_parsed_roundtrip :
  board_from_str (board_display nine_pawns_board) = Ok nine_pawns_board.
Proof. exact (parsed_roundtrip _ _ (proj1 (proj2 nine_pawns_accepted))). Qed.
Example nine_pawns_text :
  board_display nine_pawns_board = fen_white_pawns /\
  fen_wellformed (board_display nine_pawns_board) = true /\
  board_display nine_pawns_board = std_fen (abs_board nine_pawns_board) (ep (abs_board nine_pawns_board)).
Proof.
  split; [vm_compute; reflexivity|].
  split; [exact (accepted_display_wellformed _ _ (proj1 nine_pawns_accepted))
         |exact (accepted_display_is_std _ _ (proj1 nine_pawns_accepted))].
Qed.
Example nine_pawns_iff :
  (exists bb, try_from_builder bb = Some nine_pawns_board) /\
  (nine_pawns_board = from_scratch (abs_board nine_pawns_board) /\
   weak_valid (abs_board nine_pawns_board) = true).
Proof.
  split; [exists nine_pawns_builder; exact (proj1 nine_pawns_accepted)|].
  apply (proj1 (accepted_iff_canonical_weak_valid nine_pawns_board)).
  exists nine_pawns_builder. exact (proj1 nine_pawns_accepted).
Qed.

Example nine_pawns_from_std :
  board_from_str (std_fen (abs_board nine_pawns_board) (ep (abs_board nine_pawns_board)))
  = Ok nine_pawns_board /\
  builder_of_board nine_pawns_board = builder_of_pos (abs_board nine_pawns_board) /\
  board_from_str (board_display nine_pawns_board) = board_from_str fen_white_pawns.
Proof.
  split; [exact (accepted_from_std _ _ (proj1 nine_pawns_accepted))|].
  split; [exact (accepted_builder_of_pos _ _ (proj1 nine_pawns_accepted))|].
  exact (parsed_display_fixpoint _ _ (proj1 (proj2 nine_pawns_accepted))).
Qed.
Example nine_pawns_ep_field : nth 3 (split_sp (board_display nine_pawns_board)) [] = [45].
Proof.
  destruct (accepted_ep_field _ _ (proj1 nine_pawns_accepted)) as [Hd _].
  apply (proj2 Hd). vm_compute. reflexivity.
Qed.

(** a non-valid accepted board WITH an en-passant square: a white knight stands on the
    target d3 ([fen_ep_target]); the field is still "d3" *)
Lemma str_eqb_true a : forall c, str_eqb a c = true -> a = c.
Proof.
  induction a as [|x a IH]; intros [|y c]; cbn [str_eqb]; try discriminate; [reflexivity|].
  intro H. apply andb_true_iff in H. destruct H as [Hx Hr]. apply N.eqb_eq in Hx. subst y.
  f_equal. exact (IH c Hr).
Qed.

Definition ep_target_check (b:board) : bool :=
  negb (pos_valid (abs_board b))
  && match epsq b with Some e => e =? 27 | None => false end
  && str_eqb (nth 3 (split_sp (board_display b)) []) (s_of "d3"%string)
  && str_eqb (board_display b) fen_ep_target.
Example ep_target_accepted :
  exists b, board_from_str fen_ep_target = Ok b /\
    (pos_valid (abs_board b) = false /\ epsq b = Some 27 /\
     nth 3 (split_sp (board_display b)) [] = s_of "d3"%string /\
     board_display b = fen_ep_target) /\
    board_from_str (board_display b) = Ok b /\ b = from_scratch (abs_board b) /\
    nth 3 (split_sp (board_display b)) [] = sq_name (uforward (stm b) 27).
Proof.
  destruct (parsed_witness_b fen_ep_target ep_target_check
              (fun b => pos_valid (abs_board b) = false /\ epsq b = Some 27 /\
                        nth 3 (split_sp (board_display b)) [] = s_of "d3"%string /\
                        board_display b = fen_ep_target)) as [b [Hp HP]].
  - intros b Hc. unfold ep_target_check in Hc. rewrite !andb_true_iff in Hc.
    destruct Hc as [[[H1 H2] H3] H4].
    split; [destruct (pos_valid (abs_board b)); [discriminate H1|reflexivity]|].
    split; [destruct (epsq b) as [e|]; [apply N.eqb_eq in H2; subst e; reflexivity|discriminate H2]|].
    split; [apply str_eqb_true, H3|apply str_eqb_true, H4].
  - vm_compute. reflexivity.
  - exists b. split; [exact Hp|]. split; [exact HP|].
    split; [exact (parsed_roundtrip _ _ Hp)|]. split; [exact (parsed_canonical _ _ Hp)|].
    apply (proj1 (board_from_str_ok_iff _ _)) in Hp. destruct Hp as [bb [_ Hacc]].
    destruct (accepted_ep_field bb b Hacc) as [_ [Hsq _]].
    exact (proj1 (Hsq 27 (proj1 (proj2 HP)))).
Qed.

(** idempotence does NOT recover the submitted builder: after 1.e4 the file "e" is recorded
    in the builder, no black pawn stands beside e4, [set_ep] stores nothing, and the builder
    read off the accepted board has no en-passant file — two builders, one board *)
Example builder_not_recovered :
  exists bb b, try_from_builder bb = Some b /\ bep bb = Some 4 /\
    bep (builder_of_board b) = None /\ builder_of_board b <> bb /\
    try_from_builder (builder_of_board b) = Some b.
Proof.
  exists (builder_of_pos e4_with_target), (from_scratch e4_with_target).
  destruct e4_with_target_facts as (_ & Hacc & _).
  split; [exact Hacc|]. split; [vm_compute; reflexivity|].
  assert (He : bep (builder_of_board (from_scratch e4_with_target)) = None) by (vm_compute; reflexivity).
  split; [exact He|]. split; [|exact (accepted_idempotent _ _ Hacc)].
  intro E. rewrite E in He. vm_compute in He. discriminate He.
Qed.
