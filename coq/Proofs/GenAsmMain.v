(** * Proofs.GenAsmMain — assembly of the move-generator refinement theorem T_gen
    (property C01: legal move generation is exact — no missing, extra or duplicate moves)
    from the layer statements of [Proofs/GenInterface.v], taken as explicit premises. *)
From Coq Require Import NArith List Bool Lia ZifyBool ZifyN ZifyNat Permutation Sorted.
From Chess Require Import Base.Bits Spec.Geometry Spec.Rules Model.Board Model.MoveGen.
From Chess Require Import Proofs.BitsFacts Proofs.TablesLib Proofs.TablesMeaning Proofs.FiniteFnsEq
  Proofs.IterBits Proofs.IterCore Proofs.AbsBoard Proofs.NullMove Proofs.CanonAttack
  Proofs.CanonCheckers Proofs.CanonPinned Proofs.CanonNullMove Proofs.CanonScratch
  Proofs.GenWF Proofs.GenWFBoard Proofs.GenInterface
  Proofs.GenAsmLists Proofs.GenAsmGeom Proofs.GenAsmCode Proofs.GenAsmSpec.
Import ListNotations.
Open Scope N_scope.
#[local] Arguments N.add : simpl never.
#[local] Arguments N.sub : simpl never.
#[local] Arguments N.mul : simpl never.
#[local] Arguments N.shiftl : simpl never.
#[local] Arguments N.shiftr : simpl never.
#[local] Arguments N.land : simpl never.
#[local] Arguments N.lor : simpl never.
#[local] Arguments N.lxor : simpl never.
#[local] Arguments N.testbit : simpl never.
#[local] Arguments N.eqb : simpl never.
#[local] Arguments N.ltb : simpl never.
#[local] Arguments N.leb : simpl never.
#[local] Arguments N.pow : simpl never.

(** ** 0. The additional premise: en passant and double check
    The six layer statements do not say what happens to an en-passant capture when the side
    to move is in double check (the code then generates king moves only, the specification
    keeps the capture iff it is safe).  In a valid position this cannot happen: *)
Definition stmt_ep_one_checker : Prop := forall b,
  b = from_scratch (abs_board b) -> pos_valid (abs_board b) = true -> epsq b <> None ->
  popcnt (checkers b) <= 1.
(** the weaker form that is actually enough *)
Definition stmt_ep_double : Prop := forall b e s,
  b = from_scratch (abs_board b) -> pos_valid (abs_board b) = true -> epsq b = Some e -> s < 64 ->
  has (abs_board b) s Pawn (stm b) = true ->
  N.testbit (N.land (get_rank (sq_rank e)) (get_adjacent_files (sq_file e))) s = true ->
  2 <= popcnt (checkers b) ->
  safe (abs_board b) (mv s (uforward (stm b) e)) = false.
Theorem ep_one_checker_double : stmt_ep_one_checker -> stmt_ep_double.
Proof.
  intros H b e s Hcan Hv He _ _ _ H2. exfalso.
  assert (Hne : epsq b <> None) by (rewrite He; discriminate).
  pose proof (H b Hcan Hv Hne). lia.
Qed.

(** ** 1. Small specification-side facts *)
Lemma has_at q s t c : has q s t c = true -> at_ q s = Some (t,c).
Proof.
  unfold has. destruct (at_ q s) as [[t' c']|]; [|discriminate]. intro H.
  apply andb_prop in H. destruct H as [H1 H2].
  destruct t, t'; try discriminate H1; destruct c, c'; try discriminate H2; reflexivity.
Qed.

Lemma at_has q s t c : at_ q s = Some (t,c) -> has q s t c = true.
Proof. unfold has. intros ->. destruct t, c; reflexivity. Qed.

Lemma at_has_other q s t c t' : at_ q s = Some (t,c) -> t' <> t -> has q s t' c = false.
Proof. unfold has. intros -> Hne. destruct t, t'; try reflexivity; contradiction Hne; reflexivity. Qed.

Lemma color_eqb_eq c c' : color_eqb c c' = true -> c = c'.
Proof. destruct c, c'; try discriminate; reflexivity. Qed.
Lemma color_eqb_refl c : color_eqb c c = true.
Proof. destruct c; reflexivity. Qed.

Lemma legal_in q m : In m (legal_moves q) <-> In m (pseudo q) /\ safe q m = true.
Proof. unfold legal_moves, safe. rewrite filter_In. reflexivity. Qed.

Lemma ep_valid q t : pos_valid q = true -> ep q = Some t ->
  t < 64 /\ rank_of t = sixth_rank (turn q) /\ occ q t = false.
Proof.
  intros H He. unfold pos_valid in H. apply andb_prop in H. destruct H as [_ H].
  unfold ep_ok in H. rewrite He in H. cbv zeta in H.
  apply andb_prop in H. destruct H as [H H3]. apply andb_prop in H. destruct H as [H1 H2].
  apply N.ltb_lt in H1. apply N.eqb_eq in H2. split; [exact H1|]. split; [exact H2|].
  destruct (step t (0, - fwdc (turn q))%Z); [|discriminate H3].
  destruct (step t (0, fwdc (turn q))%Z); [|discriminate H3].
  destruct (occ q t); [|reflexivity]. exfalso.
  cbn [negb] in H3. rewrite ?andb_false_r in H3. cbn [andb] in H3. discriminate H3.
Qed.

Lemma castle_nonempty_king q c m : In m (castle_moves q c) -> has q (home_rank c * 8 + 4) King c = true.
Proof.
  unfold castle_moves. cbv zeta.
  destruct (has q (home_rank c * 8 + 4) King c); [reflexivity|]. cbn [andb]. intros [].
Qed.

Lemma spec_castle_in q ks :
  spec_castle q ks = true <->
  In (mv (home_rank (turn q) * 8 + 4) (if ks then home_rank (turn q) * 8 + 6 else home_rank (turn q) * 8 + 2))
     (castle_moves q (turn q)).
Proof.
  unfold spec_castle. cbv zeta. rewrite existsb_exists. split.
  - intros [m [Hm Hq]]. apply andb_prop in Hq. destruct Hq as [H1 H2].
    apply N.eqb_eq in H1. apply N.eqb_eq in H2.
    destruct (castle_moves_in _ _ _ Hm) as [->| ->]; cbn [src dst mv] in *.
    + destruct ks; [exact Hm|]. exfalso. destruct (turn q); cbn [home_rank] in H2; lia.
    + destruct ks; [|exact Hm]. exfalso. destruct (turn q); cbn [home_rank] in H2; lia.
  - intro Hm. eexists. split; [exact Hm|]. cbn [src dst mv]. rewrite !N.eqb_refl. reflexivity.
Qed.

Lemma of_spec_move_inj m m' : of_spec_move m = of_spec_move m' -> m = m'.
Proof.
  destruct m as [s d pr], m' as [s' d' pr']. unfold of_spec_move. cbn [src dst promo].
  intro H. injection H as -> -> ->. reflexivity.
Qed.

Lemma popcnt_zero x : popcnt x = 0 -> x = 0.
Proof.
  intro H. apply IterBits.squares_of_nil. rewrite IterBits.popcnt_length in H.
  destruct (squares_of x); [reflexivity|]. cbn [length] in H. lia.
Qed.

(** ** 2. A canonical board of a valid position *)
Section Asm.
Variable b : board.
Hypothesis Hcan : b = from_scratch (abs_board b).
Hypothesis Hv : pos_valid (abs_board b) = true.
Notation p := (abs_board b).
Notation me := (stm b).
Notation k := (kq b).

Lemma Hrt : abs_board (from_scratch p) = p.
Proof. rewrite <- Hcan. reflexivity. Qed.
Lemma HC : Consistent b.
Proof. exact (canonical_consistent b Hcan). Qed.
Lemma HWF : BoardWF b.
Proof. rewrite Hcan. apply from_scratch_wf. Qed.
Lemma Hk1 : popcnt (N.land (pK b) (color_combined b me)) = 1.
Proof.
  destruct (scratch_facts p Hv Hrt) as [_ [_ [_ [H _]]]]. rewrite <- Hcan in H. exact H.
Qed.
Lemma k_lt : k < 64.
Proof. apply king_square_lt64. Qed.
Lemma king_bit : N.land (pK b) (color_combined b me) = bit k.
Proof. exact (proj2 (one_king_bit b me HC Hk1)). Qed.
Lemma king_sq_k : king_sq p me = Some k.
Proof. exact (king_square_spec b me HC Hk1). Qed.
Lemma kingsq_k : kingsq p = k.
Proof. unfold kingsq. change (turn p) with me. rewrite king_sq_k. reflexivity. Qed.
Lemma Hkk : N.testbit (pK b) k = true.
Proof. exact (proj1 (king_square_has b me HC Hk1)). Qed.
Lemma own_bounded_b : bounded (own_bb b).
Proof. exact (own_bounded' b HC). Qed.

Lemma has_own s t : s < 64 ->
  has p s t me = N.testbit (pieces b t) s && N.testbit (own_bb b) s.
Proof. intro Hs. exact (has_abs b s t me HC Hs). Qed.

Lemma has_king_iff s : s < 64 -> (has p s King me = true <-> s = k).
Proof.
  intro Hs. rewrite (has_own s King Hs). cbn [pieces]. unfold own_bb.
  rewrite <- N.land_spec, king_bit, TablesLib.testbit_bit, N.eqb_eq. split; intro H; symmetry; exact H.
Qed.

Lemma at_king : at_ p k = Some (King, me).
Proof. apply has_at. apply (has_king_iff k k_lt). reflexivity. Qed.

(** the check cache is the list of checkers *)
Lemma checkers_bounded : bounded (checkers b).
Proof. apply lt_bounded. pose proof HWF as H. unfold BoardWF in H. tauto. Qed.

Lemma Hch s : s < 64 -> (N.testbit (checkers b) s = true <-> In s (checkers_of p)).
Proof.
  intro Hs. pose proof (from_scratch_checkers p Hv Hrt s Hs) as H. rewrite <- Hcan in H. exact H.
Qed.

Lemma checkers_of_sorted : StronglySorted N.lt (checkers_of p).
Proof.
  unfold checkers_of. destruct (king_sq p (turn p)); [|constructor].
  unfold attackers. apply CanonNullMove.filter_sorted, all_sq_sorted.
Qed.

Lemma checkers_of_lt64 s : In s (checkers_of p) -> s < 64.
Proof.
  unfold checkers_of. destruct (king_sq p (turn p)); [|intros []].
  unfold attackers. intro H. apply filter_In in H. apply TablesLib.in_all_sq. exact (proj1 H).
Qed.

Lemma sq_checkers : squares_of (checkers b) = checkers_of p.
Proof.
  apply ssorted_ext; [apply IterBits.squares_of_sorted|exact checkers_of_sorted|].
  intro x. rewrite IterBits.squares_of_spec. split.
  - intro H. apply Hch; [exact (checkers_bounded x H)|exact H].
  - intro H. apply Hch; [exact (checkers_of_lt64 x H)|exact H].
Qed.

(** the pin cache, on the mover's men, is the list of pinned men *)
Lemma mem_pinned s : s < 64 -> N.testbit (own_bb b) s = true ->
  mem s (pinned_of p) = N.testbit (pinned b) s.
Proof.
  intros Hs Ho. pose proof (from_scratch_pinned p Hv Hrt s Hs) as H. rewrite <- Hcan in H.
  change (turn p) with me in H. fold (own_bb b) in H. rewrite N.land_spec, Ho, andb_true_r in H.
  destruct (N.testbit (pinned b) s).
  - apply mem_in, H. reflexivity.
  - destruct (mem s (pinned_of p)) eqn:E; [|reflexivity]. apply mem_in, H in E. discriminate E.
Qed.

(** ** 3. The code's filter is the right-hand side of the safety statement *)
Definition code_guard (s d:N) : bool :=
  if checkers b =? 0 then guard_ic b false s d
  else if popcnt (checkers b) =? 1 then guard_ic b true s d else false.

Lemma code_guard_rhs m : src m < 64 -> dst m < 64 -> N.testbit (own_bb b) (src m) = true ->
  safe_nonking_rhs p m = code_guard (src m) (dst m).
Proof.
  intros Hs Hd Ho. unfold safe_nonking_rhs, code_guard. cbv zeta.
  rewrite kingsq_k, (mem_pinned _ Hs Ho). pose proof sq_checkers as Hsq.
  destruct (checkers_of p) as [|c [|c2 r]].
  - apply IterBits.squares_of_nil in Hsq. rewrite Hsq. cbn [N.eqb]. reflexivity.
  - assert (Hb : checkers b = bit c).
    { apply squares_of_inj. rewrite Hsq, BitsFacts.squares_of_bit. reflexivity. }
    assert (Hc : c < 64).
    { apply checkers_bounded. rewrite Hb, TablesLib.testbit_bit. apply N.eqb_refl. }
    rewrite Hb. destruct (N.eqb_spec (bit c) 0) as [Hz|_]; [exfalso; exact (bit_nonzero c Hz)|].
    rewrite popcnt_bit. cbn [N.eqb]. change (1 =? 1) with true. cbv iota.
    unfold guard_ic, guard_gen, chk_word. rewrite Hb, (AbsBoard.to_square_bit c Hc).
    rewrite N.lxor_spec, TablesLib.testbit_bit. f_equal.
    destruct (N.eqb_spec (dst m) c) as [->|Hne].
    + rewrite (proj1 (between_ends c k Hc k_lt)), N.eqb_refl. reflexivity.
    + destruct (N.eqb_spec c (dst m)) as [->|_]; [contradiction Hne; reflexivity|].
      rewrite xorb_false_r, orb_false_r. reflexivity.
  - assert (Hne : checkers b <> 0).
    { intro Hz. rewrite Hz in Hsq. discriminate Hsq. }
    destruct (N.eqb_spec (checkers b) 0) as [Hz|_]; [contradiction|].
    assert (Hp : popcnt (checkers b) <> 1).
    { rewrite IterBits.popcnt_length, Hsq. cbn [length]. lia. }
    destruct (N.eqb_spec (popcnt (checkers b)) 1) as [Hq|_]; [contradiction|]. reflexivity.
Qed.
End Asm.
