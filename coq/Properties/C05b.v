(** C05, implementation side: the library's own sanity check accepts the canonical board of
    every valid position, and that board abstracts back to the position (accept_complete). *)
From Chess Require Import Base.Bits Spec.Rules Model.Board Model.MoveGen.
From Chess Require Import Proofs.NullMove Proofs.GenInterface Proofs.RoundTripMain.
Open Scope N_scope.

Theorem C05_valid_is_sane : forall p, pos_valid p = true -> is_sane (from_scratch p) = true.
Proof. exact sane_from_scratch. Qed.
Check C05_valid_is_sane : forall p, pos_valid p = true -> is_sane (from_scratch p) = true.
Print Assumptions C05_valid_is_sane.

Theorem C05_valid_roundtrip : forall p, pos_valid p = true -> abs_board (from_scratch p) = p.
Proof. exact abs_from_scratch. Qed.
Check C05_valid_roundtrip : forall p, pos_valid p = true -> abs_board (from_scratch p) = p.
Print Assumptions C05_valid_roundtrip.

Theorem C05_valid_canonical : forall p, pos_valid p = true -> Canonical (from_scratch p).
Proof. exact from_scratch_valid_canonical. Qed.
Check C05_valid_canonical : forall p, pos_valid p = true -> Canonical (from_scratch p).
Print Assumptions C05_valid_canonical.

Theorem C05_accept_complete : forall p, pos_valid p = true ->
  exists b, try_from_builder (builder_of_pos p) = Some b /\ abs_board b = p.
Proof. exact accept_complete. Qed.
Check C05_accept_complete : forall p, pos_valid p = true ->
  exists b, try_from_builder (builder_of_pos p) = Some b /\ abs_board b = p.
Print Assumptions C05_accept_complete.
