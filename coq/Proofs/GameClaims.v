(** * Proofs.GameClaims — the statements that relate [Game::can_declare_draw] to the
    draw-claim rules of [Spec.Draw].  They are NOT proved here: they need the refinement of
    the move generator and of move application ([abs_board (mm b m) = apply (abs_board b) m],
    [moves_of] = the specification's legal moves), the absence of hash collisions, and the
    argument that a position cannot recur across a pawn move, a capture or a change of
    castling rights.  What is proved about the scan at the level of the model is in
    [Proofs.GameScan], [Proofs.GameThreefold] and [Proofs.GameProtocol]. *)
From Coq Require Import NArith List Bool.
From Chess Require Import Spec.Draw Model.Game Proofs.GameScan Proofs.GameProtocol.
Import ListNotations.
Open Scope N_scope.

(** the boards of a game: the start board and the board after every move of the log *)
Definition history (b0:board) (l:list action) : list board := b0 :: map s_after (steps b0 l).

(** no two boards of the game with the same key [(hash, legal moves)] are different positions *)
Definition NoHashCollision (b0:board) (l:list action) : Prop :=
  forall b1 b2, In b1 (history b0 l) -> In b2 (history b0 l) ->
    pos_key b1 = pos_key b2 -> pos_eqb (abs_board b1) (abs_board b2) = true.

(** whenever the rules allow a claim on an unfinished game, the library allows it *)
Definition C11_claim_complete_full : Prop :=
  forall p0, pos_valid p0 = true ->
  forall g, Reachable (from_scratch p0) g ->
    has_result g = Some false ->
    can_claim (abs_board (from_scratch p0)) (log_moves (actions g)) = true ->
    can_declare_draw g = Some true.

(** whenever the library allows a claim, the rules allow it — provided no two different
    positions of the game share a key *)
Definition C11_claim_sound_full : Prop :=
  forall p0, pos_valid p0 = true ->
  forall g, Reachable (from_scratch p0) g ->
    NoHashCollision (from_scratch p0) (actions g) ->
    can_declare_draw g = Some true ->
    can_claim (abs_board (from_scratch p0)) (log_moves (actions g)) = true.
