(* "iter" stream: C14 *)
open Model
open Common

let triple_of_slash (s:string) : int*int*int =
  match String.split_on_char '/' s with [a;b;c] -> (int_of_string a, int_of_string b, int_of_string c) | _ -> failwith ("bad move " ^ s)

let check_iter (line:string) : unit =
  match split_bar line with
  | [f0; f1] ->
    let enc = String.sub f0 2 (String.length f0 - 2) in
    let b = from_builder_raw (builder_of_enc enc) in
    let p = abs_board b in
    bump "scripts";
    let baseline =
      if pos_valid p then List.sort compare (List.map triple_of_move (legal_moves p))
      else List.sort compare (List.map triple_of_cmove (moves_of b)) in
    let g = ref (new_legal b) in
    let removed : (int*int*int) list ref = ref [] in      (* moves excluded beforehand *)
    let yielded : (int*int*int) list ref = ref [] in
    let cur_mask = ref m64 in
    let batch : (int * (int*int*int) option) list ref = ref [] in   (* (len before, result) in reverse *)
    let model_batch : (int*int*int) list ref = ref [] in
    let ctx = enc in
    let nontrivial = ref false in
    let close_batch () =
      (* called when next() returned None: check the batch *)
      let items = List.rev !batch in
      let somes = List.filter_map snd items in
      if List.sort compare somes <> List.sort compare !model_batch then
        mismatch "iter_next_model" (Printf.sprintf "%s batch under mask %s: impl [%s] model [%s]" ctx (u64s_of_n !cur_mask)
                                      (String.concat " " (List.map mvs_of_triple (List.sort compare somes))) (String.concat " " (List.map mvs_of_triple (List.sort compare !model_batch))));
      model_batch := [];
      (* len before each call = number of moves still to be yielded in this batch *)
      let total = List.length somes in
      List.iteri (fun i (l, r) ->
          let remaining = total - (min i total) in
          ignore r;
          if l <> remaining then mismatch "prop_len" (Printf.sprintf "%s: len()=%d but %d moves were still yielded under the mask (call %d of the batch)" ctx l remaining i)) items;
      (* the batch is exactly the not-yet-yielded, not-removed legal moves landing on the mask *)
      let before = List.filter (fun m -> not (List.mem m somes)) !yielded in
      let expect = List.filter (fun ((_,d,_) as m) -> N.testbit !cur_mask (n_of_int d) && not (List.mem m !removed) && not (List.mem m before)) baseline in
      if List.sort compare somes <> expect then
        mismatch "prop_batch" (Printf.sprintf "%s: mask %s yielded [%s] expected [%s]" ctx (u64s_of_n !cur_mask)
                                 (String.concat " " (List.map mvs_of_triple (List.sort compare somes))) (String.concat " " (List.map mvs_of_triple expect)));
      batch := [] in
    List.iter (fun tok ->
        match String.index_opt tok '=' with
        | None -> ()
        | Some i ->
          let op = String.sub tok 0 i and res = String.sub tok (i+1) (String.length tok - i - 1) in
          (match op.[0] with
           | 'm' ->
             let m = n_of_u64s (String.sub op 1 (String.length op - 1)) in
             if !batch <> [] then mismatch "script" (ctx ^ " mask changed before exhaustion");
             g := set_iterator_mask !g m; cur_mask := m;
             if m <> m64 then nontrivial := true
           | 'k' ->
             let m = n_of_u64s (String.sub op 1 (String.length op - 1)) in
             g := remove_mask !g m; nontrivial := true;
             (* a move already yielded before the removal stays yielded *)
             removed := List.filter (fun ((_,d,_) as mv) -> N.testbit m (n_of_int d) && not (List.mem mv !yielded)) baseline @ !removed
           | 'r' ->
             let (s,d,_) = triple_of_slash (String.sub op 1 (String.length op - 1)) in
             let (found, g') = remove_move !g (n_of_int s) (n_of_int d) in
             g := g'; nontrivial := true;
             if (if found then "1" else "0") <> res then mismatch "iter_remove_ret" (Printf.sprintf "%s remove_move %d,%d impl=%s" ctx s d res);
             removed := List.filter (fun ((s',d',_) as mv) -> s' = s && d' = d && not (List.mem mv !yielded)) baseline @ !removed
           | 'x' ->
             (match String.split_on_char ',' res with
              | [l; sh; mv] ->
                let li = int_of_string l in
                if sh <> "1" then mismatch "size_hint" (ctx ^ " size_hint != (len, Some len)");
                let ml = int_of_n (len !g) in
                if ml <> li then mismatch "iter_len_model" (Printf.sprintf "%s len impl=%d model=%d" ctx li ml);
                let (r, g') = next !g in
                g := g';
                (* the ORDER in which moves are generated is not part of any property: the model's
                   own order is followed independently and only exhaustion must coincide call by
                   call; the yielded moves are compared as sets when the batch closes *)
                (match r with
                 | None -> if mv <> "-" then mismatch "iter_next_model" (Printf.sprintf "%s model exhausted, impl yields %s" ctx mv)
                 | Some m -> if mv = "-" then mismatch "iter_next_model" (Printf.sprintf "%s impl exhausted, model still yields" ctx)
                             else model_batch := triple_of_cmove m :: !model_batch);
                if mv = "-" then begin batch := (li, None) :: !batch; close_batch () end
                else begin
                  let t = triple_of_slash mv in
                  if List.mem t !yielded then mismatch "prop_dup" (Printf.sprintf "%s move %s yielded twice" ctx mv);
                  if List.mem t !removed then mismatch "prop_removed_yielded" (Printf.sprintf "%s removed move %s was yielded" ctx mv);
                  yielded := t :: !yielded; batch := (li, Some t) :: !batch; bump "next_calls"
                end
              | _ -> mismatch "script" ("bad x token " ^ tok))
           | _ -> ())) (tokens f1);
    (* after the final full-mask batch: everything legal and not removed was yielded exactly once *)
    let expect_all = List.filter (fun m -> not (List.mem m !removed)) baseline in
    if List.sort compare !yielded <> expect_all then
      mismatch "prop_total" (Printf.sprintf "%s: yielded [%s] expected [%s]" ctx
                               (String.concat " " (List.map mvs_of_triple (List.sort compare !yielded))) (String.concat " " (List.map mvs_of_triple expect_all)));
    if !nontrivial && note_distinct line then begin bump "distinct_nontrivial"; sample "script" (if String.length line > 400 then String.sub line 0 400 else line) end
  | _ -> mismatch "script" ("bad I line " ^ line)
