(** * C16 (part B) — square arithmetic and the pawn accessors are exact.
    Graph of every finite-domain public function of the compiled library (Gen/FiniteFns.v,
    regenerated on every run) = the model; the model's square arithmetic is plain arithmetic
    on 0..63; the three blocker-taking pawn accessors are characterised for ALL blocker words.
    Lemmas: Proofs/FiniteFnsEq.v. *)
From Coq Require Import Lia.
From Chess Require Import Base.Bits Base.Text Spec.Geometry Spec.Rules Gen.FiniteFns
  Model.BitBoard Model.Board Model.MoveGen Model.Fen Proofs.FiniteFnsEq.
Open Scope N_scope.

(** ** (1) graphs = model over the complete domain ([osq]: 64 encodes None) *)
Theorem C16_fn_graphs_squares :
  F_sq_rank = map sq_rank all_sq /\ F_sq_file = map sq_file all_sq /\
  F_up = map (fun s => osq (sq_up s)) all_sq /\ F_down = map (fun s => osq (sq_down s)) all_sq /\
  F_left = map (fun s => osq (sq_left s)) all_sq /\ F_right = map (fun s => osq (sq_right s)) all_sq /\
  F_uup = map uup all_sq /\ F_udown = map udown all_sq /\
  F_uleft = map uleft all_sq /\ F_uright = map uright all_sq /\
  F_forward_0 = map (fun s => osq (sq_forward White s)) all_sq /\
  F_forward_1 = map (fun s => osq (sq_forward Black s)) all_sq /\
  F_backward_0 = map (fun s => osq (sq_backward White s)) all_sq /\
  F_backward_1 = map (fun s => osq (sq_backward Black s)) all_sq /\
  F_uforward_0 = map (uforward White) all_sq /\ F_uforward_1 = map (uforward Black) all_sq /\
  F_ubackward_0 = map (ubackward White) all_sq /\ F_ubackward_1 = map (ubackward Black) all_sq /\
  F_make_square = flat_map (fun r => map (fun f => mk_sq r f) r8) r8 /\
  F_all_squares = all_sq.
Proof. exact fn_graphs_squares. Qed.
Check C16_fn_graphs_squares :
  F_sq_rank = map sq_rank all_sq /\ F_sq_file = map sq_file all_sq /\
  F_up = map (fun s => match sq_up s with Some t => t | None => 64 end) all_sq /\
  F_down = map (fun s => match sq_down s with Some t => t | None => 64 end) all_sq /\
  F_left = map (fun s => match sq_left s with Some t => t | None => 64 end) all_sq /\
  F_right = map (fun s => match sq_right s with Some t => t | None => 64 end) all_sq /\
  F_uup = map uup all_sq /\ F_udown = map udown all_sq /\
  F_uleft = map uleft all_sq /\ F_uright = map uright all_sq /\
  F_forward_0 = map (fun s => match sq_up s with Some t => t | None => 64 end) all_sq /\
  F_forward_1 = map (fun s => match sq_down s with Some t => t | None => 64 end) all_sq /\
  F_backward_0 = map (fun s => match sq_down s with Some t => t | None => 64 end) all_sq /\
  F_backward_1 = map (fun s => match sq_up s with Some t => t | None => 64 end) all_sq /\
  F_uforward_0 = map (uforward White) all_sq /\ F_uforward_1 = map (uforward Black) all_sq /\
  F_ubackward_0 = map (ubackward White) all_sq /\ F_ubackward_1 = map (ubackward Black) all_sq /\
  F_make_square = flat_map (fun r => map (fun f => mk_sq r f) [0;1;2;3;4;5;6;7]) [0;1;2;3;4;5;6;7] /\
  F_all_squares = all_sq.
Print Assumptions C16_fn_graphs_squares.

Theorem C16_fn_graphs_files_ranks_colors :
  F_file_from_index = map (fun i => N.land i 7) r16 /\ F_rank_from_index = map (fun i => N.land i 7) r16 /\
  F_file_left = map (fun f => N.land (f+7) 7) r8 /\ F_file_right = map (fun f => N.land (f+1) 7) r8 /\
  F_rank_up = map (fun r => N.land (r+1) 7) r8 /\ F_rank_down = map (fun r => N.land (r+7) 7) r8 /\
  F_all_files = r8 /\ F_all_ranks = r8 /\
  F_color_ranks_0 = [my_backrank White; my_backrank (opp White); second_rk White; fourth_rk White; seventh_rk White] /\
  F_color_ranks_1 = [my_backrank Black; my_backrank (opp Black); second_rk Black; fourth_rk Black; seventh_rk Black] /\
  F_color_not_0 = [cidx (opp White)] /\ F_color_not_1 = [cidx (opp Black)].
Proof. exact fn_graphs_files_ranks_colors. Qed.
Check C16_fn_graphs_files_ranks_colors :
  F_file_from_index = map (fun i => N.land i 7) [0;1;2;3;4;5;6;7;8;9;10;11;12;13;14;15] /\
  F_rank_from_index = map (fun i => N.land i 7) [0;1;2;3;4;5;6;7;8;9;10;11;12;13;14;15] /\
  F_file_left = map (fun f => N.land (f+7) 7) [0;1;2;3;4;5;6;7] /\
  F_file_right = map (fun f => N.land (f+1) 7) [0;1;2;3;4;5;6;7] /\
  F_rank_up = map (fun r => N.land (r+1) 7) [0;1;2;3;4;5;6;7] /\
  F_rank_down = map (fun r => N.land (r+7) 7) [0;1;2;3;4;5;6;7] /\
  F_all_files = [0;1;2;3;4;5;6;7] /\ F_all_ranks = [0;1;2;3;4;5;6;7] /\
  F_color_ranks_0 = [my_backrank White; my_backrank (opp White); second_rk White; fourth_rk White; seventh_rk White] /\
  F_color_ranks_1 = [my_backrank Black; my_backrank (opp Black); second_rk Black; fourth_rk Black; seventh_rk Black] /\
  F_color_not_0 = [cidx (opp White)] /\ F_color_not_1 = [cidx (opp Black)].
Print Assumptions C16_fn_graphs_files_ranks_colors.

(** [cr_row cr] = has_kingside, has_queenside, then per colour unmoved_rooks / kingside_squares /
    queenside_squares, then for j = 0..3: add j, remove j *)
Theorem C16_fn_graphs_castle_rights :
  F_sq_to_cr_0 = map (square_to_castle_rights White) all_sq /\
  F_sq_to_cr_1 = map (square_to_castle_rights Black) all_sq /\
  F_rook_sq_cr = map rook_square_to_castle_rights all_sq /\
  F_cr_0 = cr_row 0 /\ F_cr_1 = cr_row 1 /\ F_cr_2 = cr_row 2 /\ F_cr_3 = cr_row 3 /\
  F_cr_from_index = map (fun i => N.land i 3) r8 /\
  [[S_cr_string_0_0; S_cr_string_0_1]; [S_cr_string_1_0; S_cr_string_1_1];
   [S_cr_string_2_0; S_cr_string_2_1]; [S_cr_string_3_0; S_cr_string_3_1]]
  = map (fun cr => map (cr_to_string cr) [White;Black]) r4.
Proof. exact fn_graphs_castle_rights. Qed.
Check C16_fn_graphs_castle_rights :
  let row := fun cr =>
    [(if cr_has_kingside cr then 1 else 0); (if cr_has_queenside cr then 1 else 0);
     unmoved_rooks cr White; kingside_squares White; queenside_squares White;
     unmoved_rooks cr Black; kingside_squares Black; queenside_squares Black;
     cr_add cr 0; cr_remove cr 0; cr_add cr 1; cr_remove cr 1;
     cr_add cr 2; cr_remove cr 2; cr_add cr 3; cr_remove cr 3] in
  F_sq_to_cr_0 = map (square_to_castle_rights White) all_sq /\
  F_sq_to_cr_1 = map (square_to_castle_rights Black) all_sq /\
  F_rook_sq_cr = map (fun s => if sq_file s =? 0 then 2 else if sq_file s =? 7 then 1 else 0) all_sq /\
  F_cr_0 = row 0 /\ F_cr_1 = row 1 /\ F_cr_2 = row 2 /\ F_cr_3 = row 3 /\
  F_cr_from_index = map (fun i => N.land i 3) [0;1;2;3;4;5;6;7] /\
  [[S_cr_string_0_0; S_cr_string_0_1]; [S_cr_string_1_0; S_cr_string_1_1];
   [S_cr_string_2_0; S_cr_string_2_1]; [S_cr_string_3_0; S_cr_string_3_1]]
  = map (fun cr => map (cr_to_string cr) [White;Black]) [0;1;2;3].
Print Assumptions C16_fn_graphs_castle_rights.

Theorem C16_fn_graphs_bitboards_pieces :
  F_from_square = map bb_from_square all_sq /\
  F_to_square_single = map (fun s => bb_to_square (bb_from_square s)) all_sq /\
  F_to_square_single = all_sq /\
  F_promotion_pieces = map pidx promotion_pieces /\
  F_all_pieces = map pidx all_ptypes /\
  [S_piece_display_0; S_piece_display_1; S_piece_display_2; S_piece_display_3; S_piece_display_4; S_piece_display_5]
  = map (fun p => [piece_letter p]) all_ptypes /\
  [[S_piece_string_0_0; S_piece_string_0_1]; [S_piece_string_1_0; S_piece_string_1_1];
   [S_piece_string_2_0; S_piece_string_2_1]; [S_piece_string_3_0; S_piece_string_3_1];
   [S_piece_string_4_0; S_piece_string_4_1]; [S_piece_string_5_0; S_piece_string_5_1]]
  = map (fun p => map (piece_to_string p) [White;Black]) all_ptypes /\
  S_square_display_all = map square_display all_sq.
Proof. exact fn_graphs_bitboards_pieces. Qed.
Check C16_fn_graphs_bitboards_pieces :
  F_from_square = map bb_from_square all_sq /\
  F_to_square_single = map (fun s => bb_to_square (bb_from_square s)) all_sq /\
  F_to_square_single = all_sq /\
  F_promotion_pieces = map pidx promotion_pieces /\
  F_all_pieces = map pidx [Pawn;Knight;Bishop;Rook;Queen;King] /\
  [S_piece_display_0; S_piece_display_1; S_piece_display_2; S_piece_display_3; S_piece_display_4; S_piece_display_5]
  = map (fun p => [piece_letter p]) [Pawn;Knight;Bishop;Rook;Queen;King] /\
  [[S_piece_string_0_0; S_piece_string_0_1]; [S_piece_string_1_0; S_piece_string_1_1];
   [S_piece_string_2_0; S_piece_string_2_1]; [S_piece_string_3_0; S_piece_string_3_1];
   [S_piece_string_4_0; S_piece_string_4_1]; [S_piece_string_5_0; S_piece_string_5_1]]
  = map (fun p => map (piece_to_string p) [White;Black]) [Pawn;Knight;Bishop;Rook;Queen;King] /\
  [S_square_display_0; S_square_display_1; S_square_display_2; S_square_display_3;
   S_square_display_4; S_square_display_5; S_square_display_6; S_square_display_7;
   S_square_display_8; S_square_display_9; S_square_display_10; S_square_display_11;
   S_square_display_12; S_square_display_13; S_square_display_14; S_square_display_15;
   S_square_display_16; S_square_display_17; S_square_display_18; S_square_display_19;
   S_square_display_20; S_square_display_21; S_square_display_22; S_square_display_23;
   S_square_display_24; S_square_display_25; S_square_display_26; S_square_display_27;
   S_square_display_28; S_square_display_29; S_square_display_30; S_square_display_31;
   S_square_display_32; S_square_display_33; S_square_display_34; S_square_display_35;
   S_square_display_36; S_square_display_37; S_square_display_38; S_square_display_39;
   S_square_display_40; S_square_display_41; S_square_display_42; S_square_display_43;
   S_square_display_44; S_square_display_45; S_square_display_46; S_square_display_47;
   S_square_display_48; S_square_display_49; S_square_display_50; S_square_display_51;
   S_square_display_52; S_square_display_53; S_square_display_54; S_square_display_55;
   S_square_display_56; S_square_display_57; S_square_display_58; S_square_display_59;
   S_square_display_60; S_square_display_61; S_square_display_62; S_square_display_63]
  = map square_display all_sq.
Print Assumptions C16_fn_graphs_bitboards_pieces.

Theorem C16_fn_graphs_pawn_extremes :
  F_pawn_attacks_all_0 = map (fun s => get_pawn_attacks s White M64) all_sq /\
  F_pawn_attacks_all_1 = map (fun s => get_pawn_attacks s Black M64) all_sq /\
  F_pawn_quiets_empty_0 = map (fun s => get_pawn_quiets s White 0) all_sq /\
  F_pawn_quiets_empty_1 = map (fun s => get_pawn_quiets s Black 0) all_sq.
Proof. exact fn_graphs_pawn_extremes. Qed.
Check C16_fn_graphs_pawn_extremes :
  F_pawn_attacks_all_0 = map (fun s => get_pawn_attacks s White M64) all_sq /\
  F_pawn_attacks_all_1 = map (fun s => get_pawn_attacks s Black M64) all_sq /\
  F_pawn_quiets_empty_0 = map (fun s => get_pawn_quiets s White 0) all_sq /\
  F_pawn_quiets_empty_1 = map (fun s => get_pawn_quiets s Black 0) all_sq.
Print Assumptions C16_fn_graphs_pawn_extremes.

(** ** (2) the model's square arithmetic is plain arithmetic *)
Theorem C16_sq_mk_sq :
  (forall r f, r < 8 -> f < 8 -> mk_sq r f = 8*r+f) /\
  (forall r f, mk_sq r f = 8 * (r mod 8) + f mod 8) /\
  (forall r f, r < 8 -> f < 8 -> sq_rank (mk_sq r f) = r) /\
  (forall r f, r < 8 -> f < 8 -> sq_file (mk_sq r f) = f) /\
  (forall s, s < 64 -> mk_sq (sq_rank s) (sq_file s) = s) /\
  (forall s, s < 64 -> sq_rank s = s / 8) /\
  (forall s, sq_file s = s mod 8).
Proof. exact sq_mk_sq_facts. Qed.
Check C16_sq_mk_sq :
  (forall r f, r < 8 -> f < 8 -> mk_sq r f = 8*r+f) /\
  (forall r f, mk_sq r f = 8 * (r mod 8) + f mod 8) /\
  (forall r f, r < 8 -> f < 8 -> sq_rank (mk_sq r f) = r) /\
  (forall r f, r < 8 -> f < 8 -> sq_file (mk_sq r f) = f) /\
  (forall s, s < 64 -> mk_sq (sq_rank s) (sq_file s) = s) /\
  (forall s, s < 64 -> sq_rank s = s / 8) /\
  (forall s, sq_file s = s mod 8).
Print Assumptions C16_sq_mk_sq.

Theorem C16_sq_wrapping_steps : forall s, s < 64 ->
  uup s = (s + 8) mod 64 /\ udown s = (s + 56) mod 64 /\
  uleft s = 8 * sq_rank s + (sq_file s + 7) mod 8 /\
  uright s = 8 * sq_rank s + (sq_file s + 1) mod 8.
Proof. exact sq_wrapping_facts. Qed.
Check C16_sq_wrapping_steps : forall s, s < 64 ->
  uup s = (s + 8) mod 64 /\ udown s = (s + 56) mod 64 /\
  uleft s = 8 * sq_rank s + (sq_file s + 7) mod 8 /\
  uright s = 8 * sq_rank s + (sq_file s + 1) mod 8.
Print Assumptions C16_sq_wrapping_steps.

Theorem C16_sq_checked_steps : forall s, s < 64 ->
  sq_up s = (if sq_rank s =? 7 then None else Some (s + 8)) /\
  sq_down s = (if sq_rank s =? 0 then None else Some (s - 8)) /\
  sq_left s = (if sq_file s =? 0 then None else Some (s - 1)) /\
  sq_right s = (if sq_file s =? 7 then None else Some (s + 1)).
Proof. exact sq_checked_facts. Qed.
Check C16_sq_checked_steps : forall s, s < 64 ->
  sq_up s = (if sq_rank s =? 7 then None else Some (s + 8)) /\
  sq_down s = (if sq_rank s =? 0 then None else Some (s - 8)) /\
  sq_left s = (if sq_file s =? 0 then None else Some (s - 1)) /\
  sq_right s = (if sq_file s =? 7 then None else Some (s + 1)).
Print Assumptions C16_sq_checked_steps.

(** ** (3) the pawn accessors, for every blocker word [bl] (no bound on [bl]) *)
Theorem C16_pawn_attack_tab_meaning : forall w s t, s < 64 -> t < 64 ->
  N.testbit (pawn_attack_tab w s) t = pawn_attack_b w s t.
Proof. exact pawn_attack_tab_meaning. Qed.
Check C16_pawn_attack_tab_meaning : forall w s t, s < 64 -> t < 64 ->
  N.testbit (pawn_attack_tab w s) t
  = ((Z.abs (fileZ s - fileZ t) =? 1) && (rankZ t =? rankZ s + fwd w))%Z.
Print Assumptions C16_pawn_attack_tab_meaning.

Theorem C16_pawn_push_tab_meaning : forall w s t, s < 64 -> t < 64 ->
  N.testbit (pawn_push_tab w s) t = pawn_push_b w s t.
Proof. exact pawn_push_tab_meaning. Qed.
Check C16_pawn_push_tab_meaning : forall w s t, s < 64 -> t < 64 ->
  N.testbit (pawn_push_tab w s) t
  = ((fileZ t =? fileZ s) &&
     ((rankZ t =? rankZ s + fwd w) || ((rankZ s =? second_rank w) && (rankZ t =? rankZ s + 2 * fwd w))))%Z.
Print Assumptions C16_pawn_push_tab_meaning.

Theorem C16_pawn_attacks : forall s t c bl, s < 64 -> t < 64 ->
  N.testbit (get_pawn_attacks s c bl) t = N.testbit bl t && pawn_attack_b (is_white c) s t.
Proof. exact pawn_attacks_testbit. Qed.
Check C16_pawn_attacks : forall s t c bl, s < 64 -> t < 64 ->
  N.testbit (get_pawn_attacks s c bl) t
  = N.testbit bl t && ((Z.abs (fileZ s - fileZ t) =? 1) && (rankZ t =? rankZ s + fwd (is_white c)))%Z.
Print Assumptions C16_pawn_attacks.

Theorem C16_pawn_attacks_tab : forall s t c bl,
  N.testbit (get_pawn_attacks s c bl) t = N.testbit bl t && N.testbit (pawn_attack_tab (is_white c) s) t.
Proof. exact pawn_attacks_testbit_tab. Qed.
Check C16_pawn_attacks_tab : forall s t c bl,
  N.testbit (get_pawn_attacks s c bl) t = N.testbit bl t && N.testbit (pawn_attack_tab (is_white c) s) t.
Print Assumptions C16_pawn_attacks_tab.

Theorem C16_pawn_attacks_white : forall s t bl, s < 64 -> t < 64 ->
  N.testbit (get_pawn_attacks s White bl) t = true <->
  N.testbit bl t = true /\ ((t = s + 7 /\ sq_file s <> 0) \/ (t = s + 9 /\ sq_file s <> 7)).
Proof. exact pawn_attacks_white. Qed.
Check C16_pawn_attacks_white : forall s t bl, s < 64 -> t < 64 ->
  N.testbit (get_pawn_attacks s White bl) t = true <->
  N.testbit bl t = true /\ ((t = s + 7 /\ sq_file s <> 0) \/ (t = s + 9 /\ sq_file s <> 7)).
Print Assumptions C16_pawn_attacks_white.

Theorem C16_pawn_attacks_black : forall s t bl, s < 64 -> t < 64 ->
  N.testbit (get_pawn_attacks s Black bl) t = true <->
  N.testbit bl t = true /\ ((s = t + 9 /\ sq_file s <> 0) \/ (s = t + 7 /\ sq_file s <> 7)).
Proof. exact pawn_attacks_black. Qed.
Check C16_pawn_attacks_black : forall s t bl, s < 64 -> t < 64 ->
  N.testbit (get_pawn_attacks s Black bl) t = true <->
  N.testbit bl t = true /\ ((s = t + 9 /\ sq_file s <> 0) \/ (s = t + 7 /\ sq_file s <> 7)).
Print Assumptions C16_pawn_attacks_black.

(** single step iff the square ahead is empty; double step only from the colour's second
    rank and only if both squares are empty.  [ahead w s] = the square 8*fwd ahead of [s]. *)
Theorem C16_pawn_quiets : forall s t c bl, s < 64 -> t < 64 ->
  N.testbit (get_pawn_quiets s c bl) t = true <->
    (Z.of_N t = Z.of_N s + 8 * fwd (is_white c) /\ N.testbit bl t = false)%Z
    \/ (sq_rank s = second_rk c /\ (Z.of_N t = Z.of_N s + 16 * fwd (is_white c))%Z
        /\ N.testbit bl (ahead (is_white c) s) = false /\ N.testbit bl t = false).
Proof. exact pawn_quiets_iff. Qed.
Check C16_pawn_quiets : forall s t c bl, s < 64 -> t < 64 ->
  N.testbit (get_pawn_quiets s c bl) t = true <->
    (Z.of_N t = Z.of_N s + 8 * fwd (is_white c) /\ N.testbit bl t = false)%Z
    \/ (sq_rank s = second_rk c /\ (Z.of_N t = Z.of_N s + 16 * fwd (is_white c))%Z
        /\ N.testbit bl (Z.to_N (Z.of_N s + 8 * fwd (is_white c))) = false /\ N.testbit bl t = false).
Print Assumptions C16_pawn_quiets.

Theorem C16_pawn_quiets_white : forall s t bl, s < 64 -> t < 64 ->
  N.testbit (get_pawn_quiets s White bl) t = true <->
    (t = s + 8 /\ N.testbit bl t = false)
    \/ (sq_rank s = 1 /\ t = s + 16 /\ N.testbit bl (s + 8) = false /\ N.testbit bl t = false).
Proof. exact pawn_quiets_white. Qed.
Check C16_pawn_quiets_white : forall s t bl, s < 64 -> t < 64 ->
  N.testbit (get_pawn_quiets s White bl) t = true <->
    (t = s + 8 /\ N.testbit bl t = false)
    \/ (sq_rank s = 1 /\ t = s + 16 /\ N.testbit bl (s + 8) = false /\ N.testbit bl t = false).
Print Assumptions C16_pawn_quiets_white.

Theorem C16_pawn_quiets_black : forall s t bl, s < 64 -> t < 64 ->
  N.testbit (get_pawn_quiets s Black bl) t = true <->
    (s = t + 8 /\ N.testbit bl t = false)
    \/ (sq_rank s = 6 /\ s = t + 16 /\ N.testbit bl (t + 8) = false /\ N.testbit bl t = false).
Proof. exact pawn_quiets_black. Qed.
Check C16_pawn_quiets_black : forall s t bl, s < 64 -> t < 64 ->
  N.testbit (get_pawn_quiets s Black bl) t = true <->
    (s = t + 8 /\ N.testbit bl t = false)
    \/ (sq_rank s = 6 /\ s = t + 16 /\ N.testbit bl (t + 8) = false /\ N.testbit bl t = false).
Print Assumptions C16_pawn_quiets_black.

(** on the last rank the code reads the blocker bit of the WRAPPED square (opposite back
    rank, same file) but returns the empty word in both branches *)
Theorem C16_pawn_quiets_last_rank : forall s c bl, s < 64 -> sq_rank s = my_backrank (opp c) ->
  get_pawn_quiets s c bl = 0
  /\ uforward c s = match c with White => s - 56 | Black => s + 56 end.
Proof. exact pawn_quiets_last_rank. Qed.
Check C16_pawn_quiets_last_rank : forall s c bl, s < 64 -> sq_rank s = my_backrank (opp c) ->
  get_pawn_quiets s c bl = 0
  /\ uforward c s = match c with White => s - 56 | Black => s + 56 end.
Print Assumptions C16_pawn_quiets_last_rank.

(** neither accessor ever sets a bit outside the board *)
Theorem C16_pawn_attacks_high : forall s t c bl, 64 <= t -> N.testbit (get_pawn_attacks s c bl) t = false.
Proof. exact pawn_attacks_high. Qed.
Check C16_pawn_attacks_high : forall s t c bl, 64 <= t -> N.testbit (get_pawn_attacks s c bl) t = false.
Print Assumptions C16_pawn_attacks_high.
Theorem C16_pawn_quiets_high : forall s t c bl, 64 <= t -> N.testbit (get_pawn_quiets s c bl) t = false.
Proof. exact pawn_quiets_high. Qed.
Check C16_pawn_quiets_high : forall s t c bl, 64 <= t -> N.testbit (get_pawn_quiets s c bl) t = false.
Print Assumptions C16_pawn_quiets_high.

(** moves = attacks xor quiets, the two are disjoint, so xor = union *)
Theorem C16_pawn_attacks_quiets_disjoint : forall s c bl,
  N.land (get_pawn_attacks s c bl) (get_pawn_quiets s c bl) = 0.
Proof. exact pawn_attacks_quiets_disjoint. Qed.
Check C16_pawn_attacks_quiets_disjoint : forall s c bl,
  N.land (get_pawn_attacks s c bl) (get_pawn_quiets s c bl) = 0.
Print Assumptions C16_pawn_attacks_quiets_disjoint.

Theorem C16_pawn_moves_union : forall s c bl,
  get_pawn_moves s c bl = N.lor (get_pawn_attacks s c bl) (get_pawn_quiets s c bl).
Proof. exact pawn_moves_union. Qed.
Check C16_pawn_moves_union : forall s c bl,
  get_pawn_moves s c bl = N.lor (get_pawn_attacks s c bl) (get_pawn_quiets s c bl).
Print Assumptions C16_pawn_moves_union.

Theorem C16_pawn_moves : forall s t c bl,
  N.testbit (get_pawn_moves s c bl) t
  = N.testbit (get_pawn_attacks s c bl) t || N.testbit (get_pawn_quiets s c bl) t.
Proof. exact pawn_moves_testbit. Qed.
Check C16_pawn_moves : forall s t c bl,
  N.testbit (get_pawn_moves s c bl) t
  = N.testbit (get_pawn_attacks s c bl) t || N.testbit (get_pawn_quiets s c bl) t.
Print Assumptions C16_pawn_moves.
