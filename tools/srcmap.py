#!/usr/bin/env python3
"""srcmap.py -- checked source map between the public API of the Rust library
(jordanbray/chess) and its hand-written Coq model.

Modes
  python3 tools/srcmap.py check        [--repo /repo] [--map FILE] [--coq DIR] [--json]
  python3 tools/srcmap.py fingerprints [--repo /repo]

`fingerprints` prints "<rust path> <sha>" for every extracted function.
`check` compares the extraction with checklib/srcmap.json and reports
  unmapped : functions present in the source, absent from the map
  stale    : map entries whose function no longer exists
  changed  : map entries whose fingerprint differs from the recorded one
  dangling : entries of kind "transcribed" that name no Model.<File>.<definition>, and
             entries (any kind) naming a <Dir>.<File>.<name> that is not defined in
             coq/<Dir>/<File>.v (Dir = Model, Spec, Gen, Base, Proofs)
The exit code is 0 unless the map file is unreadable (informational tool).

What is extracted (from <repo>/src/*.rs and <repo>/src/movegen/*.rs, files listed in
the map's "ignored_files" excluded; without a map: src/build.rs and src/gen_tables/*):
  * every `pub fn` (free or in an inherent impl), and also   src/f.rs::Type::name
    the few private `fn`s (helpers the pub fns call)         src/f.rs::name
  * every method of an `impl Trait for Type` block           src/f.rs::impl Trait for Type::name
  * every trait method that has a default body               src/f.rs::trait Trait::name
  * the operator impls of BitBoard, one entry per family     src/bitboard.rs::impl BitAnd family
    (BitAnd+BitAndAssign, BitOr+BitOrAssign, BitXor+BitXorAssign, Mul, Not; all
     receiver forms): the fingerprint covers every method of the family in source order
Items under #[cfg(test)] or #[test] are skipped.  Functions nested inside a function
body are part of the enclosing function's text, not entries of their own.

Fingerprint = first 16 hex digits of SHA-256 of the function text (from its `pub`/`fn`
keyword to the matching closing brace) after normalisation: `//` comments (incl. `///`
and `//!`) removed, every whitespace run collapsed to one space, trimmed.  Comment
markers inside string / char literals are not comments.  Block comments are kept.
"""
import sys, os, re, json, hashlib, glob

HERE = os.path.dirname(os.path.abspath(__file__))
ROOT = os.path.dirname(HERE)
DEFAULT_MAP = os.path.join(ROOT, "checklib", "srcmap.json")
DEFAULT_COQ = os.path.join(ROOT, "coq")
DEFAULT_IGNORED = ["src/build.rs", "src/gen_tables/*.rs"]
KINDS = ["transcribed", "tabulated", "table", "spec-only", "trivial", "unmodelled"]

# operator families of BitBoard: one map entry per family
FAMILY_FILE = "src/bitboard.rs"
FAMILIES = {
    "BitAnd": "BitAnd", "BitAndAssign": "BitAnd",
    "BitOr": "BitOr", "BitOrAssign": "BitOr",
    "BitXor": "BitXor", "BitXorAssign": "BitXor",
    "Mul": "Mul", "Not": "Not",
}


# ----------------------------------------------------------------------------- lexing
def lex(text):
    """Return (code, nocomment).
    code      : same length as text; comments, string and char literal *contents*
                replaced by spaces (newlines kept) -- used for structure.
    nocomment : same length as text; only `//` line comments blanked -- used for
                the fingerprint."""
    n = len(text)
    code = list(text)
    noc = list(text)
    i = 0

    def blank(arr, a, b):
        for k in range(a, b):
            if arr[k] != "\n":
                arr[k] = " "

    while i < n:
        c = text[i]
        if c == "/" and i + 1 < n and text[i + 1] == "/":
            j = text.find("\n", i)
            if j < 0:
                j = n
            blank(code, i, j)
            blank(noc, i, j)
            i = j
        elif c == "/" and i + 1 < n and text[i + 1] == "*":
            depth, j = 1, i + 2
            while j < n and depth:
                if text.startswith("/*", j):
                    depth += 1
                    j += 2
                elif text.startswith("*/", j):
                    depth -= 1
                    j += 2
                else:
                    j += 1
            blank(code, i, j)
            i = j
        elif c == '"' or (c in "rb" and re.match(r'(?:b?r#*"|b")', text[i:i + 8])
                          and (i == 0 or not (text[i - 1].isalnum() or text[i - 1] == "_"))):
            m = re.match(r'(b?)(r?)(#*)"', text[i:i + 80])
            raw, hashes = (m.group(2) == "r"), m.group(3)
            if not raw and hashes:          # not a string after all (e.g. `b#`): skip char
                i += 1
                continue
            j = i + m.end()
            if raw:
                end = text.find('"' + hashes, j)
                end = n if end < 0 else end
                blank(code, j, end)
                i = end + 1 + len(hashes)
            else:
                while j < n and text[j] != '"':
                    j += 2 if text[j] == "\\" else 1
                blank(code, i + m.end(), min(j, n))
                i = j + 1
        elif c == "'":
            if i + 1 < n and text[i + 1] == "\\":          # escaped char literal
                j = i + 2
                j += 1                                       # the escaped char
                while j < n and text[j] != "'":
                    j += 1
                blank(code, i + 1, min(j, n))
                i = j + 1
            elif i + 2 < n and text[i + 2] == "'":          # plain char literal
                blank(code, i + 1, i + 2)
                i += 3
            else:                                            # lifetime
                i += 1
        else:
            i += 1
    return "".join(code), "".join(noc)


def match_close(code, i, op, cl):
    """code[i] == op; index of the matching closer (or len(code)-1)."""
    depth = 0
    n = len(code)
    while i < n:
        ch = code[i]
        if ch == op:
            depth += 1
        elif ch == cl:
            depth -= 1
            if depth == 0:
                return i
        i += 1
    return n - 1


def normalise(s):
    return re.sub(r"\s+", " ", s).strip()


def sha16(s):
    return hashlib.sha256(s.encode("utf-8")).hexdigest()[:16]


# ----------------------------------------------------------------------------- headers
def strip_angle(s):
    """s starts with '<': return the rest after the matching '>' (-> is not a closer)."""
    depth, i = 0, 0
    while i < len(s):
        if s[i] == "<":
            depth += 1
        elif s[i] == ">" and (i == 0 or s[i - 1] != "-"):
            depth -= 1
            if depth == 0:
                return s[i + 1:]
        i += 1
    return ""


def split_top(s, word):
    """split s at the first occurrence of ` word ` outside <...>/(...)."""
    depth = 0
    for m in re.finditer(r"[<>()\[\]]|\b%s\b" % word, s):
        t = m.group(0)
        if t in "<([":
            depth += 1
        elif t in ")]" or (t == ">" and s[m.start() - 1:m.start()] != "-"):
            depth -= 1
        elif t == word and depth == 0:
            return s[:m.start()].strip(), s[m.end():].strip()
    return None


def strip_generics(ty):
    """Foo<T> -> Foo ; &'a Foo<T> kept with the reference."""
    i = ty.find("<")
    return ty if i < 0 else ty[:i].strip()


def parse_impl(header):
    """header: normalised text `impl<..> [Trait for] Type [where ..]` -> (trait|None, type)."""
    h = re.sub(r"^\s*(unsafe\s+)?impl\b", "", header).strip()
    if h.startswith("<"):
        h = strip_angle(h).strip()
    w = split_top(h, "where")
    if w:
        h = w[0]
    tf = split_top(h, "for")
    if tf:
        # `fmt::Display` -> `Display` (leading module path of the trait dropped)
        return re.sub(r"^(\w+::)+", "", normalise(tf[0])), normalise(tf[1])
    return None, normalise(h)


# ----------------------------------------------------------------------------- items
class Fn(object):
    __slots__ = ("file", "ctx", "ctxname", "trait", "name", "pub", "text", "line")


def parse_items(code, noc, lo, hi, file, ctx, out):
    """Scan the items of code[lo:hi].  ctx = ("file",) | ("impl", trait, type) | ("trait", name)."""
    i = lo
    while i < hi:
        # skip whitespace
        while i < hi and code[i].isspace():
            i += 1
        if i >= hi:
            break
        # attributes
        attrs = []
        while code.startswith("#", i):
            j = i + 1
            if code.startswith("!", j):
                j += 1
            if not code.startswith("[", j):
                break
            k = match_close(code, j, "[", "]")
            attrs.append(normalise(code[i:k + 1]))
            i = k + 1
            while i < hi and code[i].isspace():
                i += 1
        if i >= hi:
            break
        start = i
        # header: up to the first `;` or `{` outside () and []
        depth = 0
        j = i
        while j < hi:
            ch = code[j]
            if ch in "([":
                depth += 1
            elif ch in ")]":
                depth -= 1
            elif depth <= 0 and ch in ";{":
                break
            elif depth <= 0 and ch == "}":       # stray closer: stop this block
                break
            j += 1
        if j >= hi:
            break
        header = normalise(code[start:j])
        if code[j] == "}":
            i = j + 1
            continue
        if code[j] == ";":
            i = j + 1
            continue
        close = match_close(code, j, "{", "}")
        is_test = any(re.search(r"#!?\[\s*cfg\s*\(.*\btest\b", a) or re.match(r"#\[\s*test\s*\]", a)
                      for a in attrs)
        hm = re.sub(r"^(pub(\s*\([^)]*\))?\s+)?", "", header)
        fm = re.match(r"^((?:pub(?:\s*\([^)]*\))?\s+)?(?:default\s+)?(?:const\s+)?(?:async\s+)?(?:unsafe\s+)?"
                      r"(?:extern\s*(?:\"[^\"]*\"|\s)\s*)?)fn\s+([A-Za-z_][A-Za-z0-9_]*)", header)
        nxt = close + 1
        if fm:
            if not is_test:
                f = Fn()
                f.file, f.name, f.line = file, fm.group(2), code.count("\n", 0, start) + 1
                f.pub = header.startswith("pub")
                f.ctx = ctx[0]
                f.trait = ctx[1] if ctx[0] == "impl" else None
                f.ctxname = ctx[2] if ctx[0] == "impl" else (ctx[1] if ctx[0] == "trait" else None)
                f.text = normalise(noc[start:close + 1])
                out.append(f)
        elif re.match(r"^(unsafe\s+)?impl\b", hm):
            if not is_test:
                tr, ty = parse_impl(hm)
                parse_items(code, noc, j + 1, close, file, ("impl", tr, ty), out)
        elif re.match(r"^mod\s+\w+", hm):
            if not is_test:
                parse_items(code, noc, j + 1, close, file, ctx, out)
        elif re.match(r"^(unsafe\s+)?trait\s+\w+", hm):
            if not is_test:
                name = re.match(r"^(?:unsafe\s+)?trait\s+(\w+)", hm).group(1)
                parse_items(code, noc, j + 1, close, file, ("trait", name), out)
        elif re.match(r"^(const|static)\b", hm):
            # `const X: T = S { .. };` : run on to the terminating `;`
            k = close + 1
            d = 0
            while k < hi:
                ch = code[k]
                if ch in "([{":
                    d += 1
                elif ch in ")]}":
                    d -= 1
                elif ch == ";" and d <= 0:
                    break
                k += 1
            nxt = k + 1
        # struct / enum / union / macro_rules! / extern blocks / macro invocations: skipped
        i = nxt


def source_files(repo, ignored):
    pats = [os.path.join(repo, "src", "*.rs"), os.path.join(repo, "src", "movegen", "*.rs")]
    files = []
    for p in pats:
        files.extend(sorted(glob.glob(p)))
    rels = []
    for f in files:
        rel = os.path.relpath(f, repo).replace(os.sep, "/")
        if any(_glob_match(rel, ig) for ig in ignored):
            continue
        rels.append(rel)
    return rels


def _glob_match(rel, pat):
    import fnmatch
    return fnmatch.fnmatch(rel, pat)


def extract(repo, ignored):
    """-> ordered list of (path, sha, meta)"""
    fns = []
    for rel in source_files(repo, ignored):
        with open(os.path.join(repo, rel), encoding="utf-8") as fh:
            text = fh.read()
        code, noc = lex(text)
        parse_items(code, noc, 0, len(code), rel, ("file",), fns)
    entries = []          # (path, text, line)
    fam = {}              # path -> [texts]
    order = []
    for f in fns:
        if f.ctx == "impl" and f.trait is not None:
            tname = strip_generics(f.trait)
            tyname = strip_generics(f.ctxname).lstrip("&").strip()
            tyname = re.sub(r"^'\w+\s+", "", tyname)
            if f.file == FAMILY_FILE and tname in FAMILIES and tyname == "BitBoard":
                p = "%s::impl %s family" % (f.file, FAMILIES[tname])
                if p not in fam:
                    fam[p] = []
                    order.append((p, None, f.line))
                fam[p].append("impl %s for %s :: %s" % (f.trait, f.ctxname, f.text))
                continue
            p = "%s::impl %s for %s::%s" % (f.file, f.trait, f.ctxname, f.name)
        elif f.ctx == "impl":
            p = "%s::%s::%s" % (f.file, strip_generics(f.ctxname), f.name)
        elif f.ctx == "trait":
            p = "%s::trait %s::%s" % (f.file, f.ctxname, f.name)
        else:
            p = "%s::%s" % (f.file, f.name)
        order.append((p, f.text, f.line))
    seen = {}
    for p, text, line in order:
        if text is None:
            text = " || ".join(fam[p])
        if p in seen:
            seen[p] += 1
            p = "%s#%d" % (p, seen[p])
        else:
            seen[p] = 1
        entries.append((p, sha16(text), line))
    return entries


# ----------------------------------------------------------------------------- Coq side
_coq_cache = {}


def coq_defs(path):
    if path not in _coq_cache:
        names = set()
        try:
            with open(path, encoding="utf-8") as fh:
                txt = fh.read()
            for m in re.finditer(r"(?m)^\s*(?:Local\s+|Global\s+|#\[[^\]]*\]\s*)*"
                                 r"(?:Definition|Fixpoint|Record|Inductive|Function|CoFixpoint|Variant|Notation|Lemma|Theorem)"
                                 r"\s+([A-Za-z_][A-Za-z0-9_']*)", txt):
                names.add(m.group(1))
            # `with` clauses of mutual fixpoints and record fields are not needed here
        except (IOError, OSError):
            names = None
        _coq_cache[path] = names
    return _coq_cache[path]


COQ_REF = re.compile(r"\b(Model|Spec|Gen|Base|Proofs)\.([A-Za-z0-9_]+)\.([A-Za-z_][A-Za-z0-9_']*)")


def dangling_refs(entry, coqdir):
    """Kind transcribed: "model" must name at least one Model.<File>.<name>.  Every kind:
    each <Dir>.<File>.<name> (Dir = Model, Spec, Gen, Base, Proofs) written in "model" or
    "note" must be a Definition / Fixpoint / Record / Inductive / Lemma / Theorem of
    coq/<Dir>/<File>.v (textual search; nothing is compiled)."""
    bad = []
    refs = COQ_REF.findall(entry.get("model", ""))
    if entry.get("kind") == "transcribed" and not any(r[0] == "Model" for r in refs):
        bad.append("(no Model.<File>.<name> reference)")
    refs = refs + COQ_REF.findall(entry.get("note", ""))
    for d, f, name in refs:
        defs = coq_defs(os.path.join(coqdir, d, f + ".v"))
        if defs is None:
            bad.append("%s.%s.%s (no such file)" % (d, f, name))
        elif name not in defs:
            bad.append("%s.%s.%s" % (d, f, name))
    return bad


# ----------------------------------------------------------------------------- main
def main(argv):
    if len(argv) < 2 or argv[1] not in ("check", "fingerprints"):
        sys.stderr.write(__doc__)
        return 0
    mode = argv[1]
    repo, mapfile, coqdir, as_json = "/repo", DEFAULT_MAP, DEFAULT_COQ, False
    args = argv[2:]
    while args:
        a = args.pop(0)
        if a == "--repo" and args:
            repo = args.pop(0)
        elif a == "--map" and args:
            mapfile = args.pop(0)
        elif a == "--coq" and args:
            coqdir = args.pop(0)
        elif a == "--json":
            as_json = True
        else:
            sys.stderr.write("unknown argument: %s\n" % a)
    smap = None
    try:
        with open(mapfile, encoding="utf-8") as fh:
            smap = json.load(fh)
        if not isinstance(smap, dict) or not isinstance(smap.get("functions"), dict):
            raise ValueError('no "functions" object')
    except Exception as e:                                    # noqa
        if mode == "check":
            sys.stderr.write("srcmap: cannot read map %s: %s\n" % (mapfile, e))
            return 2
        smap = None
    ignored = smap.get("ignored_files", DEFAULT_IGNORED) if smap else DEFAULT_IGNORED
    entries = extract(repo, ignored)

    if mode == "fingerprints":
        for p, s, _ in entries:
            print("%s %s" % (p, s))
        return 0

    funcs = smap["functions"]
    src = {p: s for p, s, _ in entries}
    unmapped = [p for p, _, _ in entries if p not in funcs]
    stale = sorted(p for p in funcs if p not in src)
    changed = [p for p, s, _ in entries if p in funcs and funcs[p].get("sha") != s]
    dangling = []
    counts = {}
    badkind = []
    for p in sorted(funcs):
        e = funcs[p]
        k = e.get("kind", "?")
        counts[k] = counts.get(k, 0) + 1
        if k not in KINDS:
            badkind.append(p)
        for b in dangling_refs(e, coqdir):
            dangling.append("%s -> %s" % (p, b))
    counts_out = {k: counts.get(k, 0) for k in KINDS if counts.get(k, 0) or k != "spec-only"}
    for k in counts:
        if k not in counts_out:
            counts_out[k] = counts[k]
    counts_out["total"] = len(funcs)
    counts_out["extracted"] = len(entries)
    if as_json:
        print(json.dumps({"counts": counts_out, "unmapped": unmapped, "stale": stale,
                          "changed": changed, "dangling": dangling}, indent=1, sort_keys=True))
        return 0
    print("srcmap: %d map entries, %d functions extracted from %s" % (len(funcs), len(entries), repo))
    for k in counts_out:
        if k not in ("total", "extracted"):
            print("  %-12s %4d" % (k, counts_out[k]))
    for title, lst in (("unmapped", unmapped), ("stale", stale), ("changed", changed), ("dangling", dangling)):
        print("%s: %d" % (title, len(lst)))
        for x in lst:
            print("  " + x)
    if badkind:
        print("unknown kind: %d" % len(badkind))
        for x in badkind:
            print("  " + x)
    return 0


if __name__ == "__main__":
    sys.exit(main(sys.argv))
