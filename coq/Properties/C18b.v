(** * C18b — property C18 for every board reached by play: passing the turn is refused exactly
    when the side to move is in check (in the sense of the specification); otherwise the
    result is the from-scratch board of the passed position: same placement and castling
    rights, the other side to move, no en-passant state, and check, pin and hash information
    identical to the same position built from scratch.

    Vocabulary ([Proofs/CorAReach.v]):
    - [from_scratch p] ([Model.Board]): the board the library builds for the specification
      position [p]; [abs_board b]: the specification position a board shows.
    - [ReachGen p0 b]: [b] is reached from [from_scratch p0] by any finite sequence of
      (i) moves [c] that the library's own generator produced on the current board
      ([In c (moves_of b)], applied by [make_move_new] = [Board::make_move_new]) and
      (ii) null moves that [Board::null_move] accepted.  The definition does not mention the
      specification.  For a valid [p0] it coincides with [StepCanon.ReachLib p0] (moves taken
      from the specification's [legal_moves]): [C01c_reachgen_iff_reachlib].
    - [pos_valid] ([Spec.Rules]): the valid positions.
    - [pass p] ([Spec.Rules]): the rules' passing of the turn. *)
From Coq Require Import NArith List Bool Permutation.
From Chess Require Import Base.Bits Spec.Geometry Spec.Rules Model.Board Model.MoveGen.
From Chess Require Import Proofs.AbsBoard Proofs.NullMove Proofs.GenWF Proofs.StepCanon Proofs.SpecInvGoals Proofs.CorAReach.
Import ListNotations.
Open Scope N_scope.

(** refused exactly when in check *)
Theorem C18b_refused_iff : forall p0 b, pos_valid p0 = true -> ReachGen p0 b ->
  (null_move b = None <-> in_check (abs_board b) (stm b) = true).
Proof. exact c18b_refused_iff. Qed.
Check C18b_refused_iff : forall p0 b, pos_valid p0 = true -> ReachGen p0 b ->
  (null_move b = None <-> in_check (abs_board b) (stm b) = true).
Print Assumptions C18b_refused_iff.

(** accepted exactly when not in check *)
Theorem C18b_accepted_iff : forall p0 b, pos_valid p0 = true -> ReachGen p0 b ->
  ((exists b', null_move b = Some b') <-> in_check (abs_board b) (stm b) = false).
Proof. exact c18b_accepted_iff. Qed.
Check C18b_accepted_iff : forall p0 b, pos_valid p0 = true -> ReachGen p0 b ->
  ((exists b', null_move b = Some b') <-> in_check (abs_board b) (stm b) = false).
Print Assumptions C18b_accepted_iff.

(** the result is the from-scratch board of the passed position (and is reached again) *)
Theorem C18b_result : forall p0 b b', pos_valid p0 = true -> ReachGen p0 b -> null_move b = Some b' ->
  b' = from_scratch (pass (abs_board b)) /\ abs_board b' = pass (abs_board b) /\ ReachGen p0 b'.
Proof. exact c18b_result. Qed.
Check C18b_result : forall p0 b b', pos_valid p0 = true -> ReachGen p0 b -> null_move b = Some b' ->
  b' = from_scratch (pass (abs_board b)) /\ abs_board b' = pass (abs_board b) /\ ReachGen p0 b'.
Print Assumptions C18b_result.

(** field by field *)
Theorem C18b_result_fields : forall p0 b b', pos_valid p0 = true -> ReachGen p0 b -> null_move b = Some b' ->
  placement (abs_board b') = placement (abs_board b) /\ stm b' = opp (stm b) /\ epsq b' = None /\
  wk (abs_board b') = wk (abs_board b) /\ wq (abs_board b') = wq (abs_board b) /\
  bk (abs_board b') = bk (abs_board b) /\ bq (abs_board b') = bq (abs_board b) /\
  get_hash b' = get_hash (from_scratch (pass (abs_board b))) /\
  pinned b' = pinned (from_scratch (pass (abs_board b))) /\
  checkers b' = checkers (from_scratch (pass (abs_board b))).
Proof. exact c18b_result_fields. Qed.
Check C18b_result_fields : forall p0 b b', pos_valid p0 = true -> ReachGen p0 b -> null_move b = Some b' ->
  placement (abs_board b') = placement (abs_board b) /\ stm b' = opp (stm b) /\ epsq b' = None /\
  wk (abs_board b') = wk (abs_board b) /\ wq (abs_board b') = wq (abs_board b) /\
  bk (abs_board b') = bk (abs_board b) /\ bq (abs_board b') = bq (abs_board b) /\
  get_hash b' = get_hash (from_scratch (pass (abs_board b))) /\
  pinned b' = pinned (from_scratch (pass (abs_board b))) /\
  checkers b' = checkers (from_scratch (pass (abs_board b))).
Print Assumptions C18b_result_fields.
