(** * Property C10 — Game protocol: moves are accepted iff legal and the game is open; the
    log grows by exactly the accepted action; results are final and name the right outcome.

    Model: [Model/Game.v] (transcription of src/game.rs).  Lemmas: [Proofs/GameBase.v],
    [Proofs/GameProtocol.v]; examples in [Proofs/GameExamples.v].

    Interface assumption about [Board], explicit in every theorem that needs it:
    [StepClosed Inv] — a predicate [Inv] on boards such that every move that [legal] accepts on
    an [Inv]-board can be applied ([make_move_new] does not panic) and leads to an [Inv]-board.
    The theorems hold for every such [Inv] and every start board satisfying it
    ([Proofs/GameExamples.v] exhibits one).  [Reachable b0 g]: [g] is obtained from
    [Game::new_with_board b0] by any sequence of calls of the five mutating operations with
    any arguments. *)
From Coq Require Import NArith List.
From Chess Require Import Model.Game Proofs.GameBase Proofs.GameScan Proofs.GameProtocol.
Import ListNotations.
Open Scope N_scope.

(** ** 1. No panic *)
Theorem C10_no_panic : forall Inv, StepClosed Inv -> forall b0 g, Inv b0 -> Reachable b0 g ->
  (exists b, current_position g = Some b /\ Inv b) /\
  (exists r, result g = Some r) /\
  (exists d, can_declare_draw g = Some d) /\
  (forall o, exists f g', apply_op g o = Some (f,g')).
Proof. exact no_panic. Qed.
Check C10_no_panic : forall Inv, StepClosed Inv -> forall b0 g, Inv b0 -> Reachable b0 g ->
  (exists b, current_position g = Some b /\ Inv b) /\
  (exists r, result g = Some r) /\
  (exists d, can_declare_draw g = Some d) /\
  (forall o, exists f g', apply_op g o = Some (f,g')).
Print Assumptions C10_no_panic.

Theorem C10_runs_never_panic : forall Inv, StepClosed Inv -> forall b0 g ops, Inv b0 -> Reachable b0 g ->
  exists g', run g ops = Some g' /\ Reachable b0 g'.
Proof. exact run_total. Qed.
Check C10_runs_never_panic : forall Inv, StepClosed Inv -> forall b0 g ops, Inv b0 -> Reachable b0 g ->
  exists g', run g ops = Some g' /\ Reachable b0 g'.
Print Assumptions C10_runs_never_panic.

Theorem C10_reachable_iff_run : forall b0 g,
  Reachable b0 g <-> exists ops, run (new_with_board b0) ops = Some g.
Proof. exact Reachable_iff_run. Qed.
Check C10_reachable_iff_run : forall b0 g,
  Reachable b0 g <-> exists ops, run (new_with_board b0) ops = Some g.
Print Assumptions C10_reachable_iff_run.

(** ** 2. Moves are accepted iff the game is open and the move is legal *)
Theorem C10_make_move : forall Inv, StepClosed Inv -> forall b0 g m, Inv b0 -> Reachable b0 g ->
  exists b, current_position g = Some b /\
    (forall g', g_make_move g m = Some (true, g') <->
       has_result g = Some false /\ legal b m = true /\ g' = push_action g (MakeMove m)) /\
    (~ (has_result g = Some false /\ legal b m = true) -> g_make_move g m = Some (false, g)) /\
    (legal b m = true -> exists b', mm b m = Some b' /\
       current_position (push_action g (MakeMove m)) = Some b' /\ stm b' = opp (stm b)).
Proof. exact reachable_make_move. Qed.
Check C10_make_move : forall Inv, StepClosed Inv -> forall b0 g m, Inv b0 -> Reachable b0 g ->
  exists b, current_position g = Some b /\
    (forall g', g_make_move g m = Some (true, g') <->
       has_result g = Some false /\ legal b m = true /\ g' = push_action g (MakeMove m)) /\
    (~ (has_result g = Some false /\ legal b m = true) -> g_make_move g m = Some (false, g)) /\
    (legal b m = true -> exists b', mm b m = Some b' /\
       current_position (push_action g (MakeMove m)) = Some b' /\ stm b' = opp (stm b)).
Print Assumptions C10_make_move.

(** every operation at once: accepted (appending its action) iff open and enabled, else
    refused with the game unchanged.  [op_enabled g b o] is: [legal b m] for a move, [True]
    for an offer or a resignation, [offer_pending g (opp (side_to_move g))] for an acceptance,
    [100 <= clock_g g \/ 3 <= repetitions g b] for a draw claim. *)
Theorem C10_protocol : forall Inv, StepClosed Inv -> forall b0 g, Inv b0 -> Reachable b0 g ->
  exists b, current_position g = Some b /\ Inv b /\ side_to_move g = stm b /\
    forall o,
      (forall g', apply_op g o = Some (true, g') <->
         has_result g = Some false /\ op_enabled g b o /\ g' = push_action g (op_action o)) /\
      (~ (has_result g = Some false /\ op_enabled g b o) -> apply_op g o = Some (false, g)).
Proof. exact reachable_protocol. Qed.
Check C10_protocol : forall Inv, StepClosed Inv -> forall b0 g, Inv b0 -> Reachable b0 g ->
  exists b, current_position g = Some b /\ Inv b /\ side_to_move g = stm b /\
    forall o,
      (forall g', apply_op g o = Some (true, g') <->
         has_result g = Some false /\ op_enabled g b o /\ g' = push_action g (op_action o)) /\
      (~ (has_result g = Some false /\ op_enabled g b o) -> apply_op g o = Some (false, g)).
Print Assumptions C10_protocol.

(** ** 3. Log semantics *)
Theorem C10_position_is_replay : forall Inv, StepClosed Inv -> forall b0 g, Inv b0 -> Reachable b0 g ->
  start_pos g = b0 /\ current_position g = play b0 (actions g).
Proof. exact reachable_replay. Qed.
Check C10_position_is_replay : forall Inv, StepClosed Inv -> forall b0 g, Inv b0 -> Reachable b0 g ->
  start_pos g = b0 /\ current_position g = play b0 (actions g).
Print Assumptions C10_position_is_replay.

Theorem C10_replay_append : forall b l l',
  play b (l ++ l') = match play b l with Some b' => play b' l' | None => None end.
Proof. exact play_app. Qed.
Check C10_replay_append : forall b l l',
  play b (l ++ l') = match play b l with Some b' => play b' l' | None => None end.
Print Assumptions C10_replay_append.

Theorem C10_position_after_move : forall g m,
  current_position (push_action g (MakeMove m)) =
  match current_position g with Some b => mm b m | None => None end.
Proof. exact current_position_push_move. Qed.
Check C10_position_after_move : forall g m,
  current_position (push_action g (MakeMove m)) =
  match current_position g with Some b => mm b m | None => None end.
Print Assumptions C10_position_after_move.

Theorem C10_position_after_other : forall g a,
  is_move a = false -> current_position (push_action g a) = current_position g.
Proof. exact current_position_push_other. Qed.
Check C10_position_after_other : forall g a,
  is_move a = false -> current_position (push_action g a) = current_position g.
Print Assumptions C10_position_after_other.

Theorem C10_move_flips_turn : forall b m b', mm b m = Some b' -> stm b' = opp (stm b).
Proof. exact mm_flips_turn. Qed.
Check C10_move_flips_turn : forall b m b', mm b m = Some b' -> stm b' = opp (stm b).
Print Assumptions C10_move_flips_turn.

Theorem C10_side_to_move : forall g b, current_position g = Some b -> side_to_move g = stm b.
Proof. exact side_to_move_correct. Qed.
Check C10_side_to_move : forall g b, current_position g = Some b -> side_to_move g = stm b.
Print Assumptions C10_side_to_move.

(** the log only ever grows by exactly the accepted action *)
Theorem C10_log_growth : forall g o f g', apply_op g o = Some (f,g') ->
  (f = false /\ g' = g) \/
  (f = true /\ g' = push_action g (op_action o) /\ has_result g = Some false).
Proof. exact op_shape. Qed.
Check C10_log_growth : forall g o f g', apply_op g o = Some (f,g') ->
  (f = false /\ g' = g) \/
  (f = true /\ g' = push_action g (op_action o) /\ has_result g = Some false).
Print Assumptions C10_log_growth.

(** every move in the log of a reachable game was legal on the board it was played on *)
Theorem C10_logged_moves_legal : forall Inv, StepClosed Inv -> forall b0 g, Inv b0 -> Reachable b0 g ->
  forall l1 m l2 bl, actions g = l1 ++ MakeMove m :: l2 -> play b0 l1 = Some bl -> legal bl m = true.
Proof. exact reachable_log_legal. Qed.
Check C10_logged_moves_legal : forall Inv, StepClosed Inv -> forall b0 g, Inv b0 -> Reachable b0 g ->
  forall l1 m l2 bl, actions g = l1 ++ MakeMove m :: l2 -> play b0 l1 = Some bl -> legal bl m = true.
Print Assumptions C10_logged_moves_legal.

(** ** 4. Finality *)
Theorem C10_finished_refuses : forall g o, has_result g = Some true -> apply_op g o = Some (false, g).
Proof. exact finished_refuses. Qed.
Check C10_finished_refuses : forall g o, has_result g = Some true -> apply_op g o = Some (false, g).
Print Assumptions C10_finished_refuses.

Theorem C10_finished_forever : forall g ops, has_result g = Some true -> run g ops = Some g.
Proof. exact finished_forever. Qed.
Check C10_finished_forever : forall g ops, has_result g = Some true -> run g ops = Some g.
Print Assumptions C10_finished_forever.

Theorem C10_result_final : forall g ops g' r,
  result g = Some (Some r) -> run g ops = Some g' -> g' = g /\ result g' = Some (Some r).
Proof. exact result_final. Qed.
Check C10_result_final : forall g ops g' r,
  result g = Some (Some r) -> run g ops = Some g' -> g' = g /\ result g' = Some (Some r).
Print Assumptions C10_result_final.

(** ** 5. The result names the right outcome *)
Theorem C10_result_names_outcome : forall g b r, current_position g = Some b ->
  (result g = Some (Some r) <->
   (board_status b = Checkmate /\ side_to_move g = White /\ r = BlackCheckmates) \/
   (board_status b = Checkmate /\ side_to_move g = Black /\ r = WhiteCheckmates) \/
   (board_status b = Stalemate /\ r = RStalemate) \/
   (board_status b = Ongoing /\ last_action g = Some AcceptDraw /\ r = DrawAccepted) \/
   (board_status b = Ongoing /\ last_action g = Some DeclareDraw /\ r = DrawDeclared) \/
   (board_status b = Ongoing /\ last_action g = Some (Resign White) /\ r = WhiteResigns) \/
   (board_status b = Ongoing /\ last_action g = Some (Resign Black) /\ r = BlackResigns)).
Proof. exact result_names_outcome. Qed.
Check C10_result_names_outcome : forall g b r, current_position g = Some b ->
  (result g = Some (Some r) <->
   (board_status b = Checkmate /\ side_to_move g = White /\ r = BlackCheckmates) \/
   (board_status b = Checkmate /\ side_to_move g = Black /\ r = WhiteCheckmates) \/
   (board_status b = Stalemate /\ r = RStalemate) \/
   (board_status b = Ongoing /\ last_action g = Some AcceptDraw /\ r = DrawAccepted) \/
   (board_status b = Ongoing /\ last_action g = Some DeclareDraw /\ r = DrawDeclared) \/
   (board_status b = Ongoing /\ last_action g = Some (Resign White) /\ r = WhiteResigns) \/
   (board_status b = Ongoing /\ last_action g = Some (Resign Black) /\ r = BlackResigns)).
Print Assumptions C10_result_names_outcome.

Theorem C10_result_open : forall g b, current_position g = Some b ->
  (result g = Some None <->
   board_status b = Ongoing /\
   (last_action g = None \/ (exists m, last_action g = Some (MakeMove m)) \/
    (exists c, last_action g = Some (OfferDraw c)))).
Proof. exact result_open. Qed.
Check C10_result_open : forall g b, current_position g = Some b ->
  (result g = Some None <->
   board_status b = Ongoing /\
   (last_action g = None \/ (exists m, last_action g = Some (MakeMove m)) \/
    (exists c, last_action g = Some (OfferDraw c)))).
Print Assumptions C10_result_open.

Theorem C10_resign_result : forall g c g', g_resign g c = Some (true, g') ->
  result g' = Some (Some (match c with White => WhiteResigns | Black => BlackResigns end)).
Proof. exact resign_result. Qed.
Check C10_resign_result : forall g c g', g_resign g c = Some (true, g') ->
  result g' = Some (Some (match c with White => WhiteResigns | Black => BlackResigns end)).
Print Assumptions C10_resign_result.

Theorem C10_accept_result : forall g g', g_accept_draw g = Some (true, g') -> result g' = Some (Some DrawAccepted).
Proof. exact accept_result. Qed.
Check C10_accept_result : forall g g', g_accept_draw g = Some (true, g') -> result g' = Some (Some DrawAccepted).
Print Assumptions C10_accept_result.

Theorem C10_offer_result : forall g c g', g_offer_draw g c = Some (true, g') -> result g' = Some None.
Proof. exact offer_result. Qed.
Check C10_offer_result : forall g c g', g_offer_draw g c = Some (true, g') -> result g' = Some None.
Print Assumptions C10_offer_result.

(** ** 6. Accepting a draw *)
(** [offer_pending g c]: the latest action is an offer, or the log ends with
    [OfferDraw c; MakeMove m] *)
Theorem C10_accept_draw_iff : forall g g',
  g_accept_draw g = Some (true, g') <->
  has_result g = Some false /\ g' = push_action g AcceptDraw /\
  ((exists d, last_action g = Some (OfferDraw d)) \/
   (exists l m, actions g = l ++ [OfferDraw (opp (side_to_move g)); MakeMove m])).
Proof. exact accept_accept. Qed.
Check C10_accept_draw_iff : forall g g',
  g_accept_draw g = Some (true, g') <->
  has_result g = Some false /\ g' = push_action g AcceptDraw /\
  ((exists d, last_action g = Some (OfferDraw d)) \/
   (exists l m, actions g = l ++ [OfferDraw (opp (side_to_move g)); MakeMove m])).
Print Assumptions C10_accept_draw_iff.

(** on a reachable game the offer found two actions back was made in the name of the colour
    that then made the (legal) latest move *)
Theorem C10_accept_draw_sound : forall Inv, StepClosed Inv -> forall b0 g g', Inv b0 -> Reachable b0 g ->
  g_accept_draw g = Some (true, g') ->
  has_result g = Some false /\ g' = push_action g AcceptDraw /\
  ((exists d, last_action g = Some (OfferDraw d)) \/
   (exists l m bl, actions g = l ++ [OfferDraw (stm bl); MakeMove m] /\
                   play b0 l = Some bl /\ legal bl m = true)).
Proof. exact accept_draw_sound. Qed.
Check C10_accept_draw_sound : forall Inv, StepClosed Inv -> forall b0 g g', Inv b0 -> Reachable b0 g ->
  g_accept_draw g = Some (true, g') ->
  has_result g = Some false /\ g' = push_action g AcceptDraw /\
  ((exists d, last_action g = Some (OfferDraw d)) \/
   (exists l m bl, actions g = l ++ [OfferDraw (stm bl); MakeMove m] /\
                   play b0 l = Some bl /\ legal bl m = true)).
Print Assumptions C10_accept_draw_sound.

(** ** 7. Offers and resignations succeed iff the game is open *)
Theorem C10_offer_iff : forall g c g',
  g_offer_draw g c = Some (true, g') <-> has_result g = Some false /\ g' = push_action g (OfferDraw c).
Proof. exact offer_accept. Qed.
Check C10_offer_iff : forall g c g',
  g_offer_draw g c = Some (true, g') <-> has_result g = Some false /\ g' = push_action g (OfferDraw c).
Print Assumptions C10_offer_iff.

Theorem C10_resign_iff : forall g c g',
  g_resign g c = Some (true, g') <-> has_result g = Some false /\ g' = push_action g (Resign c).
Proof. exact resign_accept. Qed.
Check C10_resign_iff : forall g c g',
  g_resign g c = Some (true, g') <-> has_result g = Some false /\ g' = push_action g (Resign c).
Print Assumptions C10_resign_iff.
