(** * Proofs.FenWellformed — property C06, part 4: the rendered text is a well-formed
    six-field FEN (the recogniser [fen_wellformed] of Spec.Text accepts it), for every
    well-formed builder state. *)
From Coq Require Import Lia ZifyBool ZifyN ZifyNat.
From Chess Require Import Base.Bits Base.Text Spec.Geometry Spec.Rules Spec.Text
  Model.Board Model.MoveGen Model.Fen Proofs.FenSplit Proofs.FenPlacement Proofs.FenRoundtrip.
Open Scope N_scope.
#[local] Arguments N.add : simpl never.
#[local] Arguments N.sub : simpl never.
#[local] Arguments N.mul : simpl never.
#[local] Arguments N.shiftl : simpl never.
#[local] Arguments N.shiftr : simpl never.
#[local] Arguments N.land : simpl never.
#[local] Arguments N.lor : simpl never.
#[local] Arguments N.lxor : simpl never.
#[local] Arguments N.testbit : simpl never.
#[local] Arguments N.eqb : simpl never.
#[local] Arguments N.ltb : simpl never.
#[local] Arguments N.leb : simpl never.

Lemma fen_piece_is_letter : forall pc, is_piece_letter (fen_piece pc) = true.
Proof. intros [p c]. destruct p, c; reflexivity. Qed.

(** a run digit 1..8 is accepted as a digit, not as a piece letter *)
Lemma rank_ok_digit : forall run r w, 1 <= run <= 8 ->
  rank_ok ((48 + run) :: r) w false = rank_ok r (w + run) true.
Proof.
  intros run r w H.
  assert (G : run = 1 \/ run = 2 \/ run = 3 \/ run = 4 \/ run = 5 \/ run = 6 \/ run = 7 \/ run = 8) by lia.
  repeat destruct G as [G|G]; subst run; reflexivity.
Qed.
Lemma rank_ok_letter : forall pc r w prev,
  rank_ok (fen_piece pc :: r) w prev = rank_ok r (w + 1) false.
Proof. intros pc r w prev. cbn [rank_ok]. rewrite fen_piece_is_letter. reflexivity. Qed.

(** every rank the encoder prints has width 8 and no two adjacent digits *)
Lemma rank_ok_fen_rank : forall cells run w,
  w + run + N.of_nat (length cells) = 8 -> rank_ok (fen_rank cells run) w false = true.
Proof.
  induction cells as [|x cells IH]; intros run w H; cbn [length] in H.
  - cbn [fen_rank]. destruct (run =? 0) eqn:E.
    + apply N.eqb_eq in E. cbn [rank_ok]. apply N.eqb_eq. lia.
    + apply N.eqb_neq in E. rewrite rank_ok_digit by lia. cbn [rank_ok]. apply N.eqb_eq. lia.
  - destruct x as [pc|]; cbn [fen_rank].
    + destruct (run =? 0) eqn:E.
      * apply N.eqb_eq in E. cbn [app]. rewrite rank_ok_letter. apply IH. lia.
      * apply N.eqb_neq in E. cbn [app]. rewrite rank_ok_digit by lia. rewrite rank_ok_letter.
        apply IH. lia.
    + apply IH. lia.
Qed.

Lemma placement_text_ranks : forall pcs,
  split_on 47 (placement_text pcs) [] = map (fun r => fen_rank (row pcs r) 0) rev_ranks.
Proof.
  intro pcs. unfold placement_text. apply split_on_join_slash.
  - discriminate.
  - apply Forall_forall. intros c Hc. apply in_map_iff in Hc. destruct Hc as [r [Hr _]]. subst c.
    apply fen_rank_free. lia.
Qed.

Lemma placement_text_ok : forall pcs,
  (let ranks := split_on 47 (placement_text pcs) [] in
   (length ranks =? 8)%nat && forallb (fun r => rank_ok r 0 false) ranks) = true.
Proof.
  intro pcs. cbv zeta. rewrite placement_text_ranks. rewrite map_length.
  change (length rev_ranks =? 8)%nat with true. cbn [andb].
  apply forallb_forall. intros c Hc. apply in_map_iff in Hc. destruct Hc as [r [Hr _]]. subst c.
  apply rank_ok_fen_rank. unfold row. rewrite map_length. reflexivity.
Qed.

Lemma side_text_ok : forall c, str_eqb (side_text c) [119] || str_eqb (side_text c) [98] = true.
Proof. intros []; reflexivity. Qed.

(** "-" or a non-empty in-order subsequence of KQkq *)
Lemma castle_text_ok : forall crw crb, crw < 4 -> crb < 4 ->
  str_eqb (castle_text crw crb) [45]
  || (match castle_text crw crb with [] => false | _ => subseq_of (castle_text crw crb) [75;81;107;113] end)
  = true.
Proof.
  intros crw crb Hw Hb.
  destruct (lt4_cases _ Hw) as [H|[H|[H|H]]]; subst crw;
  destruct (lt4_cases _ Hb) as [H|[H|[H|H]]]; subst crb; reflexivity.
Qed.

(** the shape of the en-passant field: "-", or file letter + '6' with White to move,
    file letter + '3' with Black to move *)
Lemma ep_text_shape : forall bb, (forall f, bep bb = Some f -> f < 8) ->
  match bep bb with
  | None => ep_text bb = [45]
  | Some f => ep_text bb = [97 + f; match bstm bb with White => 54 | Black => 51 end]
  end.
Proof.
  intros bb H. unfold ep_text, builder_get_en_passant. destruct (bep bb) as [f|]; [|reflexivity].
  specialize (H f eq_refl).
  destruct (bstm bb);
    destruct (lt8_cases _ H) as [G|[G|[G|[G|[G|[G|[G|G]]]]]]]; subst f; reflexivity.
Qed.

Lemma ep_text_ok : forall bb, (forall f, bep bb = Some f -> f < 8) ->
  str_eqb (ep_text bb) [45]
  || match ep_text bb with
     | [f; r] => (97 <=? f) && (f <=? 104) && ((r =? 51) || (r =? 54))
     | _ => false end = true.
Proof.
  intros bb H. pose proof (ep_text_shape bb H) as S. destruct (bep bb) as [f|].
  - rewrite S. specialize (H f eq_refl).
    destruct (bstm bb);
      destruct (lt8_cases _ H) as [G|[G|[G|[G|[G|[G|[G|G]]]]]]]; subst f; reflexivity.
  - rewrite S. reflexivity.
Qed.

(** ** G2 *)
Theorem builder_display_wellformed_gen : forall bb,
  bcrW bb < 4 -> bcrB bb < 4 -> (forall f, bep bb = Some f -> f < 8) ->
  fen_wellformed (builder_display bb) = true.
Proof.
  intros bb Hw Hb Hep. unfold fen_wellformed.
  rewrite <- split_sp_split_on, builder_display_split.
  rewrite placement_text_ok, side_text_ok, castle_text_ok, ep_text_ok by assumption.
  reflexivity.
Qed.

Theorem builder_display_wellformed : forall bb, WFB bb -> fen_wellformed (builder_display bb) = true.
Proof.
  intros bb [_ [Hw [Hb Hep]]]. apply builder_display_wellformed_gen; assumption.
Qed.

Example wellformed_examples :
  fen_wellformed (builder_display start_builder) = true
  /\ fen_wellformed (builder_display ep_builder) = true
  /\ fen_wellformed (builder_display crowded_builder) = true.
Proof. repeat split; vm_compute; reflexivity. Qed.
(** the recogniser is not vacuous: it rejects a rank of width 9, adjacent digits, a rank-4
    en-passant square, and castling letters out of order *)
Example wellformed_rejects :
  fen_wellformed [56;49;47;56;47;56;47;56;47;56;47;56;47;56;47;56;32;119;32;45;32;45;32;48;32;49] = false
  /\ fen_wellformed [52;52;47;56;47;56;47;56;47;56;47;56;47;56;47;56;32;119;32;45;32;45;32;48;32;49] = false
  /\ fen_wellformed [56;47;56;47;56;47;56;47;56;47;56;47;56;47;56;32;119;32;45;32;101;52;32;48;32;49] = false
  /\ fen_wellformed [56;47;56;47;56;47;56;47;56;47;56;47;56;47;56;32;119;32;81;75;32;45;32;48;32;49] = false
  /\ fen_wellformed [56;47;56;47;56;47;56;47;56;47;56;47;56;47;56;32;119;32;75;81;32;45;32;48;32;49] = true.
Proof. repeat split; vm_compute; reflexivity. Qed.
