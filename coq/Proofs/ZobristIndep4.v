(** * Proofs.ZobristIndep4 — no xor of at most four distinct Zobrist keys is zero, ACROSS tables.

    The distinctness facts of [Proofs.ZobristKeys] (C09) are per table: they survive a key generator
    in which keys of DIFFERENT tables coincide (the en-passant table seeded like the castling table;
    the en-passant key defined as the pawn key of the passed-over square).  Two positions differing
    in two hash components (en-passant file and castling rights; en-passant right versus a pawn)
    then collide.  Here all 793 keys

      [all_keys = Z_PIECES ++ Z_CASTLES ++ Z_EP ++ [Z_SIDE]]

    are treated as one family and we prove, by ONE computation on the regenerated tables that is
    re-run at every compilation (nothing is pasted):

      the 1 + 793 + 793*792/2 = 314 822 values  0,  k_i,  k_i xor k_j (i < j)  are pairwise distinct,

    i.e. the subsets of size <= 2 of the keys have pairwise different xors.  This is equivalent to:
    no non-empty set of at most four distinct keys xors to zero ([indep4]); hence two key sets
    whose symmetric difference has 1..4 elements have different xors ([hash_separates_up_to_4]).

    The computation: build the 314 822 values, merge-sort them ([Coq.Sorting.Mergesort], of which
    only [Permuted_sort] is used) and check that the sorted list is strictly increasing.
    The soundness of this boolean checker is proved once, for an arbitrary key list, so the same
    checker can be run on a mutated key list (it returns [false] there). *)
From Coq Require Import NArith List Bool Lia ZifyBool ZifyN ZifyNat Permutation Orders
  Sorting.Mergesort.
From Chess Require Import Base.Bits Spec.Rules Gen.Zobrist Model.Board
  Proofs.ZobristKeys Proofs.HashSeparation Proofs.ZobristSpan.
Import ListNotations.
Open Scope N_scope.

#[local] Arguments N.add : simpl never.
#[local] Arguments N.sub : simpl never.
#[local] Arguments N.mul : simpl never.
#[local] Arguments N.lxor : simpl never.
#[local] Arguments N.eqb : simpl never.
#[local] Arguments N.ltb : simpl never.
#[local] Arguments N.leb : simpl never.

(** ** 0. the key family *)
Definition all_keys : list N := Z_PIECES ++ Z_CASTLES ++ Z_EP ++ [Z_SIDE].
(** the [i]-th key of the family ([Proofs.ZobristSpan.key] is the piece-key accessor on [N]) *)
Definition akey (i:nat) : N := nth i all_keys 0.

Lemma len_all_keys : length all_keys = 793%nat.
Proof.
  unfold all_keys. rewrite !app_length, len_pieces, len_castles, len_ep. reflexivity.
Qed.

(** ** 1. the checker (for an arbitrary key list [l]) *)
Module NLeB <: TotalLeBool.
  Definition t := N.
  Definition leb := N.leb.
  Theorem leb_total : forall a1 a2, leb a1 a2 = true \/ leb a2 a1 = true.
  Proof.
    intros a b. unfold leb. destruct (N.leb_spec a b) as [H|H]; [left; reflexivity|right].
    apply N.leb_le. apply N.lt_le_incl. exact H.
  Qed.
End NLeB.
Module NSort := Sort NLeB.

(** the subsets of size <= 2 of the index set, each with the xor of its keys; the tag (the
    increasing list of indices) is only used in the soundness proof *)
Definition sub2_tagged (l:list N) : list (list nat * N) :=
  ([], 0) :: map (fun i => ([i], nth i l 0)) (seq 0 (length l))
  ++ flat_map (fun i => let ki := nth i l 0 in
        map (fun j => ([i;j], N.lxor ki (nth j l 0))) (seq (S i) (length l - S i)))
       (seq 0 (length l)).
Definition sub2_values (l:list N) : list N := map snd (sub2_tagged l).

Fixpoint strict_inc (l:list N) : bool :=
  match l with x :: (y :: _) as t => (x <? y) && strict_inc t | _ => true end.

Definition indep4_check (l:list N) : bool := strict_inc (NSort.sort (sub2_values l)).

(** ** 2. soundness of the checker *)
Lemma strict_inc_cons2 x y t : strict_inc (x :: y :: t) = (x <? y) && strict_inc (y :: t).
Proof. reflexivity. Qed.

Lemma strict_inc_head t : forall x, strict_inc (x :: t) = true -> forall y, In y t -> x < y.
Proof.
  induction t as [|z t IH]; intros x H y Hy.
  - destruct Hy.
  - rewrite strict_inc_cons2 in H. apply andb_true_iff in H. destruct H as [Hxz Ht].
    apply N.ltb_lt in Hxz. destruct Hy as [E|Hy].
    + subst y. exact Hxz.
    + apply N.lt_trans with z; [exact Hxz | exact (IH z Ht y Hy)].
Qed.

Lemma strict_inc_tail x t : strict_inc (x :: t) = true -> strict_inc t = true.
Proof.
  destruct t as [|z t]; [reflexivity|]. intro H. rewrite strict_inc_cons2 in H.
  apply andb_true_iff in H. exact (proj2 H).
Qed.

Lemma strict_inc_NoDup s : strict_inc s = true -> NoDup s.
Proof.
  induction s as [|x t IH]; intro H; constructor.
  - intro Hin. exact (N.lt_irrefl x (strict_inc_head t x H x Hin)).
  - apply IH. exact (strict_inc_tail x t H).
Qed.

Lemma check_NoDup l : indep4_check l = true -> NoDup (sub2_values l).
Proof.
  intro H. apply strict_inc_NoDup in H.
  apply (Permutation_NoDup (l := NSort.sort (sub2_values l))); [|exact H].
  apply Permutation_sym. apply NSort.Permuted_sort.
Qed.

(** distinct values, hence the value determines the tag *)
Lemma NoDup_snd_inj {A} (T : list (A * N)) a b v :
  NoDup (map snd T) -> In (a, v) T -> In (b, v) T -> a = b.
Proof.
  induction T as [|[a0 v0] T IH]; intros Hnd Ha Hb; [destruct Ha|].
  cbn [map snd] in Hnd. apply NoDup_cons_iff in Hnd. destruct Hnd as [Hnot Hnd].
  assert (Hin : forall c, In (c, v0) T -> False).
  { intros c Hc. apply Hnot. change v0 with (snd (c, v0)). apply in_map. exact Hc. }
  destruct Ha as [Ea|Ha]; destruct Hb as [Eb|Hb].
  - congruence.
  - inversion Ea; subst. exfalso. exact (Hin b Hb).
  - inversion Eb; subst. exfalso. exact (Hin a Ha).
  - exact (IH Hnd Ha Hb).
Qed.

Section Generic.
  Variable l : list N.
  Hypothesis Hnd : NoDup (sub2_values l).

  Lemma in_tag_nil : In ([], 0) (sub2_tagged l).
  Proof. left. reflexivity. Qed.

  Lemma in_tag_single i : (i < length l)%nat -> In ([i], nth i l 0) (sub2_tagged l).
  Proof.
    intro H. unfold sub2_tagged. right. apply in_or_app. left.
    apply in_map_iff. exists i. split; [reflexivity|]. apply in_seq. lia.
  Qed.

  Lemma in_tag_pair i j : (i < j)%nat -> (j < length l)%nat ->
    In ([i; j], N.lxor (nth i l 0) (nth j l 0)) (sub2_tagged l).
  Proof.
    intros Hij Hj. unfold sub2_tagged. right. apply in_or_app. right.
    apply in_flat_map. exists i. split; [apply in_seq; lia|]. cbv zeta.
    apply in_map_iff. exists j. split; [reflexivity|]. apply in_seq. lia.
  Qed.

  (** (a) keys are non-zero *)
  Lemma gen_nonzero i : (i < length l)%nat -> nth i l 0 <> 0.
  Proof.
    intros Hi E. pose proof (in_tag_single i Hi) as H1. rewrite E in H1.
    pose proof (NoDup_snd_inj _ _ _ _ Hnd H1 in_tag_nil) as H. discriminate H.
  Qed.

  (** (b) keys are pairwise distinct *)
  Lemma gen_inj i j : (i < length l)%nat -> (j < length l)%nat -> nth i l 0 = nth j l 0 -> i = j.
  Proof.
    intros Hi Hj E. pose proof (in_tag_single i Hi) as H1. rewrite E in H1.
    pose proof (NoDup_snd_inj _ _ _ _ Hnd H1 (in_tag_single j Hj)) as H. congruence.
  Qed.

  (** (c) no key is the xor of two keys *)
  Lemma gen_3_lt i j m : (i < j)%nat -> (j < length l)%nat -> (m < length l)%nat ->
    N.lxor (nth i l 0) (nth j l 0) <> nth m l 0.
  Proof.
    intros Hij Hj Hm E. pose proof (in_tag_pair i j Hij Hj) as H1. rewrite E in H1.
    pose proof (NoDup_snd_inj _ _ _ _ Hnd H1 (in_tag_single m Hm)) as H. discriminate H.
  Qed.

  Lemma gen_3 i j m : i <> j -> (i < length l)%nat -> (j < length l)%nat -> (m < length l)%nat ->
    N.lxor (nth i l 0) (nth j l 0) <> nth m l 0.
  Proof.
    intros Hne Hi Hj Hm. destruct (Nat.lt_total i j) as [L|[L|L]]; [|contradiction|].
    - exact (gen_3_lt i j m L Hj Hm).
    - rewrite N.lxor_comm. exact (gen_3_lt j i m L Hi Hm).
  Qed.

  (** (d) the pair xors are pairwise distinct *)
  Lemma gen_4_lt i j p q : (i < j)%nat -> (j < length l)%nat -> (p < q)%nat -> (q < length l)%nat ->
    N.lxor (nth i l 0) (nth j l 0) = N.lxor (nth p l 0) (nth q l 0) -> i = p /\ j = q.
  Proof.
    intros Hij Hj Hpq Hq E. pose proof (in_tag_pair i j Hij Hj) as H1. rewrite E in H1.
    pose proof (NoDup_snd_inj _ _ _ _ Hnd H1 (in_tag_pair p q Hpq Hq)) as H.
    inversion H. split; reflexivity.
  Qed.

  Lemma gen_4 i j p q : i <> j -> p <> q ->
    (i < length l)%nat -> (j < length l)%nat -> (p < length l)%nat -> (q < length l)%nat ->
    N.lxor (nth i l 0) (nth j l 0) = N.lxor (nth p l 0) (nth q l 0) ->
    (i = p /\ j = q) \/ (i = q /\ j = p).
  Proof.
    intros Hij Hpq Hi Hj Hp Hq E.
    destruct (Nat.lt_total i j) as [L1|[L1|L1]]; [|contradiction|];
    destruct (Nat.lt_total p q) as [L2|[L2|L2]]; try contradiction.
    - left. exact (gen_4_lt i j p q L1 Hj L2 Hq E).
    - right. rewrite (N.lxor_comm (nth p l 0)) in E. exact (gen_4_lt i j q p L1 Hj L2 Hp E).
    - right. rewrite (N.lxor_comm (nth i l 0)) in E.
      destruct (gen_4_lt j i p q L1 Hi L2 Hq E) as [E1 E2]. split; assumption.
    - left. rewrite (N.lxor_comm (nth i l 0)), (N.lxor_comm (nth p l 0)) in E.
      destruct (gen_4_lt j i q p L1 Hi L2 Hp E) as [E1 E2]. split; assumption.
  Qed.

  (** the combinatorial lemma: no non-empty set of at most four distinct keys xors to zero *)
  Lemma gen_indep4 : forall S : list nat, NoDup S -> (forall i, In i S -> (i < length l)%nat) ->
    (1 <= length S <= 4)%nat -> xor_all (map (fun i => nth i l 0) S) <> 0.
  Proof.
    intros S HS Hlt Hlen Hz.
    destruct S as [|a [|b [|c [|d [|e S]]]]]; cbn [length] in Hlen; try lia;
      unfold xor_all in Hz; cbn [map fold_right] in Hz; rewrite N.lxor_0_r in Hz;
      repeat rewrite NoDup_cons_iff in HS; cbn [In] in HS.
    - exact (gen_nonzero a (Hlt a (or_introl eq_refl)) Hz).
    - apply N.lxor_eq in Hz.
      pose proof (gen_inj a b (Hlt a (or_introl eq_refl))
                    (Hlt b (or_intror (or_introl eq_refl))) Hz) as E. lia.
    - rewrite <- N.lxor_assoc in Hz. apply N.lxor_eq in Hz.
      assert (Hab : a <> b) by lia.
      exact (gen_3 a b c Hab (Hlt a (or_introl eq_refl)) (Hlt b (or_intror (or_introl eq_refl)))
               (Hlt c (or_intror (or_intror (or_introl eq_refl)))) Hz).
    - rewrite <- N.lxor_assoc in Hz. apply N.lxor_eq in Hz.
      assert (Hab : a <> b) by lia. assert (Hcd : c <> d) by lia.
      pose proof (gen_4 a b c d Hab Hcd (Hlt a (or_introl eq_refl))
                    (Hlt b (or_intror (or_introl eq_refl)))
                    (Hlt c (or_intror (or_intror (or_introl eq_refl))))
                    (Hlt d (or_intror (or_intror (or_intror (or_introl eq_refl))))) Hz) as E.
      lia.
  Qed.

  Lemma gen_keys_nonzero : forall k, In k l -> k <> 0.
  Proof.
    intros k Hk. destruct (In_nth l k 0 Hk) as [i [Hi E]]. rewrite <- E.
    exact (gen_nonzero i Hi).
  Qed.

  Lemma gen_keys_NoDup : NoDup l.
  Proof. apply (NoDup_nth l 0). exact gen_inj. Qed.
End Generic.

(** the checker is sound for every key list *)
Theorem indep4_check_sound : forall l, indep4_check l = true ->
  (forall k, In k l -> k <> 0) /\ NoDup l /\
  (forall S : list nat, NoDup S -> (forall i, In i S -> (i < length l)%nat) ->
     (1 <= length S <= 4)%nat -> xor_all (map (fun i => nth i l 0) S) <> 0).
Proof.
  intros l H. apply check_NoDup in H. split; [|split].
  - exact (gen_keys_nonzero l H).
  - exact (gen_keys_NoDup l H).
  - exact (gen_indep4 l H).
Qed.

(** ** 3. the sweep on the actual keys: sorts 314 822 64-bit words (runs once in the VM, at [Qed]) *)
Lemma sweep_indep4 : indep4_check all_keys = true.
Proof. vm_cast_no_check (eq_refl true). Qed.

Theorem keys_nonzero_distinct : (forall k, In k all_keys -> k <> 0) /\ NoDup all_keys.
Proof.
  destruct (indep4_check_sound all_keys sweep_indep4) as [H1 [H2 _]]. exact (conj H1 H2).
Qed.

Theorem indep4 : forall S : list nat, NoDup S -> (forall i, In i S -> (i < 793)%nat) ->
  (1 <= length S <= 4)%nat -> xor_all (map (fun i => nth i all_keys 0) S) <> 0.
Proof.
  intros S HS Hlt. apply (proj2 (proj2 (indep4_check_sound all_keys sweep_indep4)) S HS).
  intros i Hi. rewrite len_all_keys. exact (Hlt i Hi).
Qed.

(** ** 4. key sets that differ in 1..4 keys have different xors *)
Definition memb (x:nat) (l:list nat) : bool := existsb (Nat.eqb x) l.
Definition symdiff (A B:list nat) : list nat :=
  filter (fun a => negb (memb a B)) A ++ filter (fun b => negb (memb b A)) B.

Lemma memb_In x l : memb x l = true <-> In x l.
Proof.
  unfold memb. rewrite existsb_exists. split.
  - intros [y [Hy E]]. apply Nat.eqb_eq in E. subst y. exact Hy.
  - intro H. exists x. split; [exact H | apply Nat.eqb_refl].
Qed.

Lemma NoDup_app_disjoint {A} (l1 l2 : list A) :
  NoDup l1 -> NoDup l2 -> (forall x, In x l1 -> In x l2 -> False) -> NoDup (l1 ++ l2).
Proof.
  induction l1 as [|x l1 IH]; intros H1 H2 Hd; [exact H2|].
  cbn [app]. apply NoDup_cons_iff in H1. destruct H1 as [Hx H1]. constructor.
  - intro Hin. apply in_app_or in Hin. destruct Hin as [Hin|Hin]; [exact (Hx Hin)|].
    exact (Hd x (or_introl eq_refl) Hin).
  - apply IH; [exact H1 | exact H2 |]. intros y Hy1 Hy2. exact (Hd y (or_intror Hy1) Hy2).
Qed.

Lemma symdiff_NoDup A B : NoDup A -> NoDup B -> NoDup (symdiff A B).
Proof.
  intros HA HB. unfold symdiff. apply NoDup_app_disjoint.
  - apply NoDup_filter. exact HA.
  - apply NoDup_filter. exact HB.
  - intros x H1 H2. apply filter_In in H1. apply filter_In in H2.
    destruct H1 as [HxA _]. destruct H2 as [_ Hn]. apply negb_true_iff in Hn.
    apply (proj2 (memb_In x A)) in HxA. congruence.
Qed.

Lemma symdiff_In A B x : In x (symdiff A B) -> In x A \/ In x B.
Proof.
  unfold symdiff. intro H. apply in_app_or in H. destruct H as [H|H]; apply filter_In in H.
  - left. exact (proj1 H).
  - right. exact (proj1 H).
Qed.

Section XorLists.
  Variable g : nat -> N.

  Lemma xor_all_filter_split (p : nat -> bool) L :
    xor_all (map g L) =
    N.lxor (xor_all (map g (filter p L))) (xor_all (map g (filter (fun x => negb (p x)) L))).
  Proof.
    induction L as [|x L IH]; [reflexivity|].
    cbn [filter map]. destruct (p x); cbn [negb map]; rewrite !xor_all_cons, IH.
    - rewrite N.lxor_assoc. reflexivity.
    - rewrite <- !N.lxor_assoc. f_equal. apply N.lxor_comm.
  Qed.

  Lemma xor_all_perm L L' : Permutation L L' -> xor_all (map g L) = xor_all (map g L').
  Proof.
    intro H. induction H as [|x L L' _ IH|x y L|L L' L'' _ IH1 _ IH2].
    - reflexivity.
    - cbn [map]. rewrite !xor_all_cons, IH. reflexivity.
    - cbn [map]. rewrite !xor_all_cons, <- !N.lxor_assoc. f_equal. apply N.lxor_comm.
    - rewrite IH1. exact IH2.
  Qed.

  Lemma xor_all_symdiff A B : NoDup A -> NoDup B ->
    N.lxor (xor_all (map g A)) (xor_all (map g B)) = xor_all (map g (symdiff A B)).
  Proof.
    intros HA HB.
    pose proof (xor_all_filter_split (fun a => memb a B) A) as EA.
    pose proof (xor_all_filter_split (fun b => memb b A) B) as EB. cbv beta in EA, EB.
    assert (EI : xor_all (map g (filter (fun a => memb a B) A)) =
                 xor_all (map g (filter (fun b => memb b A) B))).
    { apply xor_all_perm. apply NoDup_Permutation.
      - apply NoDup_filter. exact HA.
      - apply NoDup_filter. exact HB.
      - intro x. rewrite !filter_In, !memb_In. tauto. }
    unfold symdiff. rewrite map_app, xor_all_app, EA, EB, EI.
    set (i := xor_all (map g (filter (fun b => memb b A) B))).
    set (u := xor_all (map g (filter (fun a => negb (memb a B)) A))).
    set (v := xor_all (map g (filter (fun b => negb (memb b A)) B))).
    rewrite (N.lxor_comm i u), N.lxor_assoc, <- (N.lxor_assoc i i v), N.lxor_nilpotent,
      N.lxor_0_l.
    reflexivity.
  Qed.
End XorLists.

Theorem hash_separates_up_to_4 : forall A B : list nat, NoDup A -> NoDup B ->
  (forall i, In i A -> (i < 793)%nat) -> (forall i, In i B -> (i < 793)%nat) ->
  (1 <= length (symdiff A B) <= 4)%nat ->
  xor_all (map akey A) <> xor_all (map akey B).
Proof.
  intros A B HA HB HlA HlB Hlen E.
  apply (indep4 (symdiff A B) (symdiff_NoDup A B HA HB)); [|exact Hlen|].
  - intros i Hi. destruct (symdiff_In A B i Hi) as [H|H]; [exact (HlA i H)|exact (HlB i H)].
  - change (xor_all (map akey (symdiff A B)) = 0).
    rewrite <- (xor_all_symdiff akey A B HA HB), E. apply N.lxor_nilpotent.
Qed.

(** ** 5. where the keys of the model's accessors sit in [all_keys] *)
Lemma akey_piece p s c : s < 64 ->
  akey (N.to_nat ((cidx c * 6 + pidx p) * 64 + s)) = zob_piece p s c.
Proof.
  intro Hs. unfold akey, all_keys, zob_piece, nthN. apply app_nth1. rewrite len_pieces.
  destruct c, p; cbn [cidx pidx]; lia.
Qed.

Lemma akey_castles r c : r < 4 -> akey (768 + N.to_nat (cidx c * 4 + r)) = zob_castles r c.
Proof.
  intro Hr. unfold akey, all_keys, zob_castles, nthN.
  rewrite app_nth2 by (rewrite len_pieces; lia). rewrite len_pieces.
  rewrite app_nth1 by (rewrite len_castles; destruct c; cbn [cidx]; lia).
  f_equal. lia.
Qed.

Lemma akey_ep f c : f < 8 -> akey (776 + N.to_nat (cidx c * 8 + f)) = zob_ep f c.
Proof.
  intro Hf. unfold akey, all_keys, zob_ep, nthN.
  rewrite app_nth2 by (rewrite len_pieces; lia). rewrite len_pieces.
  rewrite app_nth2 by (rewrite len_castles; lia). rewrite len_castles.
  rewrite app_nth1 by (rewrite len_ep; destruct c; cbn [cidx]; lia).
  f_equal. lia.
Qed.

Lemma akey_side : akey 792 = zob_color.
Proof.
  unfold akey, all_keys, zob_color.
  rewrite app_nth2 by (rewrite len_pieces; lia). rewrite len_pieces.
  rewrite app_nth2 by (rewrite len_castles; lia). rewrite len_castles.
  rewrite app_nth2 by (rewrite len_ep; lia). rewrite len_ep.
  reflexivity.
Qed.

Theorem all_keys_layout :
  (forall p s c, s < 64 -> nth (N.to_nat ((cidx c * 6 + pidx p) * 64 + s)) all_keys 0 = zob_piece p s c) /\
  (forall r c, r < 4 -> nth (768 + N.to_nat (cidx c * 4 + r)) all_keys 0 = zob_castles r c) /\
  (forall f c, f < 8 -> nth (776 + N.to_nat (cidx c * 8 + f)) all_keys 0 = zob_ep f c) /\
  nth 792 all_keys 0 = zob_color.
Proof. exact (conj akey_piece (conj akey_castles (conj akey_ep akey_side))). Qed.

(** ** 6. the same statement through the model's key accessors: a [zkey] names one key of the
    hash ([zob_piece], [zob_castles], [zob_ep], [zob_color]) *)
Inductive zkey :=
| KPiece (p:ptype) (s:N) (c:color)
| KCastle (r:N) (c:color)
| KEp (f:N) (c:color)
| KSide.

Definition zkey_ok (k:zkey) : Prop :=
  match k with KPiece _ s _ => s < 64 | KCastle r _ => r < 4 | KEp f _ => f < 8 | KSide => True end.
Definition zkey_val (k:zkey) : N :=
  match k with
  | KPiece p s c => zob_piece p s c | KCastle r c => zob_castles r c
  | KEp f c => zob_ep f c | KSide => zob_color
  end.
Definition zkey_idx (k:zkey) : nat :=
  match k with
  | KPiece p s c => N.to_nat ((cidx c * 6 + pidx p) * 64 + s)
  | KCastle r c => 768 + N.to_nat (cidx c * 4 + r)
  | KEp f c => 776 + N.to_nat (cidx c * 8 + f)
  | KSide => 792
  end.

Lemma zkey_idx_val k : zkey_ok k -> akey (zkey_idx k) = zkey_val k.
Proof.
  destruct k as [p s c|r c|f c|]; cbn [zkey_ok zkey_idx zkey_val]; intro H.
  - exact (akey_piece p s c H).
  - exact (akey_castles r c H).
  - exact (akey_ep f c H).
  - exact akey_side.
Qed.

Lemma zkey_idx_lt k : zkey_ok k -> (zkey_idx k < 793)%nat.
Proof.
  destruct k as [p s c|r c|f c|]; cbn [zkey_ok zkey_idx]; intro H;
    try destruct c; try destruct p; cbn [cidx pidx]; lia.
Qed.

Lemma zkey_idx_inj k k' : zkey_ok k -> zkey_ok k' -> zkey_idx k = zkey_idx k' -> k = k'.
Proof.
  destruct k as [p s c|r c|f c|]; destruct k' as [p' s' c'|r' c'|f' c'|];
    cbn [zkey_ok zkey_idx]; intros H H' E;
    try destruct c; try destruct c'; try destruct p; try destruct p'; cbn [cidx pidx] in E;
    first [reflexivity | exfalso; lia | f_equal; lia].
Qed.

Lemma NoDup_map_inj_in {A B} (f:A->B) (l:list A) :
  (forall x y, In x l -> In y l -> f x = f y -> x = y) -> NoDup l -> NoDup (map f l).
Proof.
  induction l as [|x l IH]; intros Hinj Hnd; [constructor|].
  apply NoDup_cons_iff in Hnd. destruct Hnd as [Hx Hnd]. cbn [map]. constructor.
  - intro Hin. apply in_map_iff in Hin. destruct Hin as [y [E Hy]].
    apply Hx. rewrite (Hinj x y (or_introl eq_refl) (or_intror Hy) (eq_sym E)). exact Hy.
  - apply IH; [|exact Hnd]. intros a b Ha Hb. exact (Hinj a b (or_intror Ha) (or_intror Hb)).
Qed.

Theorem zkeys_indep4 : forall ks : list zkey, NoDup ks -> (forall k, In k ks -> zkey_ok k) ->
  (1 <= length ks <= 4)%nat -> xor_all (map zkey_val ks) <> 0.
Proof.
  intros ks Hnd Hok Hlen Hz.
  apply (indep4 (map zkey_idx ks)).
  - apply NoDup_map_inj_in; [|exact Hnd].
    intros x y Hx Hy. exact (zkey_idx_inj x y (Hok x Hx) (Hok y Hy)).
  - intros i Hi. apply in_map_iff in Hi. destruct Hi as [k [E Hk]]. subst i.
    exact (zkey_idx_lt k (Hok k Hk)).
  - rewrite map_length. exact Hlen.
  - rewrite map_map. transitivity (xor_all (map zkey_val ks)); [|exact Hz].
    f_equal. apply map_ext_in. intros k Hk.
    exact (zkey_idx_val k (Hok k Hk)).
Qed.

(** ** 7. the motivating collision cannot happen: two board records that agree on the men (hash
    field), the side to move and the opponent's castling rights, but differ BOTH in the en-passant
    file and in the mover's castling rights, have different hashes *)
Theorem get_hash_ep_and_castles_separate : forall b b' e e',
  hash b = hash b' -> stm b = stm b' ->
  castle_rights b (opp (stm b)) = castle_rights b' (opp (stm b)) ->
  epsq b = Some e -> epsq b' = Some e' -> sq_file e <> sq_file e' ->
  castle_rights b (stm b) < 4 -> castle_rights b' (stm b) < 4 ->
  castle_rights b (stm b) <> castle_rights b' (stm b) ->
  get_hash b <> get_hash b'.
Proof.
  intros b b' e e' Hh Hs Hco He He' Hf Hr Hr' Hne E.
  apply (zkeys_indep4 [KEp (sq_file e) (opp (stm b)); KEp (sq_file e') (opp (stm b));
                       KCastle (castle_rights b (stm b)) (stm b);
                       KCastle (castle_rights b' (stm b)) (stm b)]).
  - repeat rewrite NoDup_cons_iff. cbn [In].
    repeat split; try (apply NoDup_nil); intro H;
      repeat (destruct H as [H|H]; [try discriminate H; inversion H; congruence|]); exact H.
  - intros k Hk. cbn [In] in Hk.
    destruct Hk as [Hk|[Hk|[Hk|[Hk|[]]]]]; subst k; cbn [zkey_ok];
      first [apply sq_file_lt | assumption].
  - cbn [length]. lia.
  - unfold xor_all. cbn [map fold_right zkey_val].
    transitivity (N.lxor (get_hash b) (get_hash b')); [|rewrite E; apply N.lxor_nilpotent].
    unfold get_hash. rewrite <- Hs, <- Hh, <- Hco, He, He'.
    generalize (hash b) (zob_ep (sq_file e) (opp (stm b))) (zob_ep (sq_file e') (opp (stm b)))
      (zob_castles (castle_rights b (stm b)) (stm b))
      (zob_castles (castle_rights b' (stm b)) (stm b))
      (zob_castles (castle_rights b (opp (stm b))) (opp (stm b)))
      (match stm b with Black => zob_color | White => 0 end).
    intros h x x' y y' z w. apply N.bits_inj. intro k. rewrite !N.lxor_spec, N.bits_0.
    destruct (N.testbit h k), (N.testbit x k), (N.testbit x' k), (N.testbit y k),
      (N.testbit y' k), (N.testbit z k), (N.testbit w k); reflexivity.
Qed.

(** ** Examples: hypotheses satisfiable by concrete, cross-table values *)
Lemma xor4_rearrange a b c d :
  N.lxor c (N.lxor b (N.lxor d a)) = N.lxor (N.lxor a b) (N.lxor c d).
Proof.
  apply N.bits_inj. intro k. rewrite !N.lxor_spec.
  destruct (N.testbit a k), (N.testbit b k), (N.testbit c k), (N.testbit d k); reflexivity.
Qed.

(** white pawn on a2 (index 8), White's castling rights 1 (769), Black's rights 2 (774),
    the en-passant key of file e for White (780) *)
Example ex_indep4_cross : xor_all (map (fun i => nth i all_keys 0) [8; 769; 774; 780]%nat) <> 0.
Proof.
  apply indep4.
  - repeat constructor; cbn [In]; lia.
  - intros i Hi. cbn [In] in Hi. lia.
  - cbn [length]. lia.
Qed.

(** the same four keys through the model's accessors: an en-passant file together with a castling
    right never cancels against a pawn together with the other side's castling right *)
Example ex_indep4_model :
  N.lxor (zob_ep 4 White) (zob_castles 1 White) <> N.lxor (zob_piece Pawn 8 White) (zob_castles 2 Black).
Proof.
  intro E. apply ex_indep4_cross. unfold xor_all. cbn [map fold_right].
  change (nth 8 all_keys 0) with (akey (N.to_nat ((cidx White * 6 + pidx Pawn) * 64 + 8))).
  change (nth 769 all_keys 0) with (akey (768 + N.to_nat (cidx White * 4 + 1))).
  change (nth 774 all_keys 0) with (akey (768 + N.to_nat (cidx Black * 4 + 2))).
  change (nth 780 all_keys 0) with (akey (776 + N.to_nat (cidx White * 8 + 4))).
  rewrite akey_piece, !akey_castles, akey_ep by reflexivity.
  rewrite N.lxor_0_r, xor4_rearrange, E. apply N.lxor_nilpotent.
Qed.

(** two key sets differing in an en-passant key and a castling key (positions that differ in the
    en-passant file and in White's castling rights, everything else equal) *)
Example ex_separates :
  xor_all (map akey [8; 400; 769; 772; 777]%nat) <> xor_all (map akey [8; 400; 770; 772; 779]%nat).
Proof.
  apply hash_separates_up_to_4.
  - repeat constructor; cbn [In]; lia.
  - repeat constructor; cbn [In]; lia.
  - intros i Hi. cbn [In] in Hi. lia.
  - intros i Hi. cbn [In] in Hi. lia.
  - vm_compute. lia.
Qed.

(** two records differing in the en-passant square (e6 = 44 / f6 = 45, files e and f) and in the
    mover's castling rights (3 / 1) *)
Example ex_get_hash_ep_and_castles :
  get_hash (set_castle_rights (set_epsq board_new (Some 44)) White 3)
  <> get_hash (set_castle_rights (set_epsq board_new (Some 45)) White 1).
Proof.
  apply (get_hash_ep_and_castles_separate _ _ 44 45); try reflexivity; cbn; discriminate.
Qed.
