(** * Proofs.StepClean — toggling men on the squares of an abstract placement.
    A list of toggles (one [Board::xor] call each) is read square by square ([togs_at]); on a
    square holding [o] the men toggled there, in order, lead to the encoding of [o'] and change
    the key sum by exactly the difference of the keys of [o] and [o'] ([clean]).  The four shapes
    of toggle lists that [make_move] produces (ordinary move or capture, promotion, en passant,
    castling) are clean on every square of any placement satisfying the obvious side conditions.
    Nothing here mentions a board. *)
From Coq Require Import Lia ZifyBool ZifyN ZifyNat.
From Chess Require Import Base.Bits Spec.Rules Model.Board.
From Chess Require Import Proofs.AbsBoard Proofs.HashSeparation Proofs.StepModel.
Open Scope N_scope.

Definition man := (ptype * color)%type.
Definition togs_at (k:N) (T:list tog) : list man :=
  flat_map (fun g : tog => let '(p,t,c) := g in if k =? t then [(p,c)] else []) T.
Definition xor9s (x:sqb) (X:list man) : sqb := fold_left (fun x m => xor9 x (enc (Some m))) X x.
Definition keys (k:N) (X:list man) : N :=
  fold_left (fun h (m:man) => N.lxor h (zob_piece (fst m) k (snd m))) X 0.

Lemma togs_at_cons k p t c T :
  togs_at k ((p,t,c) :: T) = (if k =? t then [(p,c)] else []) ++ togs_at k T.
Proof. reflexivity. Qed.
Lemma togs_at_nil k : togs_at k [] = [].
Proof. reflexivity. Qed.
Lemma togs_at_app k T1 T2 : togs_at k (T1 ++ T2) = togs_at k T1 ++ togs_at k T2.
Proof. unfold togs_at. apply flat_map_app. Qed.

Lemma fold_tog9_at k T : forall x, fold_left (tog9 k) T x = xor9s x (togs_at k T).
Proof.
  induction T as [|[[p t] c] T IH]; intro x; [reflexivity|].
  rewrite togs_at_cons. cbn [fold_left tog9]. rewrite IH. rewrite (N.eqb_sym t k).
  destruct (k =? t); reflexivity.
Qed.

Lemma togs_at_high k T : Forall (fun g => tog_sq g < 64) T -> 64 <= k -> togs_at k T = [].
Proof.
  induction 1 as [|[[p t] c] T Ht _ IH]; intro Hk; [reflexivity|].
  rewrite togs_at_cons, IH by exact Hk. unfold tog_sq in Ht.
  destruct (N.eqb_spec k t); [lia|reflexivity].
Qed.

(** ** xor algebra on nine-bit squares *)
Lemma xor9_cancel_r x y : xor9 (xor9 x y) y = x.
Proof.
  destruct x as [x1 x2 x3 x4 x5 x6 x7 x8 x9], y as [y1 y2 y3 y4 y5 y6 y7 y8 y9]. unfold xor9. cbn [bP bN bB bR bQ bK bW bL bC].
  rewrite !xorb_assoc, !xorb_nilpotent, !xorb_false_r. reflexivity.
Qed.
Lemma xor9_swap x y z : xor9 (xor9 x y) z = xor9 (xor9 x z) y.
Proof.
  destruct x as [x1 x2 x3 x4 x5 x6 x7 x8 x9], y as [y1 y2 y3 y4 y5 y6 y7 y8 y9],
    z as [z1 z2 z3 z4 z5 z6 z7 z8 z9]. unfold xor9. cbn [bP bN bB bR bQ bK bW bL bC].
  f_equal; rewrite !xorb_assoc; f_equal; apply xorb_comm.
Qed.
Lemma xor9_self x : xor9 x x = zero9.
Proof.
  destruct x as [x1 x2 x3 x4 x5 x6 x7 x8 x9]. unfold xor9, zero9. cbn [bP bN bB bR bQ bK bW bL bC].
  rewrite !xorb_nilpotent. reflexivity.
Qed.

(** ** clean toggle sequences on one square *)
Definition clean (k:N) (o:option man) (X:list man) (o':option man) : Prop :=
  xor9s (enc o) X = enc o' /\ N.lxor (okey k o) (keys k X) = okey k o'.

Lemma clean_nil k o : clean k o [] o.
Proof. split; [reflexivity|]. unfold keys. cbn [fold_left]. apply N.lxor_0_r. Qed.
Lemma clean_remove k x : clean k (Some x) [x] None.
Proof.
  split.
  - unfold xor9s. cbn [fold_left]. apply xor9_self.
  - destruct x as [p c]. unfold keys. cbn [fold_left okey fst snd]. xor_ring.
Qed.
Lemma clean_place k x : clean k None [x] (Some x).
Proof.
  split.
  - unfold xor9s. cbn [fold_left enc]. apply xor9_zero_l.
  - destruct x as [p c]. unfold keys. cbn [fold_left okey fst snd]. xor_ring.
Qed.
Lemma clean_capture k x y : clean k (Some y) [x;y] (Some x).
Proof.
  split.
  - unfold xor9s. cbn [fold_left]. rewrite xor9_swap, xor9_self. apply xor9_zero_l.
  - destruct x as [p c], y as [q e]. unfold keys. cbn [fold_left okey fst snd]. xor_ring.
Qed.
Lemma clean_promote k x z : clean k None [z;z;x] (Some x).
Proof.
  split.
  - unfold xor9s. cbn [fold_left enc]. rewrite xor9_cancel_r. apply xor9_zero_l.
  - destruct x as [p c], z as [q e]. unfold keys. cbn [fold_left okey fst snd]. xor_ring.
Qed.
Lemma clean_capture_promote k x y z : clean k (Some y) [z;y;z;x] (Some x).
Proof.
  split.
  - unfold xor9s. cbn [fold_left].
    rewrite (xor9_swap (xor9 (enc (Some y)) (enc (Some z)))), xor9_cancel_r, xor9_self.
    apply xor9_zero_l.
  - destruct x as [p c], y as [q e], z as [r f]. unfold keys. cbn [fold_left okey fst snd]. xor_ring.
Qed.

(** ** the four shapes *)
Ltac split_eqb :=
  repeat match goal with
  | |- context [N.eqb ?a ?b] =>
      let E := fresh "E" in
      destruct (N.eqb_spec a b) as [E|E];
      [ first [subst a | subst b | idtac] | ];
      try (exfalso; congruence)
  end.
Ltac clean_tac :=
  cbn [app];
  first [ apply clean_nil | apply clean_remove | apply clean_place | apply clean_capture
        | apply clean_promote | apply clean_capture_promote ].

Definition cap_tog (cap:option ptype) (d:N) (me:color) : list tog :=
  match cap with Some q => [(q,d,opp me)] | None => [] end.
Definition cap_at (cap:option ptype) (me:color) : option man :=
  match cap with Some q => Some (q,opp me) | None => None end.

Section Shapes.
Variable at' : N -> option man.
Variables (s d:N) (me:color).
Hypothesis Hsd : s <> d.

(** ordinary move or capture *)
Lemma shape_plain moved cap :
  at' s = Some (moved,me) -> at' d = cap_at cap me ->
  forall k, clean k (at' k) (togs_at k ([(moved,s,me);(moved,d,me)] ++ cap_tog cap d me))
                  (if k =? d then Some (moved,me) else if k =? s then None else at' k).
Proof.
  intros Hs Hd k. unfold cap_tog. destruct cap as [q|]; cbn [app cap_at] in *;
    rewrite ?togs_at_cons, ?togs_at_nil; split_eqb; rewrite ?Hs, ?Hd; clean_tac.
Qed.

(** promotion, with or without capture *)
Lemma shape_promo pr cap :
  at' s = Some (Pawn,me) -> at' d = cap_at cap me ->
  forall k, clean k (at' k)
     (togs_at k (([(Pawn,s,me);(Pawn,d,me)] ++ cap_tog cap d me) ++ [(Pawn,d,me);(pr,d,me)]))
     (if k =? d then Some (pr,me) else if k =? s then None else at' k).
Proof.
  intros Hs Hd k. unfold cap_tog. destruct cap as [q|]; cbn [app cap_at] in *;
    rewrite ?togs_at_cons, ?togs_at_nil; split_eqb; rewrite ?Hs, ?Hd; clean_tac.
Qed.

(** en passant: the victim stands on [e] *)
Lemma shape_ep e :
  e <> s -> e <> d ->
  at' s = Some (Pawn,me) -> at' d = None -> at' e = Some (Pawn,opp me) ->
  forall k, clean k (at' k) (togs_at k (([(Pawn,s,me);(Pawn,d,me)] ++ []) ++ [(Pawn,e,opp me)]))
     (if k =? e then None else if k =? d then Some (Pawn,me) else if k =? s then None else at' k).
Proof.
  intros Hes Hed Hs Hd He k. cbn [app].
  rewrite ?togs_at_cons, ?togs_at_nil; split_eqb; rewrite ?Hs, ?Hd, ?He; clean_tac.
Qed.

(** castling: the rook jumps from [r0] to [r1] *)
Lemma shape_castle r0 r1 :
  r0 <> s -> r0 <> d -> r1 <> s -> r1 <> d -> r0 <> r1 ->
  at' s = Some (King,me) -> at' d = None -> at' r0 = Some (Rook,me) -> at' r1 = None ->
  forall k, clean k (at' k)
     (togs_at k (([(King,s,me);(King,d,me)] ++ []) ++ [(Rook,r0,me);(Rook,r1,me)]))
     (if k =? r1 then Some (Rook,me) else if k =? r0 then None
      else if k =? d then Some (King,me) else if k =? s then None else at' k).
Proof.
  intros H1 H2 H3 H4 H5 Hs Hd Hr0 Hr1 k. cbn [app].
  rewrite ?togs_at_cons, ?togs_at_nil; split_eqb; rewrite ?Hs, ?Hd, ?Hr0, ?Hr1; clean_tac.
Qed.
End Shapes.
