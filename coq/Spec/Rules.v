(** * Spec.Rules — the FIDE rules as a small executable specification.
    This file is the meaning of "legal", "successor", "check", "pinned", "status",
    "valid position" in every theorem.  It knows nothing about bitboards. *)
From Chess Require Export Spec.Geometry.
Open Scope N_scope.

Inductive color := White | Black.
Inductive ptype := Pawn | Knight | Bishop | Rook | Queen | King.
Definition opp c := match c with White => Black | Black => White end.
Definition color_eqb a b := match a,b with White,White|Black,Black => true | _,_ => false end.
Definition ptype_eqb a b :=
  match a,b with Pawn,Pawn|Knight,Knight|Bishop,Bishop|Rook,Rook|Queen,Queen|King,King => true
  | _,_ => false end.

Record pos := { placement : list (option (ptype*color));   (* 64 entries, index = rank*8+file *)
                turn : color;
                wk : bool; wq : bool; bk : bool; bq : bool;
                ep : option N (* FIDE target square: the square passed over *) }.
Definition at_ (p:pos) (s:N) := nth (N.to_nat s) (placement p) None.
Definition occ p s := match at_ p s with Some _ => true | None => false end.
Definition has p s t c :=
  match at_ p s with Some (t',c') => ptype_eqb t t' && color_eqb c c' | None => false end.
Definition colour_at p s := match at_ p s with Some (_,c) => Some c | None => None end.
Definition enemy p c s := match colour_at p s with Some c' => negb (color_eqb c c') | None => false end.
Definition own p c s := match colour_at p s with Some c' => color_eqb c c' | None => false end.

Fixpoint ray (p:pos) (s:N) (d:Z*Z) (fuel:nat) : list N :=
  match fuel with O => [] | S n =>
    match step s d with None => [] | Some s' => s' :: if occ p s' then [] else ray p s' d n end end.
Definition steps s ds := flat_map (fun d => match step s d with Some x => [x] | None => [] end) ds.
Definition slides p s ds := flat_map (fun d => ray p s d 7) ds.
Definition fwdc c : Z := match c with White => 1 | Black => -1 end%Z.
Definition pawn_caps c := [(1,fwdc c);(-1,fwdc c)]%Z.

(** squares attacked by the piece standing on [s] *)
Definition attack_set (p:pos) (s:N) : list N :=
  match at_ p s with
  | None => []
  | Some (Pawn,c) => steps s (pawn_caps c)
  | Some (Knight,_) => steps s knight_dirs
  | Some (King,_) => steps s king_dirs
  | Some (Bishop,_) => slides p s bishop_dirs
  | Some (Rook,_) => slides p s rook_dirs
  | Some (Queen,_) => slides p s king_dirs
  end.
Definition mem (x:N) l := existsb (N.eqb x) l.
Definition attacks p s t := mem t (attack_set p s).
(** the men of colour [c] that attack square [t] *)
Definition attackers (p:pos) (c:color) (t:N) : list N :=
  filter (fun s => own p c s && attacks p s t) all_sq.
Definition attacked_by p c t := match attackers p c t with [] => false | _ => true end.
Definition king_sq (p:pos) (c:color) : option N := find (fun s => has p s King c) all_sq.
Definition in_check p c := match king_sq p c with Some k => attacked_by p (opp c) k | None => false end.
(** the enemy men giving check to the side to move *)
Definition checkers_of p : list N :=
  match king_sq p (turn p) with Some k => attackers p (opp (turn p)) k | None => [] end.

Record move := { src : N; dst : N; promo : option ptype }.
Definition mv s d := {| src := s; dst := d; promo := None |}.
Definition rank_of (s:N) := N.shiftr s 3.
Definition file_of (s:N) := N.land s 7.
Definition start_rank c : N := match c with White => 1 | Black => 6 end.
Definition last_rank c : N := match c with White => 7 | Black => 0 end.
Definition promos s d :=
  map (fun t => {| src := s; dst := d; promo := Some t |}) [Queen;Knight;Rook;Bishop].
Definition pawn_to c s d := if rank_of d =? last_rank c then promos s d else [mv s d].

Definition pawn_moves p c s : list move :=
  let push := match step s (0,fwdc c)%Z with
     | Some d1 => if occ p d1 then [] else
         pawn_to c s d1 ++
         (if rank_of s =? start_rank c then
            match step d1 (0,fwdc c)%Z with
            | Some d2 => if occ p d2 then [] else [mv s d2] | None => [] end else [])
     | None => [] end in
  let caps := flat_map (fun d => if enemy p c d then pawn_to c s d
                                 else match ep p with
                                      | Some e => if e =? d then [mv s d] else [] | None => [] end)
                       (steps s (pawn_caps c)) in
  push ++ caps.

Definition home_rank c : N := match c with White => 0 | Black => 7 end.
Definition can_k p c := match c with White => wk p | Black => bk p end.
Definition can_q p c := match c with White => wq p | Black => bq p end.
Definition castle_moves p c : list move :=
  let r := home_rank c in let e := r*8+4 in
  if has p e King c && negb (attacked_by p (opp c) e) then
    (if can_k p c && has p (r*8+7) Rook c && negb (occ p (r*8+5)) && negb (occ p (r*8+6))
        && negb (attacked_by p (opp c) (r*8+5)) && negb (attacked_by p (opp c) (r*8+6))
     then [mv e (r*8+6)] else []) ++
    (if can_q p c && has p (r*8) Rook c && negb (occ p (r*8+1)) && negb (occ p (r*8+2))
        && negb (occ p (r*8+3))
        && negb (attacked_by p (opp c) (r*8+3)) && negb (attacked_by p (opp c) (r*8+2))
     then [mv e (r*8+2)] else [])
  else [].

Definition pseudo_from p s : list move :=
  let c := turn p in
  match at_ p s with
  | Some (t,c') => if color_eqb c c' then
       match t with
       | Pawn => pawn_moves p c s
       | King => map (mv s) (filter (fun d => negb (own p c d)) (attack_set p s))
                 ++ (if s =? home_rank c*8+4 then castle_moves p c else [])
       | _ => map (mv s) (filter (fun d => negb (own p c d)) (attack_set p s))
       end else []
  | None => [] end.
Definition pseudo p := flat_map (pseudo_from p) all_sq.

Fixpoint upd {A} (l:list A) (i:nat) (x:A) :=
  match l,i with [],_ => [] | _::t,O => x::t | h::t,S n => h :: upd t n x end.
Definition updN {A} (l:list A) (i:N) (x:A) := upd l (N.to_nat i) x.
Definition absdiff (a b:N) := if a <=? b then b - a else a - b.
Definition is_castle p m :=
  has p (src m) King (turn p) && (absdiff (file_of (src m)) (file_of (dst m)) =? 2).
Definition is_ep p m :=
  has p (src m) Pawn (turn p) && negb (file_of (src m) =? file_of (dst m)) && negb (occ p (dst m)).
Definition is_double p m :=
  has p (src m) Pawn (turn p) && (absdiff (rank_of (src m)) (rank_of (dst m)) =? 2).

(** The successor position.  [ep] is recorded after a double push that lands beside an enemy
    pawn (the library's convention; see DESIGN §8). *)
Definition apply (p:pos) (m:move) : pos :=
  let c := turn p in
  let piece := match at_ p (src m) with Some (t,_) => t | None => Pawn end in
  let placed := match promo m with Some t => t | None => piece end in
  let b1 := updN (updN (placement p) (src m) None) (dst m) (Some (placed,c)) in
  let b2 := if is_ep p m then updN b1 (rank_of (src m) * 8 + file_of (dst m)) None else b1 in
  let b3 := if is_castle p m then
               let r := rank_of (src m) in
               if file_of (dst m) =? 6
               then updN (updN b2 (r*8+7) None) (r*8+5) (Some (Rook,c))
               else updN (updN b2 (r*8) None) (r*8+3) (Some (Rook,c)) else b2 in
  let touch s := (src m =? s) || (dst m =? s) in
  let newep := if is_double p m then
                  let tgt := ((rank_of (src m) + rank_of (dst m)) / 2) * 8 + file_of (src m) in
                  if existsb (fun d => match step (dst m) d with
                                       | Some x => has p x Pawn (opp c) | None => false end)
                             [(1,0);(-1,0)]%Z
                  then Some tgt else None
               else None in
  {| placement := b3; turn := opp c;
     wk := wk p && negb (touch 4 || touch 7); wq := wq p && negb (touch 4 || touch 0);
     bk := bk p && negb (touch 60 || touch 63); bq := bq p && negb (touch 60 || touch 56);
     ep := newep |}.

Definition legal_moves p := filter (fun m => negb (in_check (apply p m) (turn p))) (pseudo p).

Inductive status_t := Ongoing | Stalemate | Checkmate.
Definition status p : status_t :=
  match legal_moves p with
  | _::_ => Ongoing
  | [] => if in_check p (turn p) then Checkmate else Stalemate
  end.

(** absolutely pinned men of the side to move: walking from the king along each of the
    eight rays, the first occupied square holds an own man and the next occupied square an
    enemy slider that moves along that ray. *)
Fixpoint first_occ (p:pos) (s:N) (d:Z*Z) (fuel:nat) : option N :=
  match fuel with O => None | S n =>
    match step s d with None => None | Some s' => if occ p s' then Some s' else first_occ p s' d n end end.
Definition slider_along p c (ortho:bool) s :=
  has p s Queen c || (if ortho then has p s Rook c else has p s Bishop c).
Definition pinned_of (p:pos) : list N :=
  match king_sq p (turn p) with
  | None => []
  | Some k =>
    flat_map (fun od : bool * (Z*Z) => let (o,d) := od in
      match first_occ p k d 7 with
      | Some a => if own p (turn p) a then
                    match first_occ p a d 7 with
                    | Some b => if slider_along p (opp (turn p)) o b then [a] else []
                    | None => [] end
                  else []
      | None => [] end)
      (map (fun d => (true,d)) rook_dirs ++ map (fun d => (false,d)) bishop_dirs)
  end.

(** ** Valid positions (the quantifier of C01..C06, C17, C18) *)
Definition count_if (f:N->bool) : N := N.of_nat (length (filter f all_sq)).
Definition men p c := count_if (own p c).
Definition pawns p c := count_if (fun s => has p s Pawn c).
Definition kings p c := count_if (fun s => has p s King c).
Definition with_turn p c :=
  {| placement := placement p; turn := c; wk := wk p; wq := wq p; bk := bk p; bq := bq p; ep := ep p |}.
Definition sixth_rank c : N := match c with White => 5 | Black => 2 end.
Definition ep_ok (p:pos) : bool :=
  match ep p with
  | None => true
  | Some t =>
    let c := turn p in           (* the side that may capture *)
    let o := opp c in            (* the side that just pushed *)
    (t <? 64) && (rank_of t =? sixth_rank c) &&
    match step t (0, - fwdc c)%Z, step t (0, fwdc c)%Z with
    | Some pawn_sq, Some origin =>
      has p pawn_sq Pawn o && negb (occ p t) && negb (occ p origin)
      && existsb (fun d => match step pawn_sq d with
                           | Some x => has p x Pawn c | None => false end) [(1,0);(-1,0)]%Z
      (* directly after a double push: with the pawn put back, the side to move now was
         not in check *)
      && negb (in_check
                 {| placement := updN (updN (placement p) pawn_sq None) origin (Some (Pawn,o));
                    turn := o; wk := wk p; wq := wq p; bk := bk p; bq := bq p; ep := None |} c)
    | _, _ => false end
  end.
Definition pos_valid (p:pos) : bool :=
  (length (placement p) =? 64)%nat
  && (kings p White =? 1) && (kings p Black =? 1)
  && (men p White <=? 16) && (men p Black <=? 16)
  && (pawns p White <=? 8) && (pawns p Black <=? 8)
  && forallb (fun s => negb (has p s Pawn White || has p s Pawn Black))
             [0;1;2;3;4;5;6;7;56;57;58;59;60;61;62;63]
  && negb (in_check p (opp (turn p)))
  && implb (wk p) (has p 4 King White && has p 7 Rook White)
  && implb (wq p) (has p 4 King White && has p 0 Rook White)
  && implb (bk p) (has p 60 King Black && has p 63 Rook Black)
  && implb (bq p) (has p 60 King Black && has p 56 Rook Black)
  && ep_ok p.

(** passing the turn (null move) *)
Definition pass (p:pos) : pos :=
  {| placement := placement p; turn := opp (turn p); wk := wk p; wq := wq p; bk := bk p; bq := bq p;
     ep := None |}.

(** ** Mirror images (C17) *)
Definition flip_rank_sq (s:N) : N := N.lxor s 56.
Definition flip_file_sq (s:N) : N := N.lxor s 7.
Definition swap_pc (x:option (ptype*color)) := match x with Some (t,c) => Some (t,opp c) | None => None end.
Definition mirror_v (p:pos) : pos :=   (* colours swapped, placement flipped top to bottom *)
  {| placement := map (fun s => swap_pc (at_ p (flip_rank_sq s))) all_sq; turn := opp (turn p);
     wk := bk p; wq := bq p; bk := wk p; bq := wq p; ep := option_map flip_rank_sq (ep p) |}.
Definition mirror_h (p:pos) : pos :=   (* placement flipped left to right; no castling rights *)
  {| placement := map (fun s => at_ p (flip_file_sq s)) all_sq; turn := turn p;
     wk := false; wq := false; bk := false; bq := false; ep := option_map flip_file_sq (ep p) |}.
Definition mirror_v_move m := {| src := flip_rank_sq (src m); dst := flip_rank_sq (dst m); promo := promo m |}.
Definition mirror_h_move m := {| src := flip_file_sq (src m); dst := flip_file_sq (dst m); promo := promo m |}.

Fixpoint perft (n:nat) (p:pos) : N :=
  match n with O => 1 | S k => fold_left (fun a m => a + perft k (apply p m)) (legal_moves p) 0 end.

Definition back (c:color) := map (fun t => Some (t,c)) [Rook;Knight;Bishop;Queen;King;Bishop;Knight;Rook].
Definition startpos :=
  {| placement := back White ++ repeat (Some (Pawn,White)) 8 ++ repeat None 32
              ++ repeat (Some (Pawn,Black)) 8 ++ back Black;
     turn := White; wk := true; wq := true; bk := true; bq := true; ep := None |}.
