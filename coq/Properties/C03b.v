(** * C03b — property C03, the incremental half: "a position reached incrementally by making
    moves is equal, in every observable and under ==, to the same position built from scratch".

    Vocabulary ([Proofs/CorAReach.v]):
    - [from_scratch p] ([Model.Board]): the board the library builds for the specification
      position [p]; [abs_board b]: the specification position a board shows.
    - [ReachGen p0 b]: [b] is reached from [from_scratch p0] by any finite sequence of
      (i) moves [c] that the library's own generator produced on the current board
      ([In c (moves_of b)], applied by [make_move_new] = [Board::make_move_new]) and
      (ii) null moves that [Board::null_move] accepted.  The definition does not mention the
      specification.  For a valid [p0] it coincides with [StepCanon.ReachLib p0] (moves taken
      from the specification's [legal_moves]): [C01c_reachgen_iff_reachlib].
    - [pos_valid] ([Spec.Rules]): the valid positions.
    - [board_eqb]: the derived [PartialEq] of [Board] (all sixteen fields);
      [checkers_of], [pinned_of] ([Spec.Rules]): the specification's checking men and
      absolutely pinned men; [Consistent] ([Proofs/AbsBoard.v]): the nine occupancy words agree.

    This discharges [C03_incremental_full] of [Properties/C03.v]. *)
From Coq Require Import NArith List Bool Permutation.
From Chess Require Import Base.Bits Spec.Geometry Spec.Rules Model.Board Model.MoveGen.
From Chess Require Import Proofs.AbsBoard Proofs.NullMove Proofs.GenWF Proofs.StepCanon Proofs.SpecInvGoals Proofs.CorAReach.
Import ListNotations.
Open Scope N_scope.

(** the reached board IS the from-scratch board of the position it shows (Leibniz equality of all fields: words, rights, side, en-passant square, hash, pin and check caches) *)
Theorem C03b_from_scratch : forall p0 b, pos_valid p0 = true -> ReachGen p0 b ->
  b = from_scratch (abs_board b).
Proof. exact c03b_from_scratch. Qed.
Check C03b_from_scratch : forall p0 b, pos_valid p0 = true -> ReachGen p0 b ->
  b = from_scratch (abs_board b).
Print Assumptions C03b_from_scratch.

(** ... in particular under the library's ==, and for the public hash and the two caches *)
Theorem C03b_eq : forall p0 b, pos_valid p0 = true -> ReachGen p0 b ->
  board_eqb b (from_scratch (abs_board b)) = true /\
  get_hash b = get_hash (from_scratch (abs_board b)) /\
  pinned b = pinned (from_scratch (abs_board b)) /\
  checkers b = checkers (from_scratch (abs_board b)).
Proof. exact c03b_eq. Qed.
Check C03b_eq : forall p0 b, pos_valid p0 = true -> ReachGen p0 b ->
  board_eqb b (from_scratch (abs_board b)) = true /\
  get_hash b = get_hash (from_scratch (abs_board b)) /\
  pinned b = pinned (from_scratch (abs_board b)) /\
  checkers b = checkers (from_scratch (abs_board b)).
Print Assumptions C03b_eq.

(** the check cache is exactly the specification's set of checkers *)
Theorem C03b_checkers : forall p0 b, pos_valid p0 = true -> ReachGen p0 b ->
  forall s, s < 64 -> (N.testbit (checkers b) s = true <-> In s (checkers_of (abs_board b))).
Proof. exact c03b_checkers. Qed.
Check C03b_checkers : forall p0 b, pos_valid p0 = true -> ReachGen p0 b ->
  forall s, s < 64 -> (N.testbit (checkers b) s = true <-> In s (checkers_of (abs_board b))).
Print Assumptions C03b_checkers.

(** the pin cache, on the mover's men, is exactly the specification's set of absolutely pinned men *)
Theorem C03b_pinned : forall p0 b, pos_valid p0 = true -> ReachGen p0 b ->
  forall s, s < 64 ->
  (N.testbit (N.land (pinned b) (color_combined b (stm b))) s = true <-> In s (pinned_of (abs_board b))).
Proof. exact c03b_pinned. Qed.
Check C03b_pinned : forall p0 b, pos_valid p0 = true -> ReachGen p0 b ->
  forall s, s < 64 ->
  (N.testbit (N.land (pinned b) (color_combined b (stm b))) s = true <-> In s (pinned_of (abs_board b))).
Print Assumptions C03b_pinned.

(** the occupancy words agree with each other *)
Theorem C03b_consistent : forall p0 b, pos_valid p0 = true -> ReachGen p0 b ->
  Consistent b.
Proof. exact c03b_consistent. Qed.
Check C03b_consistent : forall p0 b, pos_valid p0 = true -> ReachGen p0 b ->
  Consistent b.
Print Assumptions C03b_consistent.

(** the check cache is non-empty exactly when the side to move is in check *)
Theorem C03b_in_check : forall p0 b, pos_valid p0 = true -> ReachGen p0 b ->
  (checkers b <> 0 <-> in_check (abs_board b) (stm b) = true).
Proof. exact c03b_in_check. Qed.
Check C03b_in_check : forall p0 b, pos_valid p0 = true -> ReachGen p0 b ->
  (checkers b <> 0 <-> in_check (abs_board b) (stm b) = true).
Print Assumptions C03b_in_check.

(** one step, both textual copies of the move application (the statement [C03_incremental_full] of [Properties/C03.v]) *)
Theorem C03b_incremental : forall b m, Canonical b -> pos_valid (abs_board b) = true -> In m (legal_moves (abs_board b)) ->
  (exists b', make_move_new b (src m) (dst m) (promo m) = Some b' /\
              b' = from_scratch (apply (abs_board b) m)) /\
  (forall r0, exists b', make_move b (src m) (dst m) (promo m) r0 = Some b' /\
              b' = from_scratch (apply (abs_board b) m)).
Proof. exact c03b_incremental. Qed.
Check C03b_incremental : forall b m, Canonical b -> pos_valid (abs_board b) = true -> In m (legal_moves (abs_board b)) ->
  (exists b', make_move_new b (src m) (dst m) (promo m) = Some b' /\
              b' = from_scratch (apply (abs_board b) m)) /\
  (forall r0, exists b', make_move b (src m) (dst m) (promo m) r0 = Some b' /\
              b' = from_scratch (apply (abs_board b) m)).
Print Assumptions C03b_incremental.

(** path independence, whole boards: two reached boards showing the same position are equal *)
Theorem C03b_path_independent : forall p1 p2 b1 b2, pos_valid p1 = true -> pos_valid p2 = true ->
  ReachGen p1 b1 -> ReachGen p2 b2 -> abs_board b1 = abs_board b2 -> b1 = b2.
Proof. exact c03b_path_independent. Qed.
Check C03b_path_independent : forall p1 p2 b1 b2, pos_valid p1 = true -> pos_valid p2 = true ->
  ReachGen p1 b1 -> ReachGen p2 b2 -> abs_board b1 = abs_board b2 -> b1 = b2.
Print Assumptions C03b_path_independent.
