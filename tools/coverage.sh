#!/bin/bash
# Measures which lines / regions of /repo/src the correspondence streams execute (generator
# quality): nightly toolchain, -C instrument-coverage, llvm-cov report.  Writes coverage/summary.txt
set -e
cd /verif
export CARGO_NET_OFFLINE=true CARGO_TARGET_DIR=/verif/build/cargo-cov RUSTFLAGS="-C instrument-coverage --cfg chess_verif"
BIN=~/.rustup/toolchains/nightly-x86_64-unknown-linux-gnu/lib/rustlib/x86_64-unknown-linux-gnu/bin
(cd harness && cargo +nightly build --release --offline 2>&1 | tail -1)
H=$CARGO_TARGET_DIR/release/vharness
rm -rf build/cov && mkdir -p build/cov coverage
run() { LLVM_PROFILE_FILE=build/cov/$1-%p.profraw VERIF_SEED=${SEED:-1} "$H" "${@:2}" > /dev/null; }
run dumpfns dumpfns
for sh in 0 5 11; do VERIF_SHARD=$sh VERIF_NSHARDS=16 run pos$sh pos 14 full; VERIF_SHARD=$sh VERIF_NSHARDS=16 run mir$sh mirror 6; VERIF_SHARD=$sh VERIF_NSHARDS=16 run fen$sh fen 20; VERIF_SHARD=$sh VERIF_NSHARDS=16 run it$sh iter 8; done
run builder builder 4000; run crowded crowded 1500; run fenfuzz fenfuzz 6000; run san san 20; run uci uci 20000
VERIF_SEED=3 "$H" pos 4 nosucc | /verif/build/ocaml/driver sangen | LLVM_PROFILE_FILE=build/cov/sanparse-%p.profraw "$H" sanparse > /dev/null
VERIF_SEED=3 "$H" fen 10 | /verif/build/ocaml/driver fengen | LLVM_PROFILE_FILE=build/cov/fenparse-%p.profraw "$H" fenparse > /dev/null
run gamem game 150 mix; run gamed game 6 draw; run magic magic 1; run pawnfns pawnfns 2; run cache cache 3000; run bits bits 5000; run zob zob 10; run miri miri
$BIN/llvm-profdata merge -sparse build/cov/*.profraw -o build/cov/all.profdata
$BIN/llvm-cov report "$H" -instr-profile=build/cov/all.profdata $(ls /repo/src/*.rs /repo/src/movegen/*.rs) 2>/dev/null | sed 's#/repo/src/##' > coverage/summary.txt
$BIN/llvm-cov show "$H" -instr-profile=build/cov/all.profdata -show-line-counts-or-regions $(ls /repo/src/board.rs /repo/src/movegen/*.rs /repo/src/game.rs /repo/src/chess_move.rs /repo/src/board_builder.rs /repo/src/cache_table.rs) 2>/dev/null | grep -E "^\s+[0-9]+\|\s+0\|" | grep -v "^\s*[0-9]*|\s*0|\s*$" | head -150 > coverage/uncovered_lines.txt || true
tail -30 coverage/summary.txt
