(** * Proofs.GenKingBase — shared machinery for the king / castling / en-passant parts of the
    move-generator refinement (C01): list updates of a placement, "is square [k] attacked"
    for an arbitrary position as a per-square test over an occupancy word, the per-square
    reading of the attack word computed by [legal_king_move], and the standing facts that
    follow from "canonical board of a valid position". *)
From Coq Require Import Lia ZifyBool ZifyN ZifyNat.
From Chess Require Import Base.Bits Spec.Geometry Spec.Rules Model.Board Model.MoveGen.
From Chess Require Import Proofs.BitsFacts Proofs.TablesLib Proofs.TablesMeaning Proofs.AbsBoard
                          Proofs.CanonAttack Proofs.CanonCheckers Proofs.CanonPinned
                          Proofs.NullMove Proofs.CanonNullMove Proofs.GenInterface.
Open Scope N_scope.

(** ** 0. Small facts *)
Lemma ceqb_refl c : color_eqb c c = true.
Proof. destruct c; reflexivity. Qed.
Lemma ceqb_opp c : color_eqb (opp c) c = false.
Proof. destruct c; reflexivity. Qed.
Lemma ceqb_opp' c : color_eqb c (opp c) = false.
Proof. destruct c; reflexivity. Qed.
Lemma ceqb_eq a b : color_eqb a b = true -> a = b.
Proof. destruct a, b; try reflexivity; discriminate. Qed.

Lemma existsb_ext_in {A} (f g:A->bool) l : (forall x, In x l -> f x = g x) -> existsb f l = existsb g l.
Proof.
  induction l as [|a l IH]; intro H; cbn [existsb]; [reflexivity|].
  rewrite (H a (or_introl eq_refl)), IH; [reflexivity|]. intros x Hx. apply H. right. exact Hx.
Qed.
Lemma existsb_false_in {A} (f:A->bool) l : (forall x, In x l -> f x = false) -> existsb f l = false.
Proof.
  induction l as [|a l IH]; intro H; cbn [existsb]; [reflexivity|].
  rewrite (H a (or_introl eq_refl)), IH; [reflexivity|]. intros x Hx. apply H. right. exact Hx.
Qed.
Lemma existsb_orb {A} (f g:A->bool) l : existsb (fun x => f x || g x) l = existsb f l || existsb g l.
Proof.
  induction l as [|a l IH]; cbn [existsb]; [reflexivity|]. rewrite IH.
  destruct (f a), (g a), (existsb f l), (existsb g l); reflexivity.
Qed.
Lemma existsb_false_all {A} (f:A->bool) l : existsb f l = false -> forall x, In x l -> f x = false.
Proof.
  intros H x Hx. destruct (f x) eqn:E; [|reflexivity].
  assert (existsb f l = true) by (apply existsb_exists; exists x; split; assumption). congruence.
Qed.
Lemma filter_nonempty {A} (f:A->bool) l : match filter f l with [] => false | _ => true end = existsb f l.
Proof.
  induction l as [|a l IH]; cbn [filter existsb]; [reflexivity|].
  destruct (f a); [reflexivity|exact IH].
Qed.

(** a 64-bit word is zero iff none of its 64 bits is set *)
Lemma word_zero_existsb x : x < 2^64 -> (x =? 0) = negb (existsb (N.testbit x) all_sq).
Proof.
  intro Hx. destruct (N.eqb_spec x 0) as [->|Hne].
  - rewrite existsb_false_in; [reflexivity|]. intros k _. apply N.bits_0.
  - destruct (to_square_min x Hne Hx) as [_ [Hb _]].
    assert (existsb (N.testbit x) all_sq = true) as ->; [|reflexivity].
    apply existsb_exists. exists (to_square x). split; [|exact Hb].
    apply in_all_sq, to_square_lt64.
Qed.

Lemma land_lor_bits2 x a c :
  (N.land x (N.lor (bit a) (bit c)) =? 0) = negb (N.testbit x a) && negb (N.testbit x c).
Proof.
  destruct (N.eqb_spec (N.land x (N.lor (bit a) (bit c))) 0) as [E|E].
  - pose proof (land0_bits _ _ E a) as Ha. pose proof (land0_bits _ _ E c) as Hc.
    rewrite N.lor_spec, !TablesLib.testbit_bit, N.eqb_refl in Ha, Hc.
    rewrite orb_true_r in Hc. cbn [orb] in Ha. rewrite andb_true_r in Ha, Hc. rewrite Ha, Hc. reflexivity.
  - destruct (N.testbit x a) eqn:Ha; [reflexivity|]. destruct (N.testbit x c) eqn:Hc; [reflexivity|].
    exfalso. apply E. apply bits_land0. intro k. rewrite N.lor_spec, !TablesLib.testbit_bit.
    destruct (N.eqb_spec a k) as [<-|_]; [rewrite Ha; reflexivity|].
    destruct (N.eqb_spec c k) as [<-|_]; [rewrite Hc; reflexivity|]. apply andb_false_r.
Qed.
Lemma land_lor_bits3 x a c d :
  (N.land x (N.lor (N.lor (bit a) (bit c)) (bit d)) =? 0)
  = negb (N.testbit x a) && negb (N.testbit x c) && negb (N.testbit x d).
Proof.
  destruct (N.eqb_spec (N.land x (N.lor (N.lor (bit a) (bit c)) (bit d))) 0) as [E|E].
  - pose proof (land0_bits _ _ E a) as Ha. pose proof (land0_bits _ _ E c) as Hc.
    pose proof (land0_bits _ _ E d) as Hd.
    rewrite !N.lor_spec, !TablesLib.testbit_bit, N.eqb_refl in Ha, Hc, Hd.
    rewrite ?orb_true_r in Hc, Hd. cbn [orb] in Ha. rewrite andb_true_r in Ha, Hc, Hd.
    rewrite Ha, Hc, Hd. reflexivity.
  - destruct (N.testbit x a) eqn:Ha; [reflexivity|]. destruct (N.testbit x c) eqn:Hc; [reflexivity|].
    destruct (N.testbit x d) eqn:Hd; [reflexivity|].
    exfalso. apply E. apply bits_land0. intro k. rewrite !N.lor_spec, !TablesLib.testbit_bit.
    destruct (N.eqb_spec a k) as [<-|_]; [rewrite Ha; reflexivity|].
    destruct (N.eqb_spec c k) as [<-|_]; [rewrite Hc; reflexivity|].
    destruct (N.eqb_spec d k) as [<-|_]; [rewrite Hd; reflexivity|]. apply andb_false_r.
Qed.

(** ** 1. Updating a placement *)
Lemma upd_length {A} (l:list A) i x : length (upd l i x) = length l.
Proof. revert i. induction l as [|a l IH]; intros [|i]; cbn [upd length]; try reflexivity. rewrite IH. reflexivity. Qed.
Lemma nth_upd_eq {A} (l:list A) i x d : (i < length l)%nat -> nth i (upd l i x) d = x.
Proof. revert i. induction l as [|a l IH]; intros [|i] H; cbn [upd nth length] in *; try lia; [reflexivity|]. apply IH. lia. Qed.
Lemma nth_upd_ne {A} (l:list A) i j x d : i <> j -> nth j (upd l i x) d = nth j l d.
Proof.
  revert i j. induction l as [|a l IH]; intros [|i] [|j] H; cbn [upd nth]; try reflexivity; try congruence.
  apply IH. congruence.
Qed.
Definition atl (l:list (option (ptype*color))) (s:N) := nth (N.to_nat s) l None.
Lemma at_atl p s : at_ p s = atl (placement p) s.
Proof. reflexivity. Qed.
Lemma atl_updN l i x s : length l = 64%nat -> i < 64 ->
  atl (updN l i x) s = if s =? i then x else atl l s.
Proof.
  intros Hl Hi. unfold atl, updN. destruct (N.eqb_spec s i) as [->|Hne].
  - apply nth_upd_eq. lia.
  - apply nth_upd_ne. lia.
Qed.
Lemma updN_length {A} (l:list A) i x : length (updN l i x) = length l.
Proof. apply upd_length. Qed.

(** ** 2. Attacks in an arbitrary position, square by square *)
(** does the man [x] standing on [s] have colour [c] and attack [k], the occupancy being [w] *)
Definition att_sq (x:option (ptype*color)) (c:color) (s k w:N) : bool :=
  match x with
  | Some (q,c') => color_eqb c c' &&
      match q with
      | Pawn => N.testbit (pawn_attack_tab (is_white c') s) k
      | Knight => N.testbit (knight_moves s) k
      | King => N.testbit (king_moves s) k
      | Bishop => N.testbit (bishop_walk s w) k
      | Rook => N.testbit (rook_walk s w) k
      | Queen => N.testbit (rook_walk s w) k || N.testbit (bishop_walk s w) k
      end
  | None => false end.
(** the same seen from the attacked square, as the code computes it ([me] = the attacked side) *)
Definition att_rev (x:option (ptype*color)) (me:color) (s k w:N) : bool :=
  match x with
  | Some (q,c') => color_eqb (opp me) c' &&
      match q with
      | Pawn => N.testbit (pawn_attack_tab (is_white me) k) s
      | Knight => N.testbit (knight_moves k) s
      | King => N.testbit (king_moves k) s
      | Bishop => N.testbit (bishop_walk k w) s
      | Rook => N.testbit (rook_walk k w) s
      | Queen => N.testbit (rook_walk k w) s || N.testbit (bishop_walk k w) s
      end
  | None => false end.

Lemma att_sq_rev x me s k w : s < 64 -> k < 64 -> att_sq x (opp me) s k w = att_rev x me s k w.
Proof.
  intros Hs Hk. unfold att_sq, att_rev. destruct x as [[q c']|]; [|reflexivity].
  destruct (color_eqb (opp me) c') eqn:Hc; [|reflexivity]. cbn [andb].
  apply ceqb_eq in Hc. subst c'.
  destruct q.
  - rewrite (pawn_attack_sym (opp me) s k Hs Hk), opp_opp'. reflexivity.
  - apply knight_moves_sym; assumption.
  - apply bishop_walk_sym; assumption.
  - apply rook_walk_sym; assumption.
  - rewrite (rook_walk_sym s k w Hs Hk), (bishop_walk_sym s k w Hs Hk). reflexivity.
  - apply king_moves_sym; assumption.
Qed.

Lemma mem_app x l1 l2 : mem x (l1 ++ l2) = mem x l1 || mem x l2.
Proof. unfold mem. apply existsb_app. Qed.

Section GenAttack.
Variable p : pos.
Variable w : N.
Hypothesis Hocc : forall x, x < 64 -> occ p x = N.testbit w x.

Lemma mem_slides ds s t : s < 64 -> mem t (slides p s ds) = N.testbit (slide ds s w) t.
Proof.
  intro Hs. apply eq_true_iff_eq. rewrite mem_in. apply (slides_slide p w Hocc ds s t Hs).
Qed.

Lemma own_attacks_gen c s k : s < 64 -> k < 64 ->
  own p c s && attacks p s k = att_sq (at_ p s) c s k w.
Proof.
  intros Hs Hk. unfold own, colour_at, attacks, attack_set, att_sq.
  destruct (at_ p s) as [[q c']|]; [|reflexivity].
  destruct (color_eqb c c'); [|reflexivity]. cbn [andb].
  destruct (steps_facts s k Hs Hk) as [Hkn [Hkg [_ [_ Hpw]]]].
  destruct q.
  - exact (proj1 (Hpw c')).
  - exact Hkn.
  - apply mem_slides, Hs.
  - apply mem_slides, Hs.
  - unfold king_dirs. rewrite slides_app, mem_app, !mem_slides by exact Hs. reflexivity.
  - exact Hkg.
Qed.

Theorem attacked_by_gen c k : k < 64 ->
  attacked_by p c k = existsb (fun s => att_sq (at_ p s) c s k w) all_sq.
Proof.
  intro Hk. unfold attacked_by, attackers. rewrite filter_nonempty.
  apply existsb_ext_in. intros s Hs. apply in_all_sq in Hs. apply own_attacks_gen; assumption.
Qed.

Theorem in_check_gen c k : king_sq p c = Some k -> k < 64 ->
  in_check p c = existsb (fun s => att_sq (at_ p s) (opp c) s k w) all_sq.
Proof. intros Hk Hlt. unfold in_check. rewrite Hk. apply attacked_by_gen, Hlt. Qed.
End GenAttack.

Lemma king_sq_unique p c k : k < 64 -> (forall s, s < 64 -> has p s King c = (s =? k)) ->
  king_sq p c = Some k.
Proof.
  intros Hk H. unfold king_sq. rewrite <- (find_eqb_all_sq k Hk). apply find_ext_in.
  intros s Hs. apply in_all_sq in Hs. rewrite (H s Hs). apply N.eqb_sym.
Qed.

(** non-sliders do not look at the occupancy *)
Definition slider_at (x:option (ptype*color)) : bool :=
  match x with Some (Bishop,_) | Some (Rook,_) | Some (Queen,_) => true | _ => false end.
Lemma att_sq_nonslider x c s k w w' : slider_at x = false -> att_sq x c s k w = att_sq x c s k w'.
Proof. destruct x as [[[] c']|]; cbn; intro H; try discriminate H; reflexivity. Qed.

(** nobody attacks the square he stands on *)
Lemma self_sweep :
  forallb (fun d => negb (N.testbit (knight_moves d) d) && negb (N.testbit (king_moves d) d)
                    && negb (N.testbit (pawn_attack_tab true d) d) && negb (N.testbit (pawn_attack_tab false d) d)
                    && negb (aligned_o d d) && negb (aligned_d d d)) all_sq = true.
Proof. vm_cast_no_check (eq_refl true). Qed.
Lemma att_rev_self x me d w : d < 64 -> att_rev x me d d w = false.
Proof.
  intro Hd. pose proof (sweep64 _ self_sweep d Hd) as H. cbv beta in H.
  repeat (apply andb_prop in H; destruct H as [H ?]).
  repeat match goal with Hx : negb _ = true |- _ => apply negb_true_iff in Hx end.
  unfold att_rev. destruct x as [[q c']|]; [|reflexivity].
  rewrite (rook_walk_between d d w Hd Hd), (bishop_walk_between d d w Hd Hd).
  destruct q, me; cbn [is_white];
    repeat match goal with Hx : _ = false |- _ => rewrite Hx; clear Hx end;
    cbn [andb orb]; apply andb_false_r.
Qed.

(** ** 3. The attack word of [legal_king_move], square by square *)
Definition lkm_att (b:board) (dest:N) : N :=
  let me := stm b in let them := color_combined b (opp me) in
  let combined := N.lor (N.lxor (comb b) (N.land (pK b) (color_combined b me))) (bit dest) in
  let att := N.land (get_rook_moves dest combined) (N.land (N.lor (pR b) (pQ b)) them) in
  let att := N.lor att (N.land (get_bishop_moves dest combined) (N.land (N.lor (pB b) (pQ b)) them)) in
  let att := N.lor att (N.land (N.land (knight_moves dest) (pN b)) them) in
  let att := N.lor att (N.land (N.land (king_moves dest) (pK b)) them) in
  N.lor att (get_pawn_attacks dest me (N.land (pP b) them)).
Lemma legal_king_move_att b d : legal_king_move b d = (lkm_att b d =? 0).
Proof. reflexivity. Qed.

Lemma code_att_bool (x:option (ptype*color)) (c:color) (rw bw kn kg pw:bool) :
  rw && ((pget Rook (enc x) || pget Queen (enc x)) && cget c (enc x))
  || bw && ((pget Bishop (enc x) || pget Queen (enc x)) && cget c (enc x))
  || kn && pget Knight (enc x) && cget c (enc x)
  || kg && pget King (enc x) && cget c (enc x)
  || pw && (pget Pawn (enc x) && cget c (enc x))
  = match x with
    | Some (q,c') => color_eqb c c' &&
        match q with Pawn => pw | Knight => kn | King => kg | Bishop => bw | Rook => rw
                   | Queen => rw || bw end
    | None => false end.
Proof.
  destruct x as [[[] []]|], c, rw, bw, kn, kg, pw; reflexivity.
Qed.

Section BoardBits.
Variable b : board.
Hypothesis HC : Consistent b.

Lemma piece_bit q s : s < 64 -> N.testbit (pieces b q) s = pget q (enc (at_ (abs_board b) s)).
Proof. intro Hs. rewrite <- (bitsat_enc b s HC Hs), pget_bitsat. reflexivity. Qed.
Lemma colour_bit c s : s < 64 -> N.testbit (color_combined b c) s = cget c (enc (at_ (abs_board b) s)).
Proof. intro Hs. rewrite <- (bitsat_enc b s HC Hs), cget_bitsat. reflexivity. Qed.

Lemma lkm_att_bit d s : s < 64 ->
  N.testbit (lkm_att b d) s
  = att_rev (at_ (abs_board b) s) (stm b) s d
      (N.lor (N.lxor (comb b) (N.land (pK b) (color_combined b (stm b)))) (bit d)).
Proof.
  intro Hs. unfold lkm_att, get_rook_moves, get_bishop_moves, get_pawn_attacks. cbv zeta.
  rewrite !N.lor_spec, !N.land_spec, !N.lor_spec.
  change (pR b) with (pieces b Rook). change (pQ b) with (pieces b Queen).
  change (pB b) with (pieces b Bishop). change (pN b) with (pieces b Knight).
  change (pP b) with (pieces b Pawn).
  change (N.testbit (pK b) s) with (N.testbit (pieces b King) s).
  rewrite !piece_bit, colour_bit by exact Hs.
  rewrite code_att_bool. reflexivity.
Qed.

Lemma lkm_att_lt64 d : lkm_att b d < 2^64.
Proof.
  apply lt64_bits. intros k Hk.
  pose proof (BitsFacts.testbit_high _ k (cs_colors_lt b HC (opp (stm b))) Hk) as Hthem.
  unfold lkm_att, get_pawn_attacks. cbv zeta.
  rewrite !N.lor_spec, !N.land_spec, Hthem, !andb_false_r. reflexivity.
Qed.

Theorem legal_king_move_existsb d :
  legal_king_move b d
  = negb (existsb (fun s => att_rev (at_ (abs_board b) s) (stm b) s d
             (N.lor (N.lxor (comb b) (N.land (pK b) (color_combined b (stm b)))) (bit d))) all_sq).
Proof.
  rewrite legal_king_move_att, (word_zero_existsb _ (lkm_att_lt64 d)). f_equal.
  apply existsb_ext_in. intros s Hs. apply in_all_sq in Hs. apply lkm_att_bit, Hs.
Qed.
End BoardBits.

(** ** 4. Standing facts: the canonical board of a valid position *)
Record Setup (b:board) : Prop := mkSetup {
  su_can : Canonical b;
  su_cons : Consistent b;
  su_king : forall c, popcnt (N.land (pK b) (color_combined b c)) = 1;
  su_apart : kings_apart b;
  su_len : length (placement (abs_board b)) = 64%nat }.

Lemma setup_of b : b = from_scratch (abs_board b) -> pos_valid (abs_board b) = true -> Setup b.
Proof.
  intros HCan Hv. pose proof (canonical_consistent b HCan) as HC.
  destruct (pos_valid_facts _ Hv) as [KW [KB Hnc]].
  assert (Hk : forall c, popcnt (N.land (pK b) (color_combined b c)) = 1).
  { intro c. rewrite <- (kings_abs b c HC). destruct c; assumption. }
  constructor; try assumption.
  - apply not_in_check_kings_apart; try exact HC; try apply Hk. exact Hnc.
  - unfold abs_board. cbn [placement]. rewrite map_length. reflexivity.
Qed.

Section SetupFacts.
Variable b : board.
Hypothesis HS : Setup b.
Local Notation p := (abs_board b).
Local Notation me := (stm b).
Local Notation k := (king_square b (stm b)).

Lemma su_k_lt : k < 64.
Proof. exact (proj1 (one_king_bit b me (su_cons b HS) (su_king b HS me))). Qed.
Lemma su_kingbit : N.land (pK b) (color_combined b me) = bit k.
Proof. exact (proj2 (one_king_bit b me (su_cons b HS) (su_king b HS me))). Qed.
Lemma su_king_sq : king_sq p me = Some k.
Proof. exact (king_square_spec b me (su_cons b HS) (su_king b HS me)). Qed.
Lemma su_kingsq : kingsq p = k.
Proof. unfold kingsq. change (turn p) with me. rewrite su_king_sq. reflexivity. Qed.
Lemma su_has_king s : s < 64 -> has p s King me = (s =? k).
Proof.
  intro Hs. rewrite (has_abs b s King me (su_cons b HS) Hs). cbn [pieces].
  rewrite <- N.land_spec, su_kingbit, TablesLib.testbit_bit. apply N.eqb_sym.
Qed.
Lemma su_at_king : at_ p k = Some (King, me).
Proof.
  pose proof (su_has_king k su_k_lt) as H. rewrite N.eqb_refl in H. unfold has in H.
  destruct (at_ p k) as [[q c]|]; [|discriminate H].
  apply andb_prop in H. destruct H as [H1 H2]. apply ceqb_eq in H2. subst c.
  destruct q; try discriminate H1. reflexivity.
Qed.
Lemma su_occ x : x < 64 -> occ p x = N.testbit (comb b) x.
Proof. intro Hx. apply (occ_abs b x (su_cons b HS) Hx). Qed.
Lemma su_in_check : in_check p me = existsb (fun s => att_sq (at_ p s) (opp me) s k (comb b)) all_sq.
Proof. apply (in_check_gen p (comb b) su_occ me k su_king_sq su_k_lt). Qed.
Lemma su_checkers : (checkers b =? 0) = negb (in_check p me).
Proof.
  pose proof (canonical_checkers_in_check b (su_can b HS) (su_king b HS (stm b)) (su_apart b HS)) as H.
  destruct (N.eqb_spec (checkers b) 0) as [E|E].
  - destruct (in_check p me); [|reflexivity]. exfalso. apply (proj2 H); [reflexivity|exact E].
  - rewrite (proj1 H E). reflexivity.
Qed.
End SetupFacts.

(** ** 5. The successor's placement, by kind of move *)
Definition moved_piece (p:pos) (m:move) : ptype :=
  match at_ p (src m) with Some (t,_) => t | None => Pawn end.
Lemma apply_placement_plain p m : is_ep p m = false -> is_castle p m = false -> promo m = None ->
  placement (apply p m)
  = updN (updN (placement p) (src m) None) (dst m) (Some (moved_piece p m, turn p)).
Proof. intros H1 H2 H3. unfold apply, moved_piece. cbn [placement]. rewrite H1, H2, H3. reflexivity. Qed.
Lemma apply_placement_ep p m : is_ep p m = true -> is_castle p m = false -> promo m = None ->
  placement (apply p m)
  = updN (updN (updN (placement p) (src m) None) (dst m) (Some (moved_piece p m, turn p)))
         (rank_of (src m) * 8 + file_of (dst m)) None.
Proof. intros H1 H2 H3. unfold apply, moved_piece. cbn [placement]. rewrite H1, H2, H3. reflexivity. Qed.
Lemma apply_placement_castle p m : is_ep p m = false -> is_castle p m = true -> promo m = None ->
  placement (apply p m)
  = let b2 := updN (updN (placement p) (src m) None) (dst m) (Some (moved_piece p m, turn p)) in
    let r := rank_of (src m) in
    if file_of (dst m) =? 6
    then updN (updN b2 (r*8+7) None) (r*8+5) (Some (Rook, turn p))
    else updN (updN b2 (r*8) None) (r*8+3) (Some (Rook, turn p)).
Proof. intros H1 H2 H3. unfold apply, moved_piece. cbn [placement]. rewrite H1, H2, H3. reflexivity. Qed.
