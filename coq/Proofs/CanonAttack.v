(** * Proofs.CanonAttack — C03, part 2: the specification's attacks in bitboard form.
    [Rules.ray] walks like [Geometry.walk]; one ray of [walk] is "on that ray and nothing
    in between" ([between]); steps are the knight / king / pawn tables; hence the set of men of
    one colour attacking a square is the usual "attackers-to" word ([attackers_bb]). *)
From Coq Require Import Lia ZifyBool ZifyN ZifyNat.
From Chess Require Import Base.Bits Spec.Geometry Spec.Rules Model.Board.
From Chess Require Import Proofs.BitsFacts Proofs.WalkDep Proofs.TablesLib Proofs.TablesEq
                          Proofs.TablesMeaning Proofs.AbsBoard.
Open Scope N_scope.

Lemma land_lt64_l a b : a < 2^64 -> N.land a b < 2^64.
Proof.
  intro Ha. apply lt64_bits. intros k Hk. rewrite N.land_spec, (BitsFacts.testbit_high a k Ha Hk).
  reflexivity.
Qed.

(** ** 1. [Rules.ray] is [Geometry.walk] *)
Section RayWalk.
Variable p : pos.
Variable w : N.
Hypothesis Hocc : forall x, x < 64 -> occ p x = N.testbit w x.

Lemma ray_walk d n : forall s t, s < 64 ->
  (In t (ray p s d n) <-> N.testbit (walk n w (fileZ s) (rankZ s) (fst d) (snd d)) t = true).
Proof.
  induction n as [|n IH]; intros s t Hs; cbn [ray walk].
  - rewrite N.bits_0. split; [intros []|discriminate].
  - unfold step.
    destruct (on_board (fileZ s + fst d) (rankZ s + snd d)) eqn:Hob.
    + apply on_board_iff in Hob. destruct Hob as [Hf Hr].
      destruct (idx_coords _ _ Hf Hr) as [Hlt [Hfi Hri]].
      rewrite (Hocc _ Hlt).
      destruct (N.testbit w (idx (fileZ s + fst d) (rankZ s + snd d))).
      * rewrite TablesLib.testbit_bit. cbn [In]. rewrite N.eqb_eq. tauto.
      * rewrite N.lor_spec, TablesLib.testbit_bit, orb_true_iff, N.eqb_eq. cbn [In].
        rewrite (IH _ t Hlt), Hfi, Hri. tauto.
    + rewrite N.bits_0. split; [intros []|discriminate].
Qed.

Lemma ray_lt64 d n : forall s t, s < 64 -> In t (ray p s d n) -> t < 64.
Proof.
  induction n as [|n IH]; intros s t Hs; cbn [ray]; [intros []|].
  destruct (step s d) as [s'|] eqn:Hst; [|intros []].
  apply step_spec in Hst; [|exact Hs]. destruct Hst as [Hlt _].
  destruct (occ p s'); cbn [In]; intros [<-|H]; try exact Hlt; try contradiction.
  exact (IH s' t Hlt H).
Qed.

(** [first_occ] is the occupied member of the ray *)
Lemma first_occ_ray d n : forall s a,
  first_occ p s d n = Some a <-> In a (ray p s d n) /\ occ p a = true.
Proof.
  induction n as [|n IH]; intros s a; cbn [first_occ ray].
  - split; [discriminate|intros [[] _]].
  - destruct (step s d) as [s'|]; [|split; [discriminate|intros [[] _]]].
    destruct (occ p s') eqn:Ho.
    + cbn [In]. split.
      * intro H. injection H as <-. split; [left; reflexivity|exact Ho].
      * intros [[<-|[]] _]. reflexivity.
    + rewrite IH. cbn [In]. split.
      * intros [Hin Hoa]. split; [right; exact Hin|exact Hoa].
      * intros [[<-|Hin] Hoa]; [congruence|split; assumption].
Qed.

Lemma slides_in s t ds : In t (slides p s ds) <-> exists d, In d ds /\ In t (ray p s d 7).
Proof. unfold slides. apply in_flat_map. Qed.

(** sliders in the form asked for: the flat-mapped rays are the [slide] word *)
Theorem slides_slide ds s t : s < 64 ->
  (In t (slides p s ds) <-> N.testbit (slide ds s w) t = true).
Proof.
  intro Hs. rewrite slides_in. unfold slide.
  rewrite (fold_lor_testbit (fun d => walk 7 w (fileZ s) (rankZ s) (fst d) (snd d))).
  rewrite N.bits_0, orb_false_l, existsb_exists.
  split; intros [d [Hd H]]; exists d; (split; [exact Hd|]); apply (ray_walk d 7 s t Hs); exact H.
Qed.
End RayWalk.

(** ** 2. One ray: on the ray, and nothing in between *)
Fixpoint ray_sq (s:N) (d:Z*Z) (n:nat) : list N :=
  match n with O => [] | S n' =>
    match step s d with None => [] | Some s' => s' :: ray_sq s' d n' end end.
(** [t] lies on the ray leaving [s] in direction [d] *)
Definition on_dir (s t:N) (d:Z*Z) : bool := mem t (ray_sq s d 7).
Definition two64 : N := 18446744073709551616.

Definition ray_sweep_sd (d:Z*Z) (s:N) : bool :=
  (fun (m:N) (row:list N) (rs:list N) =>
     (m <? two64)
     && forallb (fun t => implb (mem t rs) (N.land (nthN row t 0) m =? nthN row t 0)) all_sq
     && forallb (fun sub =>
          (fun wv => forallb (fun t =>
             Bool.eqb (N.testbit wv t) (mem t rs && (N.land (nthN row t 0) sub =? 0))) all_sq)
            (walk 7 sub (fileZ s) (rankZ s) (fst d) (snd d)))
          (subsets (bits_of m)))
    (rmask 7 (fileZ s) (rankZ s) (fst d) (snd d)) (nthN BETWEEN s []) (ray_sq s d 7).

Lemma ray_sweep : forallb (fun d => forallb (ray_sweep_sd d) all_sq) king_dirs = true.
Proof. vm_cast_no_check (eq_refl true). Qed.

Lemma ray_sweep_ok d s : In d king_dirs -> s < 64 -> ray_sweep_sd d s = true.
Proof.
  intros Hd Hs. pose proof ray_sweep as H. rewrite forallb_forall in H.
  specialize (H d Hd). rewrite forallb_forall in H. apply H, in_all_sq, Hs.
Qed.

Theorem walk_between d s t occ0 : In d king_dirs -> s < 64 -> t < 64 ->
  N.testbit (walk 7 occ0 (fileZ s) (rankZ s) (fst d) (snd d)) t
  = on_dir s t d && (N.land (between s t) occ0 =? 0).
Proof.
  intros Hd Hs Ht. pose proof (ray_sweep_ok d s Hd Hs) as H. unfold ray_sweep_sd in H.
  apply andb_prop in H. destruct H as [H Hsub]. apply andb_prop in H. destruct H as [Hm Hin].
  apply N.ltb_lt in Hm. change two64 with (2^64) in Hm.
  rewrite forallb_forall in Hin, Hsub.
  specialize (Hin t (proj2 (in_all_sq t) Ht)).
  set (m := rmask 7 (fileZ s) (rankZ s) (fst d) (snd d)) in *.
  specialize (Hsub (N.land occ0 m) (land_in_subsets occ0 m Hm)). cbv beta in Hsub.
  rewrite forallb_forall in Hsub. specialize (Hsub t (proj2 (in_all_sq t) Ht)).
  apply beqb_eq in Hsub.
  rewrite walk_dep. fold m. rewrite Hsub. unfold on_dir, between.
  destruct (mem t (ray_sq s d 7)); [|reflexivity]. cbn [implb andb] in *.
  apply N.eqb_eq in Hin. rewrite (N.land_comm occ0 m), N.land_assoc, Hin. reflexivity.
Qed.

(** alignment is "on one of the four rays" *)
Lemma aligned_sweep :
  forallb (fun s => forallb (fun t =>
     Bool.eqb (aligned_o s t) (existsb (on_dir s t) rook_dirs)
     && Bool.eqb (aligned_d s t) (existsb (on_dir s t) bishop_dirs)
     && Bool.eqb (aligned_o s t) (aligned_o t s) && Bool.eqb (aligned_d s t) (aligned_d t s)
     && negb (aligned_o s t && aligned_d s t)) all_sq) all_sq = true.
Proof. vm_cast_no_check (eq_refl true). Qed.

Lemma aligned_facts s t : s < 64 -> t < 64 ->
  aligned_o s t = existsb (on_dir s t) rook_dirs /\
  aligned_d s t = existsb (on_dir s t) bishop_dirs /\
  aligned_o s t = aligned_o t s /\ aligned_d s t = aligned_d t s /\
  aligned_o s t && aligned_d s t = false.
Proof.
  intros Hs Ht. pose proof (sweep64_2 _ aligned_sweep s t Hs Ht) as H. cbv beta in H.
  repeat (apply andb_prop in H; destruct H as [H ?]).
  repeat split; apply beqb_eq; assumption.
Qed.

Lemma rook_in_king d : In d rook_dirs -> In d king_dirs.
Proof. intro H. unfold king_dirs. apply in_or_app. left. exact H. Qed.
Lemma bishop_in_king d : In d bishop_dirs -> In d king_dirs.
Proof. intro H. unfold king_dirs. apply in_or_app. right. exact H. Qed.

Lemma slide_between ds s t occ0 : (forall d, In d ds -> In d king_dirs) -> s < 64 -> t < 64 ->
  N.testbit (slide ds s occ0) t = existsb (on_dir s t) ds && (N.land (between s t) occ0 =? 0).
Proof.
  intros Hds Hs Ht. unfold slide.
  rewrite (fold_lor_testbit (fun d => walk 7 occ0 (fileZ s) (rankZ s) (fst d) (snd d))).
  rewrite N.bits_0, orb_false_l.
  induction ds as [|d ds IH]; cbn [existsb]; [reflexivity|].
  rewrite IH by (intros d' Hd'; apply Hds; right; exact Hd').
  rewrite (walk_between d s t occ0 (Hds d (or_introl eq_refl)) Hs Ht).
  destruct (on_dir s t d), (existsb (on_dir s t) ds), (N.land (between s t) occ0 =? 0); reflexivity.
Qed.

(** the crucial link between ray walking and [between] (no bound on the occupancy needed) *)
Theorem rook_walk_between s t occ0 : s < 64 -> t < 64 ->
  N.testbit (rook_walk s occ0) t = aligned_o s t && (N.land (between s t) occ0 =? 0).
Proof.
  intros Hs Ht. unfold rook_walk. rewrite (slide_between _ s t occ0 rook_in_king Hs Ht).
  destruct (aligned_facts s t Hs Ht) as [-> _]. reflexivity.
Qed.
Theorem bishop_walk_between s t occ0 : s < 64 -> t < 64 ->
  N.testbit (bishop_walk s occ0) t = aligned_d s t && (N.land (between s t) occ0 =? 0).
Proof.
  intros Hs Ht. unfold bishop_walk. rewrite (slide_between _ s t occ0 bishop_in_king Hs Ht).
  destruct (aligned_facts s t Hs Ht) as [_ [-> _]]. reflexivity.
Qed.

(** the statement in the form of the task: from the king square [k] towards [t] *)
Corollary rook_walk_between_iff k t occ0 : k < 64 -> t < 64 ->
  (N.testbit (rook_walk k occ0) t = true <-> aligned_o k t = true /\ N.land (between t k) occ0 = 0).
Proof.
  intros Hk Ht. rewrite (rook_walk_between k t occ0 Hk Ht), (between_sym t k Ht Hk).
  rewrite andb_true_iff, N.eqb_eq. reflexivity.
Qed.
Corollary bishop_walk_between_iff k t occ0 : k < 64 -> t < 64 ->
  (N.testbit (bishop_walk k occ0) t = true <-> aligned_d k t = true /\ N.land (between t k) occ0 = 0).
Proof.
  intros Hk Ht. rewrite (bishop_walk_between k t occ0 Hk Ht), (between_sym t k Ht Hk).
  rewrite andb_true_iff, N.eqb_eq. reflexivity.
Qed.

(** sliding attacks are symmetric *)
Theorem rook_walk_sym s t occ0 : s < 64 -> t < 64 ->
  N.testbit (rook_walk s occ0) t = N.testbit (rook_walk t occ0) s.
Proof.
  intros Hs Ht. rewrite (rook_walk_between s t occ0 Hs Ht), (rook_walk_between t s occ0 Ht Hs).
  rewrite (between_sym s t Hs Ht). destruct (aligned_facts s t Hs Ht) as [_ [_ [-> _]]]. reflexivity.
Qed.
Theorem bishop_walk_sym s t occ0 : s < 64 -> t < 64 ->
  N.testbit (bishop_walk s occ0) t = N.testbit (bishop_walk t occ0) s.
Proof.
  intros Hs Ht. rewrite (bishop_walk_between s t occ0 Hs Ht), (bishop_walk_between t s occ0 Ht Hs).
  rewrite (between_sym s t Hs Ht). destruct (aligned_facts s t Hs Ht) as [_ [_ [_ [-> _]]]]. reflexivity.
Qed.

(** ** 3. Steps: knight, king, pawn captures (64² sweeps), with their symmetry *)
Definition both_colours : list color := [White;Black].
Lemma steps_sweep :
  forallb (fun s => forallb (fun t =>
     Bool.eqb (mem t (steps s knight_dirs)) (N.testbit (knight_moves s) t)
     && Bool.eqb (mem t (steps s king_dirs)) (N.testbit (king_moves s) t)
     && Bool.eqb (N.testbit (knight_moves s) t) (N.testbit (knight_moves t) s)
     && Bool.eqb (N.testbit (king_moves s) t) (N.testbit (king_moves t) s)
     && forallb (fun c =>
          Bool.eqb (mem t (steps s (pawn_caps c))) (N.testbit (pawn_attack_tab (is_white c) s) t)
          && Bool.eqb (N.testbit (pawn_attack_tab (is_white c) s) t)
                      (N.testbit (pawn_attack_tab (is_white (opp c)) t) s)) both_colours)
     all_sq) all_sq = true.
Proof. vm_cast_no_check (eq_refl true). Qed.

Lemma steps_facts s t : s < 64 -> t < 64 ->
  mem t (steps s knight_dirs) = N.testbit (knight_moves s) t /\
  mem t (steps s king_dirs) = N.testbit (king_moves s) t /\
  N.testbit (knight_moves s) t = N.testbit (knight_moves t) s /\
  N.testbit (king_moves s) t = N.testbit (king_moves t) s /\
  forall c, mem t (steps s (pawn_caps c)) = N.testbit (pawn_attack_tab (is_white c) s) t /\
            N.testbit (pawn_attack_tab (is_white c) s) t
            = N.testbit (pawn_attack_tab (is_white (opp c)) t) s.
Proof.
  intros Hs Ht. pose proof (sweep64_2 _ steps_sweep s t Hs Ht) as H. cbv beta in H.
  apply andb_prop in H. destruct H as [H Hc].
  repeat (apply andb_prop in H; destruct H as [H ?]).
  repeat split; try (apply beqb_eq; assumption);
    rewrite forallb_forall in Hc;
    (assert (Hin : In c both_colours) by (destruct c; cbn; auto));
    specialize (Hc c Hin); apply andb_prop in Hc; destruct Hc as [Hc1 Hc2];
    apply beqb_eq; assumption.
Qed.

Theorem knight_steps s t : s < 64 -> t < 64 ->
  (In t (steps s knight_dirs) <-> N.testbit (knight_moves s) t = true).
Proof. intros Hs Ht. rewrite <- mem_in. destruct (steps_facts s t Hs Ht) as [-> _]. reflexivity. Qed.
Theorem king_steps s t : s < 64 -> t < 64 ->
  (In t (steps s king_dirs) <-> N.testbit (king_moves s) t = true).
Proof. intros Hs Ht. rewrite <- mem_in. destruct (steps_facts s t Hs Ht) as [_ [-> _]]. reflexivity. Qed.
Theorem pawn_steps c s t : s < 64 -> t < 64 ->
  (In t (steps s (pawn_caps c)) <-> N.testbit (pawn_attack_tab (is_white c) s) t = true).
Proof.
  intros Hs Ht. rewrite <- mem_in. destruct (steps_facts s t Hs Ht) as [_ [_ [_ [_ H]]]].
  destruct (H c) as [-> _]. reflexivity.
Qed.
Theorem knight_moves_sym s t : s < 64 -> t < 64 ->
  N.testbit (knight_moves s) t = N.testbit (knight_moves t) s.
Proof. intros Hs Ht. apply (steps_facts s t Hs Ht). Qed.
Theorem king_moves_sym s t : s < 64 -> t < 64 ->
  N.testbit (king_moves s) t = N.testbit (king_moves t) s.
Proof. intros Hs Ht. apply (steps_facts s t Hs Ht). Qed.
Theorem pawn_attack_sym c s t : s < 64 -> t < 64 ->
  N.testbit (pawn_attack_tab (is_white c) s) t = N.testbit (pawn_attack_tab (is_white (opp c)) t) s.
Proof. intros Hs Ht. destruct (steps_facts s t Hs Ht) as [_ [_ [_ [_ H]]]]. apply (H c). Qed.

(** ** 4. The attack set of the man on a square, as a word *)
Definition attack_bb (b:board) (s:N) : N :=
  match at_ (abs_board b) s with
  | None => 0
  | Some (Pawn,c) => pawn_attack_tab (is_white c) s
  | Some (Knight,_) => knight_moves s
  | Some (King,_) => king_moves s
  | Some (Bishop,_) => bishop_walk s (comb b)
  | Some (Rook,_) => rook_walk s (comb b)
  | Some (Queen,_) => N.lor (rook_walk s (comb b)) (bishop_walk s (comb b))
  end.

Lemma slides_app p s d1 d2 : slides p s (d1 ++ d2) = slides p s d1 ++ slides p s d2.
Proof. unfold slides. apply flat_map_app. Qed.

Theorem attack_set_canon b s t : Consistent b -> s < 64 -> t < 64 ->
  (In t (attack_set (abs_board b) s) <-> N.testbit (attack_bb b s) t = true).
Proof.
  intros HC Hs Ht. unfold attack_set, attack_bb.
  pose proof (fun x Hx => occ_abs b x HC Hx) as Hocc.
  destruct (at_ (abs_board b) s) as [[[] c]|].
  - apply pawn_steps; assumption.
  - apply knight_steps; assumption.
  - apply (slides_slide _ _ Hocc); assumption.
  - apply (slides_slide _ _ Hocc); assumption.
  - unfold king_dirs. rewrite slides_app, in_app_iff, N.lor_spec, orb_true_iff.
    rewrite (slides_slide _ _ Hocc rook_dirs s t Hs), (slides_slide _ _ Hocc bishop_dirs s t Hs).
    reflexivity.
  - apply king_steps; assumption.
  - rewrite N.bits_0. split; [intros []|discriminate].
Qed.

Corollary attacks_canon b s t : Consistent b -> s < 64 -> t < 64 ->
  attacks (abs_board b) s t = N.testbit (attack_bb b s) t.
Proof.
  intros HC Hs Ht. apply eq_true_iff_eq. unfold attacks. rewrite mem_in.
  apply attack_set_canon; assumption.
Qed.

(** ** 5. The men of colour [c] attacking square [k]: the "attackers-to" word *)
Definition attackers_bb (b:board) (c:color) (k:N) : N :=
  N.land (color_combined b c)
    (N.lor (N.lor (N.lor (N.land (pawn_attack_tab (is_white (opp c)) k) (pP b))
                         (N.land (knight_moves k) (pN b)))
                  (N.land (king_moves k) (pK b)))
           (N.lor (N.land (bishop_walk k (comb b)) (N.lor (pB b) (pQ b)))
                  (N.land (rook_walk k (comb b)) (N.lor (pR b) (pQ b))))).

Lemma opp_opp' c : opp (opp c) = c.
Proof. destruct c; reflexivity. Qed.

Theorem attackers_bit b c s k : Consistent b -> s < 64 -> k < 64 ->
  own (abs_board b) c s && attacks (abs_board b) s k = N.testbit (attackers_bb b c k) s.
Proof.
  intros HC Hs Hk. rewrite (own_abs b c s HC Hs), (attacks_canon b s k HC Hs Hk).
  unfold attackers_bb. rewrite !N.land_spec, !N.lor_spec, !N.land_spec, !N.lor_spec.
  destruct (N.testbit (color_combined b c) s) eqn:Hc; [|reflexivity]. cbn [andb].
  unfold attack_bb.
  pose proof (bitsat_enc b s HC Hs) as Henc.
  pose proof (cget_bitsat b c s) as Hcg. rewrite Hc, Henc, cget_enc in Hcg.
  assert (HP : forall q, N.testbit (pieces b q) s = pget q (enc (at_ (abs_board b) s)))
    by (intro q; rewrite <- Henc, pget_bitsat; reflexivity).
  pose proof (HP Pawn) as H1. pose proof (HP Knight) as H2. pose proof (HP Bishop) as H3.
  pose proof (HP Rook) as H4. pose proof (HP Queen) as H5. pose proof (HP King) as H6.
  cbn [pieces] in H1, H2, H3, H4, H5, H6. rewrite H1, H2, H3, H4, H5, H6, !pget_enc.
  destruct (at_ (abs_board b) s) as [[q d]|]; [|discriminate Hcg].
  assert (Hd : d = c) by (destruct c, d; try reflexivity; discriminate Hcg). subst d.
  destruct q; cbn [ptype_eqb andb orb]; rewrite ?andb_false_r, ?andb_true_r, ?orb_false_r, ?orb_false_l.
  - rewrite (pawn_attack_sym c s k Hs Hk). reflexivity.
  - apply knight_moves_sym; assumption.
  - apply bishop_walk_sym; assumption.
  - apply rook_walk_sym; assumption.
  - rewrite N.lor_spec, (rook_walk_sym s k (comb b) Hs Hk), (bishop_walk_sym s k (comb b) Hs Hk). apply orb_comm.
  - apply king_moves_sym; assumption.
Qed.

Theorem attackers_canon b c s k : Consistent b -> k < 64 ->
  (In s (attackers (abs_board b) c k) <-> s < 64 /\ N.testbit (attackers_bb b c k) s = true).
Proof.
  intros HC Hk. unfold attackers. rewrite filter_In, in_all_sq. split.
  - intros [Hs H]. split; [exact Hs|]. rewrite <- (attackers_bit b c s k HC Hs Hk). exact H.
  - intros [Hs H]. split; [exact Hs|]. rewrite (attackers_bit b c s k HC Hs Hk). exact H.
Qed.

Theorem attacked_by_canon b c k : Consistent b -> k < 64 ->
  attacked_by (abs_board b) c k = negb (attackers_bb b c k =? 0).
Proof.
  intros HC Hk. unfold attacked_by.
  assert (Hlt : attackers_bb b c k < 2^64).
  { unfold attackers_bb. apply land_lt64_l. apply (cs_colors_lt b HC c). }
  destruct (attackers (abs_board b) c k) as [|s l] eqn:E.
  - destruct (N.eqb_spec (attackers_bb b c k) 0) as [_|Hne]; [reflexivity|exfalso].
    destruct (to_square_min _ Hne Hlt) as [_ [Hs' _]].
    set (s := to_square (attackers_bb b c k)) in *.
    assert (Hin : In s (attackers (abs_board b) c k)).
    { apply (attackers_canon b c s k HC Hk). split; [|exact Hs'].
      exact (testbit_lt64 _ _ Hlt Hs'). }
    rewrite E in Hin. destruct Hin.
  - assert (Hin : In s (attackers (abs_board b) c k)) by (rewrite E; left; reflexivity).
    apply (attackers_canon b c s k HC Hk) in Hin. destruct Hin as [_ Hin].
    destruct (N.eqb_spec (attackers_bb b c k) 0) as [Hz|_]; [|reflexivity].
    rewrite Hz, N.bits_0 in Hin. discriminate Hin.
Qed.

(** ** 6. Examples *)
Example walk_between_ex :
  In (0,1)%Z king_dirs /\ on_dir 27 43 (0,1)%Z = true /\
  N.testbit (rook_walk 27 (bit 43)) 43 = true /\ N.testbit (rook_walk 27 (bit 43)) 51 = false /\
  between 27 51 = N.lor (bit 35) (bit 43).
Proof. vm_compute. repeat split. right. right. left. reflexivity. Qed.
Example attackers_ex :
  attackers (abs_board (place_all (placement startpos))) White 21 = [6;12;14] /\
  attackers_bb (place_all (placement startpos)) White 21 = N.lor (N.lor (bit 12) (bit 14)) (bit 6).
Proof. vm_compute. split; reflexivity. Qed.
