(** * Proofs.PerftBuilder — the [BoardBuilder] setters and getters of [Model/Perft.v]
    ([bb_setup], [bb_piece], [bb_clear_square], [bb_side_to_move], [bb_castle_rights],
    [bb_en_passant], [bb_get_castle_rights], [bb_index]): each setter changes exactly the field
    (the cell) it names.  A builder made by the library always has 64 cells and squares are
    below 64; these are the hypotheses [length (bpieces bb) = 64] and [s < 64] below. *)
From Coq Require Import NArith List Bool Lia ZifyBool ZifyN ZifyNat.
From Chess Require Import Base.Bits Base.Text Spec.Geometry Spec.Rules Model.Board Model.Perft.
Import ListNotations.
Open Scope N_scope.

Notation cell := (option (ptype * color)) (only parsing).

(** ** 0. [upd] *)
Lemma pb_upd_length {A} (l:list A) : forall i x, length (upd l i x) = length l.
Proof.
  induction l as [|y l IH]; intros i x; [destruct i; reflexivity|].
  destruct i as [|i]; cbn [upd length]; [reflexivity|]. rewrite IH. reflexivity.
Qed.

Lemma pb_nth_upd_eq {A} (l:list A) : forall i x d, (i < length l)%nat -> nth i (upd l i x) d = x.
Proof.
  induction l as [|y l IH]; intros i x d H; cbn [length] in H; [lia|].
  destruct i as [|i]; cbn [upd nth]; [reflexivity|]. apply IH. lia.
Qed.

Lemma pb_nth_upd_ne {A} (l:list A) : forall i j x d, i <> j -> nth j (upd l i x) d = nth j l d.
Proof.
  induction l as [|y l IH]; intros i j x d H; [destruct i; reflexivity|].
  destruct i as [|i], j as [|j]; cbn [upd nth]; try reflexivity; [congruence|]. apply IH. congruence.
Qed.

(** out of range, [upd] does nothing (the Rust [self.pieces[square.to_index()]] cannot be out of
    range: a [Square] is below 64) *)
Lemma pb_upd_out {A} (l:list A) : forall i x, (length l <= i)%nat -> upd l i x = l.
Proof.
  induction l as [|y l IH]; intros i x H; [destruct i; reflexivity|].
  cbn [length] in H. destruct i as [|i]; [lia|]. cbn [upd]. rewrite IH by lia. reflexivity.
Qed.

(** ** 1. [piece] and [clear_square] *)
Theorem bb_piece_index bb s p c : length (bpieces bb) = 64%nat -> s < 64 ->
  forall k, bb_index (bb_piece bb s p c) k = if k =? s then Some (p, c) else bb_index bb k.
Proof.
  intros HL Hs k. unfold bb_index, bb_piece. cbn [bpieces].
  destruct (k =? s) eqn:E.
  - apply N.eqb_eq in E. subst k. apply pb_nth_upd_eq. lia.
  - apply N.eqb_neq in E. apply pb_nth_upd_ne. lia.
Qed.

Theorem bb_clear_square_index bb s : length (bpieces bb) = 64%nat -> s < 64 ->
  forall k, bb_index (bb_clear_square bb s) k = if k =? s then None else bb_index bb k.
Proof.
  intros HL Hs k. unfold bb_index, bb_clear_square. cbn [bpieces].
  destruct (k =? s) eqn:E.
  - apply N.eqb_eq in E. subst k. apply pb_nth_upd_eq. lia.
  - apply N.eqb_neq in E. apply pb_nth_upd_ne. lia.
Qed.

Theorem bb_piece_fields bb s p c :
  length (bpieces (bb_piece bb s p c)) = length (bpieces bb) /\
  bstm (bb_piece bb s p c) = bstm bb /\ bcrW (bb_piece bb s p c) = bcrW bb /\
  bcrB (bb_piece bb s p c) = bcrB bb /\ bep (bb_piece bb s p c) = bep bb.
Proof. split; [apply pb_upd_length|repeat split]. Qed.

Theorem bb_clear_square_fields bb s :
  length (bpieces (bb_clear_square bb s)) = length (bpieces bb) /\
  bstm (bb_clear_square bb s) = bstm bb /\ bcrW (bb_clear_square bb s) = bcrW bb /\
  bcrB (bb_clear_square bb s) = bcrB bb /\ bep (bb_clear_square bb s) = bep bb.
Proof. split; [apply pb_upd_length|repeat split]. Qed.

(** setting then clearing a square, and setting it twice *)
Theorem bb_clear_after_piece bb s p c k : length (bpieces bb) = 64%nat -> s < 64 ->
  bb_index (bb_clear_square (bb_piece bb s p c) s) k = bb_index (bb_clear_square bb s) k.
Proof.
  intros HL Hs. rewrite !bb_clear_square_index, bb_piece_index; try assumption.
  - destruct (k =? s); reflexivity.
  - rewrite (proj1 (bb_piece_fields bb s p c)). exact HL.
Qed.

Theorem bb_piece_twice bb s p c p' c' k : length (bpieces bb) = 64%nat -> s < 64 ->
  bb_index (bb_piece (bb_piece bb s p c) s p' c') k = bb_index (bb_piece bb s p' c') k.
Proof.
  intros HL Hs. rewrite !bb_piece_index; try assumption.
  - destruct (k =? s); reflexivity.
  - rewrite (proj1 (bb_piece_fields bb s p c)). exact HL.
Qed.

(** ** 2. [side_to_move], [castle_rights], [en_passant] *)
Theorem bb_side_to_move_fields bb c :
  bstm (bb_side_to_move bb c) = c /\ bpieces (bb_side_to_move bb c) = bpieces bb /\
  bcrW (bb_side_to_move bb c) = bcrW bb /\ bcrB (bb_side_to_move bb c) = bcrB bb /\
  bep (bb_side_to_move bb c) = bep bb /\
  (forall k, bb_index (bb_side_to_move bb c) k = bb_index bb k).
Proof. repeat split. Qed.

Theorem bb_en_passant_fields bb f :
  bep (bb_en_passant bb f) = f /\ bpieces (bb_en_passant bb f) = bpieces bb /\
  bstm (bb_en_passant bb f) = bstm bb /\ bcrW (bb_en_passant bb f) = bcrW bb /\
  bcrB (bb_en_passant bb f) = bcrB bb /\
  (forall k, bb_index (bb_en_passant bb f) k = bb_index bb k).
Proof. repeat split. Qed.

Theorem bb_castle_rights_fields bb c r :
  bpieces (bb_castle_rights bb c r) = bpieces bb /\ bstm (bb_castle_rights bb c r) = bstm bb /\
  bep (bb_castle_rights bb c r) = bep bb /\
  (forall k, bb_index (bb_castle_rights bb c r) k = bb_index bb k).
Proof. destruct c; repeat split. Qed.

Theorem bb_get_set_castle_rights bb c r c' :
  bb_get_castle_rights (bb_castle_rights bb c r) c' =
  if color_eqb c c' then r else bb_get_castle_rights bb c'.
Proof. destruct c, c'; reflexivity. Qed.

Theorem bb_get_castle_rights_other bb c :
  (forall s p k, bb_get_castle_rights (bb_piece bb s p k) c = bb_get_castle_rights bb c) /\
  (forall s, bb_get_castle_rights (bb_clear_square bb s) c = bb_get_castle_rights bb c) /\
  (forall k, bb_get_castle_rights (bb_side_to_move bb k) c = bb_get_castle_rights bb c) /\
  (forall f, bb_get_castle_rights (bb_en_passant bb f) c = bb_get_castle_rights bb c).
Proof. destruct c; repeat split. Qed.

(** ** 3. [setup] *)
(** the LAST entry of [pcs] whose square is [k] *)
Definition last_at (pcs:list (N * ptype * color)) (k:N) : cell :=
  match find (fun x => fst (fst x) =? k) (rev pcs) with
  | Some (_, p, c) => Some (p, c)
  | None => None
  end.

Lemma pb_find_snoc {A} (f:A -> bool) l x :
  find f (l ++ [x]) = match find f l with Some y => Some y | None => if f x then Some x else None end.
Proof.
  induction l as [|y l IH]; cbn [app find]; [reflexivity|]. destruct (f y); [reflexivity|exact IH].
Qed.

Definition setup_step (acc:list cell) (x:N * ptype * color) : list cell :=
  match x with (s, p, c) => upd acc (N.to_nat s) (Some (p, c)) end.

Lemma setup_fold_length pcs : forall acc, length (fold_left setup_step pcs acc) = length acc.
Proof.
  induction pcs as [|[[s p] c] pcs IH]; intro acc; [reflexivity|]. cbn [fold_left setup_step].
  rewrite IH. apply pb_upd_length.
Qed.

Lemma setup_fold_nth pcs : forall acc k, (N.to_nat k < length acc)%nat ->
  nth (N.to_nat k) (fold_left setup_step pcs acc) None =
  match find (fun x => fst (fst x) =? k) (rev pcs) with
  | Some (_, p, c) => Some (p, c)
  | None => nth (N.to_nat k) acc None
  end.
Proof.
  induction pcs as [|[[s p] c] pcs IH]; intros acc k Hk; [reflexivity|].
  cbn [fold_left setup_step rev]. rewrite IH by (rewrite pb_upd_length; exact Hk).
  rewrite pb_find_snoc.
  destruct (find (fun x => fst (fst x) =? k) (rev pcs)) as [[[s' p'] c']|]; [reflexivity|].
  cbn [fst]. destruct (s =? k) eqn:E.
  - apply N.eqb_eq in E. subst s. apply pb_nth_upd_eq. exact Hk.
  - apply N.eqb_neq in E. apply pb_nth_upd_ne. lia.
Qed.

Lemma pb_nth_repeat_none n k : nth k (repeat (@None (ptype*color)) n) None = None.
Proof. revert k. induction n as [|n IH]; intro k; destruct k; cbn [repeat nth]; auto. Qed.

Theorem bb_setup_length pcs stm w b e : length (bpieces (bb_setup pcs stm w b e)) = 64%nat.
Proof.
  unfold bb_setup. cbn [bpieces].
  change (length (fold_left setup_step pcs (repeat None 64)) = 64%nat).
  rewrite setup_fold_length. apply repeat_length.
Qed.

(** for every square: the last entry for that square, or nothing.  (No hypothesis on the
    squares in [pcs] is needed for [k < 64]: an entry off the board would be ignored.) *)
Theorem bb_setup_index pcs stm w b e k : k < 64 ->
  bb_index (bb_setup pcs stm w b e) k = last_at pcs k.
Proof.
  intro Hk. unfold bb_index, bb_setup, last_at. cbn [bpieces].
  change (nth (N.to_nat k) (fold_left setup_step pcs (repeat None 64)) None =
          match find (fun x => fst (fst x) =? k) (rev pcs) with
          | Some (_, p, c) => Some (p, c) | None => None end).
  rewrite setup_fold_nth by (rewrite repeat_length; lia).
  rewrite pb_nth_repeat_none. reflexivity.
Qed.

(** with all squares of [pcs] on the board the same holds of every index *)
Theorem bb_setup_index_all pcs stm w b e k : Forall (fun x => fst (fst x) < 64) pcs ->
  bb_index (bb_setup pcs stm w b e) k = last_at pcs k.
Proof.
  intro HF. destruct (N.lt_ge_cases k 64) as [Hk|Hk]; [apply bb_setup_index, Hk|].
  unfold bb_index. rewrite nth_overflow by (rewrite bb_setup_length; lia).
  unfold last_at.
  destruct (find (fun x => fst (fst x) =? k) (rev pcs)) as [[[s p] c]|] eqn:E; [|reflexivity].
  apply find_some in E. destruct E as [Hin Hs]. cbn [fst] in Hs. apply N.eqb_eq in Hs. subst s.
  apply in_rev in Hin. rewrite Forall_forall in HF. specialize (HF _ Hin). cbn [fst] in HF. lia.
Qed.

(** [last_at] read as a statement about the list *)
Theorem last_at_some pcs k p c : last_at pcs k = Some (p, c) <->
  exists l1 l2, pcs = l1 ++ (k, p, c) :: l2 /\ Forall (fun x => fst (fst x) <> k) l2.
Proof.
  unfold last_at. induction pcs as [|[[s q] d] pcs IH] using rev_ind.
  - cbn [rev find]. split; [discriminate|]. intros (l1 & l2 & E & _). destruct l1; discriminate E.
  - rewrite rev_app_distr. cbn [rev app find fst]. destruct (s =? k) eqn:E.
    + apply N.eqb_eq in E. subst s. split.
      * intro H. injection H as -> ->. exists pcs, []. split; [reflexivity|constructor].
      * intros (l1 & l2 & E & HF).
        destruct l2 as [|y l2] using rev_ind.
        -- apply app_inj_tail in E. destruct E as [_ E]. injection E as -> ->. reflexivity.
        -- clear IHl2. rewrite app_comm_cons, app_assoc in E. apply app_inj_tail in E.
           destruct E as [_ E]. subst y. rewrite Forall_forall in HF.
           exfalso. apply (HF (k, q, d)); [apply in_or_app; right; left; reflexivity|reflexivity].
    + apply N.eqb_neq in E. rewrite IH. split.
      * intros (l1 & l2 & E1 & HF). exists l1, (l2 ++ [(s, q, d)]). split.
        -- rewrite E1, <- app_assoc. reflexivity.
        -- apply Forall_app. split; [exact HF|]. constructor; [exact E|constructor].
      * intros (l1 & l2 & E1 & HF). destruct l2 as [|y l2] using rev_ind.
        -- apply app_inj_tail in E1. destruct E1 as [_ E1]. injection E1 as E1 _ _. congruence.
        -- clear IHl2. rewrite app_comm_cons, app_assoc in E1. apply app_inj_tail in E1.
           destruct E1 as [E1 _]. exists l1, l2. split; [exact E1|].
           apply Forall_app in HF. exact (proj1 HF).
Qed.

Theorem last_at_none pcs k : last_at pcs k = None <-> Forall (fun x => fst (fst x) <> k) pcs.
Proof.
  unfold last_at. split.
  - intro H. apply Forall_forall. intros [[s p] c] Hin Hs. cbn [fst] in Hs. subst s.
    destruct (find (fun x => fst (fst x) =? k) (rev pcs)) as [[[s' p'] c']|] eqn:E; [discriminate|].
    pose proof (find_none _ _ E (k, p, c) (proj1 (in_rev _ _) Hin)) as Hn. cbn [fst] in Hn.
    rewrite N.eqb_refl in Hn. discriminate.
  - intro HF. destruct (find (fun x => fst (fst x) =? k) (rev pcs)) as [[[s p] c]|] eqn:E; [|reflexivity].
    apply find_some in E. destruct E as [Hin Hs]. cbn [fst] in Hs. apply N.eqb_eq in Hs. subst s.
    apply in_rev in Hin. rewrite Forall_forall in HF. exfalso. exact (HF _ Hin eq_refl).
Qed.

Theorem bb_setup_fields pcs stm w b e :
  bstm (bb_setup pcs stm w b e) = stm /\ bcrW (bb_setup pcs stm w b e) = w /\
  bcrB (bb_setup pcs stm w b e) = b /\ bep (bb_setup pcs stm w b e) = e /\
  (forall c, bb_get_castle_rights (bb_setup pcs stm w b e) c = match c with White => w | Black => b end).
Proof. repeat split. Qed.

Theorem bb_setup_nil stm w b e :
  bpieces (bb_setup [] stm w b e) = repeat None 64 /\
  (forall k, bb_index (bb_setup [] stm w b e) k = None).
Proof.
  split; [reflexivity|]. intro k. unfold bb_index, bb_setup. cbn [bpieces fold_left].
  apply pb_nth_repeat_none.
Qed.

(** [setup] is the empty setup followed by [piece] for each entry in order *)
Lemma setup_as_pieces_gen pcs : forall bb,
  {| bpieces := fold_left setup_step pcs (bpieces bb); bstm := bstm bb; bcrW := bcrW bb;
     bcrB := bcrB bb; bep := bep bb |} =
  fold_left (fun bb x => match x with (s, p, c) => bb_piece bb s p c end) pcs bb.
Proof.
  induction pcs as [|[[s p] c] pcs IH]; intro bb; [destruct bb; reflexivity|].
  cbn [fold_left]. rewrite <- IH. reflexivity.
Qed.

Theorem bb_setup_as_pieces pcs stm w b e :
  bb_setup pcs stm w b e =
  fold_left (fun bb x => match x with (s, p, c) => bb_piece bb s p c end) pcs (bb_setup [] stm w b e).
Proof. exact (setup_as_pieces_gen pcs (bb_setup [] stm w b e)). Qed.

(** ** Examples: the hypotheses are satisfiable *)
Example ex_builder_hyp : length (bpieces (bb_setup [] White 3 3 None)) = 64%nat /\ 4 < 64.
Proof. split; reflexivity. Qed.

Example ex_piece_then_index :
  let bb := bb_piece (bb_setup [] White 3 3 None) 4 King White in
  bb_index bb 4 = Some (King, White) /\ bb_index bb 5 = None /\
  bb_index (bb_clear_square bb 4) 4 = None /\
  bb_get_castle_rights (bb_castle_rights bb Black 1) Black = 1 /\
  bb_get_castle_rights (bb_castle_rights bb Black 1) White = 3.
Proof. vm_compute. repeat split. Qed.

Example ex_setup_last_wins :
  let pcs := [(4, King, White); (60, King, Black); (4, Queen, White)] in
  Forall (fun x => fst (fst x) < 64) pcs /\
  bb_index (bb_setup pcs Black 0 0 (Some 3)) 4 = Some (Queen, White) /\
  last_at pcs 4 = Some (Queen, White) /\ last_at pcs 60 = Some (King, Black) /\ last_at pcs 5 = None.
Proof. split; [repeat constructor|vm_compute; repeat split]. Qed.
