(** * Proofs.SpecInvExamples — C05: the hypotheses of the invariants are satisfiable. *)
From Chess Require Import Spec.Rules Proofs.SpecInvBase Proofs.SpecInvGoals.
Open Scope N_scope.

Ltac in_list := vm_compute; repeat (first [left; reflexivity | right]).

(** 1.e4 a6 2.e5 d5 (en-passant target d6 recorded) 3.exd6 (en passant) cxd6 4.Nf3 *)
Definition ex_moves : list move :=
  [mv 12 28; mv 48 40; mv 28 36; mv 51 35; mv 36 43; mv 50 43; mv 6 21].
Definition ex_ep_pos : pos := fold_left apply (firstn 4 ex_moves) startpos.

Example startpos_ok : pos_valid startpos = true /\ In (mv 12 28) (legal_moves startpos).
Proof. split; [vm_compute; reflexivity|in_list]. Qed.

Example ex_ep_pos_ok :
  pos_valid ex_ep_pos = true /\ ep ex_ep_pos = Some 43 /\ In (mv 36 43) (legal_moves ex_ep_pos)
  /\ is_ep ex_ep_pos (mv 36 43) = true.
Proof. split; [vm_compute; reflexivity|]. split; [vm_compute; reflexivity|]. split; [in_list|vm_compute; reflexivity]. Qed.

Example ex_path : LegalPath startpos ex_moves.
Proof. unfold ex_moves. repeat (constructor; [in_list|]). constructor. Qed.

(** a castling move and a promotion with capture: white Ke1 Rh1 Pb7, black Ke8 Ra8 Nc8 *)
Definition ex_cp_pos : pos :=
  {| placement := [None;None;None;None;Some (King,White);None;None;Some (Rook,White)]
        ++ repeat None 40
        ++ [None;Some (Pawn,White);None;None;None;None;None;None]
        ++ [Some (Rook,Black);None;Some (Knight,Black);None;Some (King,Black);None;None;None];
     turn := White; wk := true; wq := false; bk := false; bq := true; ep := None |}.
Example ex_cp_pos_ok :
  pos_valid ex_cp_pos = true /\ In (mv 4 6) (legal_moves ex_cp_pos)
  /\ In {| src := 49; dst := 56; promo := Some Queen |} (legal_moves ex_cp_pos)
  /\ In {| src := 49; dst := 58; promo := Some Knight |} (legal_moves ex_cp_pos).
Proof. split; [vm_compute; reflexivity|]. split; [in_list|]. split; in_list. Qed.
