// "extra" stream: public API outside the twenty properties (Ord for ChessMove, File/Rank::from_str,
// deprecated Board::set_piece / clear_square, Board::default / Game::new, Display for BitBoard).
use crate::common::*;
use crate::dumpfns::hex;
use chess::*;
use std::cmp::Ordering;
use std::io::Write;
use std::panic::{catch_unwind, AssertUnwindSafe};
use std::str::FromStr;

fn ord(o: Ordering) -> char { match o { Ordering::Less => 'L', Ordering::Equal => 'E', Ordering::Greater => 'G' } }

pub fn run(n: u64) {
    std::panic::set_hook(Box::new(|_| {}));
    let mut rng = Rng::new(seed_from_env());
    let out = std::io::stdout(); let mut out = std::io::BufWriter::new(out.lock());
    let d = Board::default();
    writeln!(out, "D {}~{} | {}~{}", enc(&d), obs(&d), enc(&Game::new().current_position()), obs(&Game::new().current_position())).unwrap();
    let rm = |rng: &mut Rng| ChessMove::new(sq(rng.below(64) as usize), sq(rng.below(64) as usize), code_promo(rng.below(7) as u8));
    for i in 0..n {
        // Ord / PartialOrd / Eq on move values (often sharing a prefix)
        let a = rm(&mut rng);
        let b = match rng.below(4) { 0 => a, 1 => ChessMove::new(a.get_source(), sq(rng.below(64) as usize), a.get_promotion()), 2 => ChessMove::new(a.get_source(), a.get_dest(), code_promo(rng.below(7) as u8)), _ => rm(&mut rng) };
        let pc = match a.partial_cmp(&b) { Some(o) => ord(o), None => 'N' };
        writeln!(out, "O {} {} | {} {} {}", mv_str(&a).replace(',', "/"), mv_str(&b).replace(',', "/"), ord(a.cmp(&b)), pc, (a == b) as u8).unwrap();
        // File / Rank from_str
        let txt: String = match rng.below(4) { 0 => String::new(), 1 => { let v: Vec<char> = "abcdefgh12345678ix9A \u{e9}".chars().collect(); (0..(1 + rng.below(3))).map(|_| *rng.pick(&v)).collect() } _ => { let v: Vec<char> = "abcdefgh12345678".chars().collect(); rng.pick(&v).to_string() } };
        let fr = match catch_unwind(AssertUnwindSafe(|| File::from_str(&txt))) { Ok(Ok(f)) => f.to_index().to_string(), Ok(Err(_)) => "ERR".to_string(), Err(_) => "PANIC".to_string() };
        let rr = match catch_unwind(AssertUnwindSafe(|| Rank::from_str(&txt))) { Ok(Ok(f)) => f.to_index().to_string(), Ok(Err(_)) => "ERR".to_string(), Err(_) => "PANIC".to_string() };
        writeln!(out, "L {} | {} {}", hex(&txt), fr, rr).unwrap();
        // BitBoard display
        let w = match rng.below(4) { 0 => 0, 1 => u64::MAX, 2 => rng.next() & rng.next(), _ => rng.next() };
        writeln!(out, "Y {} | {}", w, hex(&format!("{}", BitBoard(w)))).unwrap();
        let _ = i;
    }
    // deprecated board editors along playouts
    let mut rng2 = Rng::new(seed_from_env() ^ 0xE);
    let pcs = [Piece::Pawn, Piece::Knight, Piece::Bishop, Piece::Rook, Piece::Queen];
    for_positions((n / 40).max(2), 40, false, &mut rng, |b, _| {
        for _ in 0..2 {
            let s = sq(rng2.below(64) as usize);
            if b.piece_on(s) == Some(Piece::King) { continue; }
            #[allow(deprecated)]
            let (tag, r) = if rng2.chance(1, 2) {
                let p = *rng2.pick(&pcs); let c = if rng2.chance(1, 2) { Color::White } else { Color::Black };
                (format!("set {} {} {}", s.to_index(), p.to_index(), c.to_index()), b.set_piece(p, c, s))
            } else { (format!("clear {}", s.to_index()), b.clear_square(s)) };
            writeln!(out, "E {} | {} | {}", enc(b), tag, match r { Some(nb) => format!("{}~{}", enc(&nb), obs(&nb)), None => "NONE".to_string() }).unwrap();
        }
    });
}

/// "extra2" stream (Model/Perft.v): perft, the deprecated Board::enumerate_moves / from_fen,
/// Game::from_str / new_from_fen, the BoardBuilder setters.
pub fn run2(n: u64) {
    use crate::text::builder_enc;
    std::panic::set_hook(Box::new(|_| {}));
    let mut rng = Rng::new(seed_from_env());
    let mut rng2 = Rng::new(seed_from_env() ^ 0x2E);
    let out = std::io::stdout(); let mut out = std::io::BufWriter::new(out.lock());
    let mut fens: Vec<String> = Vec::new();
    for_positions(n.max(1), 30, false, &mut rng, |b, _| {
        let nm = MoveGen::new_legal(b).len();
        // perft: depth 1 always, 2 usually, 3 when the tree is small; depth 0 only where the
        // library defines it (no legal move: the loop body is never reached)
        let mut ds = vec![1usize];
        if rng2.chance(2, 3) { ds.push(2); }
        if nm <= 6 && rng2.chance(1, 2) { ds.push(3); }
        if nm == 0 { ds.push(0); }
        let res: Vec<String> = ds.iter().map(|d| match catch_unwind(AssertUnwindSafe(|| MoveGen::movegen_perft_test(b, *d))) { Ok(v) => format!("{}={}", d, v), Err(_) => format!("{}=PANIC", d) }).collect();
        writeln!(out, "P {} | {}", enc(b), res.join(" ")).unwrap();
        if rng2.chance(1, 3) {
            let mut arr = [ChessMove::default(); 256];
            #[allow(deprecated)]
            let k = b.enumerate_moves(&mut arr);
            let l: Vec<String> = arr[..k].iter().map(|m| mv_str(m).replace(',', "/")).collect();
            writeln!(out, "N {} | {} | {}", enc(b), k, if l.is_empty() { "-".to_string() } else { l.join(" ") }).unwrap();
        }
        if fens.len() < 400 && rng2.chance(1, 4) { fens.push(format!("{}", b)); }
    });
    // FEN entry points of Board and Game: valid, truncated, mutated text
    let muts: Vec<char> = "KQkqpPnNbBrR/12345678 wb-ah36x\u{e9}".chars().collect();
    for i in 0..(n * 6) {
        let base = if fens.is_empty() { "8/8/8/8/8/8/8/8 w - - 0 1".to_string() } else { rng2.pick(&fens).clone() };
        let txt: String = match i % 4 {
            0 => base,
            1 => { let k = rng2.below(base.chars().count() as u64 + 1) as usize; base.chars().take(k).collect() }
            2 => { let mut v: Vec<char> = base.chars().collect(); if !v.is_empty() { let k = rng2.below(v.len() as u64) as usize; v[k] = *rng2.pick(&muts); } v.into_iter().collect() }
            _ => { let mut v: Vec<&str> = base.split(' ').collect(); if v.len() > 2 { let k = rng2.below(v.len() as u64) as usize; v.remove(k); } v.join(" ") }
        };
        #[allow(deprecated)]
        let f1 = match catch_unwind(AssertUnwindSafe(|| Board::from_fen(txt.clone()))) { Ok(Some(b)) => format!("{}~{}", enc(&b), obs(&b)), Ok(None) => "NONE".to_string(), Err(_) => "PANIC".to_string() };
        let gshow = |g: &Game| format!("{}~{}~{}~{}", enc(&g.current_position()), obs(&g.current_position()), g.actions().len(), crate::game::res_code(g.result()));
        let f2 = match catch_unwind(AssertUnwindSafe(|| Game::from_str(&txt))) { Ok(Ok(g)) => gshow(&g), Ok(Err(_)) => "ERR".to_string(), Err(_) => "PANIC".to_string() };
        #[allow(deprecated)]
        let f3 = match catch_unwind(AssertUnwindSafe(|| Game::new_from_fen(&txt))) { Ok(Some(g)) => gshow(&g), Ok(None) => "NONE".to_string(), Err(_) => "PANIC".to_string() };
        writeln!(out, "G {} | {} | {} | {}", hex(&txt), f1, f2, f3).unwrap();
    }
    // BoardBuilder setters: a script of operations, the state after each
    let pcs = [Piece::Pawn, Piece::Knight, Piece::Bishop, Piece::Rook, Piece::Queen, Piece::King];
    let col = |k: u64| if k == 0 { Color::White } else { Color::Black };
    for _ in 0..(n * 3) {
        let mut bb = match rng2.below(3) { 0 => BoardBuilder::new(), 1 => BoardBuilder::default(), _ => {
            let k = rng2.below(6) as usize;
            let l: Vec<(Square, Piece, Color)> = (0..k).map(|_| (sq(rng2.below(64) as usize), *rng2.pick(&pcs), col(rng2.below(2)))).collect();
            let (stm, w, bl) = (col(rng2.below(2)), CastleRights::from_index(rng2.below(4) as usize), CastleRights::from_index(rng2.below(4) as usize));
            let ep = if rng2.chance(1, 2) { Some(File::from_index(rng2.below(8) as usize)) } else { None };
            let r = BoardBuilder::setup(&l, stm, w, bl, ep);
            let ls: Vec<String> = l.iter().map(|(s, p, c)| format!("{}/{}/{}", s.to_index(), p.to_index(), c.to_index())).collect();
            writeln!(out, "U {} {} {} {} {} | {}", if ls.is_empty() { "-".to_string() } else { ls.join(",") }, stm.to_index(), w.to_index(), bl.to_index(),
                match ep { Some(f) => f.to_index().to_string(), None => "-".to_string() }, builder_enc(&r)).unwrap();
            r } };
        let mut line = format!("B {} |", builder_enc(&bb));
        for _ in 0..(1 + rng2.below(8)) {
            match rng2.below(5) {
                0 => { let c = col(rng2.below(2)); bb.side_to_move(c); line.push_str(&format!(" stm,{}", c.to_index())); }
                1 => { let c = col(rng2.below(2)); let r = rng2.below(4) as usize; bb.castle_rights(c, CastleRights::from_index(r)); line.push_str(&format!(" cr,{},{}", c.to_index(), r)); }
                2 => { let s = sq(rng2.below(64) as usize); let p = *rng2.pick(&pcs); let c = col(rng2.below(2)); if rng2.chance(1, 2) { bb.piece(s, p, c); } else { bb[s] = Some((p, c)); } line.push_str(&format!(" pc,{},{},{}", s.to_index(), p.to_index(), c.to_index())); }
                3 => { let s = sq(rng2.below(64) as usize); if rng2.chance(1, 2) { bb.clear_square(s); } else { bb[s] = None; } line.push_str(&format!(" cl,{}", s.to_index())); }
                _ => { let f = if rng2.chance(1, 3) { None } else { Some(File::from_index(rng2.below(8) as usize)) }; bb.en_passant(f); line.push_str(&format!(" ep,{}", match f { Some(f) => f.to_index().to_string(), None => "-".to_string() })); }
            }
            line.push_str(&format!("={}", builder_enc(&bb).replace(' ', "_")));
        }
        writeln!(out, "{}", line).unwrap();
    }
}
