(** * Proofs.PextFacts — facts about the bit-serial models [pext64] / [pdep64] of the BMI2
    instructions [_pext_u64] / [_pdep_u64] ([Base.Bits]):
    - [pext64] reads its source only under the mask ([pext64_land]);
    - semantic characterisations: bit [rank m j] of [pext64 x m] is bit [j] of [x] for every
      set bit [j] of the mask, and nothing above [popcount m]; [pdep64] scatters the same way;
    - [pdep64 (pext64 x m) m = x & m]. *)
From Coq Require Import Lia ZifyBool ZifyN ZifyNat.
From Chess Require Import Base.Bits Spec.Geometry Proofs.WalkDep.
Open Scope N_scope.

(** ** 1. [pext] depends on the source only through [x & m] *)
Lemma pext_aux_land fuel : forall x m i k,
  pext_aux fuel x m i k = pext_aux fuel (N.land x m) m i k.
Proof.
  induction fuel as [|f IH]; intros x m i k; [reflexivity|].
  cbn [pext_aux].
  destruct (N.testbit m i) eqn:Hm.
  - rewrite N.land_spec, Hm, andb_true_r. f_equal. apply IH.
  - apply IH.
Qed.

Lemma pext64_land occ m : pext64 occ m = pext64 (N.land occ m) m.
Proof. unfold pext64. apply pext_aux_land. Qed.

(** more generally, two sources agreeing under the mask extract to the same value *)
Lemma pext_aux_agree fuel : forall x y m i k,
  (forall j, N.testbit m j = true -> N.testbit x j = N.testbit y j) ->
  pext_aux fuel x m i k = pext_aux fuel y m i k.
Proof.
  induction fuel as [|f IH]; intros x y m i k Hag; [reflexivity|].
  cbn [pext_aux].
  destruct (N.testbit m i) eqn:Hm.
  - rewrite (Hag i Hm). f_equal. apply IH. exact Hag.
  - apply IH. exact Hag.
Qed.

Lemma pext64_agree x y m :
  (forall j, N.testbit m j = true -> N.testbit x j = N.testbit y j) ->
  pext64 x m = pext64 y m.
Proof. unfold pext64. apply pext_aux_agree. Qed.

(** ** 2. Semantic characterisation *)
(** number of set bits of [m] among the [n] positions [i, i+1, …, i+n-1] *)
Fixpoint cnt (n:nat) (m i:N) : N :=
  match n with
  | O => 0
  | S n' => (if N.testbit m i then 1 else 0) + cnt n' m (N.succ i)
  end.
(** [rank m j]: number of set bits of [m] strictly below position [j];
    the [rank m j]-th set bit of [m] (counting from 0) is [j] when [j] is set *)
Definition rank (m j:N) : N := cnt (N.to_nat j) m 0.
Definition popcount64 (m:N) : N := cnt 64 m 0.

Lemma if_bit_testbit (b:bool) k t :
  N.testbit (if b then bit k else 0) t = b && (k =? t).
Proof. destruct b; [apply testbit_bit|apply N.bits_0]. Qed.

(** *** pext *)
Lemma pext_aux_low fuel : forall x m i k t,
  t < k -> N.testbit (pext_aux fuel x m i k) t = false.
Proof.
  induction fuel as [|f IH]; intros x m i k t Ht; cbn [pext_aux]; [apply N.bits_0|].
  destruct (N.testbit m i).
  - rewrite N.lor_spec, if_bit_testbit, IH by lia.
    destruct (N.eqb_spec k t) as [He|Hne]; [lia|]. rewrite andb_false_r. reflexivity.
  - apply IH. exact Ht.
Qed.

Lemma pext_aux_high fuel : forall x m i k t,
  k + cnt fuel m i <= t -> N.testbit (pext_aux fuel x m i k) t = false.
Proof.
  induction fuel as [|f IH]; intros x m i k t Ht; cbn [pext_aux]; [apply N.bits_0|].
  cbn [cnt] in Ht.
  destruct (N.testbit m i).
  - rewrite N.lor_spec, if_bit_testbit, IH by lia.
    destruct (N.eqb_spec k t) as [He|Hne]; [lia|]. rewrite andb_false_r. reflexivity.
  - apply IH. lia.
Qed.

Lemma pext_aux_spec fuel : forall x m i k d,
  (d < fuel)%nat -> N.testbit m (i + N.of_nat d) = true ->
  N.testbit (pext_aux fuel x m i k) (k + cnt d m i) = N.testbit x (i + N.of_nat d).
Proof.
  induction fuel as [|f IH]; intros x m i k d Hd Hm; [lia|].
  cbn [pext_aux].
  destruct d as [|d'].
  - cbn [cnt]. change (N.of_nat 0) with 0 in *. rewrite N.add_0_r in Hm.
    rewrite !N.add_0_r. rewrite Hm.
    rewrite N.lor_spec, if_bit_testbit, N.eqb_refl, andb_true_r.
    rewrite pext_aux_low by lia. apply orb_false_r.
  - cbn [cnt].
    assert (Hidx : i + N.of_nat (S d') = N.succ i + N.of_nat d') by lia.
    rewrite Hidx in *.
    destruct (N.testbit m i) eqn:Hmi.
    + rewrite N.lor_spec, if_bit_testbit.
      destruct (N.eqb_spec k (k + (1 + cnt d' m (N.succ i)))) as [He|Hne]; [lia|].
      rewrite andb_false_r, orb_false_l.
      replace (k + (1 + cnt d' m (N.succ i))) with (N.succ k + cnt d' m (N.succ i)) by lia.
      apply IH; [lia|exact Hm].
    + rewrite N.add_0_l. apply IH; [lia|exact Hm].
Qed.

(** bit [rank m j] of [pext64 x m] is bit [j] of [x], for every set bit [j < 64] of [m] *)
Theorem pext64_spec x m j :
  j < 64 -> N.testbit m j = true ->
  N.testbit (pext64 x m) (rank m j) = N.testbit x j.
Proof.
  intros Hj Hm. unfold pext64, rank.
  pose proof (pext_aux_spec 64 x m 0 0 (N.to_nat j)) as H.
  rewrite N2Nat.id, !N.add_0_l in H. apply H; [lia|exact Hm].
Qed.

(** … and [pext64 x m] has no bits at or above the population count of (the low 64 bits of) [m] *)
Theorem pext64_high x m t :
  popcount64 m <= t -> N.testbit (pext64 x m) t = false.
Proof. intros Ht. unfold pext64. apply pext_aux_high. rewrite N.add_0_l. exact Ht. Qed.

(** [rank] is strictly increasing across set bits, so [pext64_spec] addresses distinct output
    positions for distinct set bits, all of them below [popcount64 m] *)
Lemma cnt_split a : forall b m i,
  cnt (a + b) m i = cnt a m i + cnt b m (i + N.of_nat a).
Proof.
  induction a as [|a IH]; intros b m i.
  - cbn [cnt plus]. change (N.of_nat 0) with 0. rewrite N.add_0_r. reflexivity.
  - cbn [cnt plus]. rewrite IH.
    replace (N.succ i + N.of_nat a) with (i + N.of_nat (S a)) by lia. lia.
Qed.

Lemma rank_lt_mono m j j' :
  j < j' -> N.testbit m j = true -> rank m j < rank m j'.
Proof.
  intros Hlt Hm. unfold rank.
  replace (N.to_nat j') with (N.to_nat j + S (N.to_nat (j' - j) - 1))%nat by lia.
  rewrite cnt_split, N2Nat.id, N.add_0_l. cbn [cnt]. rewrite Hm. lia.
Qed.

Lemma rank_lt_popcount m j :
  j < 64 -> N.testbit m j = true -> rank m j < popcount64 m.
Proof.
  intros Hj Hm. unfold rank, popcount64.
  replace 64%nat with (N.to_nat j + S (63 - N.to_nat j))%nat by lia.
  rewrite cnt_split, N2Nat.id, N.add_0_l. cbn [cnt]. rewrite Hm. lia.
Qed.

(** *** pdep *)
Lemma pdep_aux_low fuel : forall x m i k t,
  t < i -> N.testbit (pdep_aux fuel x m i k) t = false.
Proof.
  induction fuel as [|f IH]; intros x m i k t Ht; cbn [pdep_aux]; [apply N.bits_0|].
  destruct (N.testbit m i).
  - rewrite N.lor_spec, if_bit_testbit, IH by lia.
    destruct (N.eqb_spec i t) as [He|Hne]; [lia|]. rewrite andb_false_r. reflexivity.
  - apply IH. lia.
Qed.

Lemma pdep_aux_high fuel : forall x m i k t,
  i + N.of_nat fuel <= t -> N.testbit (pdep_aux fuel x m i k) t = false.
Proof.
  induction fuel as [|f IH]; intros x m i k t Ht; cbn [pdep_aux]; [apply N.bits_0|].
  destruct (N.testbit m i).
  - rewrite N.lor_spec, if_bit_testbit, IH by lia.
    destruct (N.eqb_spec i t) as [He|Hne]; [lia|]. rewrite andb_false_r. reflexivity.
  - apply IH. lia.
Qed.

Lemma pdep_aux_spec fuel : forall x m i k d,
  (d < fuel)%nat ->
  N.testbit (pdep_aux fuel x m i k) (i + N.of_nat d)
  = N.testbit m (i + N.of_nat d) && N.testbit x (k + cnt d m i).
Proof.
  induction fuel as [|f IH]; intros x m i k d Hd; [lia|].
  cbn [pdep_aux].
  destruct d as [|d'].
  - cbn [cnt]. change (N.of_nat 0) with 0. rewrite !N.add_0_r.
    destruct (N.testbit m i) eqn:Hmi.
    + rewrite N.lor_spec, if_bit_testbit, N.eqb_refl, andb_true_r.
      rewrite pdep_aux_low by lia. rewrite orb_false_r. reflexivity.
    + apply pdep_aux_low. lia.
  - cbn [cnt].
    assert (Hidx : i + N.of_nat (S d') = N.succ i + N.of_nat d') by lia.
    rewrite Hidx.
    destruct (N.testbit m i) eqn:Hmi.
    + rewrite N.lor_spec, if_bit_testbit.
      destruct (N.eqb_spec i (N.succ i + N.of_nat d')) as [He|Hne]; [lia|].
      rewrite andb_false_r, orb_false_l.
      replace (k + (1 + cnt d' m (N.succ i))) with (N.succ k + cnt d' m (N.succ i)) by lia.
      apply IH. lia.
    + rewrite N.add_0_l. apply IH. lia.
Qed.

(** bit [j < 64] of [pdep64 x m] is set iff [j] is set in [m] and bit [rank m j] of [x] is set *)
Theorem pdep64_spec x m j :
  j < 64 -> N.testbit (pdep64 x m) j = N.testbit m j && N.testbit x (rank m j).
Proof.
  intros Hj. unfold pdep64, rank.
  pose proof (pdep_aux_spec 64 x m 0 0 (N.to_nat j)) as H.
  rewrite N2Nat.id, !N.add_0_l in H. apply H. lia.
Qed.

Theorem pdep64_high x m t : 64 <= t -> N.testbit (pdep64 x m) t = false.
Proof. intros Ht. unfold pdep64. apply pdep_aux_high. cbn. lia. Qed.

(** scatter after gather restores the masked source *)
Theorem pdep64_pext64 x m : m < 2^64 -> pdep64 (pext64 x m) m = N.land x m.
Proof.
  intros Hm. apply N.bits_inj; intro t. rewrite N.land_spec.
  destruct (N.ltb_spec t 64) as [Hlt|Hge].
  - rewrite pdep64_spec by exact Hlt.
    destruct (N.testbit m t) eqn:Hmt.
    + rewrite pext64_spec by assumption. rewrite andb_true_r. reflexivity.
    + rewrite andb_false_r. reflexivity.
  - rewrite pdep64_high by exact Hge. rewrite (testbit_high m t Hm Hge), andb_false_r.
    reflexivity.
Qed.

(** ** Examples: the hypotheses are satisfiable and the statements non-trivial *)
(* mask 0b1011_0100 (bits 2,4,5,7); source bits 2 and 5 and (outside the mask) 0 and 3 *)
Example pext64_ex :
  pext64 (bit 0 + bit 2 + bit 3 + bit 5) 180 = 5 /\
  pext64 (N.land (bit 0 + bit 2 + bit 3 + bit 5) 180) 180 = 5 /\
  rank 180 5 = 2 /\ 5 < 64 /\ N.testbit 180 5 = true /\
  N.testbit (pext64 (bit 0 + bit 2 + bit 3 + bit 5) 180) 2 = true /\
  popcount64 180 = 4.
Proof. repeat split; vm_compute; reflexivity. Qed.

Example pdep64_ex :
  pdep64 5 180 = bit 2 + bit 5 /\ 180 < 2^64 /\
  pdep64 (pext64 (bit 0 + bit 2 + bit 3 + bit 5) 180) 180 = bit 2 + bit 5 /\
  N.testbit (pdep64 5 180) 5 = true /\ N.testbit (pdep64 5 180) 4 = false.
Proof. repeat split; vm_compute; reflexivity. Qed.

(* bits of the source above 63 are never read; bits of the mask above 63 are ignored *)
Example pext64_wide_ex : pext64 (bit 64 + bit 1) (bit 64 + bit 1) = 1.
Proof. vm_compute. reflexivity. Qed.
