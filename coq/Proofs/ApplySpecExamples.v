(** * Proofs.ApplySpecExamples — C02: concrete positions (by computation) for every clause of
    [Proofs/ApplySpec.v] and [Proofs/ApplySpecEp.v].  Each example also witnesses that the
    hypotheses of the general theorems (valid position, legal move) are satisfiable.
    Squares: a1 = 0, h1 = 7, a8 = 56, h8 = 63 (index = rank*8 + file). *)
From Chess Require Import Model.Board Spec.Rules Proofs.TablesLib Proofs.ApplySpecLib Proofs.ApplySpec
  Proofs.ApplySpecEp Proofs.MakeMoveTwin.
Open Scope N_scope.

Definition put (l:list (N*(ptype*color))) : list (option (ptype*color)) :=
  fold_left (fun b sp => updN b (fst sp) (Some (snd sp))) l (repeat None 64).
Definition mkpos l c (k q k' q':bool) e : pos :=
  {| placement := put l; turn := c; wk := k; wq := q; bk := k'; bq := q'; ep := e |}.
Ltac in_list := vm_compute; repeat (first [left; reflexivity | right]).

(** ** a capture: Nf3xe5 *)
Definition p_cap := mkpos [(4,(King,White)); (60,(King,Black)); (21,(Knight,White)); (36,(Pawn,Black))]
                          White false false false false None.
Example ex_capture :
  pos_valid p_cap = true /\ In (mv 21 36) (legal_moves p_cap) /\
  at_ p_cap 36 = Some (Pawn,Black) /\
  at_ (apply p_cap (mv 21 36)) 36 = Some (Knight,White) /\ at_ (apply p_cap (mv 21 36)) 21 = None /\
  men (apply p_cap (mv 21 36)) Black = 1 /\ turn (apply p_cap (mv 21 36)) = Black /\
  ep (apply p_cap (mv 21 36)) = None.
Proof. split; [vm_compute; reflexivity|]. split; [in_list|]. vm_compute. auto 10. Qed.

(** ** an en-passant capture: e5xd6, the pawn on d5 is gone *)
Definition p_ep := mkpos [(4,(King,White)); (60,(King,Black)); (36,(Pawn,White)); (35,(Pawn,Black))]
                         White false false false false (Some 43).
Example ex_en_passant :
  pos_valid p_ep = true /\ In (mv 36 43) (legal_moves p_ep) /\ is_ep p_ep (mv 36 43) = true /\
  ep_victim (mv 36 43) = 35 /\ at_ p_ep 35 = Some (Pawn,Black) /\
  at_ (apply p_ep (mv 36 43)) 43 = Some (Pawn,White) /\ at_ (apply p_ep (mv 36 43)) 35 = None /\
  at_ (apply p_ep (mv 36 43)) 36 = None /\ men (apply p_ep (mv 36 43)) Black = 1.
Proof. split; [vm_compute; reflexivity|]. split; [in_list|]. vm_compute. auto 10. Qed.

(** ** both castlings: the rook jumps, both rights of the mover go *)
Definition p_castle := mkpos [(4,(King,White)); (0,(Rook,White)); (7,(Rook,White)); (60,(King,Black))]
                             White true true false false None.
Example ex_castle_kingside :
  pos_valid p_castle = true /\ In (mv 4 6) (legal_moves p_castle) /\ is_castle p_castle (mv 4 6) = true /\
  rook_from (mv 4 6) = 7 /\ rook_to (mv 4 6) = 5 /\
  at_ (apply p_castle (mv 4 6)) 6 = Some (King,White) /\ at_ (apply p_castle (mv 4 6)) 5 = Some (Rook,White) /\
  at_ (apply p_castle (mv 4 6)) 7 = None /\ at_ (apply p_castle (mv 4 6)) 4 = None /\
  at_ (apply p_castle (mv 4 6)) 0 = Some (Rook,White) /\
  wk (apply p_castle (mv 4 6)) = false /\ wq (apply p_castle (mv 4 6)) = false.
Proof. split; [vm_compute; reflexivity|]. split; [in_list|]. vm_compute. auto 20. Qed.
Example ex_castle_queenside :
  In (mv 4 2) (legal_moves p_castle) /\ is_castle p_castle (mv 4 2) = true /\
  rook_from (mv 4 2) = 0 /\ rook_to (mv 4 2) = 3 /\
  at_ (apply p_castle (mv 4 2)) 2 = Some (King,White) /\ at_ (apply p_castle (mv 4 2)) 3 = Some (Rook,White) /\
  at_ (apply p_castle (mv 4 2)) 0 = None /\ at_ (apply p_castle (mv 4 2)) 4 = None /\
  at_ (apply p_castle (mv 4 2)) 7 = Some (Rook,White) /\
  wk (apply p_castle (mv 4 2)) = false /\ wq (apply p_castle (mv 4 2)) = false.
Proof. split; [in_list|]. vm_compute. auto 20. Qed.
(** a rook move loses only its own side's right *)
Example ex_rook_leaves_home :
  In (mv 7 15) (legal_moves p_castle) /\
  wk (apply p_castle (mv 7 15)) = false /\ wq (apply p_castle (mv 7 15)) = true.
Proof. split; [in_list|]. vm_compute. auto. Qed.

(** ** a promotion with capture: b7xa8=Q; the rook captured at home costs Black the a-side right *)
Definition p_promo := mkpos [(4,(King,White)); (60,(King,Black)); (49,(Pawn,White)); (56,(Rook,Black))]
                            White false false false true None.
Definition m_promo := {| src := 49; dst := 56; promo := Some Queen |}.
Example ex_promotion_capture :
  pos_valid p_promo = true /\ In m_promo (legal_moves p_promo) /\ placed p_promo m_promo = Queen /\
  at_ (apply p_promo m_promo) 56 = Some (Queen,White) /\ at_ (apply p_promo m_promo) 49 = None /\
  pawns (apply p_promo m_promo) White = 0 /\ men (apply p_promo m_promo) Black = 1 /\
  bq p_promo = true /\ bq (apply p_promo m_promo) = false.
Proof. split; [vm_compute; reflexivity|]. split; [in_list|]. vm_compute. auto 10. Qed.

(** ** a double push beside an enemy pawn (recorded) and not beside one (not recorded; the
    unconditional FIDE flag would be set, with the same legal moves) *)
Definition p_dbl := mkpos [(4,(King,White)); (60,(King,Black)); (12,(Pawn,White)); (27,(Pawn,Black))]
                          White false false false false None.
Example ex_double_push_beside :
  pos_valid p_dbl = true /\ In (mv 12 28) (legal_moves p_dbl) /\ is_double p_dbl (mv 12 28) = true /\
  ep_mid (mv 12 28) = 20 /\ beside 28 27 /\ has p_dbl 27 Pawn Black = true /\
  ep (apply p_dbl (mv 12 28)) = Some 20 /\ apply_fide p_dbl (mv 12 28) = apply p_dbl (mv 12 28) /\
  In (mv 27 20) (legal_moves (apply p_dbl (mv 12 28))) /\
  is_ep (apply p_dbl (mv 12 28)) (mv 27 20) = true /\
  pos_valid (apply p_dbl (mv 12 28)) = true.
Proof.
  split; [vm_compute; reflexivity|]. split; [in_list|]. split; [vm_compute; reflexivity|].
  split; [vm_compute; reflexivity|]. split; [vm_compute; auto|]. split; [vm_compute; reflexivity|].
  split; [vm_compute; reflexivity|]. split; [vm_compute; reflexivity|]. split; [in_list|].
  split; vm_compute; reflexivity.
Qed.
Definition p_dbl0 := mkpos [(4,(King,White)); (60,(King,Black)); (12,(Pawn,White)); (26,(Pawn,Black))]
                           White false false false false None.
Example ex_double_push_alone :
  pos_valid p_dbl0 = true /\ In (mv 12 28) (legal_moves p_dbl0) /\ is_double p_dbl0 (mv 12 28) = true /\
  ep (apply p_dbl0 (mv 12 28)) = None /\ ep (apply_fide p_dbl0 (mv 12 28)) = Some 20 /\
  legal_moves (apply_fide p_dbl0 (mv 12 28)) = legal_moves (apply p_dbl0 (mv 12 28)) /\
  pos_valid (apply p_dbl0 (mv 12 28)) = true.
Proof.
  split; [vm_compute; reflexivity|]. split; [in_list|]. repeat split; vm_compute; reflexivity.
Qed.
(** a single push never records a target *)
Example ex_single_push : In (mv 12 20) (legal_moves p_dbl) /\ ep (apply p_dbl (mv 12 20)) = None.
Proof. split; [in_list|]. vm_compute. reflexivity. Qed.
(** the recorded pawn may still not be legally capturable (taking it would expose the king on
    a4 to the rook on h4): the convention records the target all the same — "recorded" is
    necessary for, not equivalent to, "legally capturable" *)
Definition p_pinned := mkpos [(4,(King,White)); (31,(Rook,White)); (12,(Pawn,White));
                              (24,(King,Black)); (27,(Pawn,Black))]
                             White false false false false None.
Example ex_recorded_but_pinned :
  pos_valid p_pinned = true /\ In (mv 12 28) (legal_moves p_pinned) /\
  ep (apply p_pinned (mv 12 28)) = Some 20 /\
  In (mv 27 20) (pseudo (apply p_pinned (mv 12 28))) /\
  forallb (fun x => negb (is_ep (apply p_pinned (mv 12 28)) x))
          (legal_moves (apply p_pinned (mv 12 28))) = true /\
  pos_valid (apply p_pinned (mv 12 28)) = true.
Proof.
  split; [vm_compute; reflexivity|]. split; [in_list|]. split; [vm_compute; reflexivity|].
  split; [in_list|]. split; vm_compute; reflexivity.
Qed.

(** ** a rook captured on h8: Black loses the h-side right (and the capturing rook left h1) *)
Definition p_rxh8 := mkpos [(4,(King,White)); (7,(Rook,White)); (60,(King,Black)); (63,(Rook,Black))]
                           White true false true false None.
Example ex_rook_captured_at_home :
  pos_valid p_rxh8 = true /\ In (mv 7 63) (legal_moves p_rxh8) /\
  bk p_rxh8 = true /\ bk (apply p_rxh8 (mv 7 63)) = false /\
  wk p_rxh8 = true /\ wk (apply p_rxh8 (mv 7 63)) = false /\
  at_ (apply p_rxh8 (mv 7 63)) 63 = Some (Rook,White) /\ men (apply p_rxh8 (mv 7 63)) Black = 1.
Proof. split; [vm_compute; reflexivity|]. split; [in_list|]. vm_compute. auto 10. Qed.
(** a move elsewhere keeps the rights *)
Example ex_rights_kept :
  In (mv 4 12) (legal_moves p_rxh8) /\ bk (apply p_rxh8 (mv 4 12)) = true /\
  wk (apply p_rxh8 (mv 4 12)) = false.
Proof. split; [in_list|]. vm_compute. auto. Qed.

(** ** the refinement statement holds at these points (the library model against [apply]) *)
Definition refines_at (p:pos) (m:move) : bool :=
  match make_move_new (from_scratch p) (src m) (dst m) (promo m) with
  | Some b' => board_eqb b' (from_scratch (apply p m))
  | None => false end.
Example ex_refinement_points :
  refines_at p_cap (mv 21 36) = true /\ refines_at p_ep (mv 36 43) = true /\
  refines_at p_castle (mv 4 6) = true /\ refines_at p_castle (mv 4 2) = true /\
  refines_at p_promo m_promo = true /\ refines_at p_dbl (mv 12 28) = true /\
  refines_at p_dbl0 (mv 12 28) = true /\ refines_at p_rxh8 (mv 7 63) = true.
Proof. vm_compute. auto 10. Qed.
