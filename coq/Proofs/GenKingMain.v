(** * Proofs.GenKingMain — interface statement Y1 of the move-generator refinement: for a king
    step to a square not held by an own man, [legal_king_move] (the attack test on the
    destination with the king lifted off the board) decides whether the mover's king is
    attacked in the successor position. *)
From Coq Require Import Lia ZifyBool ZifyN ZifyNat.
From Chess Require Import Base.Bits Spec.Geometry Spec.Rules Model.Board Model.MoveGen.
From Chess Require Import Proofs.BitsFacts Proofs.TablesLib Proofs.TablesMeaning Proofs.AbsBoard
                          Proofs.CanonAttack Proofs.CanonCheckers Proofs.NullMove
                          Proofs.CanonNullMove Proofs.GenInterface Proofs.GenKingBase.
Open Scope N_scope.

Lemma king_step_files k d : k < 64 -> d < 64 -> N.testbit (king_moves k) d = true ->
  d <> k /\ (absdiff (file_of k) (file_of d) =? 2) = false.
Proof.
  intros Hk Hd H. rewrite (king_meaning k d Hk Hd) in H. apply Z.eqb_eq in H.
  split.
  - intros ->. rewrite !Z.sub_diag in H. cbn in H. discriminate H.
  - unfold absdiff, file_of. unfold fileZ in H.
    assert (Z.abs (Z.of_N (N.land k 7) - Z.of_N (N.land d 7)) <= 1)%Z by lia.
    destruct (N.leb_spec (N.land k 7) (N.land d 7)); apply N.eqb_neq; lia.
Qed.

Section KingStep.
Variable b : board.
Hypothesis HS : Setup b.
Variable d : N.
Hypothesis Hd : d < 64.
Local Notation p := (abs_board b).
Local Notation me := (stm b).
Local Notation k := (king_square b (stm b)).
Hypothesis Hadj : N.testbit (king_moves k) d = true.
Hypothesis Hown : own p me d = false.

Local Notation w' := (N.lor (N.lxor (comb b) (N.land (pK b) (color_combined b me))) (bit d)).
Local Notation p' := (apply p (mv k d)).

Lemma ks_dk : d <> k.
Proof. exact (proj1 (king_step_files k d (su_k_lt b HS) Hd Hadj)). Qed.

Lemma ks_placement :
  placement p' = updN (updN (placement p) k None) d (Some (King, me)).
Proof.
  rewrite apply_placement_plain.
  - unfold moved_piece. cbn [src dst mv]. rewrite (su_at_king b HS). reflexivity.
  - unfold is_ep. cbn [src dst mv]. unfold has. rewrite (su_at_king b HS). reflexivity.
  - unfold is_castle. cbn [src dst mv].
    rewrite (proj2 (king_step_files k d (su_k_lt b HS) Hd Hadj)). apply andb_false_r.
  - reflexivity.
Qed.

Lemma ks_at s : s < 64 ->
  at_ p' s = if s =? d then Some (King, me) else if s =? k then None else at_ p s.
Proof.
  intro Hs. rewrite at_atl, ks_placement.
  rewrite atl_updN; [|rewrite updN_length; exact (su_len b HS)|exact Hd].
  rewrite atl_updN; [|exact (su_len b HS)|exact (su_k_lt b HS)]. reflexivity.
Qed.

Lemma ks_occ x : x < 64 -> occ p' x = N.testbit w' x.
Proof.
  intro Hx. unfold occ. rewrite (ks_at x Hx). rewrite (su_kingbit b HS).
  rewrite N.lor_spec, N.lxor_spec, !TablesLib.testbit_bit.
  destruct (N.eqb_spec x d) as [->|Hxd].
  - rewrite N.eqb_refl, orb_true_r. reflexivity.
  - destruct (N.eqb_spec d x) as [E|_]; [congruence|]. rewrite orb_false_r.
    destruct (N.eqb_spec x k) as [->|Hxk].
    + rewrite N.eqb_refl. rewrite <- (su_occ b HS k (su_k_lt b HS)). unfold occ.
      rewrite (su_at_king b HS). reflexivity.
    + destruct (N.eqb_spec k x) as [E|_]; [congruence|]. rewrite xorb_false_r.
      rewrite <- (su_occ b HS x Hx). reflexivity.
Qed.

Lemma ks_king_sq : king_sq p' me = Some d.
Proof.
  apply king_sq_unique; [exact Hd|]. intros s Hs. unfold has. rewrite (ks_at s Hs).
  destruct (N.eqb_spec s d) as [->|Hsd]; [rewrite ceqb_refl; reflexivity|].
  destruct (N.eqb_spec s k) as [->|Hsk]; [reflexivity|].
  pose proof (su_has_king b HS s Hs) as H. unfold has in H. rewrite H.
  apply N.eqb_neq, Hsk.
Qed.

Theorem king_step_safe : safe p (mv k d) = legal_king_move b d.
Proof.
  unfold safe. change (turn p) with me.
  rewrite (in_check_gen p' w' ks_occ me d ks_king_sq Hd).
  rewrite (legal_king_move_existsb b (su_cons b HS) d). f_equal.
  apply existsb_ext_in. intros s Hs. apply in_all_sq in Hs.
  rewrite (ks_at s Hs).
  destruct (N.eqb_spec s d) as [->|Hsd].
  - rewrite att_rev_self by exact Hd. unfold att_sq. rewrite ceqb_opp. reflexivity.
  - destruct (N.eqb_spec s k) as [->|Hsk].
    + rewrite (su_at_king b HS). unfold att_sq, att_rev. rewrite ceqb_opp. reflexivity.
    + apply att_sq_rev; assumption.
Qed.
End KingStep.

Theorem king_step : stmt_king_step.
Proof.
  unfold stmt_king_step. intros b d HCan Hv Hd Hadj Hown.
  pose proof (setup_of b HCan Hv) as HS.
  rewrite (su_kingsq b HS) in *.
  apply (king_step_safe b HS d Hd Hadj).
Qed.
Print Assumptions king_step.
Check king_step : stmt_king_step.

(** the hypotheses are satisfiable: the start position after 1.e4 e5 (built from scratch),
    the king step e1-e2 *)
Definition ks_pos : pos := apply (apply startpos (mv 12 28)) (mv 52 36).
Example king_step_ex :
  let b := from_scratch ks_pos in
  b = from_scratch (abs_board b) /\ pos_valid (abs_board b) = true /\
  N.testbit (king_moves (kingsq (abs_board b))) 12 = true /\ own (abs_board b) (stm b) 12 = false /\
  legal_king_move b 12 = true.
Proof. vm_compute. repeat split; reflexivity. Qed.
