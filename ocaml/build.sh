#!/bin/sh
# builds the correspondence driver from the extracted model (build/ocaml/model.ml{,i})
set -e
B=/verif/build/ocaml
mkdir -p $B
cp /verif/ocaml/*.ml $B/
cd $B
ocamlfind ocamlopt -O2 -w -a -c model.mli model.ml 2>/dev/null || ocamlfind ocamlopt -w -a -c model.mli model.ml
ocamlfind ocamlopt -w -a -o driver model.cmx common.ml poschk.ml iterchk.ml textchk.ml miscchk.ml gamechk.ml extrachk.ml streams.ml driver.ml
