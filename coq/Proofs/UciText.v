(** * Proofs.UciText — property C13: the UCI text of squares and moves.
    (1) Shape of the rendering; round trip render -> parse on the complete finite domains
        (64 squares, 64 x 64 x 5 = 20480 moves), by exhaustive sweeps.
    (2) Parsing ANY string never panics.
    (3) Whenever parsing ANY string succeeds, the rendering of the result is a prefix of
        the input, and the decoded value is the one the text spells. *)
From Coq Require Import Lia ZifyBool ZifyN ZifyNat.
From Chess Require Import Base.Bits Base.Text Spec.Geometry Spec.Rules
  Model.Board Model.MoveGen Model.Fen.
Open Scope N_scope.
Ltac Zify.zify_post_hook ::= Z.div_mod_to_equations.
#[local] Arguments N.add : simpl never.
#[local] Arguments N.sub : simpl never.
#[local] Arguments N.mul : simpl never.
#[local] Arguments N.shiftl : simpl never.
#[local] Arguments N.shiftr : simpl never.
#[local] Arguments N.land : simpl never.
#[local] Arguments N.lor : simpl never.
#[local] Arguments N.lxor : simpl never.
#[local] Arguments N.testbit : simpl never.
#[local] Arguments N.eqb : simpl never.
#[local] Arguments N.ltb : simpl never.
#[local] Arguments N.leb : simpl never.

(** ** Domains *)
Definition promo_domain : list (option ptype) :=
  [None; Some Queen; Some Knight; Some Rook; Some Bishop].

Lemma in_all_sq13 : forall s, In s all_sq <-> s < 64.
Proof.
  intro s. change all_sq with (map N.of_nat (seq 0 64)). rewrite in_map_iff. split.
  - intros [n [Hn Hi]]. apply in_seq in Hi. lia.
  - intro H. exists (N.to_nat s). split; [apply N2Nat.id|]. apply in_seq. lia.
Qed.

(** ** 1. Shape of the rendering *)

(** file letter a..h then rank digit 1..8 (true for every [s]; the ranges need [s < 64]) *)
Lemma square_display_shape : forall s, square_display s = [97 + s mod 8; 49 + s / 8].
Proof.
  intro s. unfold square_display.
  change 7 with (N.ones 3). rewrite N.land_ones, N.shiftr_div_pow2. reflexivity.
Qed.
Lemma square_display_chars : forall s, s < 64 ->
  exists f r, square_display s = [f; r] /\ 97 <= f <= 104 /\ 49 <= r <= 56
              /\ f = 97 + s mod 8 /\ r = 49 + s / 8.
Proof.
  intros s Hs. exists (97 + s mod 8), (49 + s / 8).
  split; [apply square_display_shape|]. lia.
Qed.
(** a move is source, destination, optional promotion letter — definitional *)
Lemma move_display_shape : forall m,
  move_display m = square_display (msrc m) ++ square_display (mdst m)
                   ++ match mpromo m with Some p => [piece_letter p] | None => [] end.
Proof. reflexivity. Qed.
(** the promotion letters are the lower-case ASCII letters q n r b *)
Lemma promo_letters :
  piece_letter Queen = 113 /\ piece_letter Knight = 110 /\
  piece_letter Rook = 114 /\ piece_letter Bishop = 98.
Proof. repeat split. Qed.
(** a rendered move is 4 or 5 ASCII characters *)
Lemma move_display_length : forall m, In (mpromo m) promo_domain ->
  length (move_display m) = match mpromo m with Some _ => 5%nat | None => 4%nat end.
Proof. intros m H. unfold move_display, square_display. destruct (mpromo m); reflexivity. Qed.

(** ** 1. Round trips, by exhaustive sweeps *)

Definition sq_rt_ok (s:N) : bool :=
  match square_from_str (square_display s) with Ok t => t =? s | _ => false end.
Lemma sq_rt_sweep : forallb sq_rt_ok all_sq = true.
Proof. vm_cast_no_check (eq_refl true). Qed.

Theorem square_roundtrip : forall s, s < 64 -> square_from_str (square_display s) = Ok s.
Proof.
  intros s Hs. pose proof sq_rt_sweep as H. rewrite forallb_forall in H.
  specialize (H s (proj2 (in_all_sq13 s) Hs)). unfold sq_rt_ok in H.
  destruct (square_from_str (square_display s)) as [t| |]; try discriminate.
  apply N.eqb_eq in H. subst t. reflexivity.
Qed.

Definition promo_same (a b:option ptype) : bool :=
  match a, b with
  | None, None => true
  | Some Queen, Some Queen | Some Knight, Some Knight
  | Some Rook, Some Rook | Some Bishop, Some Bishop => true
  | _, _ => false end.
Definition mv_rt_ok (s d:N) (p:option ptype) : bool :=
  match move_from_str (move_display {| msrc:=s; mdst:=d; mpromo:=p |}) with
  | Ok m => (msrc m =? s) && (mdst m =? d) && promo_same (mpromo m) p
  | _ => false end.
(** all 64 x 64 x 5 = 20480 move values *)
Lemma mv_rt_sweep :
  forallb (fun s => forallb (fun d => forallb (mv_rt_ok s d) promo_domain) all_sq) all_sq = true.
Proof. vm_cast_no_check (eq_refl true). Qed.

Lemma promo_same_eq : forall a b, promo_same a b = true -> a = b.
Proof.
  intros [[]|] [[]|] H; try discriminate H; reflexivity.
Qed.

Theorem move_roundtrip : forall s d p, s < 64 -> d < 64 -> In p promo_domain ->
  move_from_str (move_display {| msrc:=s; mdst:=d; mpromo:=p |})
  = Ok {| msrc:=s; mdst:=d; mpromo:=p |}.
Proof.
  intros s d p Hs Hd Hp. pose proof mv_rt_sweep as H.
  rewrite forallb_forall in H. specialize (H s (proj2 (in_all_sq13 s) Hs)).
  rewrite forallb_forall in H. specialize (H d (proj2 (in_all_sq13 d) Hd)).
  rewrite forallb_forall in H. specialize (H p Hp). unfold mv_rt_ok in H.
  destruct (move_from_str _) as [m| |]; try discriminate.
  destruct m as [ms md mp]. cbn [msrc mdst mpromo] in H.
  apply andb_true_iff in H. destruct H as [H H3].
  apply andb_true_iff in H. destruct H as [H1 H2].
  apply N.eqb_eq in H1. apply N.eqb_eq in H2. apply promo_same_eq in H3.
  subst. reflexivity.
Qed.

(** ** String-model lemmas *)

Lemma utf8_len_pos : forall c, 1 <= utf8_len c.
Proof. intro c. unfold utf8_len. repeat destruct (_ <? _); lia. Qed.
Lemma utf8_len_ascii : forall c, c < 128 -> utf8_len c = 1.
Proof. intros c H. unfold utf8_len. destruct (c <? 128) eqn:E; [reflexivity|lia]. Qed.
Lemma utf8_len_1 : forall c, utf8_len c = 1 -> c < 128.
Proof. intros c. unfold utf8_len. destruct (c <? 128) eqn:E; [lia|]. repeat destruct (_ <? _); lia. Qed.
Lemma byte_len_0 : forall s, byte_len s = 0 -> s = [].
Proof.
  intros [|c r] H; [reflexivity|]. cbn [byte_len] in H. pose proof (utf8_len_pos c). lia.
Qed.
Lemma byte_len_app : forall a b, byte_len (a ++ b) = byte_len a + byte_len b.
Proof.
  induction a as [|c a IH]; intro b; cbn [byte_len app]; [lia|]. rewrite IH. lia.
Qed.
Lemma byte_len_1 : forall s, byte_len s = 1 -> exists c, s = [c] /\ c < 128.
Proof.
  intros [|c r] H; cbn [byte_len] in H; [lia|].
  pose proof (utf8_len_pos c). assert (Hr : byte_len r = 0) by lia.
  apply byte_len_0 in Hr. subst r. exists c. split; [reflexivity|].
  apply utf8_len_1. cbn [byte_len] in H. lia.
Qed.

(** [split_at_byte] really splits, at the requested byte offset *)
Lemma split_at_byte_spec : forall s n p q,
  split_at_byte s n = Some (p,q) -> s = p ++ q /\ byte_len p = n.
Proof.
  induction s as [|c r IH]; intros n p q H; cbn [split_at_byte] in H.
  - destruct (n =? 0) eqn:E; [|discriminate]. inversion H; subst.
    split; [reflexivity|cbn [byte_len]; lia].
  - destruct (n =? 0) eqn:E.
    + inversion H; subst. split; [reflexivity|cbn [byte_len]; lia].
    + destruct (utf8_len c <=? n) eqn:E2; [|discriminate].
      destruct (split_at_byte r (n - utf8_len c)) as [[p' q']|] eqn:E3; [|discriminate].
      inversion H; subst. destruct (IH _ _ _ E3) as [H1 H2]. subst r.
      cbn [app byte_len]. split; [reflexivity|]. lia.
Qed.
Lemma split_at_byte_0 : forall s, split_at_byte s 0 = Some ([], s).
Proof. intros [|c r]; reflexivity. Qed.

Lemma get_range_0 : forall s n a, get_range s 0 n = Some a ->
  exists rest, split_at_byte s n = Some (a, rest) /\ s = a ++ rest /\ byte_len a = n.
Proof.
  intros s n a H. unfold get_range in H. destruct (0 <=? n); [|discriminate].
  rewrite split_at_byte_0, N.sub_0_r in H.
  destruct (split_at_byte s n) as [[m rest]|] eqn:E; [|discriminate].
  inversion H; subst. exists rest. split; [reflexivity|]. apply split_at_byte_spec, E.
Qed.
Lemma get_range_spec : forall s a b m, get_range s a b = Some m ->
  exists p q, s = p ++ m ++ q /\ byte_len p = a /\ byte_len m = b - a /\ a <= b.
Proof.
  intros s a b m H. unfold get_range in H. destruct (a <=? b) eqn:E; [|discriminate].
  destruct (split_at_byte s a) as [[p r]|] eqn:E1; [|discriminate].
  destruct (split_at_byte r (b - a)) as [[m' q]|] eqn:E2; [|discriminate].
  inversion H; subst. apply split_at_byte_spec in E1. apply split_at_byte_spec in E2.
  destruct E1 as [H1 H2], E2 as [H3 H4]. exists p, q.
  split; [rewrite H1, H3; reflexivity|]. split; [exact H2|]. split; [exact H4|lia].
Qed.

Lemma is_prefix_app : forall p r, is_prefix p (p ++ r) = true.
Proof.
  induction p as [|x p IH]; intro r; cbn [is_prefix app]; [reflexivity|].
  rewrite N.eqb_refl, IH. reflexivity.
Qed.
Lemma is_prefix_spec : forall p s, is_prefix p s = true <-> exists r, s = p ++ r.
Proof.
  induction p as [|x p IH]; intro s.
  - cbn [is_prefix]. split; [intros _; exists s; reflexivity|reflexivity].
  - destruct s as [|y s]; cbn [is_prefix].
    + split; [discriminate|intros [r H]; discriminate].
    + rewrite andb_true_iff, N.eqb_eq, IH. split.
      * intros [E [r H]]. subst. exists r. reflexivity.
      * intros [r H]. inversion H; subst. split; [reflexivity|exists r; reflexivity].
Qed.
Lemma last_char_app1 : forall a c, last_char (a ++ [c]) = Some c.
Proof.
  induction a as [|x a IH]; intro c; [reflexivity|].
  cbn [app]. destruct (a ++ [c]) as [|y t] eqn:E.
  - destruct a; discriminate.
  - change (last_char (y :: t) = Some c). rewrite <- E. apply IH.
Qed.

(** ** Decoding of a square from its two characters *)

Lemma lt8_cases : forall x, x < 8 -> x=0 \/ x=1 \/ x=2 \/ x=3 \/ x=4 \/ x=5 \/ x=6 \/ x=7.
Proof. intros x H. lia. Qed.

(** all 64 (rank, file) pairs *)
Lemma mk_sq_rf : forall r f, r < 8 -> f < 8 ->
  mk_sq r f = f + 8 * r /\ square_display (mk_sq r f) = [97 + f; 49 + r].
Proof.
  intros r f Hr Hf.
  apply lt8_cases in Hr. apply lt8_cases in Hf.
  repeat (destruct Hr as [Hr|Hr]); repeat (destruct Hf as [Hf|Hf]); subst r f;
    (split; vm_compute; reflexivity).
Qed.
Lemma mk_sq_decode : forall c0 c1, 97 <= c0 <= 104 -> 49 <= c1 <= 56 ->
  mk_sq (c1 - 49) (c0 - 97) = (c0 - 97) + 8 * (c1 - 49)
  /\ square_display (mk_sq (c1 - 49) (c0 - 97)) = [c0; c1].
Proof.
  intros c0 c1 H0 H1.
  destruct (mk_sq_rf (c1 - 49) (c0 - 97)) as [D1 D2]; [lia|lia|].
  split; [exact D1|]. rewrite D2. f_equal; [lia|]. f_equal. lia.
Qed.

(** a successful square parse: the shape of the input and the decoded value *)
Lemma square_from_str_ok : forall s q, square_from_str s = Ok q ->
  exists c0 c1 t, s = c0 :: c1 :: t /\ 97 <= c0 <= 104 /\ 49 <= c1 <= 56
                  /\ q = (c0 - 97) + 8 * (c1 - 49) /\ square_display q = [c0; c1].
Proof.
  intros s q H. unfold square_from_str in H.
  destruct (byte_len s <? 2); [discriminate|].
  destruct s as [|c0 r]; [discriminate|].
  destruct (in_range c0 97 104) eqn:E0; cbn [negb] in H; [|discriminate].
  destruct r as [|c1 t]; [discriminate|].
  destruct (in_range c1 49 56) eqn:E1; cbn [negb] in H; [|discriminate].
  unfold in_range in E0, E1. apply andb_true_iff in E0, E1.
  assert (H0 : 97 <= c0 <= 104) by lia. assert (H1 : 49 <= c1 <= 56) by lia.
  destruct (mk_sq_decode c0 c1 H0 H1) as [D1 D2].
  inversion H; subst q. exists c0, c1, t. rewrite <- D1. repeat split; try lia; assumption.
Qed.

(** ** 2. Totality: parsing ANY string never panics *)

Theorem square_from_str_total : forall s, square_from_str s <> Panic.
Proof.
  intro s. unfold square_from_str.
  destruct (byte_len s <? 2) eqn:E; [discriminate|].
  destruct s as [|c0 r]; [cbn [byte_len] in E; lia|].
  destruct (in_range c0 97 104) eqn:E0; cbn [negb]; [|discriminate].
  destruct r as [|c1 t].
  - exfalso. unfold in_range in E0. apply andb_true_iff in E0.
    cbn [byte_len] in E. rewrite utf8_len_ascii in E by lia. lia.
  - destruct (negb (in_range c1 49 56)); discriminate.
Qed.

Theorem move_from_str_total : forall s, move_from_str s <> Panic.
Proof.
  intro s. unfold move_from_str.
  destruct (get_range s 0 2) as [a|]; [|discriminate].
  pose proof (square_from_str_total a) as Ha.
  destruct (square_from_str a) as [src| |]; [|discriminate|congruence].
  destruct (get_range s 2 4) as [b|]; [|discriminate].
  pose proof (square_from_str_total b) as Hb.
  destruct (square_from_str b) as [dst| |]; [|discriminate|congruence].
  destruct (byte_len s =? 5); [|discriminate].
  destruct (last_char s) as [c|]; [|discriminate].
  repeat (destruct (c =? _); [discriminate|]). discriminate.
Qed.

(** ** 3. Prefix law for ANY string *)

Theorem square_prefix : forall s q, square_from_str s = Ok q ->
  q < 64 /\ is_prefix (square_display q) s = true.
Proof.
  intros s q H. apply square_from_str_ok in H.
  destruct H as [c0 [c1 [t [Hs [H0 [H1 [Hq Hd]]]]]]]. split; [lia|].
  rewrite Hd, Hs. apply (is_prefix_app [c0;c1] t).
Qed.

(** a successful move parse: the complete shape of the input and the decoded value *)
Lemma move_from_str_ok : forall s m, move_from_str s = Ok m ->
  exists c0 c1 d0 d1 rest,
    s = c0 :: c1 :: d0 :: d1 :: rest
    /\ 97 <= c0 <= 104 /\ 49 <= c1 <= 56 /\ 97 <= d0 <= 104 /\ 49 <= d1 <= 56
    /\ msrc m = (c0 - 97) + 8 * (c1 - 49) /\ mdst m = (d0 - 97) + 8 * (d1 - 49)
    /\ square_display (msrc m) = [c0; c1] /\ square_display (mdst m) = [d0; d1]
    /\ ((byte_len rest <> 1 /\ mpromo m = None)
        \/ (exists p, rest = [piece_letter p] /\ mpromo m = Some p
                      /\ In (Some p) promo_domain)).
Proof.
  intros s m H. unfold move_from_str in H.
  destruct (get_range s 0 2) as [a|] eqn:Ga; [|discriminate].
  destruct (square_from_str a) as [src| |] eqn:Sa; try discriminate.
  destruct (get_range s 2 4) as [b|] eqn:Gb; [|discriminate].
  destruct (square_from_str b) as [dst| |] eqn:Sb; try discriminate.
  (* the two slices *)
  apply get_range_0 in Ga. destruct Ga as [r1 [Sp1 [Es La]]].
  unfold get_range in Gb. cbn [N.leb] in Gb.
  change (2 <=? 4) with true in Gb. cbv iota in Gb. rewrite Sp1 in Gb.
  change (4 - 2) with 2 in Gb.
  destruct (split_at_byte r1 2) as [[b' r2]|] eqn:Sp2; [|discriminate].
  inversion Gb; subst b'. clear Gb.
  apply split_at_byte_spec in Sp2. destruct Sp2 as [Er1 Lb].
  apply square_from_str_ok in Sa. destruct Sa as [c0 [c1 [ta [Ea [H0 [H1 [Qa Da]]]]]]].
  apply square_from_str_ok in Sb. destruct Sb as [d0 [d1 [tb [Eb [H2 [H3 [Qb Db]]]]]]].
  assert (ta = []).
  { apply byte_len_0. subst a. cbn [byte_len] in La.
    rewrite (utf8_len_ascii c0), (utf8_len_ascii c1) in La by lia. lia. }
  assert (tb = []).
  { apply byte_len_0. subst b. cbn [byte_len] in Lb.
    rewrite (utf8_len_ascii d0), (utf8_len_ascii d1) in Lb by lia. lia. }
  subst ta tb a b r1 s. cbn [app] in *.
  exists c0, c1, d0, d1, r2.
  assert (BL : byte_len (c0 :: c1 :: d0 :: d1 :: r2) = 4 + byte_len r2).
  { cbn [byte_len]. rewrite (utf8_len_ascii c0), (utf8_len_ascii c1),
      (utf8_len_ascii d0), (utf8_len_ascii d1) by lia. lia. }
  rewrite BL in H.
  destruct (4 + byte_len r2 =? 5) eqn:E5.
  - assert (L1 : byte_len r2 = 1) by lia.
    apply byte_len_1 in L1. destruct L1 as [c [Er2 Hc]]. subst r2.
    change (c0 :: c1 :: d0 :: d1 :: [c]) with ([c0;c1;d0;d1] ++ [c]) in H.
    rewrite last_char_app1 in H.
    destruct (c =? 113) eqn:Eq; [|destruct (c =? 114) eqn:Er; [|destruct (c =? 110) eqn:En;
      [|destruct (c =? 98) eqn:Eb; [|discriminate]]]];
    inversion H; subst m; cbn [msrc mdst mpromo];
    (split; [reflexivity|]); repeat (split; [assumption || lia|]); right.
    + exists Queen. apply N.eqb_eq in Eq. subst c. cbn. auto 10.
    + exists Rook. apply N.eqb_eq in Er. subst c. cbn. auto 10.
    + exists Knight. apply N.eqb_eq in En. subst c. cbn. auto 10.
    + exists Bishop. apply N.eqb_eq in Eb. subst c. cbn. auto 10.
  - inversion H; subst m; cbn [msrc mdst mpromo].
    (split; [reflexivity|]); repeat (split; [assumption || lia|]). left. split; [lia|reflexivity].
Qed.

Theorem move_prefix : forall s m, move_from_str s = Ok m ->
  is_prefix (move_display m) s = true.
Proof.
  intros s m H. apply move_from_str_ok in H.
  destruct H as [c0 [c1 [d0 [d1 [rest [Es [_ [_ [_ [_ [_ [_ [Da [Db Hp]]]]]]]]]]]]]].
  unfold move_display. rewrite Da, Db. subst s.
  destruct Hp as [[_ Hn]|[p [Er [Hs _]]]].
  - rewrite Hn. apply (is_prefix_app [c0;c1;d0;d1] rest).
  - rewrite Hs, Er. apply (is_prefix_app [c0;c1;d0;d1;piece_letter p] []).
Qed.

(** the result of a successful move parse is always inside the swept domain *)
Theorem move_from_str_range : forall s m, move_from_str s = Ok m ->
  msrc m < 64 /\ mdst m < 64 /\ In (mpromo m) promo_domain.
Proof.
  intros s m H. apply move_from_str_ok in H.
  destruct H as [c0 [c1 [d0 [d1 [rest [_ [H0 [H1 [H2 [H3 [Qa [Qb [_ [_ Hp]]]]]]]]]]]]]].
  split; [lia|]. split; [lia|].
  destruct Hp as [[_ Hn]|[p [_ [Hs Hi]]]]; [rewrite Hn; left; reflexivity|rewrite Hs; exact Hi].
Qed.

(** hence parsing then rendering then parsing again is stable *)
Corollary move_reparse : forall s m, move_from_str s = Ok m ->
  move_from_str (move_display m) = Ok m.
Proof.
  intros s m H. destruct (move_from_str_range s m H) as [Hs [Hd Hp]].
  destruct m as [ms md mp]. apply move_roundtrip; assumption.
Qed.

(** ** 4. Examples *)
(* "e2" *)
Example ex_sq_e2 : square_from_str [101;50] = Ok 12. Proof. vm_compute. reflexivity. Qed.
Example ex_sq_disp : square_display 12 = [101;50]. Proof. vm_compute. reflexivity. Qed.
(* "e2e4": a longer text still parses as the square e2, with "e2" a prefix *)
Example ex_sq_long : square_from_str [101;50;101;52] = Ok 12
  /\ is_prefix (square_display 12) [101;50;101;52] = true.
Proof. vm_compute. split; reflexivity. Qed.
(* non-ASCII: "é" (2 bytes, 1 char) and "e€" are errors, not panics *)
Example ex_sq_nonascii : square_from_str [233] = Err /\ square_from_str [101;8364] = Err.
Proof. vm_compute. split; reflexivity. Qed.
(* the empty string and a single letter are errors *)
Example ex_sq_short : square_from_str [] = Err /\ square_from_str [101] = Err.
Proof. vm_compute. split; reflexivity. Qed.
(* "e2e4" *)
Example ex_mv_e2e4 : move_from_str [101;50;101;52] = Ok {| msrc:=12; mdst:=28; mpromo:=None |}.
Proof. vm_compute. reflexivity. Qed.
(* "e7e8q" *)
Example ex_mv_promo : move_from_str [101;55;101;56;113] = Ok {| msrc:=52; mdst:=60; mpromo:=Some Queen |}
  /\ move_display {| msrc:=52; mdst:=60; mpromo:=Some Queen |} = [101;55;101;56;113].
Proof. vm_compute. split; reflexivity. Qed.
(* "e2e4xyz": over-long text parses as e2e4 (no promotion) and "e2e4" is a prefix of it *)
Example ex_mv_overlong :
  move_from_str [101;50;101;52;120;121;122] = Ok {| msrc:=12; mdst:=28; mpromo:=None |}
  /\ is_prefix (move_display {| msrc:=12; mdst:=28; mpromo:=None |}) [101;50;101;52;120;121;122] = true.
Proof. vm_compute. split; reflexivity. Qed.
(* "e7e8x": byte length 5 with a bad promotion letter is an error *)
Example ex_mv_badpromo : move_from_str [101;55;101;56;120] = Err.
Proof. vm_compute. reflexivity. Qed.
(* non-ASCII: "é", "e€e4" (byte offset 2 is not a char boundary), "e2e4é" (7 bytes: e2e4) *)
Example ex_mv_nonascii :
  move_from_str [233] = Err /\ move_from_str [101;8364;101;52] = Err
  /\ move_from_str [101;50;101;52;233] = Ok {| msrc:=12; mdst:=28; mpromo:=None |}.
Proof. vm_compute. repeat split; reflexivity. Qed.
(* "e2e" : too short *)
Example ex_mv_short : move_from_str [101;50;101] = Err /\ move_from_str [] = Err.
Proof. vm_compute. split; reflexivity. Qed.
(* the hypotheses of the round trip are satisfiable *)
Example ex_roundtrip_hyp : 52 < 64 /\ 60 < 64 /\ In (Some Knight) promo_domain.
Proof. cbn. repeat split; try lia. auto. Qed.
(* the domain restrictions of the round trip are tight: a king/pawn "promotion" renders as
   'k'/'p', which the parser rejects; square index 64 renders as "a9", rejected *)
Example ex_domain_tight :
  move_from_str (move_display {| msrc:=52; mdst:=60; mpromo:=Some King |}) = Err
  /\ move_from_str (move_display {| msrc:=52; mdst:=60; mpromo:=Some Pawn |}) = Err
  /\ square_display 64 = [97;57] /\ square_from_str (square_display 64) = Err.
Proof. vm_compute. repeat split; reflexivity. Qed.
