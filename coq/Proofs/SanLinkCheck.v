(** * Proofs.SanLinkCheck — a boolean checker for [san_link] (so the hypotheses of the linked
    round trip are satisfiable, and can be discharged by computation on any concrete board),
    and instances. *)
From Coq Require Import Lia ZifyBool ZifyN ZifyNat Permutation String.
From Chess Require Import Model.San Spec.Text Proofs.SanFilter Proofs.SanScan Proofs.SanShape
  Proofs.SanSpecShape Proofs.SanRoundtrip Proofs.SanLink.
Open Scope N_scope.
Open Scope list_scope.

Fixpoint nodupb (l:list cmove) : bool :=
  match l with [] => true | x :: r => negb (existsb (cmove_eqb x) r) && nodupb r end.
Lemma nodupb_NoDup l : nodupb l = true -> NoDup l.
Proof.
  induction l as [|x r IH]; [constructor|]. cbn [nodupb]. intro H. apply andb_prop in H as [H1 H2].
  constructor; [|apply IH, H2]. intro Hin. apply existsb_cmove_In in Hin. rewrite Hin in H1. discriminate.
Qed.
Definition inclb (l l':list cmove) : bool := forallb (fun x => existsb (cmove_eqb x) l') l.
Lemma inclb_incl l l' : inclb l l' = true -> incl l l'.
Proof. unfold inclb. rewrite forallb_forall. intros H x Hx. apply existsb_cmove_In, H, Hx. Qed.

Definition optp_eqb (a c:option ptype) : bool := promo_eqb a c.
Definition promo_okb (pr:option ptype) : bool :=
  match pr with Some Pawn | Some King => false | _ => true end.

Definition san_link_b (b:board) : bool :=
  let p := abs_board b in
  let ms := moves_of b in
  let ls := map of_spec_move (legal_moves p) in
  nodupb ms && nodupb ls && inclb ms ls && inclb ls ms
  && forallb (fun s => optp_eqb (piece_on b s) (piece_at p s)) all_sq
  && forallb (fun m => (src m <? 64) && (dst m <? 64) && promo_okb (promo m)) (legal_moves p)
  && forallb (fun m => if is_castle p m then cmove_eqb (of_spec_move m) (castle_km b (file_of (dst m) =? 6)) else true)
             (legal_moves p).

Theorem san_link_check b : san_link_b b = true -> san_link b.
Proof.
  unfold san_link_b, san_link. intro H.
  apply andb_prop in H as [H Hcas]. apply andb_prop in H as [H Hdom]. apply andb_prop in H as [H Hpc].
  apply andb_prop in H as [H Hi2]. apply andb_prop in H as [H Hi1]. apply andb_prop in H as [Hn1 Hn2].
  rewrite forallb_forall in Hcas, Hdom, Hpc.
  split; [|split; [|split]].
  - apply NoDup_Permutation; [apply nodupb_NoDup, Hn1|apply nodupb_NoDup, Hn2|].
    intro x. split; apply inclb_incl; assumption.
  - intros s Hs. apply promo_eqb_eq. apply Hpc, in_all_sq64, Hs.
  - intros m Hm. specialize (Hdom m Hm).
    apply andb_prop in Hdom as [Hd P3]. apply andb_prop in Hd as [P1 P2].
    apply N.ltb_lt in P1, P2. split; [exact P1|]. split; [exact P2|].
    unfold promo_ok. destruct (promo m) as [[]|]; cbn in P3; split; congruence.
  - intros m Hm Hc. specialize (Hcas m Hm). rewrite Hc in Hcas. apply cmove_eqb_eq, Hcas.
Qed.

(** instances: the start position, an en-passant position, castling for both colours, two knights *)
Example san_link_start : san_link b_start.
Proof. apply san_link_check. vm_compute. reflexivity. Qed.
Example san_link_ep : san_link b_ep.
Proof. apply san_link_check. vm_compute. reflexivity. Qed.
Example san_link_castle : san_link b_castle.
Proof. apply san_link_check. vm_compute. reflexivity. Qed.
Example san_link_castle_black : san_link b_castle_black.
Proof. apply san_link_check. vm_compute. reflexivity. Qed.
Example san_link_knights : san_link b_knights.
Proof. apply san_link_check. vm_compute. reflexivity. Qed.

Example san_link_rook_e1 : san_link b_rook_e1.
Proof. apply san_link_check. vm_compute. reflexivity. Qed.

(** hence, on these boards, every specification spelling of every legal move round-trips *)
Example roundtrip_all_spellings_ep : forall m s,
  In m (legal_moves (abs_board b_ep)) -> In s (san_spellings (abs_board b_ep) m) ->
  from_san b_ep s = Ok (of_spec_move m).
Proof. exact (san_roundtrip_from_link b_ep san_link_ep). Qed.
(** the spellings of the en-passant capture in that position *)
Example spellings_ep_capture :
  san_spellings (abs_board b_ep) {| src := 36; dst := 43; promo := None |}
  = [txt "exd6"; txt "exd6 e.p."; txt "e5xd6"; txt "e5xd6 e.p."].
Proof. vm_compute. reflexivity. Qed.
Example spellings_castle :
  san_spellings (abs_board b_castle) {| src := 4; dst := 6; promo := None |} = [txt "O-O"].
Proof. vm_compute. reflexivity. Qed.
(** the marker theorems' hypotheses on the en-passant board: "ed6" names exactly e5xd6, which the
    specification counts as a capture, so the text without 'x' is refused and "exd6" accepted *)
Example marker_hyp_ed6 :
  san_matches (abs_board b_ep) Pawn (Some 4) None {| src := 0; dst := mk_sq 5 3; promo := None |}
  = [{| src := 36; dst := 43; promo := None |}]
  /\ is_capture_move (abs_board b_ep) {| src := 36; dst := 43; promo := None |} = true.
Proof. split; vm_compute; reflexivity. Qed.
Example ed6_rejected_via_spec : from_san b_ep (san_text Pawn (Some 4) None false 3 5 None [] false) = Err.
Proof.
  refine (san_reject_marker_from_link b_ep san_link_ep Pawn (Some 4) None false 3 5 None [] _ _ _ _ _ _
            {| src := 36; dst := 43; promo := None |} (proj1 marker_hyp_ed6) _).
  - reflexivity.
  - exact I.
  - reflexivity.
  - reflexivity.
  - split; discriminate.
  - left; reflexivity.
  - rewrite (proj2 marker_hyp_ed6). discriminate.
Qed.
