(** * Proofs.MirrorGeneric — the mirror-image argument (C17), once for both mirrors.
    A [sym] packages a square map [phi] (an involution of the board), a colour map
    [kap sw] (swap or keep) and a direction map [del] with the handful of geometric facts
    the rules depend on.  [Rel S p q] says that [q] is the [S]-image of [p].  Everything the
    specification computes from [p] is then carried to [q]. *)
From Coq Require Import Lia ZifyBool ZifyN ZifyNat Permutation.
From Chess Require Import Base.Bits Spec.Geometry Spec.Rules.
From Chess Require Import Proofs.TablesLib Proofs.TablesMeaning Proofs.MirrorLib.
Open Scope N_scope.

Definition kap (sw:bool) (c:color) : color := if sw then opp c else c.
Definition pcmap (sw:bool) (x:option (ptype*color)) :=
  match x with Some (t,c) => Some (t, kap sw c) | None => None end.
Definition mmove (f:N->N) (m:move) : move :=
  {| src := f (src m); dst := f (dst m); promo := promo m |}.
Definition side_dirs : list (Z*Z) := [(1,0);(-1,0)]%Z.

Record sym := {
  phi : N -> N; sw : bool; del : Z*Z -> Z*Z;
  phi_inv : forall s, phi (phi s) = s;
  phi_lt : forall s, s < 64 -> phi s < 64;
  phi_step : forall s d, s < 64 -> step (phi s) (del d) = option_map phi (step s d);
  del_rook : Permutation (map del rook_dirs) rook_dirs;
  del_bishop : Permutation (map del bishop_dirs) bishop_dirs;
  del_king : Permutation (map del king_dirs) king_dirs;
  del_knight : Permutation (map del knight_dirs) knight_dirs;
  del_caps : forall c, Permutation (map del (pawn_caps c)) (pawn_caps (kap sw c));
  del_fwd : forall c, del (0, fwdc c)%Z = (0, fwdc (kap sw c))%Z;
  del_side : Permutation (map del side_dirs) side_dirs;
  phi_start : forall c s, s < 64 ->
    (rank_of (phi s) =? start_rank (kap sw c)) = (rank_of s =? start_rank c);
  phi_last : forall c s, s < 64 ->
    (rank_of (phi s) =? last_rank (kap sw c)) = (rank_of s =? last_rank c);
  phi_file_eq : forall s d, s < 64 -> d < 64 ->
    (file_of (phi s) =? file_of (phi d)) = (file_of s =? file_of d);
  phi_fabs : forall s d, s < 64 -> d < 64 ->
    absdiff (file_of (phi s)) (file_of (phi d)) = absdiff (file_of s) (file_of d);
  phi_rabs : forall s d, s < 64 -> d < 64 ->
    absdiff (rank_of (phi s)) (rank_of (phi d)) = absdiff (rank_of s) (rank_of d);
  phi_epsq : forall s d, s < 64 -> d < 64 ->
    phi (rank_of s * 8 + file_of d) = rank_of (phi s) * 8 + file_of (phi d);
  phi_tgt : forall s d, s < 64 -> d < 64 -> absdiff (rank_of s) (rank_of d) = 2 ->
    phi (((rank_of s + rank_of d) / 2) * 8 + file_of s)
    = ((rank_of (phi s) + rank_of (phi d)) / 2) * 8 + file_of (phi s)
}.

(** castling geometry is respected (true for the top-bottom mirror only) *)
Definition castle_geom (S:sym) : Prop :=
  forall s k, s < 64 -> k < 8 ->
    phi S (rank_of s * 8 + k) = rank_of (phi S s) * 8 + k /\ file_of (phi S s) = file_of s.

Lemma rank_file_lt (s:N) : s < 64 -> rank_of s < 8 /\ file_of s < 8.
Proof.
  intro Hs. unfold rank_of, file_of. split.
  - rewrite N.shiftr_div_pow2. change (2^3) with 8. apply N.div_lt_upper_bound; lia.
  - change 7 with (N.ones 3). rewrite N.land_ones. change (2^3) with 8. apply N.mod_lt. lia.
Qed.

Section Generic.
Variable S : sym.
Notation φ := (phi S).
Notation κ := (kap (sw S)).
Notation δ := (del S).
Notation φm := (mmove (phi S)).
Notation pcm := (pcmap (sw S)).

Lemma phi_inj (a b:N) : φ a = φ b -> a = b.
Proof. intro H. rewrite <- (phi_inv S a), <- (phi_inv S b), H. reflexivity. Qed.

Lemma phi_eqb (a b:N) : (φ a =? φ b) = (a =? b).
Proof.
  destruct (N.eqb_spec a b) as [->|Hne]; [apply N.eqb_refl|].
  apply N.eqb_neq. intro H. apply Hne, phi_inj, H.
Qed.

Lemma phi_eqb_l (a b:N) : (φ a =? b) = (a =? φ b).
Proof. rewrite <- (phi_inv S b) at 1. apply phi_eqb. Qed.

Lemma kap_inv (c:color) : κ (κ c) = c.
Proof. unfold kap. destruct (sw S), c; reflexivity. Qed.
Lemma kap_opp (c:color) : κ (opp c) = opp (κ c).
Proof. unfold kap. destruct (sw S), c; reflexivity. Qed.
Lemma kap_eqb (a b:color) : color_eqb (κ a) (κ b) = color_eqb a b.
Proof. unfold kap. destruct (sw S), a, b; reflexivity. Qed.

Lemma mmove_inv (m:move) : φm (φm m) = m.
Proof. destruct m as [s d pr]. unfold mmove. cbn [src dst promo]. rewrite !phi_inv. reflexivity. Qed.

Lemma perm_phi_all_sq : Permutation (map φ all_sq) all_sq.
Proof.
  apply NoDup_Permutation.
  - apply FinFun.Injective_map_NoDup; [|apply NoDup_all_sq]. intros a b. apply phi_inj.
  - apply NoDup_all_sq.
  - intro x. rewrite in_map_iff. split.
    + intros [a [<- Ha]]. apply in_all_sq, phi_lt, in_all_sq, Ha.
    + intro Hx. exists (φ x). split; [apply phi_inv|]. apply in_all_sq, phi_lt, in_all_sq, Hx.
Qed.

Lemma filter_phi_gen (f g:N->bool) (l:list N) :
  Permutation (map φ l) l -> (forall s, In s l -> g (φ s) = f s) ->
  Permutation (filter g l) (map φ (filter f l)).
Proof.
  intros Hp Hfg. rewrite (filter_ext_in f (fun s => g (φ s))) by (intros a Ha; symmetry; apply Hfg, Ha).
  rewrite <- filter_map_comm. apply Permutation_filter. apply Permutation_sym, Hp.
Qed.

Lemma filter_phi_all_sq (f g:N->bool) :
  (forall s, s < 64 -> g (φ s) = f s) ->
  Permutation (filter g all_sq) (map φ (filter f all_sq)).
Proof.
  intro H. apply filter_phi_gen; [apply perm_phi_all_sq|].
  intros s Hs. apply H, in_all_sq, Hs.
Qed.

Lemma flat_map_phi_all_sq {B} (f:N->list B) :
  Permutation (flat_map f all_sq) (flat_map (fun s => f (φ s)) all_sq).
Proof.
  rewrite <- (flat_map_map f φ all_sq). apply Permutation_flat_map_l. apply Permutation_sym, perm_phi_all_sq.
Qed.

(** ** The relation "q is the image of p" *)
Record Rel (p q:pos) : Prop := {
  r_lp : length (placement p) = 64%nat;
  r_lq : length (placement q) = 64%nat;
  r_at : forall s, at_ q (φ s) = pcm (at_ p s);
  r_turn : turn q = κ (turn p);
  r_ep : ep q = option_map φ (ep p) }.

Section WithRel.
Variables p q : pos.
Hypothesis R : Rel p q.

Lemma occ_m (s:N) : occ q (φ s) = occ p s.
Proof. unfold occ. rewrite (r_at _ _ R). destruct (at_ p s) as [[t c]|]; reflexivity. Qed.

Lemma has_m (s:N) (t:ptype) (c:color) : has q (φ s) t (κ c) = has p s t c.
Proof.
  unfold has. rewrite (r_at _ _ R). destruct (at_ p s) as [[t' c']|]; cbn [pcmap]; [|reflexivity].
  rewrite kap_eqb. reflexivity.
Qed.

Lemma own_m (c:color) (s:N) : own q (κ c) (φ s) = own p c s.
Proof.
  unfold own, colour_at. rewrite (r_at _ _ R). destruct (at_ p s) as [[t' c']|]; cbn [pcmap]; [|reflexivity].
  apply kap_eqb.
Qed.

Lemma enemy_m (c:color) (s:N) : enemy q (κ c) (φ s) = enemy p c s.
Proof.
  unfold enemy, colour_at. rewrite (r_at _ _ R). destruct (at_ p s) as [[t' c']|]; cbn [pcmap]; [|reflexivity].
  rewrite kap_eqb. reflexivity.
Qed.

Lemma ray_m (s:N) (d:Z*Z) (n:nat) : s < 64 -> ray q (φ s) (δ d) n = map φ (ray p s d n).
Proof.
  revert s. induction n as [|n IH]; intros s Hs; cbn [ray map]; [reflexivity|].
  rewrite phi_step by exact Hs. destruct (step s d) as [s'|] eqn:Hst; cbn [option_map map]; [|reflexivity].
  rewrite occ_m. destruct (occ p s'); cbn [map]; [reflexivity|].
  rewrite IH by (eapply step_lt, Hst). reflexivity.
Qed.

Lemma steps_m (s:N) (ds:list (Z*Z)) : s < 64 -> steps (φ s) (map δ ds) = map φ (steps s ds).
Proof.
  intro Hs. unfold steps. rewrite flat_map_map, map_flat_map. apply flat_map_ext. intro d.
  rewrite phi_step by exact Hs. destruct (step s d); reflexivity.
Qed.

Lemma slides_m (s:N) (ds:list (Z*Z)) : s < 64 -> slides q (φ s) (map δ ds) = map φ (slides p s ds).
Proof.
  intro Hs. unfold slides. rewrite flat_map_map, map_flat_map. apply flat_map_ext. intro d.
  apply ray_m, Hs.
Qed.

Lemma steps_perm (s:N) (ds ds':list (Z*Z)) : s < 64 -> Permutation (map δ ds) ds' ->
  Permutation (steps (φ s) ds') (map φ (steps s ds)).
Proof.
  intros Hs Hp. rewrite <- steps_m by exact Hs. unfold steps.
  apply Permutation_flat_map_l, Permutation_sym, Hp.
Qed.

Lemma slides_perm (s:N) (ds ds':list (Z*Z)) : s < 64 -> Permutation (map δ ds) ds' ->
  Permutation (slides q (φ s) ds') (map φ (slides p s ds)).
Proof.
  intros Hs Hp. rewrite <- slides_m by exact Hs. unfold slides.
  apply Permutation_flat_map_l, Permutation_sym, Hp.
Qed.

Lemma attack_set_m (s:N) : s < 64 ->
  Permutation (attack_set q (φ s)) (map φ (attack_set p s)).
Proof.
  intro Hs. unfold attack_set. rewrite (r_at _ _ R).
  destruct (at_ p s) as [[[] c]|]; cbn [pcmap map].
  - apply steps_perm; [exact Hs|apply del_caps].
  - apply steps_perm; [exact Hs|apply del_knight].
  - apply slides_perm; [exact Hs|apply del_bishop].
  - apply slides_perm; [exact Hs|apply del_rook].
  - apply slides_perm; [exact Hs|apply del_king].
  - apply steps_perm; [exact Hs|apply del_king].
  - constructor.
Qed.

Lemma attacks_m (s t:N) : s < 64 -> attacks q (φ s) (φ t) = attacks p s t.
Proof.
  intro Hs. unfold attacks. rewrite (mem_perm _ _ _ (attack_set_m s Hs)).
  apply mem_map_inj. apply phi_inj.
Qed.

Lemma attackers_m (c:color) (t:N) :
  Permutation (attackers q (κ c) (φ t)) (map φ (attackers p c t)).
Proof.
  unfold attackers. apply filter_phi_all_sq. intros s Hs.
  rewrite own_m, attacks_m by exact Hs. reflexivity.
Qed.

Lemma attacked_by_nonempty (r:pos) (c:color) (t:N) : attacked_by r c t = nonempty (attackers r c t).
Proof. unfold attacked_by, nonempty. reflexivity. Qed.

Lemma attacked_by_m (c:color) (t:N) : attacked_by q (κ c) (φ t) = attacked_by p c t.
Proof. rewrite !attacked_by_nonempty. eapply nonempty_perm_map, attackers_m. Qed.

Lemma king_sq_m (c:color) : uniq_king p -> king_sq q (κ c) = option_map φ (king_sq p c).
Proof.
  intro U.
  destruct (king_sq p c) as [k|] eqn:Ek; cbn [option_map].
  - destruct (king_sq_some _ _ _ Ek) as [Hk Hhk].
    destruct (king_sq q (κ c)) as [k'|] eqn:Ek'.
    + destruct (king_sq_some _ _ _ Ek') as [Hk' Hhk'].
      rewrite <- (phi_inv S k') in Hhk'. rewrite has_m in Hhk'.
      rewrite (U c _ _ Hhk Hhk'), phi_inv. reflexivity.
    + exfalso. unfold king_sq in Ek'.
      pose proof (find_none _ _ Ek' (φ k)) as Hn. cbv beta in Hn.
      rewrite has_m, Hhk in Hn. discriminate Hn. apply in_all_sq, phi_lt, Hk.
  - destruct (king_sq q (κ c)) as [k'|] eqn:Ek'; [exfalso|reflexivity].
    destruct (king_sq_some _ _ _ Ek') as [Hk' Hhk'].
    rewrite <- (phi_inv S k') in Hhk'. rewrite has_m in Hhk'.
    unfold king_sq in Ek. pose proof (find_none _ _ Ek (φ k')) as Hn. cbv beta in Hn.
    rewrite Hhk' in Hn. discriminate Hn. apply in_all_sq, phi_lt, Hk'.
Qed.

Lemma in_check_m (c:color) : uniq_king p -> in_check q (κ c) = in_check p c.
Proof.
  intro U. unfold in_check. rewrite king_sq_m by exact U.
  destruct (king_sq p c) as [k|]; cbn [option_map]; [|reflexivity].
  rewrite <- kap_opp. apply attacked_by_m.
Qed.

Lemma checkers_m : uniq_king p -> Permutation (checkers_of q) (map φ (checkers_of p)).
Proof.
  intro U. unfold checkers_of. rewrite (r_turn _ _ R), king_sq_m by exact U.
  destruct (king_sq p (turn p)) as [k|]; cbn [option_map map]; [|constructor].
  rewrite <- kap_opp. apply attackers_m.
Qed.

(** ** pins *)
Lemma first_occ_m (s:N) (d:Z*Z) (n:nat) : s < 64 ->
  first_occ q (φ s) (δ d) n = option_map φ (first_occ p s d n).
Proof.
  revert s. induction n as [|n IH]; intros s Hs; cbn [first_occ option_map]; [reflexivity|].
  rewrite phi_step by exact Hs. destruct (step s d) as [s'|] eqn:Hst; cbn [option_map]; [|reflexivity].
  rewrite occ_m. destruct (occ p s'); [reflexivity|].
  apply IH. eapply step_lt, Hst.
Qed.

Lemma slider_m (c:color) (o:bool) (s:N) : slider_along q (κ c) o (φ s) = slider_along p c o s.
Proof. unfold slider_along. rewrite !has_m. reflexivity. Qed.

Definition pin_dirs : list (bool*(Z*Z)) :=
  map (fun d => (true,d)) rook_dirs ++ map (fun d => (false,d)) bishop_dirs.
Definition pin_step (r:pos) (k:N) (od:bool*(Z*Z)) : list N :=
  let (o,d) := od in
  match first_occ r k d 7 with
  | Some a => if own r (turn r) a then
                match first_occ r a d 7 with
                | Some b => if slider_along r (opp (turn r)) o b then [a] else []
                | None => [] end
              else []
  | None => [] end.
Lemma pinned_of_unfold (r:pos) :
  pinned_of r = match king_sq r (turn r) with None => [] | Some k => flat_map (pin_step r k) pin_dirs end.
Proof. reflexivity. Qed.

Lemma pin_dirs_perm : Permutation (map (fun od : bool*(Z*Z) => (fst od, δ (snd od))) pin_dirs) pin_dirs.
Proof.
  unfold pin_dirs. rewrite map_app, !map_map. cbn [fst snd].
  apply Permutation_app.
  - rewrite <- (map_map δ (fun d => (true,d))). apply Permutation_map, del_rook.
  - rewrite <- (map_map δ (fun d => (false,d))). apply Permutation_map, del_bishop.
Qed.

Lemma pin_step_m (k:N) (o:bool) (d:Z*Z) : k < 64 ->
  pin_step q (φ k) (o, δ d) = map φ (pin_step p k (o,d)).
Proof.
  intro Hk. unfold pin_step. rewrite first_occ_m by exact Hk.
  destruct (first_occ p k d 7) as [a|] eqn:Ea; cbn [option_map map]; [|reflexivity].
  rewrite (r_turn _ _ R), own_m. destruct (own p (turn p) a); [|reflexivity].
  rewrite first_occ_m by (eapply first_occ_lt, Ea).
  destruct (first_occ p a d 7) as [b|]; cbn [option_map map]; [|reflexivity].
  rewrite <- kap_opp, slider_m. destruct (slider_along p (opp (turn p)) o b); reflexivity.
Qed.

Lemma pinned_m : uniq_king p -> Permutation (pinned_of q) (map φ (pinned_of p)).
Proof.
  intro U. rewrite !pinned_of_unfold. rewrite (r_turn _ _ R), king_sq_m by exact U.
  destruct (king_sq p (turn p)) as [k|] eqn:Ek; cbn [option_map map]; [|constructor].
  destruct (king_sq_some _ _ _ Ek) as [Hk _].
  eapply Permutation_trans.
  - apply Permutation_flat_map_l, Permutation_sym, pin_dirs_perm.
  - rewrite flat_map_map, map_flat_map.
    rewrite (flat_map_ext (fun x => pin_step q (φ k) (fst x, δ (snd x)))
                          (fun x => map φ (pin_step p k x))); [apply Permutation_refl|].
    intros [o d]. cbn [fst snd]. apply pin_step_m, Hk.
Qed.

(** ** pseudo-legal moves *)
Lemma promos_m (s d:N) : promos (φ s) (φ d) = map φm (promos s d).
Proof. reflexivity. Qed.

Lemma pawn_to_m (c:color) (s d:N) : d < 64 -> pawn_to (κ c) (φ s) (φ d) = map φm (pawn_to c s d).
Proof.
  intro Hd. unfold pawn_to. rewrite phi_last by exact Hd.
  destruct (rank_of d =? last_rank c); reflexivity.
Qed.

Definition pawn_push (r:pos) (c:color) (s:N) : list move :=
  match step s (0,fwdc c)%Z with
  | Some d1 => if occ r d1 then [] else
      pawn_to c s d1 ++
      (if rank_of s =? start_rank c then
         match step d1 (0,fwdc c)%Z with
         | Some d2 => if occ r d2 then [] else [mv s d2] | None => [] end else [])
  | None => [] end.
Definition pawn_cap1 (r:pos) (c:color) (s d:N) : list move :=
  if enemy r c d then pawn_to c s d
  else match ep r with Some e => if e =? d then [mv s d] else [] | None => [] end.
Lemma pawn_moves_unfold (r:pos) (c:color) (s:N) :
  pawn_moves r c s = pawn_push r c s ++ flat_map (pawn_cap1 r c s) (steps s (pawn_caps c)).
Proof. reflexivity. Qed.

Lemma pawn_push_m (c:color) (s:N) : s < 64 ->
  pawn_push q (κ c) (φ s) = map φm (pawn_push p c s).
Proof.
  intro Hs. unfold pawn_push. rewrite <- del_fwd, phi_step by exact Hs.
  destruct (step s (0,fwdc c)%Z) as [d1|] eqn:E1; cbn [option_map map]; [|reflexivity].
  assert (d1 < 64) as Hd1 by (eapply step_lt, E1).
  rewrite occ_m. destruct (occ p d1); [reflexivity|].
  rewrite map_app, pawn_to_m by exact Hd1. f_equal.
  rewrite phi_start by exact Hs. destruct (rank_of s =? start_rank c); [|reflexivity].
  rewrite phi_step by exact Hd1.
  destruct (step d1 (0,fwdc c)%Z) as [d2|]; cbn [option_map map]; [|reflexivity].
  rewrite occ_m. destruct (occ p d2); reflexivity.
Qed.

Lemma pawn_cap1_m (c:color) (s d:N) : d < 64 ->
  pawn_cap1 q (κ c) (φ s) (φ d) = map φm (pawn_cap1 p c s d).
Proof.
  intro Hd. unfold pawn_cap1. rewrite enemy_m. destruct (enemy p c d); [apply pawn_to_m, Hd|].
  rewrite (r_ep _ _ R). destruct (ep p) as [e|]; cbn [option_map]; [|reflexivity].
  rewrite phi_eqb. destruct (e =? d); reflexivity.
Qed.

Lemma pawn_moves_m (c:color) (s:N) : s < 64 ->
  Permutation (pawn_moves q (κ c) (φ s)) (map φm (pawn_moves p c s)).
Proof.
  intro Hs. rewrite !pawn_moves_unfold, map_app. apply Permutation_app.
  - rewrite pawn_push_m by exact Hs. apply Permutation_refl.
  - eapply Permutation_trans.
    + apply Permutation_flat_map_l. apply (steps_perm s (pawn_caps c)); [exact Hs|apply del_caps].
    + rewrite flat_map_map, map_flat_map.
      rewrite (flat_map_ext_in (fun x => pawn_cap1 q (κ c) (φ s) (φ x))
                               (fun x => map φm (pawn_cap1 p c s x))); [apply Permutation_refl|].
      intros d Hd. apply pawn_cap1_m. eapply steps_lt, Hd.
Qed.

Lemma quiet_m (c:color) (s:N) : s < 64 ->
  Permutation (map (mv (φ s)) (filter (fun d => negb (own q (κ c) d)) (attack_set q (φ s))))
              (map φm (map (mv s) (filter (fun d => negb (own p c d)) (attack_set p s)))).
Proof.
  intro Hs. rewrite map_map.
  change (fun x => φm (mv s x)) with (fun x => mv (φ s) (φ x)).
  rewrite <- (map_map φ (mv (φ s))). apply Permutation_map.
  rewrite (filter_ext (fun d => negb (own p c d)) (fun d => negb (own q (κ c) (φ d))))
    by (intro a; rewrite own_m; reflexivity).
  rewrite <- (filter_map_comm (fun d => negb (own q (κ c) d)) φ).
  apply Permutation_filter, attack_set_m, Hs.
Qed.

Definition castle_part (r:pos) (s:N) : list move :=
  if s =? home_rank (turn r) * 8 + 4 then castle_moves r (turn r) else [].
Definition CastleRel : Prop :=
  forall s, s < 64 -> Permutation (castle_part q (φ s)) (map φm (castle_part p s)).

Lemma pseudo_from_m (s:N) : s < 64 -> CastleRel ->
  Permutation (pseudo_from q (φ s)) (map φm (pseudo_from p s)).
Proof.
  intros Hs HC. unfold pseudo_from. rewrite (r_at _ _ R).
  destruct (at_ p s) as [[t c']|]; cbn [pcmap map]; [|constructor].
  rewrite (r_turn _ _ R), kap_eqb. destruct (color_eqb (turn p) c'); cbn [map]; [|constructor].
  destruct t; try (apply quiet_m, Hs).
  - apply pawn_moves_m, Hs.
  - rewrite map_app. apply Permutation_app; [apply quiet_m, Hs|].
    specialize (HC s Hs). unfold castle_part in HC. rewrite (r_turn _ _ R) in HC. exact HC.
Qed.

Lemma pseudo_m : CastleRel -> Permutation (pseudo q) (map φm (pseudo p)).
Proof.
  intro HC. unfold pseudo. eapply Permutation_trans; [apply flat_map_phi_all_sq|].
  rewrite map_flat_map. apply Permutation_flat_map_pw. intros s Hs.
  apply pseudo_from_m; [apply in_all_sq, Hs|exact HC].
Qed.

End WithRel.
End Generic.

(** ** The successor position, square by square *)
Definition apply_at (p:pos) (m:move) (s:N) : option (ptype*color) :=
  let c := turn p in
  let piece := match at_ p (src m) with Some (t,_) => t | None => Pawn end in
  let placed := match promo m with Some t => t | None => piece end in
  let b1 := if dst m =? s then Some (placed,c) else if src m =? s then None else at_ p s in
  let b2 := if is_ep p m && (rank_of (src m) * 8 + file_of (dst m) =? s) then None else b1 in
  if is_castle p m then
    let r := rank_of (src m) in
    if file_of (dst m) =? 6
    then (if r*8+5 =? s then Some (Rook,c) else if r*8+7 =? s then None else b2)
    else (if r*8+3 =? s then Some (Rook,c) else if r*8 =? s then None else b2)
  else b2.

Lemma apply_length (p:pos) (m:move) :
  length (placement (apply p m)) = length (placement p).
Proof.
  unfold apply. cbv zeta. cbn [placement].
  destruct (is_castle p m); [destruct (file_of (dst m) =? 6)|];
    (destruct (is_ep p m); rewrite ?updN_length; reflexivity).
Qed.

Lemma at_apply (p:pos) (m:move) (s:N) :
  length (placement p) = 64%nat -> src m < 64 -> dst m < 64 ->
  at_ (apply p m) s = apply_at p m s.
Proof.
  intros Hl Hs Hd. destruct (rank_file_lt _ Hs) as [Hr _]. destruct (rank_file_lt _ Hd) as [_ Hf].
  unfold at_, apply, apply_at. cbv zeta. cbn [placement].
  assert (forall k, k < 8 -> (N.to_nat (rank_of (src m) * 8 + k) < 64)%nat) as Hk by (intros; lia).
  assert (N.to_nat (src m) < 64)%nat as Hs' by lia.
  assert (N.to_nat (dst m) < 64)%nat as Hd' by lia.
  assert (N.to_nat (rank_of (src m) * 8) < 64)%nat as Hk0 by lia.
  destruct (is_castle p m); [destruct (file_of (dst m) =? 6)|];
    destruct (is_ep p m); cbn [andb];
    repeat (rewrite nth_updN by (rewrite ?updN_length, Hl; first [assumption | apply Hk; lia]));
    reflexivity.
Qed.

Lemma turn_apply (p:pos) (m:move) : turn (apply p m) = opp (turn p).
Proof. reflexivity. Qed.

Definition side_pawn (p:pos) (c:color) (t:N) (d:Z*Z) : bool :=
  match step t d with Some x => has p x Pawn c | None => false end.
Lemma ep_apply (p:pos) (m:move) :
  ep (apply p m) =
  if is_double p m then
    if existsb (side_pawn p (opp (turn p)) (dst m)) side_dirs
    then Some (((rank_of (src m) + rank_of (dst m)) / 2) * 8 + file_of (src m)) else None
  else None.
Proof. reflexivity. Qed.

Lemma apply_at_cases (p:pos) (m:move) (s:N) :
  apply_at p m s = None \/ apply_at p m s = Some (Rook, turn p) \/
  (dst m = s /\ apply_at p m s =
     Some (match promo m with Some t => t | None =>
             match at_ p (src m) with Some (t,_) => t | None => Pawn end end, turn p)) \/
  (dst m <> s /\ src m <> s /\ apply_at p m s = at_ p s).
Proof.
  unfold apply_at. cbv zeta.
  assert (forall (b:bool) (x:option (ptype*color)), (if b then None else x) = None \/ (if b then None else x) = x) as Hb
    by (intros [] x; auto).
  set (b1 := if dst m =? s then _ else _).
  assert (b1 = None \/ b1 = Some (Rook, turn p) \/
          (dst m = s /\ b1 = Some (match promo m with Some t => t | None =>
             match at_ p (src m) with Some (t,_) => t | None => Pawn end end, turn p)) \/
          (dst m <> s /\ src m <> s /\ b1 = at_ p s)) as H1.
  { subst b1. destruct (N.eqb_spec (dst m) s) as [Hd|Hd]; [right; right; left; split; [exact Hd|reflexivity]|].
    destruct (N.eqb_spec (src m) s) as [Hs|Hs]; [left; reflexivity|].
    right; right; right. repeat split; assumption. }
  set (b2 := if is_ep p m && _ then None else b1).
  assert (b2 = None \/ b2 = b1) as H2 by apply Hb.
  assert (b2 = None \/ b2 = Some (Rook, turn p) \/
          (dst m = s /\ b2 = Some (match promo m with Some t => t | None =>
             match at_ p (src m) with Some (t,_) => t | None => Pawn end end, turn p)) \/
          (dst m <> s /\ src m <> s /\ b2 = at_ p s)) as H3.
  { destruct H2 as [H2|H2]; [auto|]. rewrite H2. exact H1. }
  clearbody b2. clear H1 H2 b1.
  destruct (is_castle p m); [|exact H3].
  destruct (file_of (dst m) =? 6).
  - destruct (_ =? s); [auto|]. destruct (_ =? s); [auto|exact H3].
  - destruct (_ =? s); [auto|]. destruct (_ =? s); [auto|exact H3].
Qed.

(** a king of colour [c'] after the move: the moved king, or an unmoved one *)
Lemma king_after (p:pos) (m:move) (s:N) (c':color) :
  length (placement p) = 64%nat -> src m < 64 -> dst m < 64 ->
  own p (turn p) (src m) = true -> promo m <> Some King ->
  has (apply p m) s King c' = true ->
  (s = dst m /\ has p (src m) King c' = true) \/ (s <> src m /\ s <> dst m /\ has p s King c' = true).
Proof.
  intros Hl Hs Hd Hown Hpr. unfold has at 1. rewrite at_apply by assumption.
  destruct (apply_at_cases p m s) as [H|[H|[[Hds H]|[Hds [Hss H]]]]]; rewrite H.
  - discriminate.
  - cbn [ptype_eqb andb]. discriminate.
  - intro Hk. left. split; [symmetry; exact Hds|].
    unfold own, colour_at in Hown. unfold has.
    destruct (at_ p (src m)) as [[t c0]|]; [|discriminate].
    destruct (promo m) as [pr|].
    + destruct pr; try discriminate. exfalso. apply Hpr. reflexivity.
    + apply andb_prop in Hk. destruct Hk as [Hk1 Hk2]. rewrite Hk1. cbn [andb].
      destruct c', c0, (turn p); try reflexivity; discriminate.
  - intro Hk. right. repeat split; [congruence|congruence|]. unfold has. exact Hk.
Qed.

Lemma uniq_apply (p:pos) (m:move) :
  uniq_king p -> length (placement p) = 64%nat -> src m < 64 -> dst m < 64 ->
  own p (turn p) (src m) = true -> promo m <> Some King -> uniq_king (apply p m).
Proof.
  intros U Hl Hs Hd Hown Hpr c s t Hks Hkt.
  apply king_after in Hks; try assumption. apply king_after in Hkt; try assumption.
  destruct Hks as [[Es Hs1]|[Ns1 [Ns2 Hs1]]], Hkt as [[Et Ht1]|[Nt1 [Nt2 Ht1]]].
  - congruence.
  - exfalso. apply Nt1. apply (U c); assumption.
  - exfalso. apply Ns1. apply (U c); assumption.
  - apply (U c); assumption.
Qed.

(** ** facts about pseudo-legal moves *)
Lemma pawn_to_facts (c:color) (s d:N) (m:move) :
  In m (pawn_to c s d) -> src m = s /\ dst m = d /\ promo m <> Some King.
Proof.
  unfold pawn_to. destruct (rank_of d =? last_rank c); cbn [promos map In mv].
  - intros [<-|[<-|[<-|[<-|[]]]]]; cbn [src dst promo]; repeat split; discriminate.
  - intros [<-|[]]; cbn [src dst promo]; repeat split; discriminate.
Qed.

Lemma pawn_moves_facts (p:pos) (c:color) (s:N) (m:move) :
  In m (pawn_moves p c s) -> src m = s /\ dst m < 64 /\ promo m <> Some King.
Proof.
  rewrite pawn_moves_unfold. intro H. apply in_app_or in H. destruct H as [H|H].
  - unfold pawn_push in H. destruct (step s (0,fwdc c)%Z) as [d1|] eqn:E1; [|contradiction].
    destruct (occ p d1); [contradiction|]. apply in_app_or in H. destruct H as [H|H].
    + apply pawn_to_facts in H. destruct H as [H1 [H2 H3]]. rewrite H2.
      repeat split; [exact H1|eapply step_lt, E1|exact H3].
    + destruct (rank_of s =? start_rank c); [|contradiction].
      destruct (step d1 (0,fwdc c)%Z) as [d2|] eqn:E2; [|contradiction].
      destruct (occ p d2); [contradiction|]. destruct H as [<-|[]]. cbn [mv src dst promo].
      repeat split; [eapply step_lt, E2|discriminate].
  - apply in_flat_map in H. destruct H as [d [Hd H]]. apply steps_lt in Hd.
    unfold pawn_cap1 in H. destruct (enemy p c d).
    + apply pawn_to_facts in H. destruct H as [H1 [H2 H3]]. rewrite H2. auto.
    + destruct (ep p) as [e|]; [|contradiction]. destruct (e =? d); [|contradiction].
      destruct H as [<-|[]]. cbn [mv src dst promo]. repeat split; [exact Hd|discriminate].
Qed.

Lemma quiet_facts (p:pos) (c:color) (s:N) (m:move) :
  In m (map (mv s) (filter (fun d => negb (own p c d)) (attack_set p s))) ->
  src m = s /\ In (dst m) (attack_set p s) /\ promo m = None.
Proof.
  intro H. apply in_map_iff in H. destruct H as [d [<- Hd]]. apply filter_In in Hd.
  cbn [mv src dst promo]. repeat split. apply Hd.
Qed.

Lemma castle_moves_facts (p:pos) (c:color) (m:move) :
  In m (castle_moves p c) ->
  src m = home_rank c * 8 + 4 /\ dst m < 64 /\ promo m = None.
Proof.
  unfold castle_moves. cbv zeta.
  destruct (has p (home_rank c * 8 + 4) King c && _); [|contradiction].
  intro H. apply in_app_or in H.
  destruct H as [H|H]; match type of H with In _ (if ?b then _ else _) => destruct b end;
    try contradiction; destruct H as [<-|[]]; cbn [mv src dst promo];
    (repeat split; destruct c; cbn [home_rank]; lia).
Qed.

Lemma pseudo_from_facts (p:pos) (s:N) (m:move) :
  In m (pseudo_from p s) ->
  src m = s /\ dst m < 64 /\ own p (turn p) s = true /\ promo m <> Some King.
Proof.
  unfold pseudo_from. destruct (at_ p s) as [[t c']|] eqn:Ea; [|contradiction].
  destruct (color_eqb (turn p) c') eqn:Ec; [|contradiction].
  assert (own p (turn p) s = true) as Hown by (unfold own, colour_at; rewrite Ea; exact Ec).
  assert (forall m, In m (map (mv s) (filter (fun d => negb (own p (turn p) d)) (attack_set p s))) ->
            src m = s /\ dst m < 64 /\ own p (turn p) s = true /\ promo m <> Some King) as Hq.
  { intros m0 H. apply quiet_facts in H. destruct H as [H1 [H2 H3]].
    repeat split; [exact H1|eapply attack_set_lt, H2|exact Hown|rewrite H3; discriminate]. }
  destruct t; try (apply Hq).
  - intro H. apply pawn_moves_facts in H. destruct H as [H1 [H2 H3]]. auto.
  - intro H. apply in_app_or in H. destruct H as [H|H]; [apply Hq, H|].
    destruct (N.eqb_spec s (home_rank (turn p) * 8 + 4)) as [Es|_]; [|contradiction].
    apply castle_moves_facts in H. destruct H as [H1 [H2 H3]].
    repeat split; [congruence|exact H2|exact Hown|rewrite H3; discriminate].
Qed.

Lemma pseudo_facts (p:pos) (m:move) :
  In m (pseudo p) ->
  src m < 64 /\ dst m < 64 /\ own p (turn p) (src m) = true /\ promo m <> Some King.
Proof.
  unfold pseudo. intro H. apply in_flat_map in H. destruct H as [s [Hs H]].
  apply pseudo_from_facts in H. destruct H as [H1 [H2 [H3 H4]]]. rewrite H1.
  repeat split; try assumption. apply in_all_sq, Hs.
Qed.

Lemma pos_ext (a b:pos) :
  placement a = placement b -> turn a = turn b -> wk a = wk b -> wq a = wq b ->
  bk a = bk b -> bq a = bq b -> ep a = ep b -> a = b.
Proof.
  destruct a as [pl1 t1 a1 b1 c1 d1 e1], b as [pl2 t2 a2 b2 c2 d2 e2].
  cbn [placement turn wk wq bk bq ep]. intros; subst; reflexivity.
Qed.

(** ** The successor of the image is the image of the successor; legal moves; status *)
Section Generic2.
Variable S : sym.
Notation φ := (phi S).
Notation κ := (kap (sw S)).
Notation δ := (del S).
Notation φm := (mmove (phi S)).
Notation pcm := (pcmap (sw S)).

Section WithRel2.
Variables p q : pos.
Hypothesis R : Rel S p q.

Lemma is_ep_m (m:move) : src m < 64 -> dst m < 64 -> is_ep q (φm m) = is_ep p m.
Proof.
  intros Hs Hd. unfold is_ep. cbn [mmove src dst].
  rewrite (r_turn _ _ _ R), (has_m S p q R), (phi_file_eq S), (occ_m S p q R) by assumption.
  reflexivity.
Qed.

Lemma is_castle_m (m:move) : src m < 64 -> dst m < 64 -> is_castle q (φm m) = is_castle p m.
Proof.
  intros Hs Hd. unfold is_castle. cbn [mmove src dst].
  rewrite (r_turn _ _ _ R), (has_m S p q R), (phi_fabs S) by assumption. reflexivity.
Qed.

Lemma is_double_m (m:move) : src m < 64 -> dst m < 64 -> is_double q (φm m) = is_double p m.
Proof.
  intros Hs Hd. unfold is_double. cbn [mmove src dst].
  rewrite (r_turn _ _ _ R), (has_m S p q R), (phi_rabs S) by assumption. reflexivity.
Qed.

Lemma apply_at_m (m:move) (s:N) : src m < 64 -> dst m < 64 ->
  (is_castle p m = false \/ castle_geom S) ->
  apply_at q (φm m) (φ s) = pcm (apply_at p m s).
Proof.
  intros Hs Hd HC. unfold apply_at. cbv zeta.
  rewrite is_castle_m, is_ep_m by assumption. cbn [mmove src dst promo].
  rewrite !(phi_eqb S), (r_turn _ _ _ R), !(r_at _ _ _ R).
  rewrite <- (phi_epsq S) by assumption. rewrite (phi_eqb S).
  assert ((if dst m =? s
           then Some (match promo m with Some t => t | None =>
                        match pcm (at_ p (src m)) with Some (t,_) => t | None => Pawn end end, κ (turn p))
           else if src m =? s then None else pcm (at_ p s))
          = pcm (if dst m =? s
                 then Some (match promo m with Some t => t | None =>
                        match at_ p (src m) with Some (t,_) => t | None => Pawn end end, turn p)
                 else if src m =? s then None else at_ p s)) as E1.
  { destruct (dst m =? s).
    - cbn [pcmap]. destruct (at_ p (src m)) as [[t c0]|]; reflexivity.
    - destruct (src m =? s); reflexivity. }
  rewrite E1. clear E1.
  set (b1 := if dst m =? s then _ else _).
  assert ((if is_ep p m && (rank_of (src m) * 8 + file_of (dst m) =? s) then None else pcm b1)
          = pcm (if is_ep p m && (rank_of (src m) * 8 + file_of (dst m) =? s) then None else b1)) as E2
    by (destruct (is_ep p m && _); reflexivity).
  rewrite E2. clear E2.
  set (b2 := if is_ep p m && _ then None else b1).
  destruct (is_castle p m) eqn:Ec; [|reflexivity].
  destruct HC as [HC|HC]; [discriminate|].
  destruct (rank_file_lt _ Hs) as [Hr _].
  assert (file_of (φ (dst m)) = file_of (dst m)) as Ef by (apply (HC (dst m) 0); lia).
  rewrite Ef.
  assert (forall k, k < 8 -> (rank_of (φ (src m)) * 8 + k =? φ s) = (rank_of (src m) * 8 + k =? s)) as Ek.
  { intros k Hk. destruct (HC (src m) k Hs Hk) as [E _]. rewrite <- E. apply phi_eqb. }
  assert ((rank_of (φ (src m)) * 8 =? φ s) = (rank_of (src m) * 8 =? s)) as Ek0.
  { pose proof (Ek 0) as E. rewrite !N.add_0_r in E. apply E. lia. }
  rewrite !Ek by lia. rewrite Ek0.
  destruct (file_of (dst m) =? 6).
  - destruct (rank_of (src m) * 8 + 5 =? s); [reflexivity|].
    destruct (rank_of (src m) * 8 + 7 =? s); reflexivity.
  - destruct (rank_of (src m) * 8 + 3 =? s); [reflexivity|].
    destruct (rank_of (src m) * 8 =? s); reflexivity.
Qed.

Lemma side_pawn_m (c:color) (t:N) (d:Z*Z) : t < 64 ->
  side_pawn q (κ c) (φ t) (δ d) = side_pawn p c t d.
Proof.
  intro Ht. unfold side_pawn. rewrite (phi_step S) by exact Ht.
  destruct (step t d) as [x|]; cbn [option_map]; [|reflexivity]. apply (has_m S p q R).
Qed.

Lemma ep_apply_m (m:move) : src m < 64 -> dst m < 64 ->
  ep (apply q (φm m)) = option_map φ (ep (apply p m)).
Proof.
  intros Hs Hd. rewrite !ep_apply, is_double_m by assumption.
  destruct (is_double p m) eqn:Ed; [|reflexivity].
  cbn [mmove src dst]. rewrite (r_turn _ _ _ R), <- (kap_opp S).
  rewrite (existsb_perm _ _ _ (Permutation_sym (del_side S))), existsb_map.
  rewrite (existsb_ext_in (fun x => side_pawn q (κ (opp (turn p))) (φ (dst m)) (δ x))
                          (side_pawn p (opp (turn p)) (dst m)))
    by (intros a _; apply side_pawn_m, Hd).
  destruct (existsb _ side_dirs); [|reflexivity]. cbn [option_map]. f_equal.
  symmetry. apply (phi_tgt S); try assumption.
  unfold is_double in Ed. apply andb_prop in Ed. apply N.eqb_eq, Ed.
Qed.

Lemma Rel_apply (m:move) : src m < 64 -> dst m < 64 ->
  (is_castle p m = false \/ castle_geom S) ->
  Rel S (apply p m) (apply q (φm m)).
Proof.
  intros Hs Hd HC.
  assert (src (φm m) < 64) as Hs' by (apply (phi_lt S), Hs).
  assert (dst (φm m) < 64) as Hd' by (apply (phi_lt S), Hd).
  constructor.
  - rewrite apply_length. apply (r_lp _ _ _ R).
  - rewrite apply_length. apply (r_lq _ _ _ R).
  - intro s. rewrite !at_apply; try assumption; [|apply (r_lp _ _ _ R)|apply (r_lq _ _ _ R)].
    apply apply_at_m; assumption.
  - rewrite !turn_apply, (r_turn _ _ _ R). symmetry. apply kap_opp.
  - apply ep_apply_m; assumption.
Qed.

Lemma legal_m :
  uniq_king p -> CastleRel S p q ->
  (forall m, In m (pseudo p) -> is_castle p m = false \/ castle_geom S) ->
  Permutation (legal_moves q) (map φm (legal_moves p)).
Proof.
  intros U HC HG. unfold legal_moves.
  eapply Permutation_trans.
  - apply Permutation_filter. apply (pseudo_m S p q R HC).
  - rewrite filter_map_comm.
    rewrite (filter_ext_in (fun x => negb (in_check (apply q (φm x)) (turn q)))
                           (fun x => negb (in_check (apply p x) (turn p)))); [apply Permutation_refl|].
    intros m Hm. destruct (pseudo_facts _ _ Hm) as [Hs [Hd [Hown Hpr]]].
    rewrite (r_turn _ _ _ R). f_equal.
    apply (in_check_m S _ _ (Rel_apply m Hs Hd (HG m Hm))).
    apply uniq_apply; try assumption. apply (r_lp _ _ _ R).
Qed.

Lemma status_m :
  uniq_king p -> CastleRel S p q ->
  (forall m, In m (pseudo p) -> is_castle p m = false \/ castle_geom S) ->
  status q = status p.
Proof.
  intros U HC HG. pose proof (legal_m U HC HG) as H. apply nonempty_perm_map in H.
  unfold status. destruct (legal_moves q), (legal_moves p); cbn [nonempty] in H; try discriminate.
  - rewrite (r_turn _ _ _ R), (in_check_m S p q R) by exact U. reflexivity.
  - reflexivity.
Qed.

(** two images of the same position with the same castling rights are equal *)
Lemma Rel_unique (q':pos) : Rel S p q' ->
  wk q = wk q' -> wq q = wq q' -> bk q = bk q' -> bq q = bq q' -> q = q'.
Proof.
  intros R' E1 E2 E3 E4.
  assert (placement q = placement q') as Ep.
  { apply (nth_ext _ _ None None).
    - rewrite (r_lq _ _ _ R), (r_lq _ _ _ R'). reflexivity.
    - intros n _. pose proof (r_at _ _ _ R (φ (N.of_nat n))) as A.
      pose proof (r_at _ _ _ R' (φ (N.of_nat n))) as A'.
      rewrite (phi_inv S) in A, A'. unfold at_ in A, A'. rewrite Nat2N.id in A, A'. congruence. }
  pose proof (r_turn _ _ _ R) as T. pose proof (r_turn _ _ _ R') as T'.
  pose proof (r_ep _ _ _ R) as P. pose proof (r_ep _ _ _ R') as P'.
  apply pos_ext; congruence.
Qed.

End WithRel2.
End Generic2.

(** ** well-formedness is preserved by the image and by pseudo-legal moves *)
Lemma uniq_m (S:sym) (p q:pos) : Rel S p q -> uniq_king p -> uniq_king q.
Proof.
  intros R U c s t Hs Ht.
  rewrite <- (phi_inv S s), <- (kap_inv S c), (has_m S p q R) in Hs.
  rewrite <- (phi_inv S t), <- (kap_inv S c), (has_m S p q R) in Ht.
  apply (phi_inj S). apply (U _ _ _ Hs Ht).
Qed.

Lemma WFpos_m (S:sym) (p q:pos) : Rel S p q -> WFpos p -> WFpos q.
Proof.
  intros R W. apply uniq_WFpos; [apply (r_lq _ _ _ R)|].
  apply (uniq_m S p q R), WFpos_uniq, W.
Qed.

Lemma WFpos_apply (p:pos) (m:move) : WFpos p -> In m (pseudo p) -> WFpos (apply p m).
Proof.
  intros W Hm. destruct (pseudo_facts _ _ Hm) as [Hs [Hd [Hown Hpr]]].
  pose proof (WFpos_uniq p W) as U. destruct W as [Hl _].
  apply uniq_WFpos; [rewrite apply_length; exact Hl|].
  apply uniq_apply; assumption.
Qed.
