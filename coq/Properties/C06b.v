(** * C06b — FEN round trips at full strength: for every valid board (a board that is the
    from-scratch construction of the valid position it shows), for every board of a game
    history (reached from the from-scratch board of a valid position by the library's own
    moves on specification-legal moves and by null moves), and the history clauses of the
    en-passant field.  Lemmas: [Proofs/CorB06.v]; ingredients: [Properties/C06.v] (text level),
    [Proofs/RoundTripMain.v] (is_sane accepts every valid position), [Proofs/StepCanon.v]
    (history boards are canonical and valid), [Proofs/ApplySpecEp.v] (when a target is recorded). *)
From Coq Require Import NArith List.
From Chess Require Import Base.Text Spec.Geometry Spec.Rules Spec.Text Model.Board Model.Fen.
From Chess Require Import Proofs.FenCanon Proofs.StepCanon Proofs.ApplySpecLib Proofs.ApplySpecEp
  Proofs.CorB06.
Import ListNotations.
Open Scope N_scope.

(** the statement left open in [Proofs/FenCanon.v] *)
Theorem C06_board_roundtrip_full_proved : C06_board_roundtrip_full.
Proof. exact board_roundtrip_full. Qed.
Check C06_board_roundtrip_full_proved : C06_board_roundtrip_full.
Print Assumptions C06_board_roundtrip_full_proved.

(** the same, spelled out *)
Theorem C06b_board_roundtrip : forall b : board,
  b = from_scratch (abs_board b) -> pos_valid (abs_board b) = true ->
  board_from_str (board_display b) = Ok b
  /\ board_from_str (std_fen (abs_board b) (ep (abs_board b))) = Ok b.
Proof. exact board_roundtrip_full. Qed.
Check C06b_board_roundtrip : forall b : board,
  b = from_scratch (abs_board b) -> pos_valid (abs_board b) = true ->
  board_from_str (board_display b) = Ok b
  /\ board_from_str (std_fen (abs_board b) (ep (abs_board b))) = Ok b.
Print Assumptions C06b_board_roundtrip.

(** [is_sane] accepts every valid board *)
Theorem C06b_sane_of_valid : forall b : board,
  b = from_scratch (abs_board b) -> pos_valid (abs_board b) = true -> is_sane b = true.
Proof. exact sane_of_valid_proved. Qed.
Check C06b_sane_of_valid : forall b : board,
  b = from_scratch (abs_board b) -> pos_valid (abs_board b) = true -> is_sane b = true.
Print Assumptions C06b_sane_of_valid.

(** every board of a history: both round trips, well-formed text, the standard writer's text *)
Theorem C06b_history : forall (p0:pos) (b:board), pos_valid p0 = true -> ReachLib p0 b ->
  board_from_str (board_display b) = Ok b
  /\ board_from_str (std_fen (abs_board b) (ep (abs_board b))) = Ok b
  /\ fen_wellformed (board_display b) = true
  /\ board_display b = std_fen (abs_board b) (ep (abs_board b)).
Proof. exact reachlib_fen. Qed.
Check C06b_history : forall (p0:pos) (b:board), pos_valid p0 = true -> ReachLib p0 b ->
  board_from_str (board_display b) = Ok b
  /\ board_from_str (std_fen (abs_board b) (ep (abs_board b))) = Ok b
  /\ fen_wellformed (board_display b) = true
  /\ board_display b = std_fen (abs_board b) (ep (abs_board b)).
Print Assumptions C06b_history.

(** the en-passant field is "-" unless the move just made was a double pawn push *)
Theorem C06b_ep_dash_unless_double : forall (p0:pos) (b:board) (m:move) (b':board),
  pos_valid p0 = true -> ReachLib p0 b ->
  In m (legal_moves (abs_board b)) -> make_move_new b (src m) (dst m) (promo m) = Some b' ->
  is_double (abs_board b) m = false ->
  nth 3 (split_sp (board_display b')) [] = [45].
Proof. exact reachlib_ep_dash_unless_double. Qed.
Check C06b_ep_dash_unless_double : forall (p0:pos) (b:board) (m:move) (b':board),
  pos_valid p0 = true -> ReachLib p0 b ->
  In m (legal_moves (abs_board b)) -> make_move_new b (src m) (dst m) (promo m) = Some b' ->
  is_double (abs_board b) m = false ->
  nth 3 (split_sp (board_display b')) [] = [45].
Print Assumptions C06b_ep_dash_unless_double.

(** anything but "-" names the square passed over by a double push that landed beside an
    enemy pawn *)
Theorem C06b_ep_field_only : forall (p0:pos) (b:board) (m:move) (b':board),
  pos_valid p0 = true -> ReachLib p0 b ->
  In m (legal_moves (abs_board b)) -> make_move_new b (src m) (dst m) (promo m) = Some b' ->
  nth 3 (split_sp (board_display b')) [] <> [45] ->
  is_double (abs_board b) m = true
  /\ nth 3 (split_sp (board_display b')) [] = sq_name (ep_mid m)
  /\ exists x, ApplySpecLib.beside (dst m) x /\ has (abs_board b) x Pawn (opp (turn (abs_board b))) = true.
Proof. exact reachlib_ep_field_only. Qed.
Check C06b_ep_field_only : forall (p0:pos) (b:board) (m:move) (b':board),
  pos_valid p0 = true -> ReachLib p0 b ->
  In m (legal_moves (abs_board b)) -> make_move_new b (src m) (dst m) (promo m) = Some b' ->
  nth 3 (split_sp (board_display b')) [] <> [45] ->
  is_double (abs_board b) m = true
  /\ nth 3 (split_sp (board_display b')) [] = sq_name (ep_mid m)
  /\ exists x, ApplySpecLib.beside (dst m) x /\ has (abs_board b) x Pawn (opp (turn (abs_board b))) = true.
Print Assumptions C06b_ep_field_only.

(** the field names the square passed over whenever the successor position has a legal
    en-passant capture under the unconditional FIDE flag *)
Theorem C06b_ep_field_when_capturable : forall (p0:pos) (b:board) (m:move) (b':board),
  pos_valid p0 = true -> ReachLib p0 b ->
  In m (legal_moves (abs_board b)) -> make_move_new b (src m) (dst m) (promo m) = Some b' ->
  (exists m', In m' (legal_moves (apply_fide (abs_board b) m))
              /\ is_ep (apply_fide (abs_board b) m) m' = true) ->
  nth 3 (split_sp (board_display b')) [] = sq_name (ep_mid m)
  /\ is_double (abs_board b) m = true
  /\ rank_of (ep_mid m) = sixth_rank (stm b').
Proof. exact reachlib_ep_field_when_capturable. Qed.
Check C06b_ep_field_when_capturable : forall (p0:pos) (b:board) (m:move) (b':board),
  pos_valid p0 = true -> ReachLib p0 b ->
  In m (legal_moves (abs_board b)) -> make_move_new b (src m) (dst m) (promo m) = Some b' ->
  (exists m', In m' (legal_moves (apply_fide (abs_board b) m))
              /\ is_ep (apply_fide (abs_board b) m) m' = true) ->
  nth 3 (split_sp (board_display b')) [] = sq_name (ep_mid m)
  /\ is_double (abs_board b) m = true
  /\ rank_of (ep_mid m) = sixth_rank (stm b').
Print Assumptions C06b_ep_field_when_capturable.

(** after a null move the field is "-" *)
Theorem C06b_null_move_ep_dash : forall b b' : board, null_move b = Some b' ->
  nth 3 (split_sp (board_display b')) [] = [45].
Proof. exact null_move_ep_dash. Qed.
Check C06b_null_move_ep_dash : forall b b' : board, null_move b = Some b' ->
  nth 3 (split_sp (board_display b')) [] = [45].
Print Assumptions C06b_null_move_ep_dash.
