(** * Proofs.FenCanon — property C06, part 7: boards in canonical form.
    A board is canonical when it is the from-scratch construction of its own abstract
    position ([b = from_scratch (abs_board b)], the "Valid" boards of the design minus the
    validity of the position).  For canonical boards that [is_sane] accepts, the FEN text
    round-trips at the [Board] level, equals the independent standard writer's text, and the
    standard writer's text parses back to the board.  That [is_sane] accepts the canonical
    board of every valid position is the remaining (other people's) obligation. *)
From Coq Require Import Lia ZifyBool ZifyN ZifyNat.
From Chess Require Import Base.Bits Base.Text Spec.Geometry Spec.Rules Spec.Text
  Model.Board Model.MoveGen Model.Fen Proofs.FenSplit Proofs.FenPlacement Proofs.FenRoundtrip
  Proofs.FenWellformed Proofs.FenStd Proofs.FenBoard.
Open Scope N_scope.
Ltac Zify.zify_post_hook ::= Z.div_mod_to_equations.
#[local] Arguments N.add : simpl never.
#[local] Arguments N.sub : simpl never.
#[local] Arguments N.mul : simpl never.
#[local] Arguments N.shiftl : simpl never.
#[local] Arguments N.shiftr : simpl never.
#[local] Arguments N.land : simpl never.
#[local] Arguments N.lor : simpl never.
#[local] Arguments N.lxor : simpl never.
#[local] Arguments N.testbit : simpl never.
#[local] Arguments N.eqb : simpl never.
#[local] Arguments N.ltb : simpl never.
#[local] Arguments N.leb : simpl never.

Definition canonical (b:board) : Prop := b = from_scratch (abs_board b).

(** ** The text-relevant fields of [from_builder_raw] *)
Lemma update_pin_info_fields : forall b,
  crW (update_pin_info b) = crW b /\ crB (update_pin_info b) = crB b
  /\ stm (update_pin_info b) = stm b /\ epsq (update_pin_info b) = epsq b.
Proof.
  intro b. unfold update_pin_info. destruct (slider_scan _ _ _ _ _) as [pn ch].
  cbn [set_caches crW crB stm epsq]. repeat split; reflexivity.
Qed.

Lemma place_fold_epsq : forall pcs l b,
  epsq (fold_left (fun b s => match nth (N.to_nat s) pcs None with
                              | Some (p,c) => xor_piece b p (bit s) c | None => b end) l b)
  = epsq b.
Proof.
  intros pcs l. induction l as [|s l IH]; intro b.
  - reflexivity.
  - cbn [fold_left]. rewrite IH. destruct (nth (N.to_nat s) pcs None) as [[p c]|]; reflexivity.
Qed.
Lemma place_all_epsq : forall pcs, epsq (place_all pcs) = None.
Proof. intro pcs. unfold place_all. rewrite place_fold_epsq. reflexivity. Qed.

Lemma opp_opp : forall c, opp (opp c) = c.
Proof. intros []; reflexivity. Qed.

(** the stages of [from_builder_raw] *)
Definition fb_turned (bb:builder) : board := set_stm (place_all (bpieces bb)) (bstm bb).
Definition fb_ep (bb:builder) : board :=
  match builder_get_en_passant bb with
  | Some e => set_stm (set_ep (set_stm (fb_turned bb) (opp (stm (fb_turned bb)))) e)
                      (opp (stm (set_stm (fb_turned bb) (opp (stm (fb_turned bb))))))
  | None => fb_turned bb end.
Lemma from_builder_raw_stages : forall bb,
  from_builder_raw bb
  = update_pin_info (add_castle_rights (add_castle_rights (fb_ep bb) White (bcrW bb)) Black (bcrB bb)).
Proof. reflexivity. Qed.

Lemma acr_fields : forall b c a,
  stm (add_castle_rights b c a) = stm b /\ epsq (add_castle_rights b c a) = epsq b.
Proof. intros b c a. split; reflexivity. Qed.
Lemma acr_crW_White : forall b a, crW (add_castle_rights b White a) = N.land (N.lor (crW b) a) 3.
Proof. reflexivity. Qed.
Lemma acr_crW_Black : forall b a, crW (add_castle_rights b Black a) = crW b.
Proof. reflexivity. Qed.
Lemma acr_crB_Black : forall b a, crB (add_castle_rights b Black a) = N.land (N.lor (crB b) a) 3.
Proof. reflexivity. Qed.
Lemma set_stm_fields : forall b c, stm (set_stm b c) = c /\ epsq (set_stm b c) = epsq b.
Proof. intros b c. split; reflexivity. Qed.
Lemma set_ep_epsq : forall b e, epsq (set_ep b e) = Some e \/ epsq (set_ep b e) = epsq b.
Proof.
  intros b e. unfold set_ep.
  match goal with |- epsq (if ?t then _ else _) = _ \/ _ => destruct t end;
    [left|right]; reflexivity.
Qed.

Lemma land3_lt : forall x, N.land x 3 < 4.
Proof. intro x. change 3 with (N.ones 2). rewrite N.land_ones. change (2 ^ 2) with 4. lia. Qed.

Lemma fb_turned_fields : forall bb, stm (fb_turned bb) = bstm bb /\ epsq (fb_turned bb) = None.
Proof.
  intro bb. unfold fb_turned. destruct (set_stm_fields (place_all (bpieces bb)) (bstm bb)) as [E1 E2].
  rewrite E1, E2, place_all_epsq. split; reflexivity.
Qed.

Lemma fb_ep_stm : forall bb, stm (fb_ep bb) = bstm bb.
Proof.
  intro bb. unfold fb_ep. destruct (fb_turned_fields bb) as [Es _].
  destruct (builder_get_en_passant bb) as [e|]; [|exact Es].
  rewrite (proj1 (set_stm_fields _ _)). rewrite (proj1 (set_stm_fields _ _)).
  rewrite Es. apply opp_opp.
Qed.
Lemma fb_ep_epsq : forall bb e, epsq (fb_ep bb) = Some e -> builder_get_en_passant bb = Some e.
Proof.
  intros bb e. unfold fb_ep. destruct (fb_turned_fields bb) as [_ Ee].
  destruct (builder_get_en_passant bb) as [e0|].
  - rewrite (proj2 (set_stm_fields _ _)).
    destruct (set_ep_epsq (set_stm (fb_turned bb) (opp (stm (fb_turned bb)))) e0) as [H|H];
      rewrite H.
    + intro G. exact G.
    + rewrite (proj2 (set_stm_fields _ _)), Ee. intro G. discriminate G.
  - rewrite Ee. intro G. discriminate G.
Qed.

Lemma from_builder_raw_cr : forall bb,
  crW (from_builder_raw bb) < 4 /\ crB (from_builder_raw bb) < 4.
Proof.
  intro bb. rewrite from_builder_raw_stages.
  match goal with |- crW (update_pin_info ?x) < _ /\ _ =>
    destruct (update_pin_info_fields x) as [Ew [Eb _]]; rewrite Ew, Eb end.
  rewrite acr_crW_Black, acr_crW_White, acr_crB_Black. split; apply land3_lt.
Qed.

Lemma from_builder_raw_stm : forall bb, stm (from_builder_raw bb) = bstm bb.
Proof.
  intro bb. rewrite from_builder_raw_stages.
  match goal with |- stm (update_pin_info ?x) = _ =>
    destruct (update_pin_info_fields x) as [_ [_ [Es _]]]; rewrite Es end.
  rewrite (proj1 (acr_fields _ _ _)), (proj1 (acr_fields _ _ _)). apply fb_ep_stm.
Qed.

Lemma from_builder_raw_epsq : forall bb e,
  epsq (from_builder_raw bb) = Some e -> builder_get_en_passant bb = Some e.
Proof.
  intros bb e. rewrite from_builder_raw_stages.
  match goal with |- epsq (update_pin_info ?x) = _ -> _ =>
    destruct (update_pin_info_fields x) as [_ [_ [_ Ee]]]; rewrite Ee end.
  rewrite (proj2 (acr_fields _ _ _)), (proj2 (acr_fields _ _ _)). apply fb_ep_epsq.
Qed.

(** ** An en-passant field that nobody can use is ignored by the validating conversion.
    The standard writer records the passed-over square after EVERY double push; the library
    keeps it only if a pawn of the side to move stands next to the pushed pawn
    ([Board::set_ep]).  [capturer_present bb e] is that test, as [from_builder_raw] runs it. *)
Definition capturer_present (bb:builder) (e:N) : bool :=
  let b := set_stm (fb_turned bb) (opp (stm (fb_turned bb))) in
  negb (N.land (N.land (N.land (get_adjacent_files (sq_file e)) (get_rank (sq_rank e))) (pP b))
               (color_combined b (opp (stm b))) =? 0).
Definition clear_ep (bb:builder) : builder :=
  {| bpieces := bpieces bb; bstm := bstm bb; bcrW := bcrW bb; bcrB := bcrB bb; bep := None |}.

Lemma set_stm_set_stm : forall b c d, set_stm (set_stm b c) d = set_stm b d.
Proof. reflexivity. Qed.
Lemma set_ep_dead : forall bb e, capturer_present bb e = false ->
  set_ep (set_stm (fb_turned bb) (opp (stm (fb_turned bb)))) e
  = set_stm (fb_turned bb) (opp (stm (fb_turned bb))).
Proof.
  intros bb e H. unfold set_ep. unfold capturer_present in H. cbv zeta in H. rewrite H. reflexivity.
Qed.

Lemma from_builder_raw_dead_ep : forall bb e,
  builder_get_en_passant bb = Some e -> capturer_present bb e = false ->
  from_builder_raw bb = from_builder_raw (clear_ep bb).
Proof.
  intros bb e He Hc. rewrite !from_builder_raw_stages.
  change (bcrW (clear_ep bb)) with (bcrW bb). change (bcrB (clear_ep bb)) with (bcrB bb).
  assert (E : fb_ep bb = fb_ep (clear_ep bb)); [|rewrite E; reflexivity].
  change (fb_ep (clear_ep bb)) with (fb_turned bb).
  unfold fb_ep. rewrite He. rewrite set_ep_dead by assumption.
  rewrite set_stm_set_stm. rewrite (proj1 (set_stm_fields _ _)). rewrite opp_opp.
  unfold fb_turned. rewrite set_stm_set_stm. rewrite (proj1 (set_stm_fields _ _)). reflexivity.
Qed.

(** the builder the parser makes of the standard writer's text *)
Definition std_builder (p:pos) (dp:option N) : builder :=
  {| bpieces := placement p; bstm := turn p;
     bcrW := bcrW (builder_of_pos p); bcrB := bcrB (builder_of_pos p);
     bep := match dp with Some t => Some (file_of t) | None => None end |}.

(** Standard input with a recorded but unusable double push is read as the same board as
    the text without it *)
Theorem board_from_std_dead_ep : forall p t,
  length (placement p) = 64%nat -> t < 64 ->
  capturer_present (std_builder p (Some t)) (mk_sq (fourth_rk (opp (turn p))) (file_of t)) = false ->
  board_from_str (std_fen p (Some t)) = board_from_str (std_fen p None).
Proof.
  intros p t Hlen Ht Hc. unfold board_from_str.
  rewrite (builder_from_std p (Some t)) by
    (try assumption; intros t' H'; injection H' as H'; subst t'; assumption).
  rewrite (builder_from_std p None) by (try assumption; intros t' H'; discriminate H').
  fold (std_builder p (Some t)). fold (std_builder p None).
  unfold try_from_builder.
  rewrite (from_builder_raw_dead_ep (std_builder p (Some t))
             (mk_sq (fourth_rk (opp (turn p))) (file_of t))) by (try reflexivity; assumption).
  reflexivity.
Qed.

(** satisfiable: after 1. e4 no black pawn stands next to e4; the standard writer still
    prints "e3", and both texts are read as the same (accepted) board *)
Example dead_ep_example :
  capturer_present (std_builder pos_after_e4 (Some 20)) (mk_sq (fourth_rk (opp (turn pos_after_e4))) (file_of 20)) = false
  /\ board_from_str (std_fen pos_after_e4 (Some 20)) = Ok e4_board
  /\ board_from_str (std_fen pos_after_e4 None) = Ok e4_board.
Proof. split; [|split]; vm_compute; reflexivity. Qed.

(** ** Canonical boards satisfy the side conditions of Proofs.FenBoard *)
Lemma from_scratch_eq : forall p, from_scratch p = from_builder_raw (builder_of_pos p).
Proof. reflexivity. Qed.
Lemma canonical_eq : forall b, canonical b -> b = from_builder_raw (builder_of_pos (abs_board b)).
Proof. intros b H. rewrite <- from_scratch_eq. exact H. Qed.
Lemma canonical_cr_ok : forall b, canonical b -> cr_ok b.
Proof.
  intros b H. apply canonical_eq in H.
  destruct (from_builder_raw_cr (builder_of_pos (abs_board b))) as [Hw Hb].
  unfold cr_ok. rewrite (f_equal crW H), (f_equal crB H). split; assumption.
Qed.

Lemma canonical_builder : forall b, canonical b -> b = from_builder_raw (builder_of_board b).
Proof.
  intros b H. rewrite builder_of_board_abs by (apply canonical_cr_ok; assumption).
  apply canonical_eq. exact H.
Qed.

Lemma sq_rank_mk_sq : forall r f, sq_rank (mk_sq r f) = N.land r 7.
Proof.
  intros r f. unfold sq_rank. pose proof (rank_of_mk_sq r f) as H. unfold rank_of in H.
  rewrite H. apply land7_idem.
Qed.

Lemma canonical_ep_rank_ok : forall b, canonical b -> ep_rank_ok b.
Proof.
  intros b H e He. apply canonical_builder in H.
  assert (Hs : stm b = bstm (builder_of_board b)) by (rewrite H at 1; apply from_builder_raw_stm).
  rewrite H in He. apply from_builder_raw_epsq in He.
  unfold builder_get_en_passant in He. destruct (bep (builder_of_board b)) as [f|]; [|discriminate He].
  injection He as He. subst e. rewrite sq_rank_mk_sq. rewrite Hs.
  destruct (bstm (builder_of_board b)); reflexivity.
Qed.

Lemma canonical_sane_try : forall b, canonical b -> is_sane b = true ->
  try_from_builder (builder_of_board b) = Some b.
Proof.
  intros b H Hs. apply canonical_builder in H. unfold try_from_builder.
  rewrite <- H. rewrite Hs. reflexivity.
Qed.

(** ** Board-level C06 for canonical boards accepted by [is_sane] *)
Theorem board_roundtrip_canonical : forall b, canonical b -> is_sane b = true ->
  board_from_str (board_display b) = Ok b.
Proof.
  intros b H Hs. apply board_text_roundtrip_cond.
  - apply canonical_cr_ok. assumption.
  - apply canonical_sane_try; assumption.
Qed.

Theorem board_display_std_canonical : forall b, canonical b ->
  board_display b = std_fen (abs_board b) (ep (abs_board b)).
Proof.
  intros b H. apply board_display_std; [apply canonical_cr_ok|apply canonical_ep_rank_ok]; assumption.
Qed.

Theorem board_from_std_canonical : forall b, canonical b -> is_sane b = true ->
  board_from_str (std_fen (abs_board b) (ep (abs_board b))) = Ok b.
Proof.
  intros b H Hs. rewrite <- board_display_std_canonical by assumption.
  apply board_roundtrip_canonical; assumption.
Qed.

Theorem board_display_wellformed_canonical : forall b, canonical b ->
  fen_wellformed (board_display b) = true.
Proof. intros b H. apply board_display_wellformed. apply canonical_cr_ok. assumption. Qed.

(** the full statement over valid boards (canonical boards of valid positions): what is
    missing above is exactly [canonical b -> pos_valid (abs_board b) = true -> is_sane b = true] *)
Definition C06_board_roundtrip_full : Prop :=
  forall b, canonical b -> pos_valid (abs_board b) = true ->
    board_from_str (board_display b) = Ok b
    /\ board_from_str (std_fen (abs_board b) (ep (abs_board b))) = Ok b.
Definition sane_of_valid : Prop :=
  forall b, canonical b -> pos_valid (abs_board b) = true -> is_sane b = true.
Theorem C06_board_roundtrip_full_from_sane : sane_of_valid -> C06_board_roundtrip_full.
Proof.
  intros S b H V. split.
  - apply board_roundtrip_canonical; [assumption|apply S; assumption].
  - apply board_from_std_canonical; [assumption|apply S; assumption].
Qed.

(** the hypotheses are satisfiable (initial position; a position with a live en-passant right) *)
Example canonical_examples :
  (canonical start_board /\ is_sane start_board = true /\ pos_valid (abs_board start_board) = true)
  /\ (canonical ep_live_board /\ is_sane ep_live_board = true
      /\ pos_valid (abs_board ep_live_board) = true /\ ep (abs_board ep_live_board) = Some 43).
Proof.
  unfold canonical.
  split; [split; [|split]|split; [|split; [|split]]]; vm_compute; reflexivity.
Qed.
