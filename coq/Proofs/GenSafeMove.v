(** * Proofs.GenSafeMove — the shape of a pseudo-legal move of a man other than the king (not
    en passant) and the placement of its successor position. *)
From Coq Require Import Lia ZifyBool ZifyN ZifyNat.
From Chess Require Import Base.Bits Spec.Geometry Spec.Rules Model.Board Model.MoveGen.
From Chess Require Import Proofs.BitsFacts Proofs.WalkDep Proofs.TablesLib Proofs.TablesEq
                          Proofs.TablesMeaning Proofs.AbsBoard Proofs.CanonAttack
                          Proofs.CanonPinned Proofs.SanLink Proofs.GenInterface
                          Proofs.GenSafeGeom Proofs.GenSafeAttack.
Open Scope N_scope.

(** ** list update *)
Lemma gs_length_upd {A} (l:list A) : forall i x, length (upd l i x) = length l.
Proof.
  induction l as [|h t IH]; intros i x; [reflexivity|].
  destruct i as [|i]; cbn [upd length]; [reflexivity|]. rewrite IH. reflexivity.
Qed.
Lemma gs_nth_upd {A} (l:list A) : forall i j x d, (i < length l)%nat ->
  nth j (upd l i x) d = if Nat.eqb i j then x else nth j l d.
Proof.
  induction l as [|h t IH]; intros i j x d Hi; cbn [length] in Hi; [lia|].
  destruct i as [|i], j as [|j]; cbn [upd nth Nat.eqb]; try reflexivity.
  apply IH. lia.
Qed.
Lemma gs_at_updN (l:list (option (ptype*color))) i x s : length l = 64%nat -> i < 64 ->
  nth (N.to_nat s) (updN l i x) None = if i =? s then x else nth (N.to_nat s) l None.
Proof.
  intros Hl Hi. unfold updN. rewrite gs_nth_upd by lia.
  destruct (N.eqb_spec i s) as [->|Hne].
  - rewrite Nat.eqb_refl. reflexivity.
  - destruct (Nat.eqb_spec (N.to_nat i) (N.to_nat s)) as [E|_]; [|reflexivity].
    apply N2Nat.inj in E. contradiction.
Qed.

(** the man put on the destination square *)
Definition placed (p:pos) (m:move) : ptype :=
  match promo m with Some t => t | None => match at_ p (src m) with Some (t,_) => t | None => Pawn end end.

(** the successor placement of a move that is neither en passant nor castling *)
Theorem at_apply_simple p m x : length (placement p) = 64%nat -> src m < 64 -> dst m < 64 ->
  is_ep p m = false -> is_castle p m = false ->
  at_ (apply p m) x = if dst m =? x then Some (placed p m, turn p)
                      else if src m =? x then None else at_ p x.
Proof.
  intros Hl Hs Hd Hep Hca. unfold at_ at 1, apply. rewrite Hep, Hca. cbn [placement].
  rewrite gs_at_updN; [|unfold updN; rewrite gs_length_upd; exact Hl|exact Hd].
  rewrite gs_at_updN by assumption. reflexivity.
Qed.
Lemma turn_apply p m : turn (apply p m) = opp (turn p).
Proof. reflexivity. Qed.

(** ** unpacking [pos_valid] *)
Lemma pos_valid_unpack p : pos_valid p = true ->
  length (placement p) = 64%nat /\ kings p White = 1 /\ kings p Black = 1 /\ ep_ok p = true.
Proof.
  unfold pos_valid. intro H.
  apply andb_prop in H. destruct H as [H Hep]. split; [|split; [|split; [|exact Hep]]];
  do 10 (apply andb_prop in H; destruct H as [H _]).
  - apply andb_prop in H. destruct H as [H _]. apply andb_prop in H. destruct H as [H _].
    apply Nat.eqb_eq, H.
  - apply andb_prop in H. destruct H as [H _]. apply andb_prop in H. destruct H as [_ H].
    apply N.eqb_eq, H.
  - apply andb_prop in H. destruct H as [_ H]. apply N.eqb_eq, H.
Qed.
Lemma ep_ok_empty p e : ep_ok p = true -> ep p = Some e -> occ p e = false.
Proof.
  unfold ep_ok. intros H E. rewrite E in H.
  apply andb_prop in H. destruct H as [_ H].
  destruct (step e (0, - fwdc (turn p))%Z); [|discriminate H].
  destruct (step e (0, fwdc (turn p))%Z); [|discriminate H].
  repeat (apply andb_prop in H; destruct H as [H ?]).
  destruct (occ p e); [discriminate|reflexivity].
Qed.

(** ** destinations are on the board *)
Lemma steps_lt64 s ds d : s < 64 -> In d (steps s ds) -> d < 64.
Proof.
  intros Hs H. unfold steps in H. apply in_flat_map in H. destruct H as [dir [_ H]].
  destruct (step s dir) as [x|] eqn:E; [|destruct H]. destruct H as [<-|[]].
  apply (step_spec s x dir Hs) in E. tauto.
Qed.
Lemma slides_lt64 p s ds d : s < 64 -> In d (slides p s ds) -> d < 64.
Proof.
  intros Hs H. apply slides_in in H. destruct H as [dir [_ H]]. exact (ray_lt64 p dir 7 s d Hs H).
Qed.
Lemma attack_set_lt64 p s d : s < 64 -> In d (attack_set p s) -> d < 64.
Proof.
  intros Hs. unfold attack_set. destruct (at_ p s) as [[[] c]|]; try (apply steps_lt64, Hs);
    try (apply slides_lt64, Hs). intros [].
Qed.

Lemma occ_false_own p c d : occ p d = false -> own p c d = false.
Proof. unfold occ, own, colour_at. destruct (at_ p d) as [[t c']|]; [discriminate|reflexivity]. Qed.
Lemma enemy_not_own p c d : enemy p c d = true -> own p c d = false.
Proof.
  unfold enemy, own. destruct (colour_at p d) as [c'|]; [|discriminate].
  destruct (color_eqb c c'); [discriminate|reflexivity].
Qed.
Lemma fwd_in_king c : In (0, fwdc c)%Z king_dirs.
Proof. destruct c; cbn; tauto. Qed.
Lemma caps_in_king c dir : In dir (pawn_caps c) -> In dir king_dirs.
Proof. destruct c; cbn; intros [<-|[<-|[]]]; tauto. Qed.

Lemma pawn_to_shape c s d m : In m (pawn_to c s d) -> dst m = d /\ promo m <> Some King.
Proof.
  unfold pawn_to, promos. destruct (rank_of d =? last_rank c).
  - cbn [map In]. intros [<-|[<-|[<-|[<-|[]]]]]; cbn [dst promo]; split; try reflexivity; discriminate.
  - intros [<-|[]]. cbn. split; [reflexivity|discriminate].
Qed.

(** ** shape of a pawn move that is not en passant *)
Lemma pawn_shape p s m : s < 64 -> ep_ok p = true -> at_ p s = Some (Pawn, turn p) ->
  In m (pawn_moves p (turn p) s) -> src m = s -> is_ep p m = false ->
  dst m < 64 /\ own p (turn p) (dst m) = false
  /\ N.land (between s (dst m)) (occw p) = 0 /\ promo m <> Some King.
Proof.
  intros Hs Hepok Hat Hin Hsrc Hnep. set (c := turn p) in *.
  unfold pawn_moves in Hin. apply in_app_or in Hin. destruct Hin as [H|H].
  - destruct (step s (0, fwdc c)%Z) as [d1|] eqn:E1; [|destruct H].
    destruct (occ p d1) eqn:O1; [destruct H|].
    destruct (step_seg _ s d1 (fwd_in_king c) Hs E1) as [B1 B2].
    pose proof (proj1 (step_spec s d1 _ Hs) E1) as [Hd1 _].
    apply in_app_or in H. destruct H as [H|H].
    + apply pawn_to_shape in H. destruct H as [-> Hp].
      split; [exact Hd1|]. split; [apply occ_false_own, O1|]. split; [|exact Hp].
      rewrite B1. apply N.land_0_l.
    + destruct (rank_of s =? start_rank c); [|destruct H].
      destruct (step d1 (0, fwdc c)%Z) as [d2|] eqn:E2; [|destruct H].
      destruct (occ p d2) eqn:O2; [destruct H|]. destruct H as [<-|[]]. unfold mv. cbn [dst promo].
      pose proof (proj1 (step_spec d1 d2 _ Hd1) E2) as [Hd2 _].
      split; [exact Hd2|]. split; [apply occ_false_own, O2|]. split; [|discriminate].
      rewrite (B2 d2 eq_refl). apply bits_land0. intro i. rewrite TablesLib.testbit_bit.
      destruct (N.eqb_spec d1 i) as [<-|_]; [|reflexivity].
      rewrite <- (occw_spec p d1 Hd1), O1. reflexivity.
  - apply in_flat_map in H. destruct H as [d [Hd H]].
    pose proof (steps_lt64 s _ d Hs Hd) as Hd64.
    assert (B : between s d = 0).
    { unfold steps in Hd. apply in_flat_map in Hd. destruct Hd as [dir [Hdir Hd]].
      destruct (step s dir) as [x|] eqn:E; [|destruct Hd]. destruct Hd as [<-|[]].
      exact (proj1 (step_seg dir s x (caps_in_king c dir Hdir) Hs E)). }
    destruct (enemy p c d) eqn:En.
    + apply pawn_to_shape in H. destruct H as [-> Hp].
      split; [exact Hd64|]. split; [apply enemy_not_own, En|]. split; [|exact Hp].
      rewrite B. apply N.land_0_l.
    + exfalso. destruct (ep p) as [e|] eqn:Ee; [|destruct H].
      destruct (N.eqb_spec e d) as [->|_]; [|destruct H]. destruct H as [<-|[]].
      unfold is_ep, mv in Hnep. cbn [src dst] in Hnep. fold c in Hnep.
      unfold has in Hnep. rewrite Hat in Hnep.
      rewrite (ep_ok_empty p d Hepok Ee) in Hnep.
      assert (Hf : (file_of s =? file_of d) = false).
      { apply (diag_step_file s d (fwdc c) Hs); [destruct c; cbn; tauto|exact Hd]. }
      rewrite Hf in Hnep. destruct c; discriminate Hnep.
Qed.

(** ** shape of any pseudo-legal move of a man other than the king, not en passant *)
Theorem pseudo_shape p m :
  pos_valid p = true -> In m (pseudo p) -> piece_at_is p (src m) King = false -> is_ep p m = false ->
  exists t, src m < 64 /\ dst m < 64 /\ at_ p (src m) = Some (t, turn p) /\ t <> King
    /\ own p (turn p) (dst m) = false
    /\ N.land (between (src m) (dst m)) (occw p) = 0
    /\ placed p m <> King /\ is_castle p m = false.
Proof.
  intros Hv Hin Hnk Hnep. destruct (pos_valid_unpack p Hv) as [_ [_ [_ Hepok]]].
  unfold pseudo in Hin. apply in_flat_map in Hin. destruct Hin as [s [Hs Hin]].
  apply in_all_sq in Hs.
  destruct (pseudo_from_src p s m Hin) as [Hsrc [t Hat]]. rewrite Hsrc in *.
  assert (Htk : t <> King).
  { intros ->. unfold piece_at_is in Hnk. rewrite Hat in Hnk. discriminate Hnk. }
  assert (Hcast : is_castle p m = false).
  { unfold is_castle, has. rewrite Hsrc, Hat. destruct t; try reflexivity. contradiction. }
  exists t.
  assert (Main : dst m < 64 /\ own p (turn p) (dst m) = false
                 /\ N.land (between s (dst m)) (occw p) = 0
                 /\ (promo m = None \/ promo m <> Some King)).
  { unfold pseudo_from in Hin. rewrite Hat in Hin.
    assert (Hc : color_eqb (turn p) (turn p) = true) by (destruct (turn p); reflexivity).
    rewrite Hc in Hin.
    assert (Gen : In m (map (mv s) (filter (fun d => negb (own p (turn p) d)) (attack_set p s))) ->
                  dst m < 64 /\ own p (turn p) (dst m) = false
                  /\ N.land (between s (dst m)) (occw p) = 0
                  /\ (promo m = None \/ promo m <> Some King)).
    { intro H. apply in_map_iff in H. destruct H as [d [<- H]]. unfold mv. cbn [dst promo].
      apply filter_In in H. destruct H as [Hd Hown].
      pose proof (attack_set_lt64 p s d Hs Hd) as Hd64.
      split; [exact Hd64|]. split; [destruct (own p (turn p) d); [discriminate|reflexivity]|].
      split; [|left; reflexivity].
      assert (Ha : attacks p s d = true) by (unfold attacks; apply mem_in, Hd).
      rewrite (attacks_reach p s d Hs Hd64) in Ha. apply andb_prop in Ha.
      apply N.eqb_eq, (proj2 Ha). }
    destruct t; try (apply Gen, Hin); [|contradiction].
    destruct (pawn_shape p s m Hs Hepok Hat Hin Hsrc Hnep) as [H1 [H2 [H3 H4]]]. tauto. }
  destruct Main as [H1 [H2 [H3 H4]]].
  repeat (split; [assumption|]). split; [|exact Hcast].
  unfold placed. rewrite Hsrc, Hat. destruct H4 as [->|H4]; [exact Htk|].
  destruct (promo m) as [t'|]; [|exact Htk]. intros ->. apply H4. reflexivity.
Qed.

Example pseudo_shape_ex :
  pos_valid startpos = true /\ In (mv 12 28) (pseudo startpos) /\
  piece_at_is startpos 12 King = false /\ is_ep startpos (mv 12 28) = false /\
  N.land (between 12 28) (occw startpos) = 0 /\ at_ (apply startpos (mv 12 28)) 28 = Some (Pawn,White).
Proof. rewrite occw_eq. vm_compute. repeat split; try reflexivity. tauto. Qed.
