(** * Proofs.CorB17Valid — the mirror image of a valid position is valid
    ([pos_valid (mirror_v p) = true]; [pos_valid (mirror_h p) = true]), at specification level.
    One generic argument over the symmetry record of [Proofs/MirrorGeneric.v]: all counts
    (kings, men, pawns) are invariant, the back ranks are mapped onto the back ranks, "in check"
    is invariant, and every clause of the en-passant condition [ep_ok] is invariant — including
    the retraction test (with the pushed pawn put back the side to move was not in check). *)
From Coq Require Import Lia ZifyBool ZifyN ZifyNat Permutation.
From Chess Require Import Base.Bits Spec.Geometry Spec.Rules.
From Chess Require Import Proofs.MirrorLib Proofs.MirrorGeneric Proofs.MirrorV Proofs.MirrorH.
From Chess Require Proofs.RoundTripAbs Proofs.ApplySpecLib.
Open Scope N_scope.

Definition back_squares : list N := [0;1;2;3;4;5;6;7;56;57;58;59;60;61;62;63].

Lemma existsb_map' {A B} (f:B->bool) (g:A->B) l : existsb f (map g l) = existsb (fun x => f (g x)) l.
Proof. induction l as [|a l IH]; cbn [map existsb]; [reflexivity|]. rewrite IH. reflexivity. Qed.
Lemma existsb_ext' {A} (f g:A->bool) l : (forall x, f x = g x) -> existsb f l = existsb g l.
Proof. intro H. induction l as [|a l IH]; cbn [existsb]; [reflexivity|]. rewrite H, IH. reflexivity. Qed.

Lemma neg_fwdc c : (- fwdc c)%Z = fwdc (opp c).
Proof. destruct c; reflexivity. Qed.

Section Generic.
Variable S : sym.
Notation φ := (phi S).
Notation κ := (kap (sw S)).
Notation δ := (del S).
Variables p q : pos.
Hypothesis R : Rel S p q.
Hypothesis Hback : forall s, In s back_squares -> In (φ s) back_squares.
Hypothesis Hsixth : forall c s, s < 64 ->
  (rank_of (φ s) =? sixth_rank (κ c)) = (rank_of s =? sixth_rank c).

Lemma count_m (f g:N->bool) : (forall s, s < 64 -> g (φ s) = f s) -> count_if g = count_if f.
Proof.
  intro H. unfold count_if. f_equal.
  rewrite (Permutation_length (filter_phi_all_sq S f g H)). apply map_length.
Qed.

Lemma kings_m c : kings q (κ c) = kings p c.
Proof. apply count_m. intros s _. apply (has_m S p q R). Qed.
Lemma men_m c : men q (κ c) = men p c.
Proof. apply count_m. intros s _. apply (own_m S p q R). Qed.
Lemma pawns_m c : pawns q (κ c) = pawns p c.
Proof. apply count_m. intros s _. apply (has_m S p q R). Qed.

Lemma has_back s t c : has q s t c = has p (φ s) t (κ c).
Proof. rewrite <- (has_m S p q R), (phi_inv S), (kap_inv S). reflexivity. Qed.

Lemma step_neg_m t c : t < 64 ->
  step (φ t) (0, - fwdc (κ c))%Z = option_map φ (step t (0, - fwdc c)%Z).
Proof.
  intro Ht. rewrite !neg_fwdc, <- (kap_opp S), <- (del_fwd S). apply (phi_step S), Ht.
Qed.
Lemma step_fwd_m t c : t < 64 ->
  step (φ t) (0, fwdc (κ c))%Z = option_map φ (step t (0, fwdc c)%Z).
Proof. intro Ht. rewrite <- (del_fwd S). apply (phi_step S), Ht. Qed.

(** the retracted position of the en-passant test, and its image *)
Definition retract (r:pos) (ps og:N) (o:color) : pos :=
  {| placement := updN (updN (placement r) ps None) og (Some (Pawn,o));
     turn := o; wk := wk r; wq := wq r; bk := bk r; bq := bq r; ep := None |}.

Lemma at_retract r ps og o s : length (placement r) = 64%nat -> ps < 64 -> og < 64 ->
  at_ (retract r ps og o) s = if og =? s then Some (Pawn,o) else if ps =? s then None else at_ r s.
Proof.
  intros Hl Hp Ho. unfold at_, retract. cbn [placement].
  rewrite nth_updN by (rewrite ApplySpecLib.length_updN; lia).
  destruct (og =? s); [reflexivity|]. rewrite nth_updN by lia. reflexivity.
Qed.

Lemma Rel_retract ps og o : ps < 64 -> og < 64 ->
  Rel S (retract p ps og o) (retract q (φ ps) (φ og) (κ o)).
Proof.
  intros Hp Ho. pose proof (r_lp _ _ _ R) as Hlp. pose proof (r_lq _ _ _ R) as Hlq.
  constructor.
  - unfold retract. cbn [placement]. rewrite !ApplySpecLib.length_updN. exact Hlp.
  - unfold retract. cbn [placement]. rewrite !ApplySpecLib.length_updN. exact Hlq.
  - intro s. rewrite (at_retract q _ _ _ _ Hlq (phi_lt S _ Hp) (phi_lt S _ Ho)).
    rewrite (at_retract p _ _ _ _ Hlp Hp Ho). rewrite !(phi_eqb S).
    destruct (og =? s); [reflexivity|]. destruct (ps =? s); [reflexivity|]. apply (r_at _ _ _ R).
  - reflexivity.
  - reflexivity.
Qed.

Lemma uniq_retract ps og o : ps < 64 -> og < 64 -> uniq_king p -> uniq_king (retract p ps og o).
Proof.
  intros Hp Ho U c s t Hs Ht. pose proof (r_lp _ _ _ R) as Hlp.
  assert (K : forall x, has (retract p ps og o) x King c = true -> has p x King c = true).
  { intros x Hx. unfold has in *. rewrite (at_retract p _ _ _ _ Hlp Hp Ho) in Hx.
    destruct (og =? x); [discriminate Hx|]. destruct (ps =? x); [discriminate Hx|]. exact Hx. }
  exact (U c s t (K s Hs) (K t Ht)).
Qed.

Lemma ep_ok_m : uniq_king p -> ep_ok p = true -> ep_ok q = true.
Proof.
  intros U H. unfold ep_ok in *. rewrite (r_ep _ _ _ R), (r_turn _ _ _ R).
  destruct (ep p) as [t|]; cbn [option_map]; [|reflexivity]. cbv zeta in *.
  apply andb_prop in H as [H Hm]. apply andb_prop in H as [Ht Hr]. apply N.ltb_lt in Ht.
  rewrite (proj2 (N.ltb_lt _ _) (phi_lt S t Ht)), (Hsixth _ t Ht), Hr. cbn [andb].
  rewrite (step_neg_m t _ Ht), (step_fwd_m t _ Ht).
  destruct (step t (0, - fwdc (turn p))%Z) as [ps|] eqn:Eps; [|discriminate Hm].
  destruct (step t (0, fwdc (turn p))%Z) as [og|] eqn:Eog; [|discriminate Hm].
  cbn [option_map].
  pose proof (step_lt _ _ _ Eps) as Hps. pose proof (step_lt _ _ _ Eog) as Hog.
  apply andb_prop in Hm as [Hm Hchk]. apply andb_prop in Hm as [Hm Hex].
  apply andb_prop in Hm as [Hm Ho2]. apply andb_prop in Hm as [Hpawn Ho1].
  rewrite <- (kap_opp S).
  rewrite (has_m S p q R), Hpawn, (occ_m S p q R), Ho1, (occ_m S p q R), Ho2. cbn [andb].
  apply andb_true_intro. split.
  - rewrite <- Hex.
    change (existsb (fun d => match step (φ ps) d with
                              | Some x => has q x Pawn (κ (turn p)) | None => false end) side_dirs
            = existsb (fun d => match step ps d with
                              | Some x => has p x Pawn (turn p) | None => false end) side_dirs).
    rewrite <- (existsb_perm _ _ _ (del_side S)). rewrite existsb_map'.
    apply existsb_ext'. intros d.
    exact (side_pawn_m S p q R (turn p) ps d Hps).
  - fold (retract q (φ ps) (φ og) (κ (opp (turn p)))). fold (retract p ps og (opp (turn p))) in Hchk.
    rewrite (in_check_m S _ _ (Rel_retract ps og (opp (turn p)) Hps Hog) (turn p)
               (uniq_retract ps og (opp (turn p)) Hps Hog U)).
    exact Hchk.
Qed.

(** the castling clauses are supplied by the instance *)
Hypothesis Hcastle :
  implb (wk q) (has q 4 King White && has q 7 Rook White) = true /\
  implb (wq q) (has q 4 King White && has q 0 Rook White) = true /\
  implb (bk q) (has q 60 King Black && has q 63 Rook Black) = true /\
  implb (bq q) (has q 60 King Black && has q 56 Rook Black) = true.

Theorem pos_valid_m : pos_valid p = true -> pos_valid q = true.
Proof.
  intro Hv. pose proof (WFpos_uniq p (pos_valid_WF p Hv)) as U.
  unfold pos_valid in Hv. rewrite !andb_true_iff in Hv.
  destruct Hv as [[[[[[[[[[[[[H1 H2] H3] H4] H5] H6] H7] H8] H9] _] _] _] _] H14].
  apply N.eqb_eq in H2, H3. apply N.leb_le in H4, H5, H6, H7.
  assert (K : forall c, kings p c = 1) by (intros []; assumption).
  assert (Mn : forall c, men p c <= 16) by (intros []; assumption).
  assert (Pw : forall c, pawns p c <= 8) by (intros []; assumption).
  assert (Kq : forall c, kings q c = 1) by (intro c; rewrite <- (kap_inv S c), kings_m; apply K).
  assert (Mq : forall c, men q c <= 16) by (intro c; rewrite <- (kap_inv S c), men_m; apply Mn).
  assert (Pq : forall c, pawns q c <= 8) by (intro c; rewrite <- (kap_inv S c), pawns_m; apply Pw).
  destruct Hcastle as [C1 [C2 [C3 C4]]].
  unfold pos_valid. rewrite !andb_true_iff. repeat split.
  - rewrite (r_lq _ _ _ R). reflexivity.
  - apply N.eqb_eq, Kq.
  - apply N.eqb_eq, Kq.
  - apply N.leb_le, Mq.
  - apply N.leb_le, Mq.
  - apply N.leb_le, Pq.
  - apply N.leb_le, Pq.
  - apply forallb_forall. intros s Hs. rewrite !has_back.
    rewrite forallb_forall in H8. pose proof (H8 (φ s) (Hback s Hs)) as Hb.
    apply negb_true_iff, orb_false_elim in Hb. destruct Hb as [Hb1 Hb2].
    assert (E : forall c, has p (φ s) Pawn c = false) by (intros []; assumption).
    rewrite !E. reflexivity.
  - rewrite (r_turn _ _ _ R), <- (kap_opp S), (in_check_m S p q R _ U). exact H9.
  - exact C1.
  - exact C2.
  - exact C3.
  - exact C4.
  - exact (ep_ok_m U H14).
Qed.
End Generic.

(** ** the top-bottom mirror *)
Lemma back_v_sweep : forallb (fun s => existsb (N.eqb (flip_rank_sq s)) back_squares) back_squares = true.
Proof. vm_compute. reflexivity. Qed.
Lemma back_h_sweep : forallb (fun s => existsb (N.eqb (flip_file_sq s)) back_squares) back_squares = true.
Proof. vm_compute. reflexivity. Qed.
Lemma back_of_sweep (f:N->N) :
  forallb (fun s => existsb (N.eqb (f s)) back_squares) back_squares = true ->
  forall s, In s back_squares -> In (f s) back_squares.
Proof.
  intros H s Hs. rewrite forallb_forall in H. specialize (H s Hs).
  apply existsb_exists in H as [x [Hx E]]. apply N.eqb_eq in E. rewrite E. exact Hx.
Qed.

Theorem pos_valid_mirror_v p : pos_valid p = true -> pos_valid (mirror_v p) = true.
Proof.
  intro Hv. pose proof (pos_valid_WF p Hv) as W. destruct W as [Hl _].
  apply (pos_valid_m sym_v p (mirror_v p) (Rel_v p Hl)); [| | |exact Hv].
  - exact (back_of_sweep _ back_v_sweep).
  - intros c s Hs. cbn [phi sw sym_v]. rewrite (flip_rank_rank_of s Hs).
    destruct (rank_file_lt s Hs) as [Hr _]. destruct c; cbn [kap opp sixth_rank]; lia.
  - destruct (RoundTripAbs.pos_valid_unpack p Hv) as (_ & _ & _ & _ & _ & _ & A1 & A2 & A3 & A4 & _).
    pose proof (Rel_v p Hl) as R.
    assert (Hh : forall s t c, has (mirror_v p) (flip_rank_sq s) t (opp c) = has p s t c)
      by (intros s t c; exact (has_m sym_v p (mirror_v p) R s t c)).
    cbn [mirror_v wk wq bk bq].
    change 4 with (flip_rank_sq 60). change 7 with (flip_rank_sq 63) at 1.
    change 0 with (flip_rank_sq 56) at 1.
    change 60 with (flip_rank_sq 4) at 3 4. change 63 with (flip_rank_sq 7) at 2.
    change 56 with (flip_rank_sq 0) at 2.
    change White with (opp Black) at 1 2 3 4. change Black with (opp White) at 5 6 7 8.
    rewrite !Hh.
    repeat split.
    + destruct (bk p); [|reflexivity]. destruct (A3 eq_refl) as [-> ->]. reflexivity.
    + destruct (bq p); [|reflexivity]. destruct (A4 eq_refl) as [-> ->]. reflexivity.
    + destruct (wk p); [|reflexivity]. destruct (A1 eq_refl) as [-> ->]. reflexivity.
    + destruct (wq p); [|reflexivity]. destruct (A2 eq_refl) as [-> ->]. reflexivity.
Qed.

(** ** the left-right mirror (it drops all castling rights, so no premise on them) *)
Theorem pos_valid_mirror_h p : pos_valid p = true -> pos_valid (mirror_h p) = true.
Proof.
  intro Hv. pose proof (pos_valid_WF p Hv) as W. destruct W as [Hl _].
  apply (pos_valid_m sym_h p (mirror_h p) (Rel_h p Hl)); [| | |exact Hv].
  - exact (back_of_sweep _ back_h_sweep).
  - intros c s Hs. cbn [phi sw sym_h kap]. rewrite (flip_file_rank_of s Hs). reflexivity.
  - cbn [mirror_h wk wq bk bq implb]. repeat split.
Qed.

(** ** Examples *)
Example pos_valid_mirror_ex :
  pos_valid RoundTripAbs.eppos = true /\ ep RoundTripAbs.eppos = Some 43
  /\ pos_valid (mirror_v RoundTripAbs.eppos) = true /\ ep (mirror_v RoundTripAbs.eppos) = Some 19
  /\ pos_valid (mirror_h RoundTripAbs.eppos) = true /\ ep (mirror_h RoundTripAbs.eppos) = Some 44.
Proof. repeat split; vm_compute; reflexivity. Qed.
