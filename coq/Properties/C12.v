(** * C12 — SAN parsing ([ChessMove::from_san]): safety for every board and every text,
    the exact behaviour of the candidate loop, the scanner on the documented text shape,
    castling texts, the model-level round trip / rejection theorems, and the round trip
    against the specification's spellings under the explicit link facts [san_link]. *)
From Coq Require Import Permutation.
From Chess Require Import Model.San Spec.Text Proofs.SanFilter Proofs.SanScan Proofs.SanShape
  Proofs.SanSpecShape Proofs.SanRoundtrip Proofs.SanLink Proofs.SanLinkCheck.
Open Scope N_scope.

(** ** Safety: all boards, all texts (non-ASCII included) *)
Theorem C12_square_no_panic : forall x, square_from_str x <> Panic.
Proof. exact square_from_str_no_panic. Qed.
Theorem C12_no_panic : forall b s, from_san b s <> Panic.
Proof. exact from_san_no_panic. Qed.
Theorem C12_legal : forall b s m, from_san b s = Ok m -> In m (moves_of b).
Proof. exact from_san_legal. Qed.

Theorem C12_castle_is_king : forall b s m,
  is_castle_text s = true -> from_san b s = Ok m -> piece_on b (msrc m) = Some King.
Proof. exact from_san_castle_is_king. Qed.

Check C12_square_no_panic : forall x : str, square_from_str x <> Panic.
Print Assumptions C12_square_no_panic.
Check C12_no_panic : forall (b : board) (s : str), from_san b s <> Panic.
Print Assumptions C12_no_panic.
Check C12_legal : forall (b : board) (s : str) (m : cmove), from_san b s = Ok m -> In m (moves_of b).
Print Assumptions C12_legal.
Check C12_castle_is_king : forall (b : board) (s : str) (m : cmove),
  is_castle_text s = true -> from_san b s = Ok m -> piece_on b (msrc m) = Some King.
Print Assumptions C12_castle_is_king.

(** ** Structure: castling test, else scanner, then filter *)
Theorem C12_from_san_scan : forall b s,
  from_san b s =
  if is_castle_text s
  then (if piece_opt_eqb (piece_on b (msrc (castle_move b s))) King
           && existsb (cmove_eqb (castle_move b s)) (moves_of b)
        then Ok (castle_move b s) else Err)
  else run_fields b (scan s).
Proof. exact from_san_scan. Qed.
Theorem C12_castle_texts : forall s, is_castle_text s = true <-> In s castle_texts.
Proof. exact is_castle_text_iff. Qed.
Theorem C12_castle_kingside : forall b mk, In mk marks ->
  from_san b (O_O ++ mk) =
  if piece_opt_eqb (piece_on b (msrc (castle_km b true))) King && legal b (castle_km b true)
  then Ok (castle_km b true) else Err.
Proof. exact from_san_castle_kingside. Qed.
Theorem C12_castle_queenside : forall b mk, In mk marks ->
  from_san b (O_O_O ++ mk) =
  if piece_opt_eqb (piece_on b (msrc (castle_km b false))) King && legal b (castle_km b false)
  then Ok (castle_km b false) else Err.
Proof. exact from_san_castle_queenside. Qed.
Theorem C12_castle_squares : forall b kingside,
  castle_km b kingside =
  match stm b, kingside with
  | White, true => {| msrc := 4; mdst := 6; mpromo := None |}
  | White, false => {| msrc := 4; mdst := 2; mpromo := None |}
  | Black, true => {| msrc := 60; mdst := 62; mpromo := None |}
  | Black, false => {| msrc := 60; mdst := 58; mpromo := None |} end.
Proof. exact castle_km_squares. Qed.

Check C12_from_san_scan : forall (b : board) (s : str),
  from_san b s =
  (if is_castle_text s
   then if piece_opt_eqb (piece_on b (msrc (castle_move b s))) King
           && existsb (cmove_eqb (castle_move b s)) (moves_of b)
        then Ok (castle_move b s) else Err
   else run_fields b (scan s)).
Print Assumptions C12_from_san_scan.
Check C12_castle_texts : forall s : str, is_castle_text s = true <-> In s castle_texts.
Print Assumptions C12_castle_texts.
Check C12_castle_kingside : forall (b : board) (mk : str), In mk marks ->
  from_san b (O_O ++ mk) =
  (if piece_opt_eqb (piece_on b (msrc (castle_km b true))) King && legal b (castle_km b true)
   then Ok (castle_km b true) else Err).
Print Assumptions C12_castle_kingside.
Check C12_castle_queenside : forall (b : board) (mk : str), In mk marks ->
  from_san b (O_O_O ++ mk) =
  (if piece_opt_eqb (piece_on b (msrc (castle_km b false))) King && legal b (castle_km b false)
   then Ok (castle_km b false) else Err).
Print Assumptions C12_castle_queenside.
Check C12_castle_squares : forall b kingside,
  castle_km b kingside =
  match stm b, kingside with
  | White, true => {| msrc := 4; mdst := 6; mpromo := None |}
  | White, false => {| msrc := 4; mdst := 2; mpromo := None |}
  | Black, true => {| msrc := 60; mdst := 62; mpromo := None |}
  | Black, false => {| msrc := 60; mdst := 58; mpromo := None |} end.
Print Assumptions C12_castle_squares.

(** ** The candidate loop, exactly (any board, any fields, any move list) *)
Theorem C12_filter_exact : forall b moving srank sfile dest promotion takes ep ms,
  san_filter b moving srank sfile dest promotion takes ep ms None =
  match drop_until (cap_ok b moving takes ep) (filter (san_pred b moving srank sfile dest promotion) ms) with
  | [m] => Ok m | _ => Err end.
Proof. exact san_filter_exact. Qed.
Theorem C12_filter_unique : forall b moving srank sfile dest promotion takes ep ms m,
  NoDup ms ->
  (forall x, In x ms -> san_pred b moving srank sfile dest promotion x = true -> x = m) ->
  In m ms -> san_pred b moving srank sfile dest promotion m = true ->
  san_filter b moving srank sfile dest promotion takes ep ms None =
  if cap_ok b moving takes ep m then Ok m else Err.
Proof. exact san_filter_unique. Qed.
Theorem C12_filter_none : forall b moving srank sfile dest promotion takes ep ms,
  (forall x, In x ms -> san_pred b moving srank sfile dest promotion x = false) ->
  san_filter b moving srank sfile dest promotion takes ep ms None = Err.
Proof. exact san_filter_none. Qed.
Theorem C12_filter_ambiguous : forall b moving srank sfile dest promotion takes ep ms x y,
  In x ms -> In y ms -> x <> y ->
  san_pred b moving srank sfile dest promotion x = true ->
  san_pred b moving srank sfile dest promotion y = true ->
  cap_ok b moving takes ep x = true -> cap_ok b moving takes ep y = true ->
  san_filter b moving srank sfile dest promotion takes ep ms None = Err.
Proof. exact san_filter_ambiguous. Qed.
Theorem C12_filter_nonpawn : forall b moving srank sfile dest promotion takes ep ms,
  moving <> Pawn ->
  san_filter b moving srank sfile dest promotion takes ep ms None =
  match filter (san_pred b moving srank sfile dest promotion) ms with
  | [m] => if cap_ok b moving takes ep m then Ok m else Err
  | _ => Err end.
Proof. exact san_filter_nonpawn. Qed.
Theorem C12_filter_determined : forall b moving srank sfile dest promotion takes ep ms,
  moving <> Pawn \/ sfile <> None ->
  san_filter b moving srank sfile dest promotion takes ep ms None =
  match filter (san_pred b moving srank sfile dest promotion) ms with
  | [m] => if cap_ok b moving takes ep m then Ok m else Err
  | _ => Err end.
Proof. exact san_filter_determined. Qed.
Theorem C12_cap_ok_char : forall b moving takes ep m,
  cap_ok b moving takes ep m = if takes then ep || is_cap b moving m else negb (is_cap b moving m).
Proof. exact cap_ok_char. Qed.

Check C12_filter_exact : forall (b : board) (moving : ptype) (srank sfile : option N) (dest : N)
    (promotion : option ptype) (takes ep : bool) (ms : list cmove),
  san_filter b moving srank sfile dest promotion takes ep ms None =
  match drop_until (cap_ok b moving takes ep) (filter (san_pred b moving srank sfile dest promotion) ms) with
  | [m] => Ok m | _ => Err end.
Print Assumptions C12_filter_exact.
Check C12_filter_unique : forall (b : board) (moving : ptype) (srank sfile : option N) (dest : N)
    (promotion : option ptype) (takes ep : bool) (ms : list cmove) (m : cmove),
  NoDup ms ->
  (forall x : cmove, In x ms -> san_pred b moving srank sfile dest promotion x = true -> x = m) ->
  In m ms -> san_pred b moving srank sfile dest promotion m = true ->
  san_filter b moving srank sfile dest promotion takes ep ms None =
  (if cap_ok b moving takes ep m then Ok m else Err).
Print Assumptions C12_filter_unique.
Check C12_filter_none : forall (b : board) (moving : ptype) (srank sfile : option N) (dest : N)
    (promotion : option ptype) (takes ep : bool) (ms : list cmove),
  (forall x : cmove, In x ms -> san_pred b moving srank sfile dest promotion x = false) ->
  san_filter b moving srank sfile dest promotion takes ep ms None = Err.
Print Assumptions C12_filter_none.
Check C12_filter_ambiguous : forall (b : board) (moving : ptype) (srank sfile : option N) (dest : N)
    (promotion : option ptype) (takes ep : bool) (ms : list cmove) (x y : cmove),
  In x ms -> In y ms -> x <> y ->
  san_pred b moving srank sfile dest promotion x = true ->
  san_pred b moving srank sfile dest promotion y = true ->
  cap_ok b moving takes ep x = true -> cap_ok b moving takes ep y = true ->
  san_filter b moving srank sfile dest promotion takes ep ms None = Err.
Print Assumptions C12_filter_ambiguous.
Check C12_filter_nonpawn : forall (b : board) (moving : ptype) (srank sfile : option N) (dest : N)
    (promotion : option ptype) (takes ep : bool) (ms : list cmove),
  moving <> Pawn ->
  san_filter b moving srank sfile dest promotion takes ep ms None =
  match filter (san_pred b moving srank sfile dest promotion) ms with
  | [m] => if cap_ok b moving takes ep m then Ok m else Err
  | _ => Err end.
Print Assumptions C12_filter_nonpawn.
Check C12_filter_determined : forall (b : board) (moving : ptype) (srank sfile : option N) (dest : N)
    (promotion : option ptype) (takes ep : bool) (ms : list cmove),
  moving <> Pawn \/ sfile <> None ->
  san_filter b moving srank sfile dest promotion takes ep ms None =
  match filter (san_pred b moving srank sfile dest promotion) ms with
  | [m] => if cap_ok b moving takes ep m then Ok m else Err
  | _ => Err end.
Print Assumptions C12_filter_determined.
Check C12_cap_ok_char : forall (b : board) (moving : ptype) (takes ep : bool) (m : cmove),
  cap_ok b moving takes ep m = (if takes then ep || is_cap b moving m else negb (is_cap b moving m)).
Print Assumptions C12_cap_ok_char.

(** ** The scanner on the documented shape (finite sweep over 1 866 240 texts) *)
Theorem C12_scan_shape : forall t sf sr cap f r pr mk e,
  opt_lt8 sf -> opt_lt8 sr -> f < 8 -> r < 8 -> promo_ok pr -> In mk marks ->
  scan (san_text t sf sr cap f r pr mk e) = Some (t, sf, sr, cap, mk_sq r f, pr, e).
Proof. exact scan_shape. Qed.
Theorem C12_shape_not_castle : forall t sf sr cap f r pr mk e,
  opt_lt8 sf -> opt_lt8 sr -> f < 8 -> r < 8 -> promo_ok pr -> In mk marks ->
  is_castle_text (san_text t sf sr cap f r pr mk e) = false.
Proof. exact shape_not_castle. Qed.
Theorem C12_shape_exact : forall b t sf sr cap f r pr mk e,
  opt_lt8 sf -> opt_lt8 sr -> f < 8 -> r < 8 -> promo_ok pr -> In mk marks ->
  from_san b (san_text t sf sr cap f r pr mk e) =
  match drop_until (cap_ok b t cap e) (filter (san_pred b t sr sf (mk_sq r f) pr) (moves_of b)) with
  | [m] => Ok m | _ => Err end.
Proof. exact from_san_shape_exact. Qed.

Check C12_scan_shape : forall (t : ptype) (sf sr : option N) (cap : bool) (f r : N) (pr : option ptype)
    (mk : str) (e : bool),
  opt_lt8 sf -> opt_lt8 sr -> f < 8 -> r < 8 -> promo_ok pr -> In mk marks ->
  scan (san_text t sf sr cap f r pr mk e) = Some (t, sf, sr, cap, mk_sq r f, pr, e).
Print Assumptions C12_scan_shape.
Check C12_shape_not_castle : forall (t : ptype) (sf sr : option N) (cap : bool) (f r : N) (pr : option ptype)
    (mk : str) (e : bool),
  opt_lt8 sf -> opt_lt8 sr -> f < 8 -> r < 8 -> promo_ok pr -> In mk marks ->
  is_castle_text (san_text t sf sr cap f r pr mk e) = false.
Print Assumptions C12_shape_not_castle.
Check C12_shape_exact : forall (b : board) (t : ptype) (sf sr : option N) (cap : bool) (f r : N)
    (pr : option ptype) (mk : str) (e : bool),
  opt_lt8 sf -> opt_lt8 sr -> f < 8 -> r < 8 -> promo_ok pr -> In mk marks ->
  from_san b (san_text t sf sr cap f r pr mk e) =
  match drop_until (cap_ok b t cap e) (filter (san_pred b t sr sf (mk_sq r f) pr) (moves_of b)) with
  | [m] => Ok m | _ => Err end.
Print Assumptions C12_shape_exact.

(** ** Round trip and rejection over the generated move list *)
Theorem C12_roundtrip_model : forall b t sf sr cap f r pr mk e,
  opt_lt8 sf -> opt_lt8 sr -> f < 8 -> r < 8 -> promo_ok pr -> In mk marks ->
  forall m, filter (san_pred b t sr sf (mk_sq r f) pr) (moves_of b) = [m] -> cap_ok b t cap e m = true ->
  from_san b (san_text t sf sr cap f r pr mk e) = Ok m.
Proof. exact san_roundtrip_model. Qed.
Theorem C12_roundtrip_model_nodup : forall b t sf sr cap f r pr mk e,
  opt_lt8 sf -> opt_lt8 sr -> f < 8 -> r < 8 -> promo_ok pr -> In mk marks ->
  forall m, NoDup (moves_of b) -> In m (moves_of b) -> san_pred b t sr sf (mk_sq r f) pr m = true ->
  (forall x, In x (moves_of b) -> san_pred b t sr sf (mk_sq r f) pr x = true -> x = m) ->
  cap_ok b t cap e m = true ->
  from_san b (san_text t sf sr cap f r pr mk e) = Ok m.
Proof. exact san_roundtrip_model_nodup. Qed.
Theorem C12_reject_none : forall b t sf sr cap f r pr mk e,
  opt_lt8 sf -> opt_lt8 sr -> f < 8 -> r < 8 -> promo_ok pr -> In mk marks ->
  (forall x, In x (moves_of b) -> san_pred b t sr sf (mk_sq r f) pr x = false) ->
  from_san b (san_text t sf sr cap f r pr mk e) = Err.
Proof. exact san_reject_model_none. Qed.
Theorem C12_reject_capture : forall b t sf sr cap f r pr mk e,
  opt_lt8 sf -> opt_lt8 sr -> f < 8 -> r < 8 -> promo_ok pr -> In mk marks ->
  forall m, filter (san_pred b t sr sf (mk_sq r f) pr) (moves_of b) = [m] -> cap_ok b t cap e m = false ->
  from_san b (san_text t sf sr cap f r pr mk e) = Err.
Proof. exact san_reject_model_capture. Qed.
Theorem C12_reject_two : forall b t sf sr cap f r pr mk e,
  opt_lt8 sf -> opt_lt8 sr -> f < 8 -> r < 8 -> promo_ok pr -> In mk marks ->
  forall x y, In x (moves_of b) -> In y (moves_of b) -> x <> y ->
  san_pred b t sr sf (mk_sq r f) pr x = true -> san_pred b t sr sf (mk_sq r f) pr y = true ->
  cap_ok b t cap e x = true -> cap_ok b t cap e y = true ->
  from_san b (san_text t sf sr cap f r pr mk e) = Err.
Proof. exact san_reject_model_two. Qed.
Theorem C12_reject_ambiguous : forall b t sf sr cap f r pr mk e,
  opt_lt8 sf -> opt_lt8 sr -> f < 8 -> r < 8 -> promo_ok pr -> In mk marks ->
  forall x y rest, t <> Pawn \/ sf <> None ->
  filter (san_pred b t sr sf (mk_sq r f) pr) (moves_of b) = x :: y :: rest ->
  from_san b (san_text t sf sr cap f r pr mk e) = Err.
Proof. exact san_reject_model_ambiguous. Qed.
Theorem C12_determined_iff : forall b t sf sr cap f r pr mk e,
  opt_lt8 sf -> opt_lt8 sr -> f < 8 -> r < 8 -> promo_ok pr -> In mk marks ->
  forall m, t <> Pawn \/ sf <> None ->
  (from_san b (san_text t sf sr cap f r pr mk e) = Ok m <->
   filter (san_pred b t sr sf (mk_sq r f) pr) (moves_of b) = [m] /\ cap_ok b t cap e m = true).
Proof. exact san_model_determined_iff. Qed.
Theorem C12_ok_inv : forall b t sf sr cap f r pr mk e,
  opt_lt8 sf -> opt_lt8 sr -> f < 8 -> r < 8 -> promo_ok pr -> In mk marks ->
  forall m, from_san b (san_text t sf sr cap f r pr mk e) = Ok m ->
  In m (moves_of b) /\ san_pred b t sr sf (mk_sq r f) pr m = true
  /\ (if cap then e || is_cap b t m else negb (is_cap b t m)) = true.
Proof. exact san_model_ok_inv. Qed.
Theorem C12_roundtrip_marker : forall b t sf sr cap f r pr mk m,
  opt_lt8 sf -> opt_lt8 sr -> f < 8 -> r < 8 -> promo_ok pr -> In mk marks ->
  filter (san_pred b t sr sf (mk_sq r f) pr) (moves_of b) = [m] -> cap = is_cap b t m ->
  from_san b (san_text t sf sr cap f r pr mk false) = Ok m.
Proof. exact san_roundtrip_model_marker. Qed.
Theorem C12_reject_marker : forall b t sf sr cap f r pr mk m,
  opt_lt8 sf -> opt_lt8 sr -> f < 8 -> r < 8 -> promo_ok pr -> In mk marks ->
  filter (san_pred b t sr sf (mk_sq r f) pr) (moves_of b) = [m] -> cap <> is_cap b t m ->
  from_san b (san_text t sf sr cap f r pr mk false) = Err.
Proof. exact san_reject_model_marker. Qed.

Check C12_roundtrip_model : forall (b : board) (t : ptype) (sf sr : option N) (cap : bool) (f r : N)
    (pr : option ptype) (mk : str) (e : bool),
  opt_lt8 sf -> opt_lt8 sr -> f < 8 -> r < 8 -> promo_ok pr -> In mk marks ->
  forall m : cmove,
  filter (san_pred b t sr sf (mk_sq r f) pr) (moves_of b) = [m] -> cap_ok b t cap e m = true ->
  from_san b (san_text t sf sr cap f r pr mk e) = Ok m.
Print Assumptions C12_roundtrip_model.
Check C12_roundtrip_model_nodup : forall (b : board) (t : ptype) (sf sr : option N) (cap : bool) (f r : N)
    (pr : option ptype) (mk : str) (e : bool),
  opt_lt8 sf -> opt_lt8 sr -> f < 8 -> r < 8 -> promo_ok pr -> In mk marks ->
  forall m : cmove,
  NoDup (moves_of b) -> In m (moves_of b) -> san_pred b t sr sf (mk_sq r f) pr m = true ->
  (forall x : cmove, In x (moves_of b) -> san_pred b t sr sf (mk_sq r f) pr x = true -> x = m) ->
  cap_ok b t cap e m = true ->
  from_san b (san_text t sf sr cap f r pr mk e) = Ok m.
Print Assumptions C12_roundtrip_model_nodup.
Check C12_reject_none : forall (b : board) (t : ptype) (sf sr : option N) (cap : bool) (f r : N)
    (pr : option ptype) (mk : str) (e : bool),
  opt_lt8 sf -> opt_lt8 sr -> f < 8 -> r < 8 -> promo_ok pr -> In mk marks ->
  (forall x : cmove, In x (moves_of b) -> san_pred b t sr sf (mk_sq r f) pr x = false) ->
  from_san b (san_text t sf sr cap f r pr mk e) = Err.
Print Assumptions C12_reject_none.
Check C12_reject_capture : forall (b : board) (t : ptype) (sf sr : option N) (cap : bool) (f r : N)
    (pr : option ptype) (mk : str) (e : bool),
  opt_lt8 sf -> opt_lt8 sr -> f < 8 -> r < 8 -> promo_ok pr -> In mk marks ->
  forall m : cmove,
  filter (san_pred b t sr sf (mk_sq r f) pr) (moves_of b) = [m] -> cap_ok b t cap e m = false ->
  from_san b (san_text t sf sr cap f r pr mk e) = Err.
Print Assumptions C12_reject_capture.
Check C12_reject_two : forall (b : board) (t : ptype) (sf sr : option N) (cap : bool) (f r : N)
    (pr : option ptype) (mk : str) (e : bool),
  opt_lt8 sf -> opt_lt8 sr -> f < 8 -> r < 8 -> promo_ok pr -> In mk marks ->
  forall x y : cmove, In x (moves_of b) -> In y (moves_of b) -> x <> y ->
  san_pred b t sr sf (mk_sq r f) pr x = true -> san_pred b t sr sf (mk_sq r f) pr y = true ->
  cap_ok b t cap e x = true -> cap_ok b t cap e y = true ->
  from_san b (san_text t sf sr cap f r pr mk e) = Err.
Print Assumptions C12_reject_two.
Check C12_reject_ambiguous : forall (b : board) (t : ptype) (sf sr : option N) (cap : bool) (f r : N)
    (pr : option ptype) (mk : str) (e : bool),
  opt_lt8 sf -> opt_lt8 sr -> f < 8 -> r < 8 -> promo_ok pr -> In mk marks ->
  forall (x y : cmove) (rest : list cmove), t <> Pawn \/ sf <> None ->
  filter (san_pred b t sr sf (mk_sq r f) pr) (moves_of b) = x :: y :: rest ->
  from_san b (san_text t sf sr cap f r pr mk e) = Err.
Print Assumptions C12_reject_ambiguous.
Check C12_determined_iff : forall (b : board) (t : ptype) (sf sr : option N) (cap : bool) (f r : N)
    (pr : option ptype) (mk : str) (e : bool),
  opt_lt8 sf -> opt_lt8 sr -> f < 8 -> r < 8 -> promo_ok pr -> In mk marks ->
  forall m : cmove, t <> Pawn \/ sf <> None ->
  from_san b (san_text t sf sr cap f r pr mk e) = Ok m <->
  filter (san_pred b t sr sf (mk_sq r f) pr) (moves_of b) = [m] /\ cap_ok b t cap e m = true.
Print Assumptions C12_determined_iff.
Check C12_ok_inv : forall (b : board) (t : ptype) (sf sr : option N) (cap : bool) (f r : N)
    (pr : option ptype) (mk : str) (e : bool),
  opt_lt8 sf -> opt_lt8 sr -> f < 8 -> r < 8 -> promo_ok pr -> In mk marks ->
  forall m : cmove, from_san b (san_text t sf sr cap f r pr mk e) = Ok m ->
  In m (moves_of b) /\ san_pred b t sr sf (mk_sq r f) pr m = true
  /\ (if cap then e || is_cap b t m else negb (is_cap b t m)) = true.
Print Assumptions C12_ok_inv.
Check C12_roundtrip_marker : forall (b : board) (t : ptype) (sf sr : option N) (cap : bool) (f r : N)
    (pr : option ptype) (mk : str) (m : cmove),
  opt_lt8 sf -> opt_lt8 sr -> f < 8 -> r < 8 -> promo_ok pr -> In mk marks ->
  filter (san_pred b t sr sf (mk_sq r f) pr) (moves_of b) = [m] -> cap = is_cap b t m ->
  from_san b (san_text t sf sr cap f r pr mk false) = Ok m.
Print Assumptions C12_roundtrip_marker.
Check C12_reject_marker : forall (b : board) (t : ptype) (sf sr : option N) (cap : bool) (f r : N)
    (pr : option ptype) (mk : str) (m : cmove),
  opt_lt8 sf -> opt_lt8 sr -> f < 8 -> r < 8 -> promo_ok pr -> In mk marks ->
  filter (san_pred b t sr sf (mk_sq r f) pr) (moves_of b) = [m] -> cap <> is_cap b t m ->
  from_san b (san_text t sf sr cap f r pr mk false) = Err.
Print Assumptions C12_reject_marker.

(** ** Against the specification's spellings, given the link facts of a board *)
Theorem C12_spellings_shape : forall p m s,
  is_castle p m = false -> In s (san_spellings p m) ->
  exists t sf sr mk e,
    piece_at p (src m) = Some t
    /\ s = san_text t sf sr (is_capture_move p m) (file_of (dst m)) (rank_of (dst m)) (promo m) mk e
    /\ In mk marks
    /\ (sf = None \/ sf = Some (file_of (src m)))
    /\ (sr = None \/ sr = Some (rank_of (src m)))
    /\ (e = true -> is_ep p m = true)
    /\ (exists x, san_matches p t sf sr m = [x] /\ move_eqb x m = true).
Proof. exact san_spellings_shape. Qed.
Theorem C12_matches_link : forall b, san_link b -> forall t sf sr m',
  Permutation (filter (san_pred b t sr sf (dst m') (promo m')) (moves_of b))
              (map of_spec_move (san_matches (abs_board b) t sf sr m')).
Proof. exact matches_link. Qed.
Theorem C12_roundtrip_from_link : forall b, san_link b -> forall m s,
  In m (legal_moves (abs_board b)) -> In s (san_spellings (abs_board b) m) ->
  from_san b s = Ok (of_spec_move m).
Proof. exact san_roundtrip_from_link. Qed.
Theorem C12_reject_none_from_link : forall b, san_link b -> forall t sf sr cap f r pr mk e,
  opt_lt8 sf -> opt_lt8 sr -> f < 8 -> r < 8 -> promo_ok pr -> In mk marks ->
  san_matches (abs_board b) t sf sr {| src := 0; dst := mk_sq r f; promo := pr |} = [] ->
  from_san b (san_text t sf sr cap f r pr mk e) = Err.
Proof. exact san_reject_none_from_link. Qed.
Theorem C12_reject_ambiguous_from_link : forall b, san_link b -> forall t sf sr cap f r pr mk e,
  opt_lt8 sf -> opt_lt8 sr -> f < 8 -> r < 8 -> promo_ok pr -> In mk marks ->
  forall x y rest, t <> Pawn \/ sf <> None ->
  san_matches (abs_board b) t sf sr {| src := 0; dst := mk_sq r f; promo := pr |} = x :: y :: rest ->
  from_san b (san_text t sf sr cap f r pr mk e) = Err.
Proof. exact san_reject_ambiguous_from_link. Qed.
Theorem C12_reject_marker_from_link : forall b, san_link b -> forall t sf sr cap f r pr mk,
  opt_lt8 sf -> opt_lt8 sr -> f < 8 -> r < 8 -> promo_ok pr -> In mk marks ->
  forall x, san_matches (abs_board b) t sf sr {| src := 0; dst := mk_sq r f; promo := pr |} = [x] ->
  cap <> is_capture_move (abs_board b) x ->
  from_san b (san_text t sf sr cap f r pr mk false) = Err.
Proof. exact san_reject_marker_from_link. Qed.
Theorem C12_accept_marker_from_link : forall b, san_link b -> forall t sf sr cap f r pr mk,
  opt_lt8 sf -> opt_lt8 sr -> f < 8 -> r < 8 -> promo_ok pr -> In mk marks ->
  forall x, san_matches (abs_board b) t sf sr {| src := 0; dst := mk_sq r f; promo := pr |} = [x] ->
  cap = is_capture_move (abs_board b) x ->
  from_san b (san_text t sf sr cap f r pr mk false) = Ok (of_spec_move x).
Proof. exact san_accept_marker_from_link. Qed.
Theorem C12_link_check : forall b, san_link_b b = true -> san_link b.
Proof. exact san_link_check. Qed.

Check C12_spellings_shape : forall (p : pos) (m : move) (s : str),
  is_castle p m = false -> In s (san_spellings p m) ->
  exists (t : ptype) (sf sr : option N) (mk : str) (e : bool),
    piece_at p (src m) = Some t
    /\ s = san_text t sf sr (is_capture_move p m) (file_of (dst m)) (rank_of (dst m)) (promo m) mk e
    /\ In mk marks
    /\ (sf = None \/ sf = Some (file_of (src m)))
    /\ (sr = None \/ sr = Some (rank_of (src m)))
    /\ (e = true -> is_ep p m = true)
    /\ (exists x : move, san_matches p t sf sr m = [x] /\ move_eqb x m = true).
Print Assumptions C12_spellings_shape.
Check C12_matches_link : forall b : board, san_link b -> forall (t : ptype) (sf sr : option N) (m' : move),
  Permutation (filter (san_pred b t sr sf (dst m') (promo m')) (moves_of b))
              (map of_spec_move (san_matches (abs_board b) t sf sr m')).
Print Assumptions C12_matches_link.
Check C12_roundtrip_from_link : forall b : board, san_link b -> forall (m : move) (s : str),
  In m (legal_moves (abs_board b)) -> In s (san_spellings (abs_board b) m) ->
  from_san b s = Ok (of_spec_move m).
Print Assumptions C12_roundtrip_from_link.
Check C12_reject_none_from_link : forall b : board, san_link b ->
  forall (t : ptype) (sf sr : option N) (cap : bool) (f r : N) (pr : option ptype) (mk : str) (e : bool),
  opt_lt8 sf -> opt_lt8 sr -> f < 8 -> r < 8 -> promo_ok pr -> In mk marks ->
  san_matches (abs_board b) t sf sr {| src := 0; dst := mk_sq r f; promo := pr |} = [] ->
  from_san b (san_text t sf sr cap f r pr mk e) = Err.
Print Assumptions C12_reject_none_from_link.
Check C12_reject_ambiguous_from_link : forall b : board, san_link b ->
  forall (t : ptype) (sf sr : option N) (cap : bool) (f r : N) (pr : option ptype) (mk : str) (e : bool),
  opt_lt8 sf -> opt_lt8 sr -> f < 8 -> r < 8 -> promo_ok pr -> In mk marks ->
  forall (x y : move) (rest : list move), t <> Pawn \/ sf <> None ->
  san_matches (abs_board b) t sf sr {| src := 0; dst := mk_sq r f; promo := pr |} = x :: y :: rest ->
  from_san b (san_text t sf sr cap f r pr mk e) = Err.
Print Assumptions C12_reject_ambiguous_from_link.
Check C12_reject_marker_from_link : forall b : board, san_link b ->
  forall (t : ptype) (sf sr : option N) (cap : bool) (f r : N) (pr : option ptype) (mk : str),
  opt_lt8 sf -> opt_lt8 sr -> f < 8 -> r < 8 -> promo_ok pr -> In mk marks ->
  forall x : move, san_matches (abs_board b) t sf sr {| src := 0; dst := mk_sq r f; promo := pr |} = [x] ->
  cap <> is_capture_move (abs_board b) x ->
  from_san b (san_text t sf sr cap f r pr mk false) = Err.
Print Assumptions C12_reject_marker_from_link.
Check C12_accept_marker_from_link : forall b : board, san_link b ->
  forall (t : ptype) (sf sr : option N) (cap : bool) (f r : N) (pr : option ptype) (mk : str),
  opt_lt8 sf -> opt_lt8 sr -> f < 8 -> r < 8 -> promo_ok pr -> In mk marks ->
  forall x : move, san_matches (abs_board b) t sf sr {| src := 0; dst := mk_sq r f; promo := pr |} = [x] ->
  cap = is_capture_move (abs_board b) x ->
  from_san b (san_text t sf sr cap f r pr mk false) = Ok (of_spec_move x).
Print Assumptions C12_accept_marker_from_link.
Check C12_link_check : forall b : board, san_link_b b = true -> san_link b.
Print Assumptions C12_link_check.

(** ** The full statement (NOT proved here): it follows from [C12_roundtrip_from_link] once
    [san_link] is established for every valid position — that is the move-generator
    refinement ([moves_of] enumerates [legal_moves (abs_board b)]), the [piece_on] /
    placement agreement, on-board-ness of legal moves and the castling-move shape. *)
Definition C12_roundtrip_full : Prop :=
  forall p, pos_valid p = true ->
  forall m s, In m (legal_moves p) -> In s (san_spellings p m) ->
  from_san (from_scratch p) s = Ok (of_spec_move m).
Definition C12_link_obligation : Prop :=
  forall p, pos_valid p = true -> abs_board (from_scratch p) = p /\ san_link (from_scratch p).
Theorem C12_roundtrip_full_from_obligation : C12_link_obligation -> C12_roundtrip_full.
Proof. exact san_roundtrip_full_from_obligation. Qed.
Check C12_roundtrip_full_from_obligation : C12_link_obligation -> C12_roundtrip_full.
Print Assumptions C12_roundtrip_full_from_obligation.
