(** * Proofs.ParseTotal — parsing a square, a builder or a board from arbitrary text never
    panics (C07, totality).  [square_from_str] has two checked indexings ([ch[0]], [ch[1]]);
    both are guarded: a string of fewer than two *bytes* is rejected first, and a string of one
    char of two or more bytes fails the ['a'..'h'] test before [ch[1]] is touched. *)
From Coq Require Import Lia ZifyBool ZifyN ZifyNat String Ascii.
From Chess Require Import Base.Bits Base.Text Model.Board Model.MoveGen Model.Fen.
Open Scope N_scope.
#[local] Arguments N.add : simpl never.
#[local] Arguments N.sub : simpl never.
#[local] Arguments N.mul : simpl never.
#[local] Arguments N.shiftl : simpl never.
#[local] Arguments N.shiftr : simpl never.
#[local] Arguments N.land : simpl never.
#[local] Arguments N.lor : simpl never.
#[local] Arguments N.lxor : simpl never.
#[local] Arguments N.testbit : simpl never.
#[local] Arguments N.eqb : simpl never.
#[local] Arguments N.ltb : simpl never.
#[local] Arguments N.leb : simpl never.

Theorem square_from_str_total : forall s, square_from_str s <> Panic.
Proof.
  intros [|c0 [|c1 r]]; unfold square_from_str.
  - cbn [byte_len]. discriminate.
  - destruct (N.ltb_spec (byte_len [c0]) 2) as [Hlt|Hge]; [discriminate|].
    destruct (in_range c0 97 104) eqn:E; cbn [negb]; [exfalso|discriminate].
    unfold in_range in E. cbn [byte_len] in Hge. unfold utf8_len in Hge.
    destruct (N.ltb_spec c0 128) as [H1|H1]; lia.
  - destruct (byte_len (c0 :: c1 :: r) <? 2); [discriminate|].
    destruct (negb (in_range c0 97 104)); [discriminate|].
    destruct (negb (in_range c1 49 56)); discriminate.
Qed.

(** it returns a square of the board whenever it succeeds *)
Theorem square_from_str_ok : forall s q, square_from_str s = Ok q -> q < 64.
Proof.
  intros s q H. unfold square_from_str in H.
  destruct (byte_len s <? 2); [discriminate H|].
  destruct s as [|c0 [|c1 r]]; try discriminate H.
  - destruct (negb (in_range c0 97 104)); discriminate H.
  - destruct (negb (in_range c0 97 104)); [discriminate H|].
    destruct (negb (in_range c1 49 56)); [discriminate H|].
    injection H as H. subst q. unfold mk_sq.
    assert (Ha : N.land (c1 - 49) 7 < 8) by (change 7 with (N.ones 3); rewrite N.land_ones; apply N.mod_lt; discriminate).
    assert (Hb : N.land (c0 - 97) 7 < 8) by (change 7 with (N.ones 3); rewrite N.land_ones; apply N.mod_lt; discriminate).
    rewrite N.shiftl_mul_pow2. change (2 ^ 3) with 8.
    rewrite N.lxor_comm.
    assert (Hx : forall a b, a < 8 -> b < 8 -> N.lxor a (b * 8) < 64).
    { intros a b Hla Hlb.
      assert (Ea : a = 0 \/ a = 1 \/ a = 2 \/ a = 3 \/ a = 4 \/ a = 5 \/ a = 6 \/ a = 7) by lia.
      assert (Eb : b = 0 \/ b = 1 \/ b = 2 \/ b = 3 \/ b = 4 \/ b = 5 \/ b = 6 \/ b = 7) by lia.
      destruct Ea as [->|[->|[->|[->|[->|[->|[->| ->]]]]]]];
        destruct Eb as [->|[->|[->|[->|[->|[->|[->| ->]]]]]]]; reflexivity. }
    apply Hx; assumption.
Qed.

Theorem builder_from_str_total : forall s, builder_from_str s <> Panic.
Proof.
  intros s. unfold builder_from_str.
  destruct (split_sp s) as [|f0 [|f1 [|f2 [|f3 rest]]]]; try discriminate.
  destruct (parse_placement f0 (repeat None 64) 7 0) as [pcs|]; [|discriminate].
  cbv zeta.
  destruct (if str_eqb f1 [119] || str_eqb f1 [87] then Some White
            else if str_eqb f1 [98] || str_eqb f1 [66] then Some Black else None) as [c|];
    [|discriminate].
  destruct (square_from_str f3) eqn:E; try discriminate.
  exfalso. exact (square_from_str_total f3 E).
Qed.

Theorem board_from_str_total : forall s, board_from_str s <> Panic.
Proof.
  intros s. unfold board_from_str.
  destruct (builder_from_str s) as [bb| |] eqn:E.
  - destruct (try_from_builder bb); discriminate.
  - discriminate.
  - exfalso. exact (builder_from_str_total s E).
Qed.

(** all builder states: the conversion is a total function (it has no panic outcome at all),
    and text is accepted exactly when its builder is *)
Theorem board_from_str_ok_iff : forall s b,
  board_from_str s = Ok b <-> exists bb, builder_from_str s = Ok bb /\ try_from_builder bb = Some b.
Proof.
  intros s b. unfold board_from_str. destruct (builder_from_str s) as [bb| |].
  - destruct (try_from_builder bb) as [b'|] eqn:E.
    + split.
      * intros H. injection H as H. subst b'. exists bb. split; [reflexivity|exact E].
      * intros [bb' [H1 H2]]. injection H1 as H1. subst bb'. rewrite E in H2. injection H2 as H2.
        subst b'. reflexivity.
    + split; [discriminate|]. intros [bb' [H1 H2]]. injection H1 as H1. subst bb'.
      rewrite E in H2. discriminate H2.
  - split; [discriminate|intros [bb' [H1 _]]; discriminate H1].
  - split; [discriminate|intros [bb' [H1 _]]; discriminate H1].
Qed.

(** ** Examples: the inputs that come closest to the guarded indexings *)
Definition s_of (s:string) : str := map N_of_ascii (list_ascii_of_string s).
(** a single two-byte char (U+00E9): [len() = 2] passes the length test, [ch[1]] does not
    exist — rejected by the file test first *)
Example square_one_wide_char : square_from_str [233] = Err.
Proof. vm_compute. reflexivity. Qed.
Example square_one_char : square_from_str (s_of "e") = Err.
Proof. vm_compute. reflexivity. Qed.
Example square_empty : square_from_str [] = Err.
Proof. vm_compute. reflexivity. Qed.
Example square_e4 : square_from_str (s_of "e4") = Ok 28.
Proof. vm_compute. reflexivity. Qed.
Example builder_wide_ep : exists bb, builder_from_str (s_of "8/8/8/8/8/8/8/8 w - " ++ [233]) = Ok bb /\ bep bb = None.
Proof. eexists. split; vm_compute; reflexivity. Qed.
Example builder_too_few_fields : builder_from_str (s_of "8/8/8/8/8/8/8/8 w -") = Err.
Proof. vm_compute. reflexivity. Qed.
Example board_empty_rejected : board_from_str (s_of "8/8/8/8/8/8/8/8 w - -") = Err.
Proof. vm_compute. reflexivity. Qed.
