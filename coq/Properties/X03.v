(** * Properties.X03 — public API outside the twenty properties: the deprecated board editors
    [Board::set_piece] / [Board::clear_square] ([set_piece], [clear_square] with the helpers
    [remove_at], [finish_edit]; [Model/Extra.v]).

    [Consistent b] ([Proofs/AbsBoard.v]): the nine occupancy words are 64-bit words, the piece
    words are pairwise disjoint, the colour words are disjoint and both unions are the combined
    word.  [bitsat b k] are the nine bits of square [k], [AbsBoard.dec] reads them as an
    [option (ptype*color)]; [at_ (abs_board b) k] is what the rules' position sees on [k].

    On a consistent board and a square below 64:
    - [remove_at] empties the square and changes no other square, nor anything but the hash;
    - an accepted [set_piece] / [clear_square] changes exactly that square, keeps side to
      move, rights and en-passant field, maintains the incremental hash, and its pin / check
      caches are those [update_pin_info] computes from scratch;
    - the edit is refused exactly when the check computation for the side NOT to move is
      non-empty (in the rules' terms: when that side would be in check — given it has exactly
      one king and the kings are not adjacent, which the library does not look at);
    - OBSERVATION (not a defect under the given properties): the editors do not re-validate;
      the result can be a board [is_sane] rejects (17 white men; two white kings; no king).
    Proofs: [Proofs/Extra03.v]. *)
From Coq Require Import NArith List Bool.
From Chess Require Import Base.Bits Spec.Geometry Spec.Rules Model.Board Model.Extra.
From Chess Require Import Proofs.AbsBoard Proofs.NullMove Proofs.CanonCheckers Proofs.Extra03.
Import ListNotations.
Open Scope N_scope.

(** ** 1. [remove_at] *)
Theorem X03_remove_at_consistent : forall b s, Consistent b -> s < 64 -> Consistent (remove_at b s).
Proof. exact remove_at_consistent. Qed.
Check X03_remove_at_consistent : forall b s, Consistent b -> s < 64 -> Consistent (remove_at b s).
Print Assumptions X03_remove_at_consistent.

(** square [s] is empty afterwards, every other square unchanged (any [k], also [k >= 64]) *)
Theorem X03_remove_at_squares : forall b s k, Consistent b ->
  AbsBoard.dec (bitsat (remove_at b s) k) = if k =? s then None else AbsBoard.dec (bitsat b k).
Proof. exact remove_at_dec. Qed.
Check X03_remove_at_squares : forall b s k, Consistent b ->
  AbsBoard.dec (bitsat (remove_at b s) k) = if k =? s then None else AbsBoard.dec (bitsat b k).
Print Assumptions X03_remove_at_squares.

Theorem X03_remove_at_abs : forall b s k, Consistent b -> k < 64 ->
  at_ (abs_board (remove_at b s)) k = if k =? s then None else at_ (abs_board b) k.
Proof. exact remove_at_abs. Qed.
Check X03_remove_at_abs : forall b s k, Consistent b -> k < 64 ->
  at_ (abs_board (remove_at b s)) k = if k =? s then None else at_ (abs_board b) k.
Print Assumptions X03_remove_at_abs.

Theorem X03_remove_at_fields : forall b s,
  stm (remove_at b s) = stm b /\ crW (remove_at b s) = crW b /\ crB (remove_at b s) = crB b /\
  epsq (remove_at b s) = epsq b /\ pinned (remove_at b s) = pinned b /\
  checkers (remove_at b s) = checkers b.
Proof. exact remove_at_fields. Qed.
Check X03_remove_at_fields : forall b s,
  stm (remove_at b s) = stm b /\ crW (remove_at b s) = crW b /\ crB (remove_at b s) = crB b /\
  epsq (remove_at b s) = epsq b /\ pinned (remove_at b s) = pinned b /\
  checkers (remove_at b s) = checkers b.
Print Assumptions X03_remove_at_fields.

Theorem X03_remove_at_hash : forall b s, Consistent b -> s < 64 ->
  hash (remove_at b s) = match at_ (abs_board b) s with
                         | None => hash b | Some (q,d) => N.lxor (hash b) (zob_piece q s d) end.
Proof. exact remove_at_hash. Qed.
Check X03_remove_at_hash : forall b s, Consistent b -> s < 64 ->
  hash (remove_at b s) = match at_ (abs_board b) s with
                         | None => hash b | Some (q,d) => N.lxor (hash b) (zob_piece q s d) end.
Print Assumptions X03_remove_at_hash.

(** ** 2. [set_piece] *)
Theorem X03_set_piece_spec : forall b p c s b', Consistent b -> s < 64 -> set_piece b p c s = Some b' ->
  Consistent b' /\
  (forall k, k < 64 -> at_ (abs_board b') k = if k =? s then Some (p,c) else at_ (abs_board b) k) /\
  stm b' = stm b /\ crW b' = crW b /\ crB b' = crB b /\ epsq b' = epsq b /\
  b' = update_pin_info b'.
Proof. exact set_piece_spec. Qed.
Check X03_set_piece_spec : forall b p c s b', Consistent b -> s < 64 -> set_piece b p c s = Some b' ->
  Consistent b' /\
  (forall k, k < 64 -> at_ (abs_board b') k = if k =? s then Some (p,c) else at_ (abs_board b) k) /\
  stm b' = stm b /\ crW b' = crW b /\ crB b' = crB b /\ epsq b' = epsq b /\
  b' = update_pin_info b'.
Print Assumptions X03_set_piece_spec.

(** the result, whatever the board *)
Theorem X03_set_piece_result : forall b p c s b', set_piece b p c s = Some b' ->
  b' = update_pin_info (xor_piece (remove_at b s) p (bit s) c).
Proof. exact set_piece_result. Qed.
Check X03_set_piece_result : forall b p c s b', set_piece b p c s = Some b' ->
  b' = update_pin_info (xor_piece (remove_at b s) p (bit s) c).
Print Assumptions X03_set_piece_result.

Theorem X03_set_piece_hash : forall b p c s b', Consistent b -> s < 64 -> set_piece b p c s = Some b' ->
  hash b' = N.lxor (match at_ (abs_board b) s with
                    | None => hash b | Some (q,d) => N.lxor (hash b) (zob_piece q s d) end)
                   (zob_piece p s c).
Proof. exact set_piece_hash. Qed.
Check X03_set_piece_hash : forall b p c s b', Consistent b -> s < 64 -> set_piece b p c s = Some b' ->
  hash b' = N.lxor (match at_ (abs_board b) s with
                    | None => hash b | Some (q,d) => N.lxor (hash b) (zob_piece q s d) end)
                   (zob_piece p s c).
Print Assumptions X03_set_piece_hash.

(** refused exactly when the side NOT to move would be in check, as the library computes it (any board) *)
Theorem X03_set_piece_none_iff : forall b p c s,
  set_piece b p c s = None <->
  checkers (update_pin_info (set_stm (xor_piece (remove_at b s) p (bit s) c) (opp (stm b)))) <> 0.
Proof. exact set_piece_none_iff. Qed.
Check X03_set_piece_none_iff : forall b p c s,
  set_piece b p c s = None <->
  checkers (update_pin_info (set_stm (xor_piece (remove_at b s) p (bit s) c) (opp (stm b)))) <> 0.
Print Assumptions X03_set_piece_none_iff.

Theorem X03_set_piece_some_iff : forall b p c s,
  (exists b', set_piece b p c s = Some b') <->
  checkers (update_pin_info (set_stm (xor_piece (remove_at b s) p (bit s) c) (opp (stm b)))) = 0.
Proof. exact set_piece_some_iff. Qed.
Check X03_set_piece_some_iff : forall b p c s,
  (exists b', set_piece b p c s = Some b') <->
  checkers (update_pin_info (set_stm (xor_piece (remove_at b s) p (bit s) c) (opp (stm b)))) = 0.
Print Assumptions X03_set_piece_some_iff.

(** ... and in the rules' terms *)
Theorem X03_set_piece_refused_iff_check : forall b p c s, Consistent b -> s < 64 ->
  let e := set_stm (xor_piece (remove_at b s) p (bit s) c) (opp (stm b)) in
  popcnt (N.land (pK e) (color_combined e (stm e))) = 1 -> kings_apart e ->
  (set_piece b p c s = None <-> in_check (abs_board e) (opp (stm b)) = true).
Proof. exact set_piece_refused_iff_check. Qed.
Check X03_set_piece_refused_iff_check : forall b p c s, Consistent b -> s < 64 ->
  let e := set_stm (xor_piece (remove_at b s) p (bit s) c) (opp (stm b)) in
  popcnt (N.land (pK e) (color_combined e (stm e))) = 1 -> kings_apart e ->
  (set_piece b p c s = None <-> in_check (abs_board e) (opp (stm b)) = true).
Print Assumptions X03_set_piece_refused_iff_check.

(** ** 3. [clear_square] *)
Theorem X03_clear_square_spec : forall b s b', Consistent b -> s < 64 -> clear_square b s = Some b' ->
  Consistent b' /\
  (forall k, k < 64 -> at_ (abs_board b') k = if k =? s then None else at_ (abs_board b) k) /\
  stm b' = stm b /\ crW b' = crW b /\ crB b' = crB b /\ epsq b' = epsq b /\
  b' = update_pin_info b'.
Proof. exact clear_square_spec. Qed.
Check X03_clear_square_spec : forall b s b', Consistent b -> s < 64 -> clear_square b s = Some b' ->
  Consistent b' /\
  (forall k, k < 64 -> at_ (abs_board b') k = if k =? s then None else at_ (abs_board b) k) /\
  stm b' = stm b /\ crW b' = crW b /\ crB b' = crB b /\ epsq b' = epsq b /\
  b' = update_pin_info b'.
Print Assumptions X03_clear_square_spec.

Theorem X03_clear_square_result : forall b s b', clear_square b s = Some b' ->
  b' = update_pin_info (remove_at b s).
Proof. exact clear_square_result. Qed.
Check X03_clear_square_result : forall b s b', clear_square b s = Some b' ->
  b' = update_pin_info (remove_at b s).
Print Assumptions X03_clear_square_result.

Theorem X03_clear_square_hash : forall b s b', Consistent b -> s < 64 -> clear_square b s = Some b' ->
  hash b' = match at_ (abs_board b) s with
            | None => hash b | Some (q,d) => N.lxor (hash b) (zob_piece q s d) end.
Proof. exact clear_square_hash. Qed.
Check X03_clear_square_hash : forall b s b', Consistent b -> s < 64 -> clear_square b s = Some b' ->
  hash b' = match at_ (abs_board b) s with
            | None => hash b | Some (q,d) => N.lxor (hash b) (zob_piece q s d) end.
Print Assumptions X03_clear_square_hash.

Theorem X03_clear_square_none_iff : forall b s,
  clear_square b s = None <->
  checkers (update_pin_info (set_stm (remove_at b s) (opp (stm b)))) <> 0.
Proof. exact clear_square_none_iff. Qed.
Check X03_clear_square_none_iff : forall b s,
  clear_square b s = None <->
  checkers (update_pin_info (set_stm (remove_at b s) (opp (stm b)))) <> 0.
Print Assumptions X03_clear_square_none_iff.

Theorem X03_clear_square_refused_iff_check : forall b s, Consistent b -> s < 64 ->
  let e := set_stm (remove_at b s) (opp (stm b)) in
  popcnt (N.land (pK e) (color_combined e (stm e))) = 1 -> kings_apart e ->
  (clear_square b s = None <-> in_check (abs_board e) (opp (stm b)) = true).
Proof. exact clear_square_refused_iff_check. Qed.
Check X03_clear_square_refused_iff_check : forall b s, Consistent b -> s < 64 ->
  let e := set_stm (remove_at b s) (opp (stm b)) in
  popcnt (N.land (pK e) (color_combined e (stm e))) = 1 -> kings_apart e ->
  (clear_square b s = None <-> in_check (abs_board e) (opp (stm b)) = true).
Print Assumptions X03_clear_square_refused_iff_check.

(** ** 4. Examples: accepted and refused edits of the start board; no re-validation *)
Theorem X03_edits_accepted :
  is_some (set_piece (from_scratch startpos) Pawn White 16) = true /\
  is_some (set_piece (from_scratch startpos) Queen Black 12) = true /\
  is_some (clear_square (from_scratch startpos) 12) = true.
Proof. exact edits_accepted. Qed.
Check X03_edits_accepted :
  is_some (set_piece (from_scratch startpos) Pawn White 16) = true /\
  is_some (set_piece (from_scratch startpos) Queen Black 12) = true /\
  is_some (clear_square (from_scratch startpos) 12) = true.
Print Assumptions X03_edits_accepted.

Theorem X03_edit_refused : set_piece (from_scratch startpos) Queen White 51 = None.
Proof. exact edit_refused. Qed.
Check X03_edit_refused : set_piece (from_scratch startpos) Queen White 51 = None.
Print Assumptions X03_edit_refused.

(** OBSERVATION: [set_piece] / [clear_square] can return a board that [is_sane] rejects *)
Theorem X03_set_piece_not_sane :
  match set_piece (from_scratch startpos) Pawn White 16 with
  | Some b' => is_sane b' | None => true end = false
  /\ match set_piece (from_scratch startpos) King White 20 with
     | Some b' => is_sane b' | None => true end = false
  /\ match clear_square (from_scratch startpos) 4 with
     | Some b' => is_sane b' | None => true end = false.
Proof. exact set_piece_not_sane. Qed.
Check X03_set_piece_not_sane :
  match set_piece (from_scratch startpos) Pawn White 16 with
  | Some b' => is_sane b' | None => true end = false
  /\ match set_piece (from_scratch startpos) King White 20 with
     | Some b' => is_sane b' | None => true end = false
  /\ match clear_square (from_scratch startpos) 4 with
     | Some b' => is_sane b' | None => true end = false.
Print Assumptions X03_set_piece_not_sane.

Theorem X03_start_sane : is_sane (from_scratch startpos) = true.
Proof. exact start_sane. Qed.
Check X03_start_sane : is_sane (from_scratch startpos) = true.
Print Assumptions X03_start_sane.
