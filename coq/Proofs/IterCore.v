(** * Proofs.IterCore — the move iterator [next] / [drain] / [len] (property C14, goals G1, G2).

    [pending g] is a fuel-free description of everything the generator [g] will still yield
    under its current mask.  [next_step] shows that [next] pops exactly the head of [pending];
    [len_pending] that [len] is its length (for every state, no invariant needed). *)
From Coq Require Import NArith List Bool Lia ZifyBool ZifyN ZifyNat Permutation.
From Chess Require Import Model.MoveGen Proofs.IterBits Proofs.IterLists.
Import ListNotations.
Open Scope N_scope.
Arguments N.add : simpl never.
Arguments N.sub : simpl never.
Arguments N.mul : simpl never.
Arguments N.shiftl : simpl never.
Arguments N.shiftr : simpl never.
Arguments N.land : simpl never.
Arguments N.lor : simpl never.
Arguments N.lxor : simpl never.
Arguments N.ldiff : simpl never.
Arguments N.testbit : simpl never.
Arguments N.eqb : simpl never.
Arguments N.ltb : simpl never.
Arguments N.leb : simpl never.

(** ** Definitions *)
Definition restrict (m:N) (e:entry) : entry := set_bb e (N.land (ebb e) m).
Definition clear (m:N) (e:entry) : entry := set_bb e (N.ldiff (ebb e) m).

Fixpoint take_live (m:N) (l:list entry) : list entry :=
  match l with [] => [] | e::r => if live m e then e :: take_live m r else [] end.

(** [live* ++ dead*] *)
Fixpoint parted (m:N) (l:list entry) : Prop :=
  match l with
  | [] => True
  | e::r => if live m e then parted m r else Forall (fun x => live m x = false) r
  end.

(** what the generator still yields under the current mask *)
Definition pending (g:movegen) : list cmove :=
  skipn (N.to_nat (promotion_index g))
    (expand (map (restrict (iterator_mask g))
                 (take_live (iterator_mask g) (skipn (index g) (moves g))))).

Definition WF (L:list entry) : Prop := Forall (fun e => ebb e <> 0 /\ ebb e < 2^64) L.
Definition EB (L:list entry) : Prop := Forall (fun e => ebb e < 2^64) L.

Definition g0 (L:list entry) : movegen :=
  {| moves := L; promotion_index := 0; iterator_mask := M64; index := 0 |}.

(** the part of the invariant [next]/[len]/[drain] need *)
Record WInv (g:movegen) : Prop := {
  wi_p : promotion_index g < 4;
  wi_b : EB (moves g);
  wi_c : 0 < promotion_index g ->
         (index g < length (moves g))%nat /\
         live (iterator_mask g) (nth_e (moves g) (index g)) = true /\
         epromo (nth_e (moves g) (index g)) = true }.

(** the full iterator invariant: additionally the entries before [index] are dead under the
    mask and those from [index] on are [live* ++ dead*] *)
Record Inv (g:movegen) : Prop := {
  inv_w : WInv g;
  inv_before : Forall (fun e => live (iterator_mask g) e = false) (firstn (index g) (moves g));
  inv_parted : parted (iterator_mask g) (skipn (index g) (moves g)) }.

(** ** small facts *)
Definition emoves (s:N) (pr:bool) (d:N) : list cmove :=
  if pr then map (fun p => {| msrc := s; mdst := d; mpromo := Some p |}) promotion_pieces
  else [{| msrc := s; mdst := d; mpromo := None |}].

Lemma expand_entry_emoves e :
  expand_entry e = flat_map (emoves (esq e) (epromo e)) (squares_of (ebb e)).
Proof. reflexivity. Qed.

Lemma expand_cons e l : expand (e::l) = expand_entry e ++ expand l.
Proof. reflexivity. Qed.

Lemma expand_app l1 l2 : expand (l1 ++ l2) = expand l1 ++ expand l2.
Proof. unfold expand. apply flat_map_app. Qed.

Lemma live_true m e : live m e = true <-> N.land (ebb e) m <> 0.
Proof. unfold live. rewrite negb_true_iff. apply N.eqb_neq. Qed.
Lemma live_false m e : live m e = false <-> N.land (ebb e) m = 0.
Proof. unfold live. rewrite negb_false_iff. apply N.eqb_eq. Qed.

Lemma Forall_upd {A} (P:A->Prop) : forall l i x, Forall P l -> P x -> Forall P (upd l i x).
Proof.
  induction l as [|h t IH]; intros [|i] x HF Hx; cbn [upd]; auto;
    inversion HF; subst; constructor; auto.
Qed.

Lemma EB_bounded L e : EB L -> In e L -> bounded (ebb e).
Proof. intros H Hin. apply lt_bounded. unfold EB in H. rewrite Forall_forall in H. apply H, Hin. Qed.

Lemma length_emoves s pr d : length (emoves s pr d) = if pr then 4%nat else 1%nat.
Proof. destruct pr; reflexivity. Qed.

Lemma length_flat_emoves s pr : forall ds,
  length (flat_map (emoves s pr) ds) = ((if pr then 4 else 1) * length ds)%nat.
Proof.
  induction ds as [|d ds IH]; cbn [flat_map length]; [lia|].
  rewrite app_length, IH, length_emoves. destruct pr; lia.
Qed.

(** ** [len] is the number of pending moves — in every state *)
Lemma len_from_spec mask : forall l,
  len_from mask l = N.of_nat (length (expand (map (restrict mask) (take_live mask l)))).
Proof.
  induction l as [|e r IH]; cbn [len_from take_live]; [reflexivity|].
  destruct (live mask e); [|reflexivity].
  cbn [map]. rewrite expand_cons, app_length, Nat2N.inj_add, <- IH. f_equal.
  rewrite expand_entry_emoves, length_flat_emoves. cbn [restrict set_bb esq ebb epromo].
  rewrite popcnt_length. destruct (epromo e); lia.
Qed.

Theorem len_pending g : len g = N.of_nat (length (pending g)).
Proof.
  unfold len, pending. rewrite len_from_spec, skipn_length. lia.
Qed.

(** ** one step of [next] *)
Definition tail_of (mask:N) (L:list entry) (idx:nat) : list cmove :=
  expand (map (restrict mask) (take_live mask (skipn (S idx) L))).

(** the successor state once a destination has been fully served *)
Definition adv (L:list entry) (mask:N) (idx:nat) (e':entry) : movegen :=
  {| moves := upd L idx e'; promotion_index := 0; iterator_mask := mask;
     index := if N.land (ebb e') mask =? 0 then S idx else idx |}.

Lemma current_pending L mask idx d ds :
  (idx < length L)%nat ->
  live mask (nth_e L idx) = true ->
  squares_of (N.land (ebb (nth_e L idx)) mask) = d :: ds ->
  expand (map (restrict mask) (take_live mask (skipn idx L))) =
  emoves (esq (nth_e L idx)) (epromo (nth_e L idx)) d ++
  (flat_map (emoves (esq (nth_e L idx)) (epromo (nth_e L idx))) ds ++ tail_of mask L idx).
Proof.
  intros Hi Hl Hsq. unfold nth_e in *. rewrite (skipn_nth L idx dummy_entry Hi).
  cbn [take_live]. rewrite Hl. cbn [map]. rewrite expand_cons, expand_entry_emoves.
  cbn [restrict set_bb esq ebb epromo]. rewrite Hsq. cbn [flat_map].
  rewrite <- app_assoc. reflexivity.
Qed.

Lemma adv_pending L mask idx e' ds :
  (idx < length L)%nat ->
  squares_of (N.land (ebb e') mask) = ds ->
  pending (adv L mask idx e') = flat_map (emoves (esq e') (epromo e')) ds ++ tail_of mask L idx.
Proof.
  intros Hi Hsq. unfold pending, adv, tail_of.
  cbn [moves promotion_index iterator_mask index]. change (N.to_nat 0) with 0%nat. cbn [skipn].
  destruct (N.eqb_spec (N.land (ebb e') mask) 0) as [E|Hne].
  - rewrite E in Hsq. cbn in Hsq. subst ds. cbn [flat_map app].
    change (match upd L idx e' with [] => [] | _ :: l => skipn idx l end) with (skipn (S idx) (upd L idx e')).
    rewrite skipn_upd_after by lia. reflexivity.
  - rewrite skipn_upd_same by exact Hi. cbn [take_live].
    assert (Hl : live mask e' = true) by (apply live_true; exact Hne). rewrite Hl.
    cbn [map]. rewrite expand_cons, expand_entry_emoves.
    cbn [restrict set_bb esq ebb epromo]. rewrite Hsq. reflexivity.
Qed.

Lemma adv_facts L mask idx d ds (e := nth_e L idx) (e' := set_bb e (N.lxor (ebb e) (bit d))) :
  (idx < length L)%nat -> EB L ->
  live mask e = true ->
  d = to_square (N.land (ebb e) mask) ->
  squares_of (N.land (ebb e) mask) = d :: ds ->
  squares_of (N.land (ebb e') mask) = ds ->
  WInv (adv L mask idx e') /\
  map (clear mask) (moves (adv L mask idx e')) = map (clear mask) L /\
  (Forall (fun x => live mask x = false) (firstn idx L) -> parted mask (skipn idx L) ->
   Inv (adv L mask idx e')).
Proof.
  intros Hi HB Hl Hd Hsq Hsq'.
  assert (Hin : In e L) by (apply nth_In; exact Hi).
  assert (Hbe : bounded (ebb e)) by (eapply EB_bounded; eauto).
  assert (Hdin : In d (squares_of (N.land (ebb e) mask))) by (rewrite Hsq; left; reflexivity).
  apply squares_of_spec in Hdin. rewrite N.land_spec in Hdin. apply andb_true_iff in Hdin.
  destruct Hdin as [Hde Hdm].
  assert (HW : WInv (adv L mask idx e')).
  { constructor; cbn [adv moves promotion_index iterator_mask index].
    - lia.
    - apply Forall_upd; [exact HB|]. apply bounded_lt.
      subst e'. cbn [set_bb ebb]. apply bounded_lxor_bit; assumption.
    - lia. }
  split; [exact HW|]. split.
  - cbn [adv moves]. apply (map_upd_eq (clear mask) L idx e' dummy_entry Hi).
    fold (nth_e L idx). fold e. subst e'. unfold clear. cbn [set_bb esq ebb epromo].
    rewrite ldiff_lxor_bit by exact Hdm. reflexivity.
  - intros Hbef Hpar. constructor; [exact HW| |]; cbn [adv moves promotion_index iterator_mask index].
    + destruct (N.eqb_spec (N.land (ebb e') mask) 0) as [E|Hne].
      * rewrite firstn_S_upd by exact Hi. apply Forall_app. split; [exact Hbef|].
        constructor; [|constructor]. apply live_false. exact E.
      * rewrite firstn_upd. exact Hbef.
    + unfold nth_e in e. rewrite (skipn_nth L idx dummy_entry Hi) in Hpar.
      fold e in Hpar. cbn [parted] in Hpar. rewrite Hl in Hpar.
      destruct (N.eqb_spec (N.land (ebb e') mask) 0) as [E|Hne].
      * rewrite skipn_upd_after by lia. exact Hpar.
      * rewrite skipn_upd_same by exact Hi. cbn [parted].
        assert (Hl' : live mask e' = true) by (apply live_true; exact Hne). rewrite Hl'. exact Hpar.
Qed.

Lemma pending_exhausted L p mask idx :
  (length L <= idx)%nat ->
  pending {| moves := L; promotion_index := p; iterator_mask := mask; index := idx |} = [].
Proof.
  intros H. unfold pending. cbn [moves promotion_index iterator_mask index].
  replace (skipn idx L) with (@nil entry) by (symmetry; apply skipn_all2; exact H).
  cbn [take_live map]. apply skipn_nil.
Qed.

Lemma pending_dead L p mask idx :
  (idx < length L)%nat -> live mask (nth_e L idx) = false ->
  pending {| moves := L; promotion_index := p; iterator_mask := mask; index := idx |} = [].
Proof.
  intros Hi Hl. unfold pending. cbn [moves promotion_index iterator_mask index].
  unfold nth_e in Hl. rewrite (skipn_nth L idx dummy_entry Hi). cbn [take_live]. rewrite Hl.
  cbn [map]. apply skipn_nil.
Qed.

(** The step lemma.  [next] either reports exhaustion (and then nothing is pending) or pops
    the head of [pending]; it preserves both invariants, the mask and the part of every entry
    outside the mask. *)
Theorem next_step g : WInv g ->
  match next g with
  | (None, g') => g' = g /\ pending g = []
  | (Some c, g') =>
      pending g = c :: pending g' /\ WInv g' /\
      iterator_mask g' = iterator_mask g /\
      map (clear (iterator_mask g)) (moves g') = map (clear (iterator_mask g)) (moves g) /\
      (Inv g -> Inv g')
  end.
Proof.
  intros HW. destruct g as [L p mask idx]. destruct HW as [Hp HB Hc].
  cbn [moves promotion_index iterator_mask index] in *.
  unfold next. cbn [moves promotion_index iterator_mask index].
  destruct (Nat.leb_spec (length L) idx) as [Hge|Hi].
  { split; [reflexivity|]. apply pending_exhausted; exact Hge. }
  set (e := nth_e L idx) in *.
  destruct (live mask e) eqn:Hl; cbn [negb].
  2:{ split; [reflexivity|]. apply pending_dead; assumption. }
  assert (Hin : In e L) by (apply nth_In; exact Hi).
  assert (Hbe : bounded (ebb e)) by (eapply EB_bounded; eauto).
  assert (Hnz : N.land (ebb e) mask <> 0) by (apply live_true; exact Hl).
  destruct (squares_of_pop _ Hnz (bounded_land _ mask Hbe)) as [ds [Hsq Hpop]].
  set (d := to_square (N.land (ebb e) mask)) in *.
  assert (Hdin : In d (squares_of (N.land (ebb e) mask))) by (rewrite Hsq; left; reflexivity).
  apply squares_of_spec in Hdin. rewrite N.land_spec in Hdin. apply andb_true_iff in Hdin.
  destruct Hdin as [Hde Hdm].
  set (e' := set_bb e (N.lxor (ebb e) (bit d))).
  assert (Hsq' : squares_of (N.land (ebb e') mask) = ds).
  { subst e'. cbn [set_bb ebb]. rewrite land_lxor_bit by exact Hdm. exact Hpop. }
  pose proof (current_pending L mask idx d ds Hi Hl Hsq) as Hcur. fold e in Hcur.
  pose proof (adv_pending L mask idx e' ds Hi Hsq') as Hadv.
  change (esq e') with (esq e) in Hadv. change (epromo e') with (epromo e) in Hadv.
  destruct (adv_facts L mask idx d ds Hi HB Hl eq_refl Hsq Hsq') as [HWa [Hcl Hinv]].
  fold e in HWa, Hcl, Hinv. fold e' in HWa, Hcl, Hinv.
  destruct (epromo e) eqn:Hpr.
  - (* promotion entry *)
    destruct (N.leb_spec 4 (p + 1)) as [Hp4|Hp4].
    + (* fourth piece: p = 3 *)
      assert (p = 3) by lia. subst p.
      change {| moves := upd L idx e'; promotion_index := 0; iterator_mask := mask;
                index := if N.land (ebb e') mask =? 0 then S idx else idx |}
        with (adv L mask idx e').
      split; [|split; [exact HWa|split; [reflexivity|split; [exact Hcl|]]]].
      * unfold pending at 1. cbn [moves promotion_index iterator_mask index].
        rewrite Hcur, Hadv.
        generalize (flat_map (emoves (esq e) true) ds ++ tail_of mask L idx). intros T. reflexivity.
      * intros [_ Hbef Hpar]. apply Hinv; assumption.
    + (* pieces 1..3 *)
      split; [|split; [|split; [reflexivity|split; [reflexivity|]]]].
      * unfold pending. cbn [moves promotion_index iterator_mask index].
        rewrite Hcur.
        generalize (flat_map (emoves (esq e) true) ds ++ tail_of mask L idx). intros T.
        assert (Hp' : p = 0 \/ p = 1 \/ p = 2) by lia.
        destruct Hp' as [->|[->| ->]]; reflexivity.
      * constructor; cbn [moves promotion_index iterator_mask index]; [lia|exact HB|].
        intros _. fold e. auto.
      * intros [_ Hbef Hpar]. cbn [moves promotion_index iterator_mask index] in *.
        constructor; cbn [moves promotion_index iterator_mask index]; auto.
        constructor; cbn [moves promotion_index iterator_mask index]; [lia|exact HB|].
        intros _. fold e. auto.
  - (* ordinary entry: the cursor must be 0 *)
    assert (p = 0).
    { destruct (N.eq_dec p 0) as [E|Hne]; [exact E|].
      destruct Hc as [_ [_ Hc]]; [lia|]. fold e in Hc. congruence. }
    subst p.
    change {| moves := upd L idx e'; promotion_index := 0; iterator_mask := mask;
              index := if N.land (ebb e') mask =? 0 then S idx else idx |}
      with (adv L mask idx e').
    split; [|split; [exact HWa|split; [reflexivity|split; [exact Hcl|]]]].
    * unfold pending at 1. cbn [moves promotion_index iterator_mask index].
      rewrite Hcur, Hadv. reflexivity.
    * intros [_ Hbef Hpar]. apply Hinv; assumption.
Qed.

Lemma next_none_p0 g : WInv g -> fst (next g) = None -> promotion_index g = 0.
Proof.
  intros [Hp HB Hc] Hn. destruct (N.eq_dec (promotion_index g) 0) as [E|Hne]; [exact E|exfalso].
  destruct Hc as [Hi [Hl Hpr]]; [lia|].
  unfold next in Hn. apply Nat.leb_gt in Hi. rewrite Hi, Hl, Hpr in Hn. cbn [negb] in Hn.
  destruct (4 <=? promotion_index g + 1); discriminate Hn.
Qed.

(** ** [drain] *)
Theorem drain_spec : forall fuel g, WInv g -> (length (pending g) < fuel)%nat ->
  fst (drain fuel g) = pending g /\
  WInv (snd (drain fuel g)) /\
  next (snd (drain fuel g)) = (None, snd (drain fuel g)) /\
  pending (snd (drain fuel g)) = [] /\
  promotion_index (snd (drain fuel g)) = 0 /\
  iterator_mask (snd (drain fuel g)) = iterator_mask g /\
  map (clear (iterator_mask g)) (moves (snd (drain fuel g))) = map (clear (iterator_mask g)) (moves g) /\
  (Inv g -> Inv (snd (drain fuel g))).
Proof.
  induction fuel as [|f IH]; intros g HW Hlen; [lia|].
  cbn [drain]. pose proof (next_step g HW) as Hs.
  destruct (next g) as [[c|] g1] eqn:Hn.
  - destruct Hs as [Hpend [HW1 [Hm [Hcl Hinv]]]].
    assert (Hlen1 : (length (pending g1) < f)%nat) by (rewrite Hpend in Hlen; cbn [length] in Hlen; lia).
    specialize (IH g1 HW1 Hlen1). destruct (drain f g1) as [r g2]. cbn [fst snd] in *.
    destruct IH as [I1 [I2 [I3 [I4 [I5 [I6 [I7 I8]]]]]]].
    rewrite Hm in I6, I7.
    split; [rewrite Hpend, I1; reflexivity|].
    split; [exact I2|]. split; [exact I3|]. split; [exact I4|]. split; [exact I5|].
    split; [exact I6|]. split; [rewrite I7; exact Hcl|]. intros HI. apply I8, Hinv, HI.
  - destruct Hs as [-> Hpend]. cbn [fst snd].
    split; [symmetry; exact Hpend|].
    split; [exact HW|]. split; [exact Hn|]. split; [exact Hpend|].
    split; [apply next_none_p0; [exact HW|]; rewrite Hn; reflexivity|].
    split; [reflexivity|]. split; [reflexivity|]. intros HI; exact HI.
Qed.

(** ** the fresh generator (goal G1) *)
Lemma take_live_all m : forall l, Forall (fun e => live m e = true) l -> take_live m l = l.
Proof.
  induction l as [|e r IH]; intros H; cbn [take_live]; [reflexivity|].
  inversion H as [|? ? He Hr]; subst. rewrite He, IH by exact Hr. reflexivity.
Qed.

Lemma parted_all_live m : forall l, Forall (fun e => live m e = true) l -> parted m l.
Proof.
  induction l as [|e r IH]; intros H; cbn [parted]; [exact I|].
  inversion H as [|? ? He Hr]; subst. rewrite He. apply IH, Hr.
Qed.

Lemma restrict_M64 e : ebb e < 2^64 -> restrict M64 e = e.
Proof.
  intros H. unfold restrict, set_bb. rewrite land_M64 by (apply lt_bounded; exact H).
  destruct e; reflexivity.
Qed.

Lemma WF_EB L : WF L -> EB L.
Proof. intros H. eapply Forall_impl; [|exact H]. intros e [_ He]. exact He. Qed.

Lemma WF_live L : WF L -> Forall (fun e => live M64 e = true) L.
Proof.
  intros H. eapply Forall_impl; [|exact H]. intros e [Hnz He]. apply live_true.
  rewrite land_M64 by (apply lt_bounded; exact He). exact Hnz.
Qed.

Lemma map_restrict_M64 : forall L, EB L -> map (restrict M64) L = L.
Proof.
  induction L as [|e r IH]; intros H; cbn [map]; [reflexivity|].
  inversion H as [|? ? He Hr]; subst. rewrite restrict_M64, IH by assumption. reflexivity.
Qed.

Lemma WInv_p0 L mask idx : EB L ->
  WInv {| moves := L; promotion_index := 0; iterator_mask := mask; index := idx |}.
Proof. intros H. constructor; cbn [moves promotion_index iterator_mask index]; [lia|exact H|lia]. Qed.

Theorem Inv_g0 L : WF L -> Inv (g0 L).
Proof.
  intros H. constructor.
  - apply WInv_p0, WF_EB, H.
  - constructor.
  - cbn [g0 moves iterator_mask index skipn]. apply parted_all_live, WF_live, H.
Qed.

Theorem pending_g0 L : WF L -> pending (g0 L) = expand L.
Proof.
  intros H. unfold pending, g0. cbn [moves promotion_index iterator_mask index].
  change (N.to_nat 0) with 0%nat. cbn [skipn].
  rewrite take_live_all by (apply WF_live, H). rewrite map_restrict_M64 by (apply WF_EB, H).
  reflexivity.
Qed.

(** G1: a fresh generator yields exactly [expand L], in that order, then reports exhaustion. *)
Theorem drain_g0 L fuel : WF L -> (length (expand L) < fuel)%nat ->
  fst (drain fuel (g0 L)) = expand L /\
  next (snd (drain fuel (g0 L))) = (None, snd (drain fuel (g0 L))) /\
  len (snd (drain fuel (g0 L))) = 0.
Proof.
  intros H Hf. pose proof (Inv_g0 L H) as [HW _ _].
  rewrite <- (pending_g0 L H) in Hf.
  destruct (drain_spec fuel (g0 L) HW Hf) as [D1 [D2 [D3 [D4 _]]]].
  rewrite D1, pending_g0 by exact H. split; [reflexivity|]. split; [exact D3|].
  rewrite len_pending, D4. reflexivity.
Qed.

(** G2: [len] is exactly the number of moves still yielded under the current mask. *)
Theorem len_exact g fuel : WInv g -> (N.to_nat (len g) < fuel)%nat ->
  len g = N.of_nat (length (fst (drain fuel g))).
Proof.
  intros HW Hf. rewrite len_pending in Hf. rewrite Nat2N.id in Hf.
  destruct (drain_spec fuel g HW Hf) as [D1 _]. rewrite D1. apply len_pending.
Qed.

Theorem Inv_next g : Inv g -> Inv (snd (next g)).
Proof.
  intros H. pose proof (next_step g (inv_w g H)) as Hs.
  destruct (next g) as [[c|] g1]; cbn [snd].
  - apply Hs, H.
  - destruct Hs as [-> _]. exact H.
Qed.

Theorem WInv_next g : WInv g -> WInv (snd (next g)).
Proof.
  intros H. pose proof (next_step g H) as Hs.
  destruct (next g) as [[c|] g1]; cbn [snd].
  - destruct Hs as [_ [Hw _]]. exact Hw.
  - destruct Hs as [-> _]. exact H.
Qed.

(** each [next] decreases [len] by exactly one; [None] iff [len = 0] *)
Theorem len_next g : WInv g ->
  match fst (next g) with
  | Some _ => len g = len (snd (next g)) + 1
  | None => len g = 0
  end.
Proof.
  intros H. pose proof (next_step g H) as Hs. rewrite !len_pending.
  destruct (next g) as [[c|] g1]; cbn [fst snd].
  - destruct Hs as [-> _]. cbn [length]. lia.
  - destruct Hs as [_ ->]. reflexivity.
Qed.
