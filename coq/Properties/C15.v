(** * C15 — for every square and every occupancy (all 2^64), the magic-bitboard rook and
    bishop attack look-ups over the translated tables equal ray walking. *)
From Chess Require Import Spec.Geometry Model.Magic Proofs.WalkDep Proofs.MagicSweep.
Open Scope N_scope.

Theorem C15_rook_magic : forall sq occ,
  sq < 64 -> occ < 2^64 -> magic_lookup 0 sq occ = Some (rook_walk sq occ).
Proof. exact rook_magic64. Qed.

Theorem C15_bishop_magic : forall sq occ,
  sq < 64 -> occ < 2^64 -> magic_lookup 1 sq occ = Some (bishop_walk sq occ).
Proof. exact bishop_magic64. Qed.

Check C15_rook_magic : forall sq occ : N,
  sq < 64 -> occ < 2^64 -> magic_lookup 0 sq occ = Some (rook_walk sq occ).
Print Assumptions C15_rook_magic.
Check C15_bishop_magic : forall sq occ : N,
  sq < 64 -> occ < 2^64 -> magic_lookup 1 sq occ = Some (bishop_walk sq occ).
Print Assumptions C15_bishop_magic.
