(** * Proofs.GenCastleLift — when the side to move is not in check, [legal_king_move b t]
    (attack test on [t] with the king lifted off the board and [t] occupied) is exactly
    "[t] is not attacked by the enemy in the position itself": a slider that would reach [t]
    only through the king's square would already give check. *)
From Coq Require Import Lia ZifyBool ZifyN ZifyNat.
From Chess Require Import Base.Bits Spec.Geometry Spec.Rules Model.Board Model.MoveGen.
From Chess Require Import Proofs.BitsFacts Proofs.TablesLib Proofs.TablesMeaning Proofs.AbsBoard
                          Proofs.CanonAttack Proofs.CanonCheckers Proofs.CanonPinned Proofs.NullMove
                          Proofs.CanonNullMove Proofs.GenInterface Proofs.GenKingBase.
Open Scope N_scope.

(** a square [k] strictly between [t] and [s]: [k] is aligned with [s] the same way, and the
    squares between [k] and [s] are among those between [t] and [s] *)
Lemma through_sweep :
  forallb (fun t => forallb (fun s => forallb (fun k =>
     implb (aligned_o t s) (aligned_o k s) && implb (aligned_d t s) (aligned_d k s)
     && (N.ldiff (between k s) (between t s) =? 0))
     (squares_of (between t s))) all_sq) all_sq = true.
Proof. vm_cast_no_check (eq_refl true). Qed.

Lemma through t s k : t < 64 -> s < 64 -> N.testbit (between t s) k = true ->
  (aligned_o t s = true -> aligned_o k s = true) /\
  (aligned_d t s = true -> aligned_d k s = true) /\
  (forall x, N.testbit (between k s) x = true -> N.testbit (between t s) x = true).
Proof.
  intros Ht Hs Hk. pose proof (sweep64_2 _ through_sweep t s Ht Hs) as H. cbv beta in H.
  rewrite forallb_forall in H. specialize (H k (proj2 (squares_of_spec _ k) Hk)).
  apply andb_prop in H. destruct H as [H H3]. apply andb_prop in H. destruct H as [H1 H2].
  apply N.eqb_eq in H3.
  split; [|split].
  - intro E. rewrite E in H1. exact H1.
  - intro E. rewrite E in H2. exact H2.
  - intros x Hx. pose proof (f_equal (fun z => N.testbit z x) H3) as Hb. cbv beta in Hb.
    rewrite N.ldiff_spec, N.bits_0, Hx in Hb. cbn [andb] in Hb.
    destruct (N.testbit (between t s) x); [reflexivity|discriminate Hb].
Qed.

Section Lift.
Variable b : board.
Hypothesis HS : Setup b.
Local Notation p := (abs_board b).
Local Notation me := (stm b).
Local Notation k := (king_square b (stm b)).
Hypothesis Hnc : in_check p me = false.
Variable t : N.
Hypothesis Ht : t < 64.
Local Notation w := (comb b).
Local Notation wl := (N.lor (N.lxor (comb b) (N.land (pK b) (color_combined b me))) (bit t)).

Lemma no_attack_on_king s : s < 64 -> att_rev (at_ p s) me s k w = false.
Proof.
  intro Hs. rewrite <- (att_sq_rev _ me s k w Hs (su_k_lt b HS)).
  pose proof (su_in_check b HS) as H. rewrite Hnc in H. symmetry in H.
  exact (existsb_false_all _ _ H s (proj2 (in_all_sq s) Hs)).
Qed.

Lemma comb_king : N.testbit w k = true.
Proof.
  rewrite <- (su_occ b HS k (su_k_lt b HS)). unfold occ. rewrite (su_at_king b HS). reflexivity.
Qed.

Lemma lift_generic (walkf:N->N->N) (al:N->N->bool) :
  (forall s0 t0 o, s0 < 64 -> t0 < 64 ->
     N.testbit (walkf s0 o) t0 = al s0 t0 && (N.land (between s0 t0) o =? 0)) ->
  (forall t0 s0 k0, t0 < 64 -> s0 < 64 -> N.testbit (between t0 s0) k0 = true ->
     al t0 s0 = true -> al k0 s0 = true) ->
  forall s, s < 64 -> N.testbit (walkf k w) s = false ->
  N.testbit (walkf t wl) s = N.testbit (walkf t w) s.
Proof.
  intros Hwalk Hal s Hs Hno. pose proof (su_k_lt b HS) as Hk.
  rewrite !Hwalk by assumption. destruct (al t s) eqn:Halts; [|reflexivity]. cbn [andb].
  apply eq_true_iff_eq. rewrite !N.eqb_eq, !land_eq0_bits.
  rewrite (su_kingbit b HS).
  destruct (between_ends t s Ht Hs) as [Hbt _].
  split.
  - intros H i Hi. pose proof (H i Hi) as Hw.
    rewrite N.lor_spec, N.lxor_spec, !TablesLib.testbit_bit in Hw.
    apply orb_false_elim in Hw. destruct Hw as [Hw _].
    destruct (N.eqb_spec k i) as [<-|Hki]; [|rewrite xorb_false_r in Hw; exact Hw].
    exfalso.
    destruct (through t s k Ht Hs Hi) as [_ [_ Hsub]].
    rewrite (Hwalk k s w Hk Hs), (Hal t s k Ht Hs Hi Halts) in Hno. cbn [andb] in Hno.
    apply N.eqb_neq in Hno. apply Hno. apply land_eq0_bits. intros x Hx.
    pose proof (H x (Hsub x Hx)) as Hwx.
    rewrite N.lor_spec, N.lxor_spec, !TablesLib.testbit_bit in Hwx.
    apply orb_false_elim in Hwx. destruct Hwx as [Hwx _].
    destruct (N.eqb_spec k x) as [<-|_]; [|rewrite xorb_false_r in Hwx; exact Hwx].
    rewrite (proj1 (between_ends k s Hk Hs)) in Hx. discriminate Hx.
  - intros H i Hi. pose proof (H i Hi) as Hw.
    rewrite N.lor_spec, N.lxor_spec, !TablesLib.testbit_bit, Hw.
    destruct (N.eqb_spec t i) as [<-|_]; [rewrite Hbt in Hi; discriminate Hi|].
    destruct (N.eqb_spec k i) as [<-|_]; [rewrite comb_king in Hw; discriminate Hw|]. reflexivity.
Qed.

Lemma lift_rook s : s < 64 -> N.testbit (rook_walk k w) s = false ->
  N.testbit (rook_walk t wl) s = N.testbit (rook_walk t w) s.
Proof.
  apply (lift_generic rook_walk aligned_o).
  - intros. apply rook_walk_between; assumption.
  - intros t0 s0 k0 H1 H2 H3 H4. exact (proj1 (through t0 s0 k0 H1 H2 H3) H4).
Qed.
Lemma lift_bishop s : s < 64 -> N.testbit (bishop_walk k w) s = false ->
  N.testbit (bishop_walk t wl) s = N.testbit (bishop_walk t w) s.
Proof.
  apply (lift_generic bishop_walk aligned_d).
  - intros. apply bishop_walk_between; assumption.
  - intros t0 s0 k0 H1 H2 H3 H4. exact (proj1 (proj2 (through t0 s0 k0 H1 H2 H3)) H4).
Qed.

Theorem lkm_lifted : legal_king_move b t = negb (attacked_by p (opp me) t).
Proof.
  rewrite (legal_king_move_existsb b (su_cons b HS) t).
  rewrite (attacked_by_gen p w (su_occ b HS) (opp me) t Ht). f_equal.
  apply existsb_ext_in. intros s Hs. apply in_all_sq in Hs.
  rewrite (att_sq_rev _ me s t w Hs Ht).
  pose proof (no_attack_on_king s Hs) as Hno. unfold att_rev in *.
  destruct (at_ p s) as [[q c']|]; [|reflexivity].
  destruct (color_eqb (opp me) c'); cbn [andb] in *; [|reflexivity].
  destruct q; [reflexivity|reflexivity| | | |reflexivity].
  - apply lift_bishop; assumption.
  - apply lift_rook; assumption.
  - apply orb_false_elim in Hno. destruct Hno as [H1 H2].
    rewrite (lift_rook s Hs H1), (lift_bishop s Hs H2). reflexivity.
Qed.
End Lift.
