(** * C05 (specification level) — legal play stays within valid positions; rights and material
    only shrink.  For ALL positions [p] of [Spec.Rules] and ALL moves [m] (no bounds):
    one legal move of a valid position yields a valid position ([pos_valid]: 64 cells, exactly
    one king per side, at most 16 men / 8 pawns per side, no pawn on the first or last rank,
    the side that just moved is not in check, surviving castling rights backed by king and rook
    on their home squares, the en-passant clause), hence so does every legal path; castling
    rights never come back, and neither the number of men nor the number of pawns of a side
    ever grows. *)
From Chess Require Import Spec.Rules Proofs.SpecInvBase Proofs.SpecInvGoals Proofs.SpecInvExamples.
Open Scope N_scope.

(** ** monotone quantities *)
Theorem C05_rights_shrink : forall p m,
  (wk (apply p m) = true -> wk p = true) /\ (wq (apply p m) = true -> wq p = true) /\
  (bk (apply p m) = true -> bk p = true) /\ (bq (apply p m) = true -> bq p = true).
Proof. exact rights_shrink. Qed.
Check C05_rights_shrink : forall p m,
  (wk (apply p m) = true -> wk p = true) /\ (wq (apply p m) = true -> wq p = true) /\
  (bk (apply p m) = true -> bk p = true) /\ (bq (apply p m) = true -> bq p = true).
Print Assumptions C05_rights_shrink.

Theorem C05_placement_length : forall p m, length (placement (apply p m)) = length (placement p).
Proof. exact apply_length. Qed.
Check C05_placement_length : forall p m, length (placement (apply p m)) = length (placement p).
Print Assumptions C05_placement_length.

Theorem C05_men_nonincreasing : forall p m c,
  pos_valid p = true -> In m (legal_moves p) -> men (apply p m) c <= men p c.
Proof. exact men_nonincreasing. Qed.
Check C05_men_nonincreasing : forall p m c,
  pos_valid p = true -> In m (legal_moves p) -> men (apply p m) c <= men p c.
Print Assumptions C05_men_nonincreasing.

Theorem C05_pawns_nonincreasing : forall p m c,
  pos_valid p = true -> In m (legal_moves p) -> pawns (apply p m) c <= pawns p c.
Proof. exact pawns_nonincreasing. Qed.
Check C05_pawns_nonincreasing : forall p m c,
  pos_valid p = true -> In m (legal_moves p) -> pawns (apply p m) c <= pawns p c.
Print Assumptions C05_pawns_nonincreasing.

Theorem C05_counts_bounded : forall p m c,
  pos_valid p = true -> In m (legal_moves p) -> men (apply p m) c <= 16 /\ pawns (apply p m) c <= 8.
Proof. exact counts_bounded. Qed.
Check C05_counts_bounded : forall p m c,
  pos_valid p = true -> In m (legal_moves p) -> men (apply p m) c <= 16 /\ pawns (apply p m) c <= 8.
Print Assumptions C05_counts_bounded.

(** ** the clauses of validity, one by one *)
Theorem C05_one_king_preserved : forall p m c,
  pos_valid p = true -> In m (legal_moves p) -> kings (apply p m) c = 1.
Proof. exact one_king_preserved. Qed.
Check C05_one_king_preserved : forall p m c,
  pos_valid p = true -> In m (legal_moves p) -> kings (apply p m) c = 1.
Print Assumptions C05_one_king_preserved.

Theorem C05_no_king_capture : forall p m,
  pos_valid p = true -> In m (legal_moves p) ->
  has p (dst m) King (opp (turn p)) = false /\ has p (dst m) King (turn p) = false.
Proof. exact no_king_capture_legal. Qed.
Check C05_no_king_capture : forall p m,
  pos_valid p = true -> In m (legal_moves p) ->
  has p (dst m) King (opp (turn p)) = false /\ has p (dst m) King (turn p) = false.
Print Assumptions C05_no_king_capture.

Theorem C05_mover_not_in_check : forall p m, In m (legal_moves p) ->
  in_check (apply p m) (turn p) = false /\ turn (apply p m) = opp (turn p).
Proof. exact mover_not_in_check. Qed.
Check C05_mover_not_in_check : forall p m, In m (legal_moves p) ->
  in_check (apply p m) (turn p) = false /\ turn (apply p m) = opp (turn p).
Print Assumptions C05_mover_not_in_check.

Theorem C05_no_back_rank_pawns : forall p m,
  pos_valid p = true -> In m (legal_moves p) ->
  forall s c, rank_of s = 0 \/ rank_of s = 7 -> has (apply p m) s Pawn c = false.
Proof. exact no_back_rank_pawns. Qed.
Check C05_no_back_rank_pawns : forall p m,
  pos_valid p = true -> In m (legal_moves p) ->
  forall s c, rank_of s = 0 \/ rank_of s = 7 -> has (apply p m) s Pawn c = false.
Print Assumptions C05_no_back_rank_pawns.

Theorem C05_rights_backed : forall p m, pos_valid p = true -> In m (legal_moves p) ->
  (wk (apply p m) = true -> has (apply p m) 4 King White = true /\ has (apply p m) 7 Rook White = true) /\
  (wq (apply p m) = true -> has (apply p m) 4 King White = true /\ has (apply p m) 0 Rook White = true) /\
  (bk (apply p m) = true -> has (apply p m) 60 King Black = true /\ has (apply p m) 63 Rook Black = true) /\
  (bq (apply p m) = true -> has (apply p m) 60 King Black = true /\ has (apply p m) 56 Rook Black = true).
Proof. exact rights_backed. Qed.
Check C05_rights_backed : forall p m, pos_valid p = true -> In m (legal_moves p) ->
  (wk (apply p m) = true -> has (apply p m) 4 King White = true /\ has (apply p m) 7 Rook White = true) /\
  (wq (apply p m) = true -> has (apply p m) 4 King White = true /\ has (apply p m) 0 Rook White = true) /\
  (bk (apply p m) = true -> has (apply p m) 60 King Black = true /\ has (apply p m) 63 Rook Black = true) /\
  (bq (apply p m) = true -> has (apply p m) 60 King Black = true /\ has (apply p m) 56 Rook Black = true).
Print Assumptions C05_rights_backed.

Theorem C05_ep_clause_preserved : forall p m,
  pos_valid p = true -> In m (legal_moves p) -> ep_ok (apply p m) = true.
Proof. exact ep_clause_preserved. Qed.
Check C05_ep_clause_preserved : forall p m,
  pos_valid p = true -> In m (legal_moves p) -> ep_ok (apply p m) = true.
Print Assumptions C05_ep_clause_preserved.

Theorem C05_ep_recorded_shape : forall p m t,
  pos_valid p = true -> In m (legal_moves p) -> ep (apply p m) = Some t ->
  at_ p (src m) = Some (Pawn, turn p) /\ rank_of (src m) = start_rank (turn p) /\
  step (src m) (0, fwdc (turn p))%Z = Some t /\ step t (0, fwdc (turn p))%Z = Some (dst m) /\
  at_ p t = None /\ at_ p (dst m) = None.
Proof. exact ep_recorded_shape. Qed.
Check C05_ep_recorded_shape : forall p m t,
  pos_valid p = true -> In m (legal_moves p) -> ep (apply p m) = Some t ->
  at_ p (src m) = Some (Pawn, turn p) /\ rank_of (src m) = start_rank (turn p) /\
  step (src m) (0, fwdc (turn p))%Z = Some t /\ step t (0, fwdc (turn p))%Z = Some (dst m) /\
  at_ p t = None /\ at_ p (dst m) = None.
Print Assumptions C05_ep_recorded_shape.

(** [in_check] reads nothing but the placement *)
Theorem C05_in_check_placement_only : forall p q c,
  placement p = placement q -> in_check p c = in_check q c.
Proof. exact in_check_ext. Qed.
Check C05_in_check_placement_only : forall p q c,
  placement p = placement q -> in_check p c = in_check q c.
Print Assumptions C05_in_check_placement_only.

(** ** the full statement: one move, then every path *)
Theorem C05_pos_valid_preserved : forall p m,
  pos_valid p = true -> In m (legal_moves p) -> pos_valid (apply p m) = true.
Proof. exact pos_valid_preserved. Qed.
Check C05_pos_valid_preserved : forall p m,
  pos_valid p = true -> In m (legal_moves p) -> pos_valid (apply p m) = true.
Print Assumptions C05_pos_valid_preserved.

(** [LegalPath p ms]: [ms] is a sequence of moves, each legal in the position reached so far
    ([LP_nil : LegalPath p []],
     [LP_cons : In m (legal_moves p) -> LegalPath (apply p m) ms -> LegalPath p (m :: ms)]);
    [rights_le q p]: every castling right of [q] is a right of [p]. *)
Print LegalPath.
Print rights_le.

Theorem C05_reachable_valid : forall p ms,
  pos_valid p = true -> LegalPath p ms ->
  let q := fold_left apply ms p in
  pos_valid q = true /\ rights_le q p /\
  (forall c, men q c <= men p c) /\ (forall c, pawns q c <= pawns p c).
Proof. exact reachable_valid. Qed.
Check C05_reachable_valid : forall p ms,
  pos_valid p = true -> LegalPath p ms ->
  let q := fold_left apply ms p in
  pos_valid q = true /\
  ((wk q = true -> wk p = true) /\ (wq q = true -> wq p = true) /\
   (bk q = true -> bk p = true) /\ (bq q = true -> bq p = true)) /\
  (forall c, men q c <= men p c) /\ (forall c, pawns q c <= pawns p c).
Print Assumptions C05_reachable_valid.

(** every position passed through (every prefix of the history) is valid *)
Theorem C05_reachable_prefix_valid : forall p ms ns,
  pos_valid p = true -> LegalPath p (ms ++ ns) -> pos_valid (fold_left apply ms p) = true.
Proof. exact reachable_prefix_valid. Qed.
Check C05_reachable_prefix_valid : forall p ms ns,
  pos_valid p = true -> LegalPath p (ms ++ ns) -> pos_valid (fold_left apply ms p) = true.
Print Assumptions C05_reachable_prefix_valid.

(** ** the hypotheses are satisfiable *)
Example C05_ex_startpos : pos_valid startpos = true /\ In (mv 12 28) (legal_moves startpos).
Proof. exact startpos_ok. Qed.
(** after 1.e4 a6 2.e5 d5: valid, en-passant target d6 recorded, exd6 e.p. legal *)
Example C05_ex_en_passant :
  pos_valid ex_ep_pos = true /\ ep ex_ep_pos = Some 43 /\ In (mv 36 43) (legal_moves ex_ep_pos)
  /\ is_ep ex_ep_pos (mv 36 43) = true.
Proof. exact ex_ep_pos_ok. Qed.
(** a seven-ply legal history containing a double push, an en-passant capture and a recapture *)
Example C05_ex_path : LegalPath startpos ex_moves.
Proof. exact ex_path. Qed.
(** castling and (capturing) promotions are legal in a valid position *)
Example C05_ex_castle_promo :
  pos_valid ex_cp_pos = true /\ In (mv 4 6) (legal_moves ex_cp_pos)
  /\ In {| src := 49; dst := 56; promo := Some Queen |} (legal_moves ex_cp_pos)
  /\ In {| src := 49; dst := 58; promo := Some Knight |} (legal_moves ex_cp_pos).
Proof. exact ex_cp_pos_ok. Qed.
