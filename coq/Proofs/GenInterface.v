(** * Proofs.GenInterface — the interface statements of the move-generator refinement
    (property C01, theorem T_gen), as [Prop] definitions, together with executable boolean
    instances used to test each statement on real positions before it is proved
    (the boolean checks are run by the correspondence driver; they prove nothing). *)
From Chess Require Import Base.Bits Spec.Geometry Spec.Rules Model.Board Model.MoveGen.
Open Scope N_scope.

(** the mover's king is not attacked after the move *)
Definition safe (p:pos) (m:move) : bool := negb (in_check (apply p m) (turn p)).
Definition kingsq (p:pos) : N := match king_sq p (turn p) with Some k => k | None => 0 end.
Definition piece_at_is (p:pos) (s:N) (t:ptype) : bool :=
  match at_ p s with Some (t',_) => ptype_eqb t t' | None => false end.

(** ** X. Safety of a move of a man other than the king (not en passant) *)
Definition safe_nonking_rhs (p:pos) (m:move) : bool :=
  let k := kingsq p in
  match checkers_of p with
  | [] => negb (mem (src m) (pinned_of p)) || N.testbit (line (src m) k) (dst m)
  | [c] => negb (mem (src m) (pinned_of p)) && (N.testbit (between c k) (dst m) || (dst m =? c))
  | _ => false
  end.
Definition stmt_safe_nonking : Prop := forall p m,
  pos_valid p = true -> In m (pseudo p) -> piece_at_is p (src m) King = false -> is_ep p m = false ->
  safe p m = safe_nonking_rhs p m.
Definition test_safe_nonking (p:pos) : bool :=
  forallb (fun m => piece_at_is p (src m) King || is_ep p m || Bool.eqb (safe p m) (safe_nonking_rhs p m)) (pseudo p).

(** ** Y1. King steps: the attack test with the king lifted off the board *)
Definition stmt_king_step : Prop := forall b d,
  b = from_scratch (abs_board b) -> pos_valid (abs_board b) = true -> d < 64 ->
  N.testbit (king_moves (kingsq (abs_board b))) d = true -> own (abs_board b) (stm b) d = false ->
  safe (abs_board b) (mv (kingsq (abs_board b)) d) = legal_king_move b d.
Definition test_king_step (b:board) : bool :=
  let p := abs_board b in let k := kingsq p in
  forallb (fun d => negb (N.testbit (king_moves k) d) || own p (stm b) d
                    || Bool.eqb (safe p (mv k d)) (legal_king_move b d)) all_sq.

(** ** Y2. Castling: the code's conditions are the specification's, and the move is safe *)
Definition code_castle_k (b:board) : bool :=
  let c := stm b in let k := king_square b c in
  (checkers b =? 0) && cr_has_kingside (castle_rights b c) && (N.land (comb b) (kingside_squares c) =? 0)
  && legal_king_move b (uright k) && legal_king_move b (uright (uright k)).
Definition code_castle_q (b:board) : bool :=
  let c := stm b in let k := king_square b c in
  (checkers b =? 0) && cr_has_queenside (castle_rights b c) && (N.land (comb b) (queenside_squares c) =? 0)
  && legal_king_move b (uleft k) && legal_king_move b (uleft (uleft k)).
Definition spec_castle (p:pos) (kingside:bool) : bool :=
  let c := turn p in let r := home_rank c in
  existsb (fun m => (src m =? r*8+4) && (dst m =? (if kingside then r*8+6 else r*8+2))) (castle_moves p c).
Definition stmt_castle : Prop := forall b,
  b = from_scratch (abs_board b) -> pos_valid (abs_board b) = true ->
  code_castle_k b = spec_castle (abs_board b) true /\ code_castle_q b = spec_castle (abs_board b) false /\
  (forall m, In m (castle_moves (abs_board b) (stm b)) -> safe (abs_board b) m = true).
Definition test_castle (b:board) : bool :=
  let p := abs_board b in
  Bool.eqb (code_castle_k b) (spec_castle p true) && Bool.eqb (code_castle_q b) (spec_castle p false)
  && forallb (safe p) (castle_moves p (stm b)).

(** ** Y3. En passant: the slider re-scan decides safety (uses PosValid clause 6) *)
Definition stmt_ep : Prop := forall b e s,
  b = from_scratch (abs_board b) -> pos_valid (abs_board b) = true -> epsq b = Some e -> s < 64 ->
  has (abs_board b) s Pawn (stm b) = true ->
  N.testbit (N.land (get_rank (sq_rank e)) (get_adjacent_files (sq_file e))) s = true ->
  legal_ep_move b s (uforward (stm b) e) = Some (safe (abs_board b) (mv s (uforward (stm b) e))).
Definition test_ep (b:board) : bool :=
  match epsq b with
  | None => true
  | Some e =>
    let p := abs_board b in
    forallb (fun s => negb (has p s Pawn (stm b)) || negb (N.testbit (N.land (get_rank (sq_rank e)) (get_adjacent_files (sq_file e))) s)
                      || match legal_ep_move b s (uforward (stm b) e) with
                         | Some r => Bool.eqb r (safe p (mv s (uforward (stm b) e))) | None => false end) all_sq
  end.

(** ** P. Pseudo-legal layer: the destination word of each man is the specification's set *)
Definition code_dests (b:board) (t:ptype) (s:N) : N :=
  let me := stm b in let occ := comb b in
  let mask := lnot64 (color_combined b me) in
  match t with
  | Knight => N.land (knight_moves s) mask
  | Bishop => N.land (get_bishop_moves s occ) mask
  | Rook => N.land (get_rook_moves s occ) mask
  | Queen => N.land (N.lxor (get_rook_moves s occ) (get_bishop_moves s occ)) mask
  | King => N.land (king_moves s) mask
  | Pawn => N.land (get_pawn_moves s me occ) mask
  end.
(** destinations of the specification's pseudo-legal moves from [s], en passant and castling excluded *)
Definition spec_dests (p:pos) (s:N) : list N :=
  map dst (filter (fun m => negb (is_ep p m) && negb (is_castle p m)) (pseudo_from p s)).
Definition stmt_pseudo : Prop := forall b s t d,
  b = from_scratch (abs_board b) -> pos_valid (abs_board b) = true -> s < 64 -> d < 64 ->
  has (abs_board b) s t (stm b) = true ->
  (N.testbit (code_dests b t s) d = true <-> In d (spec_dests (abs_board b) s)).
Definition test_pseudo (b:board) : bool :=
  let p := abs_board b in
  forallb (fun s => match at_ p s with
                    | Some (t,c) => if color_eqb c (stm b)
                                    then forallb (fun d => Bool.eqb (N.testbit (code_dests b t s) d) (mem d (spec_dests p s))) all_sq
                                    else true
                    | None => true end) all_sq.
(** promotions: a pawn move is a promotion (4 moves) exactly from the seventh rank *)
Definition test_promo (b:board) : bool :=
  let p := abs_board b in
  forallb (fun m => match at_ p (src m) with
                    | Some (Pawn,_) => Bool.eqb (match promo m with Some _ => true | None => false end) (sq_rank (src m) =? seventh_rk (stm b))
                    | _ => match promo m with None => true | Some _ => false end end) (pseudo p).

(** ** all interface tests on one board *)
Definition test_interfaces (b:board) : N :=
  (if test_safe_nonking (abs_board b) then 0 else 1) + (if test_king_step b then 0 else 2)
  + (if test_castle b then 0 else 4) + (if test_ep b then 0 else 8) + (if test_pseudo b then 0 else 16)
  + (if test_promo b then 0 else 32).

(** ** G. The refinement itself (T_gen) *)
From Coq Require Import Permutation.
Definition stmt_promo : Prop := forall b m,
  b = from_scratch (abs_board b) -> pos_valid (abs_board b) = true -> In m (pseudo (abs_board b)) ->
  match at_ (abs_board b) (src m) with
  | Some (Pawn,_) => (match promo m with Some _ => true | None => false end) = (sq_rank (src m) =? seventh_rk (stm b))
  | _ => promo m = None end.
Definition stmt_gen : Prop := forall b,
  b = from_scratch (abs_board b) -> pos_valid (abs_board b) = true ->
  Permutation (expand (enumerate_moves b)) (map of_spec_move (legal_moves (abs_board b)))
  /\ NoDup (expand (enumerate_moves b)).
(** the canonical board of a valid position abstracts back to it, and is accepted *)
Definition stmt_roundtrip : Prop := forall p,
  pos_valid p = true -> abs_board (from_scratch p) = p /\ is_sane (from_scratch p) = true.
