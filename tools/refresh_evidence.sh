#!/bin/bash
# Re-runs every claimed check on the clean tree (quick tier) and validates MANIFEST + evidence.
cd /verif
git -C /repo diff --quiet || { echo "/repo has uncommitted changes"; exit 2; }
python3 checklib/mkmanifest.py
fail=0
for p in $(python3 -c "import json;print(' '.join(c['property_id'] for c in json.load(open('MANIFEST.json'))['checks']))"); do
  out=$(./check $p --tier quick 2>/dev/null | tail -1); echo "$out"
  echo "$out" | grep -q "^OK" || fail=1
done
python3-vt - <<'PY'
import json,jsonschema,glob,os,sys
m=json.load(open('/verif/MANIFEST.json')); jsonschema.validate(m, json.load(open('/root/.vp/MANIFEST.schema.json')))
claimed={c['property_id'] for c in m['checks']}
for f in glob.glob('/verif/evidence/*.json'):
    pid=os.path.basename(f)[:-5]
    if pid not in claimed: os.remove(f); print('removed stale', f); continue
    e=json.load(open(f)); jsonschema.validate(e, json.load(open('/root/.vp/EVIDENCE.schema.json')))
    assert e['coverage']['discharged']==e['coverage']['obligations']>=1 and e['violations']==0, f
missing=[p for p in claimed if not os.path.exists('/verif/evidence/%s.json'%p)]
print('evidence valid for', len(claimed)-len(missing), 'of', len(claimed), 'missing', missing)
PY
exit $fail
