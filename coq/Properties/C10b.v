(** * C10b — the C10 theorems of [Properties/C10.v] with their interface assumption discharged.

    [Properties/C10.v] proves the game protocol for every predicate [Inv] on boards with
    [StepClosed Inv] (every move [Board::legal] accepts on an [Inv]-board can be applied and
    leads to an [Inv]-board).  Here:
    - [GoodBoard b := Canonical b /\ pos_valid (abs_board b) = true] is such a predicate
      ([C10b_step_closed]), and so is [ReachGen p0] for every valid [p0];
    - the from-scratch board of a valid position is a [GoodBoard];
    so for every game started from [b0 = from_scratch p0] with [pos_valid p0 = true] the
    theorems hold with no other premise, the current board is always a [ReachGen p0] board
    (C01c, C03b, C04b, C05c, C18b apply to it), and "accepted by [Board::legal]" is the same
    as "legal in the sense of the FIDE specification in the current position".
    [Reachable b0 g] ([Proofs/GameProtocol.v]): [g] is obtained from [Game::new_with_board b0]
    by any sequence of calls of the five mutating operations with any arguments.
    Proofs: [Proofs/CorAGame.v]. *)
From Coq Require Import NArith List Bool.
From Chess Require Import Base.Bits Spec.Geometry Spec.Rules Model.Board Model.MoveGen Model.Game.
From Chess Require Import Proofs.NullMove Proofs.CorAReach.
From Chess Require Import Proofs.GameBase Proofs.GameScan Proofs.GameProtocol Proofs.CorAGame.
Import ListNotations.
Open Scope N_scope.

(** the definition, pinned *)
Theorem C10b_good_def : forall b, GoodBoard b <-> (Canonical b /\ pos_valid (abs_board b) = true).
Proof. exact (fun b => iff_refl _). Qed.
Check C10b_good_def : forall b, GoodBoard b <-> (Canonical b /\ pos_valid (abs_board b) = true).
Print Assumptions C10b_good_def.

(** the premise of the C10 theorems *)
Theorem C10b_step_closed : StepClosed GoodBoard.
Proof. exact good_step_closed. Qed.
Check C10b_step_closed : StepClosed GoodBoard.
Print Assumptions C10b_step_closed.

(** ... also for the boards reached by play *)
Theorem C10b_reachgen_step_closed : forall p0, pos_valid p0 = true -> StepClosed (ReachGen p0).
Proof. exact reachgen_step_closed. Qed.
Check C10b_reachgen_step_closed : forall p0, pos_valid p0 = true -> StepClosed (ReachGen p0).
Print Assumptions C10b_reachgen_step_closed.

(** the start boards *)
Theorem C10b_good_scratch : forall p, pos_valid p = true -> GoodBoard (from_scratch p).
Proof. exact good_scratch. Qed.
Check C10b_good_scratch : forall p, pos_valid p = true -> GoodBoard (from_scratch p).
Print Assumptions C10b_good_scratch.

(** one accepted move: no panic, and the result is the from-scratch board of the specification's successor position *)
Theorem C10b_good_mm : forall b m, GoodBoard b -> legal b m = true ->
  exists b', mm b m = Some b' /\ GoodBoard b' /\
             abs_board b' = apply (abs_board b) (to_spec_move m) /\
             b' = from_scratch (apply (abs_board b) (to_spec_move m)).
Proof. exact good_mm. Qed.
Check C10b_good_mm : forall b m, GoodBoard b -> legal b m = true ->
  exists b', mm b m = Some b' /\ GoodBoard b' /\
             abs_board b' = apply (abs_board b) (to_spec_move m) /\
             b' = from_scratch (apply (abs_board b) (to_spec_move m)).
Print Assumptions C10b_good_mm.

(** the current board of a game is a board reached by play *)
Theorem C10b_position_reachgen : forall p0 b0, pos_valid p0 = true -> b0 = from_scratch p0 -> forall g, Reachable b0 g ->
  exists b, current_position g = Some b /\ ReachGen p0 b.
Proof. exact game_position_reachgen. Qed.
Check C10b_position_reachgen : forall p0 b0, pos_valid p0 = true -> b0 = from_scratch p0 -> forall g, Reachable b0 g ->
  exists b, current_position g = Some b /\ ReachGen p0 b.
Print Assumptions C10b_position_reachgen.

(** no panic *)
Theorem C10b_no_panic : forall p0 b0, pos_valid p0 = true -> b0 = from_scratch p0 -> forall g, Reachable b0 g ->
  (exists b, current_position g = Some b /\ GoodBoard b) /\
  (exists r, result g = Some r) /\
  (exists d, can_declare_draw g = Some d) /\
  (forall o, exists f g', apply_op g o = Some (f,g')).
Proof. exact game_no_panic. Qed.
Check C10b_no_panic : forall p0 b0, pos_valid p0 = true -> b0 = from_scratch p0 -> forall g, Reachable b0 g ->
  (exists b, current_position g = Some b /\ GoodBoard b) /\
  (exists r, result g = Some r) /\
  (exists d, can_declare_draw g = Some d) /\
  (forall o, exists f g', apply_op g o = Some (f,g')).
Print Assumptions C10b_no_panic.

(** runs never panic *)
Theorem C10b_runs_never_panic : forall p0 b0, pos_valid p0 = true -> b0 = from_scratch p0 -> forall g ops, Reachable b0 g ->
  exists g', run g ops = Some g' /\ Reachable b0 g'.
Proof. exact game_runs_never_panic. Qed.
Check C10b_runs_never_panic : forall p0 b0, pos_valid p0 = true -> b0 = from_scratch p0 -> forall g ops, Reachable b0 g ->
  exists g', run g ops = Some g' /\ Reachable b0 g'.
Print Assumptions C10b_runs_never_panic.

(** moves are accepted iff the game is open and [Board::legal] accepts the move *)
Theorem C10b_make_move : forall p0 b0, pos_valid p0 = true -> b0 = from_scratch p0 -> forall g m, Reachable b0 g ->
  exists b, current_position g = Some b /\
    (forall g', g_make_move g m = Some (true, g') <->
       has_result g = Some false /\ legal b m = true /\ g' = push_action g (MakeMove m)) /\
    (~ (has_result g = Some false /\ legal b m = true) -> g_make_move g m = Some (false, g)) /\
    (legal b m = true -> exists b', mm b m = Some b' /\
       current_position (push_action g (MakeMove m)) = Some b' /\ stm b' = opp (stm b)).
Proof. exact game_make_move. Qed.
Check C10b_make_move : forall p0 b0, pos_valid p0 = true -> b0 = from_scratch p0 -> forall g m, Reachable b0 g ->
  exists b, current_position g = Some b /\
    (forall g', g_make_move g m = Some (true, g') <->
       has_result g = Some false /\ legal b m = true /\ g' = push_action g (MakeMove m)) /\
    (~ (has_result g = Some false /\ legal b m = true) -> g_make_move g m = Some (false, g)) /\
    (legal b m = true -> exists b', mm b m = Some b' /\
       current_position (push_action g (MakeMove m)) = Some b' /\ stm b' = opp (stm b)).
Print Assumptions C10b_make_move.

(** sharpened: a move is accepted iff the game is open and the move is FIDE-legal in the current position; then the new position is the specification's successor *)
Theorem C10b_make_move_fide : forall p0 b0, pos_valid p0 = true -> b0 = from_scratch p0 -> forall g m, Reachable b0 g ->
  exists b, current_position g = Some b /\ ReachGen p0 b /\
    (forall g', g_make_move g m = Some (true, g') <->
       has_result g = Some false /\ In (to_spec_move m) (legal_moves (abs_board b)) /\
       g' = push_action g (MakeMove m)) /\
    (~ (has_result g = Some false /\ In (to_spec_move m) (legal_moves (abs_board b))) ->
       g_make_move g m = Some (false, g)) /\
    (In (to_spec_move m) (legal_moves (abs_board b)) -> exists b', mm b m = Some b' /\
       current_position (push_action g (MakeMove m)) = Some b' /\ stm b' = opp (stm b) /\
       abs_board b' = apply (abs_board b) (to_spec_move m) /\
       b' = from_scratch (apply (abs_board b) (to_spec_move m))).
Proof. exact game_make_move_fide. Qed.
Check C10b_make_move_fide : forall p0 b0, pos_valid p0 = true -> b0 = from_scratch p0 -> forall g m, Reachable b0 g ->
  exists b, current_position g = Some b /\ ReachGen p0 b /\
    (forall g', g_make_move g m = Some (true, g') <->
       has_result g = Some false /\ In (to_spec_move m) (legal_moves (abs_board b)) /\
       g' = push_action g (MakeMove m)) /\
    (~ (has_result g = Some false /\ In (to_spec_move m) (legal_moves (abs_board b))) ->
       g_make_move g m = Some (false, g)) /\
    (In (to_spec_move m) (legal_moves (abs_board b)) -> exists b', mm b m = Some b' /\
       current_position (push_action g (MakeMove m)) = Some b' /\ stm b' = opp (stm b) /\
       abs_board b' = apply (abs_board b) (to_spec_move m) /\
       b' = from_scratch (apply (abs_board b) (to_spec_move m))).
Print Assumptions C10b_make_move_fide.

(** every operation at once *)
Theorem C10b_protocol : forall p0 b0, pos_valid p0 = true -> b0 = from_scratch p0 -> forall g, Reachable b0 g ->
  exists b, current_position g = Some b /\ GoodBoard b /\ side_to_move g = stm b /\
    forall o,
      (forall g', apply_op g o = Some (true, g') <->
         has_result g = Some false /\ op_enabled g b o /\ g' = push_action g (op_action o)) /\
      (~ (has_result g = Some false /\ op_enabled g b o) -> apply_op g o = Some (false, g)).
Proof. exact game_protocol. Qed.
Check C10b_protocol : forall p0 b0, pos_valid p0 = true -> b0 = from_scratch p0 -> forall g, Reachable b0 g ->
  exists b, current_position g = Some b /\ GoodBoard b /\ side_to_move g = stm b /\
    forall o,
      (forall g', apply_op g o = Some (true, g') <->
         has_result g = Some false /\ op_enabled g b o /\ g' = push_action g (op_action o)) /\
      (~ (has_result g = Some false /\ op_enabled g b o) -> apply_op g o = Some (false, g)).
Print Assumptions C10b_protocol.

(** the position is the replay of the log *)
Theorem C10b_position_is_replay : forall p0 b0, pos_valid p0 = true -> b0 = from_scratch p0 -> forall g, Reachable b0 g ->
  start_pos g = b0 /\ current_position g = play b0 (actions g).
Proof. exact game_position_is_replay. Qed.
Check C10b_position_is_replay : forall p0 b0, pos_valid p0 = true -> b0 = from_scratch p0 -> forall g, Reachable b0 g ->
  start_pos g = b0 /\ current_position g = play b0 (actions g).
Print Assumptions C10b_position_is_replay.

(** every logged move was legal where it was played *)
Theorem C10b_logged_moves_legal : forall p0 b0, pos_valid p0 = true -> b0 = from_scratch p0 -> forall g, Reachable b0 g ->
  forall l1 m l2 bl, actions g = l1 ++ MakeMove m :: l2 -> play b0 l1 = Some bl -> legal bl m = true.
Proof. exact game_logged_moves_legal. Qed.
Check C10b_logged_moves_legal : forall p0 b0, pos_valid p0 = true -> b0 = from_scratch p0 -> forall g, Reachable b0 g ->
  forall l1 m l2 bl, actions g = l1 ++ MakeMove m :: l2 -> play b0 l1 = Some bl -> legal bl m = true.
Print Assumptions C10b_logged_moves_legal.

(** side to move (no premise needed) *)
Theorem C10b_side_to_move : forall g b, current_position g = Some b -> side_to_move g = stm b.
Proof. exact side_to_move_correct. Qed.
Check C10b_side_to_move : forall g b, current_position g = Some b -> side_to_move g = stm b.
Print Assumptions C10b_side_to_move.

(** ... and there always is a current position *)
Theorem C10b_side_to_move_reachable : forall p0 b0, pos_valid p0 = true -> b0 = from_scratch p0 -> forall g, Reachable b0 g ->
  exists b, current_position g = Some b /\ side_to_move g = stm b.
Proof. exact game_side_to_move. Qed.
Check C10b_side_to_move_reachable : forall p0 b0, pos_valid p0 = true -> b0 = from_scratch p0 -> forall g, Reachable b0 g ->
  exists b, current_position g = Some b /\ side_to_move g = stm b.
Print Assumptions C10b_side_to_move_reachable.

(** the log only ever grows by exactly the accepted action (no premise needed) *)
Theorem C10b_log_growth : forall g o f g', apply_op g o = Some (f,g') ->
  (f = false /\ g' = g) \/
  (f = true /\ g' = push_action g (op_action o) /\ has_result g = Some false).
Proof. exact op_shape. Qed.
Check C10b_log_growth : forall g o f g', apply_op g o = Some (f,g') ->
  (f = false /\ g' = g) \/
  (f = true /\ g' = push_action g (op_action o) /\ has_result g = Some false).
Print Assumptions C10b_log_growth.

(** accepting a draw *)
Theorem C10b_accept_draw_sound : forall p0 b0, pos_valid p0 = true -> b0 = from_scratch p0 -> forall g g', Reachable b0 g ->
  g_accept_draw g = Some (true, g') ->
  has_result g = Some false /\ g' = push_action g AcceptDraw /\
  ((exists d, last_action g = Some (OfferDraw d)) \/
   (exists l m bl, actions g = l ++ [OfferDraw (stm bl); MakeMove m] /\
                   play b0 l = Some bl /\ legal bl m = true)).
Proof. exact game_accept_draw_sound. Qed.
Check C10b_accept_draw_sound : forall p0 b0, pos_valid p0 = true -> b0 = from_scratch p0 -> forall g g', Reachable b0 g ->
  g_accept_draw g = Some (true, g') ->
  has_result g = Some false /\ g' = push_action g AcceptDraw /\
  ((exists d, last_action g = Some (OfferDraw d)) \/
   (exists l m bl, actions g = l ++ [OfferDraw (stm bl); MakeMove m] /\
                   play b0 l = Some bl /\ legal bl m = true)).
Print Assumptions C10b_accept_draw_sound.

(** every position of the game is valid and its status is the specification's *)
Theorem C10b_status_fide : forall p0 b0, pos_valid p0 = true -> b0 = from_scratch p0 -> forall g, Reachable b0 g ->
  exists b, current_position g = Some b /\ pos_valid (abs_board b) = true /\
            board_status b = status (abs_board b).
Proof. exact game_status_fide. Qed.
Check C10b_status_fide : forall p0 b0, pos_valid p0 = true -> b0 = from_scratch p0 -> forall g, Reachable b0 g ->
  exists b, current_position g = Some b /\ pos_valid (abs_board b) = true /\
            board_status b = status (abs_board b).
Print Assumptions C10b_status_fide.
