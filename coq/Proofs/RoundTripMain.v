(** * Proofs.RoundTripMain — the round trip [Proofs.GenInterface.stmt_roundtrip]:
    for every valid position [p] of the specification, the board the library builds from
    scratch abstracts back to [p], and it passes the library's validation [Board::is_sane]
    ("accept_complete": every valid chess position is accepted). *)
From Chess Require Import Base.Bits Spec.Geometry Spec.Rules Model.Board.
From Chess Require Import Proofs.AbsBoard Proofs.NullMove Proofs.GenInterface
                          Proofs.RoundTripAbs Proofs.RoundTripSane.
Open Scope N_scope.

(** first half: the abstraction of the from-scratch board is the position *)
Theorem abs_from_scratch : forall p, pos_valid p = true -> abs_board (from_scratch p) = p.
Proof. exact RoundTripAbs.abs_from_scratch. Qed.

(** second half: the from-scratch board passes [is_sane] *)
Theorem sane_from_scratch : forall p, pos_valid p = true -> is_sane (from_scratch p) = true.
Proof. exact RoundTripSane.sane_from_scratch. Qed.

Theorem roundtrip : stmt_roundtrip.
Proof.
  intros p Hv. split; [exact (abs_from_scratch p Hv)|exact (sane_from_scratch p Hv)].
Qed.

(** the from-scratch board of a valid position is canonical *)
Corollary from_scratch_valid_canonical : forall p, pos_valid p = true -> Canonical (from_scratch p).
Proof. intros p Hv. apply from_scratch_canonical, abs_from_scratch, Hv. Qed.

(** every valid position is accepted by [TryFrom<&BoardBuilder>], and the accepted board
    abstracts back to it (this is [AcceptSound.C07_accept_complete_full]) *)
Corollary accept_complete : forall p, pos_valid p = true ->
  exists b, try_from_builder (builder_of_pos p) = Some b /\ abs_board b = p.
Proof.
  intros p Hv. exists (from_scratch p). split; [|exact (abs_from_scratch p Hv)].
  pose proof (sane_from_scratch p Hv) as H. unfold from_scratch in *.
  unfold try_from_builder. cbv zeta. rewrite H. reflexivity.
Qed.

(** the hypothesis is satisfiable: the start position, and a position with an en-passant
    target ([RoundTripAbs.eppos]: after 1.e4 a6 2.e5 d5, white to move, target d6) *)
Example roundtrip_startpos :
  pos_valid startpos = true /\ abs_board (from_scratch startpos) = startpos /\
  is_sane (from_scratch startpos) = true.
Proof.
  assert (Hv : pos_valid startpos = true) by (vm_compute; reflexivity).
  split; [exact Hv|exact (roundtrip startpos Hv)].
Qed.
Example roundtrip_eppos :
  pos_valid eppos = true /\ ep eppos = Some 43 /\ epsq (from_scratch eppos) = Some 35 /\
  abs_board (from_scratch eppos) = eppos /\ is_sane (from_scratch eppos) = true.
Proof.
  assert (Hv : pos_valid eppos = true) by (vm_compute; reflexivity).
  split; [exact Hv|]. split; [reflexivity|]. split; [vm_compute; reflexivity|].
  exact (roundtrip eppos Hv).
Qed.

Check roundtrip : stmt_roundtrip.
Check roundtrip : forall p, pos_valid p = true ->
  abs_board (from_scratch p) = p /\ is_sane (from_scratch p) = true.
Print Assumptions roundtrip.
Print Assumptions abs_from_scratch.
Print Assumptions sane_from_scratch.
Print Assumptions from_scratch_valid_canonical.
Print Assumptions accept_complete.
