(** * Proofs.StepCache — C03 for [make_move_new]: the [pinned] / [checkers] caches it computes
    incrementally are those [update_pin_info] computes from scratch on the result
    ([step_caches]), hence a canonical board stays canonical ([step_canonical]). *)
From Coq Require Import Lia ZifyBool ZifyN ZifyNat.
From Chess Require Import Base.Bits Spec.Geometry Spec.Rules Model.Board Gen.Consts.
From Chess Require Import Proofs.BitsFacts Proofs.TablesLib Proofs.TablesMeaning Proofs.AbsBoard
  Proofs.NullMove Proofs.CanonAttack Proofs.CanonCheckers Proofs.StepShape Proofs.StepApply
  Proofs.StepModel Proofs.StepClean Proofs.StepGeom Proofs.StepLink.
Open Scope N_scope.

(** ** 1. the caches of the result, from the stages (no hypothesis on the board) *)
(** the direct-check bits [make_move] adds for the moved man *)
Definition dchk (k0:N) (me:color) (moved:ptype) (d:N) (promo:option ptype) : N :=
  match moved with
  | Knight => N.land (knight_moves k0) (bit d)
  | Pawn => match promo with
            | Some Knight => N.land (knight_moves k0) (bit d)
            | Some _ => 0
            | None => get_pawn_attacks k0 (opp me) (bit d)
            end
  | _ => 0
  end.

Lemma set_ep_caches r d : pinned (set_ep r d) = pinned r /\ checkers (set_ep r d) = checkers r /\
  stm (set_ep r d) = stm r.
Proof. unfold set_ep. destruct (negb _); repeat split. Qed.

Lemma stage3_caches rs re epb me r k moved s d promo : stm r = me ->
  pinned (mm_stage3 rs re epb me r k moved s d promo) = pinned r /\
  checkers (mm_stage3 rs re epb me r k moved s d promo) = N.lxor (checkers r) (dchk k me moved d promo).
Proof.
  intro Hm. unfold mm_stage3, dchk.
  destruct moved.
  - destruct promo as [[]|]; try (split; [reflexivity|]; cbn [xor_piece checkers]; rewrite ?N.lxor_0_r; reflexivity).
    destruct (is_dbl s d).
    + destruct (set_ep_caches r d) as [E1 [E2 E3]].
      cbn [set_checkers set_caches pinned checkers]. rewrite E1, E2, E3, Hm. split; reflexivity.
    + destruct (ep_hit epb me d); cbn [set_checkers set_caches xor_piece pinned checkers stm];
        rewrite Hm; split; reflexivity.
  - split; reflexivity.
  - destruct (is_cst Bishop s d); cbn [xor_piece pinned checkers]; rewrite N.lxor_0_r; split; reflexivity.
  - destruct (is_cst Rook s d); cbn [xor_piece pinned checkers]; rewrite N.lxor_0_r; split; reflexivity.
  - destruct (is_cst Queen s d); cbn [xor_piece pinned checkers]; rewrite N.lxor_0_r; split; reflexivity.
  - destruct (is_cst King s d); cbn [xor_piece pinned checkers]; rewrite N.lxor_0_r; split; reflexivity.
Qed.

Lemma slider_scan_comb a b k sl pn ch : comb a = comb b -> slider_scan a k sl pn ch = slider_scan b k sl pn ch.
Proof. intro H. unfold slider_scan. rewrite H. reflexivity. Qed.

Definition sliders_to (b:board) (k:N) : N :=
  N.lor (N.land (bishop_rays k) (N.lor (pB b) (pQ b))) (N.land (rook_rays k) (N.lor (pR b) (pQ b))).

Lemma stage12_caches b moved s d :
  let r2 := mm_stage2 (stm b) (mm_stage1 b moved s d) s d in pinned r2 = 0 /\ checkers r2 = 0.
Proof.
  cbv zeta. rewrite stage1_eq.
  set (b0 := set_caches (set_epsq b None) 0 0).
  assert (G : forall l x, pinned (apply_togs x l) = pinned x /\ checkers (apply_togs x l) = checkers x).
  { induction l as [|[[p t] c] l IH]; intro x; [split; reflexivity|].
    unfold apply_togs in *. cbn [fold_left]. destruct (IH (apply_tog x (p,t,c))) as [H1 H2].
    rewrite H1, H2. split; reflexivity. }
  destruct (G (base_togs b moved s d) b0) as [H1 H2].
  unfold mm_stage2, remove_castle_rights. cbn [set_castle_rights pinned checkers].
  rewrite H1, H2. split; reflexivity.
Qed.

Theorem mm_caches rs re b s d promo moved b' : piece_on b s = Some moved ->
  make_move_gen rs re b s d promo = Some b' ->
  let k0 := to_square (N.land (pK (apply_togs b (base_togs b moved s d)))
                              (color_combined (apply_togs b (base_togs b moved s d)) (opp (stm b)))) in
  (pinned b', checkers b')
  = slider_scan b' k0 (N.land (color_combined b' (stm b)) (sliders_to b' k0)) 0
                (dchk k0 (stm b) moved d promo).
Proof.
  intros Hp E. rewrite mm_stages, Hp in E. cbv zeta in E. injection E as E.
  pose proof (stage12_fields b moved s d) as H12. cbv zeta in H12.
  pose proof (stage12_caches b moved s d) as C12. cbv zeta in C12.
  revert H12 C12 E. generalize (mm_stage2 (stm b) (mm_stage1 b moved s d) s d) as r2. intros r2.
  intros [Ho [_ [Hs _]]] [P2 K2] E.
  set (r1 := apply_togs b (base_togs b moved s d)) in *. cbv zeta.
  assert (Hk : mm_ksq r2 = to_square (N.land (pK r1) (color_combined r1 (opp (stm b))))).
  { unfold mm_ksq. rewrite Hs. destruct Ho as [_ [_ [_ [_ [_ [Q6 [Q7 [Q8 _]]]]]]]].
    rewrite Q6. destruct (opp (stm b)); cbn [color_combined]; rewrite ?Q7, ?Q8; reflexivity. }
  rewrite Hk in E. set (k0 := to_square (N.land (pK r1) (color_combined r1 (opp (stm b))))) in *.
  destruct (stage3_caches rs re (epsq b) (stm b) r2 k0 moved s d promo Hs) as [P3 K3].
  pose proof (stage3_core rs re (epsq b) (stm b) r2 k0 moved s d promo) as [O3 [S3 _]].
  revert P3 K3 O3 S3 E. generalize (mm_stage3 rs re (epsq b) (stm b) r2 k0 moved s d promo) as r3.
  intros r3 P3 K3 O3 S3 E.
  assert (S3' : stm r3 = stm b).
  { rewrite S3. unfold mm_stage3c. destruct (apply_togs_other (special_togs rs re (epsq b) (stm b) moved s d promo) r2) as [A1 _].
    destruct (dbl_push moved promo s d); [rewrite (proj2 (proj2 (set_ep_caches _ d)))|]; rewrite A1; exact Hs. }
  unfold mm_stage4 in E. rewrite P3, K3, P2, K2, N.lxor_0_l, S3' in E.
  change (N.lor (N.land (bishop_rays k0) (N.lor (pB r3) (pQ r3))) (N.land (rook_rays k0) (N.lor (pR r3) (pQ r3))))
    with (sliders_to r3 k0) in E.
  destruct (slider_scan r3 k0 (N.land (color_combined r3 (stm b)) (sliders_to r3 k0)) 0
              (dchk k0 (stm b) moved d promo)) as [pn ch] eqn:Es.
  subst b'. cbn [set_stm set_caches pinned checkers].
  rewrite <- Es. clear Es.
  symmetry. etransitivity; [apply (slider_scan_comb _ r3); reflexivity|]. reflexivity.
Qed.

(** ** 2. the slider scan is linear in its two accumulators *)
Lemma scan_linear b k sl pn0 ch0 :
  slider_scan b k sl pn0 ch0
  = (N.lxor pn0 (fst (slider_scan b k sl 0 0)), N.lxor ch0 (snd (slider_scan b k sl 0 0))).
Proof.
  rewrite !slider_scan_fold.
  rewrite (surjective_pairing (fold_left (scan_step b k) (squares_of sl) (pn0, ch0))).
  f_equal; apply N.bits_inj; intro x; rewrite N.lxor_spec.
  - rewrite !scan_pn, N.bits_0, xorb_false_l. reflexivity.
  - rewrite !(scan_ch b k _ (squares_of_NoDup sl)), N.bits_0, xorb_false_l. reflexivity.
Qed.

(** ** 3. shape facts about the move that the cache argument needs *)
Definition placed_of (moved:ptype) (promo:option ptype) : ptype :=
  match promo with Some t => t | None => moved end.

Lemma apply_at_kp p m x t : t = Knight \/ t = Pawn -> apply_at p m x = Some (t, turn p) ->
  (x = dst m /\ (match promo m with Some u => u | None =>
                   match at_ p (src m) with Some (u,_) => u | None => Pawn end end) = t)
  \/ at_ p x = Some (t, turn p).
Proof.
  intros Ht. unfold apply_at.
  set (pl := match promo m with Some u => u | None =>
                   match at_ p (src m) with Some (u,_) => u | None => Pawn end end).
  assert (A1 : (if x =? dst m then Some (pl, turn p) else if x =? src m then None else at_ p x)
               = Some (t, turn p) -> (x = dst m /\ pl = t) \/ at_ p x = Some (t, turn p)).
  { destruct (N.eqb_spec x (dst m)) as [->|_].
    - intro H. injection H as ->. left. auto.
    - destruct (x =? src m); [discriminate|]. auto. }
  assert (A2 : (if is_ep p m
                then if x =? rank_of (src m) * 8 + file_of (dst m) then None
                     else if x =? dst m then Some (pl, turn p) else if x =? src m then None else at_ p x
                else if x =? dst m then Some (pl, turn p) else if x =? src m then None else at_ p x)
               = Some (t, turn p) -> (x = dst m /\ pl = t) \/ at_ p x = Some (t, turn p)).
  { destruct (is_ep p m); [destruct (x =? rank_of (src m) * 8 + file_of (dst m)); [discriminate|]|]; exact A1. }
  destruct (is_castle p m); [|exact A2].
  destruct (file_of (dst m) =? 6).
  - destruct (x =? rank_of (src m) * 8 + 5).
    + intro H. injection H as <-. destruct Ht; discriminate.
    + destruct (x =? rank_of (src m) * 8 + 7); [discriminate|exact A2].
  - destruct (x =? rank_of (src m) * 8 + 3).
    + intro H. injection H as <-. destruct Ht; discriminate.
    + destruct (x =? rank_of (src m) * 8); [discriminate|exact A2].
Qed.

(** the enemy king stays where it is *)
Lemma apply_at_king p m x : apply_at p m x = Some (King, opp (turn p)) ->
  at_ p x = Some (King, opp (turn p)).
Proof.
  unfold apply_at.
  set (pl := match promo m with Some u => u | None =>
                   match at_ p (src m) with Some (u,_) => u | None => Pawn end end).
  assert (Hc : forall c, Some (pl, c) = Some (King, opp c) -> False).
  { intros c H. injection H as _ H. destruct c; discriminate. }
  assert (Hr : forall c, Some (Rook, c) = Some (King, opp c) -> False) by (intros c H; discriminate).
  destruct (is_castle p m); [destruct (file_of (dst m) =? 6)|];
    repeat match goal with
    | |- (if ?c then _ else _) = _ -> _ => destruct c
    end; intro H; try discriminate H; try exact H; exfalso; eauto.
Qed.

Lemma kind_promo p m moved : move_kind p m -> at_ p (src m) = Some (moved, turn p) ->
  match promo m with
  | None => True
  | Some t => moved = Pawn /\ In t [Queen;Knight;Rook;Bishop]
  end.
Proof.
  intros [Ha Hk|Ha Hk|t Ha Ht [Hpr _]] Hm.
  - rewrite Ha in Hm. injection Hm as <-.
    destruct Hk as [d1 _ _ Hi|d1 d2 _ _ _ _ _ ->|d _ _ Hi|d _ _ _ ->]; try exact I.
    + apply pawn_to_promo in Hi. destruct (rank_of d1 =? last_rank (turn p)).
      * destruct Hi as [t [-> Ht]]. auto.
      * rewrite Hi. exact I.
    + apply pawn_to_promo in Hi. destruct (rank_of d =? last_rank (turn p)).
      * destruct Hi as [t [-> Ht]]. auto.
      * rewrite Hi. exact I.
  - destruct Hk as [_ _ _ _ _ ->|_ _ _ _ _ _ ->]; exact I.
  - rewrite Hpr. exact I.
Qed.

Lemma apply_at_dst p m moved : src m < 64 -> move_kind p m -> at_ p (src m) = Some (moved, turn p) ->
  apply_at p m (dst m) = Some (placed_of moved (promo m), turn p).
Proof.
  intros Hs Hk Ha. unfold apply_at, placed_of. rewrite Ha, N.eqb_refl.
  destruct (is_castle p m) eqn:Ec.
  - pose proof (is_castle_kind p m Hk Ec) as Hck.
    destruct (castle_geom (turn p)) as [_ [_ [_ [_ [_ [_ [A7 [A8 [A9 _]]]]]]]]]. cbv zeta in *.
    pose proof (home_rank_cases (turn p)) as Hr.
    assert (Hep : is_ep p m = false).
    { unfold is_ep. destruct Hck as [Hk1 _ _ _ _ ->|Hk1 _ _ _ _ _ ->]; cbn [mv src];
        apply has_iff in Hk1; rewrite (has_at _ _ _ _ _ _ Hk1); reflexivity. }
    rewrite Hep.
    destruct Hck as [_ _ _ _ _ ->|_ _ _ _ _ _ ->]; cbn [mv src dst promo]; rewrite A7.
    + rewrite A8, N.eqb_refl.
      destruct (N.eqb_spec (home_rank (turn p) * 8 + 6) (home_rank (turn p) * 8 + 5)); [lia|].
      destruct (N.eqb_spec (home_rank (turn p) * 8 + 6) (home_rank (turn p) * 8 + 7)); [lia|]. reflexivity.
    + apply N.eqb_neq in A9. rewrite A9.
      destruct (N.eqb_spec (home_rank (turn p) * 8 + 2) (home_rank (turn p) * 8 + 3)); [lia|].
      destruct (N.eqb_spec (home_rank (turn p) * 8 + 2) (home_rank (turn p) * 8)); [lia|]. reflexivity.
  - destruct (is_ep p m) eqn:Ee; [|reflexivity].
    destruct (is_ep_kind p m Hs Hk Ee) as [_ [Hin _]].
    destruct (cap_geom _ _ _ Hs Hin) as [_ [_ [_ [_ [G5 _]]]]]. cbv zeta in G5.
    destruct (N.eqb_spec (dst m) (rank_of (src m) * 8 + file_of (dst m))) as [E|_]; [|reflexivity].
    exfalso. apply G5. symmetry. exact E.
Qed.

(** ** 4. the caches of the result are those of [update_pin_info] *)
From Chess Require Proofs.SpecInvGoals Proofs.CanonNullMove.

Lemma color_eqb_opp_l c : color_eqb (opp c) c = false.
Proof. destruct c; reflexivity. Qed.

Section Caches.
Variables (b:board) (m:move) (b':board).
Hypothesis H : StepHyp b m.
Hypothesis E : make_move_new b (src m) (dst m) (promo m) = Some b'.
Notation p := (abs_board b).

Let HC : Consistent b := sh_cons b m H.
Let HV : pos_valid p = true := sh_valid b m H.
Let HL : In m (legal_moves p) := sh_legal b m H.

Lemma one_king c : popcnt (N.land (pK b) (color_combined b c)) = 1.
Proof.
  destruct (CanonNullMove.pos_valid_facts p HV) as [K1 [K2 _]].
  rewrite <- (CanonNullMove.kings_abs b c HC). destruct c; assumption.
Qed.
Lemma HC' : Consistent b'.
Proof. exact (proj2 (proj2 (step_squares b m b' H E))). Qed.
Lemma Habs : abs_board b' = apply p m.
Proof. exact (step_abs b m b' H E). Qed.
Lemma one_king' c : popcnt (N.land (pK b') (color_combined b' c)) = 1.
Proof.
  pose proof (SpecInvGoals.pos_valid_preserved p m HV HL) as HV'.
  destruct (CanonNullMove.pos_valid_facts _ HV') as [K1 [K2 _]].
  rewrite <- (CanonNullMove.kings_abs b' c HC'), Habs. destruct c; assumption.
Qed.

Let k := king_square b (opp (stm b)).
Lemma k_lt : k < 64.
Proof. exact (proj1 (one_king_bit b (opp (stm b)) HC (one_king _))). Qed.
Lemma k_bit : N.land (pK b) (color_combined b (opp (stm b))) = bit k.
Proof. exact (proj2 (one_king_bit b (opp (stm b)) HC (one_king _))). Qed.
Lemma k_at : at_ p k = Some (King, opp (stm b)).
Proof.
  apply (at_abs_some b k King (opp (stm b)) HC k_lt).
  exact (king_square_has b (opp (stm b)) HC (one_king _)).
Qed.
(** the only square holding the enemy king *)
Lemma k_unique x : x < 64 -> at_ p x = Some (King, opp (stm b)) -> x = k.
Proof.
  intros Hx Hat. apply (at_abs_some b x King (opp (stm b)) HC Hx) in Hat as [H1 H2].
  assert (Hb : N.testbit (bit k) x = true) by (rewrite <- k_bit, N.land_spec; cbn [pieces] in H1; rewrite H1, H2; reflexivity).
  rewrite BitsFacts.testbit_bit in Hb. apply N.eqb_eq in Hb. symmetry. exact Hb.
Qed.

Lemma king_square_result : king_square b' (opp (stm b)) = k.
Proof.
  destruct (one_king_bit b' (opp (stm b)) HC' (one_king' _)) as [Hlt _].
  pose proof (king_square_has b' (opp (stm b)) HC' (one_king' _)) as Hh.
  apply (at_abs_some b' _ King (opp (stm b)) HC' Hlt) in Hh.
  destruct (step_hyp_parts b m H) as [_ [_ [_ [Hs Hk]]]].
  destruct (move_kind_dst _ _ Hs Hk) as [Hd _].
  rewrite Habs, (at_apply _ _ _ (abs_len b) Hs Hd) in Hh.
  apply (apply_at_king p m) in Hh. exact (k_unique _ Hlt Hh).
Qed.

(** the side that just moved gave no check before the move: no knight or pawn of the mover
    attacks the enemy king in the old position *)
Lemma no_check_bits x : x < 64 ->
  (at_ p x = Some (Knight, stm b) -> N.testbit (knight_moves k) x = false) /\
  (at_ p x = Some (Pawn, stm b) -> N.testbit (pawn_attack_tab (is_white (opp (stm b))) k) x = false).
Proof.
  intro Hx.
  destruct (CanonNullMove.pos_valid_facts p HV) as [_ [_ Hnc]].
  change (turn p) with (stm b) in Hnc. unfold in_check in Hnc.
  rewrite (king_square_spec b (opp (stm b)) HC (one_king _)) in Hnc. fold k in Hnc.
  rewrite StepShape.opp_opp, (attacked_by_canon b (stm b) k HC k_lt) in Hnc.
  apply negb_false_iff, N.eqb_eq in Hnc.
  assert (Hb : N.testbit (attackers_bb b (stm b) k) x = false) by (rewrite Hnc; apply N.bits_0).
  unfold attackers_bb in Hb. rewrite !N.land_spec, !N.lor_spec, !N.land_spec in Hb.
  split; intro Hat; apply (at_abs_some b x _ (stm b) HC Hx) in Hat as [H1 H2];
    cbn [pieces] in H1; rewrite H1, H2 in Hb; cbn [andb] in Hb.
  - destruct (N.testbit (knight_moves k) x); [|reflexivity].
    rewrite andb_true_r, orb_true_r in Hb. cbn [orb] in Hb. discriminate Hb.
  - destruct (N.testbit (pawn_attack_tab (is_white (opp (stm b))) k) x); [|reflexivity].
    cbn [orb] in Hb. discriminate Hb.
Qed.

(** the king square [make_move] computes (on the board after moving and capturing) is that
    same square *)
Lemma k0_eq moved : at_ p (src m) = Some (moved, stm b) ->
  to_square (N.land (pK (apply_togs b (base_togs b moved (src m) (dst m))))
                    (color_combined (apply_togs b (base_togs b moved (src m) (dst m))) (opp (stm b)))) = k.
Proof.
  intro Ha.
  destruct (step_hyp_parts b m H) as [_ [Hok [Hwf [Hs Hk]]]].
  destruct (move_kind_dst _ _ Hs Hk) as [Hd Hne].
  destruct (kinds_ok b HC Hok Hwf m Hs Hk) as [moved' [Ha' [_ [_ [Hown _]]]]].
  set (r1 := apply_togs b (base_togs b moved (src m) (dst m))).
  assert (Hw : N.land (pK r1) (color_combined r1 (opp (stm b))) = bit k).
  { apply N.bits_inj. intro x. rewrite N.land_spec, BitsFacts.testbit_bit.
    change (N.testbit (pK r1) x) with (pget King (bitsat r1 x)). rewrite <- cget_bitsat.
    assert (Hold : pget King (bitsat b x) && cget (opp (stm b)) (bitsat b x) = (k =? x)).
    { rewrite pget_bitsat, cget_bitsat, <- N.land_spec. cbn [pieces]. rewrite k_bit.
      apply BitsFacts.testbit_bit. }
    destruct (N.lt_ge_cases x 64) as [Hx|Hx].
    - unfold r1. rewrite (base_bits b moved (src m) (dst m) HC Hs Hd (not_eq_sym Hne) Ha Hown x Hx).
      destruct (N.eqb_spec x (dst m)) as [->|Hxd].
      + rewrite cget_enc, color_eqb_opp_l, andb_false_r. symmetry. apply N.eqb_neq. intro Ek.
        destruct (SpecInvGoals.no_king_capture_legal p m HV HL) as [Hnk _].
        change (turn p) with (stm b) in Hnk. rewrite <- Ek in Hnk.
        rewrite (has_at _ _ _ _ _ _ k_at), StepShape.ptype_eqb_refl, StepShape.color_eqb_refl in Hnk.
        discriminate Hnk.
      + destruct (N.eqb_spec x (src m)) as [->|Hxs].
        * cbn [enc]. symmetry. apply N.eqb_neq. intro Ek. pose proof k_at as Hk'.
          rewrite Ek, Ha in Hk'. injection Hk' as _ Hc. destruct (stm b); discriminate Hc.
        * rewrite <- (bitsat_enc b x HC Hx). exact Hold.
    - unfold r1. rewrite bitsat_apply_togs, fold_tog9_at.
      rewrite (togs_at_high x _ (base_togs_lt b moved _ _ Hs Hd) Hx). exact Hold. }
  rewrite Hw. apply to_square_bit, k_lt.
Qed.

(** which knights / pawns of the mover stand where after the move *)
Lemma result_man moved x t : at_ p (src m) = Some (moved, stm b) -> x < 64 -> t = Knight \/ t = Pawn ->
  N.testbit (color_combined b' (stm b)) x && N.testbit (pieces b' t) x
  = (ptype_eqb (placed_of moved (promo m)) t && (dst m =? x))
    || (N.testbit (color_combined b' (stm b)) x && N.testbit (pieces b' t) x
        && match at_ p x with Some (u,c) => ptype_eqb u t && color_eqb c (stm b) | None => false end).
Proof.
  intros Ha Hx Ht.
  destruct (step_hyp_parts b m H) as [_ [_ [_ [Hs Hk]]]].
  destruct (move_kind_dst _ _ Hs Hk) as [Hd _].
  destruct (N.testbit (color_combined b' (stm b)) x && N.testbit (pieces b' t) x) eqn:Eb.
  - apply andb_prop in Eb as [E1 E2].
    assert (Hat : at_ (abs_board b') x = Some (t, stm b))
      by (apply (at_abs_some b' x t (stm b) HC' Hx); split; assumption).
    rewrite Habs, (at_apply _ _ _ (abs_len b) Hs Hd) in Hat.
    destruct (apply_at_kp p m x t Ht Hat) as [[-> Hpl]|Hold].
    + rewrite Ha in Hpl. unfold placed_of. rewrite Hpl, StepShape.ptype_eqb_refl, N.eqb_refl. reflexivity.
    + change (turn p) with (stm b) in Hold. rewrite Hold, StepShape.ptype_eqb_refl, StepShape.color_eqb_refl.
      cbn [andb]. symmetry. apply orb_true_r.
  - cbn [andb]. rewrite orb_false_r.
    destruct (ptype_eqb (placed_of moved (promo m)) t) eqn:Ep; [|reflexivity].
    destruct (N.eqb_spec (dst m) x) as [<-|_]; [|reflexivity].
    exfalso. apply StepShape.ptype_eqb_eq in Ep.
    pose proof (apply_at_dst p m moved Hs Hk Ha) as Hdst. rewrite Ep in Hdst.
    rewrite <- (at_apply _ _ _ (abs_len b) Hs Hd), <- Habs in Hdst.
    apply (at_abs_some b' _ t (stm b) HC' Hd) in Hdst as [H1 H2].
    rewrite H1, H2 in Eb. discriminate Eb.
Qed.

Lemma check_bit moved x t (w:N) : at_ p (src m) = Some (moved, stm b) -> x < 64 -> t = Knight \/ t = Pawn ->
  (at_ p x = Some (t, stm b) -> N.testbit w x = false) ->
  N.testbit w x && (N.testbit (color_combined b' (stm b)) x && N.testbit (pieces b' t) x)
  = N.testbit w x && (ptype_eqb (placed_of moved (promo m)) t && (dst m =? x)).
Proof.
  intros Ha Hx Ht Hno. rewrite (result_man moved x t Ha Hx Ht).
  destruct (N.testbit w x) eqn:Ew; [|reflexivity]. cbn [andb].
  destruct (at_ p x) as [[u c]|] eqn:Eat; [|rewrite andb_false_r, orb_false_r; reflexivity].
  destruct (ptype_eqb u t && color_eqb c (stm b)) eqn:Eo; [|rewrite andb_false_r, orb_false_r; reflexivity].
  exfalso. apply andb_prop in Eo as [E1 E2].
  apply StepShape.ptype_eqb_eq in E1. apply StepShape.color_eqb_eq in E2. subst u c.
  discriminate (Hno eq_refl).
Qed.

Lemma dchk_eq moved : at_ p (src m) = Some (moved, stm b) ->
  dchk k (stm b) moved (dst m) (promo m)
  = N.lxor (N.land (N.land (knight_moves k) (color_combined b' (stm b))) (pN b'))
           (N.land (pawn_attack_tab (is_white (opp (stm b))) k) (N.land (color_combined b' (stm b)) (pP b'))).
Proof.
  intro Ha.
  destruct (step_hyp_parts b m H) as [_ [_ [_ [Hs Hk]]]].
  destruct (move_kind_dst _ _ Hs Hk) as [Hd _].
  pose proof (kind_promo p m moved Hk Ha) as Hpr.
  apply N.bits_inj. intro x. rewrite N.lxor_spec, !N.land_spec.
  destruct (N.lt_ge_cases x 64) as [Hx|Hx].
  - rewrite <- !andb_assoc.
    change (N.testbit (pN b') x) with (N.testbit (pieces b' Knight) x).
    change (N.testbit (pP b') x) with (N.testbit (pieces b' Pawn) x).
    rewrite (check_bit moved x Knight (knight_moves k) Ha Hx (or_introl eq_refl)
               (proj1 (no_check_bits x Hx))).
    rewrite (check_bit moved x Pawn (pawn_attack_tab (is_white (opp (stm b))) k) Ha Hx (or_intror eq_refl)
               (proj2 (no_check_bits x Hx))).
    unfold dchk, placed_of, get_pawn_attacks.
    assert (Fin : forall (a c:bool), xorb (a && c) false = a && c) by (intros; apply xorb_false_r).
    destruct (promo m) as [t|].
    + destruct Hpr as [-> Hin]. cbn [In] in Hin.
      destruct Hin as [<-|[<-|[<-|[<-|[]]]]]; cbn [ptype_eqb andb];
        rewrite ?N.land_spec, ?BitsFacts.testbit_bit, ?N.bits_0, ?andb_false_r, ?xorb_false_r, ?xorb_false_l;
        reflexivity.
    + destruct moved; cbn [ptype_eqb andb];
        rewrite ?N.land_spec, ?BitsFacts.testbit_bit, ?N.bits_0, ?andb_false_r, ?xorb_false_r, ?xorb_false_l;
        reflexivity.
  - rewrite (BitsFacts.testbit_high _ x (cs_colors_lt b' HC' (stm b)) Hx), !andb_false_r, andb_false_l.
    unfold dchk, get_pawn_attacks.
    assert (Hb : N.testbit (bit (dst m)) x = false).
    { rewrite BitsFacts.testbit_bit. apply N.eqb_neq. lia. }
    destruct moved; [destruct (promo m) as [[]|]|..];
      rewrite ?N.land_spec, ?Hb, ?N.bits_0, ?andb_false_r; reflexivity.
Qed.

(** C03 for one move: the incrementally computed caches are the from-scratch caches *)
Theorem step_caches :
  pinned b' = pinned (update_pin_info b') /\ checkers b' = checkers (update_pin_info b').
Proof.
  destruct (step_master b m H)
    as [moved [b2 [E2 [Ha [Hs [Hd [_ [_ [_ [_ [_ [D3 _]]]]]]]]]]]].
  rewrite E in E2. injection E2 as <-.
  assert (Hpo : piece_on b (src m) = Some moved) by (rewrite (piece_on_abs b _ HC Hs), Ha; reflexivity).
  pose proof (mm_caches rs0 re0 b (src m) (dst m) (promo m) moved b' Hpo E) as Hc.
  cbv zeta in Hc. rewrite (k0_eq moved Ha), scan_linear in Hc.
  injection Hc as Hpn Hch. rewrite N.lxor_0_l in Hpn.
  destruct (upi_caches b') as [U1 U2].
  assert (Hk' : king_square b' (stm b') = k) by (rewrite D3; exact king_square_result).
  assert (Hpin : pinners_of b' = N.land (color_combined b' (stm b)) (sliders_to b' k)).
  { unfold pinners_of. cbv zeta. rewrite Hk', D3, StepShape.opp_opp. reflexivity. }
  rewrite U1, U2, Hk', Hpin. split; [exact Hpn|].
  rewrite Hch, (dchk_eq moved Ha).
  unfold knight_checks, pawn_checks, get_pawn_attacks. rewrite Hk', D3, StepShape.opp_opp.
  apply N.bits_inj. intro x. rewrite !N.lxor_spec.
  repeat match goal with |- context [N.testbit ?w x] => destruct (N.testbit w x) end; reflexivity.
Qed.
End Caches.
