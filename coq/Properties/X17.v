(** * Properties.X17 — perft is invariant under the mirror images of the rules.

    1. The number of legal lines of every length from a valid position equals that from its
       colour-mirror ([mirror_v]: colours swapped, board flipped top to bottom, side to move,
       castling rights and en-passant square swapped accordingly).
    2. The same for the left-right flip ([mirror_h]) of a valid position WITHOUT castling rights
       (the hypotheses of [C17_mirror_h]; needed: [X17_ex_h_rights_needed]).
    3. Hence the library's [MoveGen::movegen_perft_test] gives the same answer on the
       from-scratch boards of a position and of its mirror image, at every depth >= 1
       (through [X01_perft_spec]; the mirror image of a valid position is valid, C17b).
    4. Instances obtained by running the MODEL: the position after 1.e4 and its colour-mirror
       (20, 600, 13160), the C17 example [ex3] and its left-right image (15, 351, 6469).
    Proofs: [Proofs/PerftMirror.v]; ingredients: [Properties/C17.v] (legal moves of the mirror
    image = permutation of the mirror images; [apply] commutes), [Properties/C17b.v] (validity
    of the image), T_inv, the fold/permutation lemma of [Properties/X01.v]. *)
From Coq Require Import NArith List Permutation.
From Chess Require Import Base.Bits Spec.Geometry Spec.Rules Model.Board Model.MoveGen Model.Perft.
From Chess Require Import Proofs.MirrorH Proofs.MirrorMain Proofs.PerftMirror.
Import ListNotations.
Open Scope N_scope.

(** ** 1, 2: the oracle *)
Theorem X17_perft_mirror_v : forall d p, pos_valid p = true -> perft d (mirror_v p) = perft d p.
Proof. exact perft_mirror_v. Qed.
Check X17_perft_mirror_v : forall d p, pos_valid p = true -> perft d (mirror_v p) = perft d p.
Print Assumptions X17_perft_mirror_v.

Theorem X17_perft_mirror_h : forall d p, pos_valid p = true ->
  wk p = false -> wq p = false -> bk p = false -> bq p = false ->
  perft d (mirror_h p) = perft d p.
Proof. exact perft_mirror_h. Qed.
Check X17_perft_mirror_h : forall d p, pos_valid p = true ->
  wk p = false -> wq p = false -> bk p = false -> bq p = false ->
  perft d (mirror_h p) = perft d p.
Print Assumptions X17_perft_mirror_h.

(** the side condition of 2 is kept along every line *)
Theorem X17_no_rights_apply : forall p m,
  (wk p = false /\ wq p = false /\ bk p = false /\ bq p = false) ->
  (wk (apply p m) = false /\ wq (apply p m) = false /\ bk (apply p m) = false /\ bq (apply p m) = false).
Proof. exact no_rights_apply. Qed.
Check X17_no_rights_apply : forall p m,
  (wk p = false /\ wq p = false /\ bk p = false /\ bq p = false) ->
  (wk (apply p m) = false /\ wq (apply p m) = false /\ bk (apply p m) = false /\ bq (apply p m) = false).
Print Assumptions X17_no_rights_apply.

(** ** 3: the library *)
Theorem X17_movegen_perft_mirror_v : forall d p, pos_valid p = true ->
  movegen_perft (from_scratch (mirror_v p)) (S d) = movegen_perft (from_scratch p) (S d).
Proof. exact movegen_perft_mirror_v. Qed.
Check X17_movegen_perft_mirror_v : forall d p, pos_valid p = true ->
  movegen_perft (from_scratch (mirror_v p)) (S d) = movegen_perft (from_scratch p) (S d).
Print Assumptions X17_movegen_perft_mirror_v.

Theorem X17_movegen_perft_mirror_h : forall d p, pos_valid p = true ->
  wk p = false -> wq p = false -> bk p = false -> bq p = false ->
  movegen_perft (from_scratch (mirror_h p)) (S d) = movegen_perft (from_scratch p) (S d).
Proof. exact movegen_perft_mirror_h. Qed.
Check X17_movegen_perft_mirror_h : forall d p, pos_valid p = true ->
  wk p = false -> wq p = false -> bk p = false -> bq p = false ->
  movegen_perft (from_scratch (mirror_h p)) (S d) = movegen_perft (from_scratch p) (S d).
Print Assumptions X17_movegen_perft_mirror_h.

Theorem X17_movegen_perft_mirror_v_value : forall d p, pos_valid p = true ->
  movegen_perft (from_scratch (mirror_v p)) (S d) = Some (perft (S d) p).
Proof. exact movegen_perft_mirror_v_value. Qed.
Check X17_movegen_perft_mirror_v_value : forall d p, pos_valid p = true ->
  movegen_perft (from_scratch (mirror_v p)) (S d) = Some (perft (S d) p).
Print Assumptions X17_movegen_perft_mirror_v_value.

Theorem X17_movegen_perft_mirror_h_value : forall d p, pos_valid p = true ->
  wk p = false -> wq p = false -> bk p = false -> bq p = false ->
  movegen_perft (from_scratch (mirror_h p)) (S d) = Some (perft (S d) p).
Proof. exact movegen_perft_mirror_h_value. Qed.
Check X17_movegen_perft_mirror_h_value : forall d p, pos_valid p = true ->
  wk p = false -> wq p = false -> bk p = false -> bq p = false ->
  movegen_perft (from_scratch (mirror_h p)) (S d) = Some (perft (S d) p).
Print Assumptions X17_movegen_perft_mirror_h_value.

(** ** 4: instances (hypotheses satisfiable; numbers from the model) *)
Example X17_ex_pos_e4 : pos_e4 = apply startpos e4 /\ pos_e4_v = mirror_v pos_e4 /\
  In e4 (legal_moves startpos).
Proof. exact ex_pos_e4. Qed.
Example X17_ex_pos_e4_shape :
  turn pos_e4 = Black /\ at_ pos_e4 28 = Some (Pawn,White) /\ at_ pos_e4 12 = None /\
  turn pos_e4_v = White /\ at_ pos_e4_v 36 = Some (Pawn,Black) /\ at_ pos_e4_v 52 = None /\
  at_ pos_e4_v 4 = Some (King,White) /\ at_ pos_e4_v 60 = Some (King,Black) /\
  wk pos_e4_v = true /\ wq pos_e4_v = true /\ bk pos_e4_v = true /\ bq pos_e4_v = true /\
  pos_e4_v <> pos_e4.
Proof. exact ex_pos_e4_shape. Qed.
Example X17_ex_pos_e4_valid : pos_valid pos_e4 = true /\ pos_valid pos_e4_v = true.
Proof. exact ex_pos_e4_valid. Qed.
Example X17_ex_perft_e4 :
  movegen_perft (from_scratch pos_e4) 1 = Some 20 /\ movegen_perft (from_scratch pos_e4_v) 1 = Some 20 /\
  movegen_perft (from_scratch pos_e4) 2 = Some 600 /\ movegen_perft (from_scratch pos_e4_v) 2 = Some 600 /\
  movegen_perft (from_scratch pos_e4) 3 = Some 13160 /\ movegen_perft (from_scratch pos_e4_v) 3 = Some 13160.
Proof.
  exact (conj ex_perft_e4_1 (conj ex_perft_e4_v_1 (conj ex_perft_e4_2 (conj ex_perft_e4_v_2
        (conj ex_perft_e4_3 ex_perft_e4_v_3))))).
Qed.
Example X17_ex_oracle_e4_v_3 : perft 3 (mirror_v pos_e4) = 13160 /\ perft 3 pos_e4 = 13160.
Proof. exact ex_oracle_e4_v_3. Qed.
Example X17_ex_start_v : turn (mirror_v startpos) = Black /\
  placement (mirror_v startpos) = placement startpos /\
  movegen_perft (from_scratch (mirror_v startpos)) 4 = Some 197281.
Proof. exact ex_start_v. Qed.

Example X17_ex_h_hyps : pos_valid ex3 = true /\
  (wk ex3 = false /\ wq ex3 = false /\ bk ex3 = false /\ bq ex3 = false) /\
  pos_valid ex4 = true /\
  (wk ex4 = false /\ wq ex4 = false /\ bk ex4 = false /\ bq ex4 = false) /\
  ex3_h = mirror_h ex3 /\ ex4_h = mirror_h ex4 /\ ex3_h <> ex3 /\
  at_ ex3_h 3 = Some (King,White) /\ ep ex3_h = Some 44.
Proof. exact ex_h_hyps. Qed.
Example X17_ex_perft_ex3 :
  movegen_perft (from_scratch ex3) 1 = Some 15 /\ movegen_perft (from_scratch ex3_h) 1 = Some 15 /\
  movegen_perft (from_scratch ex3) 2 = Some 351 /\ movegen_perft (from_scratch ex3_h) 2 = Some 351 /\
  movegen_perft (from_scratch ex3) 3 = Some 6469 /\ movegen_perft (from_scratch ex3_h) 3 = Some 6469.
Proof. exact ex_perft_ex3. Qed.
Example X17_ex_perft_ex4 :
  movegen_perft (from_scratch ex4) 3 = Some 1707 /\ movegen_perft (from_scratch ex4_h) 3 = Some 1707.
Proof. exact ex_perft_ex4. Qed.
Example X17_ex_oracle_ex3_h_3 : perft 3 (mirror_h ex3) = 6469.
Proof. exact ex_oracle_ex3_h_3. Qed.
(** the restriction of 2 is needed *)
Example X17_ex_h_rights_needed : pos_valid ex1 = true /\ wk ex1 = true /\
  movegen_perft (from_scratch ex1) 1 = Some 17 /\
  movegen_perft (from_scratch (mirror_h ex1)) 1 = Some 15 /\
  perft 1 (mirror_h ex1) <> perft 1 ex1.
Proof. exact ex_h_rights_needed. Qed.
