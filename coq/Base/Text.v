(** * Base.Text — the model of Rust [&str]: a list of Unicode scalar values, with the
    byte-offset operations the library uses ([len], [get(a..b)], [get(a..)], [chars],
    [split(' ')], [contains(char)]).  Outcomes make panics explicit. *)
From Coq Require Export NArith List Bool.
Export ListNotations.
Open Scope N_scope.

Definition str := list N.

Inductive outcome (A:Type) : Type :=
| Ok : A -> outcome A
| Err : outcome A            (* the function returned its error value *)
| Panic : outcome A.         (* the Rust code would panic / index out of range *)
Arguments Ok {A} _.
Arguments Err {A}.
Arguments Panic {A}.

Definition utf8_len (c:N) : N :=
  if c <? 128 then 1 else if c <? 2048 then 2 else if c <? 65536 then 3 else 4.
Fixpoint byte_len (s:str) : N := match s with [] => 0 | c::r => utf8_len c + byte_len r end.

(** [split_at_byte s n = Some (p,q)]: [n] is a char boundary of [s], [p ++ q = s],
    [byte_len p = n]. *)
Fixpoint split_at_byte (s:str) (n:N) {struct s} : option (str*str) :=
  match s with
  | [] => if n =? 0 then Some ([],[]) else None
  | c::r => if n =? 0 then Some ([], s)
            else if utf8_len c <=? n then
              match split_at_byte r (n - utf8_len c) with
              | Some (p,q) => Some (c::p, q) | None => None end
            else None
  end.
(** [s.get(a..b)] *)
Definition get_range (s:str) (a b:N) : option str :=
  if a <=? b then
    match split_at_byte s a with
    | Some (_,r) => match split_at_byte r (b-a) with Some (m,_) => Some m | None => None end
    | None => None end
  else None.
(** [s.get(a..)] *)
Definition get_from (s:str) (a:N) : option str :=
  match split_at_byte s a with Some (_,r) => Some r | None => None end.

Fixpoint str_eqb (a b:str) : bool :=
  match a,b with [],[] => true | x::a', y::b' => (x =? y) && str_eqb a' b' | _,_ => false end.
Definition contains_char (s:str) (c:N) : bool := existsb (N.eqb c) s.

(** [s.split(' ')]: never empty; empty tokens kept. *)
Fixpoint split_sp_aux (s:str) (cur:str) : list str :=
  match s with
  | [] => [rev cur]
  | c::r => if c =? 32 then rev cur :: split_sp_aux r [] else split_sp_aux r (c::cur)
  end.
Definition split_sp (s:str) : list str := split_sp_aux s [].

Fixpoint last_char (s:str) : option N := match s with [] => None | [c] => Some c | _::r => last_char r end.
Fixpoint is_prefix (p s:str) : bool :=
  match p,s with [],_ => true | x::p', y::s' => (x =? y) && is_prefix p' s' | _,_ => false end.
