(** * Proofs.BitsSwap — [BitBoard::reverse_colors] ([swap_bytes]) mirrors the ranks
    (C20, part 3): bit [8*(7-r)+f] of the result is bit [8*r+f] of the argument. *)
From Coq Require Import Lia ZifyBool ZifyN ZifyNat.
From Chess Require Import Base.Bits Model.BitBoard Proofs.BitsFacts.
Open Scope N_scope.
#[local] Arguments N.add : simpl never.
#[local] Arguments N.sub : simpl never.
#[local] Arguments N.mul : simpl never.
#[local] Arguments N.shiftl : simpl never.
#[local] Arguments N.shiftr : simpl never.
#[local] Arguments N.land : simpl never.
#[local] Arguments N.lor : simpl never.
#[local] Arguments N.testbit : simpl never.
#[local] Arguments N.eqb : simpl never.
#[local] Arguments N.ltb : simpl never.
#[local] Arguments N.leb : simpl never.
#[local] Arguments N.pow : simpl never.

Lemma testbit_255 m : N.testbit 255 m = (m <? 8).
Proof.
  change 255 with (N.ones 8). destruct (N.ltb_spec m 8) as [H|H].
  - apply N.ones_spec_low. exact H.
  - apply N.ones_spec_high. exact H.
Qed.

Lemma testbit_byte x i j k :
  N.testbit (N.shiftl (N.land (N.shiftr x (8*i)) 255) (8*j)) k =
  (8*j <=? k) && (k <? 8*j+8) && N.testbit x (k - 8*j + 8*i).
Proof.
  destruct (N.leb_spec (8*j) k) as [Hle|Hlt]; cbn [andb].
  - rewrite N.shiftl_spec_high' by exact Hle.
    rewrite N.land_spec, testbit_255, N.shiftr_spec', andb_comm. f_equal.
    destruct (N.ltb_spec (k - 8*j) 8), (N.ltb_spec k (8*j+8)); try reflexivity; lia.
  - apply N.shiftl_spec_low. exact Hlt.
Qed.

(** the contribution of source byte [i] to result bit [k] *)
Definition sw_term (x k i:N) : bool :=
  (8*(7-i) <=? k) && (k <? 8*(7-i)+8) && N.testbit x (k - 8*(7-i) + 8*i).

Lemma bswap64_testbit x k :
  N.testbit (bswap64 x) k =
  false || sw_term x k 0 || sw_term x k 1 || sw_term x k 2 || sw_term x k 3
        || sw_term x k 4 || sw_term x k 5 || sw_term x k 6 || sw_term x k 7.
Proof.
  unfold bswap64, byte_at. cbn [fold_left].
  rewrite !N.lor_spec, N.bits_0, !testbit_byte. reflexivity.
Qed.

Ltac decide_guards :=
  repeat match goal with
  | |- context [N.leb ?a ?b] =>
      first [replace (N.leb a b) with true by lia | replace (N.leb a b) with false by lia]
  | |- context [N.ltb ?a ?b] =>
      first [replace (N.ltb a b) with true by lia | replace (N.ltb a b) with false by lia]
  end.

(** Stronger than asked: no bound on [b] is needed. *)
Lemma bswap64_spec b r f : r < 8 -> f < 8 ->
  N.testbit (bswap64 b) (8*(7-r)+f) = N.testbit b (8*r+f).
Proof.
  intros Hr Hf. rewrite bswap64_testbit. unfold sw_term.
  assert (Hc : r = 0 \/ r = 1 \/ r = 2 \/ r = 3 \/ r = 4 \/ r = 5 \/ r = 6 \/ r = 7) by lia.
  destruct Hc as [->|[->|[->|[->|[->|[->|[->| ->]]]]]]];
    decide_guards; cbn [andb orb]; rewrite ?orb_false_r; f_equal; lia.
Qed.

Lemma bswap64_lt64 b : bswap64 b < 2 ^ 64.
Proof.
  apply lt64_bits. intros k Hk. rewrite bswap64_testbit. unfold sw_term.
  decide_guards. reflexivity.
Qed.

Theorem reverse_colors_spec : forall b r f, b < 2 ^ 64 -> r < 8 -> f < 8 ->
  N.testbit (bb_reverse_colors b) (8*(7-r)+f) = N.testbit b (8*r+f).
Proof. intros b r f _ Hr Hf. apply bswap64_spec; assumption. Qed.

Theorem reverse_colors_lt64 : forall b, bb_reverse_colors b < 2 ^ 64.
Proof. intro b. apply bswap64_lt64. Qed.

Lemma square_rank_file k : k < 64 -> exists r f, r < 8 /\ f < 8 /\ k = 8*(7-r)+f.
Proof.
  intros Hk. exists (7 - k / 8), (k mod 8).
  pose proof (N.div_mod k 8) as Hdm. pose proof (N.mod_lt k 8) as Hm.
  assert (Hd : k / 8 < 8) by (apply N.div_lt_upper_bound; lia).
  generalize dependent (k / 8). generalize dependent (k mod 8). intros m Hm d Hdm Hd. lia.
Qed.

Theorem reverse_colors_involutive : forall b, b < 2 ^ 64 ->
  bb_reverse_colors (bb_reverse_colors b) = b.
Proof.
  intros b Hb. unfold bb_reverse_colors. apply N.bits_inj. intro k.
  destruct (N.lt_ge_cases k 64) as [Hlt|Hge].
  - destruct (square_rank_file k Hlt) as [r [f [Hr [Hf ->]]]].
    rewrite (bswap64_spec _ r f Hr Hf).
    replace (8*r+f) with (8*(7-(7-r))+f) by lia.
    rewrite (bswap64_spec b (7-r) f) by lia. reflexivity.
  - rewrite (testbit_high _ k (bswap64_lt64 _) Hge), (testbit_high b k Hb Hge). reflexivity.
Qed.

(** On the lists of squares: square [8*r+f] is in [b] iff its mirror is in the reversal. *)
Theorem reverse_colors_squares : forall b r f, r < 8 -> f < 8 ->
  (In (8*(7-r)+f) (squares_of (bb_reverse_colors b)) <-> In (8*r+f) (squares_of b)).
Proof.
  intros b r f Hr Hf. rewrite !squares_of_spec. unfold bb_reverse_colors.
  rewrite (bswap64_spec b r f Hr Hf). reflexivity.
Qed.

Example ex_rev_popcnt :
  bb_popcnt (bb_reverse_colors 9295429630892703873) = bb_popcnt 9295429630892703873.
Proof. vm_compute. reflexivity. Qed.

(** ** Examples: white's second rank [0xff00] goes to the seventh [0x00ff000000000000];
    a lone bit on b3 ([17 = 8*2+1]) goes to b6 ([41 = 8*5+1]). *)
Example ex_rev_rank2 : bb_reverse_colors 65280 = 71776119061217280 /\ 65280 < 2 ^ 64.
Proof. vm_compute. split; reflexivity. Qed.
Example ex_rev_b3 : bb_reverse_colors (bit 17) = bit 41 /\ (2 < 8) /\ (1 < 8) /\ 17 = 8*2+1 /\ 41 = 8*(7-2)+1.
Proof. vm_compute. repeat split. Qed.
(** the bound matters for the involution: bits at or above 64 are dropped *)
Example ex_rev_high : bb_reverse_colors (bb_reverse_colors (2 ^ 64 + 1)) = 1.
Proof. vm_compute. reflexivity. Qed.
