(** * Proofs.GameProtocol — the protocol of [Game]: which operations are accepted, what they
    do to the log, that results are final and name the right outcome; draw claims. *)
From Coq Require Import NArith List Lia Bool Arith.
From Chess Require Import Model.Game Proofs.GameBase Proofs.GameThreefold Proofs.GameScan.
Import ListNotations.
Open Scope N_scope.

#[local] Arguments N.add : simpl never.
#[local] Arguments N.eqb : simpl never.
#[local] Arguments N.leb : simpl never.

(** ** 1. Operations, runs, reachable games *)
Inductive op := OpMove (m:cmove) | OpOffer (c:color) | OpResign (c:color) | OpAccept | OpDeclare.
Definition apply_op (g:game) (o:op) : option (bool * game) :=
  match o with
  | OpMove m => g_make_move g m | OpOffer c => g_offer_draw g c | OpResign c => g_resign g c
  | OpAccept => g_accept_draw g | OpDeclare => g_declare_draw g end.
(** the action an accepted operation appends *)
Definition op_action (o:op) : action :=
  match o with
  | OpMove m => MakeMove m | OpOffer c => OfferDraw c | OpResign c => Resign c
  | OpAccept => AcceptDraw | OpDeclare => DeclareDraw end.
(** a sequence of calls, whatever they return; [None] = some call panicked *)
Fixpoint run (g:game) (ops:list op) : option game :=
  match ops with
  | [] => Some g
  | o :: r => match apply_op g o with Some (_,g') => run g' r | None => None end
  end.

(** games obtained from [Game::new_with_board b0] by any calls with any arguments *)
Inductive Reachable (b0:board) : game -> Prop :=
| R_new : Reachable b0 (new_with_board b0)
| R_move g m f g' : Reachable b0 g -> g_make_move g m = Some (f,g') -> Reachable b0 g'
| R_offer g c f g' : Reachable b0 g -> g_offer_draw g c = Some (f,g') -> Reachable b0 g'
| R_resign g c f g' : Reachable b0 g -> g_resign g c = Some (f,g') -> Reachable b0 g'
| R_accept g f g' : Reachable b0 g -> g_accept_draw g = Some (f,g') -> Reachable b0 g'
| R_declare g f g' : Reachable b0 g -> g_declare_draw g = Some (f,g') -> Reachable b0 g'.

Lemma Reachable_op b0 g o f g' : Reachable b0 g -> apply_op g o = Some (f,g') -> Reachable b0 g'.
Proof.
  intros Hr H. destruct o; cbn [apply_op] in H.
  - eapply R_move; eassumption.
  - eapply R_offer; eassumption.
  - eapply R_resign; eassumption.
  - eapply R_accept; eassumption.
  - eapply R_declare; eassumption.
Qed.
Lemma run_app g ops ops' :
  run g (ops ++ ops') = match run g ops with Some g' => run g' ops' | None => None end.
Proof.
  revert g. induction ops as [|o ops IH]; intro g; [reflexivity|].
  cbn [app run]. destruct (apply_op g o) as [[f g1]|]; [apply IH|reflexivity].
Qed.
Lemma Reachable_run b0 g ops g' : Reachable b0 g -> run g ops = Some g' -> Reachable b0 g'.
Proof.
  revert g. induction ops as [|o ops IH]; intros g Hr H.
  - cbn in H. injection H as <-. exact Hr.
  - cbn [run] in H. destruct (apply_op g o) as [[f g1]|] eqn:E; [|discriminate].
    apply (IH g1); [eapply Reachable_op; eassumption|exact H].
Qed.
Lemma Reachable_iff_run b0 g :
  Reachable b0 g <-> exists ops, run (new_with_board b0) ops = Some g.
Proof.
  split.
  - assert (Hstep : forall g0 o f g1, (exists ops, run (new_with_board b0) ops = Some g0) ->
              apply_op g0 o = Some (f,g1) -> exists ops, run (new_with_board b0) ops = Some g1).
    { intros g0 o f g1 [ops Hops] Ho. exists (ops ++ [o]). rewrite run_app, Hops. cbn [run].
      rewrite Ho. reflexivity. }
    induction 1 as [|g0 m f g1 _ IH H|g0 c f g1 _ IH H|g0 c f g1 _ IH H|g0 f g1 _ IH H|g0 f g1 _ IH H].
    + exists []. reflexivity.
    + apply (Hstep g0 (OpMove m) f g1 IH H).
    + apply (Hstep g0 (OpOffer c) f g1 IH H).
    + apply (Hstep g0 (OpResign c) f g1 IH H).
    + apply (Hstep g0 OpAccept f g1 IH H).
    + apply (Hstep g0 OpDeclare f g1 IH H).
  - intros [ops H]. eapply Reachable_run; [apply R_new|exact H].
Qed.

(** ** 2. Positions and results (facts that need no invariant) *)
Lemma current_position_replay g : current_position g = play (start_pos g) (actions g).
Proof. reflexivity. Qed.
Lemma current_position_new b : current_position (new_with_board b) = Some b.
Proof. reflexivity. Qed.
Lemma current_position_push_move g m :
  current_position (push_action g (MakeMove m)) =
  match current_position g with Some b => mm b m | None => None end.
Proof. unfold current_position, push_action. cbn [start_pos actions]. apply play_snoc_move. Qed.
Lemma current_position_push_other g a :
  is_move a = false -> current_position (push_action g a) = current_position g.
Proof. intro Ha. unfold current_position, push_action. cbn [start_pos actions]. apply play_snoc_other, Ha. Qed.

(** actions that end a game *)
Definition closing (a:action) : bool :=
  match a with AcceptDraw | DeclareDraw | Resign _ => true | _ => false end.
Definition last_closing (g:game) : bool :=
  match last_action g with Some a => closing a | None => false end.

(** the outcome named by [Game::result] *)
Definition outcome (st:status_t) (side:color) (la:option action) : option game_result :=
  match st with
  | Checkmate => match side with White => Some BlackCheckmates | Black => Some WhiteCheckmates end
  | Stalemate => Some RStalemate
  | Ongoing =>
    match la with
    | Some AcceptDraw => Some DrawAccepted
    | Some DeclareDraw => Some DrawDeclared
    | Some (Resign White) => Some WhiteResigns
    | Some (Resign Black) => Some BlackResigns
    | _ => None end
  end.
Lemma result_pos g b :
  current_position g = Some b ->
  result g = Some (outcome (board_status b) (side_to_move g) (last_action g)).
Proof.
  intro H. unfold result. rewrite H. unfold outcome.
  destruct (board_status b); reflexivity.
Qed.
Lemma result_none g : result g = None <-> current_position g = None.
Proof.
  unfold result. destruct (current_position g); split; congruence.
Qed.
Lemma has_result_none g : has_result g = None <-> current_position g = None.
Proof.
  rewrite <- result_none. unfold has_result. destruct (result g) as [[r|]|]; split; congruence.
Qed.
Lemma has_result_pos g r : has_result g = Some r -> exists b, current_position g = Some b.
Proof.
  intro H. destruct (current_position g) as [b|] eqn:E; [eauto|].
  apply has_result_none in E. congruence.
Qed.
Lemma outcome_none st side la :
  outcome st side la = None <->
  st = Ongoing /\ (match la with Some a => closing a | None => false end) = false.
Proof.
  destruct st, side, la as [[m|c| | |[|]]|]; cbn; split; try tauto; try discriminate;
    intros [H1 H2]; discriminate.
Qed.
Lemma has_result_false g b :
  current_position g = Some b ->
  (has_result g = Some false <-> board_status b = Ongoing /\ last_closing g = false).
Proof.
  intro H. unfold has_result. rewrite (result_pos g b H). unfold last_closing.
  rewrite <- (outcome_none (board_status b) (side_to_move g) (last_action g)).
  destruct (outcome (board_status b) (side_to_move g) (last_action g)); split; congruence.
Qed.
Lemma has_result_true g b :
  current_position g = Some b ->
  (has_result g = Some true <-> board_status b <> Ongoing \/ last_closing g = true).
Proof.
  intro H. pose proof (has_result_false g b H) as F.
  assert (D : has_result g = Some true \/ has_result g = Some false).
  { unfold has_result. rewrite (result_pos g b H).
    destruct (outcome _ _ _); [left|right]; reflexivity. }
  split.
  - intro T. destruct (board_status b) eqn:S; try (left; discriminate).
    destruct (last_closing g) eqn:L; [right; reflexivity|].
    assert (has_result g = Some false) by (apply F; split; reflexivity). congruence.
  - intro T. destruct D as [D|D]; [exact D|]. apply F in D. destruct D as [D1 D2].
    destruct T as [T|T]; congruence.
Qed.

(** ** 3. Shape of every operation: refused and unchanged, or accepted and appended *)
Lemma can_declare_true_open g : can_declare_draw g = Some true -> has_result g = Some false.
Proof.
  unfold can_declare_draw. destruct (has_result g) as [[|]|]; try discriminate. reflexivity.
Qed.
Lemma accept_shape g f g' :
  g_accept_draw g = Some (f,g') ->
  (f = false /\ g' = g) \/ (f = true /\ g' = push_action g AcceptDraw /\ has_result g = Some false).
Proof.
  unfold g_accept_draw. destruct (has_result g) as [[|]|]; try discriminate.
  - intro H. injection H as <- <-. left. split; reflexivity.
  - cbv zeta.
    destruct (match nth_from_end (actions g) 0 with Some (OfferDraw _) => true | _ => false end).
    + intro H. injection H as <- <-. right. repeat split.
    + destruct (match nth_from_end (actions g) 1 with
                | Some a => action_eqb a (OfferDraw (opp (side_to_move g))) | None => false end);
        intro H; injection H as <- <-; [right|left]; repeat split.
Qed.
Theorem op_shape g o f g' :
  apply_op g o = Some (f,g') ->
  (f = false /\ g' = g) \/
  (f = true /\ g' = push_action g (op_action o) /\ has_result g = Some false).
Proof.
  destruct o as [m|c|c| |]; cbn [apply_op op_action].
  - unfold g_make_move. destruct (has_result g) as [[|]|] eqn:E; try discriminate.
    + intro H. injection H as <- <-. left. split; reflexivity.
    + destruct (current_position g) as [b|]; [|discriminate].
      destruct (legal b m); intro H; injection H as <- <-; [right|left]; repeat split.
  - unfold g_offer_draw. destruct (has_result g) as [[|]|]; try discriminate;
      intro H; injection H as <- <-; [left|right]; repeat split.
  - unfold g_resign. destruct (has_result g) as [[|]|]; try discriminate;
      intro H; injection H as <- <-; [left|right]; repeat split.
  - apply accept_shape.
  - unfold g_declare_draw. destruct (can_declare_draw g) as [[|]|] eqn:E; try discriminate;
      intro H; injection H as <- <-; [right|left]; repeat split.
    apply can_declare_true_open, E.
Qed.

(** ** 4. Finality *)
Theorem finished_refuses g o : has_result g = Some true -> apply_op g o = Some (false, g).
Proof.
  intro H. destruct o as [m|c|c| |]; cbn [apply_op].
  - unfold g_make_move. rewrite H. reflexivity.
  - unfold g_offer_draw. rewrite H. reflexivity.
  - unfold g_resign. rewrite H. reflexivity.
  - unfold g_accept_draw. rewrite H. reflexivity.
  - unfold g_declare_draw, can_declare_draw. rewrite H. reflexivity.
Qed.
Theorem finished_forever g ops : has_result g = Some true -> run g ops = Some g.
Proof.
  intro H. induction ops as [|o ops IH]; [reflexivity|].
  cbn [run]. rewrite (finished_refuses g o H). exact IH.
Qed.
Corollary result_final g ops g' r :
  result g = Some (Some r) -> run g ops = Some g' -> g' = g /\ result g' = Some (Some r).
Proof.
  intros Hr Hrun. assert (H : has_result g = Some true) by (unfold has_result; rewrite Hr; reflexivity).
  rewrite (finished_forever g ops H) in Hrun. injection Hrun as <-. split; [reflexivity|exact Hr].
Qed.

(** ** 5. The individual operations *)
Lemma make_move_accept g b m g' :
  current_position g = Some b ->
  (g_make_move g m = Some (true, g') <->
   has_result g = Some false /\ legal b m = true /\ g' = push_action g (MakeMove m)).
Proof.
  intro Hb. unfold g_make_move. rewrite Hb.
  destruct (has_result g) as [[|]|]; try (split; [discriminate|intros [H _]; discriminate]).
  destruct (legal b m); split.
  - intro H. injection H as <-. repeat split.
  - intros (_ & _ & ->). reflexivity.
  - discriminate.
  - intros (_ & H & _). discriminate.
Qed.
Lemma make_move_refuse g b m :
  current_position g = Some b ->
  ~ (has_result g = Some false /\ legal b m = true) -> g_make_move g m = Some (false, g).
Proof.
  intros Hb Hn. unfold g_make_move. rewrite Hb.
  destruct (has_result g) as [[|]|] eqn:E.
  - reflexivity.
  - destruct (legal b m); [|reflexivity]. exfalso. apply Hn. split; reflexivity.
  - apply has_result_none in E. congruence.
Qed.
Lemma offer_accept g c g' :
  g_offer_draw g c = Some (true, g') <-> has_result g = Some false /\ g' = push_action g (OfferDraw c).
Proof.
  unfold g_offer_draw. destruct (has_result g) as [[|]|]; split; try discriminate;
    try (intros [H _]; discriminate).
  - intro H. injection H as <-. split; reflexivity.
  - intros [_ ->]. reflexivity.
Qed.
Lemma resign_accept g c g' :
  g_resign g c = Some (true, g') <-> has_result g = Some false /\ g' = push_action g (Resign c).
Proof.
  unfold g_resign. destruct (has_result g) as [[|]|]; split; try discriminate;
    try (intros [H _]; discriminate).
  - intro H. injection H as <-. split; reflexivity.
  - intros [_ ->]. reflexivity.
Qed.

(** *** accepting a draw *)
(** the condition under which an offer is on the table: the latest action is an offer, or
    the latest action is a move and the one before it an offer by [c] *)
Definition offer_pending (g:game) (c:color) : Prop :=
  (exists d, last_action g = Some (OfferDraw d)) \/
  (exists l m, actions g = l ++ [OfferDraw c; MakeMove m]).

Lemma open_last_not_closing g : has_result g = Some false -> last_closing g = false.
Proof.
  intro H. destruct (has_result_pos g false H) as [b Hb].
  apply (has_result_false g b Hb) in H. tauto.
Qed.

Lemma accept_accept g g' :
  g_accept_draw g = Some (true, g') <->
  has_result g = Some false /\ g' = push_action g AcceptDraw /\ offer_pending g (opp (side_to_move g)).
Proof.
  split.
  - intro H. destruct (accept_shape g true g' H) as [[F _]|(_ & -> & Ho)]; [discriminate|].
    split; [exact Ho|]. split; [reflexivity|].
    pose proof (open_last_not_closing g Ho) as Hc. unfold last_closing in Hc.
    unfold g_accept_draw in H. rewrite Ho in H. cbv zeta in H.
    rewrite nth_from_end_0_last in H.
    destruct (last_action g) as [x|] eqn:La.
    + destruct (match x with OfferDraw _ => true | _ => false end) eqn:Ox.
      * left. destruct x; try discriminate. eauto.
      * right.
        assert (H' : match nth_from_end (actions g) 1 with
                     | Some a => action_eqb a (OfferDraw (opp (side_to_move g))) | None => false end = true).
        { destruct x; try discriminate;
          destruct (match nth_from_end (actions g) 1 with
                     | Some a => action_eqb a (OfferDraw (opp (side_to_move g))) | None => false end);
          try reflexivity; discriminate. }
        destruct (nth_from_end (actions g) 1) as [a|] eqn:N1; [|discriminate].
        apply action_eqb_eq in H'. subst a.
        apply nth_from_end_1_some in N1. destruct N1 as (l' & a' & E).
        assert (a' = x).
        { apply last_action_some in La. destruct La as [l0 E0]. rewrite E in E0.
          change (l' ++ [OfferDraw (opp (side_to_move g)); a'])
            with (l' ++ [OfferDraw (opp (side_to_move g))] ++ [a']) in E0.
          rewrite app_assoc in E0. apply app_inj_tail in E0. tauto. }
        subst a'. destruct x as [m|c| | |c]; try discriminate. exists l', m. exact E.
    + exfalso. apply last_action_nil in La. rewrite La in H. cbn in H. discriminate.
  - intros (Ho & -> & Hp). unfold g_accept_draw. rewrite Ho. cbv zeta.
    destruct Hp as [[d La]|(l & m & E)].
    + rewrite nth_from_end_0_last, La. reflexivity.
    + rewrite E. change (l ++ [OfferDraw (opp (side_to_move g)); MakeMove m])
        with (l ++ [OfferDraw (opp (side_to_move g))] ++ [MakeMove m]).
      rewrite app_assoc, nth_from_end_0. rewrite <- app_assoc.
      change ([OfferDraw (opp (side_to_move g))] ++ [MakeMove m])
        with [OfferDraw (opp (side_to_move g)); MakeMove m].
      rewrite nth_from_end_1.
      replace (action_eqb _ _) with true by (symmetry; apply action_eqb_eq; reflexivity).
      reflexivity.
Qed.

(** ** 6. Draw claims *)
Definition clock_g (g:game) : N := clock_m (start_pos g) (actions g).
Definition keys_g (g:game) : list (N * list cmove) := keys_m (start_pos g) (actions g).
(** how often the key of [b] occurs in the key list *)
Definition repetitions (g:game) (b:board) : nat := count (same_as (pos_key b)) (keys_g g).

Lemma can_declare_open g b :
  current_position g = Some b -> has_result g = Some false ->
  can_declare_draw g = Some ((100 <=? clock_g g) || (3 <=? repetitions g b)%nat).
Proof.
  intros Hb Ho. unfold can_declare_draw. rewrite Ho.
  unfold current_position in Hb. rewrite (draw_scan_char _ _ _ Hb).
  fold (clock_g g). fold (keys_g g).
  destruct (100 <=? clock_g g); [reflexivity|]. cbn [orb].
  destruct (keys_m_last _ _ _ Hb) as [init E].
  unfold repetitions. apply threefold_spec_total.
  - fold (keys_g g) in E. rewrite E. apply last_last.
  - eapply keys_m_nonempty. exact Hb.
Qed.

Theorem can_declare_iff g :
  can_declare_draw g = Some true <->
  has_result g = Some false /\
  exists b, current_position g = Some b /\ (100 <= clock_g g \/ (3 <= repetitions g b)%nat).
Proof.
  split.
  - intro H. pose proof (can_declare_true_open g H) as Ho. split; [exact Ho|].
    destruct (has_result_pos g false Ho) as [b Hb]. exists b. split; [exact Hb|].
    rewrite (can_declare_open g b Hb Ho) in H. injection H as H.
    apply orb_true_iff in H. destruct H as [H|H]; [left; apply N.leb_le, H|right; apply Nat.leb_le, H].
  - intros (Ho & b & Hb & H). rewrite (can_declare_open g b Hb Ho). f_equal.
    apply orb_true_iff. destruct H as [H|H]; [left; apply N.leb_le, H|right; apply Nat.leb_le, H].
Qed.

Lemma can_declare_total g b : current_position g = Some b -> exists r, can_declare_draw g = Some r.
Proof.
  intro Hb. destruct (has_result g) as [[|]|] eqn:E.
  - exists false. unfold can_declare_draw. rewrite E. reflexivity.
  - eexists. apply (can_declare_open g b Hb E).
  - apply has_result_none in E. congruence.
Qed.

Lemma declare_accept g g' :
  g_declare_draw g = Some (true, g') <->
  can_declare_draw g = Some true /\ g' = push_action g DeclareDraw.
Proof.
  unfold g_declare_draw. destruct (can_declare_draw g) as [[|]|]; split; try discriminate;
    try (intros [H _]; discriminate).
  - intro H. injection H as <-. split; reflexivity.
  - intros [_ ->]. reflexivity.
Qed.
Lemma declare_refuse g : can_declare_draw g = Some false -> g_declare_draw g = Some (false, g).
Proof. intro H. unfold g_declare_draw. rewrite H. reflexivity. Qed.

(** ** 7. The result after an accepted closing operation *)
Lemma result_after_closing g a :
  has_result g = Some false -> is_move a = false ->
  result (push_action g a) =
  Some (match a with
        | AcceptDraw => Some DrawAccepted | DeclareDraw => Some DrawDeclared
        | Resign White => Some WhiteResigns | Resign Black => Some BlackResigns
        | _ => None end).
Proof.
  intros Ho Ha. destruct (has_result_pos g false Ho) as [b Hb].
  apply (has_result_false g b Hb) in Ho. destruct Ho as [Hs _].
  assert (Hb' : current_position (push_action g a) = Some b)
    by (rewrite current_position_push_other by exact Ha; exact Hb).
  rewrite (result_pos _ b Hb'), Hs, last_action_push.
  destruct a as [m|c| | |[|]]; try discriminate; reflexivity.
Qed.

Theorem resign_result g c g' :
  g_resign g c = Some (true, g') ->
  result g' = Some (Some (match c with White => WhiteResigns | Black => BlackResigns end)).
Proof.
  intro H. apply resign_accept in H. destruct H as [Ho ->].
  rewrite (result_after_closing g (Resign c) Ho eq_refl). destruct c; reflexivity.
Qed.
Theorem accept_result g g' : g_accept_draw g = Some (true, g') -> result g' = Some (Some DrawAccepted).
Proof.
  intro H. apply accept_accept in H. destruct H as (Ho & -> & _).
  apply (result_after_closing g AcceptDraw Ho eq_refl).
Qed.
Theorem declare_result g g' : g_declare_draw g = Some (true, g') -> result g' = Some (Some DrawDeclared).
Proof.
  intro H. apply declare_accept in H. destruct H as [Hc ->].
  apply (result_after_closing g DeclareDraw (can_declare_true_open g Hc) eq_refl).
Qed.
Theorem offer_result g c g' : g_offer_draw g c = Some (true, g') -> result g' = Some None.
Proof.
  intro H. apply offer_accept in H. destruct H as [Ho ->].
  apply (result_after_closing g (OfferDraw c) Ho eq_refl).
Qed.

(** *** the result names the right outcome *)
Theorem result_names_outcome g b r :
  current_position g = Some b ->
  (result g = Some (Some r) <->
   (board_status b = Checkmate /\ side_to_move g = White /\ r = BlackCheckmates) \/
   (board_status b = Checkmate /\ side_to_move g = Black /\ r = WhiteCheckmates) \/
   (board_status b = Stalemate /\ r = RStalemate) \/
   (board_status b = Ongoing /\ last_action g = Some AcceptDraw /\ r = DrawAccepted) \/
   (board_status b = Ongoing /\ last_action g = Some DeclareDraw /\ r = DrawDeclared) \/
   (board_status b = Ongoing /\ last_action g = Some (Resign White) /\ r = WhiteResigns) \/
   (board_status b = Ongoing /\ last_action g = Some (Resign Black) /\ r = BlackResigns)).
Proof.
  intro Hb. rewrite (result_pos g b Hb).
  generalize (board_status b) (side_to_move g) (last_action g). intros st side la.
  destruct st, side, la as [[m|c| | |[|]]|]; cbn [outcome]; split;
  try (intro H; try discriminate H; injection H as <-;
       repeat match goal with
              | |- _ \/ _ => first [left; solve [repeat split; reflexivity] | right] end;
       repeat split; reflexivity);
  intro H; decompose [or and] H; clear H; try discriminate; subst; reflexivity.
Qed.
Theorem result_open g b :
  current_position g = Some b ->
  (result g = Some None <->
   board_status b = Ongoing /\
   (last_action g = None \/ (exists m, last_action g = Some (MakeMove m)) \/
    (exists c, last_action g = Some (OfferDraw c)))).
Proof.
  intro Hb. rewrite (result_pos g b Hb).
  generalize (board_status b) (side_to_move g) (last_action g). intros st side la.
  destruct st, side, la as [[m|c| | |[|]]|]; cbn [outcome]; split;
  try (intro H; first [discriminate H | split; [reflexivity|eauto]]);
  intros [Hs [H|[[m' H]|[c' H]]]]; try discriminate Hs; try discriminate H; reflexivity.
Qed.

(** *** no operation panics as long as the log replays *)
Lemma has_result_total g b : current_position g = Some b -> exists r, has_result g = Some r.
Proof.
  intro Hb. destruct (has_result g) as [r|] eqn:E; [eauto|]. apply has_result_none in E. congruence.
Qed.
Theorem op_total g b o : current_position g = Some b -> exists f g', apply_op g o = Some (f,g').
Proof.
  intro Hb. destruct (has_result_total g b Hb) as [r Hr].
  destruct o as [m|c|c| |]; cbn [apply_op].
  - unfold g_make_move. rewrite Hr, Hb. destruct r; [eauto|]. destruct (legal b m); eauto.
  - unfold g_offer_draw. rewrite Hr. destruct r; eauto.
  - unfold g_resign. rewrite Hr. destruct r; eauto.
  - unfold g_accept_draw. rewrite Hr. destruct r; [eauto|]. cbv zeta.
    destruct (match nth_from_end (actions g) 0 with Some (OfferDraw _) => true | _ => false end); [eauto|].
    destruct (match nth_from_end (actions g) 1 with
              | Some a => action_eqb a (OfferDraw (opp (side_to_move g))) | None => false end); eauto.
  - unfold g_declare_draw. destruct (can_declare_total g b Hb) as [[|] ->]; eauto.
Qed.

(** *** the protocol in one statement: an operation is accepted (and appends its action)
    iff the game is open and the operation is enabled; otherwise it is refused and the game
    is unchanged *)
Definition op_enabled (g:game) (b:board) (o:op) : Prop :=
  match o with
  | OpMove m => legal b m = true
  | OpOffer _ | OpResign _ => True
  | OpAccept => offer_pending g (opp (side_to_move g))
  | OpDeclare => 100 <= clock_g g \/ (3 <= repetitions g b)%nat
  end.
Theorem protocol_accept g b o g' :
  current_position g = Some b ->
  (apply_op g o = Some (true, g') <->
   has_result g = Some false /\ op_enabled g b o /\ g' = push_action g (op_action o)).
Proof.
  intro Hb. destruct o as [m|c|c| |]; cbn [apply_op op_enabled op_action].
  - apply make_move_accept, Hb.
  - rewrite offer_accept. tauto.
  - rewrite resign_accept. tauto.
  - rewrite accept_accept. tauto.
  - rewrite declare_accept, can_declare_iff. split.
    + intros [(Ho & b' & Hb' & H) ->]. rewrite Hb in Hb'. injection Hb' as <-. tauto.
    + intros (Ho & H & ->). split; [|reflexivity]. split; [exact Ho|]. exists b. tauto.
Qed.
Theorem protocol_refuse g b o :
  current_position g = Some b ->
  ~ (has_result g = Some false /\ op_enabled g b o) -> apply_op g o = Some (false, g).
Proof.
  intros Hb Hn. destruct (op_total g b o Hb) as (f & g' & E).
  destruct (op_shape g o f g' E) as [[-> ->]|(-> & _ & _)]; [exact E|].
  exfalso. apply Hn. apply (protocol_accept g b o g' Hb) in E. tauto.
Qed.

(** ** 8. The invariant of reachable games *)
(** every [MakeMove] of the log was legal on the board it was played on *)
Definition LegalLog (b:board) (l:list action) : Prop :=
  forall l1 m l2 bl, l = l1 ++ MakeMove m :: l2 -> play b l1 = Some bl -> legal bl m = true.
Lemma LegalLog_nil b : LegalLog b [].
Proof. intros l1 m l2 bl E. destruct l1; discriminate. Qed.
Lemma LegalLog_snoc_move b l m :
  LegalLog b l -> (forall bl, play b l = Some bl -> legal bl m = true) -> LegalLog b (l ++ [MakeMove m]).
Proof.
  intros HL Hm l1 m' l2 bl E Hp. destruct l2 as [|x l2 _] using rev_ind.
  - apply app_inj_tail in E. destruct E as [-> E]. injection E as ->. apply Hm, Hp.
  - change (l1 ++ MakeMove m' :: l2 ++ [x]) with (l1 ++ (MakeMove m' :: l2) ++ [x]) in E.
    rewrite app_assoc in E. apply app_inj_tail in E. destruct E as [E _].
    apply (HL l1 m' l2 bl E Hp).
Qed.
Lemma LegalLog_snoc_other b l a : LegalLog b l -> is_move a = false -> LegalLog b (l ++ [a]).
Proof.
  intros HL Ha l1 m' l2 bl E Hp. destruct l2 as [|x l2 _] using rev_ind.
  - apply app_inj_tail in E. destruct E as [_ ->]. discriminate.
  - change (l1 ++ MakeMove m' :: l2 ++ [x]) with (l1 ++ (MakeMove m' :: l2) ++ [x]) in E.
    rewrite app_assoc in E. apply app_inj_tail in E. destruct E as [E _].
    apply (HL l1 m' l2 bl E Hp).
Qed.

(** a board predicate closed under applying legal moves (the interface assumption about
    [Board]: a legal move can be applied, and the predicate persists) *)
Definition StepClosed (Inv:board -> Prop) : Prop :=
  forall b m, Inv b -> legal b m = true -> exists b', mm b m = Some b' /\ Inv b'.

Section Invariant.
Variable Inv : board -> Prop.
Hypothesis inv_step :
  forall b m, Inv b -> legal b m = true -> exists b', mm b m = Some b' /\ Inv b'.

(** replaying the log succeeds and ends in a board satisfying [Inv]: every [MakeMove] of
    the log could be applied *)
Definition GoodLog (b:board) (l:list action) : Prop := exists b', play b l = Some b' /\ Inv b'.
Definition Good (b0:board) (g:game) : Prop :=
  start_pos g = b0 /\ GoodLog b0 (actions g) /\ LegalLog b0 (actions g).

Lemma Good_pos b0 g : Good b0 g -> exists b, current_position g = Some b /\ Inv b.
Proof. intros (E & (b & Hp & Hi) & _). exists b. unfold current_position. rewrite E. tauto. Qed.

Lemma GoodLog_nil b : Inv b -> GoodLog b [].
Proof. intro H. exists b. split; [reflexivity|exact H]. Qed.
Lemma GoodLog_snoc_move b l bl m :
  GoodLog b l -> play b l = Some bl -> legal bl m = true -> GoodLog b (l ++ [MakeMove m]).
Proof.
  intros (b1 & Hp & Hi) Hbl Hl. rewrite Hbl in Hp. injection Hp as ->.
  destruct (inv_step b1 m Hi Hl) as (b2 & Hm & Hi2).
  exists b2. rewrite play_snoc_move, Hbl. tauto.
Qed.
Lemma GoodLog_snoc_other b l a : GoodLog b l -> is_move a = false -> GoodLog b (l ++ [a]).
Proof.
  intros (b1 & Hp & Hi) Ha. exists b1. rewrite play_snoc_other by exact Ha. tauto.
Qed.

Lemma Good_new b0 : Inv b0 -> Good b0 (new_with_board b0).
Proof. intro H. split; [reflexivity|]. split; [apply GoodLog_nil, H|apply LegalLog_nil]. Qed.

Lemma Good_op b0 g o f g' : Good b0 g -> apply_op g o = Some (f,g') -> Good b0 g'.
Proof.
  intros Hg H. destruct (op_shape g o f g' H) as [[_ ->]|(-> & -> & Ho)]; [exact Hg|].
  destruct Hg as (E & HL & HLL). split; [exact E|]. cbn [push_action actions].
  destruct o as [m|c|c| |]; cbn [op_action];
    try (split; [apply GoodLog_snoc_other; [exact HL|reflexivity]
                |apply LegalLog_snoc_other; [exact HLL|reflexivity]]).
  cbn [apply_op] in H. destruct HL as (b & Hp & Hi).
  assert (Hb : current_position g = Some b) by (unfold current_position; rewrite E; exact Hp).
  apply (make_move_accept g b m _ Hb) in H. destruct H as (_ & Hl & _). split.
  - apply (GoodLog_snoc_move b0 (actions g) b m); [exists b; tauto|exact Hp|exact Hl].
  - apply LegalLog_snoc_move; [exact HLL|]. intros bl Hbl. rewrite Hp in Hbl. injection Hbl as <-. exact Hl.
Qed.

Theorem Reachable_Good b0 g : Inv b0 -> Reachable b0 g -> Good b0 g.
Proof.
  intros Hi Hr.
  induction Hr as [|g0 m f g1 _ IH H|g0 c f g1 _ IH H|g0 c f g1 _ IH H|g0 f g1 _ IH H|g0 f g1 _ IH H].
  - apply Good_new, Hi.
  - apply (Good_op b0 g0 (OpMove m) f g1 IH H).
  - apply (Good_op b0 g0 (OpOffer c) f g1 IH H).
  - apply (Good_op b0 g0 (OpResign c) f g1 IH H).
  - apply (Good_op b0 g0 OpAccept f g1 IH H).
  - apply (Good_op b0 g0 OpDeclare f g1 IH H).
Qed.

(** *** no panic *)
Lemma Good_op_total b0 g o : Good b0 g -> exists f g', apply_op g o = Some (f,g').
Proof. intro Hg. destruct (Good_pos b0 g Hg) as (b & Hb & _). apply (op_total g b o Hb). Qed.

Theorem no_panic b0 g :
  Inv b0 -> Reachable b0 g ->
  (exists b, current_position g = Some b /\ Inv b) /\
  (exists r, result g = Some r) /\
  (exists d, can_declare_draw g = Some d) /\
  (forall o, exists f g', apply_op g o = Some (f,g')).
Proof.
  intros Hi Hr. pose proof (Reachable_Good b0 g Hi Hr) as Hg.
  destruct (Good_pos b0 g Hg) as (b & Hb & Hib).
  split; [eauto|]. split; [rewrite (result_pos g b Hb); eauto|].
  split; [apply (can_declare_total g b Hb)|].
  intro o. apply (Good_op_total b0 g o Hg).
Qed.

Theorem run_total b0 g ops :
  Inv b0 -> Reachable b0 g -> exists g', run g ops = Some g' /\ Reachable b0 g'.
Proof.
  intros Hi. revert g. induction ops as [|o ops IH]; intros g Hr.
  - exists g. split; [reflexivity|exact Hr].
  - destruct (no_panic b0 g Hi Hr) as (_ & _ & _ & Ht). destruct (Ht o) as (f & g1 & E).
    cbn [run]. rewrite E. apply IH. eapply Reachable_op; eassumption.
Qed.

(** *** the log replays from the start board; the mover of the latest move *)
Theorem reachable_replay b0 g :
  Inv b0 -> Reachable b0 g -> start_pos g = b0 /\ current_position g = play b0 (actions g).
Proof.
  intros Hi Hr. destruct (Reachable_Good b0 g Hi Hr) as (E & _).
  split; [exact E|]. unfold current_position. rewrite E. reflexivity.
Qed.

(** if the log ends with [OfferDraw c; MakeMove m] and [c] is the colour the code compares
    with ([!side_to_move()]), then [c] is the colour that made the move [m] *)
Lemma mover_of_last_move b0 g l c m :
  Good b0 g -> actions g = l ++ [OfferDraw c; MakeMove m] ->
  exists bl b, play b0 l = Some bl /\ mm bl m = Some b /\ current_position g = Some b /\
               stm bl = opp (side_to_move g).
Proof.
  intros (E & (b & Hp & _) & _) Ea.
  assert (Hb : current_position g = Some b) by (unfold current_position; rewrite E; exact Hp).
  rewrite Ea in Hp.
  change (l ++ [OfferDraw c; MakeMove m]) with (l ++ [OfferDraw c] ++ [MakeMove m]) in Hp.
  rewrite app_assoc, play_snoc_move, play_snoc_other in Hp by reflexivity.
  destruct (play b0 l) as [bl|] eqn:Hl; [|discriminate].
  exists bl, b. repeat split; try assumption.
  rewrite (side_to_move_correct g b Hb), (mm_flips_turn bl m b Hp), opp_opp. reflexivity.
Qed.

(** *** accepting a draw on a reachable game: the offer the code finds two actions back was
    made in the name of the colour that then moved *)
Theorem accept_draw_sound b0 g g' :
  Inv b0 -> Reachable b0 g -> g_accept_draw g = Some (true, g') ->
  has_result g = Some false /\ g' = push_action g AcceptDraw /\
  ((exists d, last_action g = Some (OfferDraw d)) \/
   (exists l m bl, actions g = l ++ [OfferDraw (stm bl); MakeMove m] /\
                   play b0 l = Some bl /\ legal bl m = true)).
Proof.
  intros Hi Hr H. pose proof (Reachable_Good b0 g Hi Hr) as Hg.
  apply accept_accept in H. destruct H as (Ho & -> & Hp).
  split; [exact Ho|]. split; [reflexivity|].
  destruct Hp as [Hp|(l & m & Ea)]; [left; exact Hp|right].
  destruct (mover_of_last_move b0 g l _ m Hg Ea) as (bl & b & Hl & Hm & Hb & Hs).
  exists l, m, bl. rewrite Hs. split; [exact Ea|]. split; [exact Hl|].
  destruct Hg as (_ & _ & HLL).
  apply (HLL (l ++ [OfferDraw (opp (side_to_move g))]) m [] bl).
  - rewrite Ea, <- app_assoc. reflexivity.
  - rewrite play_snoc_other by reflexivity. exact Hl.
Qed.

Theorem reachable_log_legal b0 g :
  Inv b0 -> Reachable b0 g -> LegalLog b0 (actions g).
Proof. intros Hi Hr. destruct (Reachable_Good b0 g Hi Hr) as (_ & _ & H). exact H. Qed.
(** *** the protocol on reachable games *)
Theorem reachable_protocol b0 g :
  Inv b0 -> Reachable b0 g ->
  exists b, current_position g = Some b /\ Inv b /\ side_to_move g = stm b /\
    forall o,
      (forall g', apply_op g o = Some (true, g') <->
         has_result g = Some false /\ op_enabled g b o /\ g' = push_action g (op_action o)) /\
      (~ (has_result g = Some false /\ op_enabled g b o) -> apply_op g o = Some (false, g)).
Proof.
  intros Hi Hr. destruct (Good_pos b0 g (Reachable_Good b0 g Hi Hr)) as (b & Hb & Hib).
  exists b. split; [exact Hb|]. split; [exact Hib|]. split; [apply side_to_move_correct, Hb|].
  intro o. split; [intro g'; apply protocol_accept, Hb|apply protocol_refuse, Hb].
Qed.

Theorem reachable_make_move b0 g m :
  Inv b0 -> Reachable b0 g ->
  exists b, current_position g = Some b /\
    (forall g', g_make_move g m = Some (true, g') <->
       has_result g = Some false /\ legal b m = true /\ g' = push_action g (MakeMove m)) /\
    (~ (has_result g = Some false /\ legal b m = true) -> g_make_move g m = Some (false, g)) /\
    (legal b m = true -> exists b', mm b m = Some b' /\
       current_position (push_action g (MakeMove m)) = Some b' /\ stm b' = opp (stm b)).
Proof.
  intros Hi Hr. destruct (Good_pos b0 g (Reachable_Good b0 g Hi Hr)) as (b & Hb & Hib).
  exists b. split; [exact Hb|]. split; [intro g'; apply make_move_accept, Hb|].
  split; [apply make_move_refuse, Hb|].
  intro Hl. destruct (inv_step b m Hib Hl) as (b' & Hm & _). exists b'.
  split; [exact Hm|]. split; [rewrite current_position_push_move, Hb; exact Hm|].
  apply (mm_flips_turn b m b' Hm).
Qed.

End Invariant.
