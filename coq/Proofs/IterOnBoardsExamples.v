(** * Proofs.IterOnBoardsExamples — the theorems of [Proofs.IterOnBoards] on a concrete position
    with captures, a capturing promotion and castling: perft position 5
    (rnbq1k1r/pp1Pbppp/2p5/8/2B5/8/PPP1NnPP/RNBQK2R w KQ - 1 8, parsed by the model's parser in
    [Proofs.PerftPublished]; 44 legal moves).

    Only the MODEL side is evaluated ([vm_compute] on the iterator run on [pos5_board]); the
    statements about [legal_moves ex_pos] are obtained from the theorems, never by evaluating
    the specification's move generator. *)
From Coq Require Import NArith List Bool Lia Permutation.
From Chess Require Import Base.Bits Spec.Geometry Spec.Rules Model.Board Model.MoveGen.
From Chess Require Import Proofs.IterLists Proofs.IterCore Proofs.IterMask Proofs.NullMove
  Proofs.PerftPublished Proofs.IterOnBoards.
Import ListNotations.
Open Scope N_scope.

(** ** the position, and the hypotheses of every theorem *)
Definition ex_pos : pos := Eval vm_compute in abs_board pos5_board.

Lemma ex_pos_abs : abs_board pos5_board = ex_pos.
Proof. vm_compute. reflexivity. Qed.

Example ex_valid : pos_valid ex_pos = true.
Proof. rewrite <- ex_pos_abs. exact pos5_valid. Qed.

Example ex_board : from_scratch ex_pos = pos5_board.
Proof. rewrite <- ex_pos_abs. symmetry. exact pos5_canonical. Qed.

Example ex_canon_hyps : Canonical pos5_board /\ pos_valid (abs_board pos5_board) = true.
Proof. split; [exact pos5_canonical|exact pos5_valid]. Qed.

Example ex_turn : turn ex_pos = White.
Proof. reflexivity. Qed.

Definition mk (s d:N) : cmove := {| msrc := s; mdst := d; mpromo := None |}.
Definition mkp (s d:N) (t:ptype) : cmove := {| msrc := s; mdst := d; mpromo := Some t |}.

(** ** 2. captures first: the black men as first mask *)
Definition ex_targets : N := color_combined pos5_board (opp (turn ex_pos)).

(** d7xc8 with the four promotions, Bc4xf7, Ke1xf2 *)
Definition ex_caps : list cmove :=
  [mkp 51 58 Queen; mkp 51 58 Knight; mkp 51 58 Rook; mkp 51 58 Bishop; mk 26 53; mk 4 13].
(** the 38 moves to empty squares (among them castling e1g1 = [mk 4 6]) *)
Definition ex_rest : list cmove :=
  [mk 26 17; mk 26 19; mk 26 33; mk 26 35; mk 26 40; mk 26 44; mk 4 5; mk 4 6; mk 4 11;
   mk 14 22; mk 14 30; mk 15 23; mk 15 31; mk 8 16; mk 8 24; mk 1 11; mk 1 16; mk 1 18;
   mk 12 6; mk 12 18; mk 12 22; mk 12 27; mk 12 29; mk 2 11; mk 2 20; mk 2 29; mk 2 38;
   mk 2 47; mk 9 17; mk 9 25; mk 7 5; mk 7 6; mk 3 11; mk 3 19; mk 3 27; mk 3 35; mk 3 43;
   mk 10 18].

Example ex_captures_run :
  fst (run drain_fuel (new_legal pos5_board) [OMask ex_targets; OMask M64]) = [ex_caps; ex_rest].
Proof. vm_compute. reflexivity. Qed.

Example ex_captures_first :
  Permutation ex_caps
    (map of_spec_move (filter (fun m => enemy ex_pos (turn ex_pos) (dst m)) (legal_moves ex_pos))) /\
  Permutation ex_rest
    (map of_spec_move (filter (fun m => negb (enemy ex_pos (turn ex_pos) (dst m))) (legal_moves ex_pos))) /\
  Permutation (ex_caps ++ ex_rest) (map of_spec_move (legal_moves ex_pos)) /\
  length (legal_moves ex_pos) = 44%nat.
Proof.
  pose proof (captures_first_fide_5000 ex_pos ex_valid) as H. cbv zeta in H.
  rewrite ex_board in H. fold ex_targets in H.
  destruct H as [_ [H1 [H2 [H3 _]]]].
  match type of H1 with Permutation ?x _ =>
    assert (E1 : x = ex_caps) by (vm_compute; reflexivity) end.
  match type of H2 with Permutation ?x _ =>
    assert (E2 : x = ex_rest) by (vm_compute; reflexivity) end.
  rewrite E1 in H1, H3. rewrite E2 in H2, H3.
  split; [exact H1|]. split; [exact H2|]. split; [exact H3|].
  rewrite <- (map_length of_spec_move), <- (Permutation_length H3). reflexivity.
Qed.

(** ** 1. a mask sequence: the eighth rank, then the black men, then everything *)
Definition ex_rank8 : N := 0xFF00000000000000.
Definition ex_b0 : list cmove := [mkp 51 58 Queen; mkp 51 58 Knight; mkp 51 58 Rook; mkp 51 58 Bishop].
Definition ex_b1 : list cmove := [mk 26 53; mk 4 13].

(** the remaining 38 moves (the order differs from [ex_rest]: the partition step of
    [set_iterator_mask] swaps entries) *)
Definition ex_b2 : list cmove := Eval vm_compute in
  nth 2 (fst (run drain_fuel (new_legal pos5_board) (map OMask ([ex_rank8; ex_targets] ++ [M64])))) [].

Example ex_masks_run :
  fst (run drain_fuel (new_legal pos5_board) (map OMask ([ex_rank8; ex_targets] ++ [M64])))
  = [ex_b0; ex_b1; ex_b2] /\ length ex_b2 = 38%nat.
Proof. vm_compute. repeat split; reflexivity. Qed.

Example ex_mask_sequence :
  Permutation ex_b0
    (map of_spec_move (filter (fun m => N.testbit ex_rank8 (dst m)) (legal_moves ex_pos))) /\
  Permutation ex_b1
    (map of_spec_move (filter (fun m => negb (N.testbit ex_rank8 (dst m)) && N.testbit ex_targets (dst m))
                              (legal_moves ex_pos))) /\
  Permutation ex_b2
    (map of_spec_move (filter (fun m => negb (N.testbit ex_rank8 (dst m)) && negb (N.testbit ex_targets (dst m)))
                              (legal_moves ex_pos))) /\
  Permutation (ex_b0 ++ ex_b1 ++ ex_b2) (map of_spec_move (legal_moves ex_pos)) /\
  NoDup (ex_b0 ++ ex_b1 ++ ex_b2).
Proof.
  pose proof (mask_sequence_fide_5000 ex_pos [ex_rank8; ex_targets] ex_valid) as H. cbv zeta in H.
  rewrite ex_board, (proj1 ex_masks_run) in H.
  destruct H as [_ [Hb [Hlast [Hall Hnd]]]].
  pose proof (Hb 0%nat ltac:(cbn [length]; lia)) as B0.
  pose proof (Hb 1%nat ltac:(cbn [length]; lia)) as B1.
  cbn [nth firstn app forallb length] in B0, B1, Hlast.
  cbn [concat app] in Hall, Hnd.
  split; [|split; [|split; [|split; [exact Hall|exact Hnd]]]].
  - etransitivity; [exact B0|]. apply Permutation_map.
    erewrite filter_ext; [reflexivity|]. intro m. reflexivity.
  - etransitivity; [exact B1|]. apply Permutation_map.
    erewrite filter_ext; [reflexivity|]. intro m. cbn beta. rewrite andb_true_r. reflexivity.
  - etransitivity; [exact Hlast|]. apply Permutation_map.
    erewrite filter_ext; [reflexivity|]. intro m. cbn beta. rewrite andb_true_r. reflexivity.
Qed.

(** ** 3. removals *)
(** [remove_move] d7 -> c8 deletes all four promotions d7xc8=Q/N/R/B; 40 moves remain *)
Definition ex_after_remove : list cmove :=
  Eval vm_compute in fst (drain drain_fuel (snd (remove_move (new_legal pos5_board) 51 58))).

Example ex_remove_move_run :
  remove_move (new_legal pos5_board) 51 58 = (true, snd (remove_move (new_legal pos5_board) 51 58)) /\
  fst (drain drain_fuel (snd (remove_move (new_legal pos5_board) 51 58))) = ex_after_remove /\
  length ex_after_remove = 40%nat /\
  existsb (fun c => (msrc c =? 51) && (mdst c =? 58)) ex_after_remove = false.
Proof. vm_compute. repeat split; reflexivity. Qed.

Example ex_remove_move :
  existsb (fun m => src m =? 51) (legal_moves ex_pos) = true /\
  Permutation ex_after_remove
    (map of_spec_move (filter (fun m => negb ((src m =? 51) && (dst m =? 58))) (legal_moves ex_pos))) /\
  NoDup ex_after_remove.
Proof.
  pose proof (remove_move_fide ex_pos 51 58 drain_fuel ex_valid (drain_fuel_fide ex_pos ex_valid)) as H.
  cbv zeta in H. rewrite ex_board in H.
  destruct ex_remove_move_run as [E0 [E1 _]]. rewrite E1 in H. rewrite E0 in H at 1.
  destruct H as [H0 [H1 H2]]. cbn [fst] in H0.
  split; [symmetry; exact H0|]. split; [exact H1|exact H2].
Qed.

(** the flag only says that SOME move starts on the source square: d7 -> d8 is not a legal move
    (d8 is occupied), nothing is removed, yet the flag is [true]; from an empty square it is
    [false] *)
Example ex_remove_move_flag :
  fst (remove_move (new_legal pos5_board) 51 59) = true /\
  length (fst (drain drain_fuel (snd (remove_move (new_legal pos5_board) 51 59)))) = 44%nat /\
  fst (remove_move (new_legal pos5_board) 20 28) = false.
Proof. vm_compute. repeat split; reflexivity. Qed.

(** [remove_mask] of the black men leaves the 38 non-capturing moves (in the iterator's order
    after the re-partition) *)
Definition ex_after_mask : list cmove :=
  Eval vm_compute in fst (drain drain_fuel (remove_mask (new_legal pos5_board) ex_targets)).

Example ex_remove_mask_run :
  fst (drain drain_fuel (remove_mask (new_legal pos5_board) ex_targets)) = ex_after_mask /\
  length ex_after_mask = 38%nat /\
  existsb (fun c => N.testbit ex_targets (mdst c)) ex_after_mask = false.
Proof. vm_compute. repeat split; reflexivity. Qed.

Example ex_remove_mask :
  Permutation ex_after_mask
    (map of_spec_move (filter (fun m => negb (N.testbit ex_targets (dst m))) (legal_moves ex_pos))) /\
  NoDup ex_after_mask.
Proof.
  pose proof (remove_mask_fide ex_pos ex_targets drain_fuel ex_valid (drain_fuel_fide ex_pos ex_valid)) as H.
  rewrite ex_board, (proj1 ex_remove_mask_run) in H. exact H.
Qed.

(** ** 4. [len] *)
Example ex_len_run : len (new_legal pos5_board) = 44.
Proof. vm_compute. reflexivity. Qed.

Example ex_len : length (legal_moves ex_pos) = 44%nat.
Proof.
  pose proof (len_fide ex_pos ex_valid) as H. rewrite ex_board, ex_len_run in H.
  apply Nat2N.inj. symmetry. exact H.
Qed.

(** after three calls of [next] (three pawn moves — the iteration order is the generator's):
    41 legal moves are still to come *)
Example ex_prefix_run :
  fst (drain 3 (new_legal pos5_board)) = [mk 8 16; mk 8 24; mk 9 17] /\
  len (snd (drain 3 (new_legal pos5_board))) = 41.
Proof. vm_compute. split; reflexivity. Qed.

Example ex_len_prefix :
  let y := [mk 8 16; mk 8 24; mk 9 17] in
  (forall c, In c y -> In (to_spec_move c) (legal_moves ex_pos)) /\
  41 = N.of_nat (length (filter (fun m => negb (legal_in y (of_spec_move m))) (legal_moves ex_pos))).
Proof.
  pose proof (len_prefix_fide ex_pos 3 ex_valid) as H. cbv zeta in H. rewrite ex_board in H.
  destruct ex_prefix_run as [E1 E2]. rewrite E1, E2 in H.
  destruct H as [H1 [_ [_ [_ H5]]]]. split; [exact H1|exact H5].
Qed.

(** a reachable state in the middle of a promotion *)
Example ex_reachable :
  let g := snd (next (set_iterator_mask (new_legal pos5_board) ex_rank8)) in
  Reach (enumerate_moves pos5_board) g /\ promotion_index g = 1 /\ len g = 3.
Proof.
  split; [|vm_compute; split; reflexivity].
  apply Reach_next, Reach_mask; [apply reach_new_legal|reflexivity].
Qed.

(** ** the flag of [remove_move] is NOT "the move was there": a refutation witness.
    On [ex_pos], d7 -> d8 is no legal move (d8 is occupied), yet [remove_move] answers [true]
    because the pawn d7 has other moves. *)
Lemma filter_length_all {A} (P:A->bool) : forall l, length (filter P l) = length l ->
  forall x, In x l -> P x = true.
Proof.
  induction l as [|a l IH]; intros Hl x Hx; [destruct Hx|].
  cbn [filter] in Hl. destruct (P a) eqn:Ea.
  - cbn [length] in Hl. injection Hl as Hl. destruct Hx as [<-|Hx]; [exact Ea|exact (IH Hl x Hx)].
  - exfalso. pose proof (length_filter_le P l) as Hle. cbn [length] in Hl. lia.
Qed.

Theorem remove_move_flag_refuted :
  ~ (forall p s d, pos_valid p = true ->
       fst (remove_move (new_legal (from_scratch p)) s d)
       = existsb (fun m => (src m =? s) && (dst m =? d)) (legal_moves p)).
Proof.
  intro H. specialize (H ex_pos 51 59 ex_valid). rewrite ex_board in H.
  destruct ex_remove_move_flag as [F1 [F2 _]]. rewrite F1 in H. symmetry in H.
  apply existsb_exists in H. destruct H as [m [Hin Hm]].
  pose proof (remove_move_fide ex_pos 51 59 drain_fuel ex_valid (drain_fuel_fide ex_pos ex_valid)) as R.
  cbv zeta in R. rewrite ex_board in R. destruct R as [_ [R _]].
  apply Permutation_length in R. rewrite F2, map_length in R.
  pose proof (filter_length_all _ (legal_moves ex_pos) ltac:(rewrite <- R; symmetry; exact ex_len) m Hin) as Q.
  cbn beta in Q. rewrite Hm in Q. discriminate Q.
Qed.
