(** * Proofs.MagicSweep — the complete sweep of the magic-bitboard tables: for both piece
    types, every square and every subset of the entry's relevant mask, the table look-up over
    the *translated* tables ([G_MAGICS], [G_MOVES], [G_RAYS]) equals ray walking; lifted to
    all occupancies through [Proofs.WalkDep]. *)
From Coq Require Import Lia ZifyBool ZifyN ZifyNat.
From Chess Require Import Spec.Geometry Model.Magic Proofs.WalkDep.
From Chess Require Gen.Magic Gen.Tables.
Open Scope N_scope.

Definition entry_mask (pt sq:N) : N := let '(_,mask,_,_) := magic_entry pt sq in mask.
Definition dirs_of (pt:N) : list (Z*Z) := if pt =? 0 then rook_dirs else bishop_dirs.

(** Step 1: the look-up sees the occupancy only through the entry's mask (syntactic). *)
Lemma magic_lookup_mask pt sq occ :
  magic_lookup pt sq occ = magic_lookup pt sq (N.land occ (entry_mask pt sq)).
Proof.
  unfold magic_lookup, magic_index, entry_mask.
  destruct (magic_entry pt sq) as [[[mg mask] off] sh].
  rewrite <- N.land_assoc, N.land_diag. reflexivity.
Qed.

(** Step 4: the sweep.  For one (piece type, square): the entry's mask is the closed-form
    relevant mask, fits in 64 bits, and every subset of it looks up to the ray walk. *)
Definition lookup_ok (pt sq s:N) : bool :=
  match magic_lookup pt sq s with
  | Some v => v =? slide (dirs_of pt) sq s
  | None => false
  end.
Definition sweep_sq (pt sq:N) : bool :=
  let mask := entry_mask pt sq in
  (mask =? slide_mask (dirs_of pt) sq) && (mask <? 18446744073709551616)
  && forallb (lookup_ok pt sq) (subsets (bits_of mask)).

(** number of (piece type, square, subset) triples swept *)
Definition sweep_size : N :=
  fold_left (fun a pt => fold_left (fun a sq =>
     a + N.of_nat (length (subsets (bits_of (entry_mask pt sq))))) all_sq a) [0;1] 0.

Lemma sweep_all : forallb (fun pt => forallb (sweep_sq pt) all_sq) [0;1] = true.
Proof. vm_cast_no_check (eq_refl true). Qed.

Lemma sweep_sq_ok pt sq : pt < 2 -> sq < 64 -> sweep_sq pt sq = true.
Proof.
  intros Hpt Hsq.
  pose proof sweep_all as H. rewrite forallb_forall in H.
  assert (Hin : In pt [0;1]) by (cbn [In]; lia).
  specialize (H pt Hin). rewrite forallb_forall in H.
  apply H. apply in_all_sq. exact Hsq.
Qed.

(** Step 5: assembly. *)
Lemma magic_lookup_slide pt sq occ :
  pt < 2 -> sq < 64 -> magic_lookup pt sq occ = Some (slide (dirs_of pt) sq occ).
Proof.
  intros Hpt Hsq.
  pose proof (sweep_sq_ok pt sq Hpt Hsq) as Hs. unfold sweep_sq in Hs.
  apply andb_prop in Hs. destruct Hs as [Hs Hall].
  apply andb_prop in Hs. destruct Hs as [Hmask Hlt].
  apply N.eqb_eq in Hmask. apply N.ltb_lt in Hlt.
  change 18446744073709551616 with (2^64) in Hlt.
  rewrite forallb_forall in Hall.
  rewrite magic_lookup_mask.
  specialize (Hall (N.land occ (entry_mask pt sq)) (land_in_subsets occ _ Hlt)).
  unfold lookup_ok in Hall.
  destruct (magic_lookup pt sq (N.land occ (entry_mask pt sq))) as [v|]; [|discriminate Hall].
  apply N.eqb_eq in Hall. rewrite Hall, Hmask. rewrite <- slide_dep. reflexivity.
Qed.

Lemma rook_magic sq occ : sq < 64 -> magic_lookup 0 sq occ = Some (rook_walk sq occ).
Proof. intros Hsq. apply (magic_lookup_slide 0 sq occ); [lia|exact Hsq]. Qed.

Lemma bishop_magic sq occ : sq < 64 -> magic_lookup 1 sq occ = Some (bishop_walk sq occ).
Proof. intros Hsq. apply (magic_lookup_slide 1 sq occ); [lia|exact Hsq]. Qed.

(** the statement's conventional form, with the (unneeded) 64-bit hypothesis *)
Lemma rook_magic64 sq occ :
  sq < 64 -> occ < 2^64 -> magic_lookup 0 sq occ = Some (rook_walk sq occ).
Proof. intros Hsq _. apply rook_magic. exact Hsq. Qed.
Lemma bishop_magic64 sq occ :
  sq < 64 -> occ < 2^64 -> magic_lookup 1 sq occ = Some (bishop_walk sq occ).
Proof. intros Hsq _. apply bishop_magic. exact Hsq. Qed.

(** ** Non-triviality: concrete look-ups, and the size of the sweep *)
(* rook on d4, blockers on d5 and b4: a4 is cut off, d5 and b4 are included *)
Example rook_magic_ex :
  27 < 64 /\ bit 35 + bit 25 < 2^64 /\
  magic_lookup 0 27 (bit 35 + bit 25) = Some 38487459848 /\
  rook_walk 27 (bit 35 + bit 25) = 38487459848 /\
  rook_walk 27 (bit 35 + bit 25) <> rook_walk 27 0.
Proof. repeat split; try (vm_compute; reflexivity). vm_compute. discriminate. Qed.

Example bishop_magic_ex :
  27 < 64 /\ bit 36 + bit 9 < 2^64 /\
  magic_lookup 1 27 (bit 36 + bit 9) = Some (bishop_walk 27 (bit 36 + bit 9)) /\
  bishop_walk 27 (bit 36 + bit 9) <> bishop_walk 27 0 /\
  bishop_walk 27 0 <> 0.
Proof. repeat split; try (vm_compute; reflexivity); vm_compute; discriminate. Qed.

(* bits outside the 64-bit word are ignored by the model too *)
Example rook_magic_high_ex :
  magic_lookup 0 0 (bit 64 + bit 8) = Some (rook_walk 0 (bit 8)).
Proof. vm_compute. reflexivity. Qed.

Example sweep_size_ex : sweep_size = 107648.
Proof. vm_compute. reflexivity. Qed.
