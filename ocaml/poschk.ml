(* "pos" and "mirror" streams: C01 C02 C03 C04 C05 C08 C17 C18 *)
open Model
open Common

type pline = { enc : string; o : (string*string) list; moves : (int*int*int) list; lq : string;
               null : string; legal : string; succ : string list; raw : string }
let parse_pline (l:string) : pline =
  match split_bar l with
  | f0 :: f1 :: f2 :: f3 :: f4 :: f5 :: rest ->
    { enc = String.sub f0 2 (String.length f0 - 2); o = kv f1;
      moves = (if String.trim f2 = "none" then [] else List.map triple_of_mvs (tokens f2));
      lq = (if String.trim f3 = "-" then "" else String.trim f3); null = String.trim f4;
      legal = String.trim f5; succ = rest; raw = l }
  | _ -> failwith ("bad P line: " ^ l)

let obs_keys = ["ch";"pin";"pcs";"col";"comb";"hash"]
let cmp_obs tagprefix ctx (impl:(string*string) list) (b:board) =
  let mine = kv (obs_of_board b) in
  List.iter (fun k -> if get k impl <> get k mine then
                mismatch (tagprefix ^ k) (Printf.sprintf "%s impl=%s model=%s" ctx (get k impl) (get k mine))) obs_keys
let status_char = function Ongoing -> "O" | Stalemate -> "S" | Checkmate -> "M"
let sort_moves l = List.sort compare l
let rec has_dup = function a :: (b :: _ as r) -> a = b || has_dup r | _ -> false
let rights_le (a:pos) (b:pos) = (* rights of a ⊆ rights of b *)
  (not a.wk || b.wk) && (not a.wq || b.wq) && (not a.bk || b.bk) && (not a.bq || b.bq)
let squares_list bb = List.map int_of_n (squares_of bb)

let all_triples = lazy (
  let l = ref [] in
  for a = 63 downto 0 do for d = 63 downto 0 do for p = 4 downto 0 do l := (a,d,p) :: !l done done done; !l)

let check_pline ?(quiet_stats=false) (pl:pline) : unit =
  let bb = builder_of_enc pl.enc in
  let b = from_builder_raw bb in
  let p = abs_board b in
  let valid = pos_valid p in
  let ctx = pl.enc in
  bump "positions";
  let fresh = note_distinct pl.enc in
  (* ---- model vs implementation: every observable ---- *)
  if not (is_sane b) then mismatch "sane" (ctx ^ " impl board fails the model's is_sane");
  if get "sane" pl.o <> "1" then mismatch "impl_sane" (ctx ^ " impl is_sane=false on a board it produced");
  if get "rp" pl.o <> "1" then mismatch "reparse" (ctx ^ " board != parse(display(board))");
  cmp_obs "obs_" ctx pl.o b;
  let mine = moves_of b in
  let mine_t = List.map triple_of_cmove mine in
  let impl_sorted = sort_moves pl.moves in
  if sort_moves mine_t <> impl_sorted then mismatch "moves" (Printf.sprintf "%s impl=[%s] model=[%s]" ctx
      (String.concat " " (List.map mvs_of_triple impl_sorted)) (String.concat " " (List.map mvs_of_triple (sort_moves mine_t))));
  if movelist_overflow b then mismatch "overflow" (ctx ^ " model: move list overflow");
  let st = board_status b in
  if status_char st <> get "st" pl.o then mismatch "status_model" (Printf.sprintf "%s impl=%s model=%s" ctx (get "st" pl.o) (status_char st));
  let l0 = int_of_n (len (new_legal b)) in
  if string_of_int l0 <> get "len" pl.o then mismatch "len0" (Printf.sprintf "%s impl=%s model=%d" ctx (get "len" pl.o) l0);
  if get "len" pl.o <> string_of_int (List.length pl.moves) then mismatch "len_vs_count" (ctx ^ " len() of a fresh generator != number of moves yielded");
  if get "em" pl.o <> string_of_int (List.length pl.moves) then mismatch "enumerate_moves" (ctx ^ " deprecated enumerate_moves count differs");
  if get "sh" pl.o <> "1" then mismatch "size_hint" (ctx ^ " size_hint != (len, Some len)");
  (* legal_quick on generated moves *)
  let lqm = String.concat "" (List.map (fun t -> match legal_quick b (cmove_of_triple t) with Some true -> "1" | Some false -> "0" | None -> "P") pl.moves) in
  if lqm <> pl.lq then mismatch "legal_quick_model" (Printf.sprintf "%s impl=%s model=%s" ctx pl.lq lqm);
  if String.contains pl.lq '0' then mismatch "legal_quick" (ctx ^ " legal_quick false on a generated move");
  (* null move *)
  (match null_move b with
   | None -> if pl.null <> "NONE" then mismatch "null_model" (ctx ^ " impl passes, model refuses")
   | Some nb ->
     if pl.null = "NONE" then mismatch "null_model" (ctx ^ " impl refuses, model passes")
     else (match String.split_on_char '~' pl.null with
         | [e; o] ->
           if e <> enc_of_board nb then mismatch "null_model" (Printf.sprintf "%s impl=%s model=%s" ctx e (enc_of_board nb));
           cmp_obs "null_" ctx (kv o) nb;
           (* oracle C18: the from-scratch board of pass(abs b) *)
           let fs = from_scratch (pass p) in
           if enc_of_board fs <> e then mismatch "null_oracle" (Printf.sprintf "%s impl=%s spec=%s" ctx e (enc_of_board fs));
           cmp_obs "nullfs_" ctx (kv o) fs;
           bump "null_moves"
         | _ -> mismatch "null_model" "unparsable null field"));
  if (pl.null = "NONE") <> (get "ch" pl.o <> "0") then mismatch "null_oracle" (ctx ^ " null move refused iff in check violated");
  (* the single-move legality query on all 20480 triples *)
  if pl.legal <> "-" then begin
    bump "full_legal_sweeps";
    let impl_l = if pl.legal = "none" then [] else List.map triple_of_mvs (tokens pl.legal) in
    if sort_moves impl_l <> impl_sorted then mismatch "legal_query" (Printf.sprintf "%s legal() true-set [%s] != generated moves" ctx pl.legal);
    let model_l = List.filter (fun t -> legal_in mine (cmove_of_triple t)) (Lazy.force all_triples) in
    if sort_moves model_l <> sort_moves impl_l then mismatch "legal_query_model" (ctx ^ " model legal() differs on some triple")
  end;
  (* ---- oracle: the specification on the implementation's outputs ---- *)
  if valid then begin
    bump "valid_positions";
    let spec_moves = sort_moves (List.map triple_of_move (legal_moves p)) in
    if spec_moves <> impl_sorted then mismatch "oracle_moves" (Printf.sprintf "%s impl=[%s] spec=[%s]" ctx
        (String.concat " " (List.map mvs_of_triple impl_sorted)) (String.concat " " (List.map mvs_of_triple spec_moves)));
    if has_dup impl_sorted then mismatch "oracle_dup" (ctx ^ " a move is generated twice");
    let ch_spec = List.sort compare (List.map int_of_n (checkers_of p)) in
    let ch_impl = squares_list (n_of_u64s (get "ch" pl.o)) in
    if ch_spec <> ch_impl then mismatch "oracle_checkers" (Printf.sprintf "%s impl=%s" ctx (get "ch" pl.o));
    let own = (match b.stm with White -> b.cW | Black -> b.cB) in
    let pin_impl = squares_list (N.coq_land (n_of_u64s (get "pin" pl.o)) own) in
    let pin_spec = List.sort_uniq compare (List.map int_of_n (pinned_of p)) in
    if pin_spec <> pin_impl then mismatch "oracle_pinned" (Printf.sprintf "%s impl=%s" ctx (get "pin" pl.o));
    let st_spec = status p in
    if status_char st_spec <> get "st" pl.o then mismatch "oracle_status" (Printf.sprintf "%s impl=%s spec=%s" ctx (get "st" pl.o) (status_char st_spec));
    if not quiet_stats && fresh then begin
      if ch_impl <> [] then bump "d_in_check";
      if List.length ch_impl >= 2 then bump "d_double_check";
      if pin_impl <> [] then bump "d_pinned";
      if p.ep <> None then bump "d_ep_state";
      if List.exists (fun (_,_,c) -> c <> 0) pl.moves then bump "d_promotion_available";
      if List.exists (fun (a,d,_) -> List.nth bb.bpieces a = Some (King, b.stm) && abs (a - d) = 2) pl.moves then bump "d_castling_available";
      if st_spec <> Ongoing then bump "d_terminal";
      if List.exists (fun m -> is_ep p (move_of_triple m)) pl.moves then bump "d_ep_capture_available";
      if (p.wk || p.wq || p.bk || p.bq) && not (p.wk && p.wq && p.bk && p.bq) then bump "d_partial_rights";
      if ch_impl <> [] || pin_impl <> [] || p.ep <> None || st_spec <> Ongoing || List.exists (fun (_,_,c) -> c <> 0) pl.moves then bump "distinct_nontrivial"
    end
  end else bump "not_posvalid_positions";
  (* ---- successors ---- *)
  List.iter (fun s ->
      match String.split_on_char '~' (String.trim s) with
      | [mvs; e; o; flags] ->
        bump "successors";
        let t = triple_of_mvs mvs in
        let m = cmove_of_triple t in
        if flags <> "11" then mismatch "succ_flags" (Printf.sprintf "%s move %s flags=%s (make_move==make_move_new & source untouched, is_sane)" ctx mvs flags);
        let oo = kv o in
        (match make_move_new b m.msrc m.mdst m.mpromo with
         | None -> mismatch "succ_model" (Printf.sprintf "%s move %s: model panics" ctx mvs)
         | Some nb ->
           if enc_of_board nb <> e then mismatch "succ_model" (Printf.sprintf "%s move %s impl=%s model=%s" ctx mvs e (enc_of_board nb));
           cmp_obs "succ_" (ctx ^ " move " ^ mvs) oo nb;
           (match make_move b m.msrc m.mdst m.mpromo b with
            | Some nb2 -> if not (board_eqb nb nb2) then mismatch "succ_model2" (ctx ^ " model make_move != make_move_new")
            | None -> mismatch "succ_model2" "model make_move panics"));
        (* C03 incremental = from scratch: caches and hash of the successor *)
        let sb = from_builder_raw (builder_of_enc e) in
        cmp_obs "succfs_" (ctx ^ " move " ^ mvs) oo sb;
        if valid then begin
          (* oracle C02 *)
          let q = apply p (move_of_triple t) in
          let qe = enc_of_pos q in
          if qe <> e then mismatch "oracle_apply" (Printf.sprintf "%s move %s impl=%s spec=%s" ctx mvs e qe);
          (* oracle C05 *)
          let sp = abs_board sb in
          if not (pos_valid sp) then mismatch "oracle_valid_succ" (Printf.sprintf "%s move %s -> %s not PosValid" ctx mvs e);
          if not (rights_le sp p) then mismatch "oracle_monotone" (ctx ^ " rights grew");
          if int_of_n (men sp White) > int_of_n (men p White) || int_of_n (men sp Black) > int_of_n (men p Black)
             || int_of_n (pawns sp White) > int_of_n (pawns p White) || int_of_n (pawns sp Black) > int_of_n (pawns p Black)
          then mismatch "oracle_monotone" (ctx ^ " material grew");
          (* ep recorded whenever a legal ep capture exists under the unconditional flag *)
          (match sp.ep with
           | Some _ -> if not (is_double p (move_of_triple t)) then mismatch "oracle_ep" (ctx ^ " ep state after a non-double-push")
           | None -> ())
        end
      | _ -> mismatch "succ_parse" s) pl.succ;
  (* development aid: boolean instances of the T_gen interface statements (Proofs/GenInterface.v) *)
  if valid && fresh && Sys.getenv_opt "VERIF_TEST_INTERFACES" = Some "1" then begin
    let r = int_of_n (test_interfaces b) in
    bump "interface_tests";
    if r <> 0 then mismatch "interface_stmt" (Printf.sprintf "%s failing statements mask=%d" ctx r);
    (* stmt_ep_one_checker: an en-passant state never coexists with a double check *)
    if b.epsq <> None then begin bump "interface_ep_positions"; if int_of_n (popcnt b.checkers) >= 2 then mismatch "interface_stmt" (ctx ^ " ep state with two checkers") end
  end;
  if fresh && not quiet_stats then sample "position" pl.enc

(* mirror stream *)
let mirror_triple_v (a,d,c) = (a lxor 56, d lxor 56, c)
let mirror_triple_h (a,d,c) = (a lxor 7, d lxor 7, c)
let flip_bb_v (s:string) = u64s_of_n (bswap64 (n_of_u64s s))
let flip_bb_h (s:string) =
  let x = n_of_u64s s in
  u64s_of_n (List.fold_left (fun acc sq -> N.coq_lor acc (bit (n_of_int ((int_of_n sq) lxor 7)))) N0 (squares_of x))
let check_mirror (kind:string) (a:pline) (bl:string) =
  bump "mirror_pairs";
  if String.length bl >= 8 && String.sub bl 0 8 = "REJECTED" then begin
    (* a position the library reaches but refuses when mirrored *)
    let p = pos_of_enc a.enc in
    if pos_valid p then mismatch "mirror_rejected" (a.enc ^ " mirror image rejected: " ^ bl)
    else bump "mirror_rejected_nonvalid"
  end else begin
    let b = parse_pline bl in
    let mt = if kind = "V" then mirror_triple_v else mirror_triple_h in
    let fb = if kind = "V" then flip_bb_v else flip_bb_h in
    let ctx = Printf.sprintf "%s mirror(%s) %s" a.enc kind b.enc in
    if sort_moves (List.map mt a.moves) <> sort_moves b.moves then mismatch "mirror_moves" ctx;
    if get "st" a.o <> get "st" b.o then mismatch "mirror_status" ctx;
    if fb (get "ch" a.o) <> get "ch" b.o then mismatch "mirror_checkers" ctx;
    if fb (get "pin" a.o) <> get "pin" b.o then mismatch "mirror_pinned" ctx;
    (* successors: mirror image of each successor encoding *)
    let succ_map l = List.filter_map (fun s -> match String.split_on_char '~' (String.trim s) with
        | [mvs; e; o; _] -> Some (triple_of_mvs mvs, (e, kv o)) | _ -> None) l in
    let sa = succ_map a.succ and sb = succ_map b.succ in
    List.iter (fun (t, (e, o)) ->
        match List.assoc_opt (mt t) sb with
        | None -> mismatch "mirror_succ" (ctx ^ " missing successor")
        | Some (e2, o2) ->
          let p1 = pos_of_enc e and p2 = pos_of_enc e2 in
          let mp = if kind = "V" then mirror_v p1 else mirror_h p1 in
          if enc_of_pos mp <> enc_of_pos p2 then mismatch "mirror_succ" (Printf.sprintf "%s move %s: %s vs %s" ctx (mvs_of_triple t) e e2);
          if fb (get "ch" o) <> get "ch" o2 || fb (get "pin" o) <> get "pin" o2 then mismatch "mirror_succ_caches" ctx) sa;
    if note_distinct ("M" ^ a.enc ^ kind) then begin bump "distinct_nontrivial"; sample "mirror_pair" (a.enc ^ " <-> " ^ b.enc) end
  end


(* "coqcases" mode: for the first positions of the stream, emit a Coq file that recomputes the
   model's observables INSIDE Coq (vm_compute) and compares them with the values the extracted
   code computed here; this guards the extraction and this driver (DESIGN 4.2). *)
let coq_of_pc = function
  | None -> "None"
  | Some (t,c) -> Printf.sprintf "Some (%s,%s)"
                    (match t with Pawn -> "Pawn" | Knight -> "Knight" | Bishop -> "Bishop" | Rook -> "Rook" | Queen -> "Queen" | King -> "King")
                    (match c with White -> "White" | Black -> "Black")
let coqcases_count = ref 0
let emit_coqcase (pl:pline) : unit =
  if !coqcases_count = 0 then begin
    print_string "From Chess Require Import Model.MoveGen.\nOpen Scope N_scope.\n";
    print_string "Definition mv_eqb (a:cmove) (t:N*N*N) : bool := let '(s,d,p) := t in (msrc a =? s) && (mdst a =? d) && (match mpromo a with None => 0 | Some Queen => 1 | Some Knight => 2 | Some Rook => 3 | Some Bishop => 4 | Some Pawn => 5 | Some King => 6 end =? p).\n";
    print_string "Fixpoint mvs_eqb (l:list cmove) (r:list (N*N*N)) : bool := match l, r with [], [] => true | a::l', t::r' => mv_eqb a t && mvs_eqb l' r' | _,_ => false end.\n"
  end;
  if !coqcases_count < 12 then begin
    incr coqcases_count;
    let bb = builder_of_enc pl.enc in
    let b = from_builder_raw bb in
    let mvs = List.map triple_of_cmove (moves_of b) in
    Printf.printf "Eval vm_compute in (let b := from_builder_raw {| bpieces := [%s]; bstm := %s; bcrW := %d; bcrB := %d; bep := %s |} in\n  (get_hash b =? %s) && (checkers b =? %s) && (pinned b =? %s) && mvs_eqb (moves_of b) [%s] && (len (new_legal b) =? %d)).\n"
      (String.concat "; " (List.map coq_of_pc bb.bpieces))
      (match bb.bstm with White -> "White" | Black -> "Black") (int_of_n bb.bcrW) (int_of_n bb.bcrB)
      (match bb.bep with None -> "None" | Some f -> Printf.sprintf "(Some %d)" (int_of_n f))
      (u64s_of_n (get_hash b)) (u64s_of_n b.checkers) (u64s_of_n b.pinned)
      (String.concat "; " (List.map (fun (a,d,c) -> Printf.sprintf "(%d,%d,%d)" a d c) mvs))
      (List.length mvs)
  end
