(** * Proofs.WalkDep — ray walking depends on the occupancy only through the relevant
    mask ([rmask] / [slide_mask]); structural powerset of a mask ([subsets], [restrict]). *)
From Coq Require Import Lia ZifyBool ZifyN ZifyNat.
From Chess Require Import Spec.Geometry.
Open Scope N_scope.

Lemma testbit_bit s t : N.testbit (bit s) t = (s =? t).
Proof.
  unfold bit. rewrite N.shiftl_1_l.
  destruct (N.eqb_spec s t) as [->|Hne].
  - apply N.pow2_bits_true.
  - apply N.pow2_bits_false. exact Hne.
Qed.

(** ** [all_sq] is exactly the squares below 64 *)
Lemma all_sq_seq : all_sq = map N.of_nat (seq 0 64).
Proof. reflexivity. Qed.

Lemma in_all_sq a : In a all_sq <-> a < 64.
Proof.
  rewrite all_sq_seq, in_map_iff. split.
  - intros [n [Hn Hin]]. apply in_seq in Hin. lia.
  - intros Ha. exists (N.to_nat a). split; [apply N2Nat.id|]. apply in_seq. lia.
Qed.

(** ** Dependence of one ray on the occupancy *)
Lemma walk_dep fuel : forall occ f r df dr,
  walk fuel occ f r df dr = walk fuel (N.land occ (rmask fuel f r df dr)) f r df dr.
Proof.
  induction fuel as [|n IH]; intros occ f r df dr; [reflexivity|].
  cbn [walk rmask].
  destruct (on_board (f+df) (r+dr)) eqn:Hb; [|reflexivity].
  destruct (on_board (f+df+df) (r+dr+dr)) eqn:Hb2.
  - rewrite N.land_spec, N.lor_spec, testbit_bit, N.eqb_refl, orb_true_l, andb_true_r.
    destruct (N.testbit occ (idx (f+df) (r+dr))); [reflexivity|].
    f_equal. etransitivity; [apply IH|]. symmetry. etransitivity; [apply IH|]. f_equal.
    apply N.bits_inj; intro k. rewrite !N.land_spec, N.lor_spec.
    destruct (N.testbit occ k), (N.testbit (bit (idx (f+df) (r+dr))) k),
             (N.testbit (rmask n (f+df) (r+dr) df dr) k); reflexivity.
  - rewrite N.land_0_r. rewrite N.bits_0.
    destruct n as [|n']; cbn [walk];
      [destruct (N.testbit occ _); rewrite ?N.lor_0_r; reflexivity|].
    rewrite Hb2. destruct (N.testbit occ _); rewrite ?N.lor_0_r; reflexivity.
Qed.

(** usable form: two occupancies that agree on the ray's relevant mask give the same walk *)
Lemma walk_agree fuel occ occ' f r df dr :
  (forall k, N.testbit (rmask fuel f r df dr) k = true -> N.testbit occ k = N.testbit occ' k) ->
  walk fuel occ f r df dr = walk fuel occ' f r df dr.
Proof.
  intros Hag.
  rewrite (walk_dep fuel occ), (walk_dep fuel occ'). f_equal.
  apply N.bits_inj; intro k. rewrite !N.land_spec.
  destruct (N.testbit (rmask fuel f r df dr) k) eqn:Hm.
  - rewrite (Hag k Hm). reflexivity.
  - rewrite !andb_false_r. reflexivity.
Qed.

(** ** Lifting to [slide] *)
Lemma fold_lor_testbit {A} (g:A->N) (l:list A) : forall acc k,
  N.testbit (fold_left (fun a d => N.lor a (g d)) l acc) k
  = N.testbit acc k || existsb (fun d => N.testbit (g d) k) l.
Proof.
  induction l as [|d l IH]; intros acc k; cbn [fold_left existsb].
  - rewrite orb_false_r. reflexivity.
  - rewrite IH, N.lor_spec, orb_assoc. reflexivity.
Qed.

Lemma fold_lor_ext {A} (g g':A->N) (l:list A) : forall acc,
  (forall d, In d l -> g d = g' d) ->
  fold_left (fun a d => N.lor a (g d)) l acc = fold_left (fun a d => N.lor a (g' d)) l acc.
Proof.
  induction l as [|d l IH]; intros acc Hext; cbn [fold_left]; [reflexivity|].
  rewrite (Hext d (or_introl eq_refl)). apply IH.
  intros d' Hd'. apply Hext. right. exact Hd'.
Qed.

Lemma slide_mask_testbit dirs s k :
  N.testbit (slide_mask dirs s) k
  = existsb (fun d => N.testbit (rmask 7 (fileZ s) (rankZ s) (fst d) (snd d)) k) dirs.
Proof.
  unfold slide_mask.
  rewrite (fold_lor_testbit (fun d => rmask 7 (fileZ s) (rankZ s) (fst d) (snd d))).
  rewrite N.bits_0. reflexivity.
Qed.

Lemma slide_agree dirs s occ occ' :
  (forall k, N.testbit (slide_mask dirs s) k = true -> N.testbit occ k = N.testbit occ' k) ->
  slide dirs s occ = slide dirs s occ'.
Proof.
  intros Hag. unfold slide.
  apply (fold_lor_ext (fun d => walk 7 occ (fileZ s) (rankZ s) (fst d) (snd d))
                      (fun d => walk 7 occ' (fileZ s) (rankZ s) (fst d) (snd d))).
  intros d Hd. apply walk_agree. intros k Hk. apply Hag.
  rewrite slide_mask_testbit. apply existsb_exists. exists d. split; assumption.
Qed.

Lemma slide_dep dirs s occ :
  slide dirs s occ = slide dirs s (N.land occ (slide_mask dirs s)).
Proof.
  apply slide_agree. intros k Hk. rewrite N.land_spec, Hk, andb_true_r. reflexivity.
Qed.

(** ** Structural powerset of a list of bit positions *)
Fixpoint subsets (bits:list N) : list N :=
  match bits with
  | [] => [0]
  | b::r => let t := subsets r in t ++ map (N.lor (bit b)) t
  end.
Fixpoint restrict (occ:N) (bits:list N) : N :=
  match bits with
  | [] => 0
  | b::r => if N.testbit occ b then N.lor (bit b) (restrict occ r) else restrict occ r
  end.

Lemma restrict_in occ bits : In (restrict occ bits) (subsets bits).
Proof.
  induction bits as [|b r IH]; cbn [restrict subsets]; [left; reflexivity|].
  apply in_or_app. destruct (N.testbit occ b).
  - right. apply in_map. exact IH.
  - left. exact IH.
Qed.

Lemma restrict_spec occ bits k :
  N.testbit (restrict occ bits) k = N.testbit occ k && existsb (N.eqb k) bits.
Proof.
  induction bits as [|b r IH]; cbn [restrict existsb].
  - rewrite N.bits_0, andb_false_r. reflexivity.
  - destruct (N.testbit occ b) eqn:Hb.
    + rewrite N.lor_spec, testbit_bit, IH, (N.eqb_sym b k).
      destruct (N.eqb_spec k b) as [->|Hne].
      * rewrite Hb. reflexivity.
      * cbn [orb]. reflexivity.
    + rewrite IH. destruct (N.eqb_spec k b) as [->|Hne].
      * rewrite Hb. reflexivity.
      * cbn [orb]. reflexivity.
Qed.

Definition bits_of (m:N) : list N := filter (N.testbit m) all_sq.

Lemma existsb_eqb_filter (p:N->bool) k (l:list N) :
  existsb (N.eqb k) (filter p l) = p k && existsb (N.eqb k) l.
Proof.
  induction l as [|a l IH]; cbn [filter existsb]; [rewrite andb_false_r; reflexivity|].
  destruct (p a) eqn:Hpa; cbn [existsb]; rewrite IH.
  - destruct (N.eqb_spec k a) as [->|Hne].
    + rewrite Hpa. reflexivity.
    + cbn [orb]. reflexivity.
  - destruct (N.eqb_spec k a) as [->|Hne].
    + rewrite Hpa. reflexivity.
    + cbn [orb]. reflexivity.
Qed.

Lemma existsb_eqb_all_sq k : existsb (N.eqb k) all_sq = (k <? 64).
Proof.
  destruct (N.ltb_spec k 64) as [Hlt|Hge].
  - apply existsb_exists. exists k. split; [apply in_all_sq; exact Hlt|apply N.eqb_refl].
  - destruct (existsb (N.eqb k) all_sq) eqn:He; [|reflexivity].
    apply existsb_exists in He. destruct He as [x [Hin Heq]].
    apply in_all_sq in Hin. apply N.eqb_eq in Heq. lia.
Qed.

Lemma testbit_high m k : m < 2^64 -> 64 <= k -> N.testbit m k = false.
Proof.
  intros Hm Hk. destruct (N.eq_dec m 0) as [->|Hne]; [apply N.bits_0|].
  apply N.bits_above_log2.
  assert (Hlog : N.log2 m < 64) by (apply N.log2_lt_pow2; lia).
  lia.
Qed.

Lemma restrict_land occ m : m < 2^64 -> restrict occ (bits_of m) = N.land occ m.
Proof.
  intros Hm. apply N.bits_inj; intro k.
  rewrite restrict_spec, N.land_spec. unfold bits_of.
  rewrite existsb_eqb_filter, existsb_eqb_all_sq.
  destruct (N.ltb_spec k 64) as [Hlt|Hge].
  - rewrite andb_true_r. reflexivity.
  - rewrite (testbit_high m k Hm Hge). reflexivity.
Qed.

Lemma land_in_subsets occ m : m < 2^64 -> In (N.land occ m) (subsets (bits_of m)).
Proof. intros Hm. rewrite <- (restrict_land occ m Hm). apply restrict_in. Qed.

(** the hypothesis of [restrict_land] is satisfiable and the statement non-trivial *)
Example restrict_land_ex :
  282578800148862 < 2^64 /\
  restrict (bit 8 + bit 9 + bit 1 + bit 63) (bits_of 282578800148862) = bit 8 + bit 1.
Proof. split; vm_compute; reflexivity. Qed.

(** ** Semantic characterisation of ray walking
    [t] is in the walk iff it is the [k]-th square of the ray for some [k] within the fuel,
    the ray has not left the board up to [k], and no square strictly before [k] is occupied. *)
Lemma walk_spec_gen fuel : forall occ f r df dr t,
  N.testbit (walk fuel occ f r df dr) t = true <->
  exists k:Z, (1 <= k <= Z.of_nat fuel)%Z /\
    (forall j, (1 <= j <= k)%Z -> on_board (f+j*df) (r+j*dr) = true) /\
    t = idx (f+k*df) (r+k*dr) /\
    (forall j, (1 <= j < k)%Z -> N.testbit occ (idx (f+j*df) (r+j*dr)) = false).
Proof.
  induction fuel as [|n IH]; intros occ f r df dr t.
  - cbn [walk]. rewrite N.bits_0. split; [discriminate|].
    intros [k [Hk _]]. lia.
  - cbn [walk]. split.
    + destruct (on_board (f+df) (r+dr)) eqn:Hb; [|rewrite N.bits_0; discriminate].
      assert (Hone : forall j, (1 <= j <= 1)%Z -> on_board (f+j*df) (r+j*dr) = true).
      { intros j Hj. assert (j = 1%Z) by lia. subst j.
        replace (f+1*df)%Z with (f+df)%Z by lia. replace (r+1*dr)%Z with (r+dr)%Z by lia.
        exact Hb. }
      assert (Hk1 : N.testbit (bit (idx (f+df) (r+dr))) t = true ->
        exists k:Z, (1 <= k <= Z.of_nat (S n))%Z /\
          (forall j, (1 <= j <= k)%Z -> on_board (f+j*df) (r+j*dr) = true) /\
          t = idx (f+k*df) (r+k*dr) /\
          (forall j, (1 <= j < k)%Z -> N.testbit occ (idx (f+j*df) (r+j*dr)) = false)).
      { intros Ht. rewrite testbit_bit in Ht. apply N.eqb_eq in Ht.
        exists 1%Z. split; [lia|]. split; [exact Hone|]. split.
        - replace (f+1*df)%Z with (f+df)%Z by lia. replace (r+1*dr)%Z with (r+dr)%Z by lia.
          symmetry. exact Ht.
        - intros j Hj. lia. }
      destruct (N.testbit occ (idx (f+df) (r+dr))) eqn:Hocc; [exact Hk1|].
      rewrite N.lor_spec. intros Ht. apply orb_prop in Ht. destruct Ht as [Ht|Ht]; [auto|].
      apply IH in Ht. destruct Ht as [k [Hk [Hon [Heq Hfree]]]].
      exists (k+1)%Z. split; [lia|]. split; [|split].
      * intros j Hj. destruct (Z.eq_dec j 1) as [->|Hne]; [apply Hone; lia|].
        replace (f+j*df)%Z with (f+df+(j-1)*df)%Z by lia.
        replace (r+j*dr)%Z with (r+dr+(j-1)*dr)%Z by lia. apply Hon. lia.
      * replace (f+(k+1)*df)%Z with (f+df+k*df)%Z by lia.
        replace (r+(k+1)*dr)%Z with (r+dr+k*dr)%Z by lia. exact Heq.
      * intros j Hj. destruct (Z.eq_dec j 1) as [->|Hne].
        -- replace (f+1*df)%Z with (f+df)%Z by lia. replace (r+1*dr)%Z with (r+dr)%Z by lia.
           exact Hocc.
        -- replace (f+j*df)%Z with (f+df+(j-1)*df)%Z by lia.
           replace (r+j*dr)%Z with (r+dr+(j-1)*dr)%Z by lia. apply Hfree. lia.
    + intros [k [Hk [Hon [Heq Hfree]]]].
      assert (Hb : on_board (f+df) (r+dr) = true).
      { specialize (Hon 1%Z). replace (f+1*df)%Z with (f+df)%Z in Hon by lia.
        replace (r+1*dr)%Z with (r+dr)%Z in Hon by lia. apply Hon. lia. }
      rewrite Hb.
      destruct (Z.eq_dec k 1) as [->|Hne].
      * replace (f+1*df)%Z with (f+df)%Z in Heq by lia.
        replace (r+1*dr)%Z with (r+dr)%Z in Heq by lia. subst t.
        destruct (N.testbit occ (idx (f+df) (r+dr)));
          rewrite ?N.lor_spec, testbit_bit, N.eqb_refl; reflexivity.
      * assert (Hocc : N.testbit occ (idx (f+df) (r+dr)) = false).
        { specialize (Hfree 1%Z). replace (f+1*df)%Z with (f+df)%Z in Hfree by lia.
          replace (r+1*dr)%Z with (r+dr)%Z in Hfree by lia. apply Hfree. lia. }
        rewrite Hocc, N.lor_spec. apply orb_true_intro. right.
        apply IH. exists (k-1)%Z. split; [lia|]. split; [|split].
        -- intros j Hj. replace (f+df+j*df)%Z with (f+(j+1)*df)%Z by lia.
           replace (r+dr+j*dr)%Z with (r+(j+1)*dr)%Z by lia. apply Hon. lia.
        -- replace (f+df+(k-1)*df)%Z with (f+k*df)%Z by lia.
           replace (r+dr+(k-1)*dr)%Z with (r+k*dr)%Z by lia. exact Heq.
        -- intros j Hj. replace (f+df+j*df)%Z with (f+(j+1)*df)%Z by lia.
           replace (r+dr+j*dr)%Z with (r+(j+1)*dr)%Z by lia. apply Hfree. lia.
Qed.

(** a unit step (each component in -1..1) *)
Definition unit_dir (df dr:Z) : Prop := (-1 <= df <= 1 /\ -1 <= dr <= 1)%Z.

(** for unit steps from a board square the ray stays on the board up to any on-board point *)
Lemma on_board_convex f r df dr k j :
  unit_dir df dr -> on_board f r = true -> on_board (f+k*df) (r+k*dr) = true ->
  (1 <= j <= k)%Z -> on_board (f+j*df) (r+j*dr) = true.
Proof.
  unfold unit_dir, on_board. intros [Hdf Hdr] H0 Hk Hj.
  assert (Hf : df = (-1)%Z \/ df = 0%Z \/ df = 1%Z) by lia.
  assert (Hr : dr = (-1)%Z \/ dr = 0%Z \/ dr = 1%Z) by lia.
  destruct Hf as [ -> | [ -> | -> ] ]; destruct Hr as [ -> | [ -> | -> ] ]; lia.
Qed.

Theorem walk_spec occ f r df dr t :
  unit_dir df dr -> on_board f r = true ->
  (N.testbit (walk 7 occ f r df dr) t = true <->
   exists k:Z, (1 <= k <= 7)%Z /\ on_board (f+k*df) (r+k*dr) = true /\
     t = idx (f+k*df) (r+k*dr) /\
     (forall j, (1 <= j < k)%Z -> N.testbit occ (idx (f+j*df) (r+j*dr)) = false)).
Proof.
  intros Hu H0. rewrite walk_spec_gen. split.
  - intros [k [Hk [Hon [Heq Hfree]]]]. exists k. split; [lia|]. split; [apply Hon; lia|].
    split; assumption.
  - intros [k [Hk [Hon [Heq Hfree]]]]. exists k. split; [lia|]. split; [|split; assumption].
    intros j Hj. apply (on_board_convex f r df dr k j); assumption.
Qed.

(** coordinates of a square *)
Lemma fileZ_rankZ s : s < 64 ->
  on_board (fileZ s) (rankZ s) = true /\ idx (fileZ s) (rankZ s) = s.
Proof.
  intros Hs. unfold fileZ, rankZ, on_board, idx.
  change 7 with (N.ones 3). rewrite N.land_ones, N.shiftr_div_pow2.
  change (2^3) with 8.
  pose proof (N.div_mod s 8 ltac:(lia)) as Hdm.
  pose proof (N.mod_lt s 8 ltac:(lia)) as Hm.
  assert (Hd : s / 8 < 8) by (apply N.div_lt_upper_bound; lia).
  split; lia.
Qed.

(** the sliding attack set of a piece: some direction, some distance, nothing in between *)
Theorem slide_spec dirs s occ t :
  s < 64 -> (forall d, In d dirs -> unit_dir (fst d) (snd d)) ->
  (N.testbit (slide dirs s occ) t = true <->
   exists d k, In d dirs /\ (1 <= k <= 7)%Z /\
     on_board (fileZ s + k * fst d) (rankZ s + k * snd d) = true /\
     t = idx (fileZ s + k * fst d) (rankZ s + k * snd d) /\
     (forall j, (1 <= j < k)%Z ->
        N.testbit occ (idx (fileZ s + j * fst d) (rankZ s + j * snd d)) = false)).
Proof.
  intros Hs Hu. destruct (fileZ_rankZ s Hs) as [H0 _]. unfold slide.
  rewrite (fold_lor_testbit (fun d => walk 7 occ (fileZ s) (rankZ s) (fst d) (snd d))).
  rewrite N.bits_0, orb_false_l. split.
  - intros He. apply existsb_exists in He. destruct He as [d [Hd Ht]].
    apply (walk_spec occ _ _ _ _ t (Hu d Hd) H0) in Ht.
    destruct Ht as [k Hk]. exists d, k. split; assumption.
  - intros [d [k [Hd Hk]]]. apply existsb_exists. exists d. split; [exact Hd|].
    apply (walk_spec occ _ _ _ _ t (Hu d Hd) H0). exists k. exact Hk.
Qed.

Lemma rook_dirs_unit d : In d rook_dirs -> unit_dir (fst d) (snd d).
Proof.
  unfold rook_dirs, unit_dir. cbn [In].
  intros [H|[H|[H|[H|H] ] ] ]; try contradiction; subst d; cbn [fst snd]; lia.
Qed.
Lemma bishop_dirs_unit d : In d bishop_dirs -> unit_dir (fst d) (snd d).
Proof.
  unfold bishop_dirs, unit_dir. cbn [In].
  intros [H|[H|[H|[H|H] ] ] ]; try contradiction; subst d; cbn [fst snd]; lia.
Qed.

Corollary rook_walk_spec s occ t : s < 64 ->
  (N.testbit (rook_walk s occ) t = true <->
   exists d k, In d rook_dirs /\ (1 <= k <= 7)%Z /\
     on_board (fileZ s + k * fst d) (rankZ s + k * snd d) = true /\
     t = idx (fileZ s + k * fst d) (rankZ s + k * snd d) /\
     (forall j, (1 <= j < k)%Z ->
        N.testbit occ (idx (fileZ s + j * fst d) (rankZ s + j * snd d)) = false)).
Proof. intros Hs. apply slide_spec; [exact Hs|exact rook_dirs_unit]. Qed.

Corollary bishop_walk_spec s occ t : s < 64 ->
  (N.testbit (bishop_walk s occ) t = true <->
   exists d k, In d bishop_dirs /\ (1 <= k <= 7)%Z /\
     on_board (fileZ s + k * fst d) (rankZ s + k * snd d) = true /\
     t = idx (fileZ s + k * fst d) (rankZ s + k * snd d) /\
     (forall j, (1 <= j < k)%Z ->
        N.testbit occ (idx (fileZ s + j * fst d) (rankZ s + j * snd d)) = false)).
Proof. intros Hs. apply slide_spec; [exact Hs|exact bishop_dirs_unit]. Qed.

(** the hypotheses of [walk_spec] are satisfiable, and both sides non-trivially true:
    from d4 = (3,3) going up with a blocker on d6, d6 (k = 2) is attacked and d7 is not *)
Example walk_spec_ex :
  unit_dir 0 1 /\ on_board 3 3 = true /\
  N.testbit (walk 7 (bit 43) 3 3 0 1) 43 = true /\
  N.testbit (walk 7 (bit 43) 3 3 0 1) 51 = false /\
  idx (3+2*0) (3+2*1) = 43.
Proof. unfold unit_dir. repeat split; try lia; vm_compute; reflexivity. Qed.
