// Text streams: FEN (C06), builder / FEN fuzz (C07), SAN (C12), UCI (C13).
use crate::common::*;
use crate::dumpfns::hex;
use chess::*;
use std::convert::TryFrom;
use std::io::{BufRead, Write};
use std::panic::{catch_unwind, AssertUnwindSafe};
use std::str::FromStr;

fn unhex(h: &str) -> Vec<u8> {
    if h == "-" { return vec![]; }
    (0..h.len() / 2).map(|i| u8::from_str_radix(&h[2 * i..2 * i + 2], 16).unwrap_or(0)).collect()
}
fn board_res(r: Result<Board, Error>) -> String {
    match r { Ok(b) => format!("OK {}~{}", enc(&b), obs(&b)), Err(_) => "ERR".to_string() }
}
/// Board::from_str under catch_unwind (a panicking parser must not take the stream down)
fn parse_board_res(txt: &str) -> String {
    match catch_unwind(AssertUnwindSafe(|| Board::from_str(txt))) { Ok(r) => board_res(r), Err(_) => "PANIC".to_string() }
}
pub fn builder_enc(bb: &BoardBuilder) -> String {
    let mut s = String::new();
    for q in ALL_SQUARES.iter() { s.push(match bb[*q] { Some((p, c)) => piece_char(p, c), None => '.' }); }
    // the en-passant *file* is recovered from get_en_passant
    format!("{} {} {} {} {}", s, if bb.get_side_to_move() == Color::White { "w" } else { "b" },
        bb.get_castle_rights(Color::White).to_index(), bb.get_castle_rights(Color::Black).to_index(),
        match bb.get_en_passant() { Some(q) => format!("{}", q.get_file().to_index()), None => "-".to_string() })
}

/// C06: positions along playouts; `dp` = the square passed over when the last move was a
/// double pawn push.  The driver appends the standard writer's text (stage 2), `fenparse`
/// parses it (stage 3).
pub fn fen(n_games: u64) {
    std::panic::set_hook(Box::new(|_| {}));
    let mut rng = Rng::new(seed_from_env());
    let out = std::io::stdout(); let mut out = std::io::BufWriter::new(out.lock());
    let rs = roots();
    for g in 0..n_games {
        let gi = (g as usize) * nshards() + shard();
        let mut b = if gi < rs.len() { rs[gi] } else { *rng.pick(&rs) };
        let mut dp: Option<usize> = None;
        // a root given with an ep flag: the passed-over square is known from the flag
        if let Some(e) = b.en_passant() { dp = Some(e.ubackward(!b.side_to_move()).to_index()); }
        let emit = |out: &mut std::io::BufWriter<std::io::StdoutLock>, b: &Board, dp: Option<usize>| {
            let disp = format!("{}", b);
            let bb: BoardBuilder = b.into();
            let bdisp = format!("{}", bb);
            let bb2 = BoardBuilder::from_str(&bdisp);
            let brt = match bb2 { Ok(x) => (builder_enc(&x) == builder_enc(&bb)) as u8, Err(_) => 0 };
            let four: String = disp.split(' ').take(4).collect::<Vec<&str>>().join(" ");
            writeln!(out, "F {} | dp={} | {} | {} | brt={} same={} | {}", enc(b),
                match dp { Some(x) => x.to_string(), None => "-".to_string() }, hex(&disp),
                parse_board_res(&disp), brt, (disp == bdisp) as u8, parse_board_res(&four)).unwrap();
        };
        for step in 0..80 {
            emit(&mut out, &b, dp);
            // every double pawn push available here (at the root and now and then later): the
            // en-passant field of each successor, whatever the playout chooses to play
            if step == 0 || rng.chance(1, 6) {
                for m in MoveGen::new_legal(&b) {
                    let (sr, dr) = (m.get_source().get_rank().to_index() as i32, m.get_dest().get_rank().to_index() as i32);
                    if b.piece_on(m.get_source()) == Some(Piece::Pawn) && (sr - dr).abs() == 2 {
                        let nb = b.make_move_new(m);
                        emit(&mut out, &nb, Some(((sr + dr) / 2) as usize * 8 + m.get_source().get_file().to_index()));
                    }
                }
            }
            if rng.chance(1, 15) { if let Some(nb) = b.null_move() { b = nb; dp = None; continue; } }
            match biased_move(&b, &mut rng) {
                Some(m) => {
                    let is_pawn = b.piece_on(m.get_source()) == Some(Piece::Pawn);
                    let (sr, dr) = (m.get_source().get_rank().to_index() as i32, m.get_dest().get_rank().to_index() as i32);
                    dp = if is_pawn && (sr - dr).abs() == 2 { Some(((sr + dr) / 2) as usize * 8 + m.get_source().get_file().to_index()) } else { None };
                    b = b.make_move_new(m);
                }
                None => break,
            }
        }
    }
}

/// stage 3 of the FEN and SAN pipelines: lines "X <enc> | <hex text> ..." -> parse results
pub fn parse_stage(kind: &str) {
    std::panic::set_hook(Box::new(|_| {}));
    let stdin = std::io::stdin();
    let out = std::io::stdout(); let mut out = std::io::BufWriter::new(out.lock());
    for line in stdin.lock().lines() {
        let line = match line { Ok(l) => l, Err(_) => break };
        if kind == "fenparse" {
            // "F ... || STD <hex>"  -> append the parse result of the standard writer's text
            if let Some(i) = line.rfind("|| STD ") {
                let h = line[i + 7..].trim();
                let txt = String::from_utf8_lossy(&unhex(h)).to_string();
                writeln!(out, "{} | {}", line, parse_board_res(&txt)).unwrap();
            } else { writeln!(out, "{}", line).unwrap(); }
        } else {
            // "S <enc> | hex hex hex ..." -> "S <enc> | hex=res ..."
            if !line.starts_with("S ") { continue; }
            let parts: Vec<&str> = line.splitn(2, " | ").collect();
            if parts.len() != 2 { continue; }
            let e = &parts[0][2..];
            let board = builder_from_enc(e).and_then(|bb| Board::try_from(&bb).ok());
            let mut s = format!("S {} |", e);
            if let Some(b) = board {
                for tok in parts[1].split(' ') {
                    if tok.is_empty() { continue; }
                    let bytes = unhex(tok);
                    let res = match std::str::from_utf8(&bytes) {
                        Ok(t) => match catch_unwind(AssertUnwindSafe(|| ChessMove::from_san(&b, t))) {
                            Ok(Ok(m)) => format!("{}", mv_str(&m).replace(',', "/")),
                            Ok(Err(_)) => "ERR".to_string(),
                            Err(_) => "PANIC".to_string(),
                        },
                        Err(_) => "BADUTF8".to_string(),
                    };
                    s.push_str(&format!(" {}={}", tok, res));
                }
            } else { s.push_str(" REJECTED"); }
            writeln!(out, "{}", s).unwrap();
        }
    }
}

/// characters that std's classification / case-mapping functions treat specially: digits of
/// other scripts and numeric symbols (is_numeric but not to_digit(10)), full-width forms,
/// letters whose case mapping lands in ASCII (Kelvin sign, long s, dotless / dotted i) or
/// expands, exotic white space, combining and zero-width marks
pub const SPECIAL_CHARS: &[char] = &['\u{0668}', '\u{FF18}', '\u{00B2}', '\u{00BD}', '\u{2167}', '\u{1D7D6}', '\u{0967}',
    '\u{FF2B}', '\u{FF57}', '\u{FF0F}', '\u{212A}', '\u{017F}', '\u{0130}', '\u{0131}', '\u{00DF}', '\u{01C5}',
    '\u{00A0}', '\u{2003}', '\u{3000}', '\t', '\n', '\u{0301}', '\u{200B}', '\u{FEFF}', '\u{2212}', '\u{2013}'];
fn rand_unicode(rng: &mut Rng, n: usize) -> String {
    let mut s = String::new();
    for _ in 0..n {
        if rng.chance(1, 8) { s.push(*rng.pick(SPECIAL_CHARS)); continue; }
        let c = match rng.below(6) { 0 => rng.below(128) as u32, 1 => 128 + rng.below(1900) as u32, 2 => 0x800 + rng.below(0xF000) as u32, 3 => 0x10000 + rng.below(0xFFFF) as u32, _ => 32 + rng.below(95) as u32 };
        if let Some(ch) = std::char::from_u32(c) { s.push(ch); }
    }
    s
}
fn mutate(src: &str, rng: &mut Rng) -> String {
    let mut chars: Vec<char> = src.chars().collect();
    let alphabet: Vec<char> = "rnbqkpRNBQKP12345678/ wb-KQkqabcdefgh0123456789 é\u{4e16}x+#=O.".chars().collect();
    for _ in 0..(1 + rng.below(4)) {
        if chars.is_empty() { chars.push(*rng.pick(&alphabet)); continue; }
        let i = rng.below(chars.len() as u64) as usize;
        match rng.below(5) {
            0 => { chars[i] = if rng.chance(1, 6) { *rng.pick(SPECIAL_CHARS) } else { *rng.pick(&alphabet) }; }
            1 => { chars.remove(i); }
            2 => { chars.insert(i, if rng.chance(1, 6) { *rng.pick(SPECIAL_CHARS) } else { *rng.pick(&alphabet) }); }
            3 => { chars.truncate(i); }
            _ => { let j = rng.below(chars.len() as u64) as usize; chars.swap(i, j); }
        }
    }
    chars.into_iter().collect()
}

pub fn builder_res(r: std::thread::Result<Result<BoardBuilder, Error>>) -> String {
    match r { Ok(Ok(bb)) => format!("OK {}", builder_enc(&bb)), Ok(Err(_)) => "ERR".to_string(), Err(_) => "PANIC".to_string() }
}
/// the "safe" clause of C07: an accepted board goes through movegen, status, display and both
/// move applications, two plies deep.  In the debug-assertion build any unchecked index or
/// push past capacity traps here.
pub fn exercise(b: &Board) -> usize {
    let mut n = 0;
    let _ = format!("{}", b); let _ = b.status();
    for m in MoveGen::new_legal(b) {
        let nb = b.make_move_new(m);
        let mut out = *b; b.make_move(m, &mut out);
        let _ = format!("{}", nb); let _ = nb.status();
        n += 1 + MoveGen::new_legal(&nb).len();
        for m2 in MoveGen::new_legal(&nb).take(6) { let nn = nb.make_move_new(m2); let _ = nn.status(); }
    }
    if let Some(nb) = b.null_move() { n += MoveGen::new_legal(&nb).len(); }
    n
}
fn board_res_safe(r: std::thread::Result<Result<Board, Error>>) -> String {
    match r {
        Ok(Ok(b)) => {
            let safe = match catch_unwind(AssertUnwindSafe(|| exercise(&b))) { Ok(_) => 1, Err(_) => 0 };
            format!("OK {}~{} safe={}", enc(&b), obs(&b), safe)
        }
        Ok(Err(_)) => "ERR".to_string(), Err(_) => "PANIC".to_string(),
    }
}

/// C07: mutated / random FEN-like text and arbitrary Unicode
pub fn fenfuzz(n: u64) {
    std::panic::set_hook(Box::new(|_| {}));
    let mut rng = Rng::new(seed_from_env());
    let out = std::io::stdout(); let mut out = std::io::BufWriter::new(out.lock());
    let rs = roots();
    let mut pool: Vec<String> = ROOTS.iter().map(|s| s.to_string()).collect();
    let mut b = rs[0];
    for i in 0..n {
        if i % 7 == 0 { match biased_move(&b, &mut rng) { Some(m) => { b = b.make_move_new(m); pool.push(format!("{}", b)); } None => { b = *rng.pick(&rs); } } }
        let txt = match rng.below(10) {
            0 => { let k = rng.below(40) as usize; rand_unicode(&mut rng, k) }
            1 => { let a = rng.pick(&pool).clone(); a }       // well-formed
            2 => { let a = rng.pick(&pool).clone(); let k = rng.below(a.len() as u64 + 1) as usize; let mut t = a; while !t.is_char_boundary(k.min(t.len())) { t.pop(); } t.truncate(k.min(t.len())); t }
            3 => { // structured random FEN-like text
                let mut t = String::new();
                for r in 0..8 { for _ in 0..(1 + rng.below(8)) { t.push(*rng.pick(&"rnbqkpRNBQKP12345678".chars().collect::<Vec<char>>())); } if r < 7 { t.push('/'); } }
                t.push(' '); t.push(*rng.pick(&['w', 'b', 'W', 'B', 'x'])); t.push(' ');
                { let v: [&str; 8] = ["KQkq", "-", "Kq", "k", "QK", "kqKQ", "", "KQkqx"]; let x: &str = v[rng.below(8) as usize]; t.push_str(x); } t.push(' ');
                { let v: [&str; 10] = ["-", "e3", "d6", "a3", "h6", "e4", "z9", "é", "e", ""]; let x: &str = v[rng.below(10) as usize]; t.push_str(x); } t.push_str(" 0 1"); t }
            _ => { let a = rng.pick(&pool).clone(); mutate(&a, &mut rng) }
        };
        let rb = catch_unwind(AssertUnwindSafe(|| BoardBuilder::from_str(&txt)));
        let rbd = catch_unwind(AssertUnwindSafe(|| Board::from_str(&txt)));
        writeln!(out, "Z {} | {} | {}", hex(&txt), builder_res(rb), board_res_safe(rbd)).unwrap();
    }
}

/// C06 / C07: arbitrary builder states (any piece anywhere, crowded boards, junk rights / ep)
pub fn builder(n: u64) {
    std::panic::set_hook(Box::new(|_| {}));
    let mut rng = Rng::new(seed_from_env());
    let out = std::io::stdout(); let mut out = std::io::BufWriter::new(out.lock());
    let pcs = [Piece::Pawn, Piece::Knight, Piece::Bishop, Piece::Rook, Piece::Queen, Piece::King];
    let rs = roots();
    for i in 0..n {
        let mut bb = BoardBuilder::new();
        let style = rng.below(6);
        if style == 0 {
            // from a real position, then perturbed
            let b = *rng.pick(&rs); bb = (&b).into();
            for _ in 0..rng.below(4) { let s = rng.below(64) as usize; if rng.chance(1, 2) { bb.clear_square(sq(s)); } else { bb.piece(sq(s), *rng.pick(&pcs), if rng.chance(1, 2) { Color::White } else { Color::Black }); } }
        } else {
            let dens = match style { 1 => 2 + rng.below(6), 2 => 8 + rng.below(10), 3 => 20 + rng.below(30), _ => rng.below(64) };
            // kings first (mostly one each)
            let nk = if rng.chance(5, 6) { 1 } else { rng.below(3) };
            for _ in 0..nk { bb.piece(sq(rng.below(64) as usize), Piece::King, Color::White); }
            let nk = if rng.chance(5, 6) { 1 } else { rng.below(3) };
            for _ in 0..nk { bb.piece(sq(rng.below(64) as usize), Piece::King, Color::Black); }
            for _ in 0..dens {
                let s = rng.below(64) as usize;
                if bb[sq(s)].is_some() && rng.chance(2, 3) { continue; }
                let p = pcs[rng.below(5) as usize];
                bb.piece(sq(s), p, if rng.chance(1, 2) { Color::White } else { Color::Black });
            }
        }
        if style != 0 || rng.chance(1, 2) {
            bb.side_to_move(if rng.chance(1, 2) { Color::White } else { Color::Black });
            bb.castle_rights(Color::White, CastleRights::from_index(if rng.chance(2, 3) { 0 } else { rng.below(4) as usize }));
            bb.castle_rights(Color::Black, CastleRights::from_index(if rng.chance(2, 3) { 0 } else { rng.below(4) as usize }));
            bb.en_passant(if rng.chance(3, 4) { None } else { Some(File::from_index(rng.below(8) as usize)) });
        }
        let disp = format!("{}", bb);
        let re = catch_unwind(AssertUnwindSafe(|| BoardBuilder::from_str(&disp)));
        let tf = catch_unwind(AssertUnwindSafe(|| Board::try_from(&bb)));
        writeln!(out, "B {} | {} | {} | {}", builder_enc(&bb), hex(&disp), builder_res(re), board_res_safe(tf)).unwrap();
        let _ = i;
    }
}

/// C12 stage 1 is `pos N nosucc`; stage 2 (driver `sangen`) writes the texts; stage 3 is
/// `sanparse` above.  This entry point is kept for direct SAN fuzzing of random strings.
pub fn san(n_games: u64) {
    std::panic::set_hook(Box::new(|_| {}));
    let mut rng = Rng::new(seed_from_env());
    let mut rng2 = Rng::new(seed_from_env() ^ 99);
    let out = std::io::stdout(); let mut out = std::io::BufWriter::new(out.lock());
    for_positions(n_games, 60, false, &mut rng, |b, _| {
        let mut s = format!("S {} |", enc(b));
        let legal: Vec<ChessMove> = MoveGen::new_legal(b).collect();
        for _ in 0..6 {
            let txt = match rng2.below(4) {
                0 => { let k = 1 + rng2.below(7) as usize; rand_unicode(&mut rng2, k) }
                1 => { let v: Vec<char> = "NBRQKabcdefgh12345678x+#O- e.p=".chars().collect(); (0..(1 + rng2.below(7))).map(|_| *rng2.pick(&v)).collect() }
                _ => { // a UCI-ish or SAN-ish text derived from a legal move, then mutated
                    if legal.is_empty() { "e4".to_string() } else { let m = rng2.pick(&legal); let base = format!("{}{}", m.get_source(), m.get_dest()); mutate(&base, &mut rng2) } }
            };
            let res = match catch_unwind(AssertUnwindSafe(|| ChessMove::from_san(b, &txt))) {
                Ok(Ok(m)) => mv_str(&m).replace(',', "/"), Ok(Err(_)) => "ERR".to_string(), Err(_) => "PANIC".to_string() };
            s.push_str(&format!(" {}={}", hex(&txt), res));
        }
        writeln!(out, "{}", s).unwrap();
    });
}

/// C13: exhaustive move / square round trips, then random strings
pub fn uci(n: u64) {
    std::panic::set_hook(Box::new(|_| {}));
    let mut rng = Rng::new(seed_from_env());
    let out = std::io::stdout(); let mut out = std::io::BufWriter::new(out.lock());
    let shard = std::env::var("VERIF_SHARD").ok().and_then(|s| s.parse::<u64>().ok()).unwrap_or(0);
    if shard == 0 {
        let promos = [None, Some(Piece::Queen), Some(Piece::Knight), Some(Piece::Rook), Some(Piece::Bishop)];
        for a in 0..64 { for d in 0..64 { for p in promos.iter() {
            let m = ChessMove::new(sq(a), sq(d), *p);
            let t = format!("{}", m);
            let r = match ChessMove::from_str(&t) { Ok(x) => mv_str(&x).replace(',', "/"), Err(_) => "ERR".to_string() };
            writeln!(out, "U {} | {} | {}", mv_str(&m).replace(',', "/"), hex(&t), r).unwrap();
        } } }
        for a in 0..64 {
            let t = format!("{}", sq(a));
            let r = match Square::from_str(&t) { Ok(x) => x.to_index().to_string(), Err(_) => "ERR".to_string() };
            writeln!(out, "Q {} | {} | {}", a, hex(&t), r).unwrap();
        }
    }
    let alpha: Vec<char> = "abcdefgh12345678qrnbQRNBx09 i\u{e9}\u{4e16}".chars().collect();
    for _ in 0..n {
        let txt: String = match rng.below(5) {
            0 => { let k = rng.below(9) as usize; rand_unicode(&mut rng, k) }
            1 => { let m = ChessMove::new(sq(rng.below(64) as usize), sq(rng.below(64) as usize), code_promo(rng.below(5) as u8)); mutate(&format!("{}", m), &mut rng) }
            2 => { let m = ChessMove::new(sq(rng.below(64) as usize), sq(rng.below(64) as usize), code_promo(rng.below(5) as u8)); let mut t = format!("{}", m); let k = rng.below(3) as usize; t.push_str(&rand_unicode(&mut rng, k)); t }
            _ => (0..rng.below(8)).map(|_| *rng.pick(&alpha)).collect(),
        };
        let rm = match catch_unwind(AssertUnwindSafe(|| ChessMove::from_str(&txt))) {
            Ok(Ok(m)) => format!("{}~{}", mv_str(&m).replace(',', "/"), hex(&format!("{}", m))), Ok(Err(_)) => "ERR".to_string(), Err(_) => "PANIC".to_string() };
        let rq = match catch_unwind(AssertUnwindSafe(|| Square::from_str(&txt))) {
            Ok(Ok(q)) => format!("{}~{}", q.to_index(), hex(&format!("{}", q))), Ok(Err(_)) => "ERR".to_string(), Err(_) => "PANIC".to_string() };
        writeln!(out, "V {} | {} | {}", hex(&txt), rm, rq).unwrap();
    }
}
