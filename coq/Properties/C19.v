(** * C19 — CacheTable returns only what was stored under exactly that hash.
    Model: [Model/CacheTable.v] (src/cache_table.rs; an out-of-range unchecked index is [Panic]).
    Lemmas: [Proofs/CacheTableRefine.v].  Generic in the entry type [T]; all sizes [2^k], all
    operation sequences, all hashes (no 64-bit bound is needed). *)
From Chess Require Import Model.CacheTable Proofs.CacheTableRefine.
Open Scope N_scope.

(** [count_ones() == 1] exactly on the powers of two *)
Theorem C19_popcnt_1_iff : forall n, popcnt n = 1 <-> exists k, n = 2^k.
Proof. exact popcnt_1_iff. Qed.
Check C19_popcnt_1_iff : forall n, popcnt n = 1 <-> exists k, n = 2^k.
Print Assumptions C19_popcnt_1_iff.

(** construction succeeds on every power of two and establishes the invariant *)
Theorem C19_new_ok : forall (T:Type) (k:N) (d:T),
  ct_new (2^k) d = Ok {| table := repeat (0, d) (N.to_nat (2^k)); cmask := 2^k - 1 |} /\
  R k {| table := repeat (0, d) (N.to_nat (2^k)); cmask := 2^k - 1 |} (a_init d).
Proof. exact new_ok. Qed.
Check C19_new_ok : forall (T:Type) (k:N) (d:T),
  ct_new (2^k) d = Ok {| table := repeat (0, d) (N.to_nat (2^k)); cmask := 2^k - 1 |} /\
  R k {| table := repeat (0, d) (N.to_nat (2^k)); cmask := 2^k - 1 |} (a_init d).
Print Assumptions C19_new_ok.

(** construction panics exactly for sizes that are not a power of two *)
Theorem C19_new_panics_iff : forall (T:Type) (size:N) (d:T),
  ct_new size d = Panic <-> ~ exists k, size = 2^k.
Proof. exact new_panics_iff. Qed.
Check C19_new_panics_iff : forall (T:Type) (size:N) (d:T),
  ct_new size d = Panic <-> ~ exists k, size = 2^k.
Print Assumptions C19_new_panics_iff.

Theorem C19_new_cases : forall (T:Type) (size:N) (d:T),
  (exists k, size = 2^k /\
     ct_new size d = Ok {| table := repeat (0, d) (N.to_nat size); cmask := size - 1 |}) \/
  ((~ exists k, size = 2^k) /\ ct_new size d = Panic).
Proof. exact new_cases. Qed.
Check C19_new_cases : forall (T:Type) (size:N) (d:T),
  (exists k, size = 2^k /\
     ct_new size d = Ok {| table := repeat (0, d) (N.to_nat size); cmask := size - 1 |}) \/
  ((~ exists k, size = 2^k) /\ ct_new size d = Panic).
Print Assumptions C19_new_cases.

(** no access outside the table under the invariant *)
Theorem C19_in_bounds : forall (T:Type) (k:N) (t:ctable T) (a:amap T) (h:N),
  R k t a -> in_bounds t h = true.
Proof. exact R_in_bounds. Qed.
Check C19_in_bounds : forall (T:Type) (k:N) (t:ctable T) (a:amap T) (h:N),
  R k t a -> in_bounds t h = true.
Print Assumptions C19_in_bounds.

(** step refinement, operation by operation *)
Theorem C19_get_refines : forall (T:Type) (k:N) (t:ctable T) (a:amap T) (h:N),
  R k t a -> ct_get t h = Ok (a_get k a h).
Proof. exact get_refines. Qed.
Check C19_get_refines : forall (T:Type) (k:N) (t:ctable T) (a:amap T) (h:N),
  R k t a -> ct_get t h = Ok (a_get k a h).
Print Assumptions C19_get_refines.

Theorem C19_add_refines : forall (T:Type) (k:N) (t:ctable T) (a:amap T) (h:N) (v:T),
  R k t a -> exists t', ct_add t h v = Ok t' /\ R k t' (a_upd a (aslot k h) (h, v)).
Proof. exact add_refines. Qed.
Check C19_add_refines : forall (T:Type) (k:N) (t:ctable T) (a:amap T) (h:N) (v:T),
  R k t a -> exists t', ct_add t h v = Ok t' /\ R k t' (a_upd a (aslot k h) (h, v)).
Print Assumptions C19_add_refines.

Theorem C19_replace_if_refines :
  forall (T:Type) (k:N) (t:ctable T) (a:amap T) (h:N) (v:T) (f:T -> bool),
  R k t a -> exists t', ct_replace_if t h v f = Ok t' /\
    R k t' (if f (snd (a (aslot k h))) then a_upd a (aslot k h) (h, v) else a).
Proof. exact replace_if_refines. Qed.
Check C19_replace_if_refines :
  forall (T:Type) (k:N) (t:ctable T) (a:amap T) (h:N) (v:T) (f:T -> bool),
  R k t a -> exists t', ct_replace_if t h v f = Ok t' /\
    R k t' (if f (snd (a (aslot k h))) then a_upd a (aslot k h) (h, v) else a).
Print Assumptions C19_replace_if_refines.

Theorem C19_step_refines : forall (T:Type) (k:N) (t:ctable T) (a:amap T) (o:op T),
  R k t a -> exists t', c_step t o = Ok (t', a_out k a o) /\ R k t' (a_step k a o).
Proof. exact step_refines. Qed.
Check C19_step_refines : forall (T:Type) (k:N) (t:ctable T) (a:amap T) (o:op T),
  R k t a -> exists t', c_step t o = Ok (t', a_out k a o) /\ R k t' (a_step k a o).
Print Assumptions C19_step_refines.

(** every operation sequence: never [Panic], outputs equal to the abstract outputs *)
Theorem C19_run_refines : forall (T:Type) (k:N) (ops:list (op T)) (t:ctable T) (a:amap T),
  R k t a -> exists t', c_run t ops = Ok (t', a_outs k a ops) /\ R k t' (a_final k a ops).
Proof. exact run_refines. Qed.
Check C19_run_refines : forall (T:Type) (k:N) (ops:list (op T)) (t:ctable T) (a:amap T),
  R k t a -> exists t', c_run t ops = Ok (t', a_outs k a ops) /\ R k t' (a_final k a ops).
Print Assumptions C19_run_refines.

Theorem C19_new_run_refines : forall (T:Type) (k:N) (d:T) (ops:list (op T)),
  exists t', c_new_run (2^k) d ops = Ok (t', a_outs k (a_init d) ops) /\
             R k t' (a_final k (a_init d) ops).
Proof. exact new_run_refines. Qed.
Check C19_new_run_refines : forall (T:Type) (k:N) (d:T) (ops:list (op T)),
  exists t', c_new_run (2^k) d ops = Ok (t', a_outs k (a_init d) ops) /\
             R k t' (a_final k (a_init d) ops).
Print Assumptions C19_new_run_refines.

Theorem C19_new_run_invalid : forall (T:Type) (size:N) (d:T) (ops:list (op T)),
  (~ exists k, size = 2^k) -> c_new_run size d ops = Panic.
Proof. exact new_run_invalid. Qed.
Check C19_new_run_invalid : forall (T:Type) (size:N) (d:T) (ops:list (op T)),
  (~ exists k, size = 2^k) -> c_new_run size d ops = Panic.
Print Assumptions C19_new_run_invalid.

Theorem C19_in_bounds_after_run :
  forall (T:Type) (k:N) (d:T) (ops:list (op T)) (t':ctable T) (outs:list (option T)) (h:N),
  c_new_run (2^k) d ops = Ok (t', outs) ->
  N.of_nat (length (table t')) = 2^k /\ slot t' h = h mod 2^k /\ in_bounds t' h = true.
Proof. exact in_bounds_after_run. Qed.
Check C19_in_bounds_after_run :
  forall (T:Type) (k:N) (d:T) (ops:list (op T)) (t':ctable T) (outs:list (option T)) (h:N),
  c_new_run (2^k) d ops = Ok (t', outs) ->
  N.of_nat (length (table t')) = 2^k /\ slot t' h = h mod 2^k /\ in_bounds t' h = true.
Print Assumptions C19_in_bounds_after_run.

(** slot content after a run = payload of the last effective write, else the initial content *)
Theorem C19_final_char : forall (T:Type) (k:N) (a:amap T) (ops:list (op T)) (s:N) (w:N*T),
  a_final k a ops s = w <->
  (exists pre o post, ops = pre ++ o :: post /\
     touches k (a_final k a pre) o s = true /\ payload o = Some w /\
     untouched k (a_step k (a_final k a pre) o) post s = true) \/
  (untouched k a ops s = true /\ a s = w).
Proof. exact final_char. Qed.
Check C19_final_char : forall (T:Type) (k:N) (a:amap T) (ops:list (op T)) (s:N) (w:N*T),
  a_final k a ops s = w <->
  (exists pre o post, ops = pre ++ o :: post /\
     touches k (a_final k a pre) o s = true /\ payload o = Some w /\
     untouched k (a_step k (a_final k a pre) o) post s = true) \/
  (untouched k a ops s = true /\ a s = w).
Print Assumptions C19_final_char.

(** (a) on the model: [get h] after [new(2^k, d)] and any [ops] never panics, and returns
    [Some v] iff the last effective write to slot [h mod 2^k] was under exactly [h] with
    value [v], or nothing wrote that slot and [h = 0], [v = d] *)
Theorem C19_get_after_run :
  forall (T:Type) (k:N) (d:T) (ops:list (op T)) (t':ctable T) (outs:list (option T)),
  c_new_run (2^k) d ops = Ok (t', outs) ->
  outs = a_outs k (a_init d) ops /\
  forall h, exists r, ct_get t' h = Ok r /\ forall v,
    r = Some v <->
    (exists pre o post, ops = pre ++ o :: post /\
       touches k (a_final k (a_init d) pre) o (h mod 2^k) = true /\ payload o = Some (h, v) /\
       untouched k (a_step k (a_final k (a_init d) pre) o) post (h mod 2^k) = true) \/
    (untouched k (a_init d) ops (h mod 2^k) = true /\ h = 0 /\ v = d).
Proof. exact get_after_run. Qed.
Check C19_get_after_run :
  forall (T:Type) (k:N) (d:T) (ops:list (op T)) (t':ctable T) (outs:list (option T)),
  c_new_run (2^k) d ops = Ok (t', outs) ->
  outs = a_outs k (a_init d) ops /\
  forall h, exists r, ct_get t' h = Ok r /\ forall v,
    r = Some v <->
    (exists pre o post, ops = pre ++ o :: post /\
       touches k (a_final k (a_init d) pre) o (h mod 2^k) = true /\ payload o = Some (h, v) /\
       untouched k (a_step k (a_final k (a_init d) pre) o) post (h mod 2^k) = true) \/
    (untouched k (a_init d) ops (h mod 2^k) = true /\ h = 0 /\ v = d).
Print Assumptions C19_get_after_run.

(** (b) on the model: an unwritten slot behaves as (hash 0, default) *)
Theorem C19_get_untouched :
  forall (T:Type) (k:N) (d:T) (ops:list (op T)) (t':ctable T) (outs:list (option T)) (h:N),
  c_new_run (2^k) d ops = Ok (t', outs) ->
  untouched k (a_init d) ops (h mod 2^k) = true ->
  ct_get t' h = Ok (if h =? 0 then Some d else None).
Proof. exact get_untouched. Qed.
Check C19_get_untouched :
  forall (T:Type) (k:N) (d:T) (ops:list (op T)) (t':ctable T) (outs:list (option T)) (h:N),
  c_new_run (2^k) d ops = Ok (t', outs) ->
  untouched k (a_init d) ops (h mod 2^k) = true ->
  ct_get t' h = Ok (if h =? 0 then Some d else None).
Print Assumptions C19_get_untouched.

(** read-your-write / collision / frame for [add] and [replace_if] *)
Theorem C19_add_then_get : forall (T:Type) (k:N) (t:ctable T) (a:amap T) (h:N) (v:T) (h':N),
  R k t a -> exists t', ct_add t h v = Ok t' /\
  ct_get t' h' = if h' mod 2^k =? h mod 2^k
                 then Ok (if h' =? h then Some v else None)
                 else ct_get t h'.
Proof. exact add_then_get. Qed.
Check C19_add_then_get : forall (T:Type) (k:N) (t:ctable T) (a:amap T) (h:N) (v:T) (h':N),
  R k t a -> exists t', ct_add t h v = Ok t' /\
  ct_get t' h' = if h' mod 2^k =? h mod 2^k
                 then Ok (if h' =? h then Some v else None)
                 else ct_get t h'.
Print Assumptions C19_add_then_get.

Theorem C19_replace_if_then_get :
  forall (T:Type) (k:N) (t:ctable T) (a:amap T) (h:N) (v:T) (f:T -> bool) (h':N),
  R k t a -> exists t' ev, nth_error (table t) (N.to_nat (h mod 2^k)) = Some ev /\
  ct_replace_if t h v f = Ok t' /\
  ct_get t' h' = if f (snd ev) && (h' mod 2^k =? h mod 2^k)
                 then Ok (if h' =? h then Some v else None)
                 else ct_get t h'.
Proof. exact replace_if_then_get. Qed.
Check C19_replace_if_then_get :
  forall (T:Type) (k:N) (t:ctable T) (a:amap T) (h:N) (v:T) (f:T -> bool) (h':N),
  R k t a -> exists t' ev, nth_error (table t) (N.to_nat (h mod 2^k)) = Some ev /\
  ct_replace_if t h v f = Ok t' /\
  ct_get t' h' = if f (snd ev) && (h' mod 2^k =? h mod 2^k)
                 then Ok (if h' =? h then Some v else None)
                 else ct_get t h'.
Print Assumptions C19_replace_if_then_get.
