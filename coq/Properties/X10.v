(** * Properties.X10 — public API outside the twenty properties: [Board::default] and
    [Game::new] ([board_default], [game_new], [Model/Extra.v]).  Parsing the start FEN never
    panics nor fails: the result is exactly [from_scratch startpos], the board the library
    builds for the rules' start position; [startpos] is a valid position, hence every C10 /
    C11 theorem about games started from the from-scratch board of a valid position
    ([Properties/C10b.v], [C11b.v]) applies to [Game::new()]; the no-panic, run, reachability
    and status theorems are instantiated here.  Proofs: [Proofs/Extra10.v]. *)
From Coq Require Import NArith List Bool.
From Chess Require Import Base.Bits Base.Text Spec.Geometry Spec.Rules Model.Board Model.MoveGen
  Model.Fen Model.Game Model.Extra.
From Chess Require Import Proofs.NullMove Proofs.CorAReach.
From Chess Require Import Proofs.GameBase Proofs.GameScan Proofs.GameProtocol Proofs.CorAGame.
From Chess Require Import Proofs.Extra10.
Import ListNotations.
Open Scope N_scope.

(** [board_eqb] (the field-by-field boolean comparison) decides equality *)
Theorem X10_board_eqb_eq : forall a b, board_eqb a b = true -> a = b.
Proof. exact board_eqb_eq. Qed.
Check X10_board_eqb_eq : forall a b, board_eqb a b = true -> a = b.
Print Assumptions X10_board_eqb_eq.

Theorem X10_board_default_eqb :
  exists b, board_default = Ok b /\ board_eqb b (from_scratch startpos) = true.
Proof. exact board_default_eqb. Qed.
Check X10_board_default_eqb :
  exists b, board_default = Ok b /\ board_eqb b (from_scratch startpos) = true.
Print Assumptions X10_board_default_eqb.

Theorem X10_board_default : board_default = Ok (from_scratch startpos).
Proof. exact board_default_eq. Qed.
Check X10_board_default : board_default = Ok (from_scratch startpos).
Print Assumptions X10_board_default.

Theorem X10_game_new : game_new = Ok (new_with_board (from_scratch startpos)).
Proof. exact game_new_eq. Qed.
Check X10_game_new : game_new = Ok (new_with_board (from_scratch startpos)).
Print Assumptions X10_game_new.

Theorem X10_startpos_valid : pos_valid startpos = true.
Proof. exact startpos_valid. Qed.
Check X10_startpos_valid : pos_valid startpos = true.
Print Assumptions X10_startpos_valid.

Theorem X10_startboard_good : GoodBoard (from_scratch startpos).
Proof. exact startboard_good. Qed.
Check X10_startboard_good : GoodBoard (from_scratch startpos).
Print Assumptions X10_startboard_good.

(** [C10b_no_panic] at [p0 := startpos]: whatever is done to a [Game::new()], nothing panics *)
Theorem X10_game_new_no_panic : forall g, Reachable (from_scratch startpos) g ->
  (exists b, current_position g = Some b /\ GoodBoard b) /\
  (exists r, result g = Some r) /\
  (exists d, can_declare_draw g = Some d) /\
  (forall o, exists f g', apply_op g o = Some (f,g')).
Proof. exact game_new_no_panic. Qed.
Check X10_game_new_no_panic : forall g, Reachable (from_scratch startpos) g ->
  (exists b, current_position g = Some b /\ GoodBoard b) /\
  (exists r, result g = Some r) /\
  (exists d, can_declare_draw g = Some d) /\
  (forall o, exists f g', apply_op g o = Some (f,g')).
Print Assumptions X10_game_new_no_panic.

Theorem X10_game_new_runs_never_panic : forall g ops, Reachable (from_scratch startpos) g ->
  exists g', run g ops = Some g' /\ Reachable (from_scratch startpos) g'.
Proof. exact game_new_runs_never_panic. Qed.
Check X10_game_new_runs_never_panic : forall g ops, Reachable (from_scratch startpos) g ->
  exists g', run g ops = Some g' /\ Reachable (from_scratch startpos) g'.
Print Assumptions X10_game_new_runs_never_panic.

(** the current board is always a board reached by legal play from the start position *)
Theorem X10_game_new_position_reachgen : forall g, Reachable (from_scratch startpos) g ->
  exists b, current_position g = Some b /\ ReachGen startpos b.
Proof. exact game_new_position_reachgen. Qed.
Check X10_game_new_position_reachgen : forall g, Reachable (from_scratch startpos) g ->
  exists b, current_position g = Some b /\ ReachGen startpos b.
Print Assumptions X10_game_new_position_reachgen.

Theorem X10_game_new_status_fide : forall g, Reachable (from_scratch startpos) g ->
  exists b, current_position g = Some b /\ pos_valid (abs_board b) = true /\
            board_status b = status (abs_board b).
Proof. exact game_new_status_fide. Qed.
Check X10_game_new_status_fide : forall g, Reachable (from_scratch startpos) g ->
  exists b, current_position g = Some b /\ pos_valid (abs_board b) = true /\
            board_status b = status (abs_board b).
Print Assumptions X10_game_new_status_fide.

(** the game [Game::new()] returns is the root of [Reachable] *)
Theorem X10_game_new_reachable : exists g0, game_new = Ok g0 /\ Reachable (from_scratch startpos) g0.
Proof. exact game_new_reachable. Qed.
Check X10_game_new_reachable : exists g0, game_new = Ok g0 /\ Reachable (from_scratch startpos) g0.
Print Assumptions X10_game_new_reachable.
