(** * Properties.C08 — property C08: the incrementally updated Zobrist hash is the hash of the
    position, independent of the path of moves that led to it.

    [HashOK b]: the [hash] field of the board is the xor of the piece keys of the men the board
    shows ([key_fold (abs_board b)], the sum used by [Proofs/HashSeparation.v] as
    [pieces_hash]).  It holds of every board built from scratch, and [make_move_new] (on a
    legal move of a valid position, hypotheses as in C02b) and [null_move] keep it.  With the
    castle-rights words below 4, the public [get_hash b] is then [Hspec (abs_board b)], a
    function of the abstract position alone (key sum of the placement, en-passant file key,
    two castle keys, side key).  [ReachB p0 b]: [b] is reached from the from-scratch board of
    [p0] by legal moves of the shown position applied with [make_move_new] and by
    [null_move]s made when the side to move is not in check.
    Proofs: [Proofs/StepHash.v], [Proofs/StepClosed.v] (discharges the two specification-level
    facts by [SpecInvGoals.pos_valid_preserved] and [RoundTripAbs.abs_from_scratch]),
    [Proofs/StepCanon.v] ([ReachLib]: null moves without side condition). *)
From Chess Require Import Base.Bits Spec.Geometry Spec.Rules Model.Board.
From Chess Require Import Proofs.AbsBoard Proofs.HashSeparation Proofs.StepLink Proofs.StepHash
  Proofs.StepClosed Proofs.StepMain Proofs.StepCanon Proofs.StepMain2 Proofs.StepExamples.
Open Scope N_scope.

(** what [HashOK] and [Hspec] say *)
Theorem C08_hashok_def : forall b,
  HashOK b <->
  hash b = fold_left (fun h s => match at_ (abs_board b) s with
                                 | Some (t,c) => N.lxor h (zob_piece t s c) | None => h end) all_sq 0.
Proof. exact main_hashok_def. Qed.
Check C08_hashok_def :
  forall b,
  HashOK b <->
  hash b = fold_left (fun h s => match at_ (abs_board b) s with
                                 | Some (t,c) => N.lxor h (zob_piece t s c) | None => h end) all_sq 0.
Print Assumptions C08_hashok_def.
Theorem C08_key_fold_pieces_hash : forall p, key_fold p = pieces_hash (placement p).
Proof. exact key_fold_pieces_hash. Qed.
Check C08_key_fold_pieces_hash : forall p, key_fold p = pieces_hash (placement p).
Print Assumptions C08_key_fold_pieces_hash.

(** boards built from scratch (any builder, any position — no validity needed) *)
Theorem C08_hashok_from_builder : forall bb, HashOK (from_builder_raw bb).
Proof. exact hashok_from_builder_raw. Qed.
Check C08_hashok_from_builder : forall bb, HashOK (from_builder_raw bb).
Print Assumptions C08_hashok_from_builder.
Theorem C08_hashok_from_scratch : forall p, HashOK (from_scratch p).
Proof. exact hashok_from_scratch. Qed.
Check C08_hashok_from_scratch : forall p, HashOK (from_scratch p).
Print Assumptions C08_hashok_from_scratch.

(** the key step: one legal move *)
Theorem C08_hashok_step : forall b m,
  Consistent b -> pos_valid (abs_board b) = true -> In m (legal_moves (abs_board b)) ->
  (forall e, epsq b = Some e -> e < 64 /\ sq_rank e = fourth_rk (opp (stm b))) ->
  forall b', HashOK b -> make_move_new b (src m) (dst m) (promo m) = Some b' -> HashOK b'.
Proof. exact main_hashok. Qed.
Check C08_hashok_step : forall b m,
  Consistent b -> pos_valid (abs_board b) = true -> In m (legal_moves (abs_board b)) ->
  (forall e, epsq b = Some e -> e < 64 /\ sq_rank e = fourth_rk (opp (stm b))) ->
  forall b', HashOK b -> make_move_new b (src m) (dst m) (promo m) = Some b' -> HashOK b'.
Print Assumptions C08_hashok_step.

Theorem C08_hashok_null_move : forall b b', HashOK b -> null_move b = Some b' -> HashOK b'.
Proof. exact hashok_null_move. Qed.
Check C08_hashok_null_move : forall b b', HashOK b -> null_move b = Some b' -> HashOK b'.
Print Assumptions C08_hashok_null_move.

(** the public hash is a function of the abstract position *)
Theorem C08_get_hash_abs : forall b,
  HashOK b -> crW b < 4 -> crB b < 4 -> get_hash b = Hspec (abs_board b).
Proof. exact get_hash_abs. Qed.
Check C08_get_hash_abs : forall b,
  HashOK b -> crW b < 4 -> crB b < 4 -> get_hash b = Hspec (abs_board b).
Print Assumptions C08_get_hash_abs.

Theorem C08_path_independent : forall b1 b2,
  HashOK b1 -> crW b1 < 4 -> crB b1 < 4 -> HashOK b2 -> crW b2 < 4 -> crB b2 < 4 ->
  abs_board b1 = abs_board b2 -> get_hash b1 = get_hash b2.
Proof. exact path_independent. Qed.
Check C08_path_independent : forall b1 b2,
  HashOK b1 -> crW b1 < 4 -> crB b1 < 4 -> HashOK b2 -> crW b2 < 4 -> crB b2 < 4 ->
  abs_board b1 = abs_board b2 -> get_hash b1 = get_hash b2.
Print Assumptions C08_path_independent.

(** after one legal move the public hash is the specification-level hash of the successor *)
Theorem C08_step_get_hash : forall b m,
  Consistent b -> pos_valid (abs_board b) = true -> In m (legal_moves (abs_board b)) ->
  (forall e, epsq b = Some e -> e < 64 /\ sq_rank e = fourth_rk (opp (stm b))) ->
  forall b', HashOK b -> make_move_new b (src m) (dst m) (promo m) = Some b' ->
  get_hash b' = Hspec (apply (abs_board b) m).
Proof. exact main_get_hash. Qed.
Check C08_step_get_hash : forall b m,
  Consistent b -> pos_valid (abs_board b) = true -> In m (legal_moves (abs_board b)) ->
  (forall e, epsq b = Some e -> e < 64 /\ sq_rank e = fourth_rk (opp (stm b))) ->
  forall b', HashOK b -> make_move_new b (src m) (dst m) (promo m) = Some b' ->
  get_hash b' = Hspec (apply (abs_board b) m).
Print Assumptions C08_step_get_hash.

(** ** boards reached by play *)
(** parametrised by the specification-level fact "legal moves keep positions valid" *)
Theorem C08_reach_inv_param :
  (forall p m, pos_valid p = true -> In m (legal_moves p) -> pos_valid (apply p m) = true) ->
  forall b0 b, Inv b0 -> ReachFrom b0 b -> Inv b.
Proof. exact reach_inv. Qed.
Check C08_reach_inv_param :
  (forall p m, pos_valid p = true -> In m (legal_moves p) -> pos_valid (apply p m) = true) ->
  forall b0 b, Inv b0 -> ReachFrom b0 b -> Inv b.
Print Assumptions C08_reach_inv_param.

Theorem C08_reach_path_independent_param :
  (forall p m, pos_valid p = true -> In m (legal_moves p) -> pos_valid (apply p m) = true) ->
  forall p1 p2 b1 b2,
  pos_valid (abs_board (from_scratch p1)) = true -> pos_valid (abs_board (from_scratch p2)) = true ->
  ReachB p1 b1 -> ReachB p2 b2 -> abs_board b1 = abs_board b2 -> get_hash b1 = get_hash b2.
Proof. exact reach_path_independent. Qed.
Check C08_reach_path_independent_param :
  (forall p m, pos_valid p = true -> In m (legal_moves p) -> pos_valid (apply p m) = true) ->
  forall p1 p2 b1 b2,
  pos_valid (abs_board (from_scratch p1)) = true -> pos_valid (abs_board (from_scratch p2)) = true ->
  ReachB p1 b1 -> ReachB p2 b2 -> abs_board b1 = abs_board b2 -> get_hash b1 = get_hash b2.
Print Assumptions C08_reach_path_independent_param.

(** closed forms (C05's [pos_valid_preserved], the round trip [abs_from_scratch]) *)
Theorem C08_reach_inv : forall p0 b, pos_valid p0 = true -> ReachB p0 b ->
  Consistent b /\ HashOK b /\ crW b < 4 /\ crB b < 4 /\
  (forall e, epsq b = Some e -> e < 64 /\ sq_rank e = fourth_rk (opp (stm b))) /\
  pos_valid (abs_board b) = true.
Proof. exact main_reach_inv. Qed.
Check C08_reach_inv : forall p0 b, pos_valid p0 = true -> ReachB p0 b ->
  Consistent b /\ HashOK b /\ crW b < 4 /\ crB b < 4 /\
  (forall e, epsq b = Some e -> e < 64 /\ sq_rank e = fourth_rk (opp (stm b))) /\
  pos_valid (abs_board b) = true.
Print Assumptions C08_reach_inv.

Theorem C08_reach_hash : forall p0 b, pos_valid p0 = true -> ReachB p0 b ->
  get_hash b = Hspec (abs_board b).
Proof. exact reach_hash_closed. Qed.
Check C08_reach_hash : forall p0 b, pos_valid p0 = true -> ReachB p0 b ->
  get_hash b = Hspec (abs_board b).
Print Assumptions C08_reach_hash.

(** incremental = from scratch, after any sequence of legal and null moves *)
Theorem C08_reach_hash_scratch : forall p0 b, pos_valid p0 = true -> ReachB p0 b ->
  get_hash b = get_hash (from_scratch (abs_board b)).
Proof. exact reach_hash_scratch. Qed.
Check C08_reach_hash_scratch : forall p0 b, pos_valid p0 = true -> ReachB p0 b ->
  get_hash b = get_hash (from_scratch (abs_board b)).
Print Assumptions C08_reach_hash_scratch.

Theorem C08_reach_path_independent : forall p1 p2 b1 b2,
  pos_valid p1 = true -> pos_valid p2 = true -> ReachB p1 b1 -> ReachB p2 b2 ->
  abs_board b1 = abs_board b2 -> get_hash b1 = get_hash b2.
Proof. exact reach_path_independent_closed. Qed.
Check C08_reach_path_independent : forall p1 p2 b1 b2,
  pos_valid p1 = true -> pos_valid p2 = true -> ReachB p1 b1 -> ReachB p2 b2 ->
  abs_board b1 = abs_board b2 -> get_hash b1 = get_hash b2.
Print Assumptions C08_reach_path_independent.

(** ** with the library's own null moves (no side condition): [ReachLib p0 b] — from the
    from-scratch board of [p0] by [make_move_new] on legal moves of the shown position and by
    [null_move] whenever the library accepts it.  Every such board IS the from-scratch board of
    the position it shows (hash, caches and all), so equal positions give equal boards. *)
Theorem C08_reachlib_board : forall p0 b, pos_valid p0 = true -> ReachLib p0 b ->
  b = from_scratch (abs_board b) /\ pos_valid (abs_board b) = true /\
  get_hash b = Hspec (abs_board b).
Proof. exact main_reachlib_board. Qed.
Check C08_reachlib_board : forall p0 b, pos_valid p0 = true -> ReachLib p0 b ->
  b = from_scratch (abs_board b) /\ pos_valid (abs_board b) = true /\
  get_hash b = Hspec (abs_board b).
Print Assumptions C08_reachlib_board.

Theorem C08_reachlib_path_independent : forall p1 p2 b1 b2,
  pos_valid p1 = true -> pos_valid p2 = true -> ReachLib p1 b1 -> ReachLib p2 b2 ->
  abs_board b1 = abs_board b2 -> b1 = b2 /\ get_hash b1 = get_hash b2.
Proof. exact main_reachlib_path_independent. Qed.
Check C08_reachlib_path_independent : forall p1 p2 b1 b2,
  pos_valid p1 = true -> pos_valid p2 = true -> ReachLib p1 b1 -> ReachLib p2 b2 ->
  abs_board b1 = abs_board b2 -> b1 = b2 /\ get_hash b1 = get_hash b2.
Print Assumptions C08_reachlib_path_independent.

(** on reached boards the null move is refused exactly when the side to move is in check *)
Theorem C08_reachlib_null_iff : forall p0 b, pos_valid p0 = true -> ReachLib p0 b ->
  (null_move b = None <-> in_check (abs_board b) (stm b) = true).
Proof. exact main_null_iff. Qed.
Check C08_reachlib_null_iff : forall p0 b, pos_valid p0 = true -> ReachLib p0 b ->
  (null_move b = None <-> in_check (abs_board b) (stm b) = true).
Print Assumptions C08_reachlib_null_iff.

(** examples: the invariant holds of a concrete board; a transposition *)
Theorem C08_example_inv : Inv (from_scratch expos).
Proof. exact ex_inv. Qed.
Check C08_example_inv :
  Inv (from_scratch expos).
Print Assumptions C08_example_inv.
Theorem C08_example_transposition :
  exists b1 b2 b3 b4 c1 c2 c3 c4,
    make_move_new (from_scratch expos) 0 1 None = Some b1 /\ make_move_new b1 56 57 None = Some b2 /\
    make_move_new b2 7 6 None = Some b3 /\ make_move_new b3 63 62 None = Some b4 /\
    make_move_new (from_scratch expos) 7 6 None = Some c1 /\ make_move_new c1 63 62 None = Some c2 /\
    make_move_new c2 0 1 None = Some c3 /\ make_move_new c3 56 57 None = Some c4 /\
    abs_board b4 = abs_board c4 /\ get_hash b4 = get_hash c4 /\ get_hash b4 = Hspec (abs_board b4) /\
    get_hash b2 <> get_hash c2.
Proof. exact ex_transposition. Qed.
Check C08_example_transposition :
  exists b1 b2 b3 b4 c1 c2 c3 c4,
    make_move_new (from_scratch expos) 0 1 None = Some b1 /\ make_move_new b1 56 57 None = Some b2 /\
    make_move_new b2 7 6 None = Some b3 /\ make_move_new b3 63 62 None = Some b4 /\
    make_move_new (from_scratch expos) 7 6 None = Some c1 /\ make_move_new c1 63 62 None = Some c2 /\
    make_move_new c2 0 1 None = Some c3 /\ make_move_new c3 56 57 None = Some c4 /\
    abs_board b4 = abs_board c4 /\ get_hash b4 = get_hash c4 /\ get_hash b4 = Hspec (abs_board b4) /\
    get_hash b2 <> get_hash c2.
Print Assumptions C08_example_transposition.
