(** * Proofs.SweepLine — C16a: [line_b] (and hence the LINE table) is the geometric
    "on the full line through two aligned squares", checked on all 64³ triples against an
    independent reference built only from [step] and the eight king directions:
    [c] is on the line of [a],[b] iff for some direction [d], [1 <= j <= 7] and [-7 <= k <= 7],
    [b = a + j*d] and [c = a + k*d]  (so [a] ([k=0]) and [b] ([k=j]) are on it, and the line
    is empty when [a],[b] are not aligned or equal). *)
From Coq Require Import Lia ZifyBool ZifyN ZifyNat.
From Chess Require Import Base.Bits Spec.Geometry Gen.Tables.
From Chess Require Import Proofs.TablesLib Proofs.TablesEq Proofs.TablesMeaning.
Open Scope N_scope.

Definition lscale (k:Z) (d:Z*Z) : Z*Z := (k * fst d, k * snd d)%Z.
Definition lopt_is (o:option N) (b:N) : bool :=
  match o with Some x => x =? b | None => false end.
Definition lopt_list (o:option N) : list N := match o with Some x => [x] | None => [] end.
Definition j17 : list Z := [1;2;3;4;5;6;7]%Z.
Definition km77 : list Z := [-7;-6;-5;-4;-3;-2;-1;0;1;2;3;4;5;6;7]%Z.

Lemma in_j17 (k:Z) : In k j17 <-> (1 <= k <= 7)%Z.
Proof. unfold j17. cbn [In]. lia. Qed.
Lemma in_km77 (k:Z) : In k km77 <-> (-7 <= k <= 7)%Z.
Proof. unfold km77. cbn [In]. lia. Qed.
Lemma lopt_is_iff (o:option N) (b:N) : lopt_is o b = true <-> o = Some b.
Proof.
  destruct o as [x|]; cbn [lopt_is].
  - rewrite N.eqb_eq. split; [intros ->; reflexivity | intro H; injection H as ->; reflexivity].
  - split; discriminate.
Qed.
Lemma in_lopt_list (o:option N) (c:N) : In c (lopt_list o) <-> o = Some c.
Proof.
  destruct o as [x|]; cbn [lopt_list In].
  - split; [intros [->|[]]; reflexivity | intro H; injection H as ->; left; reflexivity].
  - split; [intros [] | discriminate].
Qed.

(** if [b] is hit walking from [a] in direction [d]: every board square [a + k*d] *)
Definition line_list (a b:N) : list N :=
  flat_map (fun d =>
    flat_map (fun j =>
      if lopt_is (step a (lscale j d)) b
      then flat_map (fun k => lopt_list (step a (lscale k d))) km77
      else []) j17) king_dirs.
Definition line_ref (a b c:N) : bool := existsb (N.eqb c) (line_list a b).

Lemma line_list_spec (a b c:N) :
  In c (line_list a b) <->
  exists d j k, In d king_dirs /\ (1 <= j <= 7)%Z /\ (-7 <= k <= 7)%Z /\
                step a (lscale j d) = Some b /\ step a (lscale k d) = Some c.
Proof.
  unfold line_list. rewrite in_flat_map. split.
  - intros [d [Hd H]]. rewrite in_flat_map in H. destruct H as [j [Hj H]].
    destruct (lopt_is (step a (lscale j d)) b) eqn:Hb; [|destruct H].
    rewrite in_flat_map in H. destruct H as [k [Hk H]].
    apply in_lopt_list in H. apply lopt_is_iff in Hb.
    apply in_km77 in Hk. apply in_j17 in Hj.
    exists d, j, k. repeat split; try assumption; lia.
  - intros [d [j [k [Hd [Hj [Hk [Hb Hc]]]]]]].
    exists d. split; [exact Hd|]. rewrite in_flat_map.
    exists j. split; [apply in_j17; lia|].
    apply lopt_is_iff in Hb. rewrite Hb. rewrite in_flat_map.
    exists k. split; [apply in_km77; lia|].
    apply in_lopt_list, Hc.
Qed.

Lemma line_ref_spec (a b c:N) :
  line_ref a b c = true <->
  exists d j k, In d king_dirs /\ (1 <= j <= 7)%Z /\ (-7 <= k <= 7)%Z /\
                step a (lscale j d) = Some b /\ step a (lscale k d) = Some c.
Proof.
  rewrite <- line_list_spec. unfold line_ref. rewrite existsb_exists. split.
  - intros [x [Hx Heq]]. apply N.eqb_eq in Heq. subst x. exact Hx.
  - intro H. exists c. split; [exact H | apply N.eqb_refl].
Qed.

(** the 64³ sweep: the reference list is computed once per pair, the LINE table stands
    for [line_b] (by [line_meaning]) *)
Lemma line_ref_sweep :
  forallb (fun a => forallb (fun b =>
    (fun l w => forallb (fun c => Bool.eqb (N.testbit w c) (existsb (N.eqb c) l)) all_sq)
      (line_list a b) (line a b)) all_sq) all_sq = true.
Proof. vm_cast_no_check (eq_refl true). Qed.

Theorem line_b_ref (a b c:N) : a < 64 -> b < 64 -> c < 64 ->
  line_b a b c = line_ref a b c.
Proof.
  intros Ha Hb Hc. rewrite <- line_meaning by assumption.
  pose proof (sweep64_2 _ line_ref_sweep a b Ha Hb) as H. cbv beta in H.
  apply beqb_eq. apply (sweep64 _ H c Hc).
Qed.

Theorem line_b_steps (a b c:N) : a < 64 -> b < 64 -> c < 64 ->
  (line_b a b c = true <->
   exists d j k, In d king_dirs /\ (1 <= j <= 7)%Z /\ (-7 <= k <= 7)%Z /\
                 step a (lscale j d) = Some b /\ step a (lscale k d) = Some c).
Proof. intros Ha Hb Hc. rewrite line_b_ref by assumption. apply line_ref_spec. Qed.

(** the same in file/rank arithmetic *)
Theorem line_b_geom (a b c:N) : a < 64 -> b < 64 -> c < 64 ->
  (line_b a b c = true <->
   exists df dr j k, In (df,dr) king_dirs /\ 1 <= j <= 7 /\ -7 <= k <= 7 /\
     fileZ b = fileZ a + j*df /\ rankZ b = rankZ a + j*dr /\
     fileZ c = fileZ a + k*df /\ rankZ c = rankZ a + k*dr)%Z.
Proof.
  intros Ha Hb Hc. rewrite line_b_steps by assumption. split.
  - intros [[df dr] [j [k [Hd [Hj [Hk [Hsb Hsc]]]]]]].
    apply step_spec in Hsc; [|exact Ha]. apply step_spec in Hsb; [|exact Ha].
    cbn [lscale fst snd] in Hsc, Hsb.
    exists df, dr, j, k. intuition.
  - intros [df [dr [j [k [Hd [Hj [Hk [Hfb [Hrb [Hfc Hrc]]]]]]]]]].
    exists (df,dr), j, k. repeat split; try assumption; try lia.
    + apply step_spec; [exact Ha|]. cbn [lscale fst snd]. auto.
    + apply step_spec; [exact Ha|]. cbn [lscale fst snd]. auto.
Qed.

(** and for the tables *)
Theorem line_geom (a b c:N) : a < 64 -> b < 64 -> c < 64 ->
  (N.testbit (line a b) c = true <->
   exists df dr j k, In (df,dr) king_dirs /\ 1 <= j <= 7 /\ -7 <= k <= 7 /\
     fileZ b = fileZ a + j*df /\ rankZ b = rankZ a + j*dr /\
     fileZ c = fileZ a + k*df /\ rankZ c = rankZ a + k*dr)%Z.
Proof. intros Ha Hb Hc. rewrite line_meaning by assumption. apply line_b_geom; assumption. Qed.

Theorem G_LINE_geom (a b c:N) : a < 64 -> b < 64 -> c < 64 ->
  (N.testbit (nthN G_LINE (a*64+b) 0) c = true <->
   (exists df dr j k, In (df,dr) king_dirs /\ 1 <= j <= 7 /\ -7 <= k <= 7 /\
     fileZ b = fileZ a + j*df /\ rankZ b = rankZ a + j*dr /\
     fileZ c = fileZ a + k*df /\ rankZ c = rankZ a + k*dr)%Z).
Proof. intros Ha Hb Hc. rewrite G_LINE_nth by assumption. apply line_geom; assumption. Qed.

(** non-vacuity: the a1-h8 diagonal is the line of a1 and d4; a1 and b3 have no line *)
Example line_geom_ex :
  line_b 0 27 63 = true /\ line_b 0 27 0 = true /\ line_b 0 27 27 = true /\ line_b 0 27 1 = false
  /\ line_list 0 27 = [0;9;18;27;36;45;54;63] /\ line 0 17 = 0 /\ line 5 5 = 0.
Proof. vm_compute. auto 10. Qed.
