(** * Proofs.StepApply — the specification's successor [Spec.apply], read square by square
    and field by field.  Nothing here mentions the bitboard model. *)
From Coq Require Import Lia ZifyBool ZifyN ZifyNat.
From Chess Require Import Spec.Rules Proofs.TablesLib Proofs.TablesMeaning Proofs.StepShape.
Open Scope N_scope.
Ltac Zify.zify_post_hook ::= Z.div_mod_to_equations.

(** what stands on square [k] after the move *)
Definition apply_at (p:pos) (m:move) (k:N) : option (ptype*color) :=
  let c := turn p in
  let piece := match at_ p (src m) with Some (t,_) => t | None => Pawn end in
  let placed := match promo m with Some t => t | None => piece end in
  let a1 := if k =? dst m then Some (placed,c) else if k =? src m then None else at_ p k in
  let a2 := if is_ep p m
            then (if k =? rank_of (src m) * 8 + file_of (dst m) then None else a1) else a1 in
  if is_castle p m then
    if file_of (dst m) =? 6
    then (if k =? rank_of (src m) * 8 + 5 then Some (Rook,c)
          else if k =? rank_of (src m) * 8 + 7 then None else a2)
    else (if k =? rank_of (src m) * 8 + 3 then Some (Rook,c)
          else if k =? rank_of (src m) * 8 then None else a2)
  else a2.

Lemma atl_updN2 l i x j y s : length l = 64%nat -> i < 64 -> j < 64 ->
  atl (updN (updN l i x) j y) s = if s =? j then y else if s =? i then x else atl l s.
Proof.
  intros Hl Hi Hj. rewrite atl_updN by (rewrite ?length_updN; assumption).
  rewrite atl_updN by assumption. reflexivity.
Qed.

Theorem at_apply p m k : length (placement p) = 64%nat -> src m < 64 -> dst m < 64 ->
  at_ (apply p m) k = apply_at p m k.
Proof.
  intros Hl Hs Hd.
  destruct (rank_file_lt _ Hs) as [Hrs _]. destruct (rank_file_lt _ Hd) as [_ Hfd].
  unfold apply_at, apply. rewrite at_atl. cbn [placement].
  set (c := turn p).
  set (placed := match promo m with Some t => t | None => match at_ p (src m) with Some (t,_) => t | None => Pawn end end).
  set (b1 := updN (updN (placement p) (src m) None) (dst m) (Some (placed, c))).
  assert (Hl1 : length b1 = 64%nat) by (unfold b1; rewrite !length_updN; exact Hl).
  assert (H1 : forall s, atl b1 s = if s =? dst m then Some (placed,c) else if s =? src m then None else at_ p s).
  { intro s. unfold b1. rewrite atl_updN2 by assumption. reflexivity. }
  set (b2 := if is_ep p m then updN b1 (rank_of (src m) * 8 + file_of (dst m)) None else b1).
  assert (Hl2 : length b2 = 64%nat) by (unfold b2; destruct (is_ep p m); rewrite ?length_updN; exact Hl1).
  assert (H2 : forall s, atl b2 s = if is_ep p m
            then (if s =? rank_of (src m) * 8 + file_of (dst m) then None else atl b1 s) else atl b1 s).
  { intro s. unfold b2. destruct (is_ep p m); [|reflexivity]. rewrite atl_updN by (try assumption; lia). reflexivity. }
  destruct (is_castle p m).
  - destruct (file_of (dst m) =? 6).
    + rewrite atl_updN2 by (try assumption; lia). rewrite H2, !H1. reflexivity.
    + rewrite atl_updN2 by (try assumption; lia). rewrite H2, !H1. reflexivity.
  - rewrite H2, !H1. reflexivity.
Qed.

Lemma length_apply p m : length (placement (apply p m)) = length (placement p).
Proof.
  unfold apply. cbn [placement].
  destruct (is_castle p m); [destruct (file_of (dst m) =? 6)|]; destruct (is_ep p m);
    rewrite ?length_updN; reflexivity.
Qed.

Lemma turn_apply p m : turn (apply p m) = opp (turn p).
Proof. reflexivity. Qed.

Definition touch (m:move) (s:N) : bool := (src m =? s) || (dst m =? s).
Lemma wk_apply p m : wk (apply p m) = wk p && negb (touch m 4 || touch m 7).
Proof. reflexivity. Qed.
Lemma wq_apply p m : wq (apply p m) = wq p && negb (touch m 4 || touch m 0).
Proof. reflexivity. Qed.
Lemma bk_apply p m : bk (apply p m) = bk p && negb (touch m 60 || touch m 63).
Proof. reflexivity. Qed.
Lemma bq_apply p m : bq (apply p m) = bq p && negb (touch m 60 || touch m 56).
Proof. reflexivity. Qed.

Definition apply_ep (p:pos) (m:move) : option N :=
  if is_double p m then
    if existsb (fun d => match step (dst m) d with
                         | Some x => has p x Pawn (opp (turn p)) | None => false end)
               [(1,0);(-1,0)]%Z
    then Some (((rank_of (src m) + rank_of (dst m)) / 2) * 8 + file_of (src m)) else None
  else None.
Lemma ep_apply p m : ep (apply p m) = apply_ep p m.
Proof. reflexivity. Qed.

(** positions are equal when their fields are *)
Lemma pos_ext (p q:pos) :
  placement p = placement q -> turn p = turn q -> wk p = wk q -> wq p = wq q ->
  bk p = bk q -> bq p = bq q -> ep p = ep q -> p = q.
Proof. destruct p, q; cbn. intros -> -> -> -> -> -> ->. reflexivity. Qed.

(** placements with 64 entries are equal when they agree square by square *)
Lemma placement_ext (l l':list (option (ptype*color))) :
  length l = 64%nat -> length l' = 64%nat -> (forall k, k < 64 -> atl l k = atl l' k) -> l = l'.
Proof.
  intros Hl Hl' H. apply (nth_ext _ _ None None); [congruence|].
  intros n Hn. specialize (H (N.of_nat n) ltac:(lia)). unfold atl in H. rewrite Nat2N.id in H. exact H.
Qed.

Example at_apply_ex :
  at_ (apply startpos (mv 12 28)) 28 = Some (Pawn,White) /\ at_ (apply startpos (mv 12 28)) 12 = None
  /\ apply_at startpos (mv 12 28) 28 = Some (Pawn,White).
Proof. vm_compute. auto. Qed.
