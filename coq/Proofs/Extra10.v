(** * Proofs.Extra10 — [Board::default] and [Game::new] ([Model/Extra.v]):
    parsing the start FEN succeeds and yields exactly the from-scratch board of the rules'
    start position [startpos]; that position is valid, so every C10/C11 theorem about games
    started from a valid position applies to [Game::new()]. *)
From Coq Require Import NArith List Bool.
From Chess Require Import Base.Bits Base.Text Spec.Geometry Spec.Rules Model.Board Model.MoveGen
  Model.Fen Model.Game Model.Extra.
From Chess Require Import Proofs.NullMove Proofs.CorAReach.
From Chess Require Import Proofs.GameBase Proofs.GameScan Proofs.GameProtocol Proofs.CorAGame.
Open Scope N_scope.
Local Opaque from_scratch.

(** ** 1. [board_eqb] is equality *)
Lemma color_eqb_eq a b : color_eqb a b = true -> a = b.
Proof. destruct a, b; intro H; try reflexivity; discriminate H. Qed.

Theorem board_eqb_eq a b : board_eqb a b = true -> a = b.
Proof.
  destruct a as [a1 a2 a3 a4 a5 a6 a7 a8 a9 a10 a11 a12 a13 a14 a15 a16].
  destruct b as [b1 b2 b3 b4 b5 b6 b7 b8 b9 b10 b11 b12 b13 b14 b15 b16].
  unfold board_eqb. cbn [pP pN pB pR pQ pK cW cB comb stm crW crB pinned checkers hash epsq].
  rewrite !andb_true_iff.
  intros [[[[[[[[[[[[[[[H1 H2] H3] H4] H5] H6] H7] H8] H9] H10] H11] H12] H13] H14] H15] H16].
  apply N.eqb_eq in H1, H2, H3, H4, H5, H6, H7, H8, H9, H11, H12, H13, H14, H15.
  apply color_eqb_eq in H10. subst.
  destruct a16 as [x|], b16 as [y|]; try discriminate H16; [|reflexivity].
  apply N.eqb_eq in H16. subst. reflexivity.
Qed.

Theorem board_eqb_refl a : board_eqb a a = true.
Proof.
  unfold board_eqb. rewrite !N.eqb_refl. destruct (stm a), (epsq a) as [x|]; cbn [color_eqb andb];
    try apply N.eqb_refl; reflexivity.
Qed.

(** ** 2. [Board::default] *)
Transparent from_scratch.
Lemma board_default_eqb_compute :
  match board_default with Ok b => board_eqb b (from_scratch startpos) | _ => false end = true.
Proof. vm_cast_no_check (eq_refl true). Qed.
Opaque from_scratch.

Theorem board_default_eqb : exists b, board_default = Ok b /\ board_eqb b (from_scratch startpos) = true.
Proof.
  pose proof board_default_eqb_compute as H.
  destruct board_default as [b| |]; try discriminate H. exists b. split; [reflexivity|exact H].
Qed.

Theorem board_default_eq : board_default = Ok (from_scratch startpos).
Proof.
  destruct board_default_eqb as [b [H1 H2]]. rewrite H1. f_equal. apply board_eqb_eq, H2.
Qed.

Theorem board_default_no_panic : board_default <> Panic /\ board_default <> Err.
Proof. rewrite board_default_eq. split; discriminate. Qed.

(** ** 3. [Game::new] *)
Theorem game_new_eq : game_new = Ok (new_with_board (from_scratch startpos)).
Proof. unfold game_new. rewrite board_default_eq. reflexivity. Qed.

Theorem startpos_valid : pos_valid startpos = true.
Proof. vm_cast_no_check (eq_refl true). Qed.

Theorem startboard_good : GoodBoard (from_scratch startpos).
Proof. apply good_scratch, startpos_valid. Qed.

(** the C10b theorems at [p0 := startpos] *)
Theorem game_new_no_panic g : Reachable (from_scratch startpos) g ->
  (exists b, current_position g = Some b /\ GoodBoard b) /\
  (exists r, result g = Some r) /\
  (exists d, can_declare_draw g = Some d) /\
  (forall o, exists f g', apply_op g o = Some (f,g')).
Proof. exact (game_no_panic startpos (from_scratch startpos) startpos_valid eq_refl g). Qed.

Theorem game_new_runs_never_panic g ops : Reachable (from_scratch startpos) g ->
  exists g', run g ops = Some g' /\ Reachable (from_scratch startpos) g'.
Proof. exact (game_runs_never_panic startpos (from_scratch startpos) startpos_valid eq_refl g ops). Qed.

Theorem game_new_position_reachgen g : Reachable (from_scratch startpos) g ->
  exists b, current_position g = Some b /\ ReachGen startpos b.
Proof. exact (game_position_reachgen startpos (from_scratch startpos) startpos_valid eq_refl g). Qed.

Theorem game_new_status_fide g : Reachable (from_scratch startpos) g ->
  exists b, current_position g = Some b /\ pos_valid (abs_board b) = true /\
            board_status b = status (abs_board b).
Proof. exact (game_status_fide startpos (from_scratch startpos) startpos_valid eq_refl g). Qed.

(** the initial game is reachable, so the hypotheses are satisfiable *)
Example game_new_reachable : exists g0, game_new = Ok g0 /\ Reachable (from_scratch startpos) g0.
Proof. exists (new_with_board (from_scratch startpos)). split; [exact game_new_eq|constructor]. Qed.
