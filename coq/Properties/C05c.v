(** * C05c — property C05 at the level of the implementation, along every history (null moves
    included): every board reached by play from the from-scratch board of a valid position
    passes the library's own validation [Board::is_sane] and shows a valid position; castling
    rights never come back, and the numbers of men and of pawns of either side never grow.

    Vocabulary ([Proofs/CorAReach.v]):
    - [from_scratch p] ([Model.Board]): the board the library builds for the specification
      position [p]; [abs_board b]: the specification position a board shows.
    - [ReachGen p0 b]: [b] is reached from [from_scratch p0] by any finite sequence of
      (i) moves [c] that the library's own generator produced on the current board
      ([In c (moves_of b)], applied by [make_move_new] = [Board::make_move_new]) and
      (ii) null moves that [Board::null_move] accepted.  The definition does not mention the
      specification.  For a valid [p0] it coincides with [StepCanon.ReachLib p0] (moves taken
      from the specification's [legal_moves]): [C01c_reachgen_iff_reachlib].
    - [pos_valid] ([Spec.Rules]): the valid positions.
    - [rights_le q p] ([Proofs/SpecInvGoals.v]): each of the four castling rights of [q] is a
      right of [p]; [men p c], [pawns p c], [kings p c] ([Spec.Rules]): counts of [c]'s men. *)
From Coq Require Import NArith List Bool Permutation.
From Chess Require Import Base.Bits Spec.Geometry Spec.Rules Model.Board Model.MoveGen.
From Chess Require Import Proofs.AbsBoard Proofs.NullMove Proofs.GenWF Proofs.StepCanon Proofs.SpecInvGoals Proofs.CorAReach.
Import ListNotations.
Open Scope N_scope.

(** sanity, validity and the three monotone quantities *)
Theorem C05c_all : forall p0 b, pos_valid p0 = true -> ReachGen p0 b ->
  is_sane b = true /\ pos_valid (abs_board b) = true /\ rights_le (abs_board b) p0 /\
  (forall c, men (abs_board b) c <= men p0 c) /\ (forall c, pawns (abs_board b) c <= pawns p0 c).
Proof. exact c05c_all. Qed.
Check C05c_all : forall p0 b, pos_valid p0 = true -> ReachGen p0 b ->
  is_sane b = true /\ pos_valid (abs_board b) = true /\ rights_le (abs_board b) p0 /\
  (forall c, men (abs_board b) c <= men p0 c) /\ (forall c, pawns (abs_board b) c <= pawns p0 c).
Print Assumptions C05c_all.

(** one king, at most 16 men and 8 pawns a side *)
Theorem C05c_counts : forall p0 b, pos_valid p0 = true -> ReachGen p0 b ->
  forall c, kings (abs_board b) c = 1 /\ men (abs_board b) c <= 16 /\ pawns (abs_board b) c <= 8.
Proof. exact c05c_counts. Qed.
Check C05c_counts : forall p0 b, pos_valid p0 = true -> ReachGen p0 b ->
  forall c, kings (abs_board b) c = 1 /\ men (abs_board b) c <= 16 /\ pawns (abs_board b) c <= 8.
Print Assumptions C05c_counts.

(** every invariant of the library's representation *)
Theorem C05c_invariants : forall p0 b, pos_valid p0 = true -> ReachGen p0 b ->
  Canonical b /\ pos_valid (abs_board b) = true /\ is_sane b = true /\ BoardWF b.
Proof. exact reachgen_invariants. Qed.
Check C05c_invariants : forall p0 b, pos_valid p0 = true -> ReachGen p0 b ->
  Canonical b /\ pos_valid (abs_board b) = true /\ is_sane b = true /\ BoardWF b.
Print Assumptions C05c_invariants.
