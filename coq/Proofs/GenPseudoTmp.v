(** * Proofs.GenPseudoLib — the specification side of the pseudo-legal layer (interface P of
    [Proofs.GenInterface]): what the members of [pseudo_from p s] are, which of them survive
    the "not en passant, not castling" filter of [spec_dests], and when they carry a promotion
    piece.  Nothing here mentions bitboards, except three finite sweeps linking [step] to the
    pawn push table and to the wrapping [uforward]. *)
From Coq Require Import Lia ZifyBool ZifyN ZifyNat.
From Chess Require Import Base.Bits Spec.Geometry Spec.Rules Model.Board Model.MoveGen.
From Chess Require Import Proofs.TablesLib Proofs.GenInterface.
Open Scope N_scope.

#[local] Arguments N.add : simpl never.
#[local] Arguments N.sub : simpl never.
#[local] Arguments N.mul : simpl never.
#[local] Arguments N.shiftl : simpl never.
#[local] Arguments N.shiftr : simpl never.
#[local] Arguments N.land : simpl never.
#[local] Arguments N.lor : simpl never.
#[local] Arguments N.lxor : simpl never.
#[local] Arguments N.testbit : simpl never.
#[local] Arguments N.eqb : simpl never.
#[local] Arguments N.ltb : simpl never.
#[local] Arguments N.leb : simpl never.

(** ** 0. small facts about the specification's queries *)
Lemma color_eqb_refl c : color_eqb c c = true.
Proof. destruct c; reflexivity. Qed.

Lemma has_at p s t c : has p s t c = true -> at_ p s = Some (t,c).
Proof.
  unfold has. destruct (at_ p s) as [[t' c']|]; [|discriminate].
  destruct t, t', c, c'; cbn [ptype_eqb color_eqb andb]; intro H; try discriminate H; reflexivity.
Qed.

Lemma at_has p s t c : at_ p s = Some (t,c) -> forall t', has p s t' c = ptype_eqb t' t.
Proof. intros H t'. unfold has. rewrite H, color_eqb_refl. apply andb_true_r. Qed.

Lemma enemy_occ_own p c d : enemy p c d = occ p d && negb (own p c d).
Proof. unfold enemy, occ, own, colour_at. destruct (at_ p d) as [[t c']|]; reflexivity. Qed.

Lemma own_occ p c d : occ p d = false -> own p c d = false.
Proof. unfold occ, own, colour_at. destruct (at_ p d) as [[t c']|]; [discriminate|reflexivity]. Qed.

Definition is_promo (m:move) : bool := match promo m with Some _ => true | None => false end.
Definition colours : list color := [White;Black].
Lemma in_colours c : In c colours.
Proof. destruct c; cbn; auto. Qed.

(** ** 1. the destinations of the filtered pseudo-legal moves *)
Lemma in_dests p s d :
  In d (spec_dests p s) <->
  exists m, In m (pseudo_from p s) /\ dst m = d /\ is_ep p m = false /\ is_castle p m = false.
Proof.
  unfold spec_dests. rewrite in_map_iff.
  split; intros [m H]; exists m; rewrite filter_In in *;
    rewrite andb_true_iff, !negb_true_iff in *; tauto.
Qed.

(** ** 2. men other than pawns *)
Lemma pseudo_from_piece p s t : at_ p s = Some (t, turn p) -> t <> Pawn -> t <> King ->
  pseudo_from p s = map (mv s) (filter (fun d => negb (own p (turn p) d)) (attack_set p s)).
Proof.
  intros Hat Hp Hk. unfold pseudo_from. rewrite Hat, color_eqb_refl.
  destruct t; try reflexivity; [contradiction Hp|contradiction Hk]; reflexivity.
Qed.

Lemma pseudo_from_king p s : at_ p s = Some (King, turn p) ->
  pseudo_from p s = map (mv s) (filter (fun d => negb (own p (turn p) d)) (attack_set p s))
                    ++ (if s =? home_rank (turn p) * 8 + 4 then castle_moves p (turn p) else []).
Proof. intros Hat. unfold pseudo_from. rewrite Hat, color_eqb_refl. reflexivity. Qed.

Lemma is_ep_nonpawn p s t d : at_ p s = Some (t, turn p) -> t <> Pawn -> is_ep p (mv s d) = false.
Proof.
  intros Hat Hp. unfold is_ep. cbn [mv src dst]. rewrite (at_has p s t (turn p) Hat).
  destruct t; try reflexivity. contradiction Hp; reflexivity.
Qed.
Lemma is_castle_nonking p s t d : at_ p s = Some (t, turn p) -> t <> King -> is_castle p (mv s d) = false.
Proof.
  intros Hat Hk. unfold is_castle. cbn [mv src dst]. rewrite (at_has p s t (turn p) Hat).
  destruct t; try reflexivity. contradiction Hk; reflexivity.
Qed.

Theorem spec_dests_piece p s t d : at_ p s = Some (t, turn p) -> t <> Pawn -> t <> King ->
  (In d (spec_dests p s) <-> In d (attack_set p s) /\ own p (turn p) d = false).
Proof.
  intros Hat Hp Hk. rewrite in_dests, (pseudo_from_piece p s t Hat Hp Hk). split.
  - intros [m [Hm [Hd _]]]. apply in_map_iff in Hm. destruct Hm as [x [<- Hx]].
    cbn [mv dst] in Hd. subst x. apply filter_In in Hx. rewrite negb_true_iff in Hx. exact Hx.
  - intros [Ha Ho]. exists (mv s d). split.
    + apply in_map, filter_In. rewrite negb_true_iff. split; assumption.
    + split; [reflexivity|]. split; [exact (is_ep_nonpawn p s t d Hat Hp)|exact (is_castle_nonking p s t d Hat Hk)].
Qed.

(** the members of [castle_moves] *)
Lemma castle_moves_shape p c m : In m (castle_moves p c) ->
  has p (home_rank c * 8 + 4) King c = true /\
  (m = mv (home_rank c * 8 + 4) (home_rank c * 8 + 6) \/ m = mv (home_rank c * 8 + 4) (home_rank c * 8 + 2)).
Proof.
  unfold castle_moves. cbv zeta.
  destruct (has p (home_rank c * 8 + 4) King c) eqn:Hk; cbn [andb]; [|intros []].
  destruct (negb (attacked_by p (opp c) (home_rank c * 8 + 4))); [|intros []].
  intro H. split; [reflexivity|]. apply in_app_or in H. destruct H as [H|H].
  - match type of H with In _ (if ?x then _ else _) => destruct x end; [|destruct H].
    destruct H as [<-|[]]. left. reflexivity.
  - match type of H with In _ (if ?x then _ else _) => destruct x end; [|destruct H].
    destruct H as [<-|[]]. right. reflexivity.
Qed.

Lemma castle_is_castle p m : In m (castle_moves p (turn p)) -> is_castle p m = true.
Proof.
  intro H. destruct (castle_moves_shape p (turn p) m H) as [Hk [-> | ->]];
    unfold is_castle; cbn [mv src dst]; rewrite Hk; destruct (turn p); vm_compute; reflexivity.
Qed.

(** a king step never moves two files *)
Lemma king_sweep :
  forallb (fun s => forallb (fun x => negb (absdiff (file_of s) (file_of x) =? 2)) (steps s king_dirs))
          all_sq = true.
Proof. vm_cast_no_check (eq_refl true). Qed.

Lemma king_step_files s x : s < 64 -> In x (steps s king_dirs) ->
  (absdiff (file_of s) (file_of x) =? 2) = false.
Proof.
  intros Hs Hx. pose proof (sweep64 _ king_sweep s Hs) as H. cbv beta in H.
  rewrite forallb_forall in H. specialize (H x Hx). rewrite negb_true_iff in H. exact H.
Qed.

Theorem spec_dests_king p s d : s < 64 -> at_ p s = Some (King, turn p) ->
  (In d (spec_dests p s) <-> In d (attack_set p s) /\ own p (turn p) d = false).
Proof.
  intros Hs Hat. rewrite in_dests, (pseudo_from_king p s Hat).
  assert (Hk : King <> Pawn) by discriminate.
  split.
  - intros [m [Hm [Hd [_ Hc]]]]. apply in_app_or in Hm. destruct Hm as [Hm|Hm].
    + apply in_map_iff in Hm. destruct Hm as [x [<- Hx]].
      cbn [mv dst] in Hd. subst x. apply filter_In in Hx. rewrite negb_true_iff in Hx. exact Hx.
    + destruct (s =? home_rank (turn p) * 8 + 4); [|destruct Hm].
      rewrite (castle_is_castle p m Hm) in Hc. discriminate Hc.
  - intros [Ha Ho]. exists (mv s d). split.
    + apply in_or_app. left. apply in_map, filter_In. rewrite negb_true_iff. split; assumption.
    + split; [reflexivity|]. split; [exact (is_ep_nonpawn p s King d Hat Hk)|].
      unfold is_castle. cbn [mv src dst].
      unfold attack_set in Ha. rewrite Hat in Ha.
      rewrite (king_step_files s d Hs Ha). apply andb_false_r.
Qed.

(** ** 3. pawns: the members of [pawn_moves] *)
Lemma pawn_to_in c s d m : In m (pawn_to c s d) ->
  src m = s /\ dst m = d /\ is_promo m = (rank_of d =? last_rank c).
Proof.
  unfold pawn_to, is_promo. destruct (rank_of d =? last_rank c).
  - unfold promos. intro H. apply in_map_iff in H. destruct H as [t [<- _]]. cbn [src dst promo]. auto.
  - intros [<-|[]]. cbn [mv src dst promo]. auto.
Qed.
Lemma pawn_to_ex c s d : exists m, In m (pawn_to c s d).
Proof.
  unfold pawn_to. destruct (rank_of d =? last_rank c).
  - eexists. unfold promos. cbn [map]. left. reflexivity.
  - eexists. left. reflexivity.
Qed.

Lemma or_iff2 (A B C D:Prop) : (A <-> C) -> (B <-> D) -> (A \/ B <-> C \/ D).
Proof. tauto. Qed.

Theorem pawn_moves_in p c s m : In m (pawn_moves p c s) <->
  (exists d1, step s (0,fwdc c)%Z = Some d1 /\ occ p d1 = false /\
     (In m (pawn_to c s d1) \/
      (rank_of s = start_rank c /\
       exists d2, step d1 (0,fwdc c)%Z = Some d2 /\ occ p d2 = false /\ m = mv s d2)))
  \/ (exists d, In d (steps s (pawn_caps c)) /\
        ((enemy p c d = true /\ In m (pawn_to c s d)) \/
         (enemy p c d = false /\ ep p = Some d /\ m = mv s d))).
Proof.
  unfold pawn_moves. cbv zeta. rewrite in_app_iff. apply or_iff2.
  - destruct (step s (0, fwdc c)%Z) as [d1|] eqn:E1.
    + destruct (occ p d1) eqn:O1.
      * split; [intros []|]. intros [d1' [H1 [H2 _]]]. injection H1 as <-. congruence.
      * rewrite in_app_iff. split.
        -- intros [H|H]; exists d1; (split; [reflexivity|]); (split; [exact O1|]); [left; exact H|].
           destruct (N.eqb_spec (rank_of s) (start_rank c)) as [HR|]; [|destruct H].
           destruct (step d1 (0, fwdc c)%Z) as [d2|] eqn:E2; [|destruct H].
           destruct (occ p d2) eqn:O2; [destruct H|]. destruct H as [<-|[]].
           right. split; [exact HR|]. exists d2. auto.
        -- intros [d1' [H1 [H2 H3]]]. injection H1 as <-.
           destruct H3 as [H3|[HR [d2 [E2 [O2 ->]]]]]; [left; exact H3|right].
           rewrite (proj2 (N.eqb_eq _ _) HR), E2, O2. left. reflexivity.
    + split; [intros []|]. intros [d1' [H1 _]]. discriminate H1.
  - rewrite in_flat_map. split; intros [d [Hd H]]; exists d; (split; [exact Hd|]).
    + destruct (enemy p c d) eqn:En; [left; auto|right]. split; [reflexivity|].
      destruct (ep p) as [e|]; [|destruct H].
      destruct (N.eqb_spec e d) as [E|E]; [subst e|destruct H]. destruct H as [<-|[]]. auto.
    + destruct H as [[En H]|[En [Hep ->]]]; rewrite En; [exact H|].
      rewrite Hep, N.eqb_refl. left. reflexivity.
Qed.

(** the filter on a pawn's moves: en passant is "other file and empty destination" *)
Lemma filter_pawn p s m : at_ p s = Some (Pawn, turn p) -> src m = s ->
  is_castle p m = false /\ is_ep p m = negb (file_of s =? file_of (dst m)) && negb (occ p (dst m)).
Proof.
  intros Hat Hs. unfold is_castle, is_ep. rewrite Hs, !(at_has p s Pawn (turn p) Hat).
  cbn [ptype_eqb andb]. split; reflexivity.
Qed.

(** *** finite facts about pawn steps *)
Definition push_b (c:color) (s t:N) : bool :=
  match step s (0,fwdc c)%Z with
  | Some d1 => (d1 =? t) || ((rank_of s =? start_rank c) &&
        match step d1 (0,fwdc c)%Z with Some d2 => d2 =? t | None => false end)
  | None => false end.

Lemma push_sweep :
  forallb (fun c => forallb (fun s =>
     ((s <? 8) || (56 <=? s)
      || match step s (0,fwdc c)%Z with Some d1 => d1 =? uforward c s | None => false end)
     && match step s (0,fwdc c)%Z with
        | Some d1 => (d1 <? 64) && (file_of s =? file_of d1)
                     && Bool.eqb (rank_of d1 =? last_rank c) (sq_rank s =? seventh_rk c)
                     && match step d1 (0,fwdc c)%Z with
                        | Some d2 => (d2 <? 64) && (file_of s =? file_of d2) | None => true end
        | None => true end
     && negb ((rank_of s =? start_rank c) && (sq_rank s =? seventh_rk c))
     && forallb (fun t => Bool.eqb (N.testbit (pawn_push_tab (is_white c) s) t) (push_b c s t)) all_sq)
    all_sq) colours = true.
Proof. vm_cast_no_check (eq_refl true). Qed.

Lemma push_facts c s : s < 64 ->
  (8 <= s < 56 -> step s (0,fwdc c)%Z = Some (uforward c s)) /\
  (forall d1, step s (0,fwdc c)%Z = Some d1 ->
     d1 < 64 /\ file_of s = file_of d1 /\
     (rank_of d1 =? last_rank c) = (sq_rank s =? seventh_rk c) /\
     forall d2, step d1 (0,fwdc c)%Z = Some d2 -> d2 < 64 /\ file_of s = file_of d2) /\
  (rank_of s = start_rank c -> (sq_rank s =? seventh_rk c) = false) /\
  (forall t, t < 64 -> N.testbit (pawn_push_tab (is_white c) s) t = push_b c s t).
Proof.
  intro Hs. pose proof push_sweep as H. rewrite forallb_forall in H. specialize (H c (in_colours c)).
  pose proof (sweep64 _ H s Hs) as H'. cbv beta in H'. clear H.
  apply andb_prop in H'. destruct H' as [H' H4]. apply andb_prop in H'. destruct H' as [H' H3].
  apply andb_prop in H'. destruct H' as [H1 H2].
  split; [|split; [|split]].
  - intro Hr. destruct (step s (0, fwdc c)%Z) as [d1|].
    + assert (E : (d1 =? uforward c s) = true) by lia. apply N.eqb_eq in E. subst d1. reflexivity.
    + lia.
  - intros d1 E1. rewrite E1 in H2.
    apply andb_prop in H2. destruct H2 as [H2 H2d]. apply andb_prop in H2. destruct H2 as [H2 H2c].
    apply andb_prop in H2. destruct H2 as [H2a H2b].
    split; [lia|]. split; [lia|]. split; [apply beqb_eq; exact H2c|].
    intros d2 E2. rewrite E2 in H2d. lia.
  - intro HR. rewrite (proj2 (N.eqb_eq _ _) HR) in H3. cbn [andb] in H3.
    rewrite negb_true_iff in H3. exact H3.
  - intros t Ht. rewrite forallb_forall in H4. apply beqb_eq, H4, in_all_sq, Ht.
Qed.

Lemma caps_sweep :
  forallb (fun c => forallb (fun s => forallb (fun x =>
     (x <? 64) && negb (file_of s =? file_of x)
     && Bool.eqb (rank_of x =? last_rank c) (sq_rank s =? seventh_rk c)
     && implb (rank_of x =? sixth_rank c) (negb (sq_rank s =? seventh_rk c)))
    (steps s (pawn_caps c))) all_sq) colours = true.
Proof. vm_cast_no_check (eq_refl true). Qed.

Lemma caps_facts c s x : s < 64 -> In x (steps s (pawn_caps c)) ->
  x < 64 /\ (file_of s =? file_of x) = false /\
  (rank_of x =? last_rank c) = (sq_rank s =? seventh_rk c) /\
  (rank_of x = sixth_rank c -> (sq_rank s =? seventh_rk c) = false).
Proof.
  intros Hs Hx. pose proof caps_sweep as H. rewrite forallb_forall in H. specialize (H c (in_colours c)).
  pose proof (sweep64 _ H s Hs) as H'. cbv beta in H'. clear H.
  rewrite forallb_forall in H'. specialize (H' x Hx).
  apply andb_prop in H'. destruct H' as [H' H4]. apply andb_prop in H'. destruct H' as [H' H3].
  apply andb_prop in H'. destruct H' as [H1 H2].
  repeat split.
  - lia.
  - rewrite negb_true_iff in H2. exact H2.
  - apply beqb_eq. exact H3.
  - intro HR. rewrite (proj2 (N.eqb_eq _ _) HR) in H4. cbn [implb] in H4.
    rewrite negb_true_iff in H4. exact H4.
Qed.

(** *** the destinations of a pawn's filtered moves *)
Definition push_dest (p:pos) (c:color) (s d:N) : Prop :=
  exists d1, step s (0,fwdc c)%Z = Some d1 /\ occ p d1 = false /\
    (d = d1 \/ (rank_of s = start_rank c /\
                exists d2, step d1 (0,fwdc c)%Z = Some d2 /\ occ p d2 = false /\ d = d2)).

Theorem spec_dests_pawn p s d : s < 64 -> at_ p s = Some (Pawn, turn p) ->
  (forall e, ep p = Some e -> occ p e = false) ->
  (In d (spec_dests p s) <->
   push_dest p (turn p) s d \/ (In d (steps s (pawn_caps (turn p))) /\ enemy p (turn p) d = true)).
Proof.
  intros Hs Hat Hep. rewrite in_dests.
  assert (Hpf : pseudo_from p s = pawn_moves p (turn p) s).
  { unfold pseudo_from. rewrite Hat, color_eqb_refl. reflexivity. }
  rewrite Hpf. clear Hpf. set (c := turn p) in *.
  destruct (push_facts c s Hs) as [_ [Hstep _]].
  split.
  - intros [m [Hm [Hd [He _]]]]. apply pawn_moves_in in Hm.
    destruct Hm as [[d1 [E1 [O1 Hm]]]|[x [Hx Hm]]].
    + left. exists d1. split; [exact E1|]. split; [exact O1|].
      destruct Hm as [Hm|[HR [d2 [E2 [O2 ->]]]]].
      * left. apply pawn_to_in in Hm. destruct Hm as [_ [Hm _]]. congruence.
      * right. split; [exact HR|]. exists d2. cbn [mv dst] in Hd. auto.
    + right. destruct Hm as [[En Hm]|[En [Hx' ->]]].
      * apply pawn_to_in in Hm. destruct Hm as [_ [Hm _]]. assert (Hxd : x = d) by congruence. rewrite <- Hxd. auto.
      * exfalso. destruct (filter_pawn p s (mv s x) Hat eq_refl) as [_ Hf].
        rewrite Hf in He. cbn [mv dst] in He.
        destruct (caps_facts c s x Hs Hx) as [_ [Hfile _]].
        rewrite Hfile, (Hep x Hx') in He. discriminate He.
  - intros [[d1 [E1 [O1 H]]]|[Hx En]].
    + destruct (Hstep d1 E1) as [_ [Hf1 [_ Hstep2]]].
      destruct H as [->|[HR [d2 [E2 [O2 ->]]]]].
      * destruct (pawn_to_ex c s d1) as [m Hm]. exists m.
        split; [apply pawn_moves_in; left; exists d1; auto|].
        apply pawn_to_in in Hm. destruct Hm as [Hsrc [Hdst _]].
        split; [exact Hdst|]. destruct (filter_pawn p s m Hat Hsrc) as [Hc He].
        split; [|exact Hc]. rewrite He, Hdst, Hf1, N.eqb_refl. reflexivity.
      * exists (mv s d2).
        split; [apply pawn_moves_in; left; exists d1; split; [exact E1|]; split; [exact O1|];
                right; split; [exact HR|]; exists d2; auto|].
        split; [reflexivity|]. destruct (filter_pawn p s (mv s d2) Hat eq_refl) as [Hc He].
        split; [|exact Hc]. rewrite He. cbn [mv dst].
        destruct (Hstep2 d2 E2) as [_ Hf2]. rewrite Hf2, N.eqb_refl. reflexivity.
    + destruct (pawn_to_ex c s d) as [m Hm]. exists m.
      split; [apply pawn_moves_in; right; exists d; auto|].
      apply pawn_to_in in Hm. destruct Hm as [Hsrc [Hdst _]].
      split; [exact Hdst|]. destruct (filter_pawn p s m Hat Hsrc) as [Hc He].
      split; [|exact Hc]. rewrite He, Hdst.
      rewrite enemy_occ_own in En. apply andb_prop in En. destruct En as [En _].
      rewrite En. apply andb_false_r.
Qed.

(** ** 4. promotions *)
Lemma pawn_moves_promo p c s m : s < 64 ->
  (forall e, ep p = Some e -> rank_of e = sixth_rank c) ->
  In m (pawn_moves p c s) -> src m = s /\ is_promo m = (sq_rank s =? seventh_rk c).
Proof.
  intros Hs Hep Hm. apply pawn_moves_in in Hm.
  destruct (push_facts c s Hs) as [_ [Hstep [Hdbl _]]].
  destruct Hm as [[d1 [E1 [O1 Hm]]]|[x [Hx Hm]]].
  - destruct (Hstep d1 E1) as [_ [_ [Hr _]]].
    destruct Hm as [Hm|[HR [d2 [E2 [O2 ->]]]]].
    + apply pawn_to_in in Hm. destruct Hm as [Hsrc [_ Hp]]. split; [exact Hsrc|]. congruence.
    + split; [reflexivity|]. rewrite (Hdbl HR). reflexivity.
  - destruct (caps_facts c s x Hs Hx) as [_ [_ [Hr H6]]].
    destruct Hm as [[En Hm]|[En [Hx' ->]]].
    + apply pawn_to_in in Hm. destruct Hm as [Hsrc [_ Hp]]. split; [exact Hsrc|]. congruence.
    + split; [reflexivity|]. rewrite (H6 (Hep x Hx')). reflexivity.
Qed.

Theorem pseudo_from_promo p s m : s < 64 ->
  (forall e, ep p = Some e -> rank_of e = sixth_rank (turn p)) ->
  In m (pseudo_from p s) ->
  match at_ p (src m) with
  | Some (Pawn,_) => is_promo m = (sq_rank (src m) =? seventh_rk (turn p))
  | _ => promo m = None end.
Proof.
  intros Hs Hep. unfold pseudo_from.
  destruct (at_ p s) as [[t c']|] eqn:Hat; [|intros []].
  destruct (color_eqb (turn p) c'); [|intros []].
  assert (Hmv : forall L, In m (map (mv s) L) -> src m = s /\ promo m = None).
  { intros L H. apply in_map_iff in H. destruct H as [x [<- _]]. split; reflexivity. }
  destruct t.
  - intro Hm. destruct (pawn_moves_promo p (turn p) s m Hs Hep Hm) as [-> Hp]. rewrite Hat. exact Hp.
  - intro Hm. destruct (Hmv _ Hm) as [-> Hp]. rewrite Hat. exact Hp.
  - intro Hm. destruct (Hmv _ Hm) as [-> Hp]. rewrite Hat. exact Hp.
  - intro Hm. destruct (Hmv _ Hm) as [-> Hp]. rewrite Hat. exact Hp.
  - intro Hm. destruct (Hmv _ Hm) as [-> Hp]. rewrite Hat. exact Hp.
  - intro Hm. apply in_app_or in Hm. destruct Hm as [Hm|Hm].
    + destruct (Hmv _ Hm) as [-> Hp]. rewrite Hat. exact Hp.
    + destruct (N.eqb_spec s (home_rank (turn p) * 8 + 4)) as [He|]; [|destruct Hm].
      destruct (castle_moves_shape p (turn p) m Hm) as [_ [-> | ->]];
        cbn [mv src promo]; rewrite <- He, Hat; reflexivity.
Qed.

Theorem pseudo_promo p m :
  (forall e, ep p = Some e -> rank_of e = sixth_rank (turn p)) ->
  In m (pseudo p) ->
  match at_ p (src m) with
  | Some (Pawn,_) => is_promo m = (sq_rank (src m) =? seventh_rk (turn p))
  | _ => promo m = None end.
Proof.
  intros Hep Hm. unfold pseudo in Hm. apply in_flat_map in Hm. destruct Hm as [s [Hs Hm]].
  apply in_all_sq in Hs. exact (pseudo_from_promo p s m Hs Hep Hm).
Qed.

(** ** 5. what [pos_valid] contributes *)
Lemma back_ranks_sweep :
  forallb (fun s => Bool.eqb (mem s [0;1;2;3;4;5;6;7;56;57;58;59;60;61;62;63]) ((s <? 8) || (56 <=? s)))
          all_sq = true.
Proof. vm_cast_no_check (eq_refl true). Qed.

Theorem valid_facts p : pos_valid p = true ->
  (forall s c, s < 64 -> has p s Pawn c = true -> 8 <= s < 56) /\
  (forall e, ep p = Some e -> occ p e = false /\ rank_of e = sixth_rank (turn p)).
Proof.
  unfold pos_valid. intro H.
  apply andb_prop in H. destruct H as [H Hepok].
  do 5 (apply andb_prop in H; destruct H as [H _]).
  apply andb_prop in H. destruct H as [_ Hpawn].
  split.
  - intros s c Hs Hhas.
    destruct (mem s [0;1;2;3;4;5;6;7;56;57;58;59;60;61;62;63]) eqn:Hmem.
    + exfalso. unfold mem in Hmem. apply existsb_exists in Hmem. destruct Hmem as [x [Hx Hex]].
      apply N.eqb_eq in Hex. subst x. rewrite forallb_forall in Hpawn. specialize (Hpawn s Hx).
      rewrite negb_true_iff, orb_false_iff in Hpawn. destruct c; destruct Hpawn; congruence.
    + pose proof (sweep64 _ back_ranks_sweep s Hs) as Hb. cbv beta in Hb. apply beqb_eq in Hb.
      rewrite Hmem in Hb. lia.
  - intros e He. unfold ep_ok in Hepok. rewrite He in Hepok.
    apply andb_prop in Hepok. destruct Hepok as [Hepok Hrest].
    apply andb_prop in Hepok. destruct Hepok as [_ Hrank]. apply N.eqb_eq in Hrank.
    split; [|exact Hrank].
    destruct (step e (0, - fwdc (turn p))%Z); [|discriminate Hrest].
    destruct (step e (0, fwdc (turn p))%Z); [|discriminate Hrest].
    repeat (apply andb_prop in Hrest; destruct Hrest as [Hrest ?]).
    match goal with Hx : negb (occ p e) = true |- _ => rewrite negb_true_iff in Hx; exact Hx end.
Qed.
