(** * Properties.X13 — public API outside the twenty properties, text / ordering part:
    the hand-written [impl Ord for ChessMove] ([cmove_cmp], [Model/Extra.v]) is a total order
    consistent with equality, namely the lexicographic order on (source, destination,
    promotion) with [None] before every piece and the pieces in declaration order — exactly
    what the derived [PartialOrd] computes; [File::from_str] / [Rank::from_str] never panic
    and accept exactly the strings starting with 'a'..'h' / '1'..'8'.
    Proofs: [Proofs/Extra13.v]. *)
From Coq Require Import NArith List.
From Chess Require Import Base.Bits Base.Text Spec.Rules Model.Board Model.MoveGen Model.Fen Model.Extra.
From Chess Require Import Proofs.Extra13.
Import ListNotations.
Open Scope N_scope.

(** ** 1. [Ord for ChessMove] *)
(** the promotion key, pinned *)
Theorem X13_promo_key_def : forall o, promo_key o = match o with None => 0 | Some p => 1 + pidx p end.
Proof. exact (fun o => eq_refl). Qed.
Check X13_promo_key_def : forall o, promo_key o = match o with None => 0 | Some p => 1 + pidx p end.
Print Assumptions X13_promo_key_def.

Theorem X13_cmp_equal_iff_eq : forall a b, cmove_cmp a b = Equal <-> a = b.
Proof. exact cmove_cmp_equal. Qed.
Check X13_cmp_equal_iff_eq : forall a b, cmove_cmp a b = Equal <-> a = b.
Print Assumptions X13_cmp_equal_iff_eq.

Theorem X13_cmp_antisym : forall a b, cmove_cmp a b = Less <-> cmove_cmp b a = Greater.
Proof. exact cmove_cmp_antisym. Qed.
Check X13_cmp_antisym : forall a b, cmove_cmp a b = Less <-> cmove_cmp b a = Greater.
Print Assumptions X13_cmp_antisym.

Theorem X13_cmp_trans : forall a b c, cmove_cmp a b = Less -> cmove_cmp b c = Less -> cmove_cmp a c = Less.
Proof. exact cmove_cmp_trans. Qed.
Check X13_cmp_trans : forall a b c, cmove_cmp a b = Less -> cmove_cmp b c = Less -> cmove_cmp a c = Less.
Print Assumptions X13_cmp_trans.

(** it is the lexicographic order on (source, destination, promotion key) *)
Theorem X13_cmp_lex : forall a b, cmove_cmp a b = Less <->
  msrc a < msrc b \/ (msrc a = msrc b /\ (mdst a < mdst b \/ (mdst a = mdst b /\
    promo_key (mpromo a) < promo_key (mpromo b)))).
Proof. exact cmove_cmp_lex. Qed.
Check X13_cmp_lex : forall a b, cmove_cmp a b = Less <->
  msrc a < msrc b \/ (msrc a = msrc b /\ (mdst a < mdst b \/ (mdst a = mdst b /\
    promo_key (mpromo a) < promo_key (mpromo b)))).
Print Assumptions X13_cmp_lex.

Theorem X13_cmp_greater_lex : forall a b, cmove_cmp a b = Greater <->
  msrc b < msrc a \/ (msrc b = msrc a /\ (mdst b < mdst a \/ (mdst b = mdst a /\
    promo_key (mpromo b) < promo_key (mpromo a)))).
Proof. exact cmove_cmp_greater_lex. Qed.
Check X13_cmp_greater_lex : forall a b, cmove_cmp a b = Greater <->
  msrc b < msrc a \/ (msrc b = msrc a /\ (mdst b < mdst a \/ (mdst b = mdst a /\
    promo_key (mpromo b) < promo_key (mpromo a)))).
Print Assumptions X13_cmp_greater_lex.

(** the derived [PartialOrd] (field by field, first difference decides), pinned, and the agreement *)
Theorem X13_derived_partial_cmp_def : forall a b, derived_partial_cmp a b =
  match n_cmp (msrc a) (msrc b) with
  | Equal => match n_cmp (mdst a) (mdst b) with
             | Equal => Some (promo_cmp (mpromo a) (mpromo b))
             | o => Some o end
  | o => Some o end.
Proof. exact (fun a b => eq_refl). Qed.
Check X13_derived_partial_cmp_def : forall a b, derived_partial_cmp a b =
  match n_cmp (msrc a) (msrc b) with
  | Equal => match n_cmp (mdst a) (mdst b) with
             | Equal => Some (promo_cmp (mpromo a) (mpromo b))
             | o => Some o end
  | o => Some o end.
Print Assumptions X13_derived_partial_cmp_def.

Theorem X13_ord_agrees_with_partial_ord : forall a b, derived_partial_cmp a b = Some (cmove_cmp a b).
Proof. exact ord_agrees_with_partial_ord. Qed.
Check X13_ord_agrees_with_partial_ord : forall a b, derived_partial_cmp a b = Some (cmove_cmp a b).
Print Assumptions X13_ord_agrees_with_partial_ord.

(** ** 2. [File::from_str] / [Rank::from_str] *)
Theorem X13_file_from_str_no_panic : forall s, file_from_str s <> Panic.
Proof. exact file_from_str_no_panic. Qed.
Check X13_file_from_str_no_panic : forall s, file_from_str s <> Panic.
Print Assumptions X13_file_from_str_no_panic.

Theorem X13_rank_from_str_no_panic : forall s, rank_from_str s <> Panic.
Proof. exact rank_from_str_no_panic. Qed.
Check X13_rank_from_str_no_panic : forall s, rank_from_str s <> Panic.
Print Assumptions X13_rank_from_str_no_panic.

Theorem X13_file_from_str_ok : forall s f, file_from_str s = Ok f ->
  f < 8 /\ exists c r, s = c :: r /\ c = 97 + f.
Proof. exact file_from_str_ok. Qed.
Check X13_file_from_str_ok : forall s f, file_from_str s = Ok f ->
  f < 8 /\ exists c r, s = c :: r /\ c = 97 + f.
Print Assumptions X13_file_from_str_ok.

Theorem X13_rank_from_str_ok : forall s f, rank_from_str s = Ok f ->
  f < 8 /\ exists c r, s = c :: r /\ c = 49 + f.
Proof. exact rank_from_str_ok. Qed.
Check X13_rank_from_str_ok : forall s f, rank_from_str s = Ok f ->
  f < 8 /\ exists c r, s = c :: r /\ c = 49 + f.
Print Assumptions X13_rank_from_str_ok.

(** the converse: a first character in range is accepted, whatever follows *)
Theorem X13_file_from_str_complete : forall f r, f < 8 -> file_from_str ((97 + f) :: r) = Ok f.
Proof. exact file_from_str_complete. Qed.
Check X13_file_from_str_complete : forall f r, f < 8 -> file_from_str ((97 + f) :: r) = Ok f.
Print Assumptions X13_file_from_str_complete.

Theorem X13_rank_from_str_complete : forall f r, f < 8 -> rank_from_str ((49 + f) :: r) = Ok f.
Proof. exact rank_from_str_complete. Qed.
Check X13_rank_from_str_complete : forall f r, f < 8 -> rank_from_str ((49 + f) :: r) = Ok f.
Print Assumptions X13_rank_from_str_complete.
