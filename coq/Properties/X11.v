(** * Properties.X11 — the draw-claim rules of the model ([Model/Game.v]: [g_make_move],
    [can_declare_draw], [g_declare_draw], [result]) AND of the specification ([Spec/Draw.v]:
    [clock], [rep_count], [can_claim]) validated side by side on fully scripted histories that
    random testing practically never produces, entirely by evaluation inside Coq.
    Lemmas: [Proofs/DrawScripts.v].

    Vocabulary:
    - squares 0..63 = a1..h8 (index = rank*8 + file); [mvn s d]: the library move s -> d without
      promotion; [cms]: a list of (s,d) pairs as such moves; [sms]: the same moves for the oracle.
    - [game_at b l k]: the [Game] with start board [b] whose log is the first [k] moves of [l];
      [final_game b l]: the one whose log is all of [l].  [play_moves g l]: call [g_make_move] for
      every move of [l]; every call must answer [true].  The sweeps show that [game_at b l k] IS
      what [k] accepted calls produce from [new_with_board b].
    - [final_pos p ms] = [fold_left apply ms p]: the ORACLE's position after the moves [ms];
      [clock], [rep_count], [can_claim]: the specification of the draw-claim rules.
    - [Point b0 p0 l k] (pinned below): at half-move [k] the model's board is the from-scratch board
      of the oracle's position, which is valid; [has_result] says "over" exactly when the oracle's
      [status] is not [Ongoing]; [can_declare_draw = Some (ongoing && can_claim)]; the next move of
      the script is legal for the oracle and accepted by [g_make_move].
    - [script_ok b0 p0 l fm fc fr]: ONE boolean sweep over k = 0 .. length l checking all of the
      above plus the expected values [fm k] (model's answer), [fc k] (clock), [fr k] (rep_count).
    - [keys_g], [clock_g] ([Proofs/GameProtocol.v]): the key list and the counter that
      [can_declare_draw] computes.

    Histories:
    - H1 "fifty-move boundary with mate": [k7/8/1K6/8/8/8/8/7R b - - 0 1]; 24 x (Ka8-b8 Rh1-h2
      Kb8-a8 Rh2-h1), Ka8-b8 Rh1-h2 Kb8-a8 (99 half-moves), then the 100th half-move Rh2-h8 mate.
    - H2: the same with the harmless 100th half-move Rh2-g2.
    - H3 "pure fifty-move": [7k/7p/8/8/8/8/8/R6K w - - 0 1]; the rook walks 50 moves over the
      board (no square more than twice), the black king shuffles h8-g8; H3b: Black's 30th move
      (half-move 60) is the pawn move h7-h6 instead.
    - H4 "repetition far apart": from the start position 2 x 32 half-moves of knight moves
      (Nb1-c3, 7 x (Nc3-e4 Ne4-c3), Nc3-b1 against 8 x (Ng8-f6 Nf6-g8)).
    - H5 "placement repeats, rights differ": [r3k2r/8/8/8/8/8/8/R3K2R w KQkq - 0 1]; four round
      trips of the h-rooks over different squares.

    RESULT: model and specification agree at every half-move of every history (whenever the game
    is still open).  Facts that differ from the task's wording are recorded in the comments
    marked NOTE. *)
From Coq Require Import NArith List Bool String.
From Chess Require Import Base.Bits Base.Text Spec.Geometry Spec.Rules Spec.Text Spec.Draw
  Model.Board Model.MoveGen Model.Fen Model.Game.
From Chess Require Import Proofs.ParseTotal Proofs.GameProtocol Proofs.DrawScripts.
Import ListNotations.
Open Scope N_scope.

(** ** 0. Definitions pinned; the transfer from the one-pass boolean sweep *)
Check eq_refl : game_at = fun b l k => {| start_pos := b; actions := map MakeMove (firstn k l) |}.
Check eq_refl : final_game = fun b l => {| start_pos := b; actions := map MakeMove l |}.
Check eq_refl : mvn = fun s d => {| msrc := s; mdst := d; mpromo := None |}.
Check eq_refl : Point = fun b0 p0 l k =>
  let g := game_at b0 l k in
  let done := firstn k (sms l) in
  let pk := final_pos p0 done in
  play_moves (new_with_board b0) (firstn k l) = Some g /\
  current_position g = Some (from_scratch pk) /\ abs_board (from_scratch pk) = pk /\
  pos_valid pk = true /\
  has_result g = Some (negb (ongoing (status pk))) /\
  can_declare_draw g = Some (ongoing (status pk) && can_claim p0 done) /\
  forall m, nth_error l k = Some m ->
    In (to_spec_move m) (legal_moves pk) /\ g_make_move g m = Some (true, game_at b0 l (S k)).
Check eq_refl : StartOk = fun fen b p =>
  board_from_str fen = Ok b /\ abs_board b = p /\ b = from_scratch p /\ pos_valid p = true.

Theorem X11_script_sound :
  forall b0 p0 l fm fc fr, script_ok b0 p0 l fm fc fr = true ->
  forall k, (k <= length l)%nat ->
  let g := game_at b0 l k in
  let done := firstn k (sms l) in
  let pk := final_pos p0 done in
  (play_moves (new_with_board b0) (firstn k l) = Some g /\
   current_position g = Some (from_scratch pk) /\ abs_board (from_scratch pk) = pk /\
   pos_valid pk = true /\
   has_result g = Some (negb (ongoing (status pk))) /\
   can_declare_draw g = Some (ongoing (status pk) && can_claim p0 done) /\
   forall m, nth_error l k = Some m ->
     In (to_spec_move m) (legal_moves pk) /\ g_make_move g m = Some (true, game_at b0 l (S k))) /\
  (can_declare_draw g = Some (fm k) /\ clock p0 done = fc k /\ rep_count p0 done = fr k).
Proof. exact script_sound. Qed.
Check X11_script_sound :
  forall b0 p0 l fm fc fr, script_ok b0 p0 l fm fc fr = true ->
  forall k, (k <= length l)%nat ->
  let g := game_at b0 l k in
  let done := firstn k (sms l) in
  let pk := final_pos p0 done in
  (play_moves (new_with_board b0) (firstn k l) = Some g /\
   current_position g = Some (from_scratch pk) /\ abs_board (from_scratch pk) = pk /\
   pos_valid pk = true /\
   has_result g = Some (negb (ongoing (status pk))) /\
   can_declare_draw g = Some (ongoing (status pk) && can_claim p0 done) /\
   forall m, nth_error l k = Some m ->
     In (to_spec_move m) (legal_moves pk) /\ g_make_move g m = Some (true, game_at b0 l (S k))) /\
  (can_declare_draw g = Some (fm k) /\ clock p0 done = fc k /\ rep_count p0 done = fr k).
Print Assumptions X11_script_sound.

(** once a game has a result every call is refused and leaves it unchanged *)

Theorem X11_over_refuses_all :
  forall g, has_result g = Some true ->
  can_declare_draw g = Some false /\ g_declare_draw g = Some (false, g) /\
  (forall m, g_make_move g m = Some (false, g)) /\
  (forall c, g_offer_draw g c = Some (false, g)) /\ g_accept_draw g = Some (false, g) /\
  (forall c, g_resign g c = Some (false, g)).
Proof. exact over_refuses_all. Qed.
Check X11_over_refuses_all :
  forall g, has_result g = Some true ->
  can_declare_draw g = Some false /\ g_declare_draw g = Some (false, g) /\
  (forall m, g_make_move g m = Some (false, g)) /\
  (forall c, g_offer_draw g c = Some (false, g)) /\ g_accept_draw g = Some (false, g) /\
  (forall c, g_resign g c = Some (false, g)).
Print Assumptions X11_over_refuses_all.

(** ** 1. H1 — fifty-move boundary with mate *)
Check eq_refl : h1_fen = s_of "k7/8/1K6/8/8/8/8/7R b - - 0 1"%string.
Check eq_refl : h1_pre =
  cms (concat (repeat [(56,57);(7,15);(57,56);(15,7)] 24) ++ [(56,57);(7,15);(57,56)]).
Check eq_refl : h1_moves = h1_pre ++ [mvn 15 63].
Check eq_refl : h1_g99 = final_game h1_board h1_pre.
Check eq_refl : h1_g100 = final_game h1_board h1_moves.


(** the start: the FEN parses to [h1_board], which is the from-scratch board of the valid [h1_pos] *)

Theorem X11_H1_start :
  StartOk h1_fen h1_board h1_pos.
Proof. exact h1_start. Qed.
Check X11_H1_start :
  StartOk h1_fen h1_board h1_pos.
Print Assumptions X11_H1_start.

(** the sweep: every move is accepted, boards and positions stay together, model = oracle *)

Theorem X11_H1_sweep :
  forall k, (k <= 100)%nat -> Point h1_board h1_pos h1_moves k.
Proof. exact h1_point. Qed.
Check X11_H1_sweep :
  forall k, (k <= 100)%nat -> Point h1_board h1_pos h1_moves k.
Print Assumptions X11_H1_sweep.

(** the model's answer after [k] accepted half-moves: [Some false] for k < 8, [Some true] for
    8 <= k <= 99 (the start position stands for the third time after 8 half-moves: 0, 4, 8),
    [Some false] after the mating 100th half-move *)

Theorem X11_H1_model_claims :
  forall k, (k <= 100)%nat ->
  can_declare_draw (game_at h1_board h1_moves k) = Some ((8 <=? k) && (k <? 100))%nat.
Proof. exact h1_model_claims. Qed.
Check X11_H1_model_claims :
  forall k, (k <= 100)%nat ->
  can_declare_draw (game_at h1_board h1_moves k) = Some ((8 <=? k) && (k <? 100))%nat.
Print Assumptions X11_H1_model_claims.

Theorem X11_H1_first_claim :
  (forall k, (k < 8)%nat -> can_declare_draw (game_at h1_board h1_moves k) = Some false) /\
  (forall k, (8 <= k <= 99)%nat -> can_declare_draw (game_at h1_board h1_moves k) = Some true) /\
  rep_count h1_pos (firstn 7 (sms h1_moves)) = 2 /\ rep_count h1_pos (firstn 8 (sms h1_moves)) = 3.
Proof. exact h1_first_claim. Qed.
Check X11_H1_first_claim :
  (forall k, (k < 8)%nat -> can_declare_draw (game_at h1_board h1_moves k) = Some false) /\
  (forall k, (8 <= k <= 99)%nat -> can_declare_draw (game_at h1_board h1_moves k) = Some true) /\
  rep_count h1_pos (firstn 7 (sms h1_moves)) = 2 /\ rep_count h1_pos (firstn 8 (sms h1_moves)) = 3.
Print Assumptions X11_H1_first_claim.

(** the oracle at the same points *)

Theorem X11_H1_oracle_values :
  forall k, (k <= 100)%nat ->
  clock h1_pos (firstn k (sms h1_moves)) = N.of_nat k /\
  rep_count h1_pos (firstn k (sms h1_moves)) = (if (k <? 100)%nat then N.of_nat (k / 4 + 1) else 1) /\
  can_claim h1_pos (firstn k (sms h1_moves)) = (8 <=? k)%nat.
Proof. exact h1_oracle_values. Qed.
Check X11_H1_oracle_values :
  forall k, (k <= 100)%nat ->
  clock h1_pos (firstn k (sms h1_moves)) = N.of_nat k /\
  rep_count h1_pos (firstn k (sms h1_moves)) = (if (k <? 100)%nat then N.of_nat (k / 4 + 1) else 1) /\
  can_claim h1_pos (firstn k (sms h1_moves)) = (8 <=? k)%nat.
Print Assumptions X11_H1_oracle_values.

(** agreement at every half-move of the open game *)

Theorem X11_H1_agree :
  forall k, (k <= 99)%nat ->
  can_declare_draw (game_at h1_board h1_moves k) = Some (can_claim h1_pos (firstn k (sms h1_moves))).
Proof. exact h1_agree. Qed.
Check X11_H1_agree :
  forall k, (k <= 99)%nat ->
  can_declare_draw (game_at h1_board h1_moves k) = Some (can_claim h1_pos (firstn k (sms h1_moves))).
Print Assumptions X11_H1_agree.

(** the boundary.  After 99: open, claimable (by repetition: 25th occurrence; clock 99).  After
    the 100th half-move Rh2-h8: checkmate for the library and for the oracle; the oracle's clock
    is 100 and [can_claim] is [true] (it does not look at the status) whereas the library
    answers [Some false] because the game is over — NOTE: the only point of all histories where
    [can_declare_draw] and [Some can_claim] differ; [Point] carries the factor [ongoing]. *)

Theorem X11_H1_boundary :
  play_moves (new_with_board h1_board) h1_pre = Some h1_g99 /\
  g_make_move h1_g99 (mvn 15 63) = Some (true, h1_g100) /\
  play_moves (new_with_board h1_board) h1_moves = Some h1_g100 /\
  (can_declare_draw h1_g99 = Some true /\ result h1_g99 = Some None /\
   clock h1_pos (sms h1_pre) = 99 /\ rep_count h1_pos (sms h1_pre) = 25 /\
   can_claim h1_pos (sms h1_pre) = true) /\
  (result h1_g100 = Some (Some WhiteCheckmates) /\
   board_status (match current_position h1_g100 with Some b => b | None => h1_board end) = Checkmate /\
   status (final_pos h1_pos (sms h1_moves)) = Checkmate /\
   clock h1_pos (sms h1_moves) = 100 /\ rep_count h1_pos (sms h1_moves) = 1 /\
   can_claim h1_pos (sms h1_moves) = true).
Proof. exact h1_boundary_eval. Qed.
Check X11_H1_boundary :
  play_moves (new_with_board h1_board) h1_pre = Some h1_g99 /\
  g_make_move h1_g99 (mvn 15 63) = Some (true, h1_g100) /\
  play_moves (new_with_board h1_board) h1_moves = Some h1_g100 /\
  (can_declare_draw h1_g99 = Some true /\ result h1_g99 = Some None /\
   clock h1_pos (sms h1_pre) = 99 /\ rep_count h1_pos (sms h1_pre) = 25 /\
   can_claim h1_pos (sms h1_pre) = true) /\
  (result h1_g100 = Some (Some WhiteCheckmates) /\
   board_status (match current_position h1_g100 with Some b => b | None => h1_board end) = Checkmate /\
   status (final_pos h1_pos (sms h1_moves)) = Checkmate /\
   clock h1_pos (sms h1_moves) = 100 /\ rep_count h1_pos (sms h1_moves) = 1 /\
   can_claim h1_pos (sms h1_moves) = true).
Print Assumptions X11_H1_boundary.

Theorem X11_H1_mate_refuses :
  can_declare_draw h1_g100 = Some false /\ g_declare_draw h1_g100 = Some (false, h1_g100) /\
  (forall m, g_make_move h1_g100 m = Some (false, h1_g100)) /\
  (forall c, g_offer_draw h1_g100 c = Some (false, h1_g100)) /\
  g_accept_draw h1_g100 = Some (false, h1_g100) /\
  (forall c, g_resign h1_g100 c = Some (false, h1_g100)).
Proof. exact h1_mate_refuses. Qed.
Check X11_H1_mate_refuses :
  can_declare_draw h1_g100 = Some false /\ g_declare_draw h1_g100 = Some (false, h1_g100) /\
  (forall m, g_make_move h1_g100 m = Some (false, h1_g100)) /\
  (forall c, g_offer_draw h1_g100 c = Some (false, h1_g100)) /\
  g_accept_draw h1_g100 = Some (false, h1_g100) /\
  (forall c, g_resign h1_g100 c = Some (false, h1_g100)).
Print Assumptions X11_H1_mate_refuses.

(** ** 2. H2 — the same with the harmless 100th half-move Rh2-g2 *)
Check eq_refl : h2_moves = h1_pre ++ [mvn 15 14].
Check eq_refl : h2_g100 = final_game h1_board h2_moves.
Check eq_refl : h2_declared = push_action h2_g100 DeclareDraw.


Theorem X11_H2_sweep :
  forall k, (k <= 100)%nat -> Point h1_board h1_pos h2_moves k.
Proof. exact h2_point. Qed.
Check X11_H2_sweep :
  forall k, (k <= 100)%nat -> Point h1_board h1_pos h2_moves k.
Print Assumptions X11_H2_sweep.

Theorem X11_H2_model_claims :
  forall k, (k <= 100)%nat ->
  can_declare_draw (game_at h1_board h2_moves k) = Some (8 <=? k)%nat.
Proof. exact h2_model_claims. Qed.
Check X11_H2_model_claims :
  forall k, (k <= 100)%nat ->
  can_declare_draw (game_at h1_board h2_moves k) = Some (8 <=? k)%nat.
Print Assumptions X11_H2_model_claims.

Theorem X11_H2_oracle_values :
  forall k, (k <= 100)%nat ->
  clock h1_pos (firstn k (sms h2_moves)) = N.of_nat k /\
  rep_count h1_pos (firstn k (sms h2_moves)) = (if (k <? 100)%nat then N.of_nat (k / 4 + 1) else 1).
Proof. exact h2_oracle_values. Qed.
Check X11_H2_oracle_values :
  forall k, (k <= 100)%nat ->
  clock h1_pos (firstn k (sms h2_moves)) = N.of_nat k /\
  rep_count h1_pos (firstn k (sms h2_moves)) = (if (k <? 100)%nat then N.of_nat (k / 4 + 1) else 1).
Print Assumptions X11_H2_oracle_values.

Theorem X11_H2_open :
  forall k, (k <= 100)%nat -> has_result (game_at h1_board h2_moves k) = Some false.
Proof. exact h2_open. Qed.
Check X11_H2_open :
  forall k, (k <= 100)%nat -> has_result (game_at h1_board h2_moves k) = Some false.
Print Assumptions X11_H2_open.

Theorem X11_H2_agree :
  forall k, (k <= 100)%nat ->
  can_declare_draw (game_at h1_board h2_moves k) = Some (can_claim h1_pos (firstn k (sms h2_moves))).
Proof. exact h2_agree. Qed.
Check X11_H2_agree :
  forall k, (k <= 100)%nat ->
  can_declare_draw (game_at h1_board h2_moves k) = Some (can_claim h1_pos (firstn k (sms h2_moves))).
Print Assumptions X11_H2_agree.

(** after the 100th half-move: a new position (first occurrence), clock 100: claimable by the
    fifty-move rule alone, for both *)

Theorem X11_H2_final :
  play_moves (new_with_board h1_board) h2_moves = Some h2_g100 /\
  g_make_move h1_g99 (mvn 15 14) = Some (true, h2_g100) /\
  result h2_g100 = Some None /\ can_declare_draw h2_g100 = Some true /\
  status (final_pos h1_pos (sms h2_moves)) = Ongoing /\
  clock h1_pos (sms h2_moves) = 100 /\ rep_count h1_pos (sms h2_moves) = 1 /\
  can_claim h1_pos (sms h2_moves) = true /\
  result h2_declared = Some (Some DrawDeclared).
Proof. exact h2_final_eval. Qed.
Check X11_H2_final :
  play_moves (new_with_board h1_board) h2_moves = Some h2_g100 /\
  g_make_move h1_g99 (mvn 15 14) = Some (true, h2_g100) /\
  result h2_g100 = Some None /\ can_declare_draw h2_g100 = Some true /\
  status (final_pos h1_pos (sms h2_moves)) = Ongoing /\
  clock h1_pos (sms h2_moves) = 100 /\ rep_count h1_pos (sms h2_moves) = 1 /\
  can_claim h1_pos (sms h2_moves) = true /\
  result h2_declared = Some (Some DrawDeclared).
Print Assumptions X11_H2_final.

(** the claim succeeds, appends [DeclareDraw], the result is the declared draw; a second claim,
    any move, offer, acceptance or resignation afterwards is refused *)

Theorem X11_H2_declare :
  g_declare_draw h2_g100 = Some (true, h2_declared) /\
  actions h2_declared = map MakeMove h2_moves ++ [DeclareDraw] /\
  result h2_declared = Some (Some DrawDeclared) /\
  can_declare_draw h2_declared = Some false /\
  g_declare_draw h2_declared = Some (false, h2_declared) /\
  (forall m, g_make_move h2_declared m = Some (false, h2_declared)) /\
  (forall c, g_offer_draw h2_declared c = Some (false, h2_declared)) /\
  g_accept_draw h2_declared = Some (false, h2_declared) /\
  (forall c, g_resign h2_declared c = Some (false, h2_declared)).
Proof. exact h2_declare. Qed.
Check X11_H2_declare :
  g_declare_draw h2_g100 = Some (true, h2_declared) /\
  actions h2_declared = map MakeMove h2_moves ++ [DeclareDraw] /\
  result h2_declared = Some (Some DrawDeclared) /\
  can_declare_draw h2_declared = Some false /\
  g_declare_draw h2_declared = Some (false, h2_declared) /\
  (forall m, g_make_move h2_declared m = Some (false, h2_declared)) /\
  (forall c, g_offer_draw h2_declared c = Some (false, h2_declared)) /\
  g_accept_draw h2_declared = Some (false, h2_declared) /\
  (forall c, g_resign h2_declared c = Some (false, h2_declared)).
Print Assumptions X11_H2_declare.

(** ** 3. H3 — pure fifty-move rule, no position three times *)
Check eq_refl : h3_fen = s_of "7k/7p/8/8/8/8/8/R6K w - - 0 1"%string.
Check eq_refl : h3_route =
  [0;1;2;3;4;5; 13;12;11;10;9;8; 16;17;18;19;20;21; 29;28;27;26;25;24; 32;33;34;35;36;37;
   45;44;43;42;41;40; 48;49;50;51;52;53; 45;37;29;21;13;5; 4;3;2].
Check eq_refl : h3_moves = cms (interleave (pairs h3_route) (concat (repeat [(63,62);(62,63)] 25))).
Check eq_refl : h3b_moves = cms (interleave (pairs h3_route)
  (concat (repeat [(63,62);(62,63)] 14) ++ [(63,62);(55,47)] ++ concat (repeat [(62,63);(63,62)] 10))).
Check eq_refl : h3_g100 = final_game h3_board h3_moves.
Check eq_refl : h3_declared = push_action h3_g100 DeclareDraw.


Theorem X11_H3_start :
  StartOk h3_fen h3_board h3_pos.
Proof. exact h3_start. Qed.
Check X11_H3_start :
  StartOk h3_fen h3_board h3_pos.
Print Assumptions X11_H3_start.

Theorem X11_H3_sweep :
  forall k, (k <= 100)%nat -> Point h3_board h3_pos h3_moves k.
Proof. exact h3_point. Qed.
Check X11_H3_sweep :
  forall k, (k <= 100)%nat -> Point h3_board h3_pos h3_moves k.
Print Assumptions X11_H3_sweep.

(** model, clock, repetition count (1 up to half-move 82, 2 from 83 on: the rook's second
    visits), oracle's claim, at every half-move *)

Theorem X11_H3_values :
  forall k, (k <= 100)%nat ->
  can_declare_draw (game_at h3_board h3_moves k) = Some (100 <=? k)%nat /\
  clock h3_pos (firstn k (sms h3_moves)) = N.of_nat k /\
  rep_count h3_pos (firstn k (sms h3_moves)) = (if (k <? 83)%nat then 1 else 2) /\
  can_claim h3_pos (firstn k (sms h3_moves)) = (100 <=? k)%nat.
Proof. exact h3_values. Qed.
Check X11_H3_values :
  forall k, (k <= 100)%nat ->
  can_declare_draw (game_at h3_board h3_moves k) = Some (100 <=? k)%nat /\
  clock h3_pos (firstn k (sms h3_moves)) = N.of_nat k /\
  rep_count h3_pos (firstn k (sms h3_moves)) = (if (k <? 83)%nat then 1 else 2) /\
  can_claim h3_pos (firstn k (sms h3_moves)) = (100 <=? k)%nat.
Print Assumptions X11_H3_values.

Theorem X11_H3_no_threefold :
  forall k, (k <= 100)%nat -> rep_count h3_pos (firstn k (sms h3_moves)) <= 2.
Proof. exact h3_no_threefold. Qed.
Check X11_H3_no_threefold :
  forall k, (k <= 100)%nat -> rep_count h3_pos (firstn k (sms h3_moves)) <= 2.
Print Assumptions X11_H3_no_threefold.

Theorem X11_H3_boundary :
  can_declare_draw (game_at h3_board h3_moves 99) = Some false /\
  can_claim h3_pos (firstn 99 (sms h3_moves)) = false /\
  can_declare_draw (game_at h3_board h3_moves 100) = Some true /\
  can_claim h3_pos (firstn 100 (sms h3_moves)) = true.
Proof. exact h3_boundary. Qed.
Check X11_H3_boundary :
  can_declare_draw (game_at h3_board h3_moves 99) = Some false /\
  can_claim h3_pos (firstn 99 (sms h3_moves)) = false /\
  can_declare_draw (game_at h3_board h3_moves 100) = Some true /\
  can_claim h3_pos (firstn 100 (sms h3_moves)) = true.
Print Assumptions X11_H3_boundary.

Theorem X11_H3_final :
  play_moves (new_with_board h3_board) h3_moves = Some h3_g100 /\
  can_declare_draw h3_g100 = Some true /\
  clock h3_pos (sms h3_moves) = 100 /\ rep_count h3_pos (sms h3_moves) = 2 /\
  can_claim h3_pos (sms h3_moves) = true /\
  clock_g h3_g100 = 100 /\ length (keys_g h3_g100) = 101%nat /\
  result h3_declared = Some (Some DrawDeclared).
Proof. exact h3_final_eval. Qed.
Check X11_H3_final :
  play_moves (new_with_board h3_board) h3_moves = Some h3_g100 /\
  can_declare_draw h3_g100 = Some true /\
  clock h3_pos (sms h3_moves) = 100 /\ rep_count h3_pos (sms h3_moves) = 2 /\
  can_claim h3_pos (sms h3_moves) = true /\
  clock_g h3_g100 = 100 /\ length (keys_g h3_g100) = 101%nat /\
  result h3_declared = Some (Some DrawDeclared).
Print Assumptions X11_H3_final.

Theorem X11_H3_declare :
  g_declare_draw h3_g100 = Some (true, h3_declared) /\
  result h3_declared = Some (Some DrawDeclared).
Proof. exact h3_declare. Qed.
Check X11_H3_declare :
  g_declare_draw h3_g100 = Some (true, h3_declared) /\
  result h3_declared = Some (Some DrawDeclared).
Print Assumptions X11_H3_declare.

(** H3b: the pawn move h7-h6 as 60th half-move restarts the count *)

Theorem X11_H3b_sweep :
  forall k, (k <= 100)%nat -> Point h3_board h3_pos h3b_moves k.
Proof. exact h3b_point. Qed.
Check X11_H3b_sweep :
  forall k, (k <= 100)%nat -> Point h3_board h3_pos h3b_moves k.
Print Assumptions X11_H3b_sweep.

Theorem X11_H3b_values :
  forall k, (k <= 100)%nat ->
  can_declare_draw (game_at h3_board h3b_moves k) = Some false /\
  clock h3_pos (firstn k (sms h3b_moves)) = (if (k <? 60)%nat then N.of_nat k else N.of_nat (k - 60)) /\
  rep_count h3_pos (firstn k (sms h3b_moves)) = (if (k =? 84)%nat then 2 else 1) /\
  can_claim h3_pos (firstn k (sms h3b_moves)) = false.
Proof. exact h3b_values. Qed.
Check X11_H3b_values :
  forall k, (k <= 100)%nat ->
  can_declare_draw (game_at h3_board h3b_moves k) = Some false /\
  clock h3_pos (firstn k (sms h3b_moves)) = (if (k <? 60)%nat then N.of_nat k else N.of_nat (k - 60)) /\
  rep_count h3_pos (firstn k (sms h3b_moves)) = (if (k =? 84)%nat then 2 else 1) /\
  can_claim h3_pos (firstn k (sms h3b_moves)) = false.
Print Assumptions X11_H3b_values.

Theorem X11_H3b_reset :
  nth_error h3b_moves 59 = Some (mvn 55 47) /\
  zeroing (final_pos h3_pos (firstn 59 (sms h3b_moves))) (mv 55 47) = true /\
  at_ (final_pos h3_pos (firstn 59 (sms h3b_moves))) 55 = Some (Pawn, Black) /\
  clock_g (game_at h3_board h3b_moves 59) = 59 /\ clock_g (game_at h3_board h3b_moves 60) = 0 /\
  clock_g (game_at h3_board h3b_moves 100) = 40 /\
  length (keys_g (game_at h3_board h3b_moves 59)) = 60%nat /\
  length (keys_g (game_at h3_board h3b_moves 60)) = 1%nat /\
  length (keys_g (game_at h3_board h3b_moves 100)) = 41%nat.
Proof. exact h3b_reset_eval. Qed.
Check X11_H3b_reset :
  nth_error h3b_moves 59 = Some (mvn 55 47) /\
  zeroing (final_pos h3_pos (firstn 59 (sms h3b_moves))) (mv 55 47) = true /\
  at_ (final_pos h3_pos (firstn 59 (sms h3b_moves))) 55 = Some (Pawn, Black) /\
  clock_g (game_at h3_board h3b_moves 59) = 59 /\ clock_g (game_at h3_board h3b_moves 60) = 0 /\
  clock_g (game_at h3_board h3b_moves 100) = 40 /\
  length (keys_g (game_at h3_board h3b_moves 59)) = 60%nat /\
  length (keys_g (game_at h3_board h3b_moves 60)) = 1%nat /\
  length (keys_g (game_at h3_board h3b_moves 100)) = 41%nat.
Print Assumptions X11_H3b_reset.

Theorem X11_H3b_final :
  can_declare_draw (game_at h3_board h3b_moves 100) = Some false /\
  g_declare_draw (game_at h3_board h3b_moves 100) = Some (false, game_at h3_board h3b_moves 100) /\
  clock h3_pos (firstn 100 (sms h3b_moves)) = 40 /\
  can_claim h3_pos (firstn 100 (sms h3b_moves)) = false.
Proof. exact h3b_final. Qed.
Check X11_H3b_final :
  can_declare_draw (game_at h3_board h3b_moves 100) = Some false /\
  g_declare_draw (game_at h3_board h3b_moves 100) = Some (false, game_at h3_board h3b_moves 100) /\
  clock h3_pos (firstn 100 (sms h3b_moves)) = 40 /\
  can_claim h3_pos (firstn 100 (sms h3b_moves)) = false.
Print Assumptions X11_H3b_final.

(** the games named [h1_g99], [h1_g100], [h2_g100], [h3_g100] are the games of the sweeps *)

Theorem X11_final_games :
  game_at h1_board h1_moves 99 = h1_g99 /\ game_at h1_board h1_moves 100 = h1_g100 /\
  game_at h1_board h2_moves 99 = h1_g99 /\ game_at h1_board h2_moves 100 = h2_g100 /\
  game_at h3_board h3_moves 100 = h3_g100 /\
  firstn 99 (sms h1_moves) = sms h1_pre /\ firstn 100 (sms h1_moves) = sms h1_moves /\
  firstn 100 (sms h2_moves) = sms h2_moves /\ firstn 100 (sms h3_moves) = sms h3_moves.
Proof. exact final_games. Qed.
Check X11_final_games :
  game_at h1_board h1_moves 99 = h1_g99 /\ game_at h1_board h1_moves 100 = h1_g100 /\
  game_at h1_board h2_moves 99 = h1_g99 /\ game_at h1_board h2_moves 100 = h2_g100 /\
  game_at h3_board h3_moves 100 = h3_g100 /\
  firstn 99 (sms h1_moves) = sms h1_pre /\ firstn 100 (sms h1_moves) = sms h1_moves /\
  firstn 100 (sms h2_moves) = sms h2_moves /\ firstn 100 (sms h3_moves) = sms h3_moves.
Print Assumptions X11_final_games.

(** ** 4. H4 — repetition with occurrences far apart *)
Check eq_refl : h4_moves =
  cms (interleave ([(1,18)] ++ concat (repeat [(18,28);(28,18)] 7) ++ [(18,1)])
                  (concat (repeat [(62,45);(45,62)] 8)) ++
       interleave ([(1,18)] ++ concat (repeat [(18,28);(28,18)] 7) ++ [(18,1)])
                  (concat (repeat [(62,45);(45,62)] 8))).
Check eq_refl : h4_reps =
  [1;1;1;1;1;2;2;2;2;3;3;3;3;4;4;4;4;5;5;5;5;6;6;6;6;7;7;7;7;8;8;1;2;
   9;9;8;8;10;10;9;9;11;11;10;10;12;12;11;11;13;13;12;12;14;14;13;13;15;15;14;14;16;16;2;3].


Theorem X11_H4_start :
  h4_board = from_scratch startpos /\ abs_board h4_board = startpos /\
  pos_valid startpos = true.
Proof. exact h4_start. Qed.
Check X11_H4_start :
  h4_board = from_scratch startpos /\ abs_board h4_board = startpos /\
  pos_valid startpos = true.
Print Assumptions X11_H4_start.

Theorem X11_H4_sweep :
  forall k, (k <= 64)%nat -> Point h4_board startpos h4_moves k.
Proof. exact h4_point. Qed.
Check X11_H4_sweep :
  forall k, (k <= 64)%nat -> Point h4_board startpos h4_moves k.
Print Assumptions X11_H4_sweep.

(** the model allows a claim exactly at the half-moves 9..30, 33..62 and 64 (first at 9: the
    position Nc3 / Ng8, Black to move, of half-moves 1, 5, 9); refused at 31 (first occurrence),
    32 (start position for the second time) and 63 (second occurrence) *)

Theorem X11_H4_model_claims :
  forall k, (k <= 64)%nat ->
  can_declare_draw (game_at h4_board h4_moves k) =
  Some ((9 <=? k) && (k <=? 30) || (33 <=? k) && (k <=? 62) || (k =? 64))%nat.
Proof. exact h4_model_claims. Qed.
Check X11_H4_model_claims :
  forall k, (k <= 64)%nat ->
  can_declare_draw (game_at h4_board h4_moves k) =
  Some ((9 <=? k) && (k <=? 30) || (33 <=? k) && (k <=? 62) || (k =? 64))%nat.
Print Assumptions X11_H4_model_claims.

Theorem X11_H4_oracle_values :
  forall k, (k <= 64)%nat ->
  clock startpos (firstn k (sms h4_moves)) = N.of_nat k /\
  rep_count startpos (firstn k (sms h4_moves)) = nth k h4_reps 0.
Proof. exact h4_oracle_values. Qed.
Check X11_H4_oracle_values :
  forall k, (k <= 64)%nat ->
  clock startpos (firstn k (sms h4_moves)) = N.of_nat k /\
  rep_count startpos (firstn k (sms h4_moves)) = nth k h4_reps 0.
Print Assumptions X11_H4_oracle_values.

Theorem X11_H4_oracle_claims :
  forall k, (k <= 64)%nat ->
  can_claim startpos (firstn k (sms h4_moves)) =
  ((9 <=? k) && (k <=? 30) || (33 <=? k) && (k <=? 62) || (k =? 64))%nat.
Proof. exact h4_oracle_claims. Qed.
Check X11_H4_oracle_claims :
  forall k, (k <= 64)%nat ->
  can_claim startpos (firstn k (sms h4_moves)) =
  ((9 <=? k) && (k <=? 30) || (33 <=? k) && (k <=? 62) || (k =? 64))%nat.
Print Assumptions X11_H4_oracle_claims.

Theorem X11_H4_open :
  forall k, (k <= 64)%nat -> has_result (game_at h4_board h4_moves k) = Some false.
Proof. exact h4_open. Qed.
Check X11_H4_open :
  forall k, (k <= 64)%nat -> has_result (game_at h4_board h4_moves k) = Some false.
Print Assumptions X11_H4_open.

Theorem X11_H4_agree :
  forall k, (k <= 64)%nat ->
  can_declare_draw (game_at h4_board h4_moves k) = Some (can_claim startpos (firstn k (sms h4_moves))).
Proof. exact h4_agree. Qed.
Check X11_H4_agree :
  forall k, (k <= 64)%nat ->
  can_declare_draw (game_at h4_board h4_moves k) = Some (can_claim startpos (firstn k (sms h4_moves))).
Print Assumptions X11_H4_agree.

(** the start position stands on the board exactly after 0, 32 and 64 half-moves *)

Theorem X11_H4_start_occurs :
  forall k, (k <= 64)%nat ->
  (final_pos startpos (firstn k (sms h4_moves)) = startpos <-> In k [0;32;64]%nat) /\
  (current_position (game_at h4_board h4_moves k) = Some h4_board <-> In k [0;32;64]%nat).
Proof. exact h4_start_occurs. Qed.
Check X11_H4_start_occurs :
  forall k, (k <= 64)%nat ->
  (final_pos startpos (firstn k (sms h4_moves)) = startpos <-> In k [0;32;64]%nat) /\
  (current_position (game_at h4_board h4_moves k) = Some h4_board <-> In k [0;32;64]%nat).
Print Assumptions X11_H4_start_occurs.

Theorem X11_H4_points :
  (forall k, (k < 9)%nat -> can_declare_draw (game_at h4_board h4_moves k) = Some false) /\
  can_declare_draw (game_at h4_board h4_moves 9) = Some true /\
  rep_count startpos (firstn 9 (sms h4_moves)) = 3 /\
  can_declare_draw (game_at h4_board h4_moves 32) = Some false /\
  rep_count startpos (firstn 32 (sms h4_moves)) = 2 /\
  can_declare_draw (game_at h4_board h4_moves 63) = Some false /\
  can_claim startpos (firstn 63 (sms h4_moves)) = false /\
  rep_count startpos (firstn 63 (sms h4_moves)) = 2 /\ clock startpos (firstn 63 (sms h4_moves)) = 63 /\
  can_declare_draw (game_at h4_board h4_moves 64) = Some true /\
  can_claim startpos (firstn 64 (sms h4_moves)) = true /\
  rep_count startpos (firstn 64 (sms h4_moves)) = 3 /\ clock startpos (firstn 64 (sms h4_moves)) = 64.
Proof. exact h4_points. Qed.
Check X11_H4_points :
  (forall k, (k < 9)%nat -> can_declare_draw (game_at h4_board h4_moves k) = Some false) /\
  can_declare_draw (game_at h4_board h4_moves 9) = Some true /\
  rep_count startpos (firstn 9 (sms h4_moves)) = 3 /\
  can_declare_draw (game_at h4_board h4_moves 32) = Some false /\
  rep_count startpos (firstn 32 (sms h4_moves)) = 2 /\
  can_declare_draw (game_at h4_board h4_moves 63) = Some false /\
  can_claim startpos (firstn 63 (sms h4_moves)) = false /\
  rep_count startpos (firstn 63 (sms h4_moves)) = 2 /\ clock startpos (firstn 63 (sms h4_moves)) = 63 /\
  can_declare_draw (game_at h4_board h4_moves 64) = Some true /\
  can_claim startpos (firstn 64 (sms h4_moves)) = true /\
  rep_count startpos (firstn 64 (sms h4_moves)) = 3 /\ clock startpos (firstn 64 (sms h4_moves)) = 64.
Print Assumptions X11_H4_points.

(** ** 5. H5 — the placement repeats but the rights differ *)
Check eq_refl : h5_fen = s_of "r3k2r/8/8/8/8/8/8/R3K2R w KQkq - 0 1"%string.
Check eq_refl : h5_moves =
  cms [(7,6);(63,62);(6,7);(62,63); (7,5);(63,61);(5,7);(61,63);
       (7,15);(63,55);(15,7);(55,63); (7,23);(63,47);(23,7);(47,63)].
Check eq_refl : h5_at = fun k => firstn k (sms h5_moves).
Check eq_refl : same_placement = fun a b =>
  placement_eqb (placement a) (placement b) && color_eqb (turn a) (turn b).
Check eq_refl : placement_count = fun p ms =>
  N.of_nat (length (filter (same_placement (final_pos p ms)) (positions p ms))).
Check eq_refl : rights = fun p => (wk p, wq p, bk p, bq p).
Check eq_refl : h5_same_placement = fun k =>
  same_placement (final_pos h5_pos (firstn k (sms h5_moves))) h5_pos.
Check eq_refl : h5_same_position = fun k =>
  pos_eqb (final_pos h5_pos (firstn k (sms h5_moves))) (final_pos h5_pos (firstn 4 (sms h5_moves))).


Theorem X11_H5_start :
  StartOk h5_fen h5_board h5_pos.
Proof. exact h5_start. Qed.
Check X11_H5_start :
  StartOk h5_fen h5_board h5_pos.
Print Assumptions X11_H5_start.

Theorem X11_H5_sweep :
  forall k, (k <= 16)%nat -> Point h5_board h5_pos h5_moves k.
Proof. exact h5_point. Qed.
Check X11_H5_sweep :
  forall k, (k <= 16)%nat -> Point h5_board h5_pos h5_moves k.
Print Assumptions X11_H5_sweep.

(** the model allows a claim exactly after 12 and after 16 half-moves *)

Theorem X11_H5_values :
  forall k, (k <= 16)%nat ->
  can_declare_draw (game_at h5_board h5_moves k) = Some ((k =? 12) || (k =? 16))%nat /\
  clock h5_pos (firstn k (sms h5_moves)) = N.of_nat k /\
  rep_count h5_pos (firstn k (sms h5_moves)) = nth k [1;1;1;1;1;1;1;1;2;1;1;1;3;1;1;1;4] 0.
Proof. exact h5_values. Qed.
Check X11_H5_values :
  forall k, (k <= 16)%nat ->
  can_declare_draw (game_at h5_board h5_moves k) = Some ((k =? 12) || (k =? 16))%nat /\
  clock h5_pos (firstn k (sms h5_moves)) = N.of_nat k /\
  rep_count h5_pos (firstn k (sms h5_moves)) = nth k [1;1;1;1;1;1;1;1;2;1;1;1;3;1;1;1;4] 0.
Print Assumptions X11_H5_values.

Theorem X11_H5_open :
  forall k, (k <= 16)%nat -> has_result (game_at h5_board h5_moves k) = Some false.
Proof. exact h5_open. Qed.
Check X11_H5_open :
  forall k, (k <= 16)%nat -> has_result (game_at h5_board h5_moves k) = Some false.
Print Assumptions X11_H5_open.

Theorem X11_H5_agree :
  forall k, (k <= 16)%nat ->
  can_declare_draw (game_at h5_board h5_moves k) = Some (can_claim h5_pos (firstn k (sms h5_moves))).
Proof. exact h5_agree. Qed.
Check X11_H5_agree :
  forall k, (k <= 16)%nat ->
  can_declare_draw (game_at h5_board h5_moves k) = Some (can_claim h5_pos (firstn k (sms h5_moves))).
Print Assumptions X11_H5_agree.

Theorem X11_H5_occurrences :
  filter h5_same_placement (seq 0 17) = [0;4;8;12;16]%nat /\
  filter h5_same_position (seq 0 17) = [4;8;12;16]%nat.
Proof. exact h5_occurrences. Qed.
Check X11_H5_occurrences :
  filter h5_same_placement (seq 0 17) = [0;4;8;12;16]%nat /\
  filter h5_same_position (seq 0 17) = [4;8;12;16]%nat.
Print Assumptions X11_H5_occurrences.

Theorem X11_H5_rights :
  rights h5_pos = (true, true, true, true) /\
  rights (final_pos h5_pos (h5_at 1)) = (false, true, true, true) /\
  rights (final_pos h5_pos (h5_at 2)) = (false, true, false, true) /\
  rights (final_pos h5_pos (h5_at 4)) = (false, true, false, true) /\
  rights (final_pos h5_pos (h5_at 8)) = (false, true, false, true) /\
  rights (final_pos h5_pos (h5_at 12)) = (false, true, false, true).
Proof. exact h5_rights. Qed.
Check X11_H5_rights :
  rights h5_pos = (true, true, true, true) /\
  rights (final_pos h5_pos (h5_at 1)) = (false, true, true, true) /\
  rights (final_pos h5_pos (h5_at 2)) = (false, true, false, true) /\
  rights (final_pos h5_pos (h5_at 4)) = (false, true, false, true) /\
  rights (final_pos h5_pos (h5_at 8)) = (false, true, false, true) /\
  rights (final_pos h5_pos (h5_at 12)) = (false, true, false, true).
Print Assumptions X11_H5_rights.

Theorem X11_H5_third_occurrence :
  (placement_count h5_pos (h5_at 8) = 3 /\ rep_count h5_pos (h5_at 8) = 2 /\
   can_claim h5_pos (h5_at 8) = false /\ can_declare_draw (game_at h5_board h5_moves 8) = Some false /\
   g_declare_draw (game_at h5_board h5_moves 8) = Some (false, game_at h5_board h5_moves 8)) /\
  (placement_count h5_pos (h5_at 12) = 4 /\ rep_count h5_pos (h5_at 12) = 3 /\
   can_claim h5_pos (h5_at 12) = true /\ can_declare_draw (game_at h5_board h5_moves 12) = Some true /\
   g_declare_draw (game_at h5_board h5_moves 12) =
     Some (true, push_action (game_at h5_board h5_moves 12) DeclareDraw)).
Proof. exact h5_third_occurrence. Qed.
Check X11_H5_third_occurrence :
  (placement_count h5_pos (h5_at 8) = 3 /\ rep_count h5_pos (h5_at 8) = 2 /\
   can_claim h5_pos (h5_at 8) = false /\ can_declare_draw (game_at h5_board h5_moves 8) = Some false /\
   g_declare_draw (game_at h5_board h5_moves 8) = Some (false, game_at h5_board h5_moves 8)) /\
  (placement_count h5_pos (h5_at 12) = 4 /\ rep_count h5_pos (h5_at 12) = 3 /\
   can_claim h5_pos (h5_at 12) = true /\ can_declare_draw (game_at h5_board h5_moves 12) = Some true /\
   g_declare_draw (game_at h5_board h5_moves 12) =
     Some (true, push_action (game_at h5_board h5_moves 12) DeclareDraw)).
Print Assumptions X11_H5_third_occurrence.

Theorem X11_H5_model_scan :
  map (fun k => length (keys_g (game_at h5_board h5_moves k))) [0;1;2;3;4;8;12]%nat =
    [1;1;1;2;3;7;11]%nat /\
  map (fun k => clock_g (game_at h5_board h5_moves k)) [0;1;2;3;4;8;12]%nat = [0;1;2;3;4;8;12].
Proof. exact h5_model_scan. Qed.
Check X11_H5_model_scan :
  map (fun k => length (keys_g (game_at h5_board h5_moves k))) [0;1;2;3;4;8;12]%nat =
    [1;1;1;2;3;7;11]%nat /\
  map (fun k => clock_g (game_at h5_board h5_moves k)) [0;1;2;3;4;8;12]%nat = [0;1;2;3;4;8;12].
Print Assumptions X11_H5_model_scan.
