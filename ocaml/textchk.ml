(* text streams: FEN (C06), builder / fuzz (C07), SAN (C12), UCI (C13) *)
open Model
open Common

let hex_of_str (s:n list) = hex_of_string (string_of_str s)
let outcome_board_str (r:board outcome) : string =
  match r with Ok b -> Printf.sprintf "OK %s~%s" (enc_of_board b) (obs_of_board b) | Err -> "ERR" | Panic -> "PANIC"
let builder_enc (bb:builder) : string =
  let pl = String.init 64 (fun i -> char_of_pc (List.nth bb.bpieces i)) in
  Printf.sprintf "%s %s %d %d %s" pl (match bb.bstm with White -> "w" | Black -> "b") (int_of_n bb.bcrW) (int_of_n bb.bcrB)
    (match bb.bep with None -> "-" | Some f -> string_of_int (int_of_n f))
let strip_safe (s:string) : string * string =
  (* "OK enc~obs safe=1" -> ("OK enc~obs", "1") *)
  match String.rindex_opt s ' ' with
  | Some i when String.length s > i + 5 && String.sub s (i+1) 5 = "safe=" -> (String.sub s 0 i, String.sub s (i+6) (String.length s - i - 6))
  | _ -> (s, "")
let field n s = (* n-th space separated field of a FEN text *)
  try List.nth (String.split_on_char ' ' s) n with _ -> ""

(* ---- FEN, stage 2: append the standard writer's text ---- *)
let fengen (line:string) : unit =
  match split_bar line with
  | f0 :: f1 :: _ when String.length f0 > 2 && String.sub f0 0 2 = "F " ->
    let enc = String.sub f0 2 (String.length f0 - 2) in
    let p = pos_of_enc enc in
    let dp = (match get "dp" (kv f1) with "-" | "" -> None | x -> Some (n_of_int (int_of_string x))) in
    Printf.printf "%s || STD %s\n" line (hex_of_str (std_fen p dp))
  | _ -> ()

(* the F line carries "... | parse4 || STD hex | parse(std)"; handle the "||" marker here *)
let check_fen_line (line:string) : unit =
  let marker = " || STD " in
  let idx = (let rec find i = if i + String.length marker > String.length line then -1 else if String.sub line i (String.length marker) = marker then i else find (i+1) in find 0) in
  if idx < 0 then mismatch "fen_line" "no STD marker" else begin
    let left = String.sub line 0 idx in
    let right = String.sub line (idx + String.length marker) (String.length line - idx - String.length marker) in
    match split_bar left, split_bar right with
    | [f0; f1; f2; f3; f4; f5], [stdhex; stdparse] ->
      let enc = String.sub f0 2 (String.length f0 - 2) in
      bump "fen_positions";
      let b = from_builder_raw (builder_of_enc enc) in
      let p = abs_board b in
      let valid = pos_valid p in
      let disp = bytes_of_hex (String.trim f2) in
      let dp = (match get "dp" (kv f1) with "-" | "" -> None | x -> Some (int_of_string x)) in
      let mdisp = string_of_str (board_display b) in
      if mdisp <> disp then mismatch "fen_display_model" (Printf.sprintf "%s impl=%s model=%s" enc disp mdisp);
      let self = Printf.sprintf "OK %s~%s" (enc_of_board b) (obs_of_board b) in
      let mparse = outcome_board_str (board_from_str (str_of_codes (codes_of_utf8 disp))) in
      if mparse <> String.trim f3 then mismatch "fen_parse_model" (Printf.sprintf "%s parse(%s) impl=%s model=%s" enc disp (String.trim f3) mparse);
      if String.trim f3 <> self then mismatch "oracle_fen_roundtrip" (Printf.sprintf "%s parse(display)=%s" enc (String.trim f3));
      if String.trim f5 <> self then mismatch "oracle_fen_4field" (Printf.sprintf "%s parse(4-field display)=%s" enc (String.trim f5));
      let o4 = kv f4 in
      if get "brt" o4 <> "1" then mismatch "oracle_builder_roundtrip" (enc ^ " builder display/parse round trip");
      if get "same" o4 <> "1" then mismatch "oracle_builder_same" (enc ^ " Display for Board differs from Display for its builder");
      if not (fen_wellformed (str_of_codes (codes_of_utf8 disp))) then mismatch "oracle_fen_wellformed" (Printf.sprintf "%s display=%s" enc disp);
      let std = bytes_of_hex (String.trim stdhex) in
      if valid then begin
        bump "fen_valid_positions";
        (* placement, side and castling fields are those of the independent standard writer *)
        List.iter (fun i -> if field i disp <> field i std then mismatch "oracle_fen_fields" (Printf.sprintf "%s field %d: display=%s standard=%s" enc i disp std)) [0;1;2];
        (* en-passant field: '-' or the square passed over; present whenever a legal ep capture exists;
           '-' unless the last move was a double push *)
        let epf = field 3 disp in
        (* the position the rules prescribe: after a double push beside an enemy pawn the en-passant
           state exists even if the library did not record it *)
        let p_true = (match dp with
            | Some t when p.ep = None -> let p2 = { p with ep = Some (n_of_int t) } in if pos_valid p2 then p2 else p
            | _ -> p) in
        let has_ep_capture = List.exists (fun m -> is_ep p_true m) (legal_moves p_true) in
        (match dp with
         | None -> if epf <> "-" then mismatch "oracle_fen_ep" (Printf.sprintf "%s ep field %s although the last move was not a double push" enc epf)
         | Some t ->
           let name = Printf.sprintf "%c%c" (Char.chr (97 + t land 7)) (Char.chr (49 + t lsr 3)) in
           if epf <> "-" && epf <> name then mismatch "oracle_fen_ep" (Printf.sprintf "%s ep field %s, the square passed over is %s" enc epf name);
           if has_ep_capture && epf <> name then mismatch "oracle_fen_ep" (Printf.sprintf "%s a legal en-passant capture exists but the field is %s (expected %s)" enc epf name));
        if epf <> "-" then bump "fen_with_ep_field";
        if has_ep_capture then bump "fen_with_ep_capture";
        (* the standard writer's FEN parses to this same position *)
        if String.trim stdparse <> self then mismatch "oracle_fen_std_parse" (Printf.sprintf "%s parse(%s)=%s" enc std (String.trim stdparse));
        let mstd = outcome_board_str (board_from_str (str_of_codes (codes_of_utf8 std))) in
        if mstd <> String.trim stdparse then mismatch "fen_parse_model" (Printf.sprintf "%s parse(std %s) impl=%s model=%s" enc std (String.trim stdparse) mstd);
        if note_distinct enc then begin
          if epf <> "-" || (p.wk || p.wq || p.bk || p.bq) && not (p.wk && p.wq && p.bk && p.bq) then bump "distinct_nontrivial";
          sample "fen" (Printf.sprintf "%s => %s" enc disp)
        end
      end
    | _ -> mismatch "fen_line" ("unparsable F line: " ^ (if String.length line > 200 then String.sub line 0 200 else line))
  end

(* ---- accept_sound: what an accepted board must satisfy (C07) ---- *)
let accept_sound (b:board) : string option =
  let p = abs_board b in
  if int_of_n (kings p White) <> 1 || int_of_n (kings p Black) <> 1 then Some "kings"
  else if in_check p (opp0 p.turn) then Some "side not to move is in check"
  else if (p.wk && not (has p (n_of_int 4) King White && has p (n_of_int 7) Rook White))
       || (p.wq && not (has p (n_of_int 4) King White && has p (n_of_int 0) Rook White))
       || (p.bk && not (has p (n_of_int 60) King Black && has p (n_of_int 63) Rook Black))
       || (p.bq && not (has p (n_of_int 60) King Black && has p (n_of_int 56) Rook Black)) then Some "castling right not backed"
  else match b.epsq with
    | None -> None
    | Some e ->
      let e = int_of_n e in
      let pusher = opp0 p.turn in
      let want_rank = (match pusher with White -> 3 | Black -> 4) in
      if e lsr 3 <> want_rank || not (has p (n_of_int e) Pawn pusher) then Some "en-passant square without an enemy pawn on its double-push rank" else None

let check_builder_line (line:string) : unit =
  match split_bar line with
  | [f0; f1; f2; f3] ->
    let e = String.sub f0 2 (String.length f0 - 2) in
    bump "builders";
    let bb = builder_of_enc e in
    let disp = bytes_of_hex (String.trim f1) in
    let mdisp = string_of_str (builder_display bb) in
    if mdisp <> disp then mismatch "builder_display_model" (Printf.sprintf "%s impl=%s model=%s" e disp mdisp);
    (* round trip of the unvalidated builder *)
    let want = "OK " ^ builder_enc bb in
    if String.trim f2 <> want then mismatch "oracle_builder_roundtrip" (Printf.sprintf "%s display=%s reparse=%s" e disp (String.trim f2));
    (match builder_from_str (str_of_codes (codes_of_utf8 disp)) with
     | Ok bb2 -> if "OK " ^ builder_enc bb2 <> String.trim f2 then mismatch "builder_parse_model" (Printf.sprintf "%s impl=%s model=OK %s" e (String.trim f2) (builder_enc bb2))
     | Err -> if String.trim f2 <> "ERR" then mismatch "builder_parse_model" (e ^ " model=ERR")
     | Panic -> mismatch "model_panic" (e ^ " builder_from_str panics in the model"));
    let (res, safe) = strip_safe (String.trim f3) in
    if res = "PANIC" then mismatch "oracle_panic" (e ^ " try_from panicked");
    (* accept_sound judged on what the IMPLEMENTATION accepted (its own board, re-read from the
       neutral encoding), whatever the model says *)
    if String.length res > 3 && String.sub res 0 3 = "OK " then begin
      match String.split_on_char '~' (String.sub res 3 (String.length res - 3)) with
      | enc_impl :: _ ->
        let bi = from_builder_raw (builder_of_enc enc_impl) in
        (match accept_sound bi with Some why -> mismatch "oracle_accept_sound" (Printf.sprintf "%s accepted by the library but: %s" e why) | None -> ());
        if movelist_overflow bi then mismatch "oracle_unsafe" (e ^ " accepted board has more move-list entries than the list holds")
      | _ -> ()
    end;
    (match try_from_builder bb with
     | Some b ->
       bump "builders_accepted";
       let mine = Printf.sprintf "OK %s~%s" (enc_of_board b) (obs_of_board b) in
       if mine <> res then mismatch "tryfrom_model" (Printf.sprintf "%s impl=%s model=%s" e res mine);
       if movelist_overflow b then mismatch "model_overflow" (e ^ " accepted board overflows the move list in the model");
       (match accept_sound b with Some why -> mismatch "oracle_accept_sound" (Printf.sprintf "%s accepted but: %s" e why) | None -> ());
       if safe <> "1" && res <> "ERR" then mismatch "oracle_unsafe" (e ^ " accepted board panicked in movegen/status/display/make_move");
       if note_distinct e then begin bump "distinct_nontrivial"; sample "accepted_builder" e end
     | None ->
       if res <> "ERR" then mismatch "tryfrom_model" (Printf.sprintf "%s impl=%s model=ERR" e res));
    (* accept_complete: a valid chess position is accepted *)
    if List.length bb.bpieces = 64 then begin
      let p = { placement = bb.bpieces; turn = bb.bstm; wk = N.testbit bb.bcrW N0; wq = N.testbit bb.bcrW (n_of_int 1);
                bk = N.testbit bb.bcrB N0; bq = N.testbit bb.bcrB (n_of_int 1);
                ep = (match bb.bep with None -> None | Some f -> Some (n_of_int ((match bb.bstm with White -> 40 | Black -> 16) + int_of_n f))) } in
      if pos_valid p then begin
        bump "builders_posvalid";
        if res = "ERR" then mismatch "oracle_accept_complete" (e ^ " is a valid position but was rejected")
      end
    end
  | _ -> mismatch "builder_line" "unparsable B line"

let check_fuzz_line (line:string) : unit =
  match split_bar line with
  | [f0; f1; f2] ->
    let h = String.sub f0 2 (String.length f0 - 2) in
    bump "fuzz_texts";
    let txt = str_of_hex (String.trim h) in
    let (res, safe) = strip_safe (String.trim f2) in
    if String.trim f1 = "PANIC" || res = "PANIC" then mismatch "oracle_panic" (Printf.sprintf "text %s makes the parser panic" h);
    (match builder_from_str txt with
     | Ok bb -> if "OK " ^ builder_enc bb <> String.trim f1 then mismatch "builder_parse_model" (Printf.sprintf "text %s impl=%s model=OK %s" h (String.trim f1) (builder_enc bb))
     | Err -> if String.trim f1 <> "ERR" then mismatch "builder_parse_model" (Printf.sprintf "text %s impl=%s model=ERR" h (String.trim f1))
     | Panic -> mismatch "model_panic" (Printf.sprintf "text %s: builder_from_str panics in the model" h));
    (match board_from_str txt with
     | Ok b ->
       bump "fuzz_accepted";
       let mine = Printf.sprintf "OK %s~%s" (enc_of_board b) (obs_of_board b) in
       if mine <> res then mismatch "fen_parse_model" (Printf.sprintf "text %s impl=%s model=%s" h res mine);
       (match accept_sound b with Some why -> mismatch "oracle_accept_sound" (Printf.sprintf "text %s accepted but: %s" h why) | None -> ());
       if movelist_overflow b then mismatch "model_overflow" (h ^ " accepted board overflows the move list in the model");
       if safe <> "1" then mismatch "oracle_unsafe" (h ^ " accepted board panicked later");
       if note_distinct h then bump "distinct_nontrivial"
     | Err -> if res <> "ERR" then mismatch "fen_parse_model" (Printf.sprintf "text %s impl=%s model=ERR" h res)
     | Panic -> mismatch "model_panic" (Printf.sprintf "text %s: board_from_str panics in the model" h));
    if Hashtbl.length distinct < 50 then sample "fuzz" (string_of_str txt)
  | _ -> mismatch "fuzz_line" "unparsable Z line"

(* ---- SAN ---- *)
let sq_name_s i = Printf.sprintf "%c%c" (Char.chr (97 + i land 7)) (Char.chr (49 + i lsr 3))
let letter_of = function Pawn -> "" | Knight -> "N" | Bishop -> "B" | Rook -> "R" | Queen -> "Q" | King -> "K"
(* deterministic test texts for a position: (text, expectation) with expectation
   `Some (Some m)` = must parse to m, `Some None` = must be rejected, `None` = model only *)
let san_cases (p:pos) : (string * (int*int*int) option option) list =
  let lm = legal_moves p in
  let pos_cases = List.concat_map (fun m -> List.map (fun s -> (string_of_str s, Some (Some (triple_of_move m)))) (san_spellings p m)) lm in
  (* negatives derived from each move *)
  let neg = List.concat_map (fun m ->
      let t = (match List.nth p.placement (int_of_n m.src) with Some (t,_) -> t | None -> Pawn) in
      let cap = is_capture_move p m in
      let d = sq_name_s (int_of_n m.dst) in
      let pr = (match m.promo with Some x -> letter_of x | None -> "") in
      if is_castle p m then [] else
      let base_wrong_x = (* capture flag inverted *)
        if t = Pawn then (if cap then [ (* pawn capture written as a push *) d ^ pr ] else [ (Printf.sprintf "%cx%s%s" (Char.chr (97 + (int_of_n m.src) land 7)) d pr) ])
        else [ letter_of t ^ (if cap then "" else "x") ^ d ^ pr ] in
      (* these denote no legal move unless some other legal move happens to be spelled so *)
      List.map (fun s -> (s, Some None)) base_wrong_x
      @ (* under-disambiguated: piece letter + destination when two such pieces can go there *)
      (if t <> Pawn && List.length (List.filter (fun x -> x.dst = m.dst && (match List.nth p.placement (int_of_n x.src) with Some (t',_) -> t' = t | None -> false)) lm) >= 2
       then [ (letter_of t ^ (if cap then "x" else "") ^ d, Some None) ] else [])
      @ (* wrong promotion piece / missing promotion *)
      (if m.promo <> None && t = Pawn && not cap then [ (d, Some None); (d ^ "K", None) ] else [])) lm in
  (* rank digits just outside 1..8 in the destination: "Raa0", "Qxh9" denote no square *)
  let neg = neg @ List.concat_map (fun m ->
      let d = int_of_n m.dst in
      let r = d lsr 3 in
      if r <> 7 && r <> 0 then [] else
      let bad = Printf.sprintf "%c%c" (Char.chr (97 + d land 7)) (if r = 7 then '0' else '9') in
      List.filter_map (fun s ->
          let t = string_of_str s in
          let good = sq_name_s d in
          (* replace the last occurrence of the destination square *)
          let rec find i = if i < 0 then None else if i + 2 <= String.length t && String.sub t i 2 = good then Some i else find (i-1) in
          match find (String.length t - 2) with
          | Some i when String.length t > 2 -> Some (String.sub t 0 i ^ bad ^ String.sub t (i+2) (String.length t - i - 2), Some None)
          | _ -> None) (san_spellings p m)) lm in
  (* castling texts: rejected unless that castling move is legal (then they are spellings) *)
  let spelled = List.map fst pos_cases in
  (* (the library does not check that a + / # marker is truthful: DESIGN section 8) *)
  let neg = neg @ List.concat_map (fun (base, variants) -> if List.mem base spelled then [] else List.map (fun s -> (s, Some None)) variants)
      [("O-O", ["O-O"; "O-O+"]); ("O-O-O", ["O-O-O"; "O-O-O#"])] in
  (* trailing text after a complete move text, in particular after a capture marker on a quiet move
     (the " e.p." suffix test) and with multi-byte characters at every small byte offset: no
     expectation of its own (model against implementation, and the parser must not panic) *)
  let junk = [" e.p."; " e.p\xc3\xa9"; " e.\xe2\x82\xac"; " e\xf0\x9f\x98\x80"; " \xc3\xa9.p."; "\xc3\xa9"; "+ e.p\xc3\xa9"; " e.p.\xc3\xa9"; "\xe2\x82\xac e.p."] in
  let tail_cases = List.concat (List.mapi (fun i (s, _) ->
      if i mod 5 <> 0 then [] else List.map (fun j -> (s ^ j, None)) junk) (List.filter (fun (_, e) -> e = Some None) neg @ List.filteri (fun i _ -> i mod 9 = 0) pos_cases)) in
  (* a negative text that is an admissible spelling of some legal move is not a negative *)
  pos_cases @ List.filter (fun (s, _) -> not (List.mem s spelled)) neg @ tail_cases

let sangen (line:string) : unit =
  if String.length line > 2 && String.sub line 0 2 = "P " then begin
    let pl = Poschk.parse_pline line in
    let p = pos_of_enc pl.Poschk.enc in
    if pos_valid p then begin
      let cases = san_cases p in
      if cases <> [] then
        Printf.printf "S %s | %s\n" pl.Poschk.enc (String.concat " " (List.map (fun (s,_) -> hex_of_string s) cases))
    end
  end

let check_san_line ~(generated:bool) (line:string) : unit =
  match split_bar line with
  | [f0; f1] ->
    let e = String.sub f0 2 (String.length f0 - 2) in
    let b = from_builder_raw (builder_of_enc e) in
    let p = abs_board b in
    bump "san_positions";
    let legal = List.map triple_of_move (if pos_valid p then legal_moves p else List.map (fun (m:cmove) -> { src = m.msrc; dst = m.mdst; promo = m.mpromo }) (moves_of b)) in
    let toks = tokens f1 in
    let cases = if generated then san_cases p else [] in
    if generated && List.length cases <> List.length toks then mismatch "san_pipeline" (e ^ " case list and result list differ in length");
    List.iteri (fun i tok ->
        match String.index_opt tok '=' with
        | None -> if tok = "REJECTED" then mismatch "san_pipeline" (e ^ " position rejected by the library")
        | Some k ->
          let h = String.sub tok 0 k and res = String.sub tok (k+1) (String.length tok - k - 1) in
          bump "san_texts";
          let txt = str_of_hex h in
          let mres = (match from_san b txt with Ok m -> let (a,b,c) = triple_of_cmove m in Printf.sprintf "%d/%d/%d" a b c | Err -> "ERR" | Panic -> "PANIC") in
          if mres <> res then mismatch "san_model" (Printf.sprintf "%s text '%s' impl=%s model=%s" e (string_of_str txt) res mres);
          if res = "PANIC" then mismatch "oracle_san_panic" (Printf.sprintf "%s text '%s' panics" e (string_of_str txt))
          else if res <> "ERR" && res <> "BADUTF8" then begin
            let t = Iterchk.triple_of_slash res in
            if not (List.mem t legal) then mismatch "oracle_san_illegal" (Printf.sprintf "%s text '%s' -> %s which is not legal" e (string_of_str txt) res)
          end;
          if generated && i < List.length cases then begin
            match snd (List.nth cases i) with
            | Some (Some m) ->
              bump "san_spellings";
              if res <> (let (a,b,c) = m in Printf.sprintf "%d/%d/%d" a b c) then
                mismatch "oracle_san_roundtrip" (Printf.sprintf "%s spelling '%s' of %s parsed as %s" e (string_of_str txt) (mvs_of_triple m) res)
            | Some None ->
              bump "san_negatives";
              if res <> "ERR" then mismatch "oracle_san_reject" (Printf.sprintf "%s text '%s' fits no / several legal moves but parsed as %s" e (string_of_str txt) res)
            | None -> ()
          end) toks;
    if generated && note_distinct e then begin bump "distinct_nontrivial"; if List.length cases > 0 then sample "san" (Printf.sprintf "%s : %s" e (String.concat " " (List.map fst (List.filteri (fun i _ -> i < 12) cases)))) end
  | _ -> mismatch "san_line" "unparsable S line"

(* ---- UCI ---- *)
let mres_move (r:cmove outcome) = match r with
  | Ok m -> let (a,b,c) = triple_of_cmove m in Printf.sprintf "%d/%d/%d" a b c | Err -> "ERR" | Panic -> "PANIC"
let check_uci_line (line:string) : unit =
  match split_bar line with
  | [f0; f1; f2] when line.[0] = 'U' ->
    let t = Iterchk.triple_of_slash (String.trim (String.sub f0 2 (String.length f0 - 2))) in
    let m = cmove_of_triple t in
    bump "uci_moves";
    let txt = bytes_of_hex (String.trim f1) in
    let mtxt = string_of_str (move_display m) in
    if mtxt <> txt then mismatch "uci_display_model" (Printf.sprintf "%s impl=%s model=%s" (mvs_of_triple t) txt mtxt);
    let want = (let (a,b,c) = t in Printf.sprintf "%d/%d/%d" a b c) in
    if String.trim f2 <> want then mismatch "oracle_uci_roundtrip" (Printf.sprintf "%s renders as %s which parses as %s" (mvs_of_triple t) txt (String.trim f2));
    if mres_move (move_from_str (str_of_codes (codes_of_utf8 txt))) <> String.trim f2 then mismatch "uci_parse_model" txt;
    (* shape: source square, destination square, optional lower-case promotion letter *)
    let (a,d,c) = t in
    let shape = sq_name_s a ^ sq_name_s d ^ (match c with 1 -> "q" | 2 -> "n" | 3 -> "r" | 4 -> "b" | _ -> "") in
    if shape <> txt then mismatch "oracle_uci_shape" (Printf.sprintf "%s renders as %s" (mvs_of_triple t) txt);
    bump "distinct_nontrivial"
  | [f0; f1; f2] when line.[0] = 'Q' ->
    let s = int_of_string (String.trim (String.sub f0 2 (String.length f0 - 2))) in
    bump "uci_squares";
    let txt = bytes_of_hex (String.trim f1) in
    if string_of_str (square_display (n_of_int s)) <> txt then mismatch "uci_display_model" txt;
    if String.trim f2 <> string_of_int s then mismatch "oracle_uci_roundtrip" (Printf.sprintf "square %d renders as %s which parses as %s" s txt (String.trim f2));
    if sq_name_s s <> txt then mismatch "oracle_uci_shape" txt
  | [f0; f1; f2] when line.[0] = 'V' ->
    let h = String.trim (String.sub f0 2 (String.length f0 - 2)) in
    bump "uci_strings";
    let raw = bytes_of_hex h in
    let txt = str_of_hex h in
    let is_prefix p s = String.length p <= String.length s && String.sub s 0 (String.length p) = p in
    let impl_m = String.trim f1 and impl_q = String.trim f2 in
    if impl_m = "PANIC" || impl_q = "PANIC" then mismatch "oracle_uci_panic" (Printf.sprintf "text '%s' panics" raw);
    (match String.split_on_char '~' impl_m with
     | [mv; rh] -> if not (is_prefix (bytes_of_hex rh) raw) then mismatch "oracle_uci_prefix" (Printf.sprintf "text '%s' parsed as %s whose rendering '%s' is not a prefix" raw mv (bytes_of_hex rh));
       if mres_move (move_from_str txt) <> mv then mismatch "uci_parse_model" (Printf.sprintf "'%s' impl=%s model=%s" raw mv (mres_move (move_from_str txt)));
       if note_distinct h then bump "distinct_nontrivial"
     | _ -> if mres_move (move_from_str txt) <> impl_m then mismatch "uci_parse_model" (Printf.sprintf "'%s' impl=%s model=%s" raw impl_m (mres_move (move_from_str txt))));
    let msq = (match square_from_str txt with Ok s -> string_of_int (int_of_n s) | Err -> "ERR" | Panic -> "PANIC") in
    (match String.split_on_char '~' impl_q with
     | [q; rh] -> if not (is_prefix (bytes_of_hex rh) raw) then mismatch "oracle_uci_prefix" (Printf.sprintf "text '%s' parsed as square %s whose rendering is not a prefix" raw q);
       if msq <> q then mismatch "uci_parse_model" (Printf.sprintf "square '%s' impl=%s model=%s" raw q msq)
     | _ -> if msq <> impl_q then mismatch "uci_parse_model" (Printf.sprintf "square '%s' impl=%s model=%s" raw impl_q msq));
    if Hashtbl.length distinct < 40 then sample "uci_text" raw
  | _ -> mismatch "uci_line" "unparsable line"
