// "game" stream (C10, C11): action sequences on Game with every query after every step.
use crate::common::*;
use chess::*;
use std::io::Write;
use std::str::FromStr;

pub fn res_code(r: Option<GameResult>) -> &'static str {
    match r { None => "N", Some(GameResult::WhiteCheckmates) => "WC", Some(GameResult::WhiteResigns) => "WR", Some(GameResult::BlackCheckmates) => "BC",
        Some(GameResult::BlackResigns) => "BR", Some(GameResult::Stalemate) => "ST", Some(GameResult::DrawAccepted) => "DA", Some(GameResult::DrawDeclared) => "DD" }
}
pub fn state(g: &Game) -> String {
    format!("{},{},{},{}", res_code(g.result()), if g.side_to_move() == Color::White { 'w' } else { 'b' }, g.can_declare_draw() as u8, g.actions().len())
}
const NEAR_TERMINAL: &[&str] = &[
    "6k1/5ppp/8/8/8/8/5PPP/3R2K1 w - - 0 1", "7k/5Q2/6K1/8/8/8/8/8 b - - 0 1", "7k/8/5KQ1/8/8/8/8/8 w - - 0 1",
    "rnb1kbnr/pppp1ppp/8/4p3/6Pq/5P2/PPPPP2P/RNBQKBNR w KQkq - 1 3", "rnbqkbnr/pppp1ppp/8/4p3/6P1/5P2/PPPPP2P/RNBQKBNR b KQkq - 0 2",
    "k7/8/1K6/8/8/8/8/7R w - - 0 1", "k7/2Q5/1K6/8/8/8/8/8 b - - 0 1", "8/8/8/8/8/5k2/5p2/5K2 w - - 0 1",
    "4k3/8/8/8/8/8/8/R3K1N1 w Q - 0 1", "r3k2r/8/8/8/8/8/8/R3K2R w KQkq - 0 1", "4k3/8/8/8/8/8/8/4K2R w K - 0 1",
    "8/P7/8/8/8/8/8/1K5k w - - 0 1", "1k5K/8/8/8/8/8/p7/8 b - - 0 1", "8/1P6/8/8/8/8/8/K1k3N1 w - - 0 1", "8/8/8/8/8/8/6p1/k1K3n1 b - - 0 1",
    "8/8/8/3k4/8/3K4/8/4R2r w - - 0 1", "8/8/4k3/8/8/2N1K3/8/6n1 w - - 0 1", "1n2k3/8/8/8/8/8/8/1N2K3 w - - 0 1",
    // the two sides hold different castling rights while knights shuffle (repetition bookkeeping per colour)
    "rn2k2r/8/8/8/8/8/8/R3K1NR w Kq - 0 1", "r3k1nr/8/8/8/8/8/8/RN2K2R b Qk - 0 1", "rn2k2r/pppppppp/8/8/8/8/PPPPPPPP/R3K1NR w K - 0 1",
    "r3k1nr/pppppppp/8/8/8/8/PPPPPPPP/RN2K2R w kq - 0 1", "1n2k2r/8/8/8/8/8/8/RN2K3 w Qk - 0 1", "rnbqkbnr/pppppppp/8/8/8/8/PPPPPPPP/RNBQKBNR w KQq - 0 1",
];

/// Scripted histories (operation tokens as in the stream: m<src>/<dst>/<promo>, ow ob, a, rw rb, d):
/// * a checkmate / a stalemate delivered by the 100th reversible half-move, then claims;
/// * the start position recurring only at half-moves 0, 32 and 64 (occurrences far apart), claim,
///   then moves / offers after the declared draw;
/// * the same with Black's rights changed in between (no repetition although the placement repeats).
fn scripts() -> Vec<(&'static str, String)> {
    let mut v: Vec<(&'static str, String)> = Vec::new();
    // K+R v K, Black to move: (Kb8 Rh2 Ka8 Rh1) x 24, Kb8 Rh2 Ka8, then Rh8# as the 100th half-move
    let mut s = String::new();
    for _ in 0..24 { s.push_str("m56/57/0 m7/15/0 m57/56/0 m15/7/0 "); }
    s.push_str("m56/57/0 m7/15/0 m57/56/0 ");
    v.push(("k7/8/1K6/8/8/8/8/7R b - - 0 1", format!("{}m15/63/0 d d ow a m56/57/0", s)));
    // the same with a harmless 100th half-move: the claim must succeed
    v.push(("k7/8/1K6/8/8/8/8/7R b - - 0 1", format!("{}m15/14/0 d d", s)));
    // K+Q v K: stalemate by the 100th half-move (Qg6 with Kh8, Kf7): shuffle Qg1-g2, Kh8-g8? keep it simple:
    // king walks a8-b8 while the queen shuffles c1-c2; the 100th half-move Qc7 stalemates Ka8 (Kb6 guards)
    let mut q = String::new();
    for _ in 0..24 { q.push_str("m56/57/0 m2/10/0 m57/56/0 m10/2/0 "); }
    q.push_str("m56/57/0 m2/10/0 m57/56/0 ");
    v.push(("k7/8/1K6/8/8/8/8/2Q5 b - - 0 1", format!("{}m10/50/0 d d", q)));
    // start position: White Nb1-c3, (c3-e4, e4-c3) x 7, c3-b1; Black (g8-f6, f6-g8) x 8; twice
    let mut w: Vec<String> = vec!["m1/18/0".to_string()];
    for _ in 0..7 { w.push("m18/28/0".to_string()); w.push("m28/18/0".to_string()); }
    w.push("m18/1/0".to_string());
    let mut b: Vec<String> = Vec::new();
    for _ in 0..8 { b.push("m62/45/0".to_string()); b.push("m45/62/0".to_string()); }
    let mut round = String::new();
    for i in 0..16 { round.push_str(&w[i]); round.push(' '); round.push_str(&b[i]); round.push(' '); }
    v.push(("rnbqkbnr/pppppppp/8/8/8/8/PPPPPPPP/RNBQKBNR w KQkq - 0 1", format!("{}{}d m12/28/0 ow a d rb", round, round)));
    // the claim refused one half-move earlier (only two occurrences of the position then on the board)
    v.push(("rnbqkbnr/pppppppp/8/8/8/8/PPPPPPPP/RNBQKBNR w KQkq - 0 1", format!("{}d {}d d", round, round)));
    v
}

pub fn run(n: u64, mode: &str) {
    let mut rng = Rng::new(seed_from_env());
    let out = std::io::stdout(); let mut out = std::io::BufWriter::new(out.lock());
    let mut starts: Vec<Board> = NEAR_TERMINAL.iter().filter_map(|f| Board::from_str(f).ok()).collect();
    if mode != "draw" { starts.extend(roots()); }
    // scripted games first (shard 0): histories that random play practically never produces
    if shard() == 0 {
        for (fen, ops) in scripts() {
            if let Ok(b) = Board::from_str(fen) {
                let toks: Vec<&str> = ops.split_whitespace().collect();
                writeln!(out, "{}", crate::replay::game_line(b, &toks)).unwrap();
            }
        }
    }
    for gi in 0..n {
        let gidx = (gi as usize) * nshards() + shard();
        let start = if gidx < starts.len() { starts[gidx] } else { *rng.pick(&starts) };
        let mut g = Game::new_with_board(start);
        let mut line = format!("G {} | s={}", enc(&start), state(&g));
        let steps = if mode == "draw" { 120 + rng.below(140) } else { 10 + rng.below(70) };
        let mut seen: Vec<Board> = vec![start];
        let mut post = 0;
        let force_pawn_at: Option<u64> = if mode == "draw" && rng.chance(1, 2) { Some(40 + rng.below(80)) } else { None };
        for ply in 0..steps {
            if g.result().is_some() { post += 1; if post > 6 { break; } }
            let pos = g.current_position();
            let legal: Vec<ChessMove> = MoveGen::new_legal(&pos).collect();
            let roll = rng.below(100);
            let op: String;
            let ret: bool;
            let protocol_pct = if mode == "draw" { 3 } else { 30 };
            if g.result().is_some() && rng.chance(1, 2) {
                // a finished game: every kind of action must be refused (claims included)
                let c = if rng.chance(1, 2) { Color::White } else { Color::Black };
                match rng.below(4) {
                    0 => { ret = g.declare_draw(); op = "d".to_string(); }
                    1 => { ret = g.offer_draw(c); op = format!("o{}", if c == Color::White { 'w' } else { 'b' }); }
                    2 => { ret = g.accept_draw(); op = "a".to_string(); }
                    _ => { ret = g.resign(c); op = format!("r{}", if c == Color::White { 'w' } else { 'b' }); }
                }
            } else if mode == "draw" && g.result().is_none() && g.can_declare_draw() && rng.chance(1, 8) {
                let c = if rng.chance(1, 2) { Color::White } else { Color::Black };
                ret = g.resign(c); op = format!("r{}", if c == Color::White { 'w' } else { 'b' });
            } else if g.result().is_none() && g.can_declare_draw() && rng.chance(1, 6) {
                // a claim that must succeed
                ret = g.declare_draw(); op = "d".to_string();
            } else if roll >= protocol_pct || g.result().is_some() && roll >= 60 {
                // a move attempt: mostly legal, sometimes illegal / random
                let m = if legal.is_empty() || rng.chance(1, 8) {
                    ChessMove::new(sq(rng.below(64) as usize), sq(rng.below(64) as usize), if rng.chance(1, 6) { code_promo(1 + rng.below(4) as u8) } else { None })
                } else if mode == "draw" && Some(ply) == force_pawn_at && legal.iter().any(|m| pos.piece_on(m.get_source()) == Some(Piece::Pawn) && pos.piece_on(m.get_dest()).is_none()) {
                    // one quiet pawn move / promotion somewhere in the middle of a long quiet stretch
                    let pm: Vec<ChessMove> = legal.iter().cloned().filter(|m| pos.piece_on(m.get_source()) == Some(Piece::Pawn) && pos.piece_on(m.get_dest()).is_none()).collect();
                    *rng.pick(&pm)
                } else if mode == "draw" {
                    // quiet reversible moves, with a taste for returning to earlier positions
                    let quiet: Vec<ChessMove> = legal.iter().cloned().filter(|m| pos.piece_on(m.get_dest()).is_none() && pos.piece_on(m.get_source()) != Some(Piece::Pawn)).collect();
                    let pool = if quiet.is_empty() || (force_pawn_at.is_none() && rng.chance(1, 40)) { legal.clone() } else { quiet };
                    let back: Vec<ChessMove> = pool.iter().cloned().filter(|m| { let nb = pos.make_move_new(*m); seen.iter().any(|s| *s == nb) }).collect();
                    if !back.is_empty() && rng.chance(3, 5) { *rng.pick(&back) } else { *rng.pick(&pool) }
                } else {
                    // finish the game when a mate is on the board, half of the time
                    let mates: Vec<ChessMove> = legal.iter().cloned().filter(|m| pos.make_move_new(*m).status() == BoardStatus::Checkmate).collect();
                    if !mates.is_empty() && rng.chance(1, 2) { *rng.pick(&mates) } else { biased_move(&pos, &mut rng).unwrap_or(legal[0]) }
                };
                ret = g.make_move(m);
                if ret { seen.push(g.current_position()); }
                op = format!("m{}", mv_str(&m).replace(',', "/"));
            } else {
                let c = if rng.chance(1, 2) { Color::White } else { Color::Black };
                match rng.below(if mode == "draw" { 3 } else { 6 }) {
                    0 => { ret = g.declare_draw(); op = "d".to_string(); }
                    1 | 2 => { ret = g.offer_draw(c); op = format!("o{}", if c == Color::White { 'w' } else { 'b' }); }
                    3 | 4 => { ret = g.accept_draw(); op = "a".to_string(); }
                    _ => { ret = g.resign(c); op = format!("r{}", if c == Color::White { 'w' } else { 'b' }); }
                }
            }
            line.push_str(&format!(" {}={},{}", op, ret as u8, state(&g)));
        }
        line.push_str(&format!(" | {}", enc(&g.current_position())));
        writeln!(out, "{}", line).unwrap();
    }
}
