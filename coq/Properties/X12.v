(** * Properties.X12 — the text layers (SAN parser [ChessMove::from_san], FEN writer
    [impl Display for Board], [Board::status], the [Game] protocol) and the specification's SAN
    relation ([Spec.Text.san_spellings]) validated against three publicly known games, entirely by
    evaluation inside Coq: the Opera game (33 plies), the Fool's mate (4) and the Scholar's mate (7).

    Vocabulary ([Proofs/KnownGames.v]):
    - [play_san b texts]: for each SAN text in turn, [from_san] on the current board must answer
      [Ok m]; the move is applied by [make_move_new]; [None] on any failure.
      [san_moves]: the moves the parser returned along the way.
    - [game_play_san g texts]: the same through the [Game] object — each text is parsed on
      [current_position g] and handed to [g_make_move], which must answer [true].
    - [<game>_texts]: the game as written in the books (pinned below by [Check eq_refl]);
      [<game>_moves]: the oracle's moves (pinned by [X12_<game>_moves]); [mvs]: a list of
      (source, destination) pairs as moves without promotion.
    - [final_pos p ms] ([Spec.Draw]) = [fold_left apply ms p]: the ORACLE's position after the
      moves [ms] — the library is not involved in it.
    - [spelled_by p t]: the legal moves of [p] that have [t] among their [san_spellings].

    Per game: (a) the whole game parses and the library prints the expected FEN (counters "0 1");
    (b) library and oracle call the final position checkmate; (c) every intermediate board is the
    from-scratch board of the valid position it shows; (c') its FEN is the standard writer's text;
    (d) the oracle, replaying its own moves with its own [apply], finds at every ply the text
    actually played among its admissible spellings of the move — of that move only — and its FEN
    writer gives the library's text for the final position (last move no double push: [None]);
    (e) the [Game] protocol accepts every move, reports the right result and then refuses
    everything; plus recorded rejections / tolerances of the parser.

    DISCREPANCY recorded: the final placement given in the task statement for the Scholar's mate
    (first rank "RNB1K2R") is not what comes out; the game leaves the knight on g1
    ("RNB1K1NR") — [X12_scholars_fen_not_as_transcribed]. *)
From Coq Require Import NArith List Bool String.
From Chess Require Import Base.Bits Base.Text Spec.Geometry Spec.Rules Spec.Text Spec.Draw
  Model.Board Model.MoveGen Model.Fen Model.San Model.Game.
From Chess Require Import Proofs.ParseTotal Proofs.KnownGames.
Import ListNotations.
Open Scope N_scope.

(** ** 0. the transfer from the one-pass boolean sweep (general, any start board / position) *)
Theorem X12_sweep_sound : forall ts ms b p, sweep b p ts ms = true ->
  forall k, (k <= length ts)%nat ->
  exists bk, play_san b (firstn k ts) = Some bk /\
    let pk := final_pos p (firstn k ms) in
    bk = from_scratch pk /\ abs_board bk = pk /\ pos_valid pk = true /\
    board_display bk = std_fen pk (ep pk) /\
    forall t, nth_error ts k = Some t -> exists m, nth_error ms k = Some m /\
      In m (legal_moves pk) /\ In t (san_spellings pk m) /\ from_san bk t = Ok (of_spec_move m).
Proof. exact sweep_sound. Qed.
Check X12_sweep_sound : forall ts ms b p, sweep b p ts ms = true ->
  forall k, (k <= length ts)%nat ->
  exists bk, play_san b (firstn k ts) = Some bk /\
    let pk := final_pos p (firstn k ms) in
    bk = from_scratch pk /\ abs_board bk = pk /\ pos_valid pk = true /\
    board_display bk = std_fen pk (ep pk) /\
    forall t, nth_error ts k = Some t -> exists m, nth_error ms k = Some m /\
      In m (legal_moves pk) /\ In t (san_spellings pk m) /\ from_san bk t = Ok (of_spec_move m).
Print Assumptions X12_sweep_sound.

(** ** 1. the Opera game (Morphy - Duke of Brunswick and Count Isouard, Paris 1858), 33 plies *)
Check eq_refl : opera_texts = map s_of
  ["e4";"e5";"Nf3";"d6";"d4";"Bg4";"dxe5";"Bxf3";"Qxf3";"dxe5";"Bc4";"Nf6";"Qb3";"Qe7";"Nc3";"c6";
   "Bg5";"b5";"Nxb5";"cxb5";"Bxb5+";"Nbd7";"O-O-O";"Rd8";"Rxd7";"Rxd7";"Rd1";"Qe6";"Bxd7+";"Nxd7";
   "Qb8+";"Nxb8";"Rd8#"]%string.

(** (a), (b): the game parses; the library's FEN; checkmate for the library and for the oracle *)
Theorem X12_opera_fen_status : exists bf, play_san (from_scratch startpos) opera_texts = Some bf /\
  board_display bf = s_of "1n1Rkb1r/p4ppp/4q3/4p1B1/4P3/8/PPP2PPP/2K5 b k - 0 1"%string /\
  board_status bf = Checkmate /\ status (abs_board bf) = Checkmate.
Proof. exact opera_fen_status. Qed.
Check X12_opera_fen_status : exists bf, play_san (from_scratch startpos) opera_texts = Some bf /\
  board_display bf = s_of "1n1Rkb1r/p4ppp/4q3/4p1B1/4P3/8/PPP2PPP/2K5 b k - 0 1"%string /\
  board_status bf = Checkmate /\ status (abs_board bf) = Checkmate.
Print Assumptions X12_opera_fen_status.

(** (c): every intermediate board is canonical and shows a valid position *)
Theorem X12_opera_boards : forall k, (k <= 33)%nat ->
  exists b, play_san (from_scratch startpos) (firstn k opera_texts) = Some b /\
            b = from_scratch (abs_board b) /\ pos_valid (abs_board b) = true.
Proof. exact opera_boards. Qed.
Check X12_opera_boards : forall k, (k <= 33)%nat ->
  exists b, play_san (from_scratch startpos) (firstn k opera_texts) = Some b /\
            b = from_scratch (abs_board b) /\ pos_valid (abs_board b) = true.
Print Assumptions X12_opera_boards.

(** (c'): at every ply the library's FEN is the standard writer's text of the position shown (with
    the en-passant target that position records) *)
Theorem X12_opera_fens : forall k, (k <= 33)%nat ->
  exists b, play_san (from_scratch startpos) (firstn k opera_texts) = Some b /\
            board_display b = std_fen (abs_board b) (ep (abs_board b)).
Proof. exact opera_fens. Qed.
Check X12_opera_fens : forall k, (k <= 33)%nat ->
  exists b, play_san (from_scratch startpos) (firstn k opera_texts) = Some b /\
            board_display b = std_fen (abs_board b) (ep (abs_board b)).
Print Assumptions X12_opera_fens.

(** the oracle's moves, and: they are what the parser returned *)
Theorem X12_opera_moves : opera_moves = mvs
  [(12,28);(52,36);(6,21);(51,43);(11,27);(58,30);(27,36);(30,21);(3,21);(43,36);(5,26);(62,45);
   (21,17);(59,52);(1,18);(50,42);(2,38);(49,33);(18,33);(42,33);(26,33);(57,51);(4,2);(56,59);
   (3,51);(59,51);(7,3);(52,44);(33,51);(45,51);(17,57);(51,57);(3,59)] /\
  san_moves (from_scratch startpos) opera_texts = Some (map of_spec_move opera_moves).
Proof. exact (conj opera_moves_explicit opera_moves_all). Qed.
Check X12_opera_moves : opera_moves = mvs
  [(12,28);(52,36);(6,21);(51,43);(11,27);(58,30);(27,36);(30,21);(3,21);(43,36);(5,26);(62,45);
   (21,17);(59,52);(1,18);(50,42);(2,38);(49,33);(18,33);(42,33);(26,33);(57,51);(4,2);(56,59);
   (3,51);(59,51);(7,3);(52,44);(33,51);(45,51);(17,57);(51,57);(3,59)] /\
  san_moves (from_scratch startpos) opera_texts = Some (map of_spec_move opera_moves).
Print Assumptions X12_opera_moves.

(** the library's walk and the oracle's walk show the same position at every ply *)
Theorem X12_opera_abs : forall k, (k <= 33)%nat ->
  exists b, play_san (from_scratch startpos) (firstn k opera_texts) = Some b /\
            abs_board b = final_pos startpos (firstn k opera_moves).
Proof. exact opera_abs. Qed.
Check X12_opera_abs : forall k, (k <= 33)%nat ->
  exists b, play_san (from_scratch startpos) (firstn k opera_texts) = Some b /\
            abs_board b = final_pos startpos (firstn k opera_moves).
Print Assumptions X12_opera_abs.

(** (d): the specification agrees with the notation of the books, ply by ply *)
Theorem X12_opera_spellings : forall k t, nth_error opera_texts k = Some t ->
  exists m, nth_error opera_moves k = Some m /\
    let pk := final_pos startpos (firstn k opera_moves) in
    pos_valid pk = true /\ In m (legal_moves pk) /\ In t (san_spellings pk m) /\
    (forall m', In m' (legal_moves pk) -> In t (san_spellings pk m') -> m' = m) /\
    from_san (from_scratch pk) t = Ok (of_spec_move m).
Proof. exact opera_spellings. Qed.
Check X12_opera_spellings : forall k t, nth_error opera_texts k = Some t ->
  exists m, nth_error opera_moves k = Some m /\
    let pk := final_pos startpos (firstn k opera_moves) in
    pos_valid pk = true /\ In m (legal_moves pk) /\ In t (san_spellings pk m) /\
    (forall m', In m' (legal_moves pk) -> In t (san_spellings pk m') -> m' = m) /\
    from_san (from_scratch pk) t = Ok (of_spec_move m).
Print Assumptions X12_opera_spellings.

(** (d), second half: the oracle's FEN writer on the oracle's final position gives the library's text
    (all six fields — both writers print "0 1" —, a fortiori the first four) *)
Theorem X12_opera_oracle_fen : exists bf, play_san (from_scratch startpos) opera_texts = Some bf /\
  abs_board bf = final_pos startpos opera_moves /\
  pos_valid (final_pos startpos opera_moves) = true /\
  status (final_pos startpos opera_moves) = Checkmate /\
  std_fen (final_pos startpos opera_moves) None = s_of "1n1Rkb1r/p4ppp/4q3/4p1B1/4P3/8/PPP2PPP/2K5 b k - 0 1"%string /\
  std_fen (final_pos startpos opera_moves) None = board_display bf.
Proof. exact opera_std_fen. Qed.
Check X12_opera_oracle_fen : exists bf, play_san (from_scratch startpos) opera_texts = Some bf /\
  abs_board bf = final_pos startpos opera_moves /\
  pos_valid (final_pos startpos opera_moves) = true /\
  status (final_pos startpos opera_moves) = Checkmate /\
  std_fen (final_pos startpos opera_moves) None = s_of "1n1Rkb1r/p4ppp/4q3/4p1B1/4P3/8/PPP2PPP/2K5 b k - 0 1"%string /\
  std_fen (final_pos startpos opera_moves) None = board_display bf.
Print Assumptions X12_opera_oracle_fen.

(** (e): the [Game] protocol accepts every move, logs them, ends on the same board, reports the
    result and then refuses every further move *)
Theorem X12_opera_game : exists gm, game_play_san (new_with_board (from_scratch startpos)) opera_texts = Some gm /\
  actions gm = map MakeMove (map of_spec_move opera_moves) /\
  (exists bf, play_san (from_scratch startpos) opera_texts = Some bf /\ current_position gm = Some bf) /\
  result gm = Some (Some WhiteCheckmates) /\
  forall m, g_make_move gm m = Some (false, gm).
Proof. exact opera_game_all. Qed.
Check X12_opera_game : exists gm, game_play_san (new_with_board (from_scratch startpos)) opera_texts = Some gm /\
  actions gm = map MakeMove (map of_spec_move opera_moves) /\
  (exists bf, play_san (from_scratch startpos) opera_texts = Some bf /\ current_position gm = Some bf) /\
  result gm = Some (Some WhiteCheckmates) /\
  forall m, g_make_move gm m = Some (false, gm).
Print Assumptions X12_opera_game.

(** negative example: before ply 22 (Black must answer Bxb5+) BOTH knights, b8 and f6, can interpose
    on d7 (both moves are legal for the oracle): the text "Nd7" is rejected by the parser and is a
    spelling of no legal move; each disambiguated text is accepted *)
Theorem X12_opera_negative : exists b, play_san (from_scratch startpos) (firstn 21 opera_texts) = Some b /\
  In (mv 57 51) (legal_moves (abs_board b)) /\ In (mv 45 51) (legal_moves (abs_board b)) /\
  from_san b (s_of "Nd7") = Err /\
  (forall m, In m (legal_moves (abs_board b)) -> ~ In (s_of "Nd7") (san_spellings (abs_board b) m)) /\
  from_san b (s_of "Nbd7") = Ok (of_spec_move (mv 57 51)) /\
  from_san b (s_of "Nfd7") = Ok (of_spec_move (mv 45 51)).
Proof. exact opera_negative. Qed.
Check X12_opera_negative : exists b, play_san (from_scratch startpos) (firstn 21 opera_texts) = Some b /\
  In (mv 57 51) (legal_moves (abs_board b)) /\ In (mv 45 51) (legal_moves (abs_board b)) /\
  from_san b (s_of "Nd7") = Err /\
  (forall m, In m (legal_moves (abs_board b)) -> ~ In (s_of "Nd7") (san_spellings (abs_board b) m)) /\
  from_san b (s_of "Nbd7") = Ok (of_spec_move (mv 57 51)) /\
  from_san b (s_of "Nfd7") = Ok (of_spec_move (mv 45 51)).
Print Assumptions X12_opera_negative.

(** ** 2. the Fool's mate, 4 plies *)
Check eq_refl : fools_texts = map s_of
  ["f3";"e5";"g4";"Qh4#"]%string.

(** (a), (b): the game parses; the library's FEN; checkmate for the library and for the oracle *)
Theorem X12_fools_fen_status : exists bf, play_san (from_scratch startpos) fools_texts = Some bf /\
  board_display bf = s_of "rnb1kbnr/pppp1ppp/8/4p3/6Pq/5P2/PPPPP2P/RNBQKBNR w KQkq - 0 1"%string /\
  board_status bf = Checkmate /\ status (abs_board bf) = Checkmate.
Proof. exact fools_fen_status. Qed.
Check X12_fools_fen_status : exists bf, play_san (from_scratch startpos) fools_texts = Some bf /\
  board_display bf = s_of "rnb1kbnr/pppp1ppp/8/4p3/6Pq/5P2/PPPPP2P/RNBQKBNR w KQkq - 0 1"%string /\
  board_status bf = Checkmate /\ status (abs_board bf) = Checkmate.
Print Assumptions X12_fools_fen_status.

(** (c): every intermediate board is canonical and shows a valid position *)
Theorem X12_fools_boards : forall k, (k <= 4)%nat ->
  exists b, play_san (from_scratch startpos) (firstn k fools_texts) = Some b /\
            b = from_scratch (abs_board b) /\ pos_valid (abs_board b) = true.
Proof. exact fools_boards. Qed.
Check X12_fools_boards : forall k, (k <= 4)%nat ->
  exists b, play_san (from_scratch startpos) (firstn k fools_texts) = Some b /\
            b = from_scratch (abs_board b) /\ pos_valid (abs_board b) = true.
Print Assumptions X12_fools_boards.

(** (c'): at every ply the library's FEN is the standard writer's text of the position shown (with
    the en-passant target that position records) *)
Theorem X12_fools_fens : forall k, (k <= 4)%nat ->
  exists b, play_san (from_scratch startpos) (firstn k fools_texts) = Some b /\
            board_display b = std_fen (abs_board b) (ep (abs_board b)).
Proof. exact fools_fens. Qed.
Check X12_fools_fens : forall k, (k <= 4)%nat ->
  exists b, play_san (from_scratch startpos) (firstn k fools_texts) = Some b /\
            board_display b = std_fen (abs_board b) (ep (abs_board b)).
Print Assumptions X12_fools_fens.

(** the oracle's moves, and: they are what the parser returned *)
Theorem X12_fools_moves : fools_moves = mvs
  [(13,21);(52,36);(14,30);(59,31)] /\
  san_moves (from_scratch startpos) fools_texts = Some (map of_spec_move fools_moves).
Proof. exact (conj fools_moves_explicit fools_moves_all). Qed.
Check X12_fools_moves : fools_moves = mvs
  [(13,21);(52,36);(14,30);(59,31)] /\
  san_moves (from_scratch startpos) fools_texts = Some (map of_spec_move fools_moves).
Print Assumptions X12_fools_moves.

(** the library's walk and the oracle's walk show the same position at every ply *)
Theorem X12_fools_abs : forall k, (k <= 4)%nat ->
  exists b, play_san (from_scratch startpos) (firstn k fools_texts) = Some b /\
            abs_board b = final_pos startpos (firstn k fools_moves).
Proof. exact fools_abs. Qed.
Check X12_fools_abs : forall k, (k <= 4)%nat ->
  exists b, play_san (from_scratch startpos) (firstn k fools_texts) = Some b /\
            abs_board b = final_pos startpos (firstn k fools_moves).
Print Assumptions X12_fools_abs.

(** (d): the specification agrees with the notation of the books, ply by ply *)
Theorem X12_fools_spellings : forall k t, nth_error fools_texts k = Some t ->
  exists m, nth_error fools_moves k = Some m /\
    let pk := final_pos startpos (firstn k fools_moves) in
    pos_valid pk = true /\ In m (legal_moves pk) /\ In t (san_spellings pk m) /\
    (forall m', In m' (legal_moves pk) -> In t (san_spellings pk m') -> m' = m) /\
    from_san (from_scratch pk) t = Ok (of_spec_move m).
Proof. exact fools_spellings. Qed.
Check X12_fools_spellings : forall k t, nth_error fools_texts k = Some t ->
  exists m, nth_error fools_moves k = Some m /\
    let pk := final_pos startpos (firstn k fools_moves) in
    pos_valid pk = true /\ In m (legal_moves pk) /\ In t (san_spellings pk m) /\
    (forall m', In m' (legal_moves pk) -> In t (san_spellings pk m') -> m' = m) /\
    from_san (from_scratch pk) t = Ok (of_spec_move m).
Print Assumptions X12_fools_spellings.

(** (d), second half: the oracle's FEN writer on the oracle's final position gives the library's text
    (all six fields — both writers print "0 1" —, a fortiori the first four) *)
Theorem X12_fools_oracle_fen : exists bf, play_san (from_scratch startpos) fools_texts = Some bf /\
  abs_board bf = final_pos startpos fools_moves /\
  pos_valid (final_pos startpos fools_moves) = true /\
  status (final_pos startpos fools_moves) = Checkmate /\
  std_fen (final_pos startpos fools_moves) None = s_of "rnb1kbnr/pppp1ppp/8/4p3/6Pq/5P2/PPPPP2P/RNBQKBNR w KQkq - 0 1"%string /\
  std_fen (final_pos startpos fools_moves) None = board_display bf.
Proof. exact fools_std_fen. Qed.
Check X12_fools_oracle_fen : exists bf, play_san (from_scratch startpos) fools_texts = Some bf /\
  abs_board bf = final_pos startpos fools_moves /\
  pos_valid (final_pos startpos fools_moves) = true /\
  status (final_pos startpos fools_moves) = Checkmate /\
  std_fen (final_pos startpos fools_moves) None = s_of "rnb1kbnr/pppp1ppp/8/4p3/6Pq/5P2/PPPPP2P/RNBQKBNR w KQkq - 0 1"%string /\
  std_fen (final_pos startpos fools_moves) None = board_display bf.
Print Assumptions X12_fools_oracle_fen.

(** (e): the [Game] protocol accepts every move, logs them, ends on the same board, reports the
    result and then refuses every further move *)
Theorem X12_fools_game : exists gm, game_play_san (new_with_board (from_scratch startpos)) fools_texts = Some gm /\
  actions gm = map MakeMove (map of_spec_move fools_moves) /\
  (exists bf, play_san (from_scratch startpos) fools_texts = Some bf /\ current_position gm = Some bf) /\
  result gm = Some (Some BlackCheckmates) /\
  forall m, g_make_move gm m = Some (false, gm).
Proof. exact fools_game_all. Qed.
Check X12_fools_game : exists gm, game_play_san (new_with_board (from_scratch startpos)) fools_texts = Some gm /\
  actions gm = map MakeMove (map of_spec_move fools_moves) /\
  (exists bf, play_san (from_scratch startpos) fools_texts = Some bf /\ current_position gm = Some bf) /\
  result gm = Some (Some BlackCheckmates) /\
  forall m, g_make_move gm m = Some (false, gm).
Print Assumptions X12_fools_game.

(** the check marker and a negative example, before ply 4: the parser does not verify the marker
    ("Qh4" and "Qh4+" give d8-h4 like "Qh4#"), whereas the specification lists "Qh4", "Qh4#" and
    their over-disambiguated forms but NOT "Qh4+" (the move mates) — the parser accepts more than
    the specification's spellings, C12b is a completeness statement; a capture marker onto the
    empty square h4 and a square the queen cannot reach are rejected *)
Theorem X12_fools_negative : exists b, play_san (from_scratch startpos) (firstn 3 fools_texts) = Some b /\
  from_san b (s_of "Qxh4#") = Err /\ from_san b (s_of "Qh5") = Err /\
  from_san b (s_of "Qh4") = Ok (of_spec_move (mv 59 31)) /\
  from_san b (s_of "Qh4+") = Ok (of_spec_move (mv 59 31)) /\
  san_spellings (abs_board b) (mv 59 31)
    = map s_of ["Qh4";"Qh4#";"Qdh4";"Qdh4#";"Q8h4";"Q8h4#";"Qd8h4";"Qd8h4#"]%string /\
  (forall m, In m (legal_moves (abs_board b)) -> ~ In (s_of "Qh4+") (san_spellings (abs_board b) m)).
Proof. exact fools_negative. Qed.
Check X12_fools_negative : exists b, play_san (from_scratch startpos) (firstn 3 fools_texts) = Some b /\
  from_san b (s_of "Qxh4#") = Err /\ from_san b (s_of "Qh5") = Err /\
  from_san b (s_of "Qh4") = Ok (of_spec_move (mv 59 31)) /\
  from_san b (s_of "Qh4+") = Ok (of_spec_move (mv 59 31)) /\
  san_spellings (abs_board b) (mv 59 31)
    = map s_of ["Qh4";"Qh4#";"Qdh4";"Qdh4#";"Q8h4";"Q8h4#";"Qd8h4";"Qd8h4#"]%string /\
  (forall m, In m (legal_moves (abs_board b)) -> ~ In (s_of "Qh4+") (san_spellings (abs_board b) m)).
Print Assumptions X12_fools_negative.

(** ** 3. the Scholar's mate, 7 plies *)
Check eq_refl : scholars_texts = map s_of
  ["e4";"e5";"Bc4";"Nc6";"Qh5";"Nf6";"Qxf7#"]%string.

(** (a), (b): the game parses; the library's FEN; checkmate for the library and for the oracle *)
Theorem X12_scholars_fen_status : exists bf, play_san (from_scratch startpos) scholars_texts = Some bf /\
  board_display bf = s_of "r1bqkb1r/pppp1Qpp/2n2n2/4p3/2B1P3/8/PPPP1PPP/RNB1K1NR b KQkq - 0 1"%string /\
  board_status bf = Checkmate /\ status (abs_board bf) = Checkmate.
Proof. exact scholars_fen_status. Qed.
Check X12_scholars_fen_status : exists bf, play_san (from_scratch startpos) scholars_texts = Some bf /\
  board_display bf = s_of "r1bqkb1r/pppp1Qpp/2n2n2/4p3/2B1P3/8/PPPP1PPP/RNB1K1NR b KQkq - 0 1"%string /\
  board_status bf = Checkmate /\ status (abs_board bf) = Checkmate.
Print Assumptions X12_scholars_fen_status.

(** DISCREPANCY: the placement of the task statement (no knight on g1) is not the library's text;
    library and abstraction both show the white knight still on g1 (square 6) *)
Theorem X12_scholars_fen_not_as_transcribed : exists bf, play_san (from_scratch startpos) scholars_texts = Some bf /\
  board_display bf <> s_of "r1bqkb1r/pppp1Qpp/2n2n2/4p3/2B1P3/8/PPPP1PPP/RNB1K2R b KQkq - 0 1"%string /\
  piece_on bf 6 = Some Knight /\ color_on bf 6 = Some White /\
  at_ (abs_board bf) 6 = Some (Knight, White).
Proof. exact scholars_display_not_as_transcribed. Qed.
Check X12_scholars_fen_not_as_transcribed : exists bf, play_san (from_scratch startpos) scholars_texts = Some bf /\
  board_display bf <> s_of "r1bqkb1r/pppp1Qpp/2n2n2/4p3/2B1P3/8/PPPP1PPP/RNB1K2R b KQkq - 0 1"%string /\
  piece_on bf 6 = Some Knight /\ color_on bf 6 = Some White /\
  at_ (abs_board bf) 6 = Some (Knight, White).
Print Assumptions X12_scholars_fen_not_as_transcribed.

(** (c): every intermediate board is canonical and shows a valid position *)
Theorem X12_scholars_boards : forall k, (k <= 7)%nat ->
  exists b, play_san (from_scratch startpos) (firstn k scholars_texts) = Some b /\
            b = from_scratch (abs_board b) /\ pos_valid (abs_board b) = true.
Proof. exact scholars_boards. Qed.
Check X12_scholars_boards : forall k, (k <= 7)%nat ->
  exists b, play_san (from_scratch startpos) (firstn k scholars_texts) = Some b /\
            b = from_scratch (abs_board b) /\ pos_valid (abs_board b) = true.
Print Assumptions X12_scholars_boards.

(** (c'): at every ply the library's FEN is the standard writer's text of the position shown (with
    the en-passant target that position records) *)
Theorem X12_scholars_fens : forall k, (k <= 7)%nat ->
  exists b, play_san (from_scratch startpos) (firstn k scholars_texts) = Some b /\
            board_display b = std_fen (abs_board b) (ep (abs_board b)).
Proof. exact scholars_fens. Qed.
Check X12_scholars_fens : forall k, (k <= 7)%nat ->
  exists b, play_san (from_scratch startpos) (firstn k scholars_texts) = Some b /\
            board_display b = std_fen (abs_board b) (ep (abs_board b)).
Print Assumptions X12_scholars_fens.

(** the oracle's moves, and: they are what the parser returned *)
Theorem X12_scholars_moves : scholars_moves = mvs
  [(12,28);(52,36);(5,26);(57,42);(3,39);(62,45);(39,53)] /\
  san_moves (from_scratch startpos) scholars_texts = Some (map of_spec_move scholars_moves).
Proof. exact (conj scholars_moves_explicit scholars_moves_all). Qed.
Check X12_scholars_moves : scholars_moves = mvs
  [(12,28);(52,36);(5,26);(57,42);(3,39);(62,45);(39,53)] /\
  san_moves (from_scratch startpos) scholars_texts = Some (map of_spec_move scholars_moves).
Print Assumptions X12_scholars_moves.

(** the library's walk and the oracle's walk show the same position at every ply *)
Theorem X12_scholars_abs : forall k, (k <= 7)%nat ->
  exists b, play_san (from_scratch startpos) (firstn k scholars_texts) = Some b /\
            abs_board b = final_pos startpos (firstn k scholars_moves).
Proof. exact scholars_abs. Qed.
Check X12_scholars_abs : forall k, (k <= 7)%nat ->
  exists b, play_san (from_scratch startpos) (firstn k scholars_texts) = Some b /\
            abs_board b = final_pos startpos (firstn k scholars_moves).
Print Assumptions X12_scholars_abs.

(** (d): the specification agrees with the notation of the books, ply by ply *)
Theorem X12_scholars_spellings : forall k t, nth_error scholars_texts k = Some t ->
  exists m, nth_error scholars_moves k = Some m /\
    let pk := final_pos startpos (firstn k scholars_moves) in
    pos_valid pk = true /\ In m (legal_moves pk) /\ In t (san_spellings pk m) /\
    (forall m', In m' (legal_moves pk) -> In t (san_spellings pk m') -> m' = m) /\
    from_san (from_scratch pk) t = Ok (of_spec_move m).
Proof. exact scholars_spellings. Qed.
Check X12_scholars_spellings : forall k t, nth_error scholars_texts k = Some t ->
  exists m, nth_error scholars_moves k = Some m /\
    let pk := final_pos startpos (firstn k scholars_moves) in
    pos_valid pk = true /\ In m (legal_moves pk) /\ In t (san_spellings pk m) /\
    (forall m', In m' (legal_moves pk) -> In t (san_spellings pk m') -> m' = m) /\
    from_san (from_scratch pk) t = Ok (of_spec_move m).
Print Assumptions X12_scholars_spellings.

(** (d), second half: the oracle's FEN writer on the oracle's final position gives the library's text
    (all six fields — both writers print "0 1" —, a fortiori the first four) *)
Theorem X12_scholars_oracle_fen : exists bf, play_san (from_scratch startpos) scholars_texts = Some bf /\
  abs_board bf = final_pos startpos scholars_moves /\
  pos_valid (final_pos startpos scholars_moves) = true /\
  status (final_pos startpos scholars_moves) = Checkmate /\
  std_fen (final_pos startpos scholars_moves) None = s_of "r1bqkb1r/pppp1Qpp/2n2n2/4p3/2B1P3/8/PPPP1PPP/RNB1K1NR b KQkq - 0 1"%string /\
  std_fen (final_pos startpos scholars_moves) None = board_display bf.
Proof. exact scholars_std_fen. Qed.
Check X12_scholars_oracle_fen : exists bf, play_san (from_scratch startpos) scholars_texts = Some bf /\
  abs_board bf = final_pos startpos scholars_moves /\
  pos_valid (final_pos startpos scholars_moves) = true /\
  status (final_pos startpos scholars_moves) = Checkmate /\
  std_fen (final_pos startpos scholars_moves) None = s_of "r1bqkb1r/pppp1Qpp/2n2n2/4p3/2B1P3/8/PPPP1PPP/RNB1K1NR b KQkq - 0 1"%string /\
  std_fen (final_pos startpos scholars_moves) None = board_display bf.
Print Assumptions X12_scholars_oracle_fen.

(** (e): the [Game] protocol accepts every move, logs them, ends on the same board, reports the
    result and then refuses every further move *)
Theorem X12_scholars_game : exists gm, game_play_san (new_with_board (from_scratch startpos)) scholars_texts = Some gm /\
  actions gm = map MakeMove (map of_spec_move scholars_moves) /\
  (exists bf, play_san (from_scratch startpos) scholars_texts = Some bf /\ current_position gm = Some bf) /\
  result gm = Some (Some WhiteCheckmates) /\
  forall m, g_make_move gm m = Some (false, gm).
Proof. exact scholars_game_all. Qed.
Check X12_scholars_game : exists gm, game_play_san (new_with_board (from_scratch startpos)) scholars_texts = Some gm /\
  actions gm = map MakeMove (map of_spec_move scholars_moves) /\
  (exists bf, play_san (from_scratch startpos) scholars_texts = Some bf /\ current_position gm = Some bf) /\
  result gm = Some (Some WhiteCheckmates) /\
  forall m, g_make_move gm m = Some (false, gm).
Print Assumptions X12_scholars_game.

(** negative example, before ply 7: the queen takes a pawn on f7; the text without the capture
    marker, "Qf7#", is rejected by the parser and is a spelling of no legal move; with the marker it
    is accepted whatever the check marker; "Bxf7+" is another legal move; "Qxf7#" spells exactly
    one legal move *)
Theorem X12_scholars_negative : exists b, play_san (from_scratch startpos) (firstn 6 scholars_texts) = Some b /\
  from_san b (s_of "Qf7#") = Err /\
  (forall m, In m (legal_moves (abs_board b)) -> ~ In (s_of "Qf7#") (san_spellings (abs_board b) m)) /\
  from_san b (s_of "Qxf7") = Ok (of_spec_move (mv 39 53)) /\
  from_san b (s_of "Qxf7+") = Ok (of_spec_move (mv 39 53)) /\
  from_san b (s_of "Bxf7+") = Ok (of_spec_move (mv 26 53)) /\
  spelled_by (abs_board b) (s_of "Qxf7#") = [mv 39 53].
Proof. exact scholars_negative. Qed.
Check X12_scholars_negative : exists b, play_san (from_scratch startpos) (firstn 6 scholars_texts) = Some b /\
  from_san b (s_of "Qf7#") = Err /\
  (forall m, In m (legal_moves (abs_board b)) -> ~ In (s_of "Qf7#") (san_spellings (abs_board b) m)) /\
  from_san b (s_of "Qxf7") = Ok (of_spec_move (mv 39 53)) /\
  from_san b (s_of "Qxf7+") = Ok (of_spec_move (mv 39 53)) /\
  from_san b (s_of "Bxf7+") = Ok (of_spec_move (mv 26 53)) /\
  spelled_by (abs_board b) (s_of "Qxf7#") = [mv 39 53].
Print Assumptions X12_scholars_negative.
