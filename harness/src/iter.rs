// "iter" stream (C14): move-iterator scripts: mask sequences drained to exhaustion with
// len()/size_hint() before every next(), and removals on a fresh generator.
use crate::common::*;
use chess::*;
use std::io::Write;

fn rand_mask(b: &Board, rng: &mut Rng) -> BitBoard {
    match rng.below(7) {
        0 => *b.color_combined(!b.side_to_move()),
        1 => BitBoard(rng.next()),
        2 => BitBoard(rng.next() & rng.next()),
        3 => get_rank(Rank::from_index(rng.below(8) as usize)),
        4 => get_file(File::from_index(rng.below(8) as usize)),
        5 => { // destinations of a few legal moves
            let ms: Vec<ChessMove> = MoveGen::new_legal(b).collect();
            let mut m = EMPTY;
            if !ms.is_empty() { for _ in 0..(1 + rng.below(3)) { m |= BitBoard::from_square(rng.pick(&ms).get_dest()); } }
            m
        }
        _ => !*b.color_combined(!b.side_to_move()),
    }
}

fn drain(it: &mut MoveGen, s: &mut String, limit: usize) {
    // next() until None (or `limit` calls), with len and size_hint before each call
    for _ in 0..limit {
        let l = it.len(); let sh = it.size_hint();
        let ok = (sh.0 == l && sh.1 == Some(l)) as u8;
        match it.next() {
            Some(m) => s.push_str(&format!(" x={},{},{}", l, ok, mv_str(&m).replace(',', "/"))),
            None => { s.push_str(&format!(" x={},{},-", l, ok)); return; }
        }
    }
}

pub fn script_for(b: &Board, rng: &mut Rng) -> String {
    let mut s = String::new();
    s.push_str("I "); s.push_str(&enc(b)); s.push_str(" |");
    let mut it = MoveGen::new_legal(b);
    let legal: Vec<ChessMove> = MoveGen::new_legal(b).collect();
    let kind = rng.below(4);
    if kind >= 2 && !legal.is_empty() {
        // removals first, on the fresh generator
        let nrem = 1 + rng.below(3);
        for _ in 0..nrem {
            if rng.chance(2, 3) {
                // prefer special moves: en passant captures and promotions
                let special: Vec<ChessMove> = legal.iter().cloned().filter(|m| m.get_promotion().is_some()
                    || (b.piece_on(m.get_source()) == Some(Piece::Pawn) && m.get_source().get_file() != m.get_dest().get_file() && b.piece_on(m.get_dest()).is_none())).collect();
                let m = if !special.is_empty() && rng.chance(1, 2) { *rng.pick(&special) } else { *rng.pick(&legal) };
                let r = it.remove_move(m);
                s.push_str(&format!(" r{}={}", mv_str(&m).replace(',', "/"), r as u8));
            } else {
                let mut mask = EMPTY;
                for _ in 0..(1 + rng.below(3)) { mask |= BitBoard::from_square(rng.pick(&legal).get_dest()); }
                if rng.chance(1, 4) { mask = BitBoard(rng.next() & rng.next()); }
                it.remove_mask(mask);
                s.push_str(&format!(" k{}=0", mask.0));
            }
        }
    }
    if kind == 1 || kind == 3 {
        let nm = 1 + rng.below(3);
        for _ in 0..nm {
            let m = rand_mask(b, rng);
            it.set_iterator_mask(m);
            s.push_str(&format!(" m{}=0", m.0));
            drain(&mut it, &mut s, 400);
            // removals between two mask passes (the previous mask is exhausted): moves of pieces
            // that have already yielded some of their moves are the interesting ones
            if !legal.is_empty() && rng.chance(1, 2) {
                if rng.chance(3, 4) {
                    let m = *rng.pick(&legal);
                    let r = it.remove_move(m);
                    s.push_str(&format!(" r{}={}", mv_str(&m).replace(',', "/"), r as u8));
                } else {
                    let mask = BitBoard::from_square(rng.pick(&legal).get_dest()) | BitBoard::from_square(rng.pick(&legal).get_dest());
                    it.remove_mask(mask);
                    s.push_str(&format!(" k{}=0", mask.0));
                }
            }
        }
    }
    it.set_iterator_mask(!EMPTY);
    s.push_str(&format!(" m{}=0", (!EMPTY).0));
    drain(&mut it, &mut s, 400);
    s
}

pub fn run(n_games: u64) {
    let mut rng = Rng::new(seed_from_env());
    let mut rng2 = Rng::new(seed_from_env() ^ 0x5151);
    let out = std::io::stdout(); let mut out = std::io::BufWriter::new(out.lock());
    for_positions(n_games, 90, false, &mut rng, |b, _| {
        for _ in 0..3 { writeln!(out, "{}", script_for(b, &mut rng2)).unwrap(); }
    });
}
