(** * Properties.X20 — public API outside the twenty properties: [impl Display for BitBoard]
    ([bitboard_display], [Model/Extra.v]).  The text has 136 characters; for every square
    [k < 64] character number [2*k + k/8] is 'X' (88) if bit [k] of the word is set and '.'
    (46) otherwise; a space (32) follows every cell and a newline (10) follows every eighth
    cell; these positions are all the positions of the text.  Proofs: [Proofs/Extra20.v]. *)
From Coq Require Import NArith List.
From Chess Require Import Base.Bits Base.Text Model.Extra.
From Chess Require Import Proofs.Extra20.
Import ListNotations.
Open Scope N_scope.

Theorem X20_display_length : forall b, length (bitboard_display b) = 136%nat.
Proof. exact bitboard_display_length. Qed.
Check X20_display_length : forall b, length (bitboard_display b) = 136%nat.
Print Assumptions X20_display_length.

Theorem X20_display_cell : forall b k, k < 64 ->
  nthN (bitboard_display b) (2 * k + k / 8) 0 = if N.testbit b k then 88 else 46.
Proof. exact bitboard_display_cell. Qed.
Check X20_display_cell : forall b k, k < 64 ->
  nthN (bitboard_display b) (2 * k + k / 8) 0 = if N.testbit b k then 88 else 46.
Print Assumptions X20_display_cell.

(** the cell of square [k] is "X" iff the bit is set *)
Theorem X20_display_cell_iff : forall b k, k < 64 ->
  (nthN (bitboard_display b) (2 * k + k / 8) 0 = 88 <-> N.testbit b k = true).
Proof. exact bitboard_display_cell_iff. Qed.
Check X20_display_cell_iff : forall b k, k < 64 ->
  (nthN (bitboard_display b) (2 * k + k / 8) 0 = 88 <-> N.testbit b k = true).
Print Assumptions X20_display_cell_iff.

Theorem X20_display_space : forall b k, k < 64 -> nthN (bitboard_display b) (2 * k + k / 8 + 1) 0 = 32.
Proof. exact bitboard_display_space. Qed.
Check X20_display_space : forall b k, k < 64 -> nthN (bitboard_display b) (2 * k + k / 8 + 1) 0 = 32.
Print Assumptions X20_display_space.

(** a newline follows every eighth cell *)
Theorem X20_display_newline : forall b k, k < 64 -> k mod 8 = 7 ->
  nthN (bitboard_display b) (2 * k + k / 8 + 2) 0 = 10.
Proof. exact bitboard_display_newline. Qed.
Check X20_display_newline : forall b k, k < 64 -> k mod 8 = 7 ->
  nthN (bitboard_display b) (2 * k + k / 8 + 2) 0 = 10.
Print Assumptions X20_display_newline.

(** ... i.e. the text is eight rows of 17 characters, each closed by a newline *)
Theorem X20_display_rows : forall b r, r < 8 -> nthN (bitboard_display b) (17 * r + 16) 0 = 10.
Proof. exact bitboard_display_rows. Qed.
Check X20_display_rows : forall b r, r < 8 -> nthN (bitboard_display b) (17 * r + 16) 0 = 10.
Print Assumptions X20_display_rows.

(** cells, spaces and newlines are all 136 positions *)
Theorem X20_display_positions_cover : forall i, i < 136 ->
  exists k, k < 64 /\ (i = 2 * k + k / 8 \/ i = 2 * k + k / 8 + 1 \/ (k mod 8 = 7 /\ i = 2 * k + k / 8 + 2)).
Proof. exact display_positions_cover. Qed.
Check X20_display_positions_cover : forall i, i < 136 ->
  exists k, k < 64 /\ (i = 2 * k + k / 8 \/ i = 2 * k + k / 8 + 1 \/ (k mod 8 = 7 /\ i = 2 * k + k / 8 + 2)).
Print Assumptions X20_display_positions_cover.
