(** * Proofs.ZobristSpan — the (regenerated) piece keys of [Gen.Zobrist] use all 64 bits.

    The pairwise-distinctness facts of [Proofs.ZobristKeys] would survive a key generator that
    only fills 32 (or any k < 64) random bits per key: the hash would then live in a proper
    subspace of GF(2)^64 and collide at the birthday rate of that subspace.  Here we prove, by
    computations on [Z_PIECES] that are re-run at every compilation (nothing is pasted):

    - the 768 piece keys span GF(2)^64: every unit vector [bit k], k < 64, is the xor of a
      duplicate-free set of piece keys, hence every 64-bit word is an xor of piece keys, hence the
      hash of a board can be moved by any 64-bit difference by toggling men;
    - there are 64 piece keys that alone span GF(2)^64 and are linearly independent (rank 64);
    - the upper and the lower 32-bit halves of the 768 piece keys are each non-zero and pairwise
      distinct.

    The witnesses come from a Gaussian elimination ([build]/[solve_mask]) whose correctness is
    NOT needed: each witness is re-checked by a boolean checker whose soundness is proved. *)
From Coq Require Import NArith List Bool Lia ZifyBool ZifyN ZifyNat.
From Chess Require Import Base.Bits Spec.Rules Gen.Zobrist Model.Board
  Proofs.BitsFacts Proofs.ZobristKeys Proofs.HashSeparation.
Import ListNotations.
Open Scope N_scope.

#[local] Arguments N.add : simpl never.
#[local] Arguments N.sub : simpl never.
#[local] Arguments N.mul : simpl never.
#[local] Arguments N.shiftl : simpl never.
#[local] Arguments N.shiftr : simpl never.
#[local] Arguments N.land : simpl never.
#[local] Arguments N.lor : simpl never.
#[local] Arguments N.lxor : simpl never.
#[local] Arguments N.testbit : simpl never.
#[local] Arguments N.eqb : simpl never.
#[local] Arguments N.ltb : simpl never.
#[local] Arguments N.leb : simpl never.
#[local] Arguments N.log2 : simpl never.
#[local] Arguments N.div : simpl never.
#[local] Arguments N.modulo : simpl never.

Definition xor_all (l:list N) : N := fold_right N.lxor 0 l.
Definition key (i:N) : N := nthN Z_PIECES i 0.

(** ** 1. Gaussian elimination over GF(2), carrying the provenance of every vector.
    A vector is a pair [(v, m)]: [v] the 64-bit value, [m] a bit mask over key indices such that
    [v] is the xor of the keys whose index bit is set in [m] (an invariant we never need to prove).
    The basis is a list of [(pivot, (v, m))] with [pivot = N.log2 v], sorted by decreasing pivot. *)
Definition gvec := (N * N)%type.
Definition gbasis := list (N * gvec).

(** one pass in decreasing pivot order clears every pivot bit of [v] *)
Fixpoint reduce (bs:gbasis) (x:gvec) : gvec :=
  match bs with
  | [] => x
  | (p, (bv, bm)) :: bs' =>
      reduce bs' (if N.testbit (fst x) p then (N.lxor (fst x) bv, N.lxor (snd x) bm) else x)
  end.

Fixpoint insert (p:N) (x:gvec) (bs:gbasis) : gbasis :=
  match bs with
  | [] => [(p, x)]
  | (q, y) :: bs' => if q <? p then (p, x) :: bs else (q, y) :: insert p x bs'
  end.

(** process the keys in order; returns the basis and the indices of the keys that entered it *)
Fixpoint build_from (l:list N) (i:N) (bs:gbasis) (used:list N) : gbasis * list N :=
  match l with
  | [] => (bs, rev used)
  | k :: l' =>
      let x := reduce bs (k, bit i) in
      if fst x =? 0 then build_from l' (N.succ i) bs used
      else build_from l' (N.succ i) (insert (N.log2 (fst x)) x bs) (i :: used)
  end.
Definition build (l:list N) : gbasis * list N := build_from l 0 [] [].

Definition solve_mask (bs:gbasis) (t:N) : option N :=
  let x := reduce bs (t, 0) in if fst x =? 0 then Some (snd x) else None.

(** the function asked for: indices of a set of elements of [l] whose xor is [t] *)
Definition solve (l:list N) (t:N) : option (list N) :=
  match solve_mask (fst (build l)) t with Some m => Some (squares_of m) | None => None end.

(** all 64 unit vectors at once (the basis is built once) *)
Definition solve_units (l:list N) : list N :=
  let bs := fst (build l) in
  map (fun k => match solve_mask bs (bit k) with Some m => m | None => 0 end) all_sq.

(** *** tabulated on the actual keys (recomputed from [Z_PIECES] at every compilation) *)
Definition span_masks : list N := Eval vm_compute in solve_units Z_PIECES.
Definition basis_idx : list N := Eval vm_compute in snd (build Z_PIECES).

Lemma span_masks_eq : span_masks = solve_units Z_PIECES.
Proof. vm_cast_no_check (eq_refl span_masks). Qed.
Lemma basis_idx_eq : basis_idx = snd (build Z_PIECES).
Proof. vm_cast_no_check (eq_refl basis_idx). Qed.

(** the witness for bit [k] *)
Definition span_witness (k:N) : list N := squares_of (nthN span_masks k 0).

(** ** 2. xor of a list: linear functionals select *)
Lemma xor_all_cons x l : xor_all (x :: l) = N.lxor x (xor_all l).
Proof. reflexivity. Qed.

Lemma xor_all_app a b : xor_all (a ++ b) = N.lxor (xor_all a) (xor_all b).
Proof.
  induction a as [|x a IH].
  - cbn [app]. change (xor_all []) with 0. rewrite N.lxor_0_l. reflexivity.
  - cbn [app]. rewrite !xor_all_cons, IH, N.lxor_assoc. reflexivity.
Qed.

Section Linear.
  Variable f : N -> bool.
  Hypothesis f_zero : f 0 = false.
  Hypothesis f_xor : forall a b, f (N.lxor a b) = xorb (f a) (f b).
  Variable g : N -> N.
  Variable t : N.

  (** if [f (g x)] is the indicator of [x = t] on a duplicate-free list [T], then [f] of the xor
      of the [g x] tells whether [t] is in [T] *)
  Lemma linear_select T :
    NoDup T -> (forall x, In x T -> f (g x) = (t =? x)) ->
    f (xor_all (map g T)) = existsb (N.eqb t) T.
  Proof.
    induction T as [|x xs IH]; intros Hnd Hf.
    - exact f_zero.
    - cbn [map existsb]. rewrite xor_all_cons, f_xor.
      rewrite (Hf x (or_introl eq_refl)).
      inversion Hnd as [|x' xs' Hnotin Hnd']; subst x' xs'.
      rewrite (IH Hnd' (fun y Hy => Hf y (or_intror Hy))).
      destruct (N.eqb_spec t x) as [E|E].
      + subst x. destruct (existsb (N.eqb t) xs) eqn:Ex; [|reflexivity].
        apply existsb_exists in Ex. destruct Ex as [y [Hy Hty]].
        apply N.eqb_eq in Hty. subst y. contradiction.
      + destruct (existsb (N.eqb t) xs); reflexivity.
  Qed.
End Linear.

Lemma existsb_eqb_In t l : existsb (N.eqb t) l = true <-> In t l.
Proof.
  rewrite existsb_exists. split.
  - intros [y [Hy E]]. apply N.eqb_eq in E. subst y. exact Hy.
  - intro H. exists t. split; [exact H | apply N.eqb_refl].
Qed.

(** a word is the xor of its set bits *)
Lemma xor_bits_squares_of v : xor_all (map bit (squares_of v)) = v.
Proof.
  apply N.bits_inj. intro k.
  rewrite (linear_select (fun w => N.testbit w k) (N.bits_0 k)
             (fun a b => N.lxor_spec a b k) bit k (squares_of v) (squares_of_NoDup v)).
  - destruct (N.testbit v k) eqn:E.
    + apply existsb_eqb_In, squares_of_spec. exact E.
    + destruct (existsb (N.eqb k) (squares_of v)) eqn:Ex; [|reflexivity].
      apply existsb_eqb_In, squares_of_spec in Ex. congruence.
  - intros x _. rewrite testbit_bit. apply N.eqb_sym.
Qed.

(** ** 3. the checker and its soundness *)
Definition span_check (idxs:list N) (k:N) : bool :=
  forallb (fun i => i <? 768) idxs && forallb (fun i => existsb (N.eqb i) basis_idx) idxs
  && nodupb idxs && (xor_all (map key idxs) =? bit k).

Lemma span_check_sound idxs k : span_check idxs k = true ->
  (forall i, In i idxs -> i < 768) /\ incl idxs basis_idx /\ NoDup idxs /\
  xor_all (map key idxs) = bit k.
Proof.
  unfold span_check. rewrite !andb_true_iff. intros [[[H1 H2] H3] H4].
  rewrite forallb_forall in H1. rewrite forallb_forall in H2.
  split; [|split; [|split]].
  - intros i Hi. apply N.ltb_lt. exact (H1 i Hi).
  - intros i Hi. apply existsb_eqb_In. exact (H2 i Hi).
  - apply nodupb_NoDup. exact H3.
  - apply N.eqb_eq. exact H4.
Qed.

(** the sweep: all 64 unit vectors (runs once in the VM, at [Qed]) *)
Lemma sweep_span : forallb (fun k => span_check (span_witness k) k) all_sq = true.
Proof. vm_cast_no_check (eq_refl true). Qed.

Lemma span_witness_ok k : k < 64 ->
  (forall i, In i (span_witness k) -> i < 768) /\ incl (span_witness k) basis_idx /\
  NoDup (span_witness k) /\ xor_all (map key (span_witness k)) = bit k.
Proof.
  intro Hk. apply span_check_sound.
  pose proof sweep_span as H. rewrite forallb_forall in H.
  exact (H k (proj2 (In_all_sq k) Hk)).
Qed.

(** *** every unit vector is an xor of distinct piece keys *)
Theorem piece_keys_span_bits : forall k, k < 64 ->
  exists idxs, (forall i, In i idxs -> i < 768) /\ NoDup idxs /\ xor_all (map key idxs) = bit k.
Proof.
  intros k Hk. destruct (span_witness_ok k Hk) as [H1 [_ [H3 H4]]].
  exists (span_witness k). exact (conj H1 (conj H3 H4)).
Qed.

(** *** every 64-bit word is an xor of piece keys *)
Lemma piece_keys_span_bitlist : forall l, (forall k, In k l -> k < 64) ->
  exists idxs, (forall i, In i idxs -> i < 768) /\ xor_all (map key idxs) = xor_all (map bit l).
Proof.
  induction l as [|k l IH]; intro Hl.
  - exists []. split; [intros i []|reflexivity].
  - destruct (IH (fun x Hx => Hl x (or_intror Hx))) as [rest [Hr1 Hr2]].
    destruct (span_witness_ok k (Hl k (or_introl eq_refl))) as [H1 [_ [_ H4]]].
    exists (span_witness k ++ rest). split.
    + intros i Hi. apply in_app_or in Hi. destruct Hi as [Hi|Hi]; [exact (H1 i Hi)|exact (Hr1 i Hi)].
    + rewrite map_app, xor_all_app, H4, Hr2. reflexivity.
Qed.

Theorem piece_keys_span_all : forall v, wf64 v ->
  exists idxs, (forall i, In i idxs -> i < 768) /\ xor_all (map key idxs) = v.
Proof.
  intros v Hv.
  assert (Hv' : v < 2 ^ 64) by exact Hv.
  destruct (piece_keys_span_bitlist (squares_of v) (squares_of_lt64 v Hv')) as [idxs [H1 H2]].
  exists idxs. split; [exact H1|]. rewrite H2. apply xor_bits_squares_of.
Qed.

(** ** 4. meaning for the hash: toggling men moves the hash by any 64-bit difference *)
Definition pdec (n:N) : ptype :=
  match n with 0 => Pawn | 1 => Knight | 2 => Bishop | 3 => Rook | 4 => Queen | _ => King end.
Definition cdec (n:N) : color := match n with 0 => White | _ => Black end.
Definition decode (i:N) : ptype * N * color := (pdec ((i / 64) mod 6), i mod 64, cdec (i / 384)).

Definition decode_okb (i:N) : bool :=
  let '(p, s, c) := decode i in ((cidx c * 6 + pidx p) * 64 + s =? i) && (s <? 64).

Lemma sweep_decode : forallb decode_okb (upto 768) = true.
Proof. vm_cast_no_check (eq_refl true). Qed.

Lemma decode_ok i : i < 768 ->
  snd (fst (decode i)) < 64 /\
  zob_piece (fst (fst (decode i))) (snd (fst (decode i))) (snd (decode i)) = key i.
Proof.
  intro Hi. pose proof sweep_decode as H. rewrite forallb_forall in H.
  specialize (H i (In_upto 768 i Hi)). unfold decode_okb in H.
  destruct (decode i) as [[p s] c]. cbn [fst snd].
  apply andb_true_iff in H. destruct H as [E L].
  apply N.eqb_eq in E. apply N.ltb_lt in L.
  split; [exact L|]. unfold zob_piece, key. rewrite E. reflexivity.
Qed.

Definition toggle_all (b:board) (trs:list (ptype * N * color)) : board :=
  fold_right (fun '(p, s, c) acc => xor_piece acc p (bit s) c) b trs.

Lemma get_hash_toggle_all b trs : (forall t, In t trs -> snd (fst t) < 64) ->
  get_hash (toggle_all b trs) =
  N.lxor (get_hash b) (xor_all (map (fun t => zob_piece (fst (fst t)) (snd (fst t)) (snd t)) trs)).
Proof.
  induction trs as [|[[p s] c] trs IH]; intro H.
  - change (xor_all (map _ [])) with 0. rewrite N.lxor_0_r. reflexivity.
  - change (toggle_all b ((p, s, c) :: trs)) with (xor_piece (toggle_all b trs) p (bit s) c).
    rewrite (get_hash_piece _ p s c (H (p, s, c) (or_introl eq_refl))).
    rewrite (IH (fun t Ht => H t (or_intror Ht))).
    cbn [map fst snd]. rewrite xor_all_cons.
    rewrite N.lxor_assoc. f_equal. apply N.lxor_comm.
Qed.

Theorem hash_difference_surjective : forall b v, wf64 v ->
  exists trs : list (ptype * N * color),
    (forall p s c, In (p, s, c) trs -> s < 64) /\
    get_hash (fold_right (fun '(p, s, c) acc => xor_piece acc p (bit s) c) b trs)
      = N.lxor (get_hash b) v.
Proof.
  intros b v Hv. destruct (piece_keys_span_all v Hv) as [idxs [H1 H2]].
  exists (map decode idxs).
  assert (Hs : forall t, In t (map decode idxs) -> snd (fst t) < 64).
  { intros t Ht. apply in_map_iff in Ht. destruct Ht as [i [E Hi]]. subst t.
    exact (proj1 (decode_ok i (H1 i Hi))). }
  split.
  - intros p s c Hin. exact (Hs (p, s, c) Hin).
  - change (fold_right _ b (map decode idxs)) with (toggle_all b (map decode idxs)).
    rewrite (get_hash_toggle_all b _ Hs). f_equal. rewrite <- H2. f_equal.
    rewrite map_map. apply map_ext_in. intros i Hi.
    exact (proj2 (decode_ok i (H1 i Hi))).
Qed.

(** ** 5. rank: 64 of the keys span everything and are linearly independent.
    The witnesses of §3 only use keys of [basis_idx]; reading the 64 witness masks column-wise
    gives, for each basis key [j], a dual functional that is 1 on key [j] and 0 on the other
    basis keys — which forces linear independence. *)
Definition par_l (l:list N) (v:N) : bool := fold_right xorb false (map (N.testbit v) l).
Definition phi (d v:N) : bool := par_l all_sq (N.land v d).
Definition dual (j:N) : N := bb_of (fun k => N.testbit (nthN span_masks k 0) j).

Lemma par_l_zero l : par_l l 0 = false.
Proof.
  induction l as [|x l IH]; [reflexivity|].
  unfold par_l in *. cbn [map fold_right]. rewrite IH, N.bits_0. reflexivity.
Qed.

Lemma par_l_xor l a b : par_l l (N.lxor a b) = xorb (par_l l a) (par_l l b).
Proof.
  induction l as [|x l IH]; [reflexivity|].
  unfold par_l in *. cbn [map fold_right]. rewrite IH, N.lxor_spec.
  destruct (N.testbit a x), (N.testbit b x),
    (fold_right xorb false (map (N.testbit a) l)), (fold_right xorb false (map (N.testbit b) l));
    reflexivity.
Qed.

Lemma phi_zero d : phi d 0 = false.
Proof. unfold phi. rewrite N.land_0_l. apply par_l_zero. Qed.

Lemma phi_xor d a b : phi d (N.lxor a b) = xorb (phi d a) (phi d b).
Proof.
  unfold phi. rewrite <- par_l_xor. f_equal.
  apply N.bits_inj. intro k. rewrite !N.land_spec, !N.lxor_spec, !N.land_spec.
  destruct (N.testbit a k), (N.testbit b k), (N.testbit d k); reflexivity.
Qed.

Lemma sweep_dual :
  forallb (fun j => forallb (fun j' => Bool.eqb (phi (dual j) (key j')) (j =? j')) basis_idx)
    basis_idx = true.
Proof. vm_cast_no_check (eq_refl true). Qed.

Lemma dual_spec j j' : In j basis_idx -> In j' basis_idx -> phi (dual j) (key j') = (j =? j').
Proof.
  intros Hj Hj'. pose proof sweep_dual as H.
  rewrite forallb_forall in H. specialize (H j Hj). cbv beta in H.
  rewrite forallb_forall in H. specialize (H j' Hj').
  apply Bool.eqb_prop in H. exact H.
Qed.

Lemma len_basis : length basis_idx = 64%nat.
Proof. vm_cast_no_check (eq_refl 64%nat). Qed.
Lemma sweep_basis_nodup : nodupb basis_idx = true.
Proof. vm_cast_no_check (eq_refl true). Qed.
Lemma sweep_basis_lt : forallb (fun i => i <? 768) basis_idx = true.
Proof. vm_cast_no_check (eq_refl true). Qed.

Theorem basis_independent : forall T, T <> [] -> NoDup T -> incl T basis_idx ->
  xor_all (map key T) <> 0.
Proof.
  intros T Hne Hnd Hincl Hz.
  destruct T as [|j T']; [exact (Hne eq_refl)|].
  assert (Hj : In j basis_idx) by (apply Hincl; left; reflexivity).
  pose proof (linear_select (phi (dual j)) (phi_zero (dual j)) (phi_xor (dual j)) key j
                (j :: T') Hnd (fun x Hx => dual_spec j x Hj (Hincl x Hx))) as H.
  rewrite Hz, phi_zero in H. cbn [existsb] in H. rewrite N.eqb_refl in H. discriminate H.
Qed.

Theorem piece_keys_rank64 :
  exists J, length J = 64%nat /\ NoDup J /\ (forall i, In i J -> i < 768) /\
    (forall k, k < 64 ->
       exists idxs, incl idxs J /\ NoDup idxs /\ xor_all (map key idxs) = bit k) /\
    (forall T, T <> [] -> NoDup T -> incl T J -> xor_all (map key T) <> 0).
Proof.
  exists basis_idx. split; [exact len_basis|]. split; [exact (nodupb_NoDup _ sweep_basis_nodup)|].
  split; [|split].
  - intros i Hi. pose proof sweep_basis_lt as H. rewrite forallb_forall in H.
    apply N.ltb_lt. exact (H i Hi).
  - intros k Hk. destruct (span_witness_ok k Hk) as [_ [H2 [H3 H4]]].
    exists (span_witness k). exact (conj H2 (conj H3 H4)).
  - exact basis_independent.
Qed.

(** ** 6. each 32-bit half of the piece keys separates them *)
Definition hi32 (x:N) : N := N.shiftr x 32.
Definition lo32 (x:N) : N := N.land x 4294967295.

Lemma nthN_map (f:N->N) l i : f 0 = 0 -> nthN (map f l) i 0 = f (nthN l i 0).
Proof.
  intro H. unfold nthN.
  transitivity (nth (N.to_nat i) (map f l) (f 0)); [rewrite H; reflexivity | apply map_nth].
Qed.

Lemma sweep_hi_nodup : nodupb (map hi32 Z_PIECES) = true.
Proof. vm_cast_no_check (eq_refl true). Qed.
Lemma sweep_lo_nodup : nodupb (map lo32 Z_PIECES) = true.
Proof. vm_cast_no_check (eq_refl true). Qed.
Lemma sweep_hi_nonzero : forallb nonzerob (map hi32 Z_PIECES) = true.
Proof. vm_cast_no_check (eq_refl true). Qed.
Lemma sweep_lo_nonzero : forallb nonzerob (map lo32 Z_PIECES) = true.
Proof. vm_cast_no_check (eq_refl true). Qed.

Lemma half_distinct (f:N->N) : f 0 = 0 -> nodupb (map f Z_PIECES) = true ->
  forall i j, i < 768 -> j < 768 -> i <> j -> f (key i) <> f (key j).
Proof.
  intros H0 Hnd i j Hi Hj Hne Heq. apply Hne.
  apply (nodupb_nthN_inj (map f Z_PIECES) i j 0 Hnd).
  - rewrite map_length, len_pieces. lia.
  - rewrite map_length, len_pieces. lia.
  - rewrite !(nthN_map f _ _ H0). exact Heq.
Qed.

Lemma half_nonzero (f:N->N) : f 0 = 0 -> forallb nonzerob (map f Z_PIECES) = true ->
  forall i, i < 768 -> f (key i) <> 0.
Proof.
  intros H0 Hnz i Hi. apply nonzerob_spec. unfold key. rewrite <- (nthN_map f _ _ H0).
  apply forallb_nthN; [exact Hnz|]. rewrite map_length, len_pieces. lia.
Qed.

Theorem piece_keys_upper_distinct : forall i j, i < 768 -> j < 768 -> i <> j ->
  N.shiftr (key i) 32 <> N.shiftr (key j) 32.
Proof. exact (half_distinct hi32 eq_refl sweep_hi_nodup). Qed.

Theorem piece_keys_lower_distinct : forall i j, i < 768 -> j < 768 -> i <> j ->
  N.land (key i) 4294967295 <> N.land (key j) 4294967295.
Proof. exact (half_distinct lo32 eq_refl sweep_lo_nodup). Qed.

Theorem piece_keys_upper_nonzero : forall i, i < 768 -> N.shiftr (key i) 32 <> 0.
Proof. exact (half_nonzero hi32 eq_refl sweep_hi_nonzero). Qed.

Theorem piece_keys_lower_nonzero : forall i, i < 768 -> N.land (key i) 4294967295 <> 0.
Proof. exact (half_nonzero lo32 eq_refl sweep_lo_nonzero). Qed.

(** ** Examples: the hypotheses are satisfiable, the witnesses are non-trivial *)
Example ex_span_bit63 : xor_all (map key (span_witness 63)) = bit 63 /\ span_witness 63 <> [].
Proof. split; [exact (proj2 (proj2 (proj2 (span_witness_ok 63 eq_refl))))|]. vm_compute. discriminate. Qed.

Example ex_span_all_M64 : wf64 M64 /\
  exists idxs, (forall i, In i idxs -> i < 768) /\ xor_all (map key idxs) = M64.
Proof. split; [reflexivity|]. apply piece_keys_span_all. reflexivity. Qed.

Example ex_hash_difference : exists trs : list (ptype * N * color),
  (forall p s c, In (p, s, c) trs -> s < 64) /\
  get_hash (fold_right (fun '(p, s, c) acc => xor_piece acc p (bit s) c) board_new trs)
    = N.lxor (get_hash board_new) 1.
Proof. apply hash_difference_surjective. reflexivity. Qed.

Example ex_independent_pair :
  xor_all (map key (firstn 2 basis_idx)) <> 0 /\ length (firstn 2 basis_idx) = 2%nat.
Proof. split; [vm_compute; discriminate | vm_compute; reflexivity]. Qed.

Example ex_halves : (0 < 768 /\ 767 < 768 /\ 0 <> 767) /\
  N.shiftr (key 0) 32 <> N.shiftr (key 767) 32 /\
  N.land (key 0) 4294967295 <> N.land (key 767) 4294967295.
Proof.
  split; [repeat split; discriminate|].
  split; [apply piece_keys_upper_distinct | apply piece_keys_lower_distinct];
    first [reflexivity | discriminate].
Qed.
