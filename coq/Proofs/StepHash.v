(** * Proofs.StepHash — C08: the incrementally maintained Zobrist hash.
    [HashOK b]: the [hash] field is the xor of the keys of the men standing on the board.
    It holds for boards built from scratch, and is kept by [make_move_new] (legal moves of
    valid positions) and by [null_move].  With castle rights below 4, [get_hash b] is then a
    function [Hspec] of the abstract position only: two boards with the same abstraction
    have the same hash, whatever sequence of moves produced them. *)
From Coq Require Import Lia ZifyBool ZifyN ZifyNat.
From Chess Require Import Base.Bits Spec.Geometry Spec.Rules Model.Board Gen.Consts.
From Chess Require Import Proofs.BitsFacts Proofs.TablesLib Proofs.AbsBoard Proofs.NullMove
  Proofs.FiniteFnsEq Proofs.HashSeparation Proofs.CanonScratch Proofs.StepShape Proofs.StepApply Proofs.StepModel
  Proofs.StepClean Proofs.StepGeom Proofs.StepLink Proofs.StepPass.
Open Scope N_scope.

(** ** 1. the key sum of a position *)
Definition key_fold (p:pos) : N :=
  fold_left (fun h s => match at_ p s with
                        | Some (t,c) => N.lxor h (zob_piece t s c) | None => h end) all_sq 0.
Definition HashOK (b:board) : Prop := hash b = key_fold (abs_board b).

Lemma fold_key_xsum (p:pos) (l:list N) : forall h,
  fold_left (fun h s => match at_ p s with
                        | Some (t,c) => N.lxor h (zob_piece t s c) | None => h end) l h
  = N.lxor h (xsum (fun s => okey s (at_ p s)) l).
Proof.
  induction l as [|s l IH]; intro h; cbn [fold_left]; [rewrite N.lxor_0_r; reflexivity|].
  rewrite IH, xsum_cons. destruct (at_ p s) as [[t c]|]; cbn [okey]; xor_ring.
Qed.
Lemma key_fold_xsum p : key_fold p = xsum (fun s => okey s (at_ p s)) all_sq.
Proof. unfold key_fold. rewrite fold_key_xsum. apply N.lxor_0_l. Qed.
(** the form used in [Proofs/HashSeparation.v] *)
Lemma key_fold_pieces_hash p : key_fold p = pieces_hash (placement p).
Proof. apply key_fold_xsum. Qed.

Lemma key_fold_ext p q : (forall s, s < 64 -> at_ p s = at_ q s) -> key_fold p = key_fold q.
Proof.
  intro H. rewrite !key_fold_xsum. apply xsum_ext. intros s Hs. apply in_all_sq in Hs.
  rewrite (H s Hs). reflexivity.
Qed.

(** ** 2. boards built from scratch *)
Theorem hashok_place_all pcs : HashOK (place_all pcs).
Proof.
  unfold HashOK. rewrite hash_place_all, key_fold_xsum. unfold pieces_hash.
  apply xsum_ext. intros s Hs. apply in_all_sq in Hs. rewrite (at_place_all pcs s Hs). reflexivity.
Qed.

Lemma hashok_core a b : same_occ a b -> hash a = hash b -> HashOK b -> HashOK a.
Proof.
  intros Ho Hh H. unfold HashOK in *. rewrite Hh, H. apply key_fold_ext. intros s _.
  unfold at_. rewrite (placement_occ a b Ho). reflexivity.
Qed.

Theorem hashok_from_builder_raw bb : HashOK (from_builder_raw bb).
Proof.
  rewrite from_builder_raw_split.
  destruct (update_pin_info_same_core (raw_of_builder bb)) as [Ho [_ [_ [_ [Hh _]]]]].
  destruct (raw_of_builder_fields bb) as [Ho' [_ [_ [_ [Hh' _]]]]].
  apply (hashok_core _ (place_all (bpieces bb))).
  - exact (same_occ_trans _ _ _ Ho Ho').
  - congruence.
  - apply hashok_place_all.
Qed.
Theorem hashok_from_scratch p : HashOK (from_scratch p).
Proof. apply hashok_from_builder_raw. Qed.

Theorem hashok_null_move b b' : HashOK b -> null_move b = Some b' -> HashOK b'.
Proof.
  intros H E. destruct (null_move_fields b b' E) as [Ho [_ [_ [_ [Hh _]]]]].
  exact (hashok_core b' b Ho Hh H).
Qed.

(** ** 3. the key step: a legal move keeps [HashOK] *)
Lemma xsum_lxor f g l : xsum (fun k => N.lxor (f k) (g k)) l = N.lxor (xsum f l) (xsum g l).
Proof.
  induction l as [|x l IH]; [reflexivity|]. rewrite !xsum_cons, IH. xor_ring.
Qed.
Lemma xsum_zero l : xsum (fun _ => 0) l = 0.
Proof. induction l as [|x l IH]; [reflexivity|]. rewrite xsum_cons, IH. reflexivity. Qed.
Lemma xsum_indicator (f:N->N) t l : NoDup l -> In t l ->
  xsum (fun k => if k =? t then f k else 0) l = f t.
Proof.
  induction 1 as [|x l Hx Hnd IH]; intro Hin; [destruct Hin|].
  rewrite xsum_cons. destruct (N.eqb_spec x t) as [->|Hne].
  - rewrite (xsum_ext _ (fun _ => 0)), xsum_zero; [apply N.lxor_0_r|].
    intros s Hs. destruct (N.eqb_spec s t) as [->|_]; [contradiction|reflexivity].
  - destruct Hin as [Hin|Hin]; [contradiction|]. rewrite (IH Hin). apply N.lxor_0_l.
Qed.

Lemma keys_fold k X : forall h,
  fold_left (fun h (m:man) => N.lxor h (zob_piece (fst m) k (snd m))) X h = N.lxor h (keys k X).
Proof.
  induction X as [|x X IH]; intro h; [cbn; rewrite N.lxor_0_r; reflexivity|].
  unfold keys. cbn [fold_left]. rewrite !IH. xor_ring.
Qed.
Lemma keys_app k X Y : keys k (X ++ Y) = N.lxor (keys k X) (keys k Y).
Proof. unfold keys at 1. rewrite fold_left_app. fold (keys k X). apply keys_fold. Qed.
Lemma hfold_shift T : forall h, hfold T h = N.lxor h (hfold T 0).
Proof.
  induction T as [|g T IH]; intro h; [cbn; rewrite N.lxor_0_r; reflexivity|].
  unfold hfold in *. cbn [fold_left]. rewrite IH, (IH (N.lxor 0 (hk g))). xor_ring.
Qed.

Lemma hfold_cons g T : hfold (g :: T) 0 = N.lxor (hk g) (hfold T 0).
Proof.
  unfold hfold at 1. cbn [fold_left]. fold (hfold T (N.lxor 0 (hk g))).
  rewrite hfold_shift, N.lxor_0_l. reflexivity.
Qed.

(** summing the per-square key changes over the board gives the keys of all toggles *)
Lemma xsum_keys_togs T : Forall (fun g => tog_sq g < 64) T ->
  xsum (fun k => keys k (togs_at k T)) all_sq = hfold T 0.
Proof.
  induction 1 as [|[[p t] c] T Ht _ IH].
  - cbn [togs_at flat_map]. apply xsum_zero.
  - unfold tog_sq in Ht.
    rewrite (xsum_ext _ (fun k => N.lxor (if k =? t then zob_piece p k c else 0)
                                         (keys k (togs_at k T)))).
    + rewrite xsum_lxor, IH, (xsum_indicator (fun k => zob_piece p k c) t all_sq NoDup_all_sq)
        by (apply in_all_sq; exact Ht).
      rewrite hfold_cons. reflexivity.
    + intros k _. rewrite togs_at_cons, keys_app. destruct (k =? t); [|reflexivity].
      unfold keys at 1. cbn [fold_left fst snd]. rewrite N.lxor_0_l. reflexivity.
Qed.

Theorem hashok_step b m b' : StepHyp b m -> HashOK b ->
  make_move_new b (src m) (dst m) (promo m) = Some b' -> HashOK b'.
Proof.
  intros H Hh E. pose proof (step_squares b m b' H E) as [_ [S2 _]].
  destruct (step_master b m H) as [moved [b2 [E2 [Ha [Hs [Hd [Hown [Hlt [_ [Hcl [D2 _]]]]]]]]]]].
  rewrite E in E2. injection E2 as <-.
  unfold HashOK in *. rewrite D2, hfold_shift, Hh, !key_fold_xsum.
  rewrite <- (xsum_keys_togs _ Hlt), <- xsum_lxor. apply xsum_ext.
  intros k Hk. apply in_all_sq in Hk. cbv beta.
  rewrite (at_abs_dec b' k Hk), (S2 k Hk), (at_apply _ _ _ (abs_len b) Hs Hd).
  exact (proj2 (Hcl k)).
Qed.

(** ** 4. [get_hash] as a function of the abstract position *)
Definition cr_of (k q:bool) : N := (if k then 1 else 0) + (if q then 2 else 0).
Definition Hspec (p:pos) : N :=
  N.lxor (N.lxor (N.lxor (N.lxor (key_fold p)
     (match ep p with Some t => zob_ep (file_of t) (opp (turn p)) | None => 0 end))
     (zob_castles (cr_of (wk p) (wq p)) White))
     (zob_castles (cr_of (bk p) (bq p)) Black))
     (match turn p with Black => zob_color | White => 0 end).

Lemma cr_of_bits cr : cr < 4 -> cr = cr_of (N.testbit cr 0) (N.testbit cr 1).
Proof.
  intro H. assert (C : cr = 0 \/ cr = 1 \/ cr = 2 \/ cr = 3) by lia.
  destruct C as [ -> | [ -> | [ -> | -> ] ] ]; reflexivity.
Qed.
Lemma sq_file_uforward c e : file_of (uforward c e) = sq_file e.
Proof.
  change (file_of (uforward c e)) with (sq_file (uforward c e)).
  destruct c; unfold uforward, uup, udown; rewrite sq_file_mk_sq_land;
    unfold sq_file; rewrite <- N.land_assoc; reflexivity.
Qed.

Theorem get_hash_abs b : HashOK b -> crW b < 4 -> crB b < 4 -> get_hash b = Hspec (abs_board b).
Proof.
  intros Hh HW HB. rewrite get_hash_norm. unfold Hspec, abs_board at 2 3 4 5 6 7 8.
  cbn [ep turn wk wq bk bq]. unfold cr_has_kingside, cr_has_queenside.
  rewrite <- (cr_of_bits _ HW), <- (cr_of_bits _ HB), <- Hh.
  unfold ep_term, side_term.
  destruct (epsq b) as [e|]; [rewrite sq_file_uforward|]; reflexivity.
Qed.

Theorem path_independent b1 b2 :
  HashOK b1 -> crW b1 < 4 -> crB b1 < 4 -> HashOK b2 -> crW b2 < 4 -> crB b2 < 4 ->
  abs_board b1 = abs_board b2 -> get_hash b1 = get_hash b2.
Proof.
  intros H1 W1 B1 H2 W2 B2 E. rewrite (get_hash_abs b1), (get_hash_abs b2) by assumption.
  rewrite E. reflexivity.
Qed.

(** ** 5. the boards reached by play *)
Record Inv (b:board) : Prop := mkInv {
  inv_cons : Consistent b; inv_hash : HashOK b; inv_crW : crW b < 4; inv_crB : crB b < 4;
  inv_ep : ep_wf b; inv_valid : pos_valid (abs_board b) = true }.

(** from any board satisfying the invariant: legal moves (of the abstraction) applied by
    [make_move_new], and null moves made when the side to move is not in check *)
Inductive ReachFrom (b0:board) : board -> Prop :=
| RF_start : ReachFrom b0 b0
| RF_move b m b' : ReachFrom b0 b -> In m (legal_moves (abs_board b)) ->
    make_move_new b (src m) (dst m) (promo m) = Some b' -> ReachFrom b0 b'
| RF_null b b' : ReachFrom b0 b -> in_check (abs_board b) (stm b) = false ->
    null_move b = Some b' -> ReachFrom b0 b'.
Definition ReachB (p0:pos) : board -> Prop := ReachFrom (from_scratch p0).

Definition valid_step_hyp : Prop :=
  forall p m, pos_valid p = true -> In m (legal_moves p) -> pos_valid (apply p m) = true.

Theorem inv_move : valid_step_hyp -> forall b m b', Inv b -> In m (legal_moves (abs_board b)) ->
  make_move_new b (src m) (dst m) (promo m) = Some b' -> Inv b'.
Proof.
  intros VS b m b' [HC Hh HW HB Hwf HV] HL E.
  assert (H : StepHyp b m) by (constructor; assumption).
  destruct (step_squares b m b' H E) as [_ [_ HC']].
  destruct (step_invariants b m b' H E) as [Hwf' [HW' HB']].
  constructor; try assumption.
  - exact (hashok_step b m b' H Hh E).
  - rewrite (step_abs b m b' H E). exact (VS _ _ HV HL).
Qed.

Theorem inv_null b b' : Inv b -> in_check (abs_board b) (stm b) = false ->
  null_move b = Some b' -> Inv b'.
Proof.
  intros [HC Hh HW HB Hwf HV] Hc E.
  destruct (null_move_fields b b' E) as [Ho [H1 [H2 [H3 [H4 H5]]]]].
  constructor.
  - exact (consistent_occ b b' (same_occ_sym _ _ Ho) HC).
  - exact (hashok_null_move b b' Hh E).
  - rewrite H2. exact HW.
  - rewrite H3. exact HB.
  - intros e He. rewrite H5 in He. discriminate He.
  - rewrite (null_move_abs b b' E). apply pos_valid_pass; [exact HV|exact Hc].
Qed.

Theorem reach_inv : valid_step_hyp -> forall b0 b, Inv b0 -> ReachFrom b0 b -> Inv b.
Proof.
  intros VS b0 b H0 R. induction R as [|b m b' R IH HL E|b b' R IH Hc E].
  - exact H0.
  - exact (inv_move VS b m b' IH HL E).
  - exact (inv_null b b' IH Hc E).
Qed.

(** the from-scratch board of a position satisfies the invariant as soon as its abstraction is
    valid (for a valid [p0] that the board abstracts back to, that is [pos_valid p0]) *)
Theorem inv_from_scratch p0 : pos_valid (abs_board (from_scratch p0)) = true -> Inv (from_scratch p0).
Proof.
  intro HV. destruct (fbr_fields (builder_of_pos p0)) as [_ [Hs [HW [HB He]]]].
  fold (from_scratch p0) in Hs, HW, HB, He.
  constructor.
  - apply from_scratch_consistent.
  - apply hashok_from_scratch.
  - rewrite HW. apply land3_lt.
  - rewrite HB. apply land3_lt.
  - intros e Hep. destruct He as [He|[f [Hf He]]]; [congruence|].
    rewrite He in Hep. injection Hep as <-. rewrite Hs. cbn [builder_of_pos bstm bep] in *.
    destruct (ep p0) as [t|]; [|discriminate Hf]. injection Hf as <-.
    assert (Hf8 : file_of t < 8) by apply sq_file_lt8.
    split; [apply FiniteFnsEq.mk_sq_lt64|].
    apply FiniteFnsEq.sq_rank_mk_sq; [destruct (opp (turn p0)); cbn; lia|exact Hf8].
  - exact HV.
Qed.

Theorem reach_hash : valid_step_hyp -> forall p0 b,
  pos_valid (abs_board (from_scratch p0)) = true -> ReachB p0 b ->
  get_hash b = Hspec (abs_board b).
Proof.
  intros VS p0 b HV R.
  destruct (reach_inv VS _ b (inv_from_scratch p0 HV) R) as [_ Hh HW HB _ _].
  exact (get_hash_abs b Hh HW HB).
Qed.

(** path independence: two boards reached by any two sequences of play, from any two start
    positions, that show the same abstract position have the same hash — in particular the
    hash of the from-scratch board of that position when it is valid *)
Theorem reach_path_independent : valid_step_hyp -> forall p1 p2 b1 b2,
  pos_valid (abs_board (from_scratch p1)) = true -> pos_valid (abs_board (from_scratch p2)) = true ->
  ReachB p1 b1 -> ReachB p2 b2 -> abs_board b1 = abs_board b2 -> get_hash b1 = get_hash b2.
Proof.
  intros VS p1 p2 b1 b2 V1 V2 R1 R2 E.
  rewrite (reach_hash VS p1 b1 V1 R1), (reach_hash VS p2 b2 V2 R2), E. reflexivity.
Qed.
