(** * Property C11 (part b) — the draw claim of [Game] agrees with the rules of [Spec/Draw.v].

    "A draw can be claimed exactly when the game has no result and either the current
    position has occurred at least three times in the game (same placement, side to move,
    castling rights and en-passant possibility) or the last 100 half-moves contained no pawn
    move and no capture."

    [Properties/C11.v] proves what [can_declare_draw] computes at the level of the model
    (counter since the last pawn move or capture; keys of the boards since the last pawn
    move, capture or change of castling rights).  This file proves the two statements that
    [Proofs/GameClaims.v] left open, [C11_claim_complete_full] and [C11_claim_sound_full],
    for every game reachable (by any calls of the [Game] interface) from the from-scratch
    board of a valid position:

    - A [C11_history_refines]: the logged moves are a legal path of the specification and the
      boards of the game are the from-scratch boards of [Spec.Draw.positions];
    - B [C11_clock_is_spec_clock]: the model's counter is [Spec.Draw.clock];
    - D [C11_mu_step], [C11_mu_monotone], [C11_no_recurrence]: a measure that never increases
      and strictly decreases with every pawn move, capture or change of castling rights, so a
      position cannot recur across such a move;
    - C [C11_keys_window]: the key list holds the keys of the last positions of the game, and
      all occurrences of the final position lie among them;
    - E [C11_claim_complete], [C11_claim_sound], [C11_claim_iff].

    Lemmas: [Proofs/DrawMeasure.v], [Proofs/DrawHistory.v]; examples: [Proofs/DrawExamples.v].
    They rest on the move-generator refinement ([GenAsmFinal.T_gen_legal_query]), the
    move-application refinement ([StepCanon.step_from_scratch_board]), the round trip
    ([RoundTripMain]) and the specification invariants ([SpecInvGoals]).

    The only hypothesis beyond validity of the start position is [NoHashCollision] (soundness
    only): two boards of the game with the same key (64-bit hash, legal-move list) show the
    same position.  It cannot be dropped: the library compares keys, not positions. *)
From Coq Require Import NArith List.
From Chess Require Import Spec.Rules Spec.Draw Model.Board Model.MoveGen Model.Game.
From Chess Require Import Proofs.GameScan Proofs.GameProtocol Proofs.GameClaims Proofs.SpecInvGoals
  Proofs.DrawMeasure Proofs.DrawHistory Proofs.DrawExamples.
Import ListNotations.
Open Scope N_scope.

(** ** 0. [pos_eqb] ("same placement, side to move, castling rights and en-passant state") is equality *)
Theorem C11_pos_eqb_eq : forall a b, pos_eqb a b = true <-> a = b.
Proof. exact pos_eqb_eq. Qed.
Check C11_pos_eqb_eq : forall a b, pos_eqb a b = true <-> a = b.
Print Assumptions C11_pos_eqb_eq.

(** ** A. The history of a reachable game is a history of the specification *)
Theorem C11_history_refines : forall p0, pos_valid p0 = true ->
  forall g, Reachable (from_scratch p0) g ->
  LegalPath p0 (log_moves (actions g)) /\
  current_position g = Some (from_scratch (final_pos p0 (log_moves (actions g)))) /\
  history (from_scratch p0) (actions g) = map from_scratch (positions p0 (log_moves (actions g))).
Proof. exact history_refines. Qed.
Check C11_history_refines : forall p0, pos_valid p0 = true ->
  forall g, Reachable (from_scratch p0) g ->
  LegalPath p0 (log_moves (actions g)) /\
  current_position g = Some (from_scratch (final_pos p0 (log_moves (actions g)))) /\
  history (from_scratch p0) (actions g) = map from_scratch (positions p0 (log_moves (actions g))).
Print Assumptions C11_history_refines.

(** one step of it: a move the library accepts on the from-scratch board of a valid position
    is a legal move of the specification and leads to the from-scratch board of the successor *)
Theorem C11_legal_step : forall p m, pos_valid p = true -> legal (from_scratch p) m = true ->
  In (to_spec_move m) (legal_moves p) /\
  mm (from_scratch p) m = Some (from_scratch (apply p (to_spec_move m))).
Proof. exact sb_legal. Qed.
Check C11_legal_step : forall p m, pos_valid p = true -> legal (from_scratch p) m = true ->
  In (to_spec_move m) (legal_moves p) /\
  mm (from_scratch p) m = Some (from_scratch (apply p (to_spec_move m))).
Print Assumptions C11_legal_step.

(** ** B. The counter *)
Theorem C11_zeroing_agree : forall p m, pos_valid p = true -> In m (legal_moves p) ->
  zeroing_m (from_scratch p) (of_spec_move m) = zeroing p m.
Proof. exact zeroing_agree. Qed.
Check C11_zeroing_agree : forall p m, pos_valid p = true -> In m (legal_moves p) ->
  zeroing_m (from_scratch p) (of_spec_move m) = zeroing p m.
Print Assumptions C11_zeroing_agree.

Theorem C11_clock_is_spec_clock : forall p0, pos_valid p0 = true ->
  forall g, Reachable (from_scratch p0) g -> clock_g g = clock p0 (log_moves (actions g)).
Proof. exact clock_is_spec_clock. Qed.
Check C11_clock_is_spec_clock : forall p0, pos_valid p0 = true ->
  forall g, Reachable (from_scratch p0) g -> clock_g g = clock p0 (log_moves (actions g)).
Print Assumptions C11_clock_is_spec_clock.

(** ** D. No recurrence across a pawn move, a capture or a change of castling rights *)
(** [mu p] = sum of the weights of the men (piece 8, white pawn on rank r: 16 - r, black pawn on
    rank r: 9 + r) + number of castling rights; [rights p] = number of castling rights *)
Theorem C11_mu_step : forall p m, pos_valid p = true -> In m (legal_moves p) ->
  (mu (apply p m) <= mu p)%nat /\
  (zeroing p m = true -> (mu (apply p m) < mu p)%nat) /\
  (rights (apply p m) <> rights p -> (mu (apply p m) < mu p)%nat).
Proof. exact mu_step. Qed.
Check C11_mu_step : forall p m, pos_valid p = true -> In m (legal_moves p) ->
  (mu (apply p m) <= mu p)%nat /\
  (zeroing p m = true -> (mu (apply p m) < mu p)%nat) /\
  (rights (apply p m) <> rights p -> (mu (apply p m) < mu p)%nat).
Print Assumptions C11_mu_step.

Theorem C11_mu_monotone : forall p ms, pos_valid p = true -> LegalPath p ms ->
  forall q, In q (positions p ms) -> (mu (final_pos p ms) <= mu q)%nat.
Proof. exact mu_monotone. Qed.
Check C11_mu_monotone : forall p ms, pos_valid p = true -> LegalPath p ms ->
  forall q, In q (positions p ms) -> (mu (final_pos p ms) <= mu q)%nat.
Print Assumptions C11_mu_monotone.

(** [clearing p m = zeroing p m || negb (same_rights (apply p m) p)] *)
Theorem C11_no_recurrence : forall p ms m ns, pos_valid p = true -> LegalPath p (ms ++ m :: ns) ->
  clearing (final_pos p ms) m = true ->
  forall q, In q (positions p ms) -> pos_eqb (final_pos p (ms ++ m :: ns)) q = false.
Proof. exact no_recurrence. Qed.
Check C11_no_recurrence : forall p ms m ns, pos_valid p = true -> LegalPath p (ms ++ m :: ns) ->
  clearing (final_pos p ms) m = true ->
  forall q, In q (positions p ms) -> pos_eqb (final_pos p (ms ++ m :: ns)) q = false.
Print Assumptions C11_no_recurrence.

(** ** C. The key list is a window of the positions that contains every occurrence of the
    final position *)
Theorem C11_keys_window : forall p0, pos_valid p0 = true -> forall g, Reachable (from_scratch p0) g ->
  exists P1 W, positions p0 (log_moves (actions g)) = P1 ++ W /\
    keys_g g = map (fun q => pos_key (from_scratch q)) W /\
    (forall q, In q P1 -> pos_eqb (final_pos p0 (log_moves (actions g))) q = false) /\
    rep_count p0 (log_moves (actions g)) =
      N.of_nat (length (filter (pos_eqb (final_pos p0 (log_moves (actions g)))) W)).
Proof. exact keys_window_reach. Qed.
Check C11_keys_window : forall p0, pos_valid p0 = true -> forall g, Reachable (from_scratch p0) g ->
  exists P1 W, positions p0 (log_moves (actions g)) = P1 ++ W /\
    keys_g g = map (fun q => pos_key (from_scratch q)) W /\
    (forall q, In q P1 -> pos_eqb (final_pos p0 (log_moves (actions g))) q = false) /\
    rep_count p0 (log_moves (actions g)) =
      N.of_nat (length (filter (pos_eqb (final_pos p0 (log_moves (actions g)))) W)).
Print Assumptions C11_keys_window.

(** ** E. The claim *)
(** completeness: exactly the statement [C11_claim_complete_full] of [Proofs/GameClaims.v] *)
Theorem C11_claim_complete : C11_claim_complete_full.
Proof. exact claim_complete. Qed.
Check C11_claim_complete :
  forall p0, pos_valid p0 = true ->
  forall g, Reachable (from_scratch p0) g ->
    has_result g = Some false ->
    can_claim (abs_board (from_scratch p0)) (log_moves (actions g)) = true ->
    can_declare_draw g = Some true.
Print Assumptions C11_claim_complete.

(** soundness: exactly the statement [C11_claim_sound_full] of [Proofs/GameClaims.v] *)
Theorem C11_claim_sound : C11_claim_sound_full.
Proof. exact claim_sound. Qed.
Check C11_claim_sound :
  forall p0, pos_valid p0 = true ->
  forall g, Reachable (from_scratch p0) g ->
    NoHashCollision (from_scratch p0) (actions g) ->
    can_declare_draw g = Some true ->
    can_claim (abs_board (from_scratch p0)) (log_moves (actions g)) = true.
Print Assumptions C11_claim_sound.

(** both, with [abs_board (from_scratch p0)] replaced by [p0] *)
Theorem C11_claim_iff : forall p0, pos_valid p0 = true -> forall g, Reachable (from_scratch p0) g ->
  NoHashCollision (from_scratch p0) (actions g) ->
  (can_declare_draw g = Some true <->
   has_result g = Some false /\ can_claim p0 (log_moves (actions g)) = true).
Proof. exact claim_iff. Qed.
Check C11_claim_iff : forall p0, pos_valid p0 = true -> forall g, Reachable (from_scratch p0) g ->
  NoHashCollision (from_scratch p0) (actions g) ->
  (can_declare_draw g = Some true <->
   has_result g = Some false /\ can_claim p0 (log_moves (actions g)) = true).
Print Assumptions C11_claim_iff.

(** ** Examples: the hypotheses are satisfiable (knight shuffle from the start position, twice:
    [g8]; once: [g4]) and claim and rule agree on them *)
Example C11_example_hypotheses :
  pos_valid startpos = true /\ Reachable (from_scratch startpos) GameExamples.g8 /\
  NoHashCollision (from_scratch startpos) (actions GameExamples.g8) /\
  has_result GameExamples.g8 = Some false.
Proof.
  exact (conj startpos_valid (conj g8_reachable_fs (conj g8_no_collision GameExamples.g8_open))).
Qed.
Example C11_example_agree :
  can_claim startpos (log_moves (actions GameExamples.g8)) = true /\
  can_declare_draw GameExamples.g8 = Some true /\
  can_claim startpos (log_moves (actions GameExamples.g4)) = false /\
  can_declare_draw GameExamples.g4 = Some false.
Proof. vm_compute. repeat split. Qed.
Print Assumptions C11_example_hypotheses.
Print Assumptions C11_example_agree.
